(* C11 -- viscoelastic models dissipate, relax and keep viscous flow isochoric: property theorems only.
   Subjects: the kernels regenerated from /repo on every run (gen/Gen_HyperViscoelastic.v, Gen_MultiBranchHyperViscoelastic.v,
   Gen_ViscoState.v, Gen_TensorMath.v) at T := R, composed as in the material factories (model/M_C11.v, model/M_C08.v).
   lss stands for TensorMath.log_sqrt_symm and expm for jax.scipy.linalg.expm: the theorems hold for EVERY function lss, and
   for every expm with det(expm A) = exp(tr A); the relaxation theorems assume in addition the coaxial update identity Hcoax
   (exact for the true matrix logarithm / exponential because the increment is a multiple of the deviator of the trial strain).
   fac dt tau = 1/(1+dt/tau) is the integration factor; nds E = |dev E|^2; Etrial lss H Fv is the trial logarithmic strain. *)
From Coq Require Import Reals List.
From OV.base Require Import Num.
From OV.model Require Import M_C08 M_C11.
From OV.proofs Require Import L_C08 L_C11a L_C11.
Import ListNotations.
Local Open Scope R_scope.

Theorem C11_integration_factor : forall dt tau, 0 < dt -> 0 < tau -> 0 < fac dt tau < 1.
Proof. exact fac_pos. Qed.

(* ---- dissipated energy (compute_material_qoi) is non-negative, with its closed form *)
Theorem C11_dissipation_nonneg : forall (lss : M -> M) (K G Gn tau : R), 0 < tau ->
  forall (Fv : M) (dt : R) (H : M), 0 < dt -> 0 <= Gn -> 0 <= D_hv lss (K, G, Gn, tau) Fv dt H.
Proof. exact D_hv_nonneg. Qed.
Theorem C11_dissipation_closed_form : forall (lss : M -> M) (K G Gn tau : R), 0 < tau ->
  forall (Fv : M) (dt : R) (H : M), 0 < dt ->
  D_hv lss (K, G, Gn, tau) Fv dt H = Gn * nds (Etrial lss H Fv) * (dt / tau) * (fac dt tau * fac dt tau).
Proof. exact D_hv_closed. Qed.
Theorem C11_dissipation_nonneg_three_branch : forall (lss : M -> M) (p : @p8 R),
  (forall n, 0 < taub n p) -> (forall n, 0 <= Gb n p) ->
  forall (Fv1 Fv2 Fv3 : M) (dt : R) (H : M), 0 < dt -> 0 <= D_mb lss p Fv1 Fv2 Fv3 dt H.
Proof. exact D_mb_nonneg. Qed.

(* ---- the state increment is deviatoric, hence the viscous distortion keeps its determinant *)
Theorem C11_increment_deviatoric : forall K G Gn tau dt (E : M), 0 < dt -> 0 < tau -> mtrace (inc_hv (K, G, Gn, tau) dt E) = 0.
Proof. exact inc_trace. Qed.
Theorem C11_increment_deviatoric_three_branch : forall n (p : @p8 R) dt (E : M), 0 < dt -> 0 < taub n p -> mtrace (inc_b n p dt E) = 0.
Proof. exact inc_b_trace. Qed.
Theorem C11_isochoric : forall (lss expm : M -> M) (K G Gn tau : R), 0 < tau ->
  (forall A : M, mdet (expm A) = exp (mtrace A)) ->
  forall (Fv : M) (dt : R) (H : M), 0 < dt -> mdet (state_new_hv lss expm (K, G, Gn, tau) Fv dt H) = mdet Fv.
Proof. exact state_new_hv_det. Qed.
Theorem C11_isochoric_three_branch : forall (lss expm : M -> M) (p : @p8 R), (forall n, 0 < taub n p) ->
  (forall A : M, mdet (expm A) = exp (mtrace A)) ->
  forall (n : nat) (Fv : M) (dt : R) (H : M), 0 < dt -> mdet (state_new_b n lss expm p Fv dt H) = mdet Fv.
Proof. exact state_new_b_det. Qed.

(* ---- energy in closed form: equilibrium energy + sum over branches of G |dev E_trial|^2 / (1 + dt/tau) *)
Theorem C11_energy_closed_form : forall (lss : M -> M) (K G Gn tau : R), 0 < tau ->
  forall (Fv : M) (dt : R) (H : M), 0 < dt ->
  E_hv lss (K, G, Gn, tau) Fv dt H = E_hv_eq (K, G, Gn, tau) H + Gn * nds (Etrial lss H Fv) * fac dt tau.
Proof. exact E_hv_closed. Qed.
Theorem C11_energy_closed_form_three_branch : forall (lss : M -> M) (p : @p8 R), (forall n, 0 < taub n p) ->
  forall (Fv1 Fv2 Fv3 : M) (dt : R) (H : M), 0 < dt ->
  E_mb lss p Fv1 Fv2 Fv3 dt H
  = E_mb_eq p H + cb lss p 0 H Fv1 * fac dt (taub 0 p) + cb lss p 1 H Fv2 * fac dt (taub 1 p) + cb lss p 2 H Fv3 * fac dt (taub 2 p).
Proof. exact E_mb_closed. Qed.

(* ---- relaxation while the deformation is held: every further step multiplies the stored non-equilibrium energy that the
        model reports by fac^2 < 1; along any sequence of positive steps it never increases *)
Theorem C11_relaxation_step : forall (lss expm : M -> M) (K G Gn tau : R), 0 < tau -> forall H : M,
  (forall (Fv : M) (dt : R), 0 < dt ->
     Etrial lss H (state_new_hv lss expm (K, G, Gn, tau) Fv dt H) = relax_hv (K, G, Gn, tau) dt (Etrial lss H Fv)) ->
  forall (Fv : M) (dt dt' : R), 0 < dt -> 0 < dt' -> 0 <= Gn ->
  Wneq_reported_hv lss (K, G, Gn, tau) (state_new_hv lss expm (K, G, Gn, tau) Fv dt H) dt' H
  = fac dt' tau * fac dt' tau * Wneq_reported_hv lss (K, G, Gn, tau) Fv dt H
  /\ Wneq_reported_hv lss (K, G, Gn, tau) (state_new_hv lss expm (K, G, Gn, tau) Fv dt H) dt' H
     <= Wneq_reported_hv lss (K, G, Gn, tau) Fv dt H.
Proof. exact relaxation_step. Qed.
Theorem C11_relaxation_monotone : forall (lss expm : M -> M) (K G Gn tau : R), 0 < tau -> forall H : M,
  (forall (Fv : M) (dt : R), 0 < dt ->
     Etrial lss H (state_new_hv lss expm (K, G, Gn, tau) Fv dt H) = relax_hv (K, G, Gn, tau) dt (Etrial lss H Fv)) ->
  forall dts : list R, Forall (fun dt => 0 < dt) dts -> 0 <= Gn ->
  forall Fv : M, nonincreasing (reported lss expm K G Gn tau H Fv dts).
Proof. exact relaxation_monotone. Qed.
Theorem C11_relaxation_step_three_branch : forall (lss expm : M -> M) (p : @p8 R),
  (forall n, 0 < taub n p) -> (forall n, 0 <= Gb n p) -> forall H : M,
  (forall (n : nat) (Fv : M) (dt : R), 0 < dt ->
     Etrial_mb lss H (state_new_b n lss expm p Fv dt H) = relax_b n p dt (Etrial_mb lss H Fv)) ->
  forall (n : nat) (Fv : M) (dt dt' : R), 0 < dt -> 0 < dt' ->
  Wneq_reported_b n lss p (state_new_b n lss expm p Fv dt H) dt' H
  = fac dt' (taub n p) * fac dt' (taub n p) * Wneq_reported_b n lss p Fv dt H
  /\ Wneq_reported_b n lss p (state_new_b n lss expm p Fv dt H) dt' H <= Wneq_reported_b n lss p Fv dt H.
Proof. exact relaxation_step_b. Qed.

(* ---- the two limits: explicit bounds, and the epsilon statements.  W_inst = equilibrium energy + G |dev E_trial|^2 (all
        branches elastic), W_eq = equilibrium hyperelastic energy.  They hold for every state; for a virgin material
        (Fv = identity) E_trial is the logarithmic strain of the deformation itself. *)
Theorem C11_bound_small_step : forall (lss : M -> M) (K G Gn tau : R) (Fv H : M), 0 < tau -> 0 <= Gn -> forall dt, 0 < dt ->
  Rabs (E_hv lss (K, G, Gn, tau) Fv dt H - W_inst_hv lss K G Gn tau Fv H) <= Gn * nds (Etrial lss H Fv) * (dt / tau).
Proof. exact hv_bound_small_dt. Qed.
Theorem C11_bound_large_step : forall (lss : M -> M) (K G Gn tau : R) (Fv H : M), 0 < tau -> 0 <= Gn -> forall dt, 0 < dt ->
  Rabs (E_hv lss (K, G, Gn, tau) Fv dt H - W_eq_hv K G Gn tau H) <= Gn * nds (Etrial lss H Fv) * (tau / dt).
Proof. exact hv_bound_large_dt. Qed.
Theorem C11_limit_instantaneous : forall (lss : M -> M) (K G Gn tau : R) (Fv H : M), 0 < tau -> 0 <= Gn -> forall eps, 0 < eps ->
  exists delta, 0 < delta /\ forall dt, 0 < dt < delta -> Rabs (E_hv lss (K, G, Gn, tau) Fv dt H - W_inst_hv lss K G Gn tau Fv H) < eps.
Proof. exact hv_limit_dt_to_0. Qed.
Theorem C11_limit_equilibrium : forall (lss : M -> M) (K G Gn tau : R) (Fv H : M), 0 < tau -> 0 <= Gn -> forall eps, 0 < eps ->
  exists T, 0 < T /\ forall dt, T < dt -> Rabs (E_hv lss (K, G, Gn, tau) Fv dt H - W_eq_hv K G Gn tau H) < eps.
Proof. exact hv_limit_dt_to_infinity. Qed.
Theorem C11_bound_small_step_three_branch : forall (lss : M -> M) (p : @p8 R) (Fv1 Fv2 Fv3 H : M),
  (forall n, 0 < taub n p) -> (forall n, 0 <= Gb n p) -> forall dt, 0 < dt ->
  Rabs (E_mb lss p Fv1 Fv2 Fv3 dt H - W_inst_mb lss p Fv1 Fv2 Fv3 H)
  <= cb lss p 0 H Fv1 * (dt / taub 0 p) + cb lss p 1 H Fv2 * (dt / taub 1 p) + cb lss p 2 H Fv3 * (dt / taub 2 p).
Proof. exact mb_bound_small_dt. Qed.
Theorem C11_bound_large_step_three_branch : forall (lss : M -> M) (p : @p8 R) (Fv1 Fv2 Fv3 H : M),
  (forall n, 0 < taub n p) -> (forall n, 0 <= Gb n p) -> forall dt, 0 < dt ->
  Rabs (E_mb lss p Fv1 Fv2 Fv3 dt H - W_eq_mb p H)
  <= cb lss p 0 H Fv1 * (taub 0 p / dt) + cb lss p 1 H Fv2 * (taub 1 p / dt) + cb lss p 2 H Fv3 * (taub 2 p / dt).
Proof. exact mb_bound_large_dt. Qed.

(* non-vacuity: the hypotheses on expm and the coaxial update are jointly satisfiable *)
Example C11_nonvacuous : exists (lss expm : M -> M),
  (forall A : M, mdet (expm A) = exp (mtrace A))
  /\ forall K G Gn tau (H Fv : M) dt, 0 < tau -> 0 < dt ->
       Etrial lss H (state_new_hv lss expm (K, G, Gn, tau) Fv dt H) = relax_hv (K, G, Gn, tau) dt (Etrial lss H Fv).
Proof. exact hypotheses_satisfiable. Qed.

Print Assumptions C11_dissipation_nonneg.
Print Assumptions C11_dissipation_nonneg_three_branch.
Print Assumptions C11_isochoric.
Print Assumptions C11_relaxation_monotone.
Print Assumptions C11_limit_instantaneous.
Print Assumptions C11_limit_equilibrium.
