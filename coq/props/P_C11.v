(* C11 -- viscoelastic models dissipate, relax and keep viscous flow isochoric: property theorems only.
   Subjects: the kernels regenerated from /repo on every run (gen/Gen_HyperViscoelastic.v, Gen_MultiBranchHyperViscoelastic.v,
   Gen_ViscoState.v, Gen_TensorMath.v) at T := R, composed as in the material factories (model/M_C11.v, model/M_C08.v).
   lss stands for TensorMath.log_sqrt_symm and expm for jax.scipy.linalg.expm: the theorems hold for EVERY function lss, and
   for every expm with det(expm A) = exp(tr A); the relaxation theorems assume in addition the coaxial update identity Hcoax
   (exact for the true matrix logarithm / exponential because the increment is a multiple of the deviator of the trial strain).
   fac dt tau = 1/(1+dt/tau) is the integration factor; nds E = |dev E|^2; Etrial lss H Fv is the trial logarithmic strain.
   Round 3: both hypotheses are PROVED for the spectral functions lss_spec / expm_spec of model/M_C11s.v (V diag(f(lam)) V^T over an
   eigen-solver that stays a parameter) from the solver contract eigh_ok at the matrices it is called on (theorems with `spectral` in their name and
   C11_coaxial_update, C11_coaxial_update_three_branch); relaxation over arbitrary step sequences is stated for every branch and for the reported total.
   NOT PROVED: that TensorMath.eigen_sym33_unit satisfies eigh_ok (existence of such a solver for every symmetric matrix is the spectral
   theorem, accuracy of the routine is property C12) and that jax.scipy.linalg.expm (Pade approximant) equals the spectral exponential;
   both are evaluated numerically by the harness on every run.  Binary64 rounding is outside the theorems. *)
From Coq Require Import Reals List.
From OV.base Require Import Num.
From OV.model Require Import M_C08 M_C11 M_C11s.
From OV.proofs Require Import L_C08 L_C11a L_C11 L_C11s L_C11t.
Import ListNotations.
Local Open Scope R_scope.

Theorem C11_integration_factor : forall dt tau, 0 < dt -> 0 < tau -> 0 < fac dt tau < 1.
Proof. exact fac_pos. Qed.

(* ---- dissipated energy (compute_material_qoi) is non-negative, with its closed form *)
Theorem C11_dissipation_nonneg : forall (lss : M -> M) (K G Gn tau : R), 0 < tau ->
  forall (Fv : M) (dt : R) (H : M), 0 < dt -> 0 <= Gn -> 0 <= D_hv lss (K, G, Gn, tau) Fv dt H.
Proof. exact D_hv_nonneg. Qed.
Theorem C11_dissipation_closed_form : forall (lss : M -> M) (K G Gn tau : R), 0 < tau ->
  forall (Fv : M) (dt : R) (H : M), 0 < dt ->
  D_hv lss (K, G, Gn, tau) Fv dt H = Gn * nds (Etrial lss H Fv) * (dt / tau) * (fac dt tau * fac dt tau).
Proof. exact D_hv_closed. Qed.
Theorem C11_dissipation_nonneg_three_branch : forall (lss : M -> M) (p : @p8 R),
  (forall n, 0 < taub n p) -> (forall n, 0 <= Gb n p) ->
  forall (Fv1 Fv2 Fv3 : M) (dt : R) (H : M), 0 < dt -> 0 <= D_mb lss p Fv1 Fv2 Fv3 dt H.
Proof. exact D_mb_nonneg. Qed.

(* ---- the state increment is deviatoric, hence the viscous distortion keeps its determinant *)
Theorem C11_increment_deviatoric : forall K G Gn tau dt (E : M), 0 < dt -> 0 < tau -> mtrace (inc_hv (K, G, Gn, tau) dt E) = 0.
Proof. exact inc_trace. Qed.
Theorem C11_increment_deviatoric_three_branch : forall n (p : @p8 R) dt (E : M), 0 < dt -> 0 < taub n p -> mtrace (inc_b n p dt E) = 0.
Proof. exact inc_b_trace. Qed.
Theorem C11_isochoric : forall (lss expm : M -> M) (K G Gn tau : R), 0 < tau ->
  (forall A : M, mdet (expm A) = exp (mtrace A)) ->
  forall (Fv : M) (dt : R) (H : M), 0 < dt -> mdet (state_new_hv lss expm (K, G, Gn, tau) Fv dt H) = mdet Fv.
Proof. exact state_new_hv_det. Qed.
Theorem C11_isochoric_three_branch : forall (lss expm : M -> M) (p : @p8 R), (forall n, 0 < taub n p) ->
  (forall A : M, mdet (expm A) = exp (mtrace A)) ->
  forall (n : nat) (Fv : M) (dt : R) (H : M), 0 < dt -> mdet (state_new_b n lss expm p Fv dt H) = mdet Fv.
Proof. exact state_new_b_det. Qed.

(* ---- the same WITHOUT a hypothesis on the exponential (round 3): expm_spec eigh A = V diag(exp lam) V^T with (lam, V) = eigh A, as
        TensorMath.symmetric_matrix_function builds it; jax.scipy.linalg.expm is tied to it by the correspondence stream `spectral`.
        The only premise left is the contract of the eigen-solver AT the increment it is called on (eigh_ok: V^T V = V V^T = I and
        V diag(lam) V^T = A), which the harness evaluates on every oracle value.  det(exp A) = exp(tr A) is now a theorem. *)
Theorem C11_spectral_exponential_det : forall (eigh : M -> E3) (A : M), eigh_ok eigh A -> mdet (expm_spec eigh A) = exp (mtrace A).
Proof. exact expm_spec_det. Qed.
Theorem C11_isochoric_spectral : forall (lss : M -> M) (eigh : M -> E3) (K G Gn tau : R) (Fv : M) (dt : R) (H : M), 0 < tau -> 0 < dt ->
  eigh_ok eigh (inc_hv (K, G, Gn, tau) dt (Etrial lss H Fv)) ->
  mdet (state_new_hv lss (expm_spec eigh) (K, G, Gn, tau) Fv dt H) = mdet Fv.
Proof. exact state_new_hv_det_spec. Qed.
Theorem C11_isochoric_spectral_three_branch : forall (n : nat) (lss : M -> M) (eigh : M -> E3) (p : @p8 R) (Fv : M) (dt : R) (H : M),
  0 < taub n p -> 0 < dt -> eigh_ok eigh (inc_b n p dt (Etrial_mb lss H Fv)) ->
  mdet (state_new_b n lss (expm_spec eigh) p Fv dt H) = mdet Fv.
Proof. exact state_new_b_det_spec. Qed.
(* with the spectral log_sqrt_symm the increment is symmetric whatever its eigen-solver returns, so the contract of the exponential's
   eigen-solver on symmetric matrices (the spectral theorem: satisfiable, not proved here) is all that is needed *)
Theorem C11_isochoric_spectral_all : forall (eighL eighE : M -> E3) (K G Gn tau : R), (forall A, msym A -> eigh_ok eighE A) ->
  forall (Fv : M) (dt : R) (H : M), 0 < tau -> 0 < dt ->
  mdet (state_new_hv (lss_spec eighL) (expm_spec eighE) (K, G, Gn, tau) Fv dt H) = mdet Fv.
Proof. exact state_new_hv_det_spec_all. Qed.

(* ---- energy in closed form: equilibrium energy + sum over branches of G |dev E_trial|^2 / (1 + dt/tau) *)
Theorem C11_energy_closed_form : forall (lss : M -> M) (K G Gn tau : R), 0 < tau ->
  forall (Fv : M) (dt : R) (H : M), 0 < dt ->
  E_hv lss (K, G, Gn, tau) Fv dt H = E_hv_eq (K, G, Gn, tau) H + Gn * nds (Etrial lss H Fv) * fac dt tau.
Proof. exact E_hv_closed. Qed.
Theorem C11_energy_closed_form_three_branch : forall (lss : M -> M) (p : @p8 R), (forall n, 0 < taub n p) ->
  forall (Fv1 Fv2 Fv3 : M) (dt : R) (H : M), 0 < dt ->
  E_mb lss p Fv1 Fv2 Fv3 dt H
  = E_mb_eq p H + cb lss p 0 H Fv1 * fac dt (taub 0 p) + cb lss p 1 H Fv2 * fac dt (taub 1 p) + cb lss p 2 H Fv3 * fac dt (taub 2 p).
Proof. exact E_mb_closed. Qed.

(* ---- relaxation while the deformation is held: every further step multiplies the stored non-equilibrium energy that the
        model reports by fac^2 < 1; along any sequence of positive steps it never increases *)
Theorem C11_relaxation_step : forall (lss expm : M -> M) (K G Gn tau : R), 0 < tau -> forall H : M,
  (forall (Fv : M) (dt : R), 0 < dt ->
     Etrial lss H (state_new_hv lss expm (K, G, Gn, tau) Fv dt H) = relax_hv (K, G, Gn, tau) dt (Etrial lss H Fv)) ->
  forall (Fv : M) (dt dt' : R), 0 < dt -> 0 < dt' -> 0 <= Gn ->
  Wneq_reported_hv lss (K, G, Gn, tau) (state_new_hv lss expm (K, G, Gn, tau) Fv dt H) dt' H
  = fac dt' tau * fac dt' tau * Wneq_reported_hv lss (K, G, Gn, tau) Fv dt H
  /\ Wneq_reported_hv lss (K, G, Gn, tau) (state_new_hv lss expm (K, G, Gn, tau) Fv dt H) dt' H
     <= Wneq_reported_hv lss (K, G, Gn, tau) Fv dt H.
Proof. exact relaxation_step. Qed.
Theorem C11_relaxation_monotone : forall (lss expm : M -> M) (K G Gn tau : R), 0 < tau -> forall H : M,
  (forall (Fv : M) (dt : R), 0 < dt ->
     Etrial lss H (state_new_hv lss expm (K, G, Gn, tau) Fv dt H) = relax_hv (K, G, Gn, tau) dt (Etrial lss H Fv)) ->
  forall dts : list R, Forall (fun dt => 0 < dt) dts -> 0 <= Gn ->
  forall Fv : M, nonincreasing (reported lss expm K G Gn tau H Fv dts).
Proof. exact relaxation_monotone. Qed.
Theorem C11_relaxation_step_three_branch : forall (lss expm : M -> M) (p : @p8 R),
  (forall n, 0 < taub n p) -> (forall n, 0 <= Gb n p) -> forall H : M,
  (forall (n : nat) (Fv : M) (dt : R), 0 < dt ->
     Etrial_mb lss H (state_new_b n lss expm p Fv dt H) = relax_b n p dt (Etrial_mb lss H Fv)) ->
  forall (n : nat) (Fv : M) (dt dt' : R), 0 < dt -> 0 < dt' ->
  Wneq_reported_b n lss p (state_new_b n lss expm p Fv dt H) dt' H
  = fac dt' (taub n p) * fac dt' (taub n p) * Wneq_reported_b n lss p Fv dt H
  /\ Wneq_reported_b n lss p (state_new_b n lss expm p Fv dt H) dt' H <= Wneq_reported_b n lss p Fv dt H.
Proof. exact relaxation_step_b. Qed.

(* ---- round 3: ARBITRARY step sequences at held deformation, every branch of the three-branch model and their sum.
        reported_b n ... Fv dts lists the stored energy of branch n after each of the steps dts (its own viscous distortion updated by
        state_new_b after every step); reported_total lists the sum over the three branches, which is exactly what the model reports as
        energy density - dissipated energy - equilibrium energy (theorems C11_reported_energy and C11_reported_energy_three_branch). *)
Theorem C11_relaxation_monotone_three_branch : forall (lss expm : M -> M) (p : @p8 R),
  (forall n, 0 < taub n p) -> (forall n, 0 <= Gb n p) -> forall H : M,
  (forall (n : nat) (Fv : M) (dt : R), 0 < dt ->
     Etrial_mb lss H (state_new_b n lss expm p Fv dt H) = relax_b n p dt (Etrial_mb lss H Fv)) ->
  forall (n : nat) (dts : list R), Forall (fun dt => 0 < dt) dts -> forall Fv : M, nonincreasing (reported_b lss expm p H n Fv dts).
Proof. exact relaxation_monotone_b. Qed.
Theorem C11_relaxation_monotone_total : forall (lss expm : M -> M) (p : @p8 R),
  (forall n, 0 < taub n p) -> (forall n, 0 <= Gb n p) -> forall H : M,
  (forall (n : nat) (Fv : M) (dt : R), 0 < dt ->
     Etrial_mb lss H (state_new_b n lss expm p Fv dt H) = relax_b n p dt (Etrial_mb lss H Fv)) ->
  forall dts : list R, Forall (fun dt => 0 < dt) dts -> forall Fv1 Fv2 Fv3 : M, nonincreasing (reported_total lss expm p H Fv1 Fv2 Fv3 dts).
Proof. exact relaxation_monotone_total. Qed.
Theorem C11_reported_energy_three_branch : forall (lss : M -> M) (p : @p8 R) (H Fv1 Fv2 Fv3 : M) (dt : R),
  E_mb lss p Fv1 Fv2 Fv3 dt H - D_mb lss p Fv1 Fv2 Fv3 dt H - E_mb_eq p H = Wneq_total lss p H Fv1 Fv2 Fv3 dt.
Proof. exact reported_total_is_energy_minus_dissipation. Qed.
Theorem C11_reported_energy : forall (lss : M -> M) (K G Gn tau : R) (Fv : M) (dt : R) (H : M),
  E_hv lss (K, G, Gn, tau) Fv dt H - D_hv lss (K, G, Gn, tau) Fv dt H - E_hv_eq (K, G, Gn, tau) H = Wneq_reported_hv lss (K, G, Gn, tau) Fv dt H.
Proof. exact reported_is_energy_minus_dissipation_hv. Qed.

(* ---- round 3: the coaxial update identity (Hcoax above) is a THEOREM for the spectral functions of model/M_C11s.v:
        lss_spec eighL = TensorMath.log_sqrt_symm over its eigen-solver (same formula, tied by stream `spectral`), expm_spec eighE = the
        spectral exponential (tied numerically to jax.scipy.linalg.expm).  A spectral function does not depend on which orthogonal
        decomposition the solver returns (C11_spectral_function_unique), so the only premises are: F and Fv invertible, and the contract
        eigh_ok at the three matrices the solvers are called on in the step (step_ok_hv, step_ok_b: Ce = Fe^T Fe, the increment, Ce after the update).
        With it, relaxation over ARBITRARY step sequences holds with no hypothesis on the matrix functions beyond the solver contract
        along the sequence (seq_ok_hv, seq_ok_b), for the single-branch model and every branch of the three-branch model. *)
Theorem C11_spectral_function_unique : forall (V V' : M) a0 a1 a2 b0 b1 b2 (f : R -> R),
  mmul (mtr V) V = mid -> mmul V (mtr V) = mid -> mmul (mtr V') V' = mid -> mmul V' (mtr V') = mid ->
  cj V (mdiag a0 a1 a2) = cj V' (mdiag b0 b1 b2) -> cj V (mdiag (f a0) (f a1) (f a2)) = cj V' (mdiag (f b0) (f b1) (f b2)).
Proof. exact spectral_unique. Qed.
Theorem C11_coaxial_update : forall (eighL eighE : M -> E3) (K G Gn tau : R) (H Fv : M) (dt : R), 0 < tau -> 0 < dt ->
  mdet (defgrad H) <> 0 -> mdet Fv <> 0 -> step_ok_hv eighL eighE (K, G, Gn, tau) H Fv dt ->
  Etrial (lss_spec eighL) H (state_new_hv (lss_spec eighL) (expm_spec eighE) (K, G, Gn, tau) Fv dt H)
  = relax_hv (K, G, Gn, tau) dt (Etrial (lss_spec eighL) H Fv).
Proof. exact coax_hv. Qed.
Theorem C11_coaxial_update_three_branch : forall (eighL eighE : M -> E3) (n : nat) (p : @p8 R) (H Fv : M) (dt : R), 0 < taub n p -> 0 < dt ->
  mdet (defgrad H) <> 0 -> mdet Fv <> 0 -> step_ok_b eighL eighE n p H Fv dt ->
  Etrial_mb (lss_spec eighL) H (state_new_b n (lss_spec eighL) (expm_spec eighE) p Fv dt H) = relax_b n p dt (Etrial_mb (lss_spec eighL) H Fv).
Proof. exact coax_b. Qed.
Theorem C11_relaxation_step_spectral : forall (eighL eighE : M -> E3) (K G Gn tau : R) (H Fv : M) (dt dt' : R),
  0 < tau -> 0 <= Gn -> 0 < dt -> 0 < dt' -> mdet (defgrad H) <> 0 -> mdet Fv <> 0 -> step_ok_hv eighL eighE (K, G, Gn, tau) H Fv dt ->
  Wneq_reported_hv (lss_spec eighL) (K, G, Gn, tau) (state_new_hv (lss_spec eighL) (expm_spec eighE) (K, G, Gn, tau) Fv dt H) dt' H
  = fac dt' tau * fac dt' tau * Wneq_reported_hv (lss_spec eighL) (K, G, Gn, tau) Fv dt H
  /\ Wneq_reported_hv (lss_spec eighL) (K, G, Gn, tau) (state_new_hv (lss_spec eighL) (expm_spec eighE) (K, G, Gn, tau) Fv dt H) dt' H
     <= Wneq_reported_hv (lss_spec eighL) (K, G, Gn, tau) Fv dt H.
Proof. exact relaxation_step_spec. Qed.
Theorem C11_relaxation_monotone_spectral : forall (eighL eighE : M -> E3) (K G Gn tau : R) (H : M) (dts : list R),
  0 < tau -> 0 <= Gn -> mdet (defgrad H) <> 0 -> Forall (fun dt => 0 < dt) dts ->
  forall Fv : M, mdet Fv <> 0 -> seq_ok_hv eighL eighE (K, G, Gn, tau) H Fv dts ->
  nonincreasing (reported (lss_spec eighL) (expm_spec eighE) K G Gn tau H Fv dts).
Proof. exact relaxation_monotone_spec. Qed.
Theorem C11_relaxation_monotone_spectral_three_branch : forall (eighL eighE : M -> E3) (n : nat) (p : @p8 R) (H : M) (dts : list R),
  (forall n, 0 < taub n p) -> (forall n, 0 <= Gb n p) -> mdet (defgrad H) <> 0 -> Forall (fun dt => 0 < dt) dts ->
  forall Fv : M, mdet Fv <> 0 -> seq_ok_b eighL eighE n p H Fv dts ->
  nonincreasing (reported_b (lss_spec eighL) (expm_spec eighE) p H n Fv dts).
Proof. exact relaxation_monotone_b_spec. Qed.

(* ---- the two limits: explicit bounds, and the epsilon statements.  W_inst = equilibrium energy + G |dev E_trial|^2 (all
        branches elastic), W_eq = equilibrium hyperelastic energy.  They hold for every state; for a virgin material
        (Fv = identity) E_trial is the logarithmic strain of the deformation itself. *)
Theorem C11_bound_small_step : forall (lss : M -> M) (K G Gn tau : R) (Fv H : M), 0 < tau -> 0 <= Gn -> forall dt, 0 < dt ->
  Rabs (E_hv lss (K, G, Gn, tau) Fv dt H - W_inst_hv lss K G Gn tau Fv H) <= Gn * nds (Etrial lss H Fv) * (dt / tau).
Proof. exact hv_bound_small_dt. Qed.
Theorem C11_bound_large_step : forall (lss : M -> M) (K G Gn tau : R) (Fv H : M), 0 < tau -> 0 <= Gn -> forall dt, 0 < dt ->
  Rabs (E_hv lss (K, G, Gn, tau) Fv dt H - W_eq_hv K G Gn tau H) <= Gn * nds (Etrial lss H Fv) * (tau / dt).
Proof. exact hv_bound_large_dt. Qed.
Theorem C11_limit_instantaneous : forall (lss : M -> M) (K G Gn tau : R) (Fv H : M), 0 < tau -> 0 <= Gn -> forall eps, 0 < eps ->
  exists delta, 0 < delta /\ forall dt, 0 < dt < delta -> Rabs (E_hv lss (K, G, Gn, tau) Fv dt H - W_inst_hv lss K G Gn tau Fv H) < eps.
Proof. exact hv_limit_dt_to_0. Qed.
Theorem C11_limit_equilibrium : forall (lss : M -> M) (K G Gn tau : R) (Fv H : M), 0 < tau -> 0 <= Gn -> forall eps, 0 < eps ->
  exists T, 0 < T /\ forall dt, T < dt -> Rabs (E_hv lss (K, G, Gn, tau) Fv dt H - W_eq_hv K G Gn tau H) < eps.
Proof. exact hv_limit_dt_to_infinity. Qed.
Theorem C11_bound_small_step_three_branch : forall (lss : M -> M) (p : @p8 R) (Fv1 Fv2 Fv3 H : M),
  (forall n, 0 < taub n p) -> (forall n, 0 <= Gb n p) -> forall dt, 0 < dt ->
  Rabs (E_mb lss p Fv1 Fv2 Fv3 dt H - W_inst_mb lss p Fv1 Fv2 Fv3 H)
  <= cb lss p 0 H Fv1 * (dt / taub 0 p) + cb lss p 1 H Fv2 * (dt / taub 1 p) + cb lss p 2 H Fv3 * (dt / taub 2 p).
Proof. exact mb_bound_small_dt. Qed.
Theorem C11_bound_large_step_three_branch : forall (lss : M -> M) (p : @p8 R) (Fv1 Fv2 Fv3 H : M),
  (forall n, 0 < taub n p) -> (forall n, 0 <= Gb n p) -> forall dt, 0 < dt ->
  Rabs (E_mb lss p Fv1 Fv2 Fv3 dt H - W_eq_mb p H)
  <= cb lss p 0 H Fv1 * (taub 0 p / dt) + cb lss p 1 H Fv2 * (taub 1 p / dt) + cb lss p 2 H Fv3 * (taub 2 p / dt).
Proof. exact mb_bound_large_dt. Qed.

(* non-vacuity: the hypotheses on expm and the coaxial update are jointly satisfiable *)
Example C11_nonvacuous : exists (lss expm : M -> M),
  (forall A : M, mdet (expm A) = exp (mtrace A))
  /\ forall K G Gn tau (H Fv : M) dt, 0 < tau -> 0 < dt ->
       Etrial lss H (state_new_hv lss expm (K, G, Gn, tau) Fv dt H) = relax_hv (K, G, Gn, tau) dt (Etrial lss H Fv).
Proof. exact hypotheses_satisfiable. Qed.

(* non-vacuity of the eigen-solver contract: on a diagonal stretch history the solver that returns (diagonal, identity) meets it at
   the increment, for a deformation with a non-zero increment *)
Example C11_spectral_nonvacuous : exists (eigh : M -> E3) (H Fv : M),
  (forall K G Gn tau dt, 0 < tau -> 0 < dt -> eigh_ok eigh (inc_hv (K, G, Gn, tau) dt (Etrial (lss_spec eigh) H Fv)))
  /\ inc_hv (0, 0, 1, 1) 1 (Etrial (lss_spec eigh) H Fv) <> mzero.
Proof. exact spectral_contract_satisfiable. Qed.

(* non-vacuity of the solver contract along sequences: a non-trivial diagonal stretch, every sequence of positive steps *)
Example C11_spectral_sequence_nonvacuous : exists (eigh : M -> E3) (H Fv : M), mdet (defgrad H) <> 0 /\ mdet Fv <> 0 /\ H <> mzero
  /\ forall K G Gn tau dts, 0 < tau -> Forall (fun dt => 0 < dt) dts -> seq_ok_hv eigh eigh (K, G, Gn, tau) H Fv dts.
Proof. exact spectral_sequence_satisfiable. Qed.

Print Assumptions C11_dissipation_nonneg.
Print Assumptions C11_dissipation_nonneg_three_branch.
Print Assumptions C11_isochoric.
Print Assumptions C11_isochoric_spectral.
Print Assumptions C11_relaxation_monotone.
Print Assumptions C11_relaxation_monotone_total.
Print Assumptions C11_relaxation_monotone_spectral.
Print Assumptions C11_limit_instantaneous.
Print Assumptions C11_limit_equilibrium.
