(* C11 -- viscoelastic models dissipate, relax and keep viscous flow isochoric: property theorems only.
   Subjects: the kernels regenerated from /repo on every run (gen/Gen_HyperViscoelastic.v, Gen_MultiBranchHyperViscoelastic.v,
   Gen_ViscoState.v, Gen_TensorMath.v) at T := R, composed as in the material factories (model/M_C11.v, model/M_C08.v).
   lss stands for TensorMath.log_sqrt_symm and expm for jax.scipy.linalg.expm: the theorems hold for EVERY function lss, and
   for every expm with det(expm A) = exp(tr A); the relaxation theorems assume in addition the coaxial update identity Hcoax
   (exact for the true matrix logarithm / exponential because the increment is a multiple of the deviator of the trial strain).
   fac dt tau = 1/(1+dt/tau) is the integration factor; nds E = |dev E|^2; Etrial lss H Fv is the trial logarithmic strain.
   Round 3: both hypotheses are PROVED for the spectral functions lss_spec / expm_spec of model/M_C11s.v (V diag(f(lam)) V^T over an
   eigen-solver that stays a parameter) from the solver contract eigh_ok at the matrices it is called on (theorems with `spectral` in their name and
   C11_coaxial_update, C11_coaxial_update_three_branch); relaxation over arbitrary step sequences is stated for every branch and for the reported total.
   Round 4: (a) the spectral theorem for symmetric 3x3 matrices is PROVED (C11_eigen_solver_exists: a solver eigh_sym that meets eigh_ok at
   EVERY symmetric matrix, built without a choice axiom: IVT root of the characteristic cubic, kernel vector from cross products of rows,
   Householder deflation, one Givens rotation), and the spectral functions do not depend on the solver (C11_spectral_function_solver_independent),
   so lss_R / expm_R are THE matrix logarithm (halved) / exponential of symmetric matrices; (b) every matrix the solvers are called on in a
   step is symmetric, so the per-call premises step_ok / seq_ok follow from the contract on symmetric matrices (theorems *_all) and vanish for
   lss_R / expm_R (theorems *_unconditional: isochoric flow, coaxial update, monotone relaxation of the single branch, of every branch and
   of the reported three-branch total, with NO hypothesis on the matrix functions); (c) arbitrary deformation-and-time-step histories
   [(H_1, dt_1); ...]: det Fv is constant along the whole history (= 1 from the virgin state), every reported dissipated energy is >= 0
   and the accumulated dissipation is non-decreasing, and a hold after any history relaxes monotonically; (d) the two limits in epsilon
   form for the three-branch model; (e) for a virgin material the trial strain is lss (F^T F), the logarithmic strain of the deformation.
   NOT PROVED: that TensorMath.eigen_sym33_unit satisfies eigh_ok (existence is now a theorem; accuracy of the routine in binary64 is
   property C12) and that jax.scipy.linalg.expm (Pade approximant, scaling and squaring) equals the spectral exponential expm_R (it does
   so only up to the Pade truncation error, ~1e-16 relative); both are evaluated numerically by the harness on every run (stream `spectral`,
   now also with two different solvers and on degenerate spectra).  Binary64 rounding is outside the theorems.
   Round 5: the one place where the implementation's solver did NOT meet eigh_ok -- (nearly) degenerate spectra inside a compiled batch
   (jit(vmap)), former finding C11-F1: the reported stored energy grew during a hold, contradicting C11_relaxation_* -- is repaired in
   /repo e63b801; no finding is open for this property: the harness replays the witness on every run and checks exactly and nearly
   degenerate states in compiled batches (relaxation, det Fv, dissipation, batched = single call) at the tolerances used everywhere else. *)
From Coq Require Import Reals List.
From OV.base Require Import Num.
From OV.model Require Import M_C08 M_C11 M_C11s.
From OV.proofs Require Import L_C08 L_C11a L_C11 L_C11s L_C11t L_C11e L_C11u.
Import ListNotations.
Local Open Scope R_scope.

Theorem C11_integration_factor : forall dt tau, 0 < dt -> 0 < tau -> 0 < fac dt tau < 1.
Proof. exact fac_pos. Qed.

(* ---- dissipated energy (compute_material_qoi) is non-negative, with its closed form *)
Theorem C11_dissipation_nonneg : forall (lss : M -> M) (K G Gn tau : R), 0 < tau ->
  forall (Fv : M) (dt : R) (H : M), 0 < dt -> 0 <= Gn -> 0 <= D_hv lss (K, G, Gn, tau) Fv dt H.
Proof. exact D_hv_nonneg. Qed.
Theorem C11_dissipation_closed_form : forall (lss : M -> M) (K G Gn tau : R), 0 < tau ->
  forall (Fv : M) (dt : R) (H : M), 0 < dt ->
  D_hv lss (K, G, Gn, tau) Fv dt H = Gn * nds (Etrial lss H Fv) * (dt / tau) * (fac dt tau * fac dt tau).
Proof. exact D_hv_closed. Qed.
Theorem C11_dissipation_nonneg_three_branch : forall (lss : M -> M) (p : @p8 R),
  (forall n, 0 < taub n p) -> (forall n, 0 <= Gb n p) ->
  forall (Fv1 Fv2 Fv3 : M) (dt : R) (H : M), 0 < dt -> 0 <= D_mb lss p Fv1 Fv2 Fv3 dt H.
Proof. exact D_mb_nonneg. Qed.

(* ---- the state increment is deviatoric, hence the viscous distortion keeps its determinant *)
Theorem C11_increment_deviatoric : forall K G Gn tau dt (E : M), 0 < dt -> 0 < tau -> mtrace (inc_hv (K, G, Gn, tau) dt E) = 0.
Proof. exact inc_trace. Qed.
Theorem C11_increment_deviatoric_three_branch : forall n (p : @p8 R) dt (E : M), 0 < dt -> 0 < taub n p -> mtrace (inc_b n p dt E) = 0.
Proof. exact inc_b_trace. Qed.
Theorem C11_isochoric : forall (lss expm : M -> M) (K G Gn tau : R), 0 < tau ->
  (forall A : M, mdet (expm A) = exp (mtrace A)) ->
  forall (Fv : M) (dt : R) (H : M), 0 < dt -> mdet (state_new_hv lss expm (K, G, Gn, tau) Fv dt H) = mdet Fv.
Proof. exact state_new_hv_det. Qed.
Theorem C11_isochoric_three_branch : forall (lss expm : M -> M) (p : @p8 R), (forall n, 0 < taub n p) ->
  (forall A : M, mdet (expm A) = exp (mtrace A)) ->
  forall (n : nat) (Fv : M) (dt : R) (H : M), 0 < dt -> mdet (state_new_b n lss expm p Fv dt H) = mdet Fv.
Proof. exact state_new_b_det. Qed.

(* ---- the same WITHOUT a hypothesis on the exponential (round 3): expm_spec eigh A = V diag(exp lam) V^T with (lam, V) = eigh A, as
        TensorMath.symmetric_matrix_function builds it; jax.scipy.linalg.expm is tied to it by the correspondence stream `spectral`.
        The only premise left is the contract of the eigen-solver AT the increment it is called on (eigh_ok: V^T V = V V^T = I and
        V diag(lam) V^T = A), which the harness evaluates on every oracle value.  det(exp A) = exp(tr A) is now a theorem. *)
Theorem C11_spectral_exponential_det : forall (eigh : M -> E3) (A : M), eigh_ok eigh A -> mdet (expm_spec eigh A) = exp (mtrace A).
Proof. exact expm_spec_det. Qed.
Theorem C11_isochoric_spectral : forall (lss : M -> M) (eigh : M -> E3) (K G Gn tau : R) (Fv : M) (dt : R) (H : M), 0 < tau -> 0 < dt ->
  eigh_ok eigh (inc_hv (K, G, Gn, tau) dt (Etrial lss H Fv)) ->
  mdet (state_new_hv lss (expm_spec eigh) (K, G, Gn, tau) Fv dt H) = mdet Fv.
Proof. exact state_new_hv_det_spec. Qed.
Theorem C11_isochoric_spectral_three_branch : forall (n : nat) (lss : M -> M) (eigh : M -> E3) (p : @p8 R) (Fv : M) (dt : R) (H : M),
  0 < taub n p -> 0 < dt -> eigh_ok eigh (inc_b n p dt (Etrial_mb lss H Fv)) ->
  mdet (state_new_b n lss (expm_spec eigh) p Fv dt H) = mdet Fv.
Proof. exact state_new_b_det_spec. Qed.
(* with the spectral log_sqrt_symm the increment is symmetric whatever its eigen-solver returns, so the contract of the exponential's
   eigen-solver on symmetric matrices (the spectral theorem: satisfiable, not proved here) is all that is needed *)
Theorem C11_isochoric_spectral_all : forall (eighL eighE : M -> E3) (K G Gn tau : R), (forall A, msym A -> eigh_ok eighE A) ->
  forall (Fv : M) (dt : R) (H : M), 0 < tau -> 0 < dt ->
  mdet (state_new_hv (lss_spec eighL) (expm_spec eighE) (K, G, Gn, tau) Fv dt H) = mdet Fv.
Proof. exact state_new_hv_det_spec_all. Qed.

(* ---- energy in closed form: equilibrium energy + sum over branches of G |dev E_trial|^2 / (1 + dt/tau) *)
Theorem C11_energy_closed_form : forall (lss : M -> M) (K G Gn tau : R), 0 < tau ->
  forall (Fv : M) (dt : R) (H : M), 0 < dt ->
  E_hv lss (K, G, Gn, tau) Fv dt H = E_hv_eq (K, G, Gn, tau) H + Gn * nds (Etrial lss H Fv) * fac dt tau.
Proof. exact E_hv_closed. Qed.
Theorem C11_energy_closed_form_three_branch : forall (lss : M -> M) (p : @p8 R), (forall n, 0 < taub n p) ->
  forall (Fv1 Fv2 Fv3 : M) (dt : R) (H : M), 0 < dt ->
  E_mb lss p Fv1 Fv2 Fv3 dt H
  = E_mb_eq p H + cb lss p 0 H Fv1 * fac dt (taub 0 p) + cb lss p 1 H Fv2 * fac dt (taub 1 p) + cb lss p 2 H Fv3 * fac dt (taub 2 p).
Proof. exact E_mb_closed. Qed.

(* ---- relaxation while the deformation is held: every further step multiplies the stored non-equilibrium energy that the
        model reports by fac^2 < 1; along any sequence of positive steps it never increases *)
Theorem C11_relaxation_step : forall (lss expm : M -> M) (K G Gn tau : R), 0 < tau -> forall H : M,
  (forall (Fv : M) (dt : R), 0 < dt ->
     Etrial lss H (state_new_hv lss expm (K, G, Gn, tau) Fv dt H) = relax_hv (K, G, Gn, tau) dt (Etrial lss H Fv)) ->
  forall (Fv : M) (dt dt' : R), 0 < dt -> 0 < dt' -> 0 <= Gn ->
  Wneq_reported_hv lss (K, G, Gn, tau) (state_new_hv lss expm (K, G, Gn, tau) Fv dt H) dt' H
  = fac dt' tau * fac dt' tau * Wneq_reported_hv lss (K, G, Gn, tau) Fv dt H
  /\ Wneq_reported_hv lss (K, G, Gn, tau) (state_new_hv lss expm (K, G, Gn, tau) Fv dt H) dt' H
     <= Wneq_reported_hv lss (K, G, Gn, tau) Fv dt H.
Proof. exact relaxation_step. Qed.
Theorem C11_relaxation_monotone : forall (lss expm : M -> M) (K G Gn tau : R), 0 < tau -> forall H : M,
  (forall (Fv : M) (dt : R), 0 < dt ->
     Etrial lss H (state_new_hv lss expm (K, G, Gn, tau) Fv dt H) = relax_hv (K, G, Gn, tau) dt (Etrial lss H Fv)) ->
  forall dts : list R, Forall (fun dt => 0 < dt) dts -> 0 <= Gn ->
  forall Fv : M, nonincreasing (reported lss expm K G Gn tau H Fv dts).
Proof. exact relaxation_monotone. Qed.
Theorem C11_relaxation_step_three_branch : forall (lss expm : M -> M) (p : @p8 R),
  (forall n, 0 < taub n p) -> (forall n, 0 <= Gb n p) -> forall H : M,
  (forall (n : nat) (Fv : M) (dt : R), 0 < dt ->
     Etrial_mb lss H (state_new_b n lss expm p Fv dt H) = relax_b n p dt (Etrial_mb lss H Fv)) ->
  forall (n : nat) (Fv : M) (dt dt' : R), 0 < dt -> 0 < dt' ->
  Wneq_reported_b n lss p (state_new_b n lss expm p Fv dt H) dt' H
  = fac dt' (taub n p) * fac dt' (taub n p) * Wneq_reported_b n lss p Fv dt H
  /\ Wneq_reported_b n lss p (state_new_b n lss expm p Fv dt H) dt' H <= Wneq_reported_b n lss p Fv dt H.
Proof. exact relaxation_step_b. Qed.

(* ---- round 3: ARBITRARY step sequences at held deformation, every branch of the three-branch model and their sum.
        reported_b n ... Fv dts lists the stored energy of branch n after each of the steps dts (its own viscous distortion updated by
        state_new_b after every step); reported_total lists the sum over the three branches, which is exactly what the model reports as
        energy density - dissipated energy - equilibrium energy (theorems C11_reported_energy and C11_reported_energy_three_branch). *)
Theorem C11_relaxation_monotone_three_branch : forall (lss expm : M -> M) (p : @p8 R),
  (forall n, 0 < taub n p) -> (forall n, 0 <= Gb n p) -> forall H : M,
  (forall (n : nat) (Fv : M) (dt : R), 0 < dt ->
     Etrial_mb lss H (state_new_b n lss expm p Fv dt H) = relax_b n p dt (Etrial_mb lss H Fv)) ->
  forall (n : nat) (dts : list R), Forall (fun dt => 0 < dt) dts -> forall Fv : M, nonincreasing (reported_b lss expm p H n Fv dts).
Proof. exact relaxation_monotone_b. Qed.
Theorem C11_relaxation_monotone_total : forall (lss expm : M -> M) (p : @p8 R),
  (forall n, 0 < taub n p) -> (forall n, 0 <= Gb n p) -> forall H : M,
  (forall (n : nat) (Fv : M) (dt : R), 0 < dt ->
     Etrial_mb lss H (state_new_b n lss expm p Fv dt H) = relax_b n p dt (Etrial_mb lss H Fv)) ->
  forall dts : list R, Forall (fun dt => 0 < dt) dts -> forall Fv1 Fv2 Fv3 : M, nonincreasing (reported_total lss expm p H Fv1 Fv2 Fv3 dts).
Proof. exact relaxation_monotone_total. Qed.
Theorem C11_reported_energy_three_branch : forall (lss : M -> M) (p : @p8 R) (H Fv1 Fv2 Fv3 : M) (dt : R),
  E_mb lss p Fv1 Fv2 Fv3 dt H - D_mb lss p Fv1 Fv2 Fv3 dt H - E_mb_eq p H = Wneq_total lss p H Fv1 Fv2 Fv3 dt.
Proof. exact reported_total_is_energy_minus_dissipation. Qed.
Theorem C11_reported_energy : forall (lss : M -> M) (K G Gn tau : R) (Fv : M) (dt : R) (H : M),
  E_hv lss (K, G, Gn, tau) Fv dt H - D_hv lss (K, G, Gn, tau) Fv dt H - E_hv_eq (K, G, Gn, tau) H = Wneq_reported_hv lss (K, G, Gn, tau) Fv dt H.
Proof. exact reported_is_energy_minus_dissipation_hv. Qed.

(* ---- round 3: the coaxial update identity (Hcoax above) is a THEOREM for the spectral functions of model/M_C11s.v:
        lss_spec eighL = TensorMath.log_sqrt_symm over its eigen-solver (same formula, tied by stream `spectral`), expm_spec eighE = the
        spectral exponential (tied numerically to jax.scipy.linalg.expm).  A spectral function does not depend on which orthogonal
        decomposition the solver returns (C11_spectral_function_unique), so the only premises are: F and Fv invertible, and the contract
        eigh_ok at the three matrices the solvers are called on in the step (step_ok_hv, step_ok_b: Ce = Fe^T Fe, the increment, Ce after the update).
        With it, relaxation over ARBITRARY step sequences holds with no hypothesis on the matrix functions beyond the solver contract
        along the sequence (seq_ok_hv, seq_ok_b), for the single-branch model and every branch of the three-branch model. *)
Theorem C11_spectral_function_unique : forall (V V' : M) a0 a1 a2 b0 b1 b2 (f : R -> R),
  mmul (mtr V) V = mid -> mmul V (mtr V) = mid -> mmul (mtr V') V' = mid -> mmul V' (mtr V') = mid ->
  cj V (mdiag a0 a1 a2) = cj V' (mdiag b0 b1 b2) -> cj V (mdiag (f a0) (f a1) (f a2)) = cj V' (mdiag (f b0) (f b1) (f b2)).
Proof. exact spectral_unique. Qed.
Theorem C11_coaxial_update : forall (eighL eighE : M -> E3) (K G Gn tau : R) (H Fv : M) (dt : R), 0 < tau -> 0 < dt ->
  mdet (defgrad H) <> 0 -> mdet Fv <> 0 -> step_ok_hv eighL eighE (K, G, Gn, tau) H Fv dt ->
  Etrial (lss_spec eighL) H (state_new_hv (lss_spec eighL) (expm_spec eighE) (K, G, Gn, tau) Fv dt H)
  = relax_hv (K, G, Gn, tau) dt (Etrial (lss_spec eighL) H Fv).
Proof. exact coax_hv. Qed.
Theorem C11_coaxial_update_three_branch : forall (eighL eighE : M -> E3) (n : nat) (p : @p8 R) (H Fv : M) (dt : R), 0 < taub n p -> 0 < dt ->
  mdet (defgrad H) <> 0 -> mdet Fv <> 0 -> step_ok_b eighL eighE n p H Fv dt ->
  Etrial_mb (lss_spec eighL) H (state_new_b n (lss_spec eighL) (expm_spec eighE) p Fv dt H) = relax_b n p dt (Etrial_mb (lss_spec eighL) H Fv).
Proof. exact coax_b. Qed.
Theorem C11_relaxation_step_spectral : forall (eighL eighE : M -> E3) (K G Gn tau : R) (H Fv : M) (dt dt' : R),
  0 < tau -> 0 <= Gn -> 0 < dt -> 0 < dt' -> mdet (defgrad H) <> 0 -> mdet Fv <> 0 -> step_ok_hv eighL eighE (K, G, Gn, tau) H Fv dt ->
  Wneq_reported_hv (lss_spec eighL) (K, G, Gn, tau) (state_new_hv (lss_spec eighL) (expm_spec eighE) (K, G, Gn, tau) Fv dt H) dt' H
  = fac dt' tau * fac dt' tau * Wneq_reported_hv (lss_spec eighL) (K, G, Gn, tau) Fv dt H
  /\ Wneq_reported_hv (lss_spec eighL) (K, G, Gn, tau) (state_new_hv (lss_spec eighL) (expm_spec eighE) (K, G, Gn, tau) Fv dt H) dt' H
     <= Wneq_reported_hv (lss_spec eighL) (K, G, Gn, tau) Fv dt H.
Proof. exact relaxation_step_spec. Qed.
Theorem C11_relaxation_monotone_spectral : forall (eighL eighE : M -> E3) (K G Gn tau : R) (H : M) (dts : list R),
  0 < tau -> 0 <= Gn -> mdet (defgrad H) <> 0 -> Forall (fun dt => 0 < dt) dts ->
  forall Fv : M, mdet Fv <> 0 -> seq_ok_hv eighL eighE (K, G, Gn, tau) H Fv dts ->
  nonincreasing (reported (lss_spec eighL) (expm_spec eighE) K G Gn tau H Fv dts).
Proof. exact relaxation_monotone_spec. Qed.
Theorem C11_relaxation_monotone_spectral_three_branch : forall (eighL eighE : M -> E3) (n : nat) (p : @p8 R) (H : M) (dts : list R),
  (forall n, 0 < taub n p) -> (forall n, 0 <= Gb n p) -> mdet (defgrad H) <> 0 -> Forall (fun dt => 0 < dt) dts ->
  forall Fv : M, mdet Fv <> 0 -> seq_ok_b eighL eighE n p H Fv dts ->
  nonincreasing (reported_b (lss_spec eighL) (expm_spec eighE) p H n Fv dts).
Proof. exact relaxation_monotone_b_spec. Qed.

(* ---- the two limits: explicit bounds, and the epsilon statements.  W_inst = equilibrium energy + G |dev E_trial|^2 (all
        branches elastic), W_eq = equilibrium hyperelastic energy.  They hold for every state; for a virgin material
        (Fv = identity) E_trial is the logarithmic strain of the deformation itself. *)
Theorem C11_bound_small_step : forall (lss : M -> M) (K G Gn tau : R) (Fv H : M), 0 < tau -> 0 <= Gn -> forall dt, 0 < dt ->
  Rabs (E_hv lss (K, G, Gn, tau) Fv dt H - W_inst_hv lss K G Gn tau Fv H) <= Gn * nds (Etrial lss H Fv) * (dt / tau).
Proof. exact hv_bound_small_dt. Qed.
Theorem C11_bound_large_step : forall (lss : M -> M) (K G Gn tau : R) (Fv H : M), 0 < tau -> 0 <= Gn -> forall dt, 0 < dt ->
  Rabs (E_hv lss (K, G, Gn, tau) Fv dt H - W_eq_hv K G Gn tau H) <= Gn * nds (Etrial lss H Fv) * (tau / dt).
Proof. exact hv_bound_large_dt. Qed.
Theorem C11_limit_instantaneous : forall (lss : M -> M) (K G Gn tau : R) (Fv H : M), 0 < tau -> 0 <= Gn -> forall eps, 0 < eps ->
  exists delta, 0 < delta /\ forall dt, 0 < dt < delta -> Rabs (E_hv lss (K, G, Gn, tau) Fv dt H - W_inst_hv lss K G Gn tau Fv H) < eps.
Proof. exact hv_limit_dt_to_0. Qed.
Theorem C11_limit_equilibrium : forall (lss : M -> M) (K G Gn tau : R) (Fv H : M), 0 < tau -> 0 <= Gn -> forall eps, 0 < eps ->
  exists T, 0 < T /\ forall dt, T < dt -> Rabs (E_hv lss (K, G, Gn, tau) Fv dt H - W_eq_hv K G Gn tau H) < eps.
Proof. exact hv_limit_dt_to_infinity. Qed.
Theorem C11_bound_small_step_three_branch : forall (lss : M -> M) (p : @p8 R) (Fv1 Fv2 Fv3 H : M),
  (forall n, 0 < taub n p) -> (forall n, 0 <= Gb n p) -> forall dt, 0 < dt ->
  Rabs (E_mb lss p Fv1 Fv2 Fv3 dt H - W_inst_mb lss p Fv1 Fv2 Fv3 H)
  <= cb lss p 0 H Fv1 * (dt / taub 0 p) + cb lss p 1 H Fv2 * (dt / taub 1 p) + cb lss p 2 H Fv3 * (dt / taub 2 p).
Proof. exact mb_bound_small_dt. Qed.
Theorem C11_bound_large_step_three_branch : forall (lss : M -> M) (p : @p8 R) (Fv1 Fv2 Fv3 H : M),
  (forall n, 0 < taub n p) -> (forall n, 0 <= Gb n p) -> forall dt, 0 < dt ->
  Rabs (E_mb lss p Fv1 Fv2 Fv3 dt H - W_eq_mb p H)
  <= cb lss p 0 H Fv1 * (taub 0 p / dt) + cb lss p 1 H Fv2 * (taub 1 p / dt) + cb lss p 2 H Fv3 * (taub 2 p / dt).
Proof. exact mb_bound_large_dt. Qed.

(* ---- round 4 (a): the spectral theorem in dimension 3 and solver independence.  solver_ok eigh := forall A, msym A -> eigh_ok eigh A *)
Theorem C11_eigen_solver_exists : exists eigh : M -> E3, forall A : M, msym A -> eigh_ok eigh A.
Proof. exact eigh_exists. Qed.
Theorem C11_eigen_solver : solver_ok eigh_sym.
Proof. exact eigh_sym_ok. Qed.
Theorem C11_spectral_function_solver_independent : forall (eigh1 eigh2 : M -> E3) (f : R -> R) (A : M),
  eigh_ok eigh1 A -> eigh_ok eigh2 A -> spectral eigh1 f A = spectral eigh2 f A.
Proof. exact spectral_solver_independent. Qed.
Theorem C11_log_sqrt_canonical : forall (eigh : M -> E3) (A : M), msym A -> eigh_ok eigh A -> lss_spec eigh A = lss_R A.
Proof. exact lss_R_canonical. Qed.
Theorem C11_exponential_canonical : forall (eigh : M -> E3) (A : M), msym A -> eigh_ok eigh A -> expm_spec eigh A = expm_R A.
Proof. exact expm_R_canonical. Qed.

(* ---- round 4 (b): the contract on symmetric matrices is all that is needed (no per-call premise) ... *)
Theorem C11_isochoric_all_three_branch : forall (eighL eighE : M -> E3), solver_ok eighE ->
  forall (n : nat) (p : @p8 R) (Fv : M) (dt : R) (H : M), 0 < taub n p -> 0 < dt ->
  mdet (state_new_b n (lss_spec eighL) (expm_spec eighE) p Fv dt H) = mdet Fv.
Proof. exact state_new_b_det_all. Qed.
Theorem C11_coaxial_update_all : forall (eighL eighE : M -> E3), solver_ok eighL -> solver_ok eighE ->
  forall (K G Gn tau : R) (H Fv : M) (dt : R), 0 < tau -> 0 < dt -> mdet (defgrad H) <> 0 -> mdet Fv <> 0 ->
  Etrial (lss_spec eighL) H (state_new_hv (lss_spec eighL) (expm_spec eighE) (K, G, Gn, tau) Fv dt H)
  = relax_hv (K, G, Gn, tau) dt (Etrial (lss_spec eighL) H Fv).
Proof. exact coax_hv_all. Qed.
Theorem C11_coaxial_update_all_three_branch : forall (eighL eighE : M -> E3), solver_ok eighL -> solver_ok eighE ->
  forall (n : nat) (p : @p8 R) (H Fv : M) (dt : R), 0 < taub n p -> 0 < dt -> mdet (defgrad H) <> 0 -> mdet Fv <> 0 ->
  Etrial_mb (lss_spec eighL) H (state_new_b n (lss_spec eighL) (expm_spec eighE) p Fv dt H) = relax_b n p dt (Etrial_mb (lss_spec eighL) H Fv).
Proof. exact coax_b_all. Qed.
Theorem C11_relaxation_monotone_all : forall (eighL eighE : M -> E3), solver_ok eighL -> solver_ok eighE ->
  forall (K G Gn tau : R) (H : M) (dts : list R), 0 < tau -> 0 <= Gn -> mdet (defgrad H) <> 0 -> Forall (fun dt => 0 < dt) dts ->
  forall Fv : M, mdet Fv <> 0 -> nonincreasing (reported (lss_spec eighL) (expm_spec eighE) K G Gn tau H Fv dts).
Proof. exact relaxation_monotone_all. Qed.
Theorem C11_relaxation_monotone_all_three_branch : forall (eighL eighE : M -> E3), solver_ok eighL -> solver_ok eighE ->
  forall (n : nat) (p : @p8 R) (H : M) (dts : list R), (forall n, 0 < taub n p) -> (forall n, 0 <= Gb n p) -> mdet (defgrad H) <> 0 ->
  Forall (fun dt => 0 < dt) dts -> forall Fv : M, mdet Fv <> 0 -> nonincreasing (reported_b (lss_spec eighL) (expm_spec eighE) p H n Fv dts).
Proof. exact relaxation_monotone_b_all. Qed.
Theorem C11_relaxation_monotone_all_total : forall (eighL eighE : M -> E3), solver_ok eighL -> solver_ok eighE ->
  forall (p : @p8 R) (H : M) (dts : list R), (forall n, 0 < taub n p) -> (forall n, 0 <= Gb n p) -> mdet (defgrad H) <> 0 ->
  Forall (fun dt => 0 < dt) dts -> forall Fv1 Fv2 Fv3 : M, mdet Fv1 <> 0 -> mdet Fv2 <> 0 -> mdet Fv3 <> 0 ->
  nonincreasing (reported_total (lss_spec eighL) (expm_spec eighE) p H Fv1 Fv2 Fv3 dts).
Proof. exact relaxation_monotone_total_all. Qed.
(* ... and with the solver of C11_eigen_solver NO hypothesis on the matrix functions is left: lss_R = lss_spec eigh_sym, expm_R = expm_spec eigh_sym *)
Theorem C11_isochoric_unconditional : forall (K G Gn tau : R) (Fv : M) (dt : R) (H : M), 0 < tau -> 0 < dt ->
  mdet (state_new_hv lss_R expm_R (K, G, Gn, tau) Fv dt H) = mdet Fv.
Proof. exact (state_new_hv_det_all eigh_sym eigh_sym eigh_sym_ok). Qed.
Theorem C11_relaxation_unconditional : forall (K G Gn tau : R) (H : M) (dts : list R), 0 < tau -> 0 <= Gn -> mdet (defgrad H) <> 0 ->
  Forall (fun dt => 0 < dt) dts -> forall Fv : M, mdet Fv <> 0 -> nonincreasing (reported lss_R expm_R K G Gn tau H Fv dts).
Proof. exact relaxation_unconditional_hv. Qed.
Theorem C11_relaxation_unconditional_total : forall (p : @p8 R) (H : M) (dts : list R), (forall n, 0 < taub n p) -> (forall n, 0 <= Gb n p) ->
  mdet (defgrad H) <> 0 -> Forall (fun dt => 0 < dt) dts -> forall Fv1 Fv2 Fv3 : M, mdet Fv1 <> 0 -> mdet Fv2 <> 0 -> mdet Fv3 <> 0 ->
  nonincreasing (reported_total lss_R expm_R p H Fv1 Fv2 Fv3 dts).
Proof. exact relaxation_unconditional_total. Qed.

(* ---- round 4 (c): arbitrary histories steps = [(H_1, dt_1); (H_2, dt_2); ...] with positive steps (steps_pos).  run_hv / run_b n give the
        viscous distortion after the history, diss_hv / diss_mb the dissipated energies the model reports step by step *)
Theorem C11_history_isochoric : forall (lss expm : M -> M), (forall A : M, mdet (expm A) = exp (mtrace A)) ->
  forall (K G Gn tau : R) (steps : list (M * R)), 0 < tau -> steps_pos steps -> forall Fv : M, mdet (run_hv lss expm (K, G, Gn, tau) Fv steps) = mdet Fv.
Proof. exact history_det_hv. Qed.
Theorem C11_history_isochoric_three_branch : forall (lss expm : M -> M), (forall A : M, mdet (expm A) = exp (mtrace A)) ->
  forall (n : nat) (p : @p8 R) (steps : list (M * R)), (forall n, 0 < taub n p) -> steps_pos steps -> forall Fv : M, mdet (run_b n lss expm p Fv steps) = mdet Fv.
Proof. exact history_det_b. Qed.
Theorem C11_history_isochoric_spectral : forall (eighL eighE : M -> E3), solver_ok eighE ->
  forall (K G Gn tau : R) (steps : list (M * R)), 0 < tau -> steps_pos steps ->
  forall Fv : M, mdet (run_hv (lss_spec eighL) (expm_spec eighE) (K, G, Gn, tau) Fv steps) = mdet Fv.
Proof. exact history_det_hv_spec. Qed.
Theorem C11_virgin_history_isochoric : forall (K G Gn tau : R) (steps : list (M * R)), 0 < tau -> steps_pos steps ->
  mdet (run_hv lss_R expm_R (K, G, Gn, tau) mid steps) = 1.
Proof. exact virgin_history_isochoric_hv. Qed.
Theorem C11_virgin_history_isochoric_three_branch : forall (n : nat) (p : @p8 R) (steps : list (M * R)), (forall n, 0 < taub n p) -> steps_pos steps ->
  mdet (run_b n lss_R expm_R p mid steps) = 1.
Proof. exact virgin_history_isochoric_b. Qed.
Theorem C11_history_dissipation_nonneg : forall (lss expm : M -> M) (K G Gn tau : R) (steps : list (M * R)), 0 < tau -> 0 <= Gn -> steps_pos steps ->
  forall Fv : M, Forall (fun d => 0 <= d) (diss_hv lss expm (K, G, Gn, tau) Fv steps).
Proof. exact history_diss_nonneg_hv. Qed.
Theorem C11_history_dissipation_nonneg_three_branch : forall (lss expm : M -> M) (p : @p8 R) (steps : list (M * R)),
  (forall n, 0 < taub n p) -> (forall n, 0 <= Gb n p) -> steps_pos steps ->
  forall Fv1 Fv2 Fv3 : M, Forall (fun d => 0 <= d) (diss_mb lss expm p Fv1 Fv2 Fv3 steps).
Proof. exact history_diss_nonneg_mb. Qed.
Theorem C11_accumulated_dissipation_monotone : forall l : list R, Forall (fun d => 0 <= d) l -> forall acc : R, nondecreasing_from acc (partial_sums acc l).
Proof. exact partial_sums_monotone. Qed.
Theorem C11_relaxation_after_history : forall (K G Gn tau : R) (steps : list (M * R)) (H : M) (dts : list R), 0 < tau -> 0 <= Gn -> steps_pos steps ->
  mdet (defgrad H) <> 0 -> Forall (fun dt => 0 < dt) dts ->
  nonincreasing (reported lss_R expm_R K G Gn tau H (run_hv lss_R expm_R (K, G, Gn, tau) mid steps) dts).
Proof. exact relaxation_after_history_hv. Qed.
Theorem C11_relaxation_after_history_total : forall (p : @p8 R) (steps : list (M * R)) (H : M) (dts : list R),
  (forall n, 0 < taub n p) -> (forall n, 0 <= Gb n p) -> steps_pos steps -> mdet (defgrad H) <> 0 -> Forall (fun dt => 0 < dt) dts ->
  nonincreasing (reported_total lss_R expm_R p H (run_b 0 lss_R expm_R p mid steps) (run_b 1 lss_R expm_R p mid steps) (run_b 2 lss_R expm_R p mid steps) dts).
Proof. exact relaxation_after_history_total. Qed.

(* ---- round 4 (d, e): three-branch limits in epsilon form; the trial strain of a virgin material *)
Theorem C11_limit_instantaneous_three_branch : forall (lss : M -> M) (p : @p8 R) (Fv1 Fv2 Fv3 H : M),
  (forall n, 0 < taub n p) -> (forall n, 0 <= Gb n p) -> forall eps, 0 < eps ->
  exists delta, 0 < delta /\ forall dt, 0 < dt < delta -> Rabs (E_mb lss p Fv1 Fv2 Fv3 dt H - W_inst_mb lss p Fv1 Fv2 Fv3 H) < eps.
Proof. exact mb_limit_dt_to_0. Qed.
Theorem C11_limit_equilibrium_three_branch : forall (lss : M -> M) (p : @p8 R) (Fv1 Fv2 Fv3 H : M),
  (forall n, 0 < taub n p) -> (forall n, 0 <= Gb n p) -> forall eps, 0 < eps ->
  exists T, 0 < T /\ forall dt, T < dt -> Rabs (E_mb lss p Fv1 Fv2 Fv3 dt H - W_eq_mb p H) < eps.
Proof. exact mb_limit_dt_to_infinity. Qed.
Theorem C11_virgin_trial_strain : forall (lss : M -> M) (H : M), Etrial lss H mid = lss (mmul (mtr (defgrad H)) (defgrad H)).
Proof. exact Etrial_virgin. Qed.
Theorem C11_virgin_trial_strain_three_branch : forall (lss : M -> M) (H : M), Etrial_mb lss H mid = lss (mmul (mtr (defgrad H)) (defgrad H)).
Proof. exact Etrial_mb_virgin. Qed.

(* non-vacuity of the history theorems: a two-step history with two different non-diagonal deformations has positive steps *)
Example C11_history_nonvacuous : exists steps : list (M * R), steps_pos steps /\ length steps = 2%nat /\ fst (nth 0 steps (mzero, 0)) <> fst (nth 1 steps (mzero, 0)).
Proof. exact history_nonvacuous. Qed.

(* non-vacuity: the hypotheses on expm and the coaxial update are jointly satisfiable *)
Example C11_nonvacuous : exists (lss expm : M -> M),
  (forall A : M, mdet (expm A) = exp (mtrace A))
  /\ forall K G Gn tau (H Fv : M) dt, 0 < tau -> 0 < dt ->
       Etrial lss H (state_new_hv lss expm (K, G, Gn, tau) Fv dt H) = relax_hv (K, G, Gn, tau) dt (Etrial lss H Fv).
Proof. exact hypotheses_satisfiable. Qed.

(* non-vacuity of the eigen-solver contract: on a diagonal stretch history the solver that returns (diagonal, identity) meets it at
   the increment, for a deformation with a non-zero increment *)
Example C11_spectral_nonvacuous : exists (eigh : M -> E3) (H Fv : M),
  (forall K G Gn tau dt, 0 < tau -> 0 < dt -> eigh_ok eigh (inc_hv (K, G, Gn, tau) dt (Etrial (lss_spec eigh) H Fv)))
  /\ inc_hv (0, 0, 1, 1) 1 (Etrial (lss_spec eigh) H Fv) <> mzero.
Proof. exact spectral_contract_satisfiable. Qed.

(* non-vacuity of the solver contract along sequences: a non-trivial diagonal stretch, every sequence of positive steps *)
Example C11_spectral_sequence_nonvacuous : exists (eigh : M -> E3) (H Fv : M), mdet (defgrad H) <> 0 /\ mdet Fv <> 0 /\ H <> mzero
  /\ forall K G Gn tau dts, 0 < tau -> Forall (fun dt => 0 < dt) dts -> seq_ok_hv eigh eigh (K, G, Gn, tau) H Fv dts.
Proof. exact spectral_sequence_satisfiable. Qed.

Print Assumptions C11_dissipation_nonneg.
Print Assumptions C11_dissipation_nonneg_three_branch.
Print Assumptions C11_isochoric.
Print Assumptions C11_isochoric_spectral.
Print Assumptions C11_relaxation_monotone.
Print Assumptions C11_relaxation_monotone_total.
Print Assumptions C11_relaxation_monotone_spectral.
Print Assumptions C11_limit_instantaneous.
Print Assumptions C11_limit_equilibrium.
Print Assumptions C11_eigen_solver.
Print Assumptions C11_relaxation_unconditional_total.
Print Assumptions C11_relaxation_after_history.
Print Assumptions C11_history_isochoric.
