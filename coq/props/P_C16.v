(* C16 -- property theorems only.  Each is closed by `exact <lemma>`.  Subjects: the closest-point kernels regenerated from
   /repo (OV.gen.Gen_EdgeCpp / Gen_Surface / Gen_Levelset / Gen_MortarContact) at T := R, and the hand model of the mortar
   integrals and the penalty energy (OV.model.M_C16_Mortar, tied to the implementation by the correspondence in ./check C16), and the hand model of
   the mesh-level level-set / penalty functions (OV.model.M_C16_Mesh: gathers over elements, sides and rule points; tied by the
   exact mesh correspondence stream).
   Vocabulary (proofs/L_C16.v): d2 = squared distance, dist = sqrt d2, lerp t u v = (1-t)u + t v,
   tline = parameter of the orthogonal projection on the line, rx/ry = rotation (c,s) followed by translation (tx,ty). *)
From Coq Require Import Reals List.
From OV.base Require Import Num.
From OV.gen Require Import Gen_Surface Gen_EdgeCpp Gen_Levelset Gen_MortarContact.
From Coq Require Import ZArith.
From Coq Require Floats.   (* not imported: primitives must print as PrimFloat.* under Print Assumptions *)
From OV.model Require Import M_C16_Mortar M_C16_Mesh M_C16_Patched.
From OV.proofs Require Import L_C18 L_C16 L_C16m L_C16h L_C16p L_C16f L_C16r.
Import ListNotations.
Local Open Scope R_scope.

(* ---- closest-point projection: on the segment, parameter in [0,1], nearest point ---- *)
Theorem C16_cpp_on_segment : forall a0 a1 b0 b1, (a0, a1) <> (b0, b1) -> forall p0 p1,
  let '(q0, q1, t) := @cpp R NumR a0 a1 b0 b1 p0 p1 in 0 <= t <= 1 /\ q0 = lerp t a0 b0 /\ q1 = lerp t a1 b1.
Proof. exact cpp_on_segment. Qed.
Theorem C16_cpp_nearest : forall a0 a1 b0 b1, (a0, a1) <> (b0, b1) -> forall p0 p1 s, 0 <= s <= 1 ->
  let '(q0, q1, _) := @cpp R NumR a0 a1 b0 b1 p0 p1 in dist p0 p1 q0 q1 <= dist p0 p1 (lerp s a0 b0) (lerp s a1 b1).
Proof. exact cpp_nearest. Qed.
Theorem C16_cpp_line_perpendicular : forall a0 a1 b0 b1, (a0, a1) <> (b0, b1) -> forall p0 p1,
  let '(q0, q1, _) := @cpp_line R NumR a0 a1 b0 b1 p0 p1 in (b0 - a0) * (p0 - q0) + (b1 - a1) * (p1 - q1) = 0.
Proof. exact cpp_line_perpendicular. Qed.

(* ---- signed distance: magnitude = Euclidean distance to the segment; sign = side of the outward normal, 0 |-> + ---- *)
Theorem C16_signed_distance_abs : forall a0 a1 b0 b1, (a0, a1) <> (b0, b1) -> forall p0 p1,
  let '(q0, q1, _) := @cpp R NumR a0 a1 b0 b1 p0 p1 in Rabs (@cpp_distance R NumR a0 a1 b0 b1 p0 p1) = dist p0 p1 q0 q1.
Proof. exact cpp_distance_abs. Qed.
Theorem C16_signed_distance_beyond_ends : forall a0 a1 b0 b1, (a0, a1) <> (b0, b1) -> forall p0 p1,
  (tline a0 a1 b0 b1 p0 p1 < 0 -> Rabs (@cpp_distance R NumR a0 a1 b0 b1 p0 p1) = dist p0 p1 a0 a1) /\
  (1 < tline a0 a1 b0 b1 p0 p1 -> Rabs (@cpp_distance R NumR a0 a1 b0 b1 p0 p1) = dist p0 p1 b0 b1).
Proof. exact cpp_distance_beyond_ends. Qed.
Theorem C16_signed_distance_sign : forall a0 a1 b0 b1, (a0, a1) <> (b0, b1) -> forall p0 p1,
  let '(n0, n1) := @Gen_Surface.compute_normal R NumR a0 a1 b0 b1 in
  let s := n0 * (p0 - a0) + n1 * (p1 - a1) in
  (0 <= s -> 0 <= @cpp_distance R NumR a0 a1 b0 b1 p0 p1) /\ (s < 0 -> @cpp_distance R NumR a0 a1 b0 b1 p0 p1 < 0).
Proof. exact cpp_distance_sign. Qed.
Theorem C16_normal_unit_perpendicular : forall a0 a1 b0 b1, (a0, a1) <> (b0, b1) ->
  let '(n0, n1) := @Gen_Surface.compute_normal R NumR a0 a1 b0 b1 in n0 * n0 + n1 * n1 = 1 /\ n0 * (b0 - a0) + n1 * (b1 - a1) = 0.
Proof. exact compute_normal_unit. Qed.
(* several edges (Contact.get_closest_distance): the result is one of the edge distances and has the smallest magnitude *)
Theorem C16_closest_of_several_edges : forall l : list R, l <> [] ->
  In (@closest_distance R NumR l) l /\ forall d, In d l -> Rabs (@closest_distance R NumR l) <= Rabs d.
Proof. exact closest_distance_spec. Qed.

(* ---- rigid-motion invariance of projection and signed distance (rotations; a reflection flips the sign) ---- *)
Theorem C16_cpp_rigid : forall c s tx ty, c * c + s * s = 1 -> forall a0 a1 b0 b1 p0 p1, (a0, a1) <> (b0, b1) ->
  let '(q0, q1, t) := @cpp R NumR a0 a1 b0 b1 p0 p1 in
  @cpp R NumR (rx c s tx a0 a1) (ry c s ty a0 a1) (rx c s tx b0 b1) (ry c s ty b0 b1) (rx c s tx p0 p1) (ry c s ty p0 p1)
  = (rx c s tx q0 q1, ry c s ty q0 q1, t).
Proof. exact cpp_rigid. Qed.
Theorem C16_signed_distance_rigid : forall c s tx ty, c * c + s * s = 1 -> forall a0 a1 b0 b1 p0 p1, (a0, a1) <> (b0, b1) ->
  @cpp_distance R NumR (rx c s tx a0 a1) (ry c s ty a0 a1) (rx c s tx b0 b1) (ry c s ty b0 b1) (rx c s tx p0 p1) (ry c s ty p0 p1)
  = @cpp_distance R NumR a0 a1 b0 b1 p0 p1.
Proof. exact cpp_distance_rigid. Qed.
Theorem C16_reflection_flips_sign : @cpp_distance R NumR 0 0 1 0 0 1 = -1 /\ @cpp_distance R NumR 0 0 1 0 0 (-1) = 1.
Proof. exact cpp_distance_reflection_flips. Qed.

(* ---- mortar integrals (hand model of compute_intersection + integrate_with_active_mortar) ---- *)
Theorem C16_mortar_solve_is_the_intended_solve : forall xa0 xa1 e00 e01 e10 e11 n0 n1,
  (e00 - e10) * n1 - n0 * (e01 - e11) <> 0 ->
  let '(xi, g) := @compute_xi R NumR xa0 xa1 e00 e01 e10 e11 n0 n1 in
  xa0 - ((1 - xi) * e00 + xi * e10) + g * n0 = 0 /\ xa1 - ((1 - xi) * e01 + xi * e11) + g * n1 = 0.
Proof. exact compute_xi_solves. Qed.
Theorem C16_mortar_rigid_invariance_from_a : forall c s tx ty, c * c + s * s = 1 -> forall a00 a01 a10 a11 b00 b01 b10 b11 f l quad,
  @mortar R NumR (@normal_from_a R NumR) (rx c s tx a00 a01) (ry c s ty a00 a01) (rx c s tx a10 a11) (ry c s ty a10 a11)
     (rx c s tx b00 b01) (ry c s ty b00 b01) (rx c s tx b10 b11) (ry c s ty b10 b11) f l quad
  = @mortar R NumR (@normal_from_a R NumR) a00 a01 a10 a11 b00 b01 b10 b11 f l quad.
Proof. exact mortar_rigid_from_a. Qed.
Theorem C16_mortar_rigid_invariance_average : forall c s tx ty, c * c + s * s = 1 -> forall a00 a01 a10 a11 b00 b01 b10 b11 f l quad,
  @mortar R NumR (@average_normal R NumR) (rx c s tx a00 a01) (ry c s ty a00 a01) (rx c s tx a10 a11) (ry c s ty a10 a11)
     (rx c s tx b00 b01) (ry c s ty b00 b01) (rx c s tx b10 b11) (ry c s ty b10 b11) f l quad
  = @mortar R NumR (@average_normal R NumR) a00 a01 a10 a11 b00 b01 b10 b11 f l quad.
Proof. exact mortar_rigid_average. Qed.
(* any common-normal rule that rotates with the segments *)
Theorem C16_mortar_rigid_invariance : forall c s tx ty, c * c + s * s = 1 ->
  forall (rule : R -> R -> R -> R -> R -> R -> R -> R -> R * R) a00 a01 a10 a11 b00 b01 b10 b11 f l quad,
  rule (rx c s tx a00 a01) (ry c s ty a00 a01) (rx c s tx a10 a11) (ry c s ty a10 a11) (rx c s tx b00 b01) (ry c s ty b00 b01) (rx c s tx b10 b11) (ry c s ty b10 b11)
    = (rot0 c s (fst (rule a00 a01 a10 a11 b00 b01 b10 b11)) (snd (rule a00 a01 a10 a11 b00 b01 b10 b11)),
       rot1 c s (fst (rule a00 a01 a10 a11 b00 b01 b10 b11)) (snd (rule a00 a01 a10 a11 b00 b01 b10 b11))) ->
  @mortar R NumR rule (rx c s tx a00 a01) (ry c s ty a00 a01) (rx c s tx a10 a11) (ry c s ty a10 a11)
     (rx c s tx b00 b01) (ry c s ty b00 b01) (rx c s tx b10 b11) (ry c s ty b10 b11) f l quad
  = @mortar R NumR rule a00 a01 a10 a11 b00 b01 b10 b11 f l quad.
Proof. exact mortar_rigid. Qed.
(* sign and vanishing, for every common normal *)
Theorem C16_mortar_nonneg : forall l, 0 < l <= 1 / 2 -> forall a00 a01 a10 a11 b00 b01 b10 b11 n0 n1 f (quad : list (R * R)),
  (forall q, In q quad -> 0 <= snd q) -> (forall xa xb g, 0 <= f xa xb g) ->
  0 <= @mortar_with_normal R NumR a00 a01 a10 a11 b00 b01 b10 b11 n0 n1 f l quad.
Proof. exact mortar_nonneg. Qed.
Theorem C16_mortar_no_overlap_zero : forall l a00 a01 a10 a11 b00 b01 b10 b11 n0 n1 f (quad : list (R * R)),
  ~ some_valid (@candidates R NumR a00 a01 a10 a11 b00 b01 b10 b11 n0 n1) ->
  @mortar_with_normal R NumR a00 a01 a10 a11 b00 b01 b10 b11 n0 n1 f l quad = 0.
Proof. exact mortar_no_overlap. Qed.
Theorem C16_mortar_touching_zero : forall l a00 a01 a10 a11 b00 b01 b10 b11 n0 n1 f (quad : list (R * R)),
  let cs := @candidates R NumR a00 a01 a10 a11 b00 b01 b10 b11 n0 n1 in
  cxa (@sel_min R NumR cs) = cxa (@sel_max R NumR cs) ->
  @mortar_with_normal R NumR a00 a01 a10 a11 b00 b01 b10 b11 n0 n1 f l quad = 0.
Proof. exact mortar_touching. Qed.
(* the selected end points are the extreme valid candidates *)
Theorem C16_mortar_selection : forall l : list (R * R * R), some_valid l ->
  vP (@sel_min R NumR l) /\ vP (@sel_max R NumR l) /\ In (@sel_min R NumR l) l /\ In (@sel_max R NumR l) l /\
  (forall x, In x l -> vP x -> cxa (@sel_min R NumR l) <= cxa x <= cxa (@sel_max R NumR l)).
Proof. exact selection_spec. Qed.
Theorem C16_smooth_linear_monotone : forall l, 0 < l <= 1 / 2 -> forall x y, 0 <= x <= y -> y <= 1 ->
  @smooth_linear R NumR x l <= @smooth_linear R NumR y l.
Proof. exact slin_monotone. Qed.
(* parallel, oppositely oriented segments, any position/orientation: overlap length and gap area up to the smoothing length *)
Theorem C16_parallel_segments : forall c s tx ty LA u v h l (quad : list (R * R)),
  c * c + s * s = 1 -> 0 < LA -> v < u -> 0 < l <= 1 / 2 -> Rmax 0 v <= Rmin LA u ->
  fold_right (fun q acc => snd q + acc) 0 quad = 1 ->
  let m f := @mortar R NumR (@normal_from_a R NumR)
               (rx c s tx 0 0) (ry c s ty 0 0) (rx c s tx LA 0) (ry c s ty LA 0)
               (rx c s tx u (- h)) (ry c s ty u (- h)) (rx c s tx v (- h)) (ry c s ty v (- h)) f l quad in
  Rabs (m (fun _ _ _ => 1) - (Rmin LA u - Rmax 0 v)) <= l * (LA + (u - v)) / 2 /\
  m (fun _ _ g => g) = h * m (fun _ _ _ => 1).
Proof. exact parallel_segments_any_position. Qed.

(* ---- parallel segments: the remaining rule / orientation combinations of the UNPATCHED source (round 4) ---- *)
(* anti-parallel segments with the AVERAGE-normal rule (the rule the tests and the example of /repo use): nA - nB = 2 nA *)
Theorem C16_parallel_segments_average : forall c s tx ty LA u v h l (quad : list (R * R)),
  c * c + s * s = 1 -> 0 < LA -> v < u -> 0 < l <= 1 / 2 -> Rmax 0 v <= Rmin LA u ->
  fold_right (fun q acc => snd q + acc) 0 quad = 1 ->
  let m f := @mortar R NumR (@average_normal R NumR)
               (rx c s tx 0 0) (ry c s ty 0 0) (rx c s tx LA 0) (ry c s ty LA 0)
               (rx c s tx u (- h)) (ry c s ty u (- h)) (rx c s tx v (- h)) (ry c s ty v (- h)) f l quad in
  Rabs (m (fun _ _ _ => 1) - (Rmin LA u - Rmax 0 v)) <= l * (LA + (u - v)) / 2 /\
  m (fun _ _ g => g) = h * m (fun _ _ _ => 1).
Proof. exact parallel_segments_average. Qed.
(* parallel segments of the SAME orientation (B from v to u, v < u) with the one-sided rule *)
Theorem C16_parallel_same_orientation_from_a : forall c s tx ty LA u v h l (quad : list (R * R)),
  c * c + s * s = 1 -> 0 < LA -> v < u -> 0 < l <= 1 / 2 -> Rmax 0 v <= Rmin LA u ->
  fold_right (fun q acc => snd q + acc) 0 quad = 1 ->
  let m f := @mortar R NumR (@normal_from_a R NumR)
               (rx c s tx 0 0) (ry c s ty 0 0) (rx c s tx LA 0) (ry c s ty LA 0)
               (rx c s tx v (- h)) (ry c s ty v (- h)) (rx c s tx u (- h)) (ry c s ty u (- h)) f l quad in
  Rabs (m (fun _ _ _ => 1) - (Rmin LA u - Rmax 0 v)) <= l * (LA + (u - v)) / 2 /\
  m (fun _ _ g => g) = h * m (fun _ _ _ => 1).
Proof. exact parallel_same_orientation_from_a. Qed.

(* ---- binary64: the sign clause of cpp_distance for points EXACTLY on the line of the segment (round 4) ----
   The regenerated kernel at T := float (PrimFloat, IEEE binary64), executed inside the kernel on the whole grid and lifted from
   forallb.  line_dist e a0 a1 d0 d1 k = cpp_distance of the segment a = (a0,a1) 2^e, b = a + (d0,d1) 2^e at p = a + (k/4)(b - a).
   Bounds of the grid: e in {-3, 0, 2}, |a_i| <= 3, |d_i| <= 3, d <> 0, -8 <= k <= 12  (147 168 points).
   On the segment the result is a zero (0 |-> +: `0 <= r`, also for the IEEE value -0), beyond either end it is strictly positive. *)
Theorem C16_binary64_on_line_counts_as_positive : forall e a0 a1 d0 d1 k : Z,
  In e [-3; 0; 2]%Z -> (-3 <= a0 <= 3)%Z -> (-3 <= a1 <= 3)%Z -> (-3 <= d0 <= 3)%Z -> (-3 <= d1 <= 3)%Z -> (d0, d1) <> (0, 0)%Z ->
  (-8 <= k <= 12)%Z ->
  let r := @cpp_distance PrimFloat.float NumF (F a0 e) (F a1 e) (F (a0 + d0) e) (F (a1 + d1) e) (F (4 * a0 + k * d0) (e - 2)) (F (4 * a1 + k * d1) (e - 2)) in
  PrimFloat.leb (F 0 0) r = true /\ ((0 <= k <= 4)%Z -> PrimFloat.eqb r (F 0 0) = true) /\ ((k < 0 \/ 4 < k)%Z -> PrimFloat.ltb (F 0 0) r = true).
Proof. exact cpp_distance_on_line_binary64. Qed.

(* ==================================================================================================================
   PROPOSED PATCHES for the open findings C16-F1 / C16-F2  --  NOT the code in /repo (unchanged; the findings stay open).
   Subjects: model/M_C16_Patched.v, the models of the patched functions whose Python text is tools/vlib/c16_patches.py
   (PATCH_F1 / PATCH_F2; executed against these models by the stream `patched` of ./check C16).
   ================================================================================================================== *)
(* F1: compute_average_normal with a fall-back to nA when |nA - nB| <= eps.   nn_of nA nB = |nA - nB|. *)
Theorem C16_patchF1_is_the_average_rule_when_well_conditioned : forall eps a00 a01 a10 a11 b00 b01 b10 b11,
  eps < nn_of (@Gen_MortarContact.compute_normal R NumR a00 a01 a10 a11) (@Gen_MortarContact.compute_normal R NumR b00 b01 b10 b11) ->
  @average_normal_p R NumR eps a00 a01 a10 a11 b00 b01 b10 b11 = @average_normal R NumR a00 a01 a10 a11 b00 b01 b10 b11.
Proof. exact avgp_is_avg. Qed.
Theorem C16_patchF1_unit_normal : forall eps a00 a01 a10 a11 b00 b01 b10 b11,
  0 <= eps -> (a00, a01) <> (a10, a11) -> (b00, b01) <> (b10, b11) ->
  let n := @average_normal_p R NumR eps a00 a01 a10 a11 b00 b01 b10 b11 in fst n * fst n + snd n * snd n = 1.
Proof. exact avgp_unit. Qed.
(* every numeric type, binary64 included: the division is only performed by a norm that compares > eps (a NaN norm does not) *)
Theorem C16_patchF1_no_division_by_a_small_norm : forall (T : Type) (NT : Num T) (eps a00 a01 a10 a11 b00 b01 b10 b11 : T),
  let nA := @Gen_MortarContact.compute_normal T NT a00 a01 a10 a11 in
  let nB := @Gen_MortarContact.compute_normal T NT b00 b01 b10 b11 in
  let d0 := nsub (fst nA) (fst nB) in let d1 := nsub (snd nA) (snd nB) in
  let nn := nsqrt (nadd (nmul d0 d0) (nmul d1 d1)) in
  (nltb eps nn = false -> @average_normal_p T NT eps a00 a01 a10 a11 b00 b01 b10 b11 = nA) /\
  (nltb eps nn = true -> @average_normal_p T NT eps a00 a01 a10 a11 b00 b01 b10 b11 = (ndiv d0 nn, ndiv d1 nn)).
Proof. exact avgp_no_small_division. Qed.
Theorem C16_patchF1_mortar_rigid_invariance : forall c s tx ty, c * c + s * s = 1 -> forall eps a00 a01 a10 a11 b00 b01 b10 b11 f l quad,
  @mortar R NumR (@average_normal_p R NumR eps) (rx c s tx a00 a01) (ry c s ty a00 a01) (rx c s tx a10 a11) (ry c s ty a10 a11)
     (rx c s tx b00 b01) (ry c s ty b00 b01) (rx c s tx b10 b11) (ry c s ty b10 b11) f l quad
  = @mortar R NumR (@average_normal_p R NumR eps) a00 a01 a10 a11 b00 b01 b10 b11 f l quad.
Proof. exact mortar_rigid_average_p. Qed.
(* the configuration of the finding (parallel, SAME orientation: the unpatched rule is 0/0) now gives the overlap length *)
Theorem C16_patchF1_same_orientation : forall eps c s tx ty LA u v h l (quad : list (R * R)), 0 <= eps ->
  c * c + s * s = 1 -> 0 < LA -> v < u -> 0 < l <= 1 / 2 -> Rmax 0 v <= Rmin LA u ->
  fold_right (fun q acc => snd q + acc) 0 quad = 1 ->
  let m f := @mortar R NumR (@average_normal_p R NumR eps)
               (rx c s tx 0 0) (ry c s ty 0 0) (rx c s tx LA 0) (ry c s ty LA 0)
               (rx c s tx v (- h)) (ry c s ty v (- h)) (rx c s tx u (- h)) (ry c s ty u (- h)) f l quad in
  Rabs (m (fun _ _ _ => 1) - (Rmin LA u - Rmax 0 v)) <= l * (LA + (u - v)) / 2 /\
  m (fun _ _ g => g) = h * m (fun _ _ _ => 1).
Proof. exact parallel_same_orientation_average_p. Qed.
(* ... and facing (anti-parallel) segments are unaffected, for every threshold below |nA - nB| = 2 *)
Theorem C16_patchF1_facing_segments : forall eps c s tx ty LA u v h l (quad : list (R * R)), eps < 2 ->
  c * c + s * s = 1 -> 0 < LA -> v < u -> 0 < l <= 1 / 2 -> Rmax 0 v <= Rmin LA u ->
  fold_right (fun q acc => snd q + acc) 0 quad = 1 ->
  let m f := @mortar R NumR (@average_normal_p R NumR eps)
               (rx c s tx 0 0) (ry c s ty 0 0) (rx c s tx LA 0) (ry c s ty LA 0)
               (rx c s tx u (- h)) (ry c s ty u (- h)) (rx c s tx v (- h)) (ry c s ty v (- h)) f l quad in
  Rabs (m (fun _ _ _ => 1) - (Rmin LA u - Rmax 0 v)) <= l * (LA + (u - v)) / 2 /\
  m (fun _ _ g => g) = h * m (fun _ _ _ => 1).
Proof. exact parallel_segments_average_p. Qed.
(* binary64, by execution inside the kernel: on the witness of the finding the model of the unpatched source returns NaN
   (encoded [0; 7777]), the models of the patch (eps = 0 and eps = 1e-8) return the overlap length 0.6 within 8e-4 and gap = 0.1 * area *)
Theorem C16_F1_witness_binary64 :
  fenc (f1_mortar (@average_normal PrimFloat.float NumF) oneF) = [0; 7777]%Z /\
  near (f1_mortar (@average_normal_p PrimFloat.float NumF (F 0 0)) oneF) (F 5404319552844595 (-53)) (F 7378697629483821 (-63)) = true /\
  near (f1_mortar (@average_normal_p PrimFloat.float NumF (F 3022314549036573 (-78))) oneF) (F 5404319552844595 (-53)) (F 7378697629483821 (-63)) = true /\
  near (f1_mortar (@average_normal_p PrimFloat.float NumF (F 3022314549036573 (-78))) gapF)
       (PrimFloat.mul (F 3602879701896397 (-55)) (f1_mortar (@average_normal_p PrimFloat.float NumF (F 3022314549036573 (-78))) oneF)) (F 1 (-50)) = true.
Proof. exact F1_witness_binary64. Qed.

(* F2: compute_intersection with the toleranced mask -tol <= xi <= 1+tol and clipping to [0,1].
   vPt tol c = the toleranced mask accepts c;  from_list tol l m = m is the clipped image of an accepted candidate of l;
   close d c c' = both parameters of c' are within d of those of c. *)
Theorem C16_patchF2_tolerance_zero_is_the_source : forall a00 a01 a10 a11 b00 b01 b10 b11 n0 n1 f l quad,
  @mortar_with_normal_p R NumR 0 a00 a01 a10 a11 b00 b01 b10 b11 n0 n1 f l quad
  = @mortar_with_normal R NumR a00 a01 a10 a11 b00 b01 b10 b11 n0 n1 f l quad.
Proof. exact mortar_p_tol0. Qed.
Theorem C16_patchF2_selection : forall tol (l : list (R * R * R)), some_valid_t tol l ->
  from_list tol l (@sel_min_p R NumR tol l) /\ from_list tol l (@sel_max_p R NumR tol l) /\
  (forall x, In x l -> vPt tol x -> cxa (@sel_min_p R NumR tol l) <= cxa (@clipc R NumR x) <= cxa (@sel_max_p R NumR tol l)).
Proof. exact selection_p_spec. Qed.
Theorem C16_patchF2_parameters_in_unit_interval : forall tol (l : list (R * R * R)), some_valid_t tol l ->
  vP (@sel_min_p R NumR tol l) /\ vP (@sel_max_p R NumR tol l) /\ cxa (@sel_min_p R NumR tol l) <= cxa (@sel_max_p R NumR tol l).
Proof. exact selection_p_in_unit_interval. Qed.
Theorem C16_patchF2_rigid_invariance : forall c s tx ty tol, c * c + s * s = 1 -> forall a00 a01 a10 a11 b00 b01 b10 b11 n0 n1 f l quad,
  @mortar_with_normal_p R NumR tol (rx c s tx a00 a01) (ry c s ty a00 a01) (rx c s tx a10 a11) (ry c s ty a10 a11)
        (rx c s tx b00 b01) (ry c s ty b00 b01) (rx c s tx b10 b11) (ry c s ty b10 b11) (rot0 c s n0 n1) (rot1 c s n0 n1) f l quad
  = @mortar_with_normal_p R NumR tol a00 a01 a10 a11 b00 b01 b10 b11 n0 n1 f l quad.
Proof. exact mortar_p_rigid. Qed.
Theorem C16_patchF2_nonneg : forall tol l, 0 < l <= 1 / 2 -> forall a00 a01 a10 a11 b00 b01 b10 b11 n0 n1 f (quad : list (R * R)),
  (forall q, In q quad -> 0 <= snd q) -> (forall xa xb g, 0 <= f xa xb g) ->
  0 <= @mortar_with_normal_p R NumR tol a00 a01 a10 a11 b00 b01 b10 b11 n0 n1 f l quad.
Proof. exact mortar_p_nonneg. Qed.
Theorem C16_patchF2_no_overlap_zero : forall tol a00 a01 a10 a11 b00 b01 b10 b11 n0 n1 f l quad,
  ~ some_valid_t tol (@candidates R NumR a00 a01 a10 a11 b00 b01 b10 b11 n0 n1) ->
  @mortar_with_normal_p R NumR tol a00 a01 a10 a11 b00 b01 b10 b11 n0 n1 f l quad = 0.
Proof. exact mortar_p_no_overlap. Qed.
(* what the patch is for: if every parameter of the candidate list is perturbed by at most d <= tol (rounding of the 2x2 solves),
   the patched selection keeps both ends of the exact overlap up to d *)
Theorem C16_patchF2_keeps_the_overlap : forall tol d (l l' : list (R * R * R)),
  Forall2 (close d) l l' -> 0 <= d <= tol -> some_valid l ->
  cxa (@sel_min_p R NumR tol l') <= cxa (@sel_min R NumR l) + d /\ cxa (@sel_max R NumR l) - d <= cxa (@sel_max_p R NumR tol l').
Proof. exact patched_selection_keeps_overlap. Qed.
(* two-sided, for facing parallel segments in the axis position (A = (0,0)-(LA,0), B = (u,-h)-(v,-h), v < u, common normal (0,-1)):
   on ANY candidate list l' whose parameters are within d <= tol of the exact ones, the area integral of the patched code is the
   overlap length up to (l/2 + 3 (tol + d)) (|A| + |B|)   (l' := the exact list, d := 0 shows the hypotheses are satisfiable) *)
Theorem C16_patchF2_parallel_robust : forall LA u v h l tol d, 0 < LA -> v < u -> 0 < l <= 1 / 2 -> 0 <= d <= tol ->
  Rmax 0 v <= Rmin LA u -> forall l' : list (R * R * R),
  Forall2 (close d) (@candidates R NumR 0 0 LA 0 u (- h) v (- h) 0 (- 1)) l' ->
  forall quad : list (R * R), fold_right (fun q acc => snd q + acc) 0 quad = 1 ->
  Rabs (@active R NumR (@sel_min_p R NumR tol l') (@sel_max_p R NumR tol l') LA (u - v) (fun _ _ _ => 1) l quad - (Rmin LA u - Rmax 0 v))
    <= (l / 2 + 3 * (tol + d)) * (LA + (u - v)).
Proof. exact patched_parallel_robust. Qed.
(* ... whereas the un-toleranced mask of the source loses the WHOLE overlap of a conforming pair under an arbitrarily small
   outward perturbation of the parameters (the mechanism of finding C16-F2, over R), and the patched selection does not *)
Theorem C16_F2_untoleranced_mask_refuted : forall d, 0 < d ->
  Forall2 (close d) conforming_exact (conforming_perturbed d) /\
  cxa (@sel_min R NumR conforming_exact) = 0 /\ cxa (@sel_max R NumR conforming_exact) = 1 /\
  ~ some_valid (conforming_perturbed d) /\
  (forall lenA lenB f s quad,
     @active R NumR (@sel_min R NumR (conforming_perturbed d)) (@sel_max R NumR (conforming_perturbed d)) lenA lenB f s quad = 0) /\
  (forall tol, d <= tol -> cxa (@sel_min_p R NumR tol (conforming_perturbed d)) = 0 /\ cxa (@sel_max_p R NumR tol (conforming_perturbed d)) = 1).
Proof. exact untoleranced_mask_loses_the_overlap. Qed.
(* binary64, by execution inside the kernel: f2_W = a rotated conforming pair on which the binary64 hand model of the unpatched
   source returns 0 instead of the overlap length 2 (all four candidates miss [0,1] by one rounding); f2_K = the failing input of
   the implementation recorded in known_findings.d/C16.json; the model of the patch (tol = 1e-12) returns 2 within 2^-26 on both *)
Theorem C16_F2_witness_binary64 :
  fenc (f2_W (@mortar PrimFloat.float NumF (@normal_from_a PrimFloat.float NumF))) = [0; 0]%Z /\
  near (f2_W (@mortar_p PrimFloat.float NumF tol12 (@normal_from_a PrimFloat.float NumF))) (F 2 0) (F 1 (-26)) = true /\
  near (f2_K (@mortar_p PrimFloat.float NumF tol12 (@normal_from_a PrimFloat.float NumF))) (F 2 0) (F 1 (-26)) = true /\
  fenc (f2_W (@mortar_p PrimFloat.float NumF (F 0 0) (@normal_from_a PrimFloat.float NumF))) = [0; 0]%Z.
Proof. exact F2_witness_binary64. Qed.

(* ---- penalty energy and level sets ---- *)
Theorem C16_penalty_edge : forall k jac (wphi : list (R * R)), 0 < k -> 0 < jac -> (forall q, In q wphi -> 0 < fst q) ->
  0 <= @penalty_edge R NumR k jac wphi /\ (@penalty_edge R NumR k jac wphi = 0 <-> forall q, In q wphi -> 0 <= snd q).
Proof. exact penalty_edge_sign. Qed.
Theorem C16_penalty_total : forall edges : list (R * R * list (R * R)),
  (forall e, In e edges -> 0 < fst (fst e) /\ 0 < snd (fst e) /\ forall q, In q (snd e) -> 0 < fst q) ->
  0 <= @penalty_total R NumR edges /\
  (@penalty_total R NumR edges = 0 <-> forall e q, In e edges -> In q (snd e) -> 0 <= snd q).
Proof. exact penalty_total_sign. Qed.
Theorem C16_levelset_plane : forall x0 x1 yLoc, @plane R NumR x0 x1 yLoc = yLoc - x1.
Proof. exact plane_value. Qed.
Theorem C16_levelset_corner : forall x0 x1 xLoc yLoc, @corner R NumR x0 x1 xLoc yLoc = Rmin (x0 - xLoc) (x1 - yLoc).
Proof. exact corner_value. Qed.
Theorem C16_levelset_sphere : forall x0 x1 xLoc yLoc Rad, @sphere R NumR x0 x1 xLoc yLoc Rad = dist x0 x1 xLoc yLoc - Rad.
Proof. exact sphere_value. Qed.
Theorem C16_levelset_sphere_sign : forall x0 x1 xLoc yLoc Rad, 0 <= Rad ->
  (0 <= @sphere R NumR x0 x1 xLoc yLoc Rad <-> Rad * Rad <= d2 x0 x1 xLoc yLoc).
Proof. exact sphere_sign. Qed.

(* ---- mesh level: LevelsetConstraint.compute_levelset_constraints / compute_contact_point_coordinates,
        PenaltyContact.evaluate_contact_constraints / compute_total_penalty_contact_energy (model/M_C16_Mesh.v).
   Vocabulary (proofs/L_C16h.v): lookupZ l z = Some x iff 0 <= z < length l and x is entry z;  pick3 (a,b,c) k = entry k of a
   connectivity row;  sample_point X0 U0 X1 U1 xi = (X0+U0) + ((X1+U1) - (X0+U0)) * xi componentwise, in the numeric type;
   edge_ok = element, side, both nodes in range (coords and disp) and distinct REFERENCE end points. ---- *)
(* the constraint array has one row per edge and one column per rule point *)
Theorem C16_mesh_levelset_shape : forall (T : Type) (NT : Num T) (phi : T -> T -> T) coords disp conns xig edges,
  length (levelset_constraints phi coords disp conns xig edges) = length edges /\
  (forall row, In row (levelset_constraints phi coords disp conns xig edges) -> length row = length xig) /\
  length (contact_point_coordinates coords disp conns xig edges) = length edges /\
  (forall row, In row (contact_point_coordinates coords disp conns xig edges) -> length row = length xig).
Proof. exact @mesh_constraints_shape. Qed.
(* level-set clause, every numeric type (binary64 included): entry (i, q) is the obstacle function at x + u interpolated at rule
   point q between the two nodes conns[el][s], conns[el][(s+1) mod 3] of edge i = (el, s) *)
Theorem C16_mesh_levelset_pointwise : forall (T : Type) (NT : Num T) (phi : T -> T -> T) coords disp conns xig edges
    i q el s c (X0 U0 X1 U1 : T * T) xi,
  nth_error edges i = Some (el, s) -> lookupZ conns el = Some c -> (0 <= s <= 2)%Z ->
  lookupZ coords (pick3 c s) = Some X0 -> lookupZ disp (pick3 c s) = Some U0 ->
  lookupZ coords (pick3 c ((s + 1) mod 3)%Z) = Some X1 -> lookupZ disp (pick3 c ((s + 1) mod 3)%Z) = Some U1 ->
  nth_error xig q = Some xi ->
  exists row, nth_error (levelset_constraints phi coords disp conns xig edges) i = Some row /\
              nth_error row q = Some (phi (fst (sample_point X0 U0 X1 U1 xi)) (snd (sample_point X0 U0 X1 U1 xi))).
Proof. exact @mesh_constraint_entry. Qed.
Theorem C16_mesh_contact_point_coordinates : forall (T : Type) (NT : Num T) coords disp conns xig edges i q el s c (X0 U0 X1 U1 : T * T) xi,
  nth_error edges i = Some (el, s) -> lookupZ conns el = Some c -> (0 <= s <= 2)%Z ->
  lookupZ coords (pick3 c s) = Some X0 -> lookupZ disp (pick3 c s) = Some U0 ->
  lookupZ coords (pick3 c ((s + 1) mod 3)%Z) = Some X1 -> lookupZ disp (pick3 c ((s + 1) mod 3)%Z) = Some U1 ->
  nth_error xig q = Some xi ->
  exists row, nth_error (contact_point_coordinates coords disp conns xig edges) i = Some row /\
              nth_error row q = Some (sample_point X0 U0 X1 U1 xi).
Proof. exact @mesh_contact_point_entry. Qed.
Theorem C16_mesh_constraints_are_levelset_at_contact_points : forall (T : Type) (NT : Num T) (phi : T -> T -> T) coords disp conns xig edges,
  levelset_constraints phi coords disp conns xig edges
  = map (map (fun p : T * T => phi (fst p) (snd p))) (contact_point_coordinates coords disp conns xig edges).
Proof. exact @mesh_constraints_are_phi_at_contact_points. Qed.
(* over R the sample point is the convex combination lerp xi (x0+u0) (x1+u1) of the two deformed end nodes *)
Theorem C16_mesh_levelset_pointwise_R : forall (phi : R -> R -> R) coords disp conns xig edges i q el s c (X0 U0 X1 U1 : R * R) xi,
  nth_error edges i = Some (el, s) -> lookupZ conns el = Some c -> (0 <= s <= 2)%Z ->
  lookupZ coords (pick3 c s) = Some X0 -> lookupZ disp (pick3 c s) = Some U0 ->
  lookupZ coords (pick3 c ((s + 1) mod 3)%Z) = Some X1 -> lookupZ disp (pick3 c ((s + 1) mod 3)%Z) = Some U1 ->
  nth_error xig q = Some xi ->
  exists row, nth_error (@levelset_constraints R NumR phi coords disp conns xig edges) i = Some row /\
              nth_error row q = Some (phi (lerp xi (fst X0 + fst U0) (fst X1 + fst U1)) (lerp xi (snd X0 + snd U0) (snd X1 + snd U1))).
Proof. exact mesh_constraint_entry_R. Qed.
(* the mesh-level penalty energy IS the sample-level energy of C16_penalty_total on (stiffness, reference edge length, rule
   weights paired with the constraint row) -- every numeric type *)
Theorem C16_mesh_penalty_is_sample_penalty : forall (T : Type) (NT : Num T) (phi : T -> T -> T) coords disp conns xig wg edges k,
  total_penalty_contact_energy phi coords disp conns xig wg edges k
  = penalty_total (map (fun edge => (k, edge_jac (eval_field pzero coords (get_field_index conns edge)),
                                     combine wg (edge_levelset_constraints phi coords disp conns xig edge))) edges).
Proof. exact @mesh_total_energy_is_penalty_total. Qed.
(* penalty clause at mesh level: energy >= 0, and = 0 exactly when no entry of the constraint array is negative *)
Theorem C16_mesh_penalty_sign : forall (phi : R -> R -> R) coords disp conns xig wg edges k,
  0 < k -> (forall w, In w wg -> 0 < w) -> length wg = length xig -> (forall e, In e edges -> edge_ok coords disp conns e) ->
  0 <= @total_penalty_contact_energy R NumR phi coords disp conns xig wg edges k /\
  (@total_penalty_contact_energy R NumR phi coords disp conns xig wg edges k = 0 <->
   forall row v, In row (@levelset_constraints R NumR phi coords disp conns xig edges) -> In v row -> 0 <= v).
Proof. exact mesh_penalty_sign. Qed.
(* ... i.e. exactly when no deformed sample point is strictly inside the obstacle (plane / corner / circle of the source) *)
Theorem C16_mesh_penalty_zero_plane : forall yLoc coords disp conns xig wg edges k,
  0 < k -> (forall w, In w wg -> 0 < w) -> length wg = length xig -> (forall e, In e edges -> edge_ok coords disp conns e) ->
  (@total_penalty_contact_energy R NumR (fun x y => @plane R NumR x y yLoc) coords disp conns xig wg edges k = 0 <->
   forall row p, In row (@contact_point_coordinates R NumR coords disp conns xig edges) -> In p row -> snd p <= yLoc).
Proof. exact mesh_penalty_zero_plane. Qed.
Theorem C16_mesh_penalty_zero_corner : forall xLoc yLoc coords disp conns xig wg edges k,
  0 < k -> (forall w, In w wg -> 0 < w) -> length wg = length xig -> (forall e, In e edges -> edge_ok coords disp conns e) ->
  (@total_penalty_contact_energy R NumR (fun x y => @corner R NumR x y xLoc yLoc) coords disp conns xig wg edges k = 0 <->
   forall row p, In row (@contact_point_coordinates R NumR coords disp conns xig edges) -> In p row -> xLoc <= fst p /\ yLoc <= snd p).
Proof. exact mesh_penalty_zero_corner. Qed.
Theorem C16_mesh_penalty_zero_sphere : forall xLoc yLoc Rad coords disp conns xig wg edges k, 0 <= Rad ->
  0 < k -> (forall w, In w wg -> 0 < w) -> length wg = length xig -> (forall e, In e edges -> edge_ok coords disp conns e) ->
  (@total_penalty_contact_energy R NumR (fun x y => @sphere R NumR x y xLoc yLoc Rad) coords disp conns xig wg edges k = 0 <->
   forall row p, In row (@contact_point_coordinates R NumR coords disp conns xig edges) -> In p row ->
                 Rad * Rad <= d2 (fst p) (snd p) xLoc yLoc).
Proof. exact mesh_penalty_zero_sphere. Qed.

(* NOT PROVED (binary64): the theorems about distances, mortar integrals and the SIGN of the penalty energy are over exact reals.
   In floating point the implementation departs in two documented ways that the real model cannot express (division by zero is
   total in R): (i) with the average-normal rule two segments with bitwise equal normals give 0/0 = NaN for the common normal and
   a NaN integral (known finding C16-F1); (ii) when a 2x2 system is singular jnp.linalg.solve returns inf/NaN, which the validity
   mask discards; (iii) the un-toleranced mask 0 <= xi <= 1 is decided by rounding for node-aligned pairs (known finding C16-F2).
   PROVED in round 4 about binary64: C16_binary64_on_line_counts_as_positive (sign clause 0 |-> + of the regenerated cpp_distance at
   T := float for points exactly on the line, on a stated grid of 147 168 dyadic inputs -- a bounded statement, NOT the clause for
   all binary64 inputs); C16_F1_witness_binary64 / C16_F2_witness_binary64 (the binary64 hand model of the unpatched source returns
   NaN resp. 0 on a witness -- (i) and (iii) are properties of the faithful model, not only of the implementation).
   PROVED in round 4 about PROPOSED patches (models in model/M_C16_Patched.v, text in tools/vlib/c16_patches.py, /repo unchanged,
   findings still open): C16_patchF1_* and C16_patchF2_* (incl. the two-sided perturbation bound C16_patchF2_parallel_robust for facing
   parallel segments).  Still NOT PROVED for the patches: that the binary64 2x2 solves perturb the parameters by at most d <= tol
   (a rounding error analysis of Cramer / LU for well-conditioned systems: the perturbation is a HYPOTHESIS of
   C16_patchF2_keeps_the_overlap / _parallel_robust), hence no statement for ALL binary64 inputs -- the patched models are tied at
   binary64 by the `patched` correspondence stream only; the gap integral under perturbation (only the area integral is bounded).
   PROVED in round 4 about the unpatched source: the parallel-segment clause for the average-normal rule (facing segments) and for
   same-orientation segments with the one-sided rule (C16_parallel_segments_average, C16_parallel_same_orientation_from_a); the
   average rule on same-orientation segments is the open finding C16-F1 (0/0).
   PROVED since round 3 (was NOT PROVED): the level-set clause for the mesh-level functions -- C16_mesh_levelset_pointwise (every
   numeric type, binary64 included: it is a statement about which nodes are gathered and which expression is evaluated),
   C16_mesh_contact_point_coordinates, C16_mesh_penalty_sign and the obstacle-specific corollaries.
   NOT MODELLED there: JAX's treatment of out-of-range indices (negative indices wrap, too large ones are clamped); the theorems
   require in-range elements / sides / nodes (lookupZ ... = Some ...), and a vectorised user obstacle function is modelled as a
   pointwise phi (plane / corner / sphere are regenerated pointwise; Levelset.combined is checked on the implementation only).
   The friction potential of LevelsetConstraint.py is outside C16. *)

Example C16_nonvacuous : (0 < 1 <= 1 / 2 + 1 / 2) /\ (3 / 5 * (3 / 5) + 4 / 5 * (4 / 5) = 1) /\ Rmax 0 (1 / 4) <= Rmin 1 (3 / 4) /\
  fold_right (fun q acc => snd q + acc) 0 [(1 / 4, 1 / 2); (3 / 4, 1 / 2)] = 1 /\ vP (1 / 2, 1 / 2, 0).
Proof. exact C16_mortar_nonvacuous. Qed.
Example C16_mesh_level_nonvacuous :
  (forall e, In e [(0, 2)%Z] -> edge_ok ex_coords ex_disp ex_conns e) /\ (forall w, In w [1 / 2; 1 / 2] -> 0 < w) /\
  @levelset_constraints R NumR (fun x y => @plane R NumR x y 2) ex_coords ex_disp ex_conns [1 / 4; 3 / 4] [(0, 2)%Z] = [[19 / 16; 25 / 16]] /\
  @total_penalty_contact_energy R NumR (fun x y => @plane R NumR x y 2) ex_coords ex_disp ex_conns [1 / 4; 3 / 4] [1 / 2; 1 / 2] [(0, 2)%Z] 10 = 0 /\
  0 < @total_penalty_contact_energy R NumR (fun x y => @plane R NumR x y (1 / 2)) ex_coords ex_disp ex_conns [1 / 4; 3 / 4] [1 / 2; 1 / 2] [(0, 2)%Z] 10.
Proof. exact C16_mesh_nonvacuous. Qed.

Print Assumptions C16_cpp_nearest.
Print Assumptions C16_signed_distance_abs.
Print Assumptions C16_signed_distance_sign.
Print Assumptions C16_signed_distance_rigid.
Print Assumptions C16_mortar_rigid_invariance_average.
Print Assumptions C16_parallel_segments.
Print Assumptions C16_mesh_levelset_pointwise.
Print Assumptions C16_mesh_penalty_sign.
Print Assumptions C16_parallel_segments_average.
Print Assumptions C16_binary64_on_line_counts_as_positive.
Print Assumptions C16_patchF1_same_orientation.
Print Assumptions C16_patchF2_parallel_robust.
