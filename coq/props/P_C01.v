(* C01 -- property theorems only (each closed by `exact <lemma>`).  Subject: model/M_C01_TR.v (trust_region_minimize as a
   fuelled state machine) at T := R, for ARBITRARY oracle functions value/grad/hessvec/precond/mult_approx: no smoothness,
   convexity or consistency between them is assumed.  `chain o l`: l is non-increasing and starts at or below o. *)
From Coq Require Import Reals List String.
From OV.base Require Import Num.
From OV.model Require Import M_C06_Vec M_C06_CG M_C01_TR M_C01_CFG.
From OV.gen Require Import CFG_TR.
From OV.proofs Require Import L_C06_Vec L_C01 L_C01_F1 L_C01_CFG.
Import ListNotations.
Local Open Scope R_scope.

(* the sign analysis of rho: with eta1 >= 0, whatever the model objective (negative, zero, positive and re-signed), a step is
   accepted only if the measured objective change is <= 0 *)
Theorem C01_accept_implies_descent : forall (S : settings R) mo ro rn gn, 0 <= s_eta1 S ->
  @will_accept R NumR S (@rho_of R NumR mo ro) rn gn = true -> ro <= 0.
Proof. exact accept_descent. Qed.

(* descent on accepted iterates + each reported value is the objective at the reported point;
   flag = true only at a ConvergedAt event (or the initial test) at the returned point, whose gradient is below tolerance;
   flag = false: the returned point is the current (last accepted, or start) iterate and the trace ends with that exit's event *)
Theorem C01_trace_properties : forall (value : list R -> R) (grad : list R -> list R)
    (hessvec precond mult_approx : list R -> list R -> list R) (S : settings R) fuel x xp0,
  let '(xr, flag, tr) := @trust_region_minimize R NumR value grad hessvec precond mult_approx S fuel x xp0 in
  accepts_ok value tr /\
  (s_use_incremental S = false -> 0 <= s_eta1 S -> chain (value x) (accept_vals tr)) /\
  (flag = true -> ((exists tr', tr = tr' ++ [EConverged xr]) \/ tr = [EConvergedInit xr]) /\
                  grad xr ⋅ grad xr < @tol2 R NumR S) /\
  (flag = false -> xr = cur x tr /\
                   exists tr', tr = tr' ++ [ETooSmall xr] \/ tr = tr' ++ [EMaxIters xr] \/ tr = tr' ++ [EOutOfFuel]).
Proof. exact trm_spec. Qed.

(* the inner `while not happyAboutTrSize` loop leaves after at most k+1 passes when trSize * t1^k < min_tr_size
   (admissible settings: 0 < t1 < 1, 0 < min_tr_size, eta1 <= eta2), so the model's fuel is never the reason for an exit *)
Theorem C01_inner_loop_terminates : forall (value : list R -> R) (grad : list R -> list R)
    (hessvec mult_approx : list R -> list R -> list R) (S : settings R),
  0 < s_t1 S < 1 -> 0 < s_min_tr_size S -> s_eta1 S <= s_eta2 S ->
  forall k s cp qn stepType cgIters, c_tr s * s_t1 S ^ k < s_min_tr_size S ->
  not_fuel (@inner R NumR value grad hessvec mult_approx S (Datatypes.S k) s cp qn stepType cgIters).
Proof. exact inner_terminates. Qed.

(* finding F1: the "never goes uphill" clause is FALSE at the converged exit (convergence test precedes acceptance).
   Binary64 instance of the model on f = x + x^2/2 - 4x^3 - 3x^4, x0 = 0, default settings: returns (-1, True), f: 0 -> 1/2. *)
Theorem C01_converged_exit_can_go_uphill_refuted_binary64 :
  match f1_run with
  | ([y], true, [EConverged [y']]) =>
      andb (PrimFloat.eqb y (F (-1) 0)) (andb (PrimFloat.eqb y' y)
        (andb (PrimFloat.eqb (f1_value [y]) (F 1 (-1))) (andb (PrimFloat.eqb (f1_value [F 0 0]) (F 0 0))
              (PrimFloat.ltb (f1_value [F 0 0]) (f1_value [y])))))
  | _ => false
  end = true.
Proof. exact f1_converged_exit_goes_uphill_binary64. Qed.

(* ---- structural tie of the hand model to the source (round 3).
   gen/CFG_TR.v is the abstract syntax tree of EquationSolver.trust_region_minimize, is_converged and is_on_boundary, re-extracted from
   /repo on every run (purely syntactic translation, fail closed).  model/M_C01_CFG.v gives that syntax a meaning (an interpreter of
   the Python subset, generic in Num T and in the objective's oracles).  The theorem: for EVERY number type, all oracles, all settings,
   all values of the local variables and every pass budget k, running the extracted `while not happyAboutTrSize` loop -- the body is
   located in the tree by computation (tr_wbody), never copied -- from a state whose live locals are L does exactly what the hand
   model's `inner k` does from the corresponding state: same exit (converged return / too-small return / continue the outer loop /
   out of budget), same returned point and flag, same sequence of callback(x) and update_precond(x) calls, same values of
   x, g, o, gNorm, trSize, triedNewPrecond, cumulativeCgIters and preconditioner state on continuing.  Hence the order "convergence
   test before acceptance test", the expression of rho and its re-signing when modelObjective > 0, `not rho >= eta2`, the t1 / t2
   radius updates, willAccept, the preconditioner refresh rule and the two-stage too-small exit of the hand model ARE the ones of the
   source text; is_converged and is_on_boundary are run from their own extracted trees.  The hypotheses on L only say that the three
   function-valued locals hold the lambdas / bound method created by the first three statements of the `for` body (again read off the
   tree by computation: clo_incr, clo_hv, val_mult) and that happyAboutTrSize is False, as at every loop head. *)
Theorem C01_inner_loop_is_the_extracted_source : forall (T : Type) (NT : Num T) (value : list T -> T) (grad : list T -> list T)
    (hessvec precond mult_approx : list T -> list T -> list T) (S : settings T) (chk : bool) (fuel F0 k : nat)
    (L : live) (J : string -> val) (xp0 : list T) (tr0 : list rawev),
  l_incr L = clo_incr S -> l_hv L = clo_hv -> l_mult L = val_mult S -> l_happy L = false ->
  rel_inner chk tr0
    (@inner T NT value grad hessvec mult_approx S k (hand L xp0) (l_cp L) (l_qn L) (l_step L) (l_cg L))
    (@WL T NT value grad hessvec precond mult_approx S chk fuel (60 + F0) k (mkst L J xp0 tr0)).
Proof. exact (@while_inner). Qed.

Example C01_inner_loop_tie_nonvacuous : forall (T : Type) (NT : Num T) (S : settings T),
  exists L : live, l_incr L = clo_incr S /\ l_hv L = clo_hv /\ l_mult L = val_mult S /\ l_happy L = false.
Proof. exact (@while_inner_hyps_satisfiable). Qed.

(* the `while` of the theorem is the one inside the `for` of the extracted function, and nothing else is in between *)
Theorem C01_extracted_tree_shape :
  tr_body = firstn 9 tr_body ++ [SFor tr_fori tr_forn tr_forbody] ++ tr_epilogue
  /\ tr_forbody = removelast tr_forbody ++ [SWhile tr_wcond tr_wbody].
Proof. exact tr_shape. Qed.

(* NOT PROVED: (a) the same refutation over R (the evaluation of the whole first iteration over R by case analysis on ~25
   real comparisons did not fit the budget; the binary64 run above is exact because all data are small dyadics);
   (b) "on well-conditioned strictly convex problems with default settings it reports success at the unique minimizer":
   needs a quantitative global-convergence proof with the 100/50 iteration caps -- tested by L2 only;
   (c) "every reported iterate is finite": a NaN/overflow statement about binary64, vacuous over R -- tested by L2 only;
   (d) float-only corner: modelObjective = +0.0 makes the denominator -0.0 and flips the infinities (an uphill step with
   exactly zero predicted change would be accepted); over R the zero is unsigned.  The binary64 model reproduces it and the
   exact-switch stream of the harness probes it.
   (e) the driver nonlinear_equation_solve (objective.p = p before the solve) is exercised by the harness, not modelled (its syntax
   tree is extracted into gen/CFG_TR.v, but the interpreter has no semantics for the attribute store yet);
   (f) the structural tie covers the inner `while` loop (all decisions of a trust-region pass).  The statements before it -- initial
   convergence test, Cauchy-point block, call of the CG sub-solver -- the outer `for` and the max-iterations exit are extracted and
   interpreted too, but their agreement with the hand model (propose / outer / trust_region_minimize) is only checked by running both on
   the harness's cases (bit-for-bit, stream extracted_tree_vs_hand_model), not yet proved by induction over the outer loop. *)

Example C01_nonvacuous :
  0 < s_t1 default_settings_R < 1 /\ 0 < s_min_tr_size default_settings_R /\
  s_eta1 default_settings_R <= s_eta2 default_settings_R /\ 0 <= s_eta1 default_settings_R /\
  s_use_incremental default_settings_R = false /\
  s_tr_size default_settings_R * s_t1 default_settings_R ^ 14 < s_min_tr_size default_settings_R.
Proof. exact default_settings_admissible. Qed.

Print Assumptions C01_accept_implies_descent.
Print Assumptions C01_trace_properties.
Print Assumptions C01_inner_loop_terminates.
Print Assumptions C01_converged_exit_can_go_uphill_refuted_binary64.
Print Assumptions C01_inner_loop_is_the_extracted_source.
