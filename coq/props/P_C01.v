(* C01 -- property theorems only (each closed by `exact <lemma>`).  Subject: model/M_C01_TR.v (trust_region_minimize as a
   fuelled state machine) at T := R, for ARBITRARY oracle functions value/grad/hessvec/precond/mult_approx: no smoothness,
   convexity or consistency between them is assumed.  `chain o l`: l is non-increasing and starts at or below o. *)
From Coq Require Import Reals List String.
From OV.base Require Import Num.
From OV.model Require Import M_C06_Vec M_C06_CG M_C01_TR M_C01_CFG M_C01_Drv.
From OV.gen Require Import CFG_TR.
From OV.proofs Require Import L_C06_Vec L_C01 L_C01_F1 L_C01_CFG L_C01_Drv L_C01_NaN L_C01_Outer.
Import ListNotations.
Local Open Scope R_scope.

(* the sign analysis of rho: with eta1 >= 0, whatever the model objective (negative, zero, positive and re-signed), a step is
   accepted only if the measured objective change is <= 0 *)
Theorem C01_accept_implies_descent : forall (S : settings R) mo ro rn gn, 0 <= s_eta1 S ->
  @will_accept R NumR S (@rho_of R NumR mo ro) rn gn = true -> ro <= 0.
Proof. exact accept_descent. Qed.

(* descent on accepted iterates + each reported value is the objective at the reported point;
   flag = true only at a ConvergedAt event (or the initial test) at the returned point, whose gradient is below tolerance;
   flag = false: the returned point is the current (last accepted, or start) iterate and the trace ends with that exit's event *)
Theorem C01_trace_properties : forall (value : list R -> R) (grad : list R -> list R)
    (hessvec precond mult_approx : list R -> list R -> list R) (S : settings R) fuel x xp0,
  let '(xr, flag, tr) := @trust_region_minimize R NumR value grad hessvec precond mult_approx S fuel x xp0 in
  accepts_ok value tr /\
  (s_use_incremental S = false -> 0 <= s_eta1 S -> chain (value x) (accept_vals tr)) /\
  (flag = true -> ((exists tr', tr = tr' ++ [EConverged xr]) \/ tr = [EConvergedInit xr]) /\
                  grad xr ⋅ grad xr < @tol2 R NumR S) /\
  (flag = false -> xr = cur x tr /\
                   exists tr', tr = tr' ++ [ETooSmall xr] \/ tr = tr' ++ [EMaxIters xr] \/ tr = tr' ++ [EOutOfFuel]).
Proof. exact trm_spec. Qed.

(* the inner `while not happyAboutTrSize` loop leaves after at most k+1 passes when trSize * t1^k < min_tr_size
   (admissible settings: 0 < t1 < 1, 0 < min_tr_size, eta1 <= eta2), so the model's fuel is never the reason for an exit *)
Theorem C01_inner_loop_terminates : forall (value : list R -> R) (grad : list R -> list R)
    (hessvec mult_approx : list R -> list R -> list R) (S : settings R),
  0 < s_t1 S < 1 -> 0 < s_min_tr_size S -> s_eta1 S <= s_eta2 S ->
  forall k s cp qn stepType cgIters, c_tr s * s_t1 S ^ k < s_min_tr_size S ->
  not_fuel (@inner R NumR value grad hessvec mult_approx S (Datatypes.S k) s cp qn stepType cgIters).
Proof. exact inner_terminates. Qed.

(* finding F1: the "never goes uphill" clause is FALSE at the converged exit (convergence test precedes acceptance).
   Binary64 instance of the model on f = x + x^2/2 - 4x^3 - 3x^4, x0 = 0, default settings: returns (-1, True), f: 0 -> 1/2. *)
Theorem C01_converged_exit_can_go_uphill_refuted_binary64 :
  match f1_run with
  | ([y], true, [EConverged [y']]) =>
      andb (PrimFloat.eqb y (F (-1) 0)) (andb (PrimFloat.eqb y' y)
        (andb (PrimFloat.eqb (f1_value [y]) (F 1 (-1))) (andb (PrimFloat.eqb (f1_value [F 0 0]) (F 0 0))
              (PrimFloat.ltb (f1_value [F 0 0]) (f1_value [y])))))
  | _ => false
  end = true.
Proof. exact f1_converged_exit_goes_uphill_binary64. Qed.

(* ---- structural tie of the hand model to the source (round 3).
   gen/CFG_TR.v is the abstract syntax tree of EquationSolver.trust_region_minimize, is_converged and is_on_boundary, re-extracted from
   /repo on every run (purely syntactic translation, fail closed).  model/M_C01_CFG.v gives that syntax a meaning (an interpreter of
   the Python subset, generic in Num T and in the objective's oracles).  The theorem: for EVERY number type, all oracles, all settings,
   all values of the local variables and every pass budget k, running the extracted `while not happyAboutTrSize` loop -- the body is
   located in the tree by computation (tr_wbody), never copied -- from a state whose live locals are L does exactly what the hand
   model's `inner k` does from the corresponding state: same exit (converged return / too-small return / continue the outer loop /
   out of budget), same returned point and flag, same sequence of callback(x) and update_precond(x) calls, same values of
   x, g, o, gNorm, trSize, triedNewPrecond, cumulativeCgIters and preconditioner state on continuing.  Hence the order "convergence
   test before acceptance test", the expression of rho and its re-signing when modelObjective > 0, `not rho >= eta2`, the t1 / t2
   radius updates, willAccept, the preconditioner refresh rule and the two-stage too-small exit of the hand model ARE the ones of the
   source text; is_converged and is_on_boundary are run from their own extracted trees.  The hypotheses on L only say that the three
   function-valued locals hold the lambdas / bound method created by the first three statements of the `for` body (again read off the
   tree by computation: clo_incr, clo_hv, val_mult) and that happyAboutTrSize is False, as at every loop head. *)
Theorem C01_inner_loop_is_the_extracted_source : forall (T : Type) (NT : Num T) (value : list T -> T) (grad : list T -> list T)
    (hessvec precond mult_approx : list T -> list T -> list T) (S : settings T) (chk : bool) (fuel F0 k : nat)
    (L : live) (J : string -> val) (xp0 : list T) (tr0 : list rawev),
  l_incr L = clo_incr S -> l_hv L = clo_hv -> l_mult L = val_mult S -> l_happy L = false ->
  rel_inner chk tr0
    (@inner T NT value grad hessvec mult_approx S k (hand L xp0) (l_cp L) (l_qn L) (l_step L) (l_cg L))
    (@WL T NT value grad hessvec precond mult_approx S chk fuel (60 + F0) k (mkst L J xp0 tr0)).
Proof. exact (@while_inner). Qed.

Example C01_inner_loop_tie_nonvacuous : forall (T : Type) (NT : Num T) (S : settings T),
  exists L : live, l_incr L = clo_incr S /\ l_hv L = clo_hv /\ l_mult L = val_mult S /\ l_happy L = false.
Proof. exact (@while_inner_hyps_satisfiable). Qed.

(* the `while` of the theorem is the one inside the `for` of the extracted function, and nothing else is in between *)
Theorem C01_extracted_tree_shape :
  tr_body = firstn 9 tr_body ++ [SFor tr_fori tr_forn tr_forbody] ++ tr_epilogue
  /\ tr_forbody = removelast tr_forbody ++ [SWhile tr_wcond tr_wbody].
Proof. exact tr_shape. Qed.

(* ---- the outer loop of trust_region_minimize (round 4, second pass; item (f) below).  For EVERY number type, all oracles, all settings, all
   values of the local variables L (no hypothesis on them: the `for` body re-creates its lambdas), every iteration count n, loop index i
   and `while` budget: running n passes of the extracted `for` body (located in the tree by computation: tr_forbody -- Cauchy-point block,
   CG call or boundary short-cut, cumulativeCgIters, then the `while`) followed by the extracted statements after the loop (tr_epilogue: the
   max-iterations exit with its check_stability / callback) gives exactly what the hand model's `outer n` gives (propose + inner, n times,
   then EMaxIters): same returned point and flag, same callback / update_precond sequence; out of `while` budget on one side iff on the other. *)
Theorem C01_outer_loop_is_the_extracted_source : forall (T : Type) (NT : Num T) (value : list T -> T) (grad : list T -> list T)
    (hessvec precond mult_approx : list T -> list T -> list T) (S : settings T) (chk : bool) (fuel F0 n i : nat)
    (L : live) (J : string -> val) (xp0 : list T) (tr0 : list rawev),
  result_of (match for_loop (fun j st' => @block T NT value grad hessvec precond mult_approx S chk fuel cfg_functions cfg_string_constants
                                             (71 + F0) tr_forbody (assign tr_fori (VN j) st')) n i (mkst L J xp0 tr0) with
             | ONormal st' => @block T NT value grad hessvec precond mult_approx S chk fuel cfg_functions cfg_string_constants (72 + F0) tr_epilogue st'
             | o => o end)
  = prefix_result tr0 (raw_result chk (@outer T NT value grad hessvec precond mult_approx S n fuel (hand L xp0))).
Proof. exact (@for_outer). Qed.

(* ... and with the nine statements before the loop (g, o, gNorm, the initial convergence test with its callback / return): the WHOLE extracted
   function, called as trust_region_minimize(objective, x, settings, callback) with a callable callback, interpreted from its syntax tree,
   IS the hand model -- same returned point, flag and callback / update_precond sequence; no result on one side (out of `while` budget) iff
   none on the other.  For every number type, all oracles, settings, check_stability flag, start point, preconditioner state, budgets. *)
Theorem C01_extracted_solver_is_the_hand_model : forall (T : Type) (NT : Num T) (value : list T -> T) (grad : list T -> list T)
    (hessvec precond mult_approx : list T -> list T -> list T) (S : settings T) (fuel : nat) (chk : bool) (F0 : nat) (x xp0 : list T),
  result_of (@run T NT value grad hessvec precond mult_approx S chk fuel cfg_functions cfg_string_constants (82 + F0)
               cfg_trust_region_minimize [VObj; VV x; VSet; VCb] xp0)
  = raw_result chk (@trust_region_minimize T NT value grad hessvec precond mult_approx S fuel x xp0).
Proof. exact (@extracted_solver_is_hand_model). Qed.

(* ---- the driver nonlinear_equation_solve (round 4).  model/M_C01_Drv.v interprets ITS syntax tree as extracted from /repo on every run
   (gen/CFG_TR.v: cfg_nonlinear_equation_solve), with a meaning for the attribute store `objective.p = p`: the objective's oracles are
   functions of the parameter value that is current when they are CALLED (any type P), update_precond remembers the parameter it was
   built with, WarmStart.warm_start_increment is an arbitrary function of what it can read (old objective.p, preconditioner state, x, p),
   the solver call binds positional / keyword / default arguments as Python does (solver_algorithm defaults to trust_region_minimize, read
   off the tree) and hands over to `solver`, an arbitrary function here.
   Theorem: for EVERY number type, parameter type, warm-start oracle, scaling (float or vector), solver, with or without callback, both
   values of useWarmStart and updatePrecond and every state of the objective on entry, interpreting the extracted tree gives exactly the
   hand-written closed form driver_hand (model/M_C01_Drv.v): returned point and flag, objective.p / preconditioner state afterwards and
   the whole sequence of effects. *)
Theorem C01_driver_is_the_extracted_source : forall (T : Type) (NT : Num T) (P : Type) (warm : P -> P -> list T -> list T -> P -> list T)
    (scaling invScaling : scal T)
    (solver : string -> fundef -> list (@val T) -> P -> P -> list T -> option (list T * bool * list (@rawev T) * list T))
    (F0 : nat) (x0 : list T) (p : P) (has_cb uw up : bool) (par pcp : P) (xp : list T),
  dresult_of (@drun_default T NT P warm scaling invScaling solver cfg_functions (20 + F0) cfg_nonlinear_equation_solve
                x0 p (cb_val has_cb) uw up par pcp xp)
  = @driver_hand T NT P warm scaling invScaling solver "trust_region_minimize" cfg_trust_region_minimize x0 p (cb_arg has_cb) uw up par pcp xp.
Proof. exact (@driver_is_closed_form). Qed.

(* "the parameters it was asked to solve for are installed before the solve, on every path": whenever the driver returns (success or
   failure flag), objective.p is the requested p afterwards; everything before the store `objective.p = p` is an update_precond under
   the OLD parameters (useWarmStart and updatePrecond); after it come only the optional update_precond under the NEW parameters and the
   ONE solver call, made while objective.p = p; the driver returns that call's flag and invScaling * its point *)
Theorem C01_driver_installs_requested_parameters_on_every_path : forall (T : Type) (NT : Num T) (P : Type)
    (warm : P -> P -> list T -> list T -> P -> list T) (scaling invScaling : scal T)
    (solver : string -> fundef -> list (@val T) -> P -> P -> list T -> option (list T * bool * list (@rawev T) * list T))
    (F0 : nat) (x0 : list T) (p : P) (has_cb uw up : bool) (par pcp : P) (xp x : list T) (f : bool) (par' pcp' : P) (xp' : list T) tr,
  dresult_of (@drun_default T NT P warm scaling invScaling solver cfg_functions (20 + F0) cfg_nonlinear_equation_solve
                x0 p (cb_val has_cb) uw up par pcp xp) = Some (x, f, par', pcp', xp', tr) ->
  par' = p /\
  exists pre pcp2 xp2 xb1 xs ev,
    tr = (pre ++ [DSetP p] ++ (if up then [DUpdatePrecond p xb1] else []) ++
          [DSolve "trust_region_minimize" p pcp2 xp2 [VObj; VV xb1; VSet; cb_arg has_cb] xs f ev])%list /\
    (forall e, In e pre -> exists y, e = DUpdatePrecond par y) /\
    pcp2 = (if up then p else if uw then pcp else pcp) /\
    x = smul invScaling xs /\
    solver "trust_region_minimize" cfg_trust_region_minimize [VObj; VV xb1; VSet; cb_arg has_cb] p pcp2 xp2 = Some (xs, f, ev, xp').
Proof. exact (@driver_installs_parameters). Qed.

(* with the hand model of trust_region_minimize as the solver, over R, arbitrary oracles: when the driver reports success, the gradient
   UNDER THE PARAMETERS IT WAS ASKED TO SOLVE FOR (grad p), at the point the solver returned (the driver returns invScaling * it), is
   below tol -- whatever objective.p was on entry *)
Theorem C01_driver_success_means_small_gradient_under_requested_parameters : forall (P : Type) (value : P -> list R -> R)
    (grad : P -> list R -> list R) (hessvec : P -> list R -> list R -> list R) (precond mult_approx : P -> P -> list R -> list R -> list R)
    (warm : P -> P -> list R -> list R -> P -> list R) (scaling invScaling : scal R) (S : settings R) (chk : bool) (fuel F0 : nat)
    (x0 : list R) (p : P) (has_cb uw up : bool) (par pcp : P) (xp x : list R) (par' pcp' : P) (xp' : list R) tr,
  dresult_of (@drun_default R NumR P warm scaling invScaling (@solver_hand R NumR P value grad hessvec precond mult_approx S chk fuel)
                cfg_functions (20 + F0) cfg_nonlinear_equation_solve x0 p (cb_val has_cb) uw up par pcp xp) = Some (x, true, par', pcp', xp', tr) ->
  par' = p /\ exists xBar, x = smul invScaling xBar /\ grad p xBar ⋅ grad p xBar < @tol2 R NumR S.
Proof. exact driver_success_small_gradient. Qed.

(* the same with the INTERPRETED EXTRACTED trust_region_minimize (solver_tree: the callee's own syntax tree, re-extracted from /repo on every
   run) as the solver instead of the hand model -- i.e. driver AND solver are both the source text; call with a callback *)
Theorem C01_driver_success_means_small_gradient_under_requested_parameters_extracted_solver : forall (P : Type) (value : P -> list R -> R)
    (grad : P -> list R -> list R) (hessvec : P -> list R -> list R -> list R) (precond mult_approx : P -> P -> list R -> list R -> list R)
    (warm : P -> P -> list R -> list R -> P -> list R) (scaling invScaling : scal R) (S : settings R) (chk : bool) (wfuel F0 F1 : nat)
    (x0 : list R) (p : P) (uw up : bool) (par pcp : P) (xp x : list R) (par' pcp' : P) (xp' : list R) tr,
  dresult_of (@drun_default R NumR P warm scaling invScaling
                (@solver_tree R NumR P value grad hessvec precond mult_approx S chk wfuel cfg_functions cfg_string_constants (82 + F1))
                cfg_functions (20 + F0) cfg_nonlinear_equation_solve x0 p (cb_val true) uw up par pcp xp) = Some (x, true, par', pcp', xp', tr) ->
  par' = p /\ exists xBar, x = smul invScaling xBar /\ grad p xBar ⋅ grad p xBar < @tol2 R NumR S.
Proof. exact driver_success_small_gradient_tree. Qed.

Example C01_driver_success_nonvacuous :
  exists x tr, dresult_of (@drun_default R NumR unit (fun _ _ _ _ _ => []) (ScS 1) (ScS 1)
     (@solver_hand R NumR unit (fun _ _ => 0) (fun _ _ => []) (fun _ _ _ => []) (fun _ _ _ v => v) (fun _ _ _ v => v) default_settings_R false 15)
     cfg_functions (20 + 0) cfg_nonlinear_equation_solve [] tt (cb_val true) false false tt tt []) = Some (x, true, tt, tt, [], tr).
Proof. exact driver_success_nonvacuous. Qed.

(* ---- the NaN-rejection mechanism (round 4; clause "every reported iterate is finite", the part that is a property of the solver's
   control flow).  For ANY number type with a predicate isnan such that -, unary - and / with a NaN first operand give a NaN and every
   comparison < / <= with a NaN is false (the IEEE laws, as premises here): if the measured objective change is NaN -- in default mode
   this is the case whenever the trial point's objective value is NaN -- then, whatever the model objective (both re-signing branches,
   zero denominator included), the residual norms and the settings, the step is NOT accepted and the radius is multiplied by t1
   (`not rho >= eta2` is true for a NaN rho: this is why the source writes it that way). *)
Theorem C01_nan_change_is_rejected_and_shrinks : forall (T : Type) (NT : Num T) (isnan : T -> bool),
  (forall a, isnan a = true -> isnan (nopp a) = true) -> (forall a b, isnan a = true -> isnan (ndiv a b) = true) ->
  (forall a b, isnan a = true -> nltb a b = false) -> (forall a b, isnan b = true -> nltb a b = false) ->
  (forall a b, isnan b = true -> nleb a b = false) ->
  forall (S : settings T) (mo ro rn gn : T) (stepType : steptag) (tr : T), isnan ro = true ->
  @will_accept T NT S (@rho_of T NT mo ro) rn gn = false /\ @new_radius T NT S (@rho_of T NT mo ro) stepType tr = nmul tr (s_t1 S).
Proof. exact (@nan_change_rejected). Qed.

(* the premises are theorems of binary64 (PrimFloat with Coq's FloatAxioms specification, isnan := PrimFloat.is_nan), so for the binary64
   instance of the model -- the one executed against the implementation -- and ARBITRARY float-valued oracles and settings: *)
Theorem C01_nan_change_is_rejected_and_shrinks_binary64 : forall (S : settings PrimFloat.float) (mo ro rn gn : PrimFloat.float) (stepType : steptag) (tr : PrimFloat.float),
  PrimFloat.is_nan ro = true ->
  @will_accept PrimFloat.float NumF S (@rho_of PrimFloat.float NumF mo ro) rn gn = false /\
  @new_radius PrimFloat.float NumF S (@rho_of PrimFloat.float NumF mo ro) stepType tr = PrimFloat.mul tr (s_t1 S).
Proof. exact nan_change_rejected_binary64. Qed.

(* ... and along every run in default mode no Accept event carries a NaN objective value: a NaN-valued trial point is never accepted
   (no assumption on the oracles: they may return NaN / inf anywhere) *)
Theorem C01_nan_valued_point_is_never_accepted_binary64 : forall (value : list PrimFloat.float -> PrimFloat.float) (grad : list PrimFloat.float -> list PrimFloat.float)
    (hessvec precond mult_approx : list PrimFloat.float -> list PrimFloat.float -> list PrimFloat.float) (S : settings PrimFloat.float) (fuel : nat) (x xp0 : list PrimFloat.float),
  s_use_incremental S = false ->
  Forall (fun e => match e with EAccept _ o => PrimFloat.is_nan o = false | _ => True end)
         (snd (@trust_region_minimize PrimFloat.float NumF value grad hessvec precond mult_approx S fuel x xp0)).
Proof. exact trm_no_nan_accept_binary64. Qed.

Example C01_nan_premise_nonvacuous : PrimFloat.is_nan (PrimFloat.sub PrimFloat.nan (F 1 0)) = true.
Proof. exact nan_hypothesis_satisfiable. Qed.

(* NOT PROVED: (a) the same refutation over R (the evaluation of the whole first iteration over R by case analysis on ~25
   real comparisons did not fit the budget; the binary64 run above is exact because all data are small dyadics);
   (b) "on well-conditioned strictly convex problems with default settings it reports success at the unique minimizer":
   needs a quantitative global-convergence proof with the 100/50 iteration caps -- tested by L2 only;
   (c) "every reported iterate is finite": the control-flow half is CLOSED in round 4 (a NaN objective value / NaN measured change is never
   accepted and shrinks the radius: the three theorems above, generic + binary64).  Residue, tested by L2 only (streams nan-hole /
   overflow): that the arithmetic producing the trial POINT y = x + d from finite data does not overflow to inf/NaN coordinates (a
   quantitative binary64 range statement about CG / dogleg), the value +inf (rejected because rho = -inf, not covered by the NaN laws),
   incremental mode (the objective value is not looked at there), and the converged exit, which returns a point whose VALUE may be NaN
   when the gradient there is small (the convergence test precedes the acceptance test: finding F1's mechanism);
   (d) float-only corner: modelObjective = +0.0 makes the denominator -0.0 and flips the infinities (an uphill step with
   exactly zero predicted change would be accepted); over R the zero is unsigned.  The binary64 model reproduces it and the
   exact-switch stream of the harness probes it.
   (e) CLOSED in round 4 for the driver's own code (three theorems above) and, second pass, with the solver's own extracted tree as
   the callee (C01_driver_success_..._extracted_solver) for calls WITH a callback.  Residue: callback=None with the extracted solver (the
   state shape of the tie fixes `callback` to a callable; the hand-model version covers both); the hypothesis of the extracted-solver
   theorem is exercised on real runs by the harness (stream driver_model runs solver_tree in binary64), no Coq `Example` over R for it.
   Exceptions (a raising solver or warm start) are not modelled; that warm_start_increment does not modify the objective is checked
   syntactically on WarmStart.py by the harness;
   (f) CLOSED in the second pass for calls with a callback: inner `while` (round 3), outer `for` with the Cauchy-point block, the CG call and
   the max-iterations exit (C01_outer_loop_is_the_extracted_source) and the statements before the loop incl. the initial convergence test
   (C01_extracted_solver_is_the_hand_model), all for all inputs.  Residue: callback=None (then `if callback:` skips the calls; the harness
   compares that variant by execution, stream extracted_tree_vs_hand_model / driver_model); the meaning of the Python subset itself is the
   interpreter's (model/M_C01_CFG.v), validated against the implementation only by execution. *)

Example C01_nonvacuous :
  0 < s_t1 default_settings_R < 1 /\ 0 < s_min_tr_size default_settings_R /\
  s_eta1 default_settings_R <= s_eta2 default_settings_R /\ 0 <= s_eta1 default_settings_R /\
  s_use_incremental default_settings_R = false /\
  s_tr_size default_settings_R * s_t1 default_settings_R ^ 14 < s_min_tr_size default_settings_R.
Proof. exact default_settings_admissible. Qed.

Print Assumptions C01_accept_implies_descent.
Print Assumptions C01_trace_properties.
Print Assumptions C01_inner_loop_terminates.
Print Assumptions C01_converged_exit_can_go_uphill_refuted_binary64.
Print Assumptions C01_inner_loop_is_the_extracted_source.
Print Assumptions C01_outer_loop_is_the_extracted_source.
Print Assumptions C01_extracted_solver_is_the_hand_model.
Print Assumptions C01_driver_success_means_small_gradient_under_requested_parameters_extracted_solver.
Print Assumptions C01_driver_is_the_extracted_source.
Print Assumptions C01_nan_valued_point_is_never_accepted_binary64.
Print Assumptions C01_driver_success_means_small_gradient_under_requested_parameters.
