(* C01 -- property theorems only (each closed by `exact <lemma>`).  Subject: model/M_C01_TR.v (trust_region_minimize as a
   fuelled state machine) at T := R, for ARBITRARY oracle functions value/grad/hessvec/precond/mult_approx: no smoothness,
   convexity or consistency between them is assumed.  `chain o l`: l is non-increasing and starts at or below o. *)
From Coq Require Import Reals List.
From OV.base Require Import Num.
From OV.model Require Import M_C06_Vec M_C06_CG M_C01_TR.
From OV.proofs Require Import L_C06_Vec L_C01 L_C01_F1.
Import ListNotations.
Local Open Scope R_scope.

(* the sign analysis of rho: with eta1 >= 0, whatever the model objective (negative, zero, positive and re-signed), a step is
   accepted only if the measured objective change is <= 0 *)
Theorem C01_accept_implies_descent : forall (S : settings R) mo ro rn gn, 0 <= s_eta1 S ->
  @will_accept R NumR S (@rho_of R NumR mo ro) rn gn = true -> ro <= 0.
Proof. exact accept_descent. Qed.

(* descent on accepted iterates + each reported value is the objective at the reported point;
   flag = true only at a ConvergedAt event (or the initial test) at the returned point, whose gradient is below tolerance;
   flag = false: the returned point is the current (last accepted, or start) iterate and the trace ends with that exit's event *)
Theorem C01_trace_properties : forall (value : list R -> R) (grad : list R -> list R)
    (hessvec precond mult_approx : list R -> list R -> list R) (S : settings R) fuel x xp0,
  let '(xr, flag, tr) := @trust_region_minimize R NumR value grad hessvec precond mult_approx S fuel x xp0 in
  accepts_ok value tr /\
  (s_use_incremental S = false -> 0 <= s_eta1 S -> chain (value x) (accept_vals tr)) /\
  (flag = true -> ((exists tr', tr = tr' ++ [EConverged xr]) \/ tr = [EConvergedInit xr]) /\
                  grad xr ⋅ grad xr < @tol2 R NumR S) /\
  (flag = false -> xr = cur x tr /\
                   exists tr', tr = tr' ++ [ETooSmall xr] \/ tr = tr' ++ [EMaxIters xr] \/ tr = tr' ++ [EOutOfFuel]).
Proof. exact trm_spec. Qed.

(* the inner `while not happyAboutTrSize` loop leaves after at most k+1 passes when trSize * t1^k < min_tr_size
   (admissible settings: 0 < t1 < 1, 0 < min_tr_size, eta1 <= eta2), so the model's fuel is never the reason for an exit *)
Theorem C01_inner_loop_terminates : forall (value : list R -> R) (grad : list R -> list R)
    (hessvec mult_approx : list R -> list R -> list R) (S : settings R),
  0 < s_t1 S < 1 -> 0 < s_min_tr_size S -> s_eta1 S <= s_eta2 S ->
  forall k s cp qn stepType cgIters, c_tr s * s_t1 S ^ k < s_min_tr_size S ->
  not_fuel (@inner R NumR value grad hessvec mult_approx S (Datatypes.S k) s cp qn stepType cgIters).
Proof. exact inner_terminates. Qed.

(* finding F1: the "never goes uphill" clause is FALSE at the converged exit (convergence test precedes acceptance).
   Binary64 instance of the model on f = x + x^2/2 - 4x^3 - 3x^4, x0 = 0, default settings: returns (-1, True), f: 0 -> 1/2. *)
Theorem C01_converged_exit_can_go_uphill_refuted_binary64 :
  match f1_run with
  | ([y], true, [EConverged [y']]) =>
      andb (PrimFloat.eqb y (F (-1) 0)) (andb (PrimFloat.eqb y' y)
        (andb (PrimFloat.eqb (f1_value [y]) (F 1 (-1))) (andb (PrimFloat.eqb (f1_value [F 0 0]) (F 0 0))
              (PrimFloat.ltb (f1_value [F 0 0]) (f1_value [y])))))
  | _ => false
  end = true.
Proof. exact f1_converged_exit_goes_uphill_binary64. Qed.

(* NOT PROVED: (a) the same refutation over R (the evaluation of the whole first iteration over R by case analysis on ~25
   real comparisons did not fit the budget; the binary64 run above is exact because all data are small dyadics);
   (b) "on well-conditioned strictly convex problems with default settings it reports success at the unique minimizer":
   needs a quantitative global-convergence proof with the 100/50 iteration caps -- tested by L2 only;
   (c) "every reported iterate is finite": a NaN/overflow statement about binary64, vacuous over R -- tested by L2 only;
   (d) float-only corner: modelObjective = +0.0 makes the denominator -0.0 and flips the infinities (an uphill step with
   exactly zero predicted change would be accepted); over R the zero is unsigned.  The binary64 model reproduces it and the
   exact-switch stream of the harness probes it.
   (e) the driver nonlinear_equation_solve (objective.p = p before the solve) is exercised by the harness, not modelled. *)

Example C01_nonvacuous :
  0 < s_t1 default_settings_R < 1 /\ 0 < s_min_tr_size default_settings_R /\
  s_eta1 default_settings_R <= s_eta2 default_settings_R /\ 0 <= s_eta1 default_settings_R /\
  s_use_incremental default_settings_R = false /\
  s_tr_size default_settings_R * s_t1 default_settings_R ^ 14 < s_min_tr_size default_settings_R.
Proof. exact default_settings_admissible. Qed.

Print Assumptions C01_accept_implies_descent.
Print Assumptions C01_trace_properties.
Print Assumptions C01_inner_loop_terminates.
Print Assumptions C01_converged_exit_can_go_uphill_refuted_binary64.
