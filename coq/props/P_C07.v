(* C07 -- property theorems only.  Subjects: the reference / arity / unpack table of optimism/inverse/NonlinearSolve.py, the
   descriptors of its two reverse rules, the normalised bodies of the two function-space constructors and the slot table of
   Objective.param_index_update -- all regenerated from /repo's AST on every run (gen/Refs_NonlinearSolve.v, gen/CFG_drivers.v);
   the adjoint identity over an abstract inner-product structure. *)
From Coq Require Import Reals List Bool Arith String.
From OV.model Require Import M_C07_Refs M_C19_CFG M_C07_Rule.
From OV.gen Require Import Refs_NonlinearSolve CFG_drivers.
From OV.proofs Require Import L_C07 L_C19 L_C07_Rule.
Import ListNotations.
Local Open Scope R_scope.

(* slot laws of param_index_update: get (update p i v) j = if i = j then v else get p j; out of range: None *)
Theorem C07_slot_laws : forall (A : Type) (a0 a1 a2 a3 a4 a5 v d : A) i j, (i < 6)%nat -> (j < 6)%nat ->
  option_map (fun l => nth j l d) (piu_apply piu_rows [a0; a1; a2; a3; a4; a5] i v d)
  = Some (if Nat.eqb i j then v else nth j [a0; a1; a2; a3; a4; a5] d).
Proof. exact piu_slot_law. Qed.
Theorem C07_slot_out_of_range : forall (A : Type) (p : list A) i v d, (6 <= i)%nat -> piu_apply piu_rows p i v d = None.
Proof. exact piu_out_of_range. Qed.

(* adjoint identity: if lam minimises <v,z> + 1/2 <z,Hz> (what the reverse rule asks the CG solver for) and u is the IFT tangent
   of the solution, H u = -J dp, then the cotangent pairing <v,u> = <v, -H^-1 J dp> equals <J^T lam, dp> *)
Theorem C07_adjoint_identity : forall (V P : Type) (vadd : V -> V -> V) (vscale : R -> V -> V) (ipV : V -> V -> R) (ipP : P -> P -> R)
  (H : V -> V) (J : P -> V) (Jt : V -> P),
  (forall a b, ipV a b = ipV b a) ->
  (forall a b c t, ipV a (vadd b (vscale t c)) = ipV a b + t * ipV a c) ->
  (forall a b t, H (vadd a (vscale t b)) = vadd (H a) (vscale t (H b))) ->
  (forall a b, ipV (H a) b = ipV a (H b)) ->
  (forall dp w, ipV (J dp) w = ipP dp (Jt w)) ->
  forall v lam u dp,
  (forall z, qmodel V ipV H v lam <= qmodel V ipV H v z) ->
  (forall w, ipV (H u) w = - ipV (J dp) w) ->
  ipV v u = ipP dp (Jt lam).
Proof. exact adjoint_identity. Qed.

(* inexact adjoint solve: the defect is exactly the residual of the adjoint equation paired with the tangent *)
Theorem C07_adjoint_identity_inexact : forall (V P : Type) (ipV : V -> V -> R) (ipP : P -> P -> R) (H : V -> V) (J : P -> V) (Jt : V -> P),
  (forall a b, ipV a b = ipV b a) -> (forall a b, ipV (H a) b = ipV a (H b)) -> (forall dp w, ipV (J dp) w = ipP dp (Jt w)) ->
  forall v lam u dp, (forall w, ipV (H u) w = - ipV (J dp) w) ->
  ipV v u = ipP dp (Jt lam) + (ipV v u + ipV (H lam) u).
Proof. exact adjoint_identity_inexact. Qed.

(* every statically resolvable call in inverse/NonlinearSolve.py exists and has admissible arity / keywords, every tuple unpack
   or constant index of a resolvable result fits every `return` of the callee, every attribute read on the objective exists.
   (Positive on the repaired tree; fails if defect F3 -- 7 arguments to the 6-parameter CG sub-solver, 4-tuple unpacked into 2 names -- returns.) *)
Theorem C07_refs_resolve : refs_ok = true.
Proof. exact refs_resolve. Qed.
Theorem C07_refs_nonvacuous :
  List.length (filter is_adjoint_call refs) = 2%nat
  /\ List.length (filter (fun u => String.eqb (u_callee u) "EquationSolver.solve_trust_region_minimization") unpacks) = 2%nat
  /\ (16 <= List.length refs)%nat.
Proof. exact refs_nonvacuous. Qed.

(* reverse rules: objective.p restored to the forward parameters; adjoint solve = CG (radius inf) from zero on <v,z> + 1/2 <z,H(Uu)z>
   with the objective's preconditioner; lam is component 0 of its result; cotangent of the initial guess is zero; slot k in {0,1,2,4}
   of the returned Params is vec_jacobian_p<k>(Uu, lam)[0] guarded by p[k] != None, slot 3 None (slot 5 by the namedtuple default);
   nonlinear_solve differentiates slot 2 in both passes *)
Theorem C07_reverse_rule_slots :
  revrule_ok rule_nonlinear_solve_b [SlotVJP 2 99] = true
  /\ revrule_ok rule_nonlinear_solve_with_state_b expected_slots_with_state = true
  /\ nonlinear_solve_slot_forward = 2%nat /\ nonlinear_solve_slot_reverse = 2%nat.
Proof. exact reverse_rules_ok. Qed.
Theorem C07_params_defaults_cover :
  existsb (fun c => String.eqb (c_callee c) "Objective.Params" && Nat.eqb (c_npos c) 5 && Nat.eqb (List.length (c_params c)) 6
                    && Nat.eqb (c_ndefaults c) 6) refs = true.
Proof. exact params_defaults_cover. Qed.

(* the two function-space constructors are the same term after mesh.coords := coords *)
Theorem C07_adjoint_space_same_term : String.eqb afs_term_adjoint afs_term_direct = true.
Proof. exact adjoint_space_same_term. Qed.
(* ... and the mesh it re-makes carries every field of the Mesh namedtuple, copied verbatim except coords := coords
   (defect F3b -- block_maps dropped -- repaired by ce2f754; this theorem fails if a field is dropped again) *)
Theorem C07_adjoint_mesh_rebuild :
  afs_mesh_fields_missing = [] /\ afs_mesh_fields_wrong = [] /\ afs_mesh_rebuild_copies_all_fields = true.
Proof. exact adjoint_mesh_rebuild. Qed.

(* ---- composition: the reverse rules, as extracted, return the implicit-function cotangents (model/M_C07_Rule.v: denotation of the
   descriptors over V = unknowns, P = carrier of a parameter slot, Params = 6 optional slots; self.grad_x, vjp, jvp and the CG sub-solver
   abstract).  Regenerated on every run: the four slot helpers Objective.vec_jacobian_p<k> and the jitted closures they call
   (vjp(lambda q: self.grad_x(x, param_index_update(p, k, q)), p[k])[1](vx), called as (x, self.p, vp)), hessian_vec = jvp of grad_x at self.p,
   grad_x = jit(grad(f, 0)), how each rule re-establishes objective.p BEFORE anything is evaluated on the objective, what the forward rules
   save, the defvjp registrations. *)
Theorem C07_rule_tables_resolve : rule_tables_ok = true.
Proof. exact rule_tables_resolve. Qed.

(* general form: for ANY descriptor that passes revrule_ok, closures that pass closure_ok and a hessian_vec of the recognised shape:
   the guess gets the zero vector, and position i of the result holding SlotVJP k g (guard satisfied, slot k of the parameters in force
   present) is a value c with  <v, u> = <dp, c>  for every direction dp and every u with  H u = - d(grad_x)/dp_k dp  (weak form) --
   i.e. c is v contracted with minus the inverse Hessian times the slot-k parameter Jacobian.  Hypotheses: real inner products; JAX's vjp is
   the transpose of the derivative; the jvp-of-gradient operator is linear and self-adjoint and CG at infinite radius from zero returns a
   minimiser of the quadratic model in component 0 for every preconditioner (solve_hyps, at the point of the solve only). *)
Theorem C07_reverse_rule_is_ift_cotangent :
  forall (V P : Type) (vadd : V -> V -> V) (vscale : R -> V -> V) (ipV : V -> V -> R) (ipP : P -> P -> R)
    (gradx : V -> Par P -> V) (vjp_at : (P -> V) -> P -> V -> P) (jvp_at : (V -> V) -> V -> V -> V) (deriv : (P -> V) -> P -> P -> V)
    (cg : V -> V -> (V -> V) -> (V -> V) -> option R -> V * V) (vzero : V) (precond : V -> V),
  (forall a b, ipV a b = ipV b a) ->
  (forall a b c t, ipV a (vadd b (vscale t c)) = ipV a b + t * ipV a c) ->
  (forall g q w dp, ipP dp (vjp_at g q w) = ipV (deriv g q dp) w) ->
  forall cls r rk hv expected (e : renv V P),
  revrule_ok r expected = true -> hv = true -> forallb closure_ok cls = true ->
  solve_hyps V P vadd vscale ipV gradx jvp_at cg vzero (p_used V P rk e) (e_Uu V P e) (e_v V P e) ->
  fst (rule_out V P gradx vjp_at jvp_at cg vzero precond cls r rk hv e) = vzero
  /\ forall i k g, nth_error expected i = Some (SlotVJP k g) -> guard_present V P e g = true ->
     forall q0, nth k (p_used V P rk e) None = Some q0 -> find_closure cls k <> None ->
     exists c, nth_error (snd (rule_out V P gradx vjp_at jvp_at cg vzero precond cls r rk hv e)) i = Some (CotVal P c)
               /\ forall dp u, ift_tangent V P ipV gradx jvp_at deriv (p_used V P rk e) (e_Uu V P e) k q0 dp u -> ipV (e_v V P e) u = ipP dp c.
Proof. exact rule_slot_is_ift_cotangent. Qed.

(* nonlinear_solve_with_state_b as extracted: WHATEVER objective.p holds when the rule runs (e_pcur is not constrained: in a reverse sweep
   over a load history it is another step's parameters), position k in {0,1,2,4} of the returned Params is the implicit-function cotangent of
   slot k at the SAVED parameters if that slot is present and None otherwise; position 3 is None; the guess gets the zero vector.
   (Fails by computation if objective.p is not restored first -- seeded change C07-1 --, if a slot helper differentiates another slot, ...) *)
Theorem C07_with_state_rule_ift :
  forall (V P : Type) (vadd : V -> V -> V) (vscale : R -> V -> V) (ipV : V -> V -> R) (ipP : P -> P -> R)
    (gradx : V -> Par P -> V) (vjp_at : (P -> V) -> P -> V -> P) (jvp_at : (V -> V) -> V -> V -> V) (deriv : (P -> V) -> P -> P -> V)
    (cg : V -> V -> (V -> V) -> (V -> V) -> option R -> V * V) (vzero : V) (precond : V -> V),
  (forall a b, ipV a b = ipV b a) ->
  (forall a b c t, ipV a (vadd b (vscale t c)) = ipV a b + t * ipV a c) ->
  (forall g q w dp, ipP dp (vjp_at g q w) = ipV (deriv g q dp) w) ->
  forall e : renv V P,
  let o := rule_out V P gradx vjp_at jvp_at cg vzero precond objective_vjp_closures rule_nonlinear_solve_with_state_b
             restore_nonlinear_solve_with_state_b objective_hessian_vec_is_jvp_of_grad_x_at_self_p e in
  solve_hyps V P vadd vscale ipV gradx jvp_at cg vzero (e_psaved V P e) (e_Uu V P e) (e_v V P e) ->
  fst o = vzero
  /\ nth_error (snd o) 3 = Some (CotNone P)
  /\ List.length (snd o) = 5%nat
  /\ forall k, In k [0; 1; 2; 4]%nat ->
       match nth k (e_psaved V P e) None with
       | None => nth_error (snd o) k = Some (CotNone P)
       | Some q0 => exists c, nth_error (snd o) k = Some (CotVal P c)
                     /\ forall dp u, ift_tangent V P ipV gradx jvp_at deriv (e_psaved V P e) (e_Uu V P e) k q0 dp u -> ipV (e_v V P e) u = ipP dp c
       end.
Proof. exact with_state_rule_ift. Qed.

(* nonlinear_solve_b as extracted re-establishes slot 2 of objective.p only: if the other slots are what they were when the forward pass ran
   (pobj), the single returned cotangent is the implicit-function cotangent of the design slot at the forward parameters *)
Theorem C07_design_rule_ift :
  forall (V P : Type) (vadd : V -> V -> V) (vscale : R -> V -> V) (ipV : V -> V -> R) (ipP : P -> P -> R)
    (gradx : V -> Par P -> V) (vjp_at : (P -> V) -> P -> V -> P) (jvp_at : (V -> V) -> V -> V -> V) (deriv : (P -> V) -> P -> P -> V)
    (cg : V -> V -> (V -> V) -> (V -> V) -> option R -> V * V) (vzero : V) (precond : V -> V),
  (forall a b, ipV a b = ipV b a) ->
  (forall a b c t, ipV a (vadd b (vscale t c)) = ipV a b + t * ipV a c) ->
  (forall g q w dp, ipP dp (vjp_at g q w) = ipV (deriv g q dp) w) ->
  forall (e : renv V P) (pobj : Par P),
  let o := rule_out V P gradx vjp_at jvp_at cg vzero precond objective_vjp_closures rule_nonlinear_solve_b restore_nonlinear_solve_b
             objective_hessian_vec_is_jvp_of_grad_x_at_self_p e in
  let pfwd := upd P pobj 2 (e_dsaved V P e) in
  List.length pobj = 6%nat ->
  (forall j, (j < 6)%nat -> j <> 2%nat -> nth j (e_pcur V P e) None = nth j pobj None) ->
  solve_hyps V P vadd vscale ipV gradx jvp_at cg vzero pfwd (e_Uu V P e) (e_v V P e) ->
  fst o = vzero
  /\ exists c, snd o = [CotVal P c]
       /\ forall dp u, ift_tangent V P ipV gradx jvp_at deriv pfwd (e_Uu V P e) 2 (e_dsaved V P e) dp u -> ipV (e_v V P e) u = ipP dp c.
Proof. exact design_rule_ift. Qed.

(* the slot helpers linearise at the objective's actual parameters: putting back into slot k the value it holds changes nothing
   (on the regenerated param_index_update table), so d/dq grad_x(x, update(p, k, q)) at q = p[k] is the slot-k parameter Jacobian at p *)
Theorem C07_closure_linearises_at_p : forall (P : Type) (p : Par P) k q0,
  List.length p = 6%nat -> (k < 6)%nat -> nth k p None = Some q0 -> upd P p k q0 = p.
Proof. exact upd_same. Qed.

(* NOT PROVED (hypotheses of the theorems above, checked on the implementation by the conclusion streams): that jax.vjp returns the transpose of
   the derivative and jax.jvp of a gradient is linear and self-adjoint (JAX's autodiff; against dense jacfwd / hessian); that the CG
   sub-solver at infinite radius returns a minimiser for every SPD preconditioner (exact-arithmetic CG; the streams use exact and
   deliberately poor preconditioners and bound the error by the CG tolerance); the existence and differentiability of the solution map
   (the implicit function theorem itself: u is DEFINED by H u = -J dp).  The vjp wrappers of MechanicsInverse are not modelled
   (checked against dense jacfwd on the implementation only). *)

Example C07_nonvacuous : forall h j v dp : R, 0 < h ->
  (forall z, qmodel R Rmult (fun x => h * x) v (- v / h) <= qmodel R Rmult (fun x => h * x) v z)
  /\ (forall w, (h * (- (j * dp) / h)) * w = - ((j * dp) * w)).
Proof. exact adjoint_instance. Qed.

(* the hypotheses of the composition theorems are jointly satisfiable with a non-trivial Hessian h > 0 and parameter Jacobian j
   (V = P = R, gradient h x + j (p0 + p1 + p2 + p4)), and an implicit-function tangent exists there *)
Example C07_rule_nonvacuous : forall h j : R, 0 < h ->
  ((forall a b : R, a * b = b * a)
   /\ (forall a b c t : R, a * (b + t * c) = a * b + t * (a * c))
   /\ (forall g q w dp, dp * i_vjp g q w = i_deriv g q dp * w)
   /\ forall p x v, solve_hyps R R Rplus Rmult Rmult (i_gradx h j) i_jvp i_cg 0 p x v)
  /\ forall p x k q0 dp, List.length p = 6%nat -> In k [0; 1; 2; 4]%nat ->
       ift_tangent R R Rmult (i_gradx h j) i_jvp i_deriv p x k q0 dp (- (j * dp) / h).
Proof. intros h j Hh. split; [exact (instance_hyps h j Hh)|intros; apply instance_tangent; assumption]. Qed.

Print Assumptions C07_with_state_rule_ift.
Print Assumptions C07_adjoint_identity.
Print Assumptions C07_refs_resolve.
Print Assumptions C07_reverse_rule_slots.
Print Assumptions C07_slot_laws.
