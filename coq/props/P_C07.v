(* C07 -- property theorems only.  Subjects: the reference / arity / unpack table of optimism/inverse/NonlinearSolve.py, the
   descriptors of its two reverse rules, the normalised bodies of the two function-space constructors and the slot table of
   Objective.param_index_update -- all regenerated from /repo's AST on every run (gen/Refs_NonlinearSolve.v, gen/CFG_drivers.v);
   the adjoint identity over an abstract inner-product structure. *)
From Coq Require Import Reals List Bool Arith String.
From OV.model Require Import M_C07_Refs M_C19_CFG.
From OV.gen Require Import Refs_NonlinearSolve CFG_drivers.
From OV.proofs Require Import L_C07 L_C19.
Import ListNotations.
Local Open Scope R_scope.

(* slot laws of param_index_update: get (update p i v) j = if i = j then v else get p j; out of range: None *)
Theorem C07_slot_laws : forall (A : Type) (a0 a1 a2 a3 a4 a5 v d : A) i j, (i < 6)%nat -> (j < 6)%nat ->
  option_map (fun l => nth j l d) (piu_apply piu_rows [a0; a1; a2; a3; a4; a5] i v d)
  = Some (if Nat.eqb i j then v else nth j [a0; a1; a2; a3; a4; a5] d).
Proof. exact piu_slot_law. Qed.
Theorem C07_slot_out_of_range : forall (A : Type) (p : list A) i v d, (6 <= i)%nat -> piu_apply piu_rows p i v d = None.
Proof. exact piu_out_of_range. Qed.

(* adjoint identity: if lam minimises <v,z> + 1/2 <z,Hz> (what the reverse rule asks the CG solver for) and u is the IFT tangent
   of the solution, H u = -J dp, then the cotangent pairing <v,u> = <v, -H^-1 J dp> equals <J^T lam, dp> *)
Theorem C07_adjoint_identity : forall (V P : Type) (vadd : V -> V -> V) (vscale : R -> V -> V) (ipV : V -> V -> R) (ipP : P -> P -> R)
  (H : V -> V) (J : P -> V) (Jt : V -> P),
  (forall a b, ipV a b = ipV b a) ->
  (forall a b c t, ipV a (vadd b (vscale t c)) = ipV a b + t * ipV a c) ->
  (forall a b t, H (vadd a (vscale t b)) = vadd (H a) (vscale t (H b))) ->
  (forall a b, ipV (H a) b = ipV a (H b)) ->
  (forall dp w, ipV (J dp) w = ipP dp (Jt w)) ->
  forall v lam u dp,
  (forall z, qmodel V ipV H v lam <= qmodel V ipV H v z) ->
  (forall w, ipV (H u) w = - ipV (J dp) w) ->
  ipV v u = ipP dp (Jt lam).
Proof. exact adjoint_identity. Qed.

(* inexact adjoint solve: the defect is exactly the residual of the adjoint equation paired with the tangent *)
Theorem C07_adjoint_identity_inexact : forall (V P : Type) (ipV : V -> V -> R) (ipP : P -> P -> R) (H : V -> V) (J : P -> V) (Jt : V -> P),
  (forall a b, ipV a b = ipV b a) -> (forall a b, ipV (H a) b = ipV a (H b)) -> (forall dp w, ipV (J dp) w = ipP dp (Jt w)) ->
  forall v lam u dp, (forall w, ipV (H u) w = - ipV (J dp) w) ->
  ipV v u = ipP dp (Jt lam) + (ipV v u + ipV (H lam) u).
Proof. exact adjoint_identity_inexact. Qed.

(* every statically resolvable call in inverse/NonlinearSolve.py exists and has admissible arity / keywords, every tuple unpack
   or constant index of a resolvable result fits every `return` of the callee, every attribute read on the objective exists.
   (Positive on the repaired tree; fails if defect F3 -- 7 arguments to the 6-parameter CG sub-solver, 4-tuple unpacked into 2 names -- returns.) *)
Theorem C07_refs_resolve : refs_ok = true.
Proof. exact refs_resolve. Qed.
Theorem C07_refs_nonvacuous :
  List.length (filter is_adjoint_call refs) = 2%nat
  /\ List.length (filter (fun u => String.eqb (u_callee u) "EquationSolver.solve_trust_region_minimization") unpacks) = 2%nat
  /\ (16 <= List.length refs)%nat.
Proof. exact refs_nonvacuous. Qed.

(* reverse rules: objective.p restored to the forward parameters; adjoint solve = CG (radius inf) from zero on <v,z> + 1/2 <z,H(Uu)z>
   with the objective's preconditioner; lam is component 0 of its result; cotangent of the initial guess is zero; slot k in {0,1,2,4}
   of the returned Params is vec_jacobian_p<k>(Uu, lam)[0] guarded by p[k] != None, slot 3 None (slot 5 by the namedtuple default);
   nonlinear_solve differentiates slot 2 in both passes *)
Theorem C07_reverse_rule_slots :
  revrule_ok rule_nonlinear_solve_b [SlotVJP 2 99] = true
  /\ revrule_ok rule_nonlinear_solve_with_state_b expected_slots_with_state = true
  /\ nonlinear_solve_slot_forward = 2%nat /\ nonlinear_solve_slot_reverse = 2%nat.
Proof. exact reverse_rules_ok. Qed.
Theorem C07_params_defaults_cover :
  existsb (fun c => String.eqb (c_callee c) "Objective.Params" && Nat.eqb (c_npos c) 5 && Nat.eqb (List.length (c_params c)) 6
                    && Nat.eqb (c_ndefaults c) 6) refs = true.
Proof. exact params_defaults_cover. Qed.

(* the two function-space constructors are the same term after mesh.coords := coords *)
Theorem C07_adjoint_space_same_term : String.eqb afs_term_adjoint afs_term_direct = true.
Proof. exact adjoint_space_same_term. Qed.
(* ... and the mesh it re-makes carries every field of the Mesh namedtuple, copied verbatim except coords := coords
   (defect F3b -- block_maps dropped -- repaired by ce2f754; this theorem fails if a field is dropped again) *)
Theorem C07_adjoint_mesh_rebuild :
  afs_mesh_fields_missing = [] /\ afs_mesh_fields_wrong = [] /\ afs_mesh_rebuild_copies_all_fields = true.
Proof. exact adjoint_mesh_rebuild. Qed.
(* NOT PROVED: that the jax.vjp / jvp closures of Objective.__init__ and MechanicsInverse are transposes of the exact Jacobians
   (JAX's autodiff); checked against dense jacfwd on the implementation only. *)

Example C07_nonvacuous : forall h j v dp : R, 0 < h ->
  (forall z, qmodel R Rmult (fun x => h * x) v (- v / h) <= qmodel R Rmult (fun x => h * x) v z)
  /\ (forall w, (h * (- (j * dp) / h)) * w = - ((j * dp) * w)).
Proof. exact adjoint_instance. Qed.

Print Assumptions C07_adjoint_identity.
Print Assumptions C07_refs_resolve.
Print Assumptions C07_reverse_rule_slots.
Print Assumptions C07_slot_laws.
