(* C07 -- property theorems only.  Subjects: the reference / arity / unpack table of optimism/inverse/NonlinearSolve.py, the
   descriptors of its two reverse rules, the normalised bodies of the two function-space constructors and the slot table of
   Objective.param_index_update -- all regenerated from /repo's AST on every run (gen/Refs_NonlinearSolve.v, gen/CFG_drivers.v);
   the adjoint identity over an abstract inner-product structure. *)
From Coq Require Import Reals List Bool Arith String.
From OV.model Require Import M_C07_Refs M_C19_CFG M_C07_Rule M_C07_Hist.
From OV.gen Require Import Refs_NonlinearSolve CFG_drivers.
From OV.proofs Require Import L_C07 L_C19 L_C07_Rule L_C07_Hist.
Import ListNotations.
Local Open Scope R_scope.

(* slot laws of param_index_update: get (update p i v) j = if i = j then v else get p j; out of range: None *)
Theorem C07_slot_laws : forall (A : Type) (a0 a1 a2 a3 a4 a5 v d : A) i j, (i < 6)%nat -> (j < 6)%nat ->
  option_map (fun l => nth j l d) (piu_apply piu_rows [a0; a1; a2; a3; a4; a5] i v d)
  = Some (if Nat.eqb i j then v else nth j [a0; a1; a2; a3; a4; a5] d).
Proof. exact piu_slot_law. Qed.
Theorem C07_slot_out_of_range : forall (A : Type) (p : list A) i v d, (6 <= i)%nat -> piu_apply piu_rows p i v d = None.
Proof. exact piu_out_of_range. Qed.

(* adjoint identity: if lam minimises <v,z> + 1/2 <z,Hz> (what the reverse rule asks the CG solver for) and u is the IFT tangent
   of the solution, H u = -J dp, then the cotangent pairing <v,u> = <v, -H^-1 J dp> equals <J^T lam, dp> *)
Theorem C07_adjoint_identity : forall (V P : Type) (vadd : V -> V -> V) (vscale : R -> V -> V) (ipV : V -> V -> R) (ipP : P -> P -> R)
  (H : V -> V) (J : P -> V) (Jt : V -> P),
  (forall a b, ipV a b = ipV b a) ->
  (forall a b c t, ipV a (vadd b (vscale t c)) = ipV a b + t * ipV a c) ->
  (forall a b t, H (vadd a (vscale t b)) = vadd (H a) (vscale t (H b))) ->
  (forall a b, ipV (H a) b = ipV a (H b)) ->
  (forall dp w, ipV (J dp) w = ipP dp (Jt w)) ->
  forall v lam u dp,
  (forall z, qmodel V ipV H v lam <= qmodel V ipV H v z) ->
  (forall w, ipV (H u) w = - ipV (J dp) w) ->
  ipV v u = ipP dp (Jt lam).
Proof. exact adjoint_identity. Qed.

(* inexact adjoint solve: the defect is exactly the residual of the adjoint equation paired with the tangent *)
Theorem C07_adjoint_identity_inexact : forall (V P : Type) (ipV : V -> V -> R) (ipP : P -> P -> R) (H : V -> V) (J : P -> V) (Jt : V -> P),
  (forall a b, ipV a b = ipV b a) -> (forall a b, ipV (H a) b = ipV a (H b)) -> (forall dp w, ipV (J dp) w = ipP dp (Jt w)) ->
  forall v lam u dp, (forall w, ipV (H u) w = - ipV (J dp) w) ->
  ipV v u = ipP dp (Jt lam) + (ipV v u + ipV (H lam) u).
Proof. exact adjoint_identity_inexact. Qed.

(* every statically resolvable call in inverse/NonlinearSolve.py exists and has admissible arity / keywords, every tuple unpack
   or constant index of a resolvable result fits every `return` of the callee, every attribute read on the objective exists.
   (Positive on the repaired tree; fails if defect F3 -- 7 arguments to the 6-parameter CG sub-solver, 4-tuple unpacked into 2 names -- returns.) *)
Theorem C07_refs_resolve : refs_ok = true.
Proof. exact refs_resolve. Qed.
Theorem C07_refs_nonvacuous :
  List.length (filter is_adjoint_call refs) = 2%nat
  /\ List.length (filter (fun u => String.eqb (u_callee u) "EquationSolver.solve_trust_region_minimization") unpacks) = 2%nat
  /\ (16 <= List.length refs)%nat.
Proof. exact refs_nonvacuous. Qed.

(* reverse rules: objective.p restored to the forward parameters; adjoint solve = CG (radius inf) from zero on <v,z> + 1/2 <z,H(Uu)z>
   with the objective's preconditioner; lam is component 0 of its result; cotangent of the initial guess is zero; slot k in {0,1,2,4}
   of the returned Params is vec_jacobian_p<k>(Uu, lam)[0] guarded by p[k] != None, slot 3 None (slot 5 by the namedtuple default);
   nonlinear_solve differentiates slot 2 in both passes *)
Theorem C07_reverse_rule_slots :
  revrule_ok rule_nonlinear_solve_b [SlotVJP 2 99] = true
  /\ revrule_ok rule_nonlinear_solve_with_state_b expected_slots_with_state = true
  /\ nonlinear_solve_slot_forward = 2%nat /\ nonlinear_solve_slot_reverse = 2%nat.
Proof. exact reverse_rules_ok. Qed.
Theorem C07_params_defaults_cover :
  existsb (fun c => String.eqb (c_callee c) "Objective.Params" && Nat.eqb (c_npos c) 5 && Nat.eqb (List.length (c_params c)) 6
                    && Nat.eqb (c_ndefaults c) 6) refs = true.
Proof. exact params_defaults_cover. Qed.

(* the two function-space constructors are the same term after mesh.coords := coords *)
Theorem C07_adjoint_space_same_term : String.eqb afs_term_adjoint afs_term_direct = true.
Proof. exact adjoint_space_same_term. Qed.
(* ... and the mesh it re-makes carries every field of the Mesh namedtuple, copied verbatim except coords := coords
   (defect F3b -- block_maps dropped -- repaired by ce2f754; this theorem fails if a field is dropped again) *)
Theorem C07_adjoint_mesh_rebuild :
  afs_mesh_fields_missing = [] /\ afs_mesh_fields_wrong = [] /\ afs_mesh_rebuild_copies_all_fields = true.
Proof. exact adjoint_mesh_rebuild. Qed.

(* ---- composition: the reverse rules, as extracted, return the implicit-function cotangents (model/M_C07_Rule.v: denotation of the
   descriptors over V = unknowns, P = carrier of a parameter slot, Params = 6 optional slots; self.grad_x, vjp, jvp and the CG sub-solver
   abstract).  Regenerated on every run: the four slot helpers Objective.vec_jacobian_p<k> and the jitted closures they call
   (vjp(lambda q: self.grad_x(x, param_index_update(p, k, q)), p[k])[1](vx), called as (x, self.p, vp)), hessian_vec = jvp of grad_x at self.p,
   grad_x = jit(grad(f, 0)), how each rule re-establishes objective.p BEFORE anything is evaluated on the objective, what the forward rules
   save, the defvjp registrations. *)
Theorem C07_rule_tables_resolve : rule_tables_ok = true.
Proof. exact rule_tables_resolve. Qed.

(* general form: for ANY descriptor that passes revrule_ok, closures that pass closure_ok and a hessian_vec of the recognised shape:
   the guess gets the zero vector, and position i of the result holding SlotVJP k g (guard satisfied, slot k of the parameters in force
   present) is a value c with  <v, u> = <dp, c>  for every direction dp and every u with  H u = - d(grad_x)/dp_k dp  (weak form) --
   i.e. c is v contracted with minus the inverse Hessian times the slot-k parameter Jacobian.  Hypotheses: real inner products; JAX's vjp is
   the transpose of the derivative; the jvp-of-gradient operator is linear and self-adjoint and CG at infinite radius from zero returns a
   minimiser of the quadratic model in component 0 for every preconditioner (solve_hyps, at the point of the solve only). *)
Theorem C07_reverse_rule_is_ift_cotangent :
  forall (V P : Type) (vadd : V -> V -> V) (vscale : R -> V -> V) (ipV : V -> V -> R) (ipP : P -> P -> R)
    (gradx : V -> Par P -> V) (vjp_at : (P -> V) -> P -> V -> P) (jvp_at : (V -> V) -> V -> V -> V) (deriv : (P -> V) -> P -> P -> V)
    (cg : V -> V -> (V -> V) -> (V -> V) -> option R -> V * V) (vzero : V) (precond : V -> V),
  (forall a b, ipV a b = ipV b a) ->
  (forall a b c t, ipV a (vadd b (vscale t c)) = ipV a b + t * ipV a c) ->
  (forall g q w dp, ipP dp (vjp_at g q w) = ipV (deriv g q dp) w) ->
  forall cls r rk hv expected (e : renv V P),
  revrule_ok r expected = true -> hv = true -> forallb closure_ok cls = true ->
  solve_hyps V P vadd vscale ipV gradx jvp_at cg vzero (p_used V P rk e) (e_Uu V P e) (e_v V P e) ->
  fst (rule_out V P gradx vjp_at jvp_at cg vzero precond cls r rk hv e) = vzero
  /\ forall i k g, nth_error expected i = Some (SlotVJP k g) -> guard_present V P e g = true ->
     forall q0, nth k (p_used V P rk e) None = Some q0 -> find_closure cls k <> None ->
     exists c, nth_error (snd (rule_out V P gradx vjp_at jvp_at cg vzero precond cls r rk hv e)) i = Some (CotVal P c)
               /\ forall dp u, ift_tangent V P ipV gradx jvp_at deriv (p_used V P rk e) (e_Uu V P e) k q0 dp u -> ipV (e_v V P e) u = ipP dp c.
Proof. exact rule_slot_is_ift_cotangent. Qed.

(* nonlinear_solve_with_state_b as extracted: WHATEVER objective.p holds when the rule runs (e_pcur is not constrained: in a reverse sweep
   over a load history it is another step's parameters), position k in {0,1,2,4} of the returned Params is the implicit-function cotangent of
   slot k at the SAVED parameters if that slot is present and None otherwise; position 3 is None; the guess gets the zero vector.
   (Fails by computation if objective.p is not restored first -- seeded change C07-1 --, if a slot helper differentiates another slot, ...) *)
Theorem C07_with_state_rule_ift :
  forall (V P : Type) (vadd : V -> V -> V) (vscale : R -> V -> V) (ipV : V -> V -> R) (ipP : P -> P -> R)
    (gradx : V -> Par P -> V) (vjp_at : (P -> V) -> P -> V -> P) (jvp_at : (V -> V) -> V -> V -> V) (deriv : (P -> V) -> P -> P -> V)
    (cg : V -> V -> (V -> V) -> (V -> V) -> option R -> V * V) (vzero : V) (precond : V -> V),
  (forall a b, ipV a b = ipV b a) ->
  (forall a b c t, ipV a (vadd b (vscale t c)) = ipV a b + t * ipV a c) ->
  (forall g q w dp, ipP dp (vjp_at g q w) = ipV (deriv g q dp) w) ->
  forall e : renv V P,
  let o := rule_out V P gradx vjp_at jvp_at cg vzero precond objective_vjp_closures rule_nonlinear_solve_with_state_b
             restore_nonlinear_solve_with_state_b objective_hessian_vec_is_jvp_of_grad_x_at_self_p e in
  solve_hyps V P vadd vscale ipV gradx jvp_at cg vzero (e_psaved V P e) (e_Uu V P e) (e_v V P e) ->
  fst o = vzero
  /\ nth_error (snd o) 3 = Some (CotNone P)
  /\ List.length (snd o) = 5%nat
  /\ forall k, In k [0; 1; 2; 4]%nat ->
       match nth k (e_psaved V P e) None with
       | None => nth_error (snd o) k = Some (CotNone P)
       | Some q0 => exists c, nth_error (snd o) k = Some (CotVal P c)
                     /\ forall dp u, ift_tangent V P ipV gradx jvp_at deriv (e_psaved V P e) (e_Uu V P e) k q0 dp u -> ipV (e_v V P e) u = ipP dp c
       end.
Proof. exact with_state_rule_ift. Qed.

(* nonlinear_solve_b as extracted (since /repo 42a60d0 its forward rule saves ALL parameters the solve ran with and the reverse rule re-establishes them --
   RestoreSaved, like the with-state rule): WHATEVER objective.p holds when the rule runs, the single returned cotangent is the implicit-function cotangent
   of the design slot at the SAVED parameters, q0 being the design they carry (C07_forward_rule_saves_params_run_with: they are the parameters of the
   forward solve and they do carry it).  No hypothesis on objective.p any more. *)
Theorem C07_design_rule_ift :
  forall (V P : Type) (vadd : V -> V -> V) (vscale : R -> V -> V) (ipV : V -> V -> R) (ipP : P -> P -> R)
    (gradx : V -> Par P -> V) (vjp_at : (P -> V) -> P -> V -> P) (jvp_at : (V -> V) -> V -> V -> V) (deriv : (P -> V) -> P -> P -> V)
    (cg : V -> V -> (V -> V) -> (V -> V) -> option R -> V * V) (vzero : V) (precond : V -> V),
  (forall a b, ipV a b = ipV b a) ->
  (forall a b c t, ipV a (vadd b (vscale t c)) = ipV a b + t * ipV a c) ->
  (forall g q w dp, ipP dp (vjp_at g q w) = ipV (deriv g q dp) w) ->
  forall (e : renv V P) (q0 : P),
  let o := rule_out V P gradx vjp_at jvp_at cg vzero precond objective_vjp_closures rule_nonlinear_solve_b restore_nonlinear_solve_b
             objective_hessian_vec_is_jvp_of_grad_x_at_self_p e in
  nth 2 (e_psaved V P e) None = Some q0 ->
  solve_hyps V P vadd vscale ipV gradx jvp_at cg vzero (e_psaved V P e) (e_Uu V P e) (e_v V P e) ->
  fst o = vzero
  /\ exists c, snd o = [CotVal P c]
       /\ forall dp u, ift_tangent V P ipV gradx jvp_at deriv (e_psaved V P e) (e_Uu V P e) 2 q0 dp u -> ipV (e_v V P e) u = ipP dp c.
Proof. exact design_rule_ift. Qed.

(* the rule shape BEFORE that fix (model value RestoreSlot 2: only the design slot of objective.p re-established) needed the other slots of objective.p to be
   what they were when the forward pass ran (pobj) -- kept as a statement about that shape of the model, see C07_design_rule_load_stepping_refuted below *)
Theorem C07_design_rule_prefix_ift :
  forall (V P : Type) (vadd : V -> V -> V) (vscale : R -> V -> V) (ipV : V -> V -> R) (ipP : P -> P -> R)
    (gradx : V -> Par P -> V) (vjp_at : (P -> V) -> P -> V -> P) (jvp_at : (V -> V) -> V -> V -> V) (deriv : (P -> V) -> P -> P -> V)
    (cg : V -> V -> (V -> V) -> (V -> V) -> option R -> V * V) (vzero : V) (precond : V -> V),
  (forall a b, ipV a b = ipV b a) ->
  (forall a b c t, ipV a (vadd b (vscale t c)) = ipV a b + t * ipV a c) ->
  (forall g q w dp, ipP dp (vjp_at g q w) = ipV (deriv g q dp) w) ->
  forall (e : renv V P) (pobj : Par P),
  let o := rule_out V P gradx vjp_at jvp_at cg vzero precond objective_vjp_closures rule_nonlinear_solve_b (RestoreSlot 2)
             objective_hessian_vec_is_jvp_of_grad_x_at_self_p e in
  let pfwd := upd P pobj 2 (e_dsaved V P e) in
  List.length pobj = 6%nat ->
  (forall j, (j < 6)%nat -> j <> 2%nat -> nth j (e_pcur V P e) None = nth j pobj None) ->
  solve_hyps V P vadd vscale ipV gradx jvp_at cg vzero pfwd (e_Uu V P e) (e_v V P e) ->
  fst o = vzero
  /\ exists c, snd o = [CotVal P c]
       /\ forall dp u, ift_tangent V P ipV gradx jvp_at deriv pfwd (e_Uu V P e) 2 (e_dsaved V P e) dp u -> ipV (e_v V P e) u = ipP dp c.
Proof. exact design_rule_prefix_ift. Qed.

(* the slot helpers linearise at the objective's actual parameters: putting back into slot k the value it holds changes nothing
   (on the regenerated param_index_update table), so d/dq grad_x(x, update(p, k, q)) at q = p[k] is the slot-k parameter Jacobian at p *)
Theorem C07_closure_linearises_at_p : forall (P : Type) (p : Par P) k q0,
  List.length p = 6%nat -> (k < 6)%nat -> nth k p None = Some q0 -> upd P p k q0 = p.
Proof. exact upd_same. Qed.

(* ---- all slots at once: the Params a rule returns is the transposed TOTAL derivative of the solution map.  total_tangent pf e sl dp dU:
   H(pf, Uu) dU = - sum over the differentiated slots k of sl (guard satisfied, slot present) of d(grad_x)/dp_k (dp k)   (weak form; proofs/L_C07_Hist.v);
   wsum psi sl cots: sum of psi k c over the positions of the returned tuple that hold a cotangent c for slot k.  General form, for ANY descriptor
   passing revrule_ok: *)
Theorem C07_reverse_rule_total_derivative :
  forall (V P : Type) (vadd : V -> V -> V) (vscale : R -> V -> V) (ipV : V -> V -> R) (ipP : P -> P -> R)
    (gradx : V -> Par P -> V) (vjp_at : (P -> V) -> P -> V -> P) (jvp_at : (V -> V) -> V -> V -> V) (deriv : (P -> V) -> P -> P -> V)
    (cg : V -> V -> (V -> V) -> (V -> V) -> option R -> V * V) (vzero : V) (precond : V -> V),
  (forall a b, ipV a b = ipV b a) ->
  (forall a b c t, ipV a (vadd b (vscale t c)) = ipV a b + t * ipV a c) ->
  (forall g q w dp, ipP dp (vjp_at g q w) = ipV (deriv g q dp) w) ->
  forall cls r rk expected (e : renv V P) pf dp dU,
  revrule_ok r expected = true -> forallb closure_ok cls = true -> p_used V P rk e = pf ->
  solve_hyps V P vadd vscale ipV gradx jvp_at cg vzero pf (e_Uu V P e) (e_v V P e) ->
  resolvable V P cls pf e expected -> total_tangent V P ipV gradx jvp_at deriv pf e expected dp dU ->
  r_slots r = expected /\ fst (rule_out V P gradx vjp_at jvp_at cg vzero precond cls r rk true e) = vzero
  /\ wf P expected (snd (rule_out V P gradx vjp_at jvp_at cg vzero precond cls r rk true e))
  /\ ipV (e_v V P e) dU = wsum P (fun k c => ipP (dp k) c) expected (snd (rule_out V P gradx vjp_at jvp_at cg vzero precond cls r rk true e)).
Proof. exact rule_total. Qed.

(* nonlinear_solve_with_state_b as extracted, whatever objective.p holds: <v, dU> = sum_k <dp k, returned cotangent of slot k> for the tangent dU of the
   solution when bc, state, design and time move together *)
Theorem C07_with_state_rule_total_derivative :
  forall (V P : Type) (vadd : V -> V -> V) (vscale : R -> V -> V) (ipV : V -> V -> R) (ipP : P -> P -> R)
    (gradx : V -> Par P -> V) (vjp_at : (P -> V) -> P -> V -> P) (jvp_at : (V -> V) -> V -> V -> V) (deriv : (P -> V) -> P -> P -> V)
    (cg : V -> V -> (V -> V) -> (V -> V) -> option R -> V * V) (vzero : V) (precond : V -> V),
  (forall a b, ipV a b = ipV b a) ->
  (forall a b c t, ipV a (vadd b (vscale t c)) = ipV a b + t * ipV a c) ->
  (forall g q w dp, ipP dp (vjp_at g q w) = ipV (deriv g q dp) w) ->
  forall (e : renv V P) (dp : nat -> P) (dU : V),
  let o := rule_out V P gradx vjp_at jvp_at cg vzero precond objective_vjp_closures rule_nonlinear_solve_with_state_b
             restore_nonlinear_solve_with_state_b objective_hessian_vec_is_jvp_of_grad_x_at_self_p e in
  solve_hyps V P vadd vscale ipV gradx jvp_at cg vzero (e_psaved V P e) (e_Uu V P e) (e_v V P e) ->
  total_tangent V P ipV gradx jvp_at deriv (e_psaved V P e) e expected_slots_with_state dp dU ->
  ipV (e_v V P e) dU = wsum P (fun k c => ipP (dp k) c) expected_slots_with_state (snd o).
Proof. exact with_state_rule_total. Qed.

(* ---- load histories on ONE Objective (model/M_C07_Hist.v).  sweep: JAX runs the reverse rules of the solves last-to-first; every rule reads and assigns
   the mutable attribute objective.p (threaded through the sweep: s_pobj), receives the direct cotangent of its solution plus what later solves sent
   back (s_ubar; the previous solution is also the initial guess, whose cotangent is the rule's first component), and its Params cotangents are pulled
   back to the global parameters theta (b_At) and to the previous solution (b_Bt).  hist_ok (proofs/L_C07_Hist.v) asks of every solve, in sweep order:
   solve_hyps at the forward solution and the SAVED parameters; (nonlinear_solve only) the saved Params carry a design; t_dp k = tangent of the value of slot k
   given dth and the tangent of the previous solution; t_dU = implicit-function tangent of the solution for all slots together.  NOTHING is asked of
   objective.p, neither at the start of the sweep (s_pobj st0 is arbitrary) nor between the solves, for either entry point (since /repo 42a60d0).
   Conclusion: the sweep never gets stuck and the accumulated cotangent of theta pairs with dth as sum_k <v_k, dU_k> -- the derivative of the history by
   the chained implicit function theorem. *)
Theorem C07_history_adjoint :
  forall (V P Th : Type) (vadd : V -> V -> V) (vscale : R -> V -> V) (thadd : Th -> Th -> Th)
    (ipV : V -> V -> R) (ipP : P -> P -> R) (ipT : Th -> Th -> R) (gradx : V -> Par P -> V) (vjp_at : (P -> V) -> P -> V -> P)
    (jvp_at : (V -> V) -> V -> V -> V) (deriv : (P -> V) -> P -> P -> V)
    (cg : V -> V -> (V -> V) -> (V -> V) -> option R -> V * V) (vzero : V) (precond : V -> V),
  (forall a b, ipV a b = ipV b a) ->
  (forall a b c t, ipV a (vadd b (vscale t c)) = ipV a b + t * ipV a c) ->
  (forall a, ipV a vzero = 0) ->
  (forall a b c, ipT a (thadd b c) = ipT a b + ipT a c) ->
  (forall g q w dp, ipP dp (vjp_at g q w) = ipV (deriv g q dp) w) ->
  forall (dth : Th) (dU0 : V) (l : list (bstep V P Th * tstep V P)) (st0 : sstate V P Th),
  hist_ok V P Th vadd vscale ipV ipP ipT gradx jvp_at deriv cg vzero dth dU0 l ->
  exists st,
    sweep V P Th gradx vjp_at jvp_at cg vzero precond vadd vscale thadd objective_vjp_closures
      rule_nonlinear_solve_with_state_b rule_nonlinear_solve_b restore_nonlinear_solve_with_state_b restore_nonlinear_solve_b
      objective_hessian_vec_is_jvp_of_grad_x_at_self_p st0 (map fst l) = Some st
    /\ ipT dth (s_thbar V P Th st) + ipV dU0 (s_ubar V P Th st)
       = ipT dth (s_thbar V P Th st0) + ipV (head_dU V P Th dU0 l) (s_ubar V P Th st0) + vsum V P Th ipV l.
Proof. exact history_adjoint. Qed.

(* histories of nonlinear_solve_with_state (named special case) *)
Theorem C07_with_state_history_adjoint :
  forall (V P Th : Type) (vadd : V -> V -> V) (vscale : R -> V -> V) (thadd : Th -> Th -> Th)
    (ipV : V -> V -> R) (ipP : P -> P -> R) (ipT : Th -> Th -> R) (gradx : V -> Par P -> V) (vjp_at : (P -> V) -> P -> V -> P)
    (jvp_at : (V -> V) -> V -> V -> V) (deriv : (P -> V) -> P -> P -> V)
    (cg : V -> V -> (V -> V) -> (V -> V) -> option R -> V * V) (vzero : V) (precond : V -> V),
  (forall a b, ipV a b = ipV b a) ->
  (forall a b c t, ipV a (vadd b (vscale t c)) = ipV a b + t * ipV a c) ->
  (forall a, ipV a vzero = 0) ->
  (forall a b c, ipT a (thadd b c) = ipT a b + ipT a c) ->
  (forall g q w dp, ipP dp (vjp_at g q w) = ipV (deriv g q dp) w) ->
  forall (dth : Th) (dU0 : V) (l : list (bstep V P Th * tstep V P)) (st0 : sstate V P Th),
  Forall (fun bt => b_state V P Th (fst bt) = true) l ->
  hist_ok V P Th vadd vscale ipV ipP ipT gradx jvp_at deriv cg vzero dth dU0 l ->
  exists st,
    sweep V P Th gradx vjp_at jvp_at cg vzero precond vadd vscale thadd objective_vjp_closures
      rule_nonlinear_solve_with_state_b rule_nonlinear_solve_b restore_nonlinear_solve_with_state_b restore_nonlinear_solve_b
      objective_hessian_vec_is_jvp_of_grad_x_at_self_p st0 (map fst l) = Some st
    /\ ipT dth (s_thbar V P Th st) + ipV dU0 (s_ubar V P Th st)
       = ipT dth (s_thbar V P Th st0) + ipV (head_dU V P Th dU0 l) (s_ubar V P Th st0) + vsum V P Th ipV l.
Proof. exact with_state_history_adjoint. Qed.

(* histories of nonlinear_solve: NO hypothesis on objective.p -- not on the start of the sweep, not on what the forward passes or anything run in between
   (load stepping: objective.p = param_index_update(objective.p, 0, load_k)) left there; the tangents are those at the Params each forward rule saved, which
   are the parameters its solve ran with (C07_forward_rule_saves_params_run_with) *)
Theorem C07_design_history_adjoint :
  forall (V P Th : Type) (vadd : V -> V -> V) (vscale : R -> V -> V) (thadd : Th -> Th -> Th)
    (ipV : V -> V -> R) (ipP : P -> P -> R) (ipT : Th -> Th -> R) (gradx : V -> Par P -> V) (vjp_at : (P -> V) -> P -> V -> P)
    (jvp_at : (V -> V) -> V -> V -> V) (deriv : (P -> V) -> P -> P -> V)
    (cg : V -> V -> (V -> V) -> (V -> V) -> option R -> V * V) (vzero : V) (precond : V -> V),
  (forall a b, ipV a b = ipV b a) ->
  (forall a b c t, ipV a (vadd b (vscale t c)) = ipV a b + t * ipV a c) ->
  (forall a, ipV a vzero = 0) ->
  (forall a b c, ipT a (thadd b c) = ipT a b + ipT a c) ->
  (forall g q w dp, ipP dp (vjp_at g q w) = ipV (deriv g q dp) w) ->
  forall (dth : Th) (dU0 : V) (l : list (bstep V P Th * tstep V P)) (st0 : sstate V P Th),
  design_hist_ok V P Th vadd vscale ipV ipP ipT gradx jvp_at deriv cg vzero dth dU0 l ->
  exists st,
    sweep V P Th gradx vjp_at jvp_at cg vzero precond vadd vscale thadd objective_vjp_closures
      rule_nonlinear_solve_with_state_b rule_nonlinear_solve_b restore_nonlinear_solve_with_state_b restore_nonlinear_solve_b
      objective_hessian_vec_is_jvp_of_grad_x_at_self_p st0 (map fst l) = Some st
    /\ ipT dth (s_thbar V P Th st) + ipV dU0 (s_ubar V P Th st)
       = ipT dth (s_thbar V P Th st0) + ipV (head_dU V P Th dU0 l) (s_ubar V P Th st0) + vsum V P Th ipV l.
Proof. exact design_history_adjoint. Qed.

(* the forward passes (model/M_C07_Hist.v, FwdSem; regenerated: the primal of nonlinear_solve runs the equation solver with objective.p whose slot 2 is
   replaced by its argument, the primal of nonlinear_solve_with_state with its Params argument, nonlinear_equation_solve leaves objective.p = the parameters it
   was given on every path, the forward rule of nonlinear_solve saves objective.p -- as the primal left it -- with slot 2 := its argument, that of
   nonlinear_solve_with_state its argument): *)
Theorem C07_forward_tables_resolve : fwd_tables_ok = true.
Proof. exact fwd_tables_resolve. Qed.
(* ... so BOTH forward rules save exactly the parameters their solve ran with, objective.p holds them afterwards, and for nonlinear_solve they are
   objective.p-before with the design slot := the argument and carry that design (what hist_ok / C07_design_rule_ift ask of the saved Params) *)
Theorem C07_forward_rule_saves_params_run_with : forall (V P : Type) (solve : V -> Par P -> V) (pobj : Par P) (u : V) (c : fcall P),
  List.length pobj = 6%nat ->
  let '(pobj', x, p, saved) := fwd_rule V P solve primal_params_nonlinear_solve primal_params_nonlinear_solve_with_state equation_solve_assigns_objective_p
                                 fwd_saves_nonlinear_solve fwd_saves_nonlinear_solve_with_state pobj u c in
  saved = p /\ pobj' = p /\ x = solve u p
  /\ match c with FDesign d => p = upd P pobj 2 d /\ nth 2 saved None = Some d | FState q => p = q end.
Proof. exact fwd_rule_saves_params_run_with. Qed.
(* in a history made of nonlinear_solve calls only (arguments may depend on the previous solution) slots 0,1,3,4,5 of objective.p never change (still true;
   no longer needed by the history theorem) *)
Theorem C07_forward_design_invariant : forall (V P : Type) (solve : V -> Par P -> V) (pobj0 : Par P), List.length pobj0 = 6%nat ->
  forall (cs : list (V -> fcall P)) (pobj : Par P) (u : V),
  (forall c u', In c cs -> exists d, c u' = FDesign P d) -> List.length pobj = 6%nat -> agree_off2 P pobj pobj0 ->
  let res := fwd_run V P solve primal_params_nonlinear_solve primal_params_nonlinear_solve_with_state equation_solve_assigns_objective_p pobj u cs in
  List.length (snd res) = 6%nat /\ agree_off2 P (snd res) pobj0
  /\ forall pb p x, In (pb, p, x) (fst res) -> List.length pb = 6%nat /\ agree_off2 P pobj0 pb /\ exists d, p = upd P pb 2 d.
Proof. exact fwd_design_invariant. Qed.
(* nonlinear_solve_with_state runs with exactly the Params it is given -- what its forward rule saves and its reverse rule re-establishes *)
Theorem C07_forward_state_params : forall (V P : Type) (solve : V -> Par P -> V) (pobj : Par P) (u : V) (p : Par P),
  fwd_call V P solve primal_params_nonlinear_solve primal_params_nonlinear_solve_with_state equation_solve_assigns_objective_p pobj u (FState P p)
  = (p, solve u p, p).
Proof. exact fwd_state_params. Qed.

(* REMARK about the rule shape BEFORE /repo 42a60d0 (finding C07-DESIGN-RESTORE, fixed there): a statement about the model with restore kind RestoreSlot 2
   (a value of model/M_C07_Refs.v's restore_kind; the regenerated restore_nonlinear_solve_b is now RestoreSaved and C07_design_rule_ift holds without any
   hypothesis on objective.p).  Load stepping through objective.p: V = P = R, gradient x - bc * design; the forward pass ran with bc = 1 (r_pobj), the reverse
   rule runs while objective.p holds bc = 2 (all other slots agree).  Every hypothesis of C07_design_rule_prefix_ift except the one on objective.p holds, the
   rule of that shape returns ONE cotangent c, and <v, u> <> <dp, c> for the implicit-function tangent u at the forward parameters.  If the reverse rule
   is changed back, C07_rule_tables_resolve fails and the load-stepping stream gives the concrete input. *)
Theorem C07_design_rule_load_stepping_refuted :
  (forall a b : R, a * b = b * a)
  /\ (forall a b c t : R, a * (b + t * c) = a * b + t * (a * c))
  /\ (forall g q w dp, dp * i_vjp g q w = i_deriv g q dp * w)
  /\ (forall p x v, solve_hyps R R Rplus Rmult Rmult r_gradx i_jvp i_cg 0 p x v)
  /\ List.length r_pobj = 6%nat
  /\ (forall j, (j < 6)%nat -> j <> 0%nat -> j <> 2%nat -> nth j (e_pcur R R r_env) None = nth j r_pobj None)
  /\ let o := rule_out R R r_gradx i_vjp i_jvp i_cg 0 (fun z => z) objective_vjp_closures rule_nonlinear_solve_b (RestoreSlot 2)
                objective_hessian_vec_is_jvp_of_grad_x_at_self_p r_env in
     exists c dp u, snd o = [CotVal R c]
       /\ ift_tangent R R Rmult r_gradx i_jvp i_deriv (upd R r_pobj 2 (e_dsaved R R r_env)) (e_Uu R R r_env) 2 (e_dsaved R R r_env) dp u
       /\ e_v R R r_env * u <> dp * c.
Proof. exact design_rule_load_stepping_refuted. Qed.

(* NOT PROVED (hypotheses of the theorems above, checked on the implementation by the conclusion streams): that jax.vjp returns the transpose of
   the derivative and jax.jvp of a gradient is linear and self-adjoint (JAX's autodiff; against dense jacfwd / hessian); that the CG
   sub-solver at infinite radius returns a minimiser for every SPD preconditioner (exact-arithmetic CG; the streams use exact and
   deliberately poor preconditioners and bound the error by the CG tolerance); the existence and differentiability of the solution map
   (the implicit function theorem itself: u is DEFINED by H u = -J dp).  In the history theorems the pull-backs b_At / b_Bt of the user's own
   parameter functions and the order in which JAX runs the rules (last solve first, cotangents summed) are the model's reading of jax.grad, checked
   by the history / load-stepping / trace streams; of the forward passes only the handling of objective.p and of the saved residuals is modelled (the
   equation solver is a black box returning the solution), and the records of the forward model are not yet fed into hist_ok by a theorem
   (C07_forward_rule_saves_params_run_with states exactly the facts hist_ok asks of the saved Params).  The vjp wrappers of MechanicsInverse are not modelled (checked against dense jacfwd on the implementation only). *)

Example C07_nonvacuous : forall h j v dp : R, 0 < h ->
  (forall z, qmodel R Rmult (fun x => h * x) v (- v / h) <= qmodel R Rmult (fun x => h * x) v z)
  /\ (forall w, (h * (- (j * dp) / h)) * w = - ((j * dp) * w)).
Proof. exact adjoint_instance. Qed.

(* the hypotheses of the composition theorems are jointly satisfiable with a non-trivial Hessian h > 0 and parameter Jacobian j
   (V = P = R, gradient h x + j (p0 + p1 + p2 + p4)), and an implicit-function tangent exists there *)
Example C07_rule_nonvacuous : forall h j : R, 0 < h ->
  ((forall a b : R, a * b = b * a)
   /\ (forall a b c t : R, a * (b + t * c) = a * b + t * (a * c))
   /\ (forall g q w dp, dp * i_vjp g q w = i_deriv g q dp * w)
   /\ forall p x v, solve_hyps R R Rplus Rmult Rmult (i_gradx h j) i_jvp i_cg 0 p x v)
  /\ forall p x k q0 dp, List.length p = 6%nat -> In k [0; 1; 2; 4]%nat ->
       ift_tangent R R Rmult (i_gradx h j) i_jvp i_deriv p x k q0 dp (- (j * dp) / h).
Proof. intros h j Hh. split; [exact (instance_hyps h j Hh)|intros; apply instance_tangent; assumption]. Qed.

(* the hypotheses of the history theorems are jointly satisfiable: a two-solve history of nonlinear_solve_with_state over R whose second solve takes its
   state slot from the first solution and both take their boundary slot from theta *)
Example C07_history_nonvacuous : forall h j a s : R, 0 < h -> forall dth b1 s1 x1 v1 b2 s2 x2 v2 : R,
  let t1 := hi_t h j a s dth 0 in let t2 := hi_t h j a s dth (t_dU R R t1) in
  hist_ok R R R Rplus Rmult Rmult Rmult Rmult (i_gradx h j) i_jvp i_deriv i_cg 0 dth 0
    [(hi_step a s (hi_par b2 s2) x2 v2, t2); (hi_step a s (hi_par b1 s1) x1 v1, t1)].
Proof. exact history_nonvacuous. Qed.

(* ... and those of the design-history theorem: two nonlinear_solve calls whose saved Params differ in every slot (different loads) *)
Example C07_design_history_nonvacuous : forall h j a : R, 0 < h -> forall dth b1 st1 d1 x1 v1 b2 st2 d2 x2 v2 : R,
  design_hist_ok R R R Rplus Rmult Rmult Rmult Rmult (i_gradx h j) i_jvp i_deriv i_cg 0 dth 0
    [(di_step a b2 st2 d2 x2 v2, di_t h j a dth); (di_step a b1 st1 d1 x1 v1, di_t h j a dth)].
Proof. exact design_history_nonvacuous. Qed.

Print Assumptions C07_history_adjoint.
Print Assumptions C07_design_rule_load_stepping_refuted.
Print Assumptions C07_forward_rule_saves_params_run_with.
Print Assumptions C07_design_rule_ift.
Print Assumptions C07_with_state_rule_ift.
Print Assumptions C07_adjoint_identity.
Print Assumptions C07_refs_resolve.
Print Assumptions C07_reverse_rule_slots.
Print Assumptions C07_slot_laws.
