(* C03 -- property theorems only (each closed by `exact <lemma>`).
   Layer 1: the tabulated triangle rules, regenerated from the decimal source text of optimism/QuadratureRule.py.
   Layer 2: soundness of the certificate checkers that ./check runs (vm_compute) on the exact rational value of every
            runtime table of the configuration set {order 1..5} x {bubble on/off} x {2-D degree 1..10}, {1-D degree 0..25}.
   Layer 3: lifting to every affine element / every mesh, for the R-instance of the geometric kernels of model/M_C03.v
            (jacR = cross-product Jacobian, volsR = jac * w, mgR = solve(J^T, dN), vols_axiR = 2 pi r vol).
   RefIds / TriQuadExact / Gauss1dExact / RefIds1 are defined in proofs/L_C03cert.v; eps is the certified tolerance. *)
From Coq Require Import ZArith QArith List Reals.
From Coquelicot Require Import Coquelicot.
From OV.base Require Import Num.
From OV.model Require Import M_C03.
From OV.gen Require Import Tab_TriQuad Tab_FsGeom.
From Coq Require Import Permutation.
From OV.model Require Import M_C13_Edges.
From OV.proofs Require Import L_C03sn L_C03cert L_C03tab L_C03lift L_C03int L_C03div L_C03_C13 L_C03edge L_C03geo.
Import ListNotations.
Local Open Scope R_scope.

(* ---- layer 1: the source tables *)
Theorem C03_tri_tables_exact : forall d, (1 <= d <= 10)%nat ->
  exists pts ws, select_branch tri_branches (Z.of_nat d) = Some (pts, ws) /\
    TriQuadExact d (2 / 1000000000000000) (map Q2R2 pts) (map Q2R ws).
Proof. exact tri_tables_exact. Qed.

(* ---- layer 2: what a successful certificate check means (b = 2 for binary64 tables) *)
Theorem C03_tri_rule_cert_sound : forall d pts ws tn td, (0 < td)%Z -> tri_rule_ok 2 d pts ws tn td = true ->
  TriQuadExact d (IZR tn / IZR td) (map (p2r 2) pts) (map (s2r 2) ws).
Proof. exact tri_rule_ok_sound_b2. Qed.
Theorem C03_gauss1d_cert_sound : forall d xs ws tn td, (0 < td)%Z -> gauss1d_ok 2 d xs ws tn td = true ->
  Gauss1dExact d (IZR tn / IZR td) (map (s2r 2) xs) (map (s2r 2) ws).
Proof. exact gauss1d_ok_sound_b2. Qed.
Theorem C03_shapes_cert_sound : forall p nodes qrecs tn td, (0 < td)%Z -> shapes_ok 2 p nodes qrecs tn td = true ->
  forall q N Gx Gy, In (q, (N, (Gx, Gy))) qrecs ->
    RefIds p (IZR tn / IZR td) (map (p2r 2) nodes) (p2r 2 q) (map (s2r 2) N) (map (s2r 2) Gx) (map (s2r 2) Gy).
Proof. exact shapes_ok_sound_b2. Qed.
Theorem C03_shapes1d_cert_sound : forall p nodes qrecs tn td, (0 < td)%Z -> shapes1d_ok 2 p nodes qrecs tn td = true ->
  forall s N dN, In (s, (N, dN)) qrecs ->
    RefIds1 p (IZR tn / IZR td) (map (s2r 2) nodes) (s2r 2 s) (map (s2r 2) N) (map (s2r 2) dN).
Proof. exact shapes1d_ok_sound_b2. Qed.
Theorem C03_faces_cert_sound : forall nodes vn faces nodes1 tn td, (0 < td)%Z -> faces_ok 2 nodes vn faces nodes1 tn td = true ->
  (exists a c d, vn = [a; c; d] /\
     exists pa pc pd, nth_error nodes a = Some pa /\ nth_error nodes c = Some pc /\ nth_error nodes d = Some pd /\
       p2r 2 pa = rvertex 0 /\ p2r 2 pc = rvertex 1 /\ p2r 2 pd = rvertex 2) /\
  length faces = 3%nat /\
  forall f fn, nth_error faces f = Some fn ->
    length fn = length nodes1 /\
    forall a ia s, nth_error fn a = Some ia -> nth_error nodes1 a = Some s ->
      exists pt, nth_error nodes ia = Some pt /\
        pclose (IZR tn / IZR td) (p2r 2 pt) (rlerp (s2r 2 s) (rvertex f) (rvertex (S f mod 3))).
Proof. exact faces_ok_sound_b2. Qed.
Theorem C03_nodes1d_cert_sound : forall p xs tn td, (0 < td)%Z -> nodes1d_ok 2 p xs tn td = true ->
  length xs = S p /\ s2r 2 (hd (1, 0)%Z xs) = 0 /\ s2r 2 (last xs (0, 0)%Z) = 1 /\
  (forall a x y, nth_error xs a = Some x -> nth_error xs (S a) = Some y -> s2r 2 x < s2r 2 y) /\
  (forall a x y, nth_error xs a = Some x -> nth_error (rev xs) a = Some y -> Rabs (s2r 2 x + s2r 2 y - 1) <= IZR tn / IZR td).
Proof. exact nodes1d_ok_sound_b2. Qed.

(* Lebesgue sums of the certified 1-D shape tables: sum_a |N_a(s_q)| <= ln/ld at every point of every 1-D rule (the
   certificates run with ln/ld = 2); this is the hypothesis Lam of C03_edge_flux_impl_points *)
Theorem C03_lebesgue1_cert_sound : forall qrecs ln ld, (0 < ld)%Z -> lebesgue1_ok 2 qrecs ln ld = true ->
  forall s N dN, In (s, (N, dN)) qrecs -> rsum (map Rabs (map (s2r 2) N)) <= IZR ln / IZR ld.
Proof. exact lebesgue1_ok_sound_b2. Qed.

(* ---- layer 3: every affine element, every mesh *)
(* the gradient components carried by PolyG are the partial derivatives *)
Theorem C03_PolyG_is_derivative : forall k f fx fy, PolyG k f fx fy ->
  forall x y, is_derive (fun t => f (t, y)) x (fx (x, y)) /\ is_derive (fun t => f (x, t)) y (fy (x, y)).
Proof. exact PolyG_is_derive. Qed.

(* shape functions sum to one, their mapped gradients to zero, at every quadrature point of every element
   (non-collinear vertices: jac <> 0), within the certified tolerance scaled by the inverse Jacobian *)
Theorem C03_partition_of_unity : forall v0 v1 v2 p eps nodes q N Gx Gy, RefIds p eps nodes q N Gx Gy ->
  Rabs (rsum N - 1) <= eps /\
  (jacR v0 v1 v2 <> 0 ->
   let sg := phys_grads v0 v1 v2 Gx Gy in
   Rabs (rsum (map fst sg)) <= (Rabs (snd v1 - snd v2) + Rabs (snd v0 - snd v2)) / Rabs (jacR v0 v1 v2) * eps /\
   Rabs (rsum (map snd sg)) <= (Rabs (fst v0 - fst v2) + Rabs (fst v1 - fst v2)) / Rabs (jacR v0 v1 v2) * eps).
Proof. exact lift_partition_of_unity. Qed.

(* a polynomial field of degree <= p sampled at the element's nodes (affine images of the reference nodes) is
   interpolated, and differentiated, exactly up to C * eps with C depending only on the field and the vertices *)
Theorem C03_interpolation_and_gradient : forall v0 v1 v2 p f fx fy, PolyG p f fx fy ->
  exists C, 0 <= C /\ forall eps nodes q N Gx Gy, RefIds p eps nodes q N Gx Gy ->
    let X := elmap v0 v1 v2 in
    let u := map f (map X nodes) in
    Rabs (rdot N u - f (X q)) <= C * eps /\
    (jacR v0 v1 v2 <> 0 ->
     let g := field_grad (phys_grads v0 v1 v2 Gx Gy) u in
     Rabs (fst g - fx (X q)) <= (Rabs (snd v1 - snd v2) + Rabs (snd v0 - snd v2)) / Rabs (jacR v0 v1 v2) * (C * eps) /\
     Rabs (snd g - fy (X q)) <= (Rabs (fst v0 - fst v2) + Rabs (fst v1 - fst v2)) / Rabs (jacR v0 v1 v2) * (C * eps)).
Proof. exact lift_interp_grad. Qed.
Theorem C03_interpolation_and_gradient_exact : forall v0 v1 v2 p f fx fy nodes q N Gx Gy,
  PolyG p f fx fy -> RefIds p 0 nodes q N Gx Gy -> jacR v0 v1 v2 <> 0 ->
  let X := elmap v0 v1 v2 in
  let u := map f (map X nodes) in
  rdot N u = f (X q) /\ field_grad (phys_grads v0 v1 v2 Gx Gy) u = (fx (X q), fy (X q)).
Proof. exact lift_interp_grad_exact. Qed.

(* quadrature-point volumes sum to the signed element area; over a mesh to the sum of signed areas; on a
   counter-clockwise mesh to the total area *)
Theorem C03_element_area : forall v0 v1 v2 d eps pts ws, TriQuadExact d eps pts ws ->
  Rabs (rsum (volsR v0 v1 v2 ws) - tri_area_signed v0 v1 v2) <= Rabs (jacR v0 v1 v2) * eps.
Proof. exact lift_element_area. Qed.
Theorem C03_mesh_area : forall d eps pts ws (mesh : list tri), TriQuadExact d eps pts ws ->
  Rabs (rsum (map (fun t => rsum (tri_vols ws t)) mesh) - rsum (map tri_sarea mesh))
    <= rsum (map (fun t => Rabs (tri_jac t)) mesh) * eps.
Proof. exact lift_mesh_area. Qed.
Theorem C03_mesh_area_ccw : forall d eps pts ws (mesh : list tri), TriQuadExact d eps pts ws -> List.Forall ccw mesh ->
  Rabs (rsum (map (fun t => rsum (tri_vols ws t)) mesh) - rsum (map (fun t => Rabs (tri_sarea t)) mesh))
    <= 2 * rsum (map (fun t => Rabs (tri_sarea t)) mesh) * eps.
Proof. exact lift_mesh_area_ccw. Qed.

(* a rule exact to degree d on the reference triangle integrates every polynomial of degree <= d on every element:
   sum_q vol_q f(x_q) = jac * (integral over the reference triangle of the pulled-back polynomial, by the monomial
   formula int x^i y^j = i! j!/(i+j+2)!), i.e. the affine change of variables; then summed over a mesh *)
Theorem C03_quadrature : forall v0 v1 v2 d f fx fy, PolyG d f fx fy ->
  exists P, pdeg_le d P /\ (forall xi, f (elmap v0 v1 v2 xi) = peval P xi) /\
    forall eps pts ws, TriQuadExact d eps pts ws ->
      Rabs (rdot (volsR v0 v1 v2 ws) (map f (map (elmap v0 v1 v2) pts)) - jacR v0 v1 v2 * pint_ref P)
        <= Rabs (jacR v0 v1 v2) * (eps * pnorm1 P).
Proof. exact lift_quadrature. Qed.
Theorem C03_mesh_quadrature : forall d f fx fy (mesh : list tri), PolyG d f fx fy ->
  exists Ps : list poly, length Ps = length mesh /\
    Forall2 (fun t P => pdeg_le d P /\ forall xi, f (tri_X t xi) = peval P xi) mesh Ps /\
    forall eps pts ws, TriQuadExact d eps pts ws ->
      Rabs (rsum (map (fun t => rdot (tri_vols ws t) (map f (map (tri_X t) pts))) mesh)
            - rsum (map (fun tP => tri_jac (fst tP) * pint_ref (snd tP)) (combine mesh Ps)))
        <= rsum (map (fun tP => Rabs (tri_jac (fst tP)) * pnorm1 (snd tP)) (combine mesh Ps)) * eps.
Proof. exact lift_mesh_quadrature. Qed.

(* axisymmetric mode (weight 2 pi r, r interpolated from the nodes): integrands of degree <= d - 1 are integrated to
   2 pi * jac * (reference integral of the pulled-back r*f), with explicit propagation of the table tolerances
   (eps_s: shape tables, eps_q: rule; M bounds |f| at the quadrature points); exact for exact data *)
Theorem C03_axisymmetric : forall v0 v1 v2 p d k nodes pts Ns ws f fx fy P eps_s eps_q M,
  (1 <= p)%nat -> (k + 1 <= d)%nat -> PolyG k f fx fy ->
  TriQuadExact d eps_q pts ws ->
  Forall2 (fun q N => exists Gx Gy, RefIds p eps_s nodes q N Gx Gy) pts Ns ->
  pdeg_le d P -> (forall xi, fst (elmap v0 v1 v2 xi) * f (elmap v0 v1 v2 xi) = peval P xi) ->
  0 <= M -> (forall q, In q pts -> Rabs (f (elmap v0 v1 v2 q)) <= M) -> 0 <= eps_s ->
  Rabs (rdot (vols_axiR v0 v1 v2 Ns (map fst (map (elmap v0 v1 v2) nodes)) ws) (map f (map (elmap v0 v1 v2) pts))
        - 2 * PI * (jacR v0 v1 v2 * pint_ref P))
    <= 2 * PI * Rabs (jacR v0 v1 v2) *
       (eps_q * pnorm1 P
        + eps_s * (Rabs (fst v2) + Rabs (fst v0 - fst v2) + Rabs (fst v1 - fst v2)) * M * (1 / 2 + eps_q)).
Proof. exact lift_axisymmetric_tol. Qed.
Theorem C03_axisymmetric_exact : forall v0 v1 v2 p d k nodes pts Ns ws f fx fy P,
  (1 <= p)%nat -> (k + 1 <= d)%nat -> PolyG k f fx fy ->
  TriQuadExact d 0 pts ws ->
  Forall2 (fun q N => exists Gx Gy, RefIds p 0 nodes q N Gx Gy) pts Ns ->
  pdeg_le d P -> (forall xi, fst (elmap v0 v1 v2 xi) * f (elmap v0 v1 v2 xi) = peval P xi) ->
  rdot (vols_axiR v0 v1 v2 Ns (map fst (map (elmap v0 v1 v2) nodes)) ws) (map f (map (elmap v0 v1 v2) pts))
    = 2 * PI * (jacR v0 v1 v2 * pint_ref P).
Proof. exact lift_axisymmetric. Qed.
Theorem C03_axisymmetric_integrand_form : forall v0 v1 v2 k f fx fy, PolyG k f fx fy ->
  exists P, pdeg_le (1 + k) P /\ forall xi, fst (elmap v0 v1 v2 xi) * f (elmap v0 v1 v2 xi) = peval P xi.
Proof. exact axisymmetric_integrand_form. Qed.

(* the kernels the theorems talk about have the index structure found in the source (gen/Tab_FsGeom.v), the element
   map sends the reference vertices (1,0), (0,1), (0,0) to v0, v1, v2, and the Jacobian is invariant under cyclic
   renumbering of the vertices *)
Theorem C03_geometry_structure :
  vol_cross_idx = ((1, 0), (2, 0))%nat /\ jac_cols_idx = ((0, 2), (1, 2))%nat /\ edge_tangent_idx = (1, 0)%nat.
Proof. exact geom_structure_as_modelled. Qed.
Theorem C03_element_map : forall v0 v1 v2,
  elmap v0 v1 v2 (1, 0) = v0 /\ elmap v0 v1 v2 (0, 1) = v1 /\ elmap v0 v1 v2 (0, 0) = v2.
Proof. exact elmap_vertices. Qed.
Theorem C03_jacobian_cyclic : forall v0 v1 v2, jacR v1 v2 v0 = jacR v0 v1 v2.
Proof. exact jacR_cyclic. Qed.

(* ---- the monomial formula is the Riemann integral; integrals over triangles *)
Theorem C03_tri_moment_is_integral : forall i j,
  is_RInt (fun x => RInt (fun y => rmon (x, y) (i, j)) 0 (1 - x)) 0 1 (tri_moment i j).
Proof. exact tri_moment_is_integral. Qed.
Theorem C03_reference_integral : forall P, RInt (fun x => RInt (fun y => peval P (x, y)) 0 (1 - x)) 0 1 = pint_ref P.
Proof. exact pint_ref_is_integral. Qed.
(* quadrature against the genuine integral  int_tri v0 v1 v2 f = jac * int_ref (f o X)  (affine change of variables) *)
Theorem C03_quadrature_integral : forall v0 v1 v2 d f fx fy, PolyG d f fx fy ->
  exists C, 0 <= C /\ forall eps pts ws, TriQuadExact d eps pts ws ->
    Rabs (rdot (volsR v0 v1 v2 ws) (map f (map (elmap v0 v1 v2) pts)) - int_tri v0 v1 v2 f)
      <= Rabs (jacR v0 v1 v2) * (C * eps).
Proof. exact lift_quadrature_integral. Qed.

(* ---- divergence theorem for polynomial vector fields F = (F1, F2).
   flux F1 F2 A B = int_0^1 F1(A + s t) ds * t_y - int_0^1 F2(A + s t) ds * t_x,  t = B - A  (= int_edge F.n ds with the
   normal to the right of the direction of travel, i.e. outward on a counter-clockwise boundary) *)
Theorem C03_divergence_triangle : forall k F1 f1x f1y l F2 f2x f2y v0 v1 v2, PolyG k F1 f1x f1y -> PolyG l F2 f2x f2y ->
  flux F1 F2 v0 v1 + flux F1 F2 v1 v2 + flux F1 F2 v2 v0 = int_tri v0 v1 v2 (fun x => f1x x + f2y x).
Proof. exact divergence_triangle. Qed.
(* mesh: if the directed element edges are the boundary edges plus interior edges traversed once in each direction, the
   boundary flux equals the sum over elements of the integral of div F *)
Theorem C03_divergence_mesh : forall k F1 f1x f1y l F2 f2x f2y (mesh : list tri) (bnd inter : list dedge),
  PolyG k F1 f1x f1y -> PolyG l F2 f2x f2y ->
  Permutation (flat_map tri_edges mesh) (bnd ++ flat_map both_ways inter) ->
  rsum (map (eflux F1 F2) bnd) = rsum (map (int_tri' (fun x => f1x x + f2y x)) mesh).
Proof. exact divergence_mesh. Qed.
(* composition with C13: for a consistently oriented manifold triangulation (no directed vertex pair twice, no degenerate
   side) the premise above FOLLOWS from C13's theorems about the Mesh.create_edges model: the directed element sides are
   the rows create_edges reports as boundary (no right element) plus the interior rows once in each direction; hence the
   flux over exactly those boundary edges equals the sum of the element integrals of div F *)
Theorem C03_faces_boundary_interior : forall conns, NoDup (all_faces conns) -> nondegenerate conns ->
  Permutation (all_faces conns) (boundary_faces conns ++ flat_map both_dirs (interior_faces conns)).
Proof. exact faces_boundary_interior. Qed.
Theorem C03_divergence_mesh_create_edges : forall (X : nat -> R * R) k F1 f1x f1y l F2 f2x f2y conns,
  NoDup (all_faces conns) -> nondegenerate conns ->
  PolyG k F1 f1x f1y -> PolyG l F2 f2x f2y ->
  rsum (map (eflux F1 F2) (map (xface X) (boundary_faces conns)))
  = rsum (map (int_tri' (fun x => f1x x + f2y x)) (mesh_of X conns)).
Proof. exact divergence_mesh_create_edges. Qed.
Example C03_nonvacuous_two_triangles :
  NoDup (all_faces ex_two_tris) /\ nondegenerate ex_two_tris
  /\ boundary_faces ex_two_tris = [(0, 1); (3, 0); (1, 2); (2, 3)]%nat /\ interior_faces ex_two_tris = [(0, 2)]%nat.
Proof. exact ex_two_tris_ok. Qed.
(* the edge quadrature sum  sum_q w_q |t| F(X_q).n  of FunctionSpace.integrate_function_on_edge, at the exact edge points
   X_q = A + s_q t, equals the flux up to C * eps for a 1-D rule exact to degree d1 >= deg F *)
Theorem C03_edge_flux_quadrature_partial : forall k F1 f1x f1y l F2 f2x f2y A B d1,
  PolyG k F1 f1x f1y -> PolyG l F2 f2x f2y -> (k <= d1)%nat -> (l <= d1)%nat ->
  exists C, 0 <= C /\ forall eps xs ws, Gauss1dExact d1 eps xs ws ->
    Rabs (discrete_flux F1 F2 A B xs ws - flux F1 F2 A B) <= C * eps.
Proof. exact edge_flux_quadrature. Qed.

(* ---- the divergence clause AT THE IMPLEMENTATION'S OWN POINTS (round 4; closes the former NOT PROVED item).
   FunctionSpace.integrate_function_on_edge evaluates F at X_q = sum_a N_a(s_q) X_a (1-D shape tables applied to the
   coordinates X_a of the edge nodes), multiplies by the unit normal and by jac * w_q of Mesh.compute_edge_vectors:
     impl_edge_flux F1 F2 A B Xn Ns ws = sum_q (jac w_q) (F1(X_q) n_x + F2(X_q) n_y),  (n, jac) = edge_vectors A B at R.
   plip P M = sum |c_ij| (d/dx + d/dy)(x^i y^j) at (M, M) is a Lipschitz constant (max-norm) of the polynomial P on [-M, M]^2;
   emax A B is the max-norm radius of a box containing the edge;
   lip_term P1 P2 A B eta = eta * (plip P1 (emax + eta) |t_y| + plip P2 (emax + eta) |t_x|). *)
Theorem C03_polynomial_lipschitz : forall P X X' M d, inbox M X -> inbox M X' -> pclose d X X' ->
  Rabs (peval P X - peval P X') <= plip P M * d.
Proof. exact peval_lip. Qed.
(* distance of the implementation's edge point from the exact one: node placement error delta (times the Lebesgue sum of
   the shape values) plus the certified error of the 1-D reference identities (only k = 0, 1 are used) *)
Theorem C03_edge_point_distance : forall p eps delta nodes s N dN A B Xn,
  (1 <= p)%nat -> RefIds1 p eps nodes s N dN -> 0 <= delta ->
  Forall2 (fun sg X => pclose delta X (seg A B sg)) nodes Xn ->
  pclose (delta * rsum (map Rabs N) + eps * emax A B) (interp_pt N Xn) (seg A B s).
Proof. exact interp_pt_close. Qed.
(* the sum written with the unit normal and the edge Jacobian is the flux sum at the interpolated points (A <> B) *)
Theorem C03_impl_edge_flux_form : forall F1 F2 A B Xn Ns ws, A <> B ->
  impl_edge_flux F1 F2 A B Xn Ns ws = flux_at F1 F2 A B (map (fun N => interp_pt N Xn) Ns) ws.
Proof. exact impl_edge_flux_eq. Qed.
(* impl_edge_flux is the R-instance of the Num-generic model edge_flux_sum of model/M_C03.v, which is executed at binary64
   against FunctionSpace.integrate_function_on_edge (L1 stream `edgeflux`, monomial integrands mono_fn a c = x^a y^c) *)
Theorem C03_impl_edge_flux_is_model : forall F1 F2 A B Xn Ns ws,
  @edge_flux_sum R NumR F1 F2 A B Xn Ns ws = impl_edge_flux F1 F2 A B Xn Ns ws.
Proof. exact edge_flux_sum_R. Qed.
Theorem C03_mono_fn_R : forall a c X, @mono_fn R NumR a c X = rmon X (a, c).
Proof. exact mono_fn_R. Qed.
(* general statement: edge nodes within delta of A + sigma_a t, Lebesgue sums bounded by Lam *)
Theorem C03_edge_flux_impl_points : forall k F1 f1x f1y l F2 f2x f2y A B d1 p,
  PolyG k F1 f1x f1y -> PolyG l F2 f2x f2y -> (k <= d1)%nat -> (l <= d1)%nat -> (1 <= p)%nat -> A <> B ->
  exists C P1 P2, 0 <= C /\ pdeg_le k P1 /\ pdeg_le l P2 /\ (forall x, F1 x = peval P1 x) /\ (forall x, F2 x = peval P2 x) /\
    forall eps_q eps_s delta Lam nodes Xn xs Ns ws,
      Gauss1dExact d1 eps_q xs ws ->
      Forall2 (fun s N => (exists dN, RefIds1 p eps_s nodes s N dN) /\ rsum (map Rabs N) <= Lam) xs Ns ->
      Forall2 (fun sg X => pclose delta X (seg A B sg)) nodes Xn ->
      0 <= eps_s -> 0 <= delta -> 0 <= Lam ->
      Rabs (impl_edge_flux F1 F2 A B Xn Ns ws - flux F1 F2 A B)
        <= C * eps_q + (1 + eps_q) * lip_term P1 P2 A B (delta * Lam + eps_s * emax A B).
Proof. exact edge_flux_impl_points. Qed.
(* edge nodes exactly at the affine images A + sigma_a t of the 1-D reference nodes *)
Theorem C03_edge_flux_impl_points_exact_nodes : forall k F1 f1x f1y l F2 f2x f2y A B d1 p,
  PolyG k F1 f1x f1y -> PolyG l F2 f2x f2y -> (k <= d1)%nat -> (l <= d1)%nat -> (1 <= p)%nat -> A <> B ->
  exists C P1 P2, 0 <= C /\ pdeg_le k P1 /\ pdeg_le l P2 /\ (forall x, F1 x = peval P1 x) /\ (forall x, F2 x = peval P2 x) /\
    forall eps_q eps_s nodes xs Ns ws,
      Gauss1dExact d1 eps_q xs ws ->
      Forall2 (fun s N => exists dN, RefIds1 p eps_s nodes s N dN) xs Ns ->
      0 <= eps_s ->
      Rabs (impl_edge_flux F1 F2 A B (map (seg A B) nodes) Ns ws - flux F1 F2 A B)
        <= C * eps_q + (1 + eps_q) * lip_term P1 P2 A B (eps_s * emax A B).
Proof. exact edge_flux_impl_points_exact_nodes. Qed.
(* Lipschitz form (the full-strength version of C03_edge_flux_quadrature_partial): constants depending only on F and the
   edge, for every rule error eps_q and every table error eps_s <= 1 *)
Theorem C03_edge_flux_quadrature : forall k F1 f1x f1y l F2 f2x f2y A B d1 p,
  PolyG k F1 f1x f1y -> PolyG l F2 f2x f2y -> (k <= d1)%nat -> (l <= d1)%nat -> (1 <= p)%nat -> A <> B ->
  exists C L, 0 <= C /\ 0 <= L /\
    forall eps_q eps_s nodes xs Ns ws,
      Gauss1dExact d1 eps_q xs ws ->
      Forall2 (fun s N => exists dN, RefIds1 p eps_s nodes s N dN) xs Ns ->
      0 <= eps_s <= 1 ->
      Rabs (impl_edge_flux F1 F2 A B (map (seg A B) nodes) Ns ws - flux F1 F2 A B) <= C * eps_q + L * (1 + eps_q) * eps_s.
Proof. exact edge_flux_impl_lipschitz. Qed.
(* mesh: the sum over the edges create_edges reports as boundary of the implementation's edge sums equals the sum over the
   elements of the integrals of div F up to C eps_q + L (1 + eps_q) eps_s (boundary edges geometrically non-degenerate) *)
Theorem C03_divergence_mesh_discrete : forall (X : nat -> R * R) k F1 f1x f1y l F2 f2x f2y conns d1 p,
  NoDup (all_faces conns) -> nondegenerate conns ->
  PolyG k F1 f1x f1y -> PolyG l F2 f2x f2y -> (k <= d1)%nat -> (l <= d1)%nat -> (1 <= p)%nat ->
  (forall f, In f (boundary_faces conns) -> X (fst f) <> X (snd f)) ->
  exists C L, 0 <= C /\ 0 <= L /\
    forall eps_q eps_s nodes xs Ns ws,
      Gauss1dExact d1 eps_q xs ws ->
      Forall2 (fun s N => exists dN, RefIds1 p eps_s nodes s N dN) xs Ns ->
      0 <= eps_s <= 1 ->
      Rabs (rsum (map (impl_eflux F1 F2 nodes Ns ws) (map (xface X) (boundary_faces conns)))
            - rsum (map (int_tri' (fun x => f1x x + f2y x)) (mesh_of X conns)))
        <= C * eps_q + L * (1 + eps_q) * eps_s.
Proof. exact divergence_mesh_discrete. Qed.
(* the nodal field handed to func on an edge: a polynomial field of degree <= p sampled at the exact edge nodes is
   reproduced at the edge quadrature points up to C * eps *)
Theorem C03_edge_interpolation : forall k u ux uy A B p, PolyG k u ux uy -> (k <= p)%nat ->
  exists C, 0 <= C /\ forall eps nodes s N dN, RefIds1 p eps nodes s N dN ->
    Rabs (rdot N (map (fun sg => u (seg A B sg)) nodes) - u (seg A B s)) <= C * eps.
Proof. exact edge_interp_exact. Qed.
Example C03_nonvacuous_edge :
  Gauss1dExact 1 0 [1 / 2] [1] /\ Forall2 (fun s N => exists dN, RefIds1 1 0 [0; 1] s N dN) [1 / 2] [[1 / 2; 1 / 2]] /\
  ((0, 0) : R * R) <> (1, 0).
Proof. exact nonvacuous_edge. Qed.

(* ---- the mapped shape gradients are J^{-T} times the reference gradients: they solve J^T g = dN, uniquely, for
   J = [v0 - v2 | v1 - v2] (the Jacobian of the element map, C03_element_jacobian); their sum over the nodes is the mapped
   sum of the reference gradients, hence exactly zero whenever the reference gradients sum to zero *)
Theorem C03_mapped_gradient_solves : forall v0 v1 v2 dN, jacR v0 v1 v2 <> 0 -> JT_apply v0 v1 v2 (mgR v0 v1 v2 dN) = dN.
Proof. exact mapped_gradient_solves. Qed.
Theorem C03_mapped_gradient_unique : forall v0 v1 v2 dN g, jacR v0 v1 v2 <> 0 -> JT_apply v0 v1 v2 g = dN -> g = mgR v0 v1 v2 dN.
Proof. exact mapped_gradient_unique. Qed.
Theorem C03_element_jacobian : forall v0 v1 v2 xi h,
  elmap v0 v1 v2 (fst xi + fst h, snd xi + snd h) =
  (fst (elmap v0 v1 v2 xi) + ((fst v0 - fst v2) * fst h + (fst v1 - fst v2) * snd h),
   snd (elmap v0 v1 v2 xi) + ((snd v0 - snd v2) * fst h + (snd v1 - snd v2) * snd h)).
Proof. exact elmap_jacobian. Qed.
Theorem C03_mapped_gradient_sum : forall v0 v1 v2 Gx Gy, length Gx = length Gy ->
  let sg := phys_grads v0 v1 v2 Gx Gy in
  (rsum (map fst sg), rsum (map snd sg)) = mgR v0 v1 v2 (rsum Gx, rsum Gy).
Proof. exact mapped_gradient_sum. Qed.
Theorem C03_mapped_gradient_sum_zero : forall v0 v1 v2 Gx Gy, length Gx = length Gy -> rsum Gx = 0 -> rsum Gy = 0 ->
  let sg := phys_grads v0 v1 v2 Gx Gy in rsum (map fst sg) = 0 /\ rsum (map snd sg) = 0.
Proof. exact mapped_gradient_sum_zero. Qed.

(* ---- axisymmetric quadrature summed over a mesh: every element carries the same reference tables (any nodal basis with
   the reference identities of order p >= 1 -- certified for orders 1..5 with and without bubble enrichment); Ms bounds |f| at
   the quadrature points of each element *)
Theorem C03_mesh_axisymmetric : forall p d k nodes pts Ns ws f fx fy (mesh : list tri) eps_s eps_q,
  (1 <= p)%nat -> (k + 1 <= d)%nat -> PolyG k f fx fy ->
  TriQuadExact d eps_q pts ws ->
  Forall2 (fun q N => exists Gx Gy, RefIds p eps_s nodes q N Gx Gy) pts Ns -> 0 <= eps_s ->
  exists Ps : list poly, length Ps = length mesh /\
    Forall2 (fun t P => pdeg_le d P /\ forall xi, fst (tri_X t xi) * f (tri_X t xi) = peval P xi) mesh Ps /\
    forall Ms : list R, Forall2 (fun t M => 0 <= M /\ forall q, In q pts -> Rabs (f (tri_X t q)) <= M) mesh Ms ->
      Rabs (rsum (map (fun t => rdot (tri_vols_axi Ns nodes ws t) (map f (map (tri_X t) pts))) mesh)
            - 2 * PI * rsum (map (fun tP => tri_jac (fst tP) * pint_ref (snd tP)) (combine mesh Ps)))
        <= 2 * PI * rsum (map (fun tPM => let '(t, P, M) := tPM in
              Rabs (tri_jac t) * (eps_q * pnorm1 P
                 + eps_s * (let '(a, c, e) := t in Rabs (fst e) + Rabs (fst a - fst e) + Rabs (fst c - fst e)) * M * (1 / 2 + eps_q)))
            (combine (combine mesh Ps) Ms)).
Proof. exact lift_mesh_axisymmetric. Qed.

Theorem C03_mesh_axisymmetric_exact : forall p d k nodes pts Ns ws f fx fy (mesh : list tri),
  (1 <= p)%nat -> (k + 1 <= d)%nat -> PolyG k f fx fy ->
  TriQuadExact d 0 pts ws ->
  Forall2 (fun q N => exists Gx Gy, RefIds p 0 nodes q N Gx Gy) pts Ns ->
  exists Ps : list poly, length Ps = length mesh /\
    Forall2 (fun t P => pdeg_le d P /\ forall xi, fst (tri_X t xi) * f (tri_X t xi) = peval P xi) mesh Ps /\
    rsum (map (fun t => rdot (tri_vols_axi Ns nodes ws t) (map f (map (tri_X t) pts))) mesh)
    = 2 * PI * rsum (map (fun tP => tri_jac (fst tP) * pint_ref (snd tP)) (combine mesh Ps)).
Proof. exact lift_mesh_axisymmetric_exact. Qed.

(* NOT PROVED (what remains between the theorems and the implementation's numbers):
     - binary64 rounding inside FunctionSpace / Mesh (the theorems are over exact reals with the certified table errors as
       explicit hypotheses); tied by L1 on the geometric kernels and by L2 with stated head-room;
     - the placement error delta of the higher-order edge nodes enters C03_edge_flux_impl_points as a hypothesis: it is owned
       by C13 (mesh elevation, computed in binary64) and measured per edge in L2; the Lebesgue sums Lam are certified (<= 2,
       C03_lebesgue1_cert_sound); for delta = 0 neither is needed (C03_edge_flux_impl_points_exact_nodes,
       C03_edge_flux_quadrature, C03_divergence_mesh_discrete);
     - edge integrands that multiply the interpolated nodal field u_q (C03_edge_interpolation) with F(X_q) have no combined
       theorem (tested by L2: oint u y n_x ds).
   (The premise of C03_divergence_mesh is not assumed: C03_divergence_mesh_create_edges derives it from C13's create_edges
   theorems; its two hypotheses -- no directed pair twice, no degenerate side -- are checked on every L2 mesh, together with
   the decomposition itself on the implementation's create_edges output.) *)

(* non-vacuity: exact P1 data with the one-point rule satisfy the hypotheses; a concrete non-degenerate
   counter-clockwise triangle and a concrete degree-1 field exist *)
Example C03_nonvacuous_refids : RefIds 1 0 p1_nodes p1_q [1 / 3; 1 / 3; 1 / 3] [1; 0; -1] [0; 1; -1].
Proof. exact p1_refids_exact. Qed.
Example C03_nonvacuous_quad : TriQuadExact 1 0 [p1_q] [1 / 2].
Proof. exact p1_quad_exact. Qed.
Example C03_nonvacuous_triangle : jacR (0, 0) (2, 0) (0, 1) <> 0 /\ ccw ((0, 0), (2, 0), (0, 1)) /\
  PolyG 1 (fun x => 3 + 2 * fst x - snd x) (fun _ => 2) (fun _ => -1).
Proof. exact nonvacuous_triangle. Qed.

Print Assumptions C03_tri_tables_exact.
Print Assumptions C03_shapes_cert_sound.
Print Assumptions C03_interpolation_and_gradient.
Print Assumptions C03_mesh_area_ccw.
Print Assumptions C03_axisymmetric.
Print Assumptions C03_divergence_mesh_create_edges.
Print Assumptions C03_divergence_mesh_discrete.
Print Assumptions C03_mesh_axisymmetric.
