(* C12 -- property theorems only.  (a)-(c'') are about kernels regenerated from /repo's TensorMath.py at T := R (round 3 added (b') the
   first, trigonometric stage of eigen_sym33_non_unit, (c') the Taylor kernel's truncation error and (c'') the argsort-based kernels
   wired into log_symm / pow_symm; round 4 added (b'') the part of eigen_sym33_non_unit after the trigonometric root: pivoted deflation,
   2x2 Wilkinson shift and eigenvectors are exact given an exact simple eigenvalue); (d) is the soundness
   of the executable result checkers (model/M_C12.v) that ./check runs with vm_compute on the exact rational values of the
   implementation's outputs.  The accuracy of eigen_sym33_unit, sqrtm_dbp, logm_iss for ALL inputs is NOT proved (approximate
   algorithms in binary64): each explored instance is certified by a verified checker instead -- partial. *)
From Coq Require Import Reals QArith Qabs List.
From OV.base Require Import Num.
From OV.gen Require Import Gen_TensorMath Gen_TensorMathFun Gen_TensorMathEig.
From OV.model Require Import M_C08 M_C12 M_C12_Trig M_C12_Defl M_C12_DBP.
From OV.proofs Require Import L_C08 L_C12 L_C12_RD L_C12_Trig L_C12_Defl L_C12_DBP.
Import ListNotations.
Notation M := (mat R).
Local Open Scope R_scope.

(* (a) determinant-minus-one, inverse, deviator, polar-decomposition helpers *)
Theorem C12_detpIm1 : forall A : M, ap9 (@detpIm1 R NumR) A = mdet (madd A mid) - 1.
Proof. exact detpIm1_exact. Qed.
Theorem C12_inv_right : forall A : M, mdet A <> 0 -> mmul A (tinv A) = mid.
Proof. exact inv_right. Qed.
Theorem C12_inv_left : forall A : M, mdet A <> 0 -> mmul (tinv A) A = mid.
Proof. exact inv_left. Qed.
Theorem C12_dev_traceless : forall A : M, mtrace (of9 (ap9 (@dev R NumR) A)) = 0.
Proof. exact dev_traceless. Qed.
Theorem C12_sym_plus_skw : forall A : M, madd (of9 (ap9 (@sym R NumR) A)) (of9 (ap9 (@skw R NumR) A)) = A.
Proof. exact sym_plus_skw. Qed.
Theorem C12_polar_identities : forall F U : M, mtr U = U -> mmul U U = mmul (mtr F) F -> mdet U <> 0 ->
  let Rm := mmul F (tinv U) in mmul Rm U = F /\ mmul (mtr Rm) Rm = mid.
Proof. exact polar_identities. Qed.
(* (b) the minimax Pade approximation used for the largest eigenvalue solves the trisection cubic to 1e-13 on [0,1] *)
Theorem C12_pade_bound : forall x, 0 <= x <= 1 -> Rabs (4 * pade x * pade x * pade x - 3 * pade x - x) <= 1 / 10000000000000.
Proof. exact pade_residual. Qed.
Theorem C12_pade_range : forall x, 0 <= x <= 1 -> 866 / 1000 <= pade x <= 10000001 / 10000000.
Proof. exact pade_range. Qed.
(* (b') round 3 -- the closed-form trigonometric stage of eigen_sym33_non_unit.  stage A = (c1, c2, c3, rr, arg, eval2) is the PREFIX of the
   routine's body (up to the assignment of eval2) regenerated from the source.  x^3 + c2 x + c3 is the characteristic polynomial of
   the deviator of sym A and c1 its mean; when c2 < 0 and |rr| <= 1 (the clamp `minimum(abs(rr), 1)` inactive), eval2 -- computed with
   the Pade kernel -- leaves a residual of at most 2e-13 (-c2/3)^(3/2) in that polynomial, and lies within 4e-14 sqrt(-c2/3) of an exact
   root which has the largest magnitude of all roots: the deviatoric eigenvalue of largest magnitude (Pade error => eigenvalue error).
   |rr| <= 1 follows from the polynomial having three real roots (discriminant identity). *)
Theorem C12_trig_stage_invariants : forall A : M,
  st_c1 A = mtrace A / 3 /\ forall x, charpoly (devsym A) x = cubic (st_c2 A) (st_c3 A) x.
Proof. exact stage_invariants. Qed.
Theorem C12_trig_root_residual : forall A : M, st_c2 A < 0 -> Rabs (st_rr A) <= 1 ->
  Rabs (cubic (st_c2 A) (st_c3 A) (st_eval2 A))
  <= 2 / 10000000000000 * (sqrt (- st_c2 A / 3) * sqrt (- st_c2 A / 3) * sqrt (- st_c2 A / 3)).
Proof. exact trig_root_residual. Qed.
Theorem C12_trig_root_error : forall A : M, st_c2 A < 0 -> Rabs (st_rr A) <= 1 ->
  exists lstar, cubic (st_c2 A) (st_c3 A) lstar = 0
    /\ Rabs (st_eval2 A - lstar) <= 4 / 100000000000000 * sqrt (- st_c2 A / 3)
    /\ (forall mu, cubic (st_c2 A) (st_c3 A) mu = 0 -> Rabs mu <= Rabs lstar).
Proof. exact trig_root_error. Qed.
Theorem C12_trig_argument_bounded : forall c2 c3 l1 l2 l3 : R, c2 < 0 ->
  (forall x, cubic c2 c3 x = (x - l1) * (x - l2) * (x - l3)) ->
  Rabs (- (1 / 2) * c3 * (3 / - c2) * sqrt (3 / - c2)) <= 1.
Proof. exact rr_bounded_of_real_roots. Qed.
Example C12_trig_nonvacuous : st_c1 Aex = 4 /\ st_c2 Aex = -7 /\ st_c3 Aex = -6 /\ st_c2 Aex < 0 /\ Rabs (st_rr Aex) <= 1
  /\ cubic (st_c2 Aex) (st_c3 Aex) 3 = 0 /\ Rabs (st_eval2 Aex - 3) <= 1 / 10000000000000.
Proof. exact trig_nonvacuous. Qed.
(* (b'') round 4 -- the part of eigen_sym33_non_unit AFTER the trigonometric root, in exact arithmetic: pivoted deflation (largest row
   of C = D - lam I, Gram-Schmidt of the other two rows against it, larger residual, cross product), projection of D on the plane
   spanned by the pivot row k and the residual a, 2x2 Wilkinson-shift formula, in-plane eigenvectors with their degeneracy override.
   The source segment between `eval2 = ...` and `evec1 = ...` is regenerated on every run as four stage kernels (cut at ki_ki, evec2,
   eval1); eig_compose chains them as the routine's data flow does; deflation_exact (model/M_C12_Defl.v) says: the characteristic
   polynomial x^3 + c2 x + c3 of the traceless symmetric D factors as (x - lam)(x - eval0)(x - eval1) (Vieta: eval0, eval1 ARE the other
   two roots), D evec2 = lam evec2, D evec0 = eval0 evec0, D evec1 = eval1 evec1, the three vectors are nonzero and mutually orthogonal.
   Hypotheses: lam is an exact root and a SIMPLE one (3 lam^2 + c2 <> 0) -- this single condition implies both non-degeneracy facts the
   routine relies on without testing (pivot row nonzero; D - lam I of rank 2, i.e. a nonzero Gram-Schmidt residual). *)
Theorem C12_deflation_exact : forall dxx dyy dzz dxy dyz dzx lam : R,
  dxx + dyy + dzz = 0 ->
  cubic3 (sE2 dxx dyy dzz dxy dyz dzx) (sC3 dxx dyy dzz dxy dyz dzx) lam = 0 ->
  3 * lam * lam + sE2 dxx dyy dzz dxy dyz dzx <> 0 ->
  deflation_exact dxx dyy dzz dxy dyz dzx lam (@eig_compose R NumR dxx dyy dzz dxy dyz dzx lam).
Proof. exact compose_exact. Qed.
(* the same for a tensor A: D = deviator of sym A and c2, c3 as the generated first stage computes them; the Vieta clause then speaks
   about the characteristic polynomial of that deviator *)
Theorem C12_deflation_exact_tensor : forall (A : M) (lam : R),
  cubic (st_c2 A) (st_c3 A) lam = 0 -> 3 * lam * lam + st_c2 A <> 0 -> deflation_exact_tensor A lam.
Proof. exact deflation_exact_tensor_thm. Qed.
Theorem C12_deflation_vieta_charpoly : forall (A : M) (lam : R), deflation_exact_tensor A lam ->
  let '(e0, e1, _, _, _, _, _, _, _, _, _) := deflate_tensor A lam in
  forall x, charpoly (devsym A) x = (x - lam) * (x - e0) * (x - e1).
Proof. exact deflation_vieta_charpoly. Qed.
(* the exact trigonometric root of (b') -- the root of largest magnitude, within 4e-14 sqrt(-c2/3) of the computed eval2 -- is always
   a simple root: run with it, the deflation returns the exact other two eigenvalues and three exact orthogonal eigenvectors *)
Theorem C12_deflation_after_exact_trig_root : forall A : M, st_c2 A < 0 -> Rabs (st_rr A) <= 1 ->
  let lam := exact_root (st_c2 A) (st_c3 A) in
  deflation_exact_tensor A lam
  /\ Rabs (st_eval2 A - lam) <= 4 / 100000000000000 * sqrt (- st_c2 A / 3)
  /\ (forall mu, cubic (st_c2 A) (st_c3 A) mu = 0 -> Rabs mu <= Rabs lam).
Proof. exact deflation_after_exact_trig_root. Qed.
(* the Wilkinson-shift formula alone: the two values are the roots of the 2x2 characteristic polynomial (sum and product) *)
Theorem C12_wilkinson_formula : forall xx yy xy2 sq sg : R, 0 <= xy2 -> 0 <= sq ->
  sq * sq = (1 / 2 * (xx - yy)) * (1 / 2 * (xx - yy)) + xy2 ->
  (sg = -1 /\ 1 / 2 * (xx - yy) < 0 \/ sg = 1 /\ 0 <= 1 / 2 * (xx - yy)) ->
  let e0 := yy + 1 / 2 * (xx - yy) - sq * sg in let e1 := xx + yy - e0 in
  e0 + e1 = xx + yy /\ e0 * e1 = xx * yy - xy2 /\ (xy2 = 0 -> e0 = yy).
Proof. exact wilk2. Qed.
Example C12_deflation_nonvacuous : cubic (st_c2 Aex) (st_c3 Aex) 3 = 0 /\ 3 * 3 * 3 + st_c2 Aex <> 0 /\ st_c2 Aex < 0 /\ Rabs (st_rr Aex) <= 1.
Proof. exact deflation_nonvacuous. Qed.
(* NOT PROVED: that a real symmetric tensor has three real eigenvalues (the spectral theorem; it is the hypothesis of
   C12_trig_argument_bounded); the deflation run with the COMPUTED eval2 (a 4e-14-perturbed eigenvalue: D - eval2 I is then not
   singular and the statements become perturbation bounds -- only measured, per instance, by check_eig); a DOUBLE root lam (excluded by
   the simple-root hypothesis; the largest-magnitude root is never double unless D = 0); the isotropic fallback (c2 >= -1e-30 c1^2)
   and the final argsort (ascending order is certified per instance by check_eig); that eig_compose and the one-piece segment kernel
   eig_deflate are the same Coq term (true by conversion -- `reflexivity` succeeds in 3 minutes, too slow for the build -- and checked
   on every run by executing both at binary64, bit for bit); binary64 rounding of the stage; anything about COMPILED BATCHES: since /repo
   e63b801 the pair (fac1, fac2) is divided by facmax = where(max(|fac1|,|fac2|) > 0, max, 1) and both_zero is tested on the scaled pair --
   over R a positive rescaling of evec0, covered at full strength by the theorems above (vectors_shape uses only facmax > 0) -- which
   repairs the former finding EIGVMAP (eigenvectors not orthonormal inside jit(vmap) batches on (nearly) double eigenvalues) because XLA
   evaluates a division once instead of re-evaluating the noise-valued pair per output component (fusion policy, not a JAX contract;
   tools/vlib/eigvmap_fix_report.md).  No model of XLA exists here: batched accuracy is tied by the streams only (same tolerance as the
   single call, near-degenerate spectra included; the EIGVMAP witness is replayed in batches of 2, 3 and 8 on every run). *)
(* (c) the cancellation-free relative differences of the derivative rules are the divided differences (Daleckii-Krein) *)
Theorem C12_sqrt_relative_difference : forall l1 l2, 0 < l1 -> 0 < l2 -> l1 <> l2 ->
  @_sqrt_relative_difference R NumR l1 l2 = (sqrt l1 - sqrt l2) / (l1 - l2).
Proof. exact sqrt_relative_difference_exact. Qed.
Theorem C12_sqrt_relative_difference_confluent : forall l, 0 < l -> @_sqrt_relative_difference R NumR l l = / (2 * sqrt l).
Proof. exact sqrt_relative_difference_confluent. Qed.
Theorem C12_exp_relative_difference : forall l1 l2, l1 <> l2 -> @_exp_relative_difference R NumR l1 l2 = (exp l1 - exp l2) / (l1 - l2).
Proof. exact exp_relative_difference_exact. Qed.
Theorem C12_log_relative_difference : forall l1 l2, 0 < l1 -> 0 < l2 -> l1 <> l2 ->
  @_relative_log_difference_no_tolerance_check R NumR l1 l2 = (ln l1 - ln l2) / (l1 - l2).
Proof. exact log_relative_difference_exact. Qed.
(* (c') round 3 -- the Taylor branch: for |l1 - l2| <= 0.05 min(l1, l2) (the range where _relative_log_difference selects it) the
   series truncated after r^9 is within 1e-16 RELATIVE of the divided difference of ln (below the binary64 unit roundoff), and never
   above it; hence the branching kernel is accurate to 1e-16 relative for all positive distinct arguments *)
Theorem C12_log_taylor_truncation : forall l1 l2, 0 < l1 -> 0 < l2 -> l1 <> l2 -> Rabs (l1 - l2) <= 5 / 100 * Rmin l1 l2 ->
  Rabs (@_relative_log_difference_taylor R NumR l1 l2 - (ln l1 - ln l2) / (l1 - l2))
  <= 1 / 10000000000000000 * Rabs ((ln l1 - ln l2) / (l1 - l2)).
Proof. exact log_taylor_truncation. Qed.
Theorem C12_log_taylor_one_sided : forall l1 l2, 0 < l1 -> 0 < l2 -> l1 <> l2 -> Rabs (l1 - l2) <= 5 / 100 * Rmin l1 l2 ->
  0 < @_relative_log_difference_taylor R NumR l1 l2 <= (ln l1 - ln l2) / (l1 - l2).
Proof. exact log_taylor_one_sided. Qed.
Theorem C12_relative_log_difference_accuracy : forall l1 l2, 0 < l1 -> 0 < l2 -> l1 <> l2 ->
  Rabs (@_relative_log_difference R NumR l1 l2 - (ln l1 - ln l2) / (l1 - l2))
  <= 1 / 10000000000000000 * Rabs ((ln l1 - ln l2) / (l1 - l2)).
Proof. exact relative_log_difference_accuracy. Qed.
(* (c'') round 3 -- the kernels wired into log_symm / pow_symm (argsort by magnitude, log1p / expm1, nearOne and xIsZero selects),
   now GENERATED from the source: both operand orders and both ratio formulas give the divided difference; on coinciding
   arguments the power kernel returns the derivative m x^(m-1).  x^m is exp(m ln x) = Rpower x m (positive arguments). *)
Theorem C12_log_relative_difference_argsort : forall l1 l2, 0 < l1 -> 0 < l2 -> l1 <> l2 ->
  @_log_relative_difference R NumR l1 l2 = (ln l1 - ln l2) / (l1 - l2).
Proof. exact log_relative_difference_argsort_exact. Qed.
Theorem C12_pow_relative_difference_argsort : forall l1 l2 m, 0 < l1 -> 0 < l2 -> l1 <> l2 ->
  @_pow_relative_difference R NumR l1 l2 m = (Rpower l1 m - Rpower l2 m) / (l1 - l2).
Proof. exact pow_relative_difference_argsort_exact. Qed.
Theorem C12_pow_relative_difference_confluent : forall l m, 0 < l -> @_pow_relative_difference R NumR l l m = m * Rpower l (m - 1).
Proof. exact pow_relative_difference_argsort_confluent. Qed.
(* NOT PROVED: negative arguments of _pow_relative_difference (integer powers of indefinite tensors: Rpower is only x^m for x > 0);
   binary64 rounding of the kernels (log1p / expm1 are modelled as ln(1+x) / exp(y)-1 over R; their floating-point advantage is
   only measured: the implementation's values are compared with 60-digit divided differences on every run). *)
Example C12_rd_nonvacuous :
  (0 < 1 /\ 0 < 102 / 100 /\ 1 <> 102 / 100 /\ Rabs (1 - 102 / 100) <= 5 / 100 * Rmin 1 (102 / 100))
  /\ @_relative_log_difference_taylor R NumR 1 (102 / 100) < (ln 1 - ln (102 / 100)) / (1 - 102 / 100)
  /\ @_pow_relative_difference R NumR 2 2 3 = 3 * Rpower 2 (3 - 1)
  /\ (Rabs (@_log_relative_difference R NumR 3 4 - 2876820724517809 / 10000000000000000) <= 1 / 1000000000000000).
Proof. exact rd_nonvacuous. Qed.

(* (e) round 4 -- LinAlg.sqrtm_dbp (Denman-Beavers iteration, product form), hand model of the loop body for 3x3 matrices
   (model/M_C12_DBP.v: scale by g, N = inv(M) with the generated TensorMath.inv, X <- X (I + N) / 2, M <- (I + (M + N) / 2) / 2; tied to
   the routine by a correspondence stream).  For ANY list of scale factors, as long as every scaled M is invertible, the iterates
   started from X0 = M0 = A satisfy X^2 = A M and X M = M X; hence X^2 - A = A (M - I): the loop's exit test |M - I|_F <= tol bounds
   the residual of the returned root by |A| tol, and the fixed point M = I is exactly "X is a square root of A". *)
Theorem C12_dbp_invariant : forall (A : M) (gs : list R) (X Mk : M), mmul X X = mmul A Mk -> mmul X Mk = mmul Mk X ->
  dbp_regular gs (X, Mk) ->
  let XM := dbp_iter gs (X, Mk) in mmul (fst XM) (fst XM) = mmul A (snd XM) /\ mmul (fst XM) (snd XM) = mmul (snd XM) (fst XM).
Proof. exact dbp_invariant. Qed.
Theorem C12_dbp_residual : forall (A : M) (gs : list R), dbp_regular gs (A, A) ->
  let XM := dbp_iter gs (A, A) in
  msub (mmul (fst XM) (fst XM)) A = mmul A (msub (snd XM) mid) /\ (snd XM = mid -> mmul (fst XM) (fst XM) = A).
Proof. exact dbp_residual. Qed.
Example C12_dbp_nonvacuous : let A := mk 4 0 0 0 9 0 0 0 16 in
  dbp_regular [1%R] (A, A) /\ fst (dbp_iter [1%R] (A, A)) = mk (5 / 2) 0 0 0 5 0 0 0 (17 / 2).
Proof. exact dbp_nonvacuous. Qed.
(* (f) round 4 -- LinAlg._logm_iss: the inverse scaling-and-squaring identity.  The loop replaces X by sqrtm(X) k times and the routine
   returns 2^k log_pade_pf(X_k - I).  For ANY function L with the doubling law L(X X) = 2 L(X) on a set containing the iterates (the
   principal logarithm, away from the closed negative axis), L(A) = 2^k L(X_k) along every chain of square roots; instance: ln on the
   positive reals.  The chain hypothesis (X_{i+1}^2 = X_i) is evaluated on the implementation's (X_k, k) on every run. *)
Theorem C12_iss_identity : forall (Mx : Type) (mul : Mx -> Mx -> Mx) (scal : R -> Mx -> Mx) (L : Mx -> Mx) (good : Mx -> Prop),
  (forall X, good X -> L (mul X X) = scal 2 (L X)) -> (forall s t X, scal s (scal t X) = scal (s * t) X) -> (forall X, scal 1 X = X) ->
  forall (Xs : list Mx) (A : Mx), sqrt_chain Mx mul good A Xs -> L A = scal (2 ^ length Xs) (L (last Xs A)).
Proof. exact iss_identity_abstract. Qed.
Theorem C12_iss_identity_scalar : forall (Xs : list R) (a : R),
  sqrt_chain R Rmult (fun x => 0 < x) a Xs -> ln a = 2 ^ length Xs * ln (last Xs a).
Proof. exact iss_identity_scalar. Qed.
Example C12_iss_nonvacuous : sqrt_chain R Rmult (fun x => 0 < x) 16 [4; 2] /\ ln 16 = 2 ^ 2 * ln 2.
Proof. exact iss_nonvacuous. Qed.
(* NOT PROVED: convergence of the Denman-Beavers iteration (M_k -> I; quadratic for matrices without eigenvalues on the closed negative
   axis), that the scaled M_k stay invertible (hypothesis dbp_regular), sizes other than 3x3 (the proofs use only ring laws and the
   two-sided inverse, but are stated over the 3x3 record), the role of the scaling heuristic, binary64 rounding; for _logm_iss: that a
   matrix logarithm with the doubling law exists (no matrix logarithm is defined here), the accuracy of the Pade / Gauss-Legendre
   partial-fraction approximant log_pade_pf and the degree selection (certified per instance through expm(logm A) = A only). *)

(* (d) verified result checkers *)
Local Open Scope Q_scope.
Theorem C12_checker_sound_eig : forall A lam V tol, check_eig A lam V tol = true ->
  Forall2 (Forall2 (entry_close (tol * norm_inf A))) (mmulQ (mmulQ V (diagQ lam)) (transposeQ V)) A
  /\ Forall2 (Forall2 (entry_close tol)) (mmulQ (transposeQ V) V) (identQ (length V))
  /\ (forall i, (S i < length lam)%nat -> nth i lam 0 <= nth (S i) lam 0).
Proof. exact check_eig_sound. Qed.
Theorem C12_checker_sound_prod : forall X Y Z tol, check_prod X Y Z tol = true -> Forall2 (Forall2 (entry_close tol)) (mmulQ X Y) Z.
Proof. exact check_prod_sound. Qed.
Theorem C12_checker_sound_equivariant : forall fQAQ Qm fA tol, check_equivariant fQAQ Qm fA tol = true ->
  Forall2 (Forall2 (entry_close tol)) fQAQ (mmulQ (mmulQ (transposeQ Qm) fA) Qm).
Proof. exact check_equivariant_sound. Qed.
Theorem C12_checker_sound_sqrt_derivative : forall S L D tol, check_sylvester S L D tol = true ->
  Forall2 (Forall2 (entry_close tol)) (maddQ (mmulQ S L) (mmulQ L S)) D.
Proof. exact check_sylvester_sound. Qed.
Theorem C12_checker_sound_inverse_derivative : forall A L D tol, check_inverse_jvp A L D tol = true ->
  Forall2 (Forall2 (entry_close tol)) (mmulQ (mmulQ A L) A) (mscalQ (-1) D).
Proof. exact check_inverse_jvp_sound. Qed.
(* NOT PROVED (partial): "for every symmetric 3x3 tensor the decomposition reconstructs the tensor ..." -- only per explored
   instance through the checkers above; the derivative rules of sqrt/log/exp/pow_symm are compared per instance with the closed-form
   Daleckii-Krein derivative (divided differences in 60-digit arithmetic; the comparison itself runs through check_prod) and with
   central differences of the implementation (tests, not proofs). *)
Example C12_nonvacuous : check_eig [[2; 0; 0]; [0; 3; 0]; [0; 0; 5]] [2; 3; 5] (identQ 3) 0 = true
  /\ check_eig [[2; 1; 0]; [1; 3; 0]; [0; 0; 5]] [2; 3; 5] (identQ 3) (1 # 10) = false.
Proof. split; [exact check_eig_accepts | exact check_eig_rejects]. Qed.

Print Assumptions C12_pade_bound.
Print Assumptions C12_log_taylor_truncation.
Print Assumptions C12_pow_relative_difference_argsort.
Print Assumptions C12_trig_root_error.
Print Assumptions C12_deflation_exact.
Print Assumptions C12_deflation_after_exact_trig_root.
Print Assumptions C12_dbp_residual.
Print Assumptions C12_inv_right.
Print Assumptions C12_sqrt_relative_difference.
Print Assumptions C12_checker_sound_eig.
Print Assumptions C12_polar_identities.
