(* C19 -- property theorems only.  Subjects: the control-flow IR of the four load-step drivers and the slot table of
   Objective.param_index_update, both regenerated from /repo's AST on every run (gen/CFG_drivers.v); abstract statements
   about the warm start and the diagonal change of variables. *)
From Coq Require Import Reals List Bool Arith.
From Coquelicot Require Import Coquelicot.
From OV.base Require Import Num.
From OV.model Require Import M_C06_Vec M_C19_CFG M_C19_Warm M_C19_CG M_C19_Sem.
From OV.gen Require Import CFG_drivers.
From OV.proofs Require Import L_C06_Vec L_C19 L_C19_CG L_C19_Sem L_C19_All.
Import ListNotations.
Local Open Scope R_scope.

(* warm start: if the residual is affine, g(x,p) = H x + B p + c, and the increment solves H dx = B (p_old - p_new) + r
   (r: what the CG solve leaves), then g(x + dx, p_new) = g(x, p_old) + r; exact solve: equilibrium goes to equilibrium *)
Theorem C19_warm_start_linear : forall (V Pm : Type) (vadd : V -> V -> V) (psub padd : Pm -> Pm -> Pm),
  (forall a b c, vadd a (vadd b c) = vadd (vadd a b) c) -> (forall a b, vadd a b = vadd b a) ->
  (forall p q, padd (psub p q) q = p) ->
  forall (H : V -> V) (B : Pm -> V) (c : V),
  (forall a b, H (vadd a b) = vadd (H a) (H b)) -> (forall p q, B (padd p q) = vadd (B p) (B q)) ->
  forall x p_old p_new dx r,
  H dx = vadd (B (psub p_old p_new)) r ->
  g V Pm vadd H B c (vadd x dx) p_new = vadd (g V Pm vadd H B c x p_old) r.
Proof. exact warm_start_linear. Qed.

Theorem C19_warm_start_lands_on_solution : forall (V Pm : Type) (vadd : V -> V -> V) (psub padd : Pm -> Pm -> Pm),
  (forall a b c, vadd a (vadd b c) = vadd (vadd a b) c) -> (forall a b, vadd a b = vadd b a) ->
  (forall p q, padd (psub p q) q = p) ->
  forall (H : V -> V) (B : Pm -> V) (c : V),
  (forall a b, H (vadd a b) = vadd (H a) (H b)) -> (forall p q, B (padd p q) = vadd (B p) (B q)) ->
  forall (zero : V) x p_old p_new dx, (forall a, vadd a zero = a) ->
  g V Pm vadd H B c x p_old = zero -> H dx = vadd (B (psub p_old p_new)) zero ->
  g V Pm vadd H B c (vadd x dx) p_new = zero.
Proof. exact warm_start_lands_on_solution. Qed.

(* CG tolerance clause: the linear solve stops at |H dx - b| <= rtol |b|, b = B (p_old - p_new) (scipy cg, atol = 0).  Then
   |g(x+dx, p_new)| <= |g(x, p_old)| + rtol |b|, and from an equilibrium of the old parameters |g(x+dx, p_new)| <= rtol |b|.
   (nrm: any function satisfying the triangle inequality.) *)
Theorem C19_warm_start_cg_bound : forall (V Pm : Type) (vadd : V -> V -> V) (psub padd : Pm -> Pm -> Pm),
  (forall a b c, vadd a (vadd b c) = vadd (vadd a b) c) -> (forall a b, vadd a b = vadd b a) ->
  (forall p q, padd (psub p q) q = p) ->
  forall (H : V -> V) (B : Pm -> V) (c : V),
  (forall a b, H (vadd a b) = vadd (H a) (H b)) -> (forall p q, B (padd p q) = vadd (B p) (B q)) ->
  forall (nrm : V -> R), (forall a b, nrm (vadd a b) <= nrm a + nrm b) ->
  forall x p_old p_new dx r rtol,
  H dx = vadd (B (psub p_old p_new)) r -> nrm r <= rtol * nrm (B (psub p_old p_new)) ->
  nrm (g V Pm vadd H B c (vadd x dx) p_new) <= nrm (g V Pm vadd H B c x p_old) + rtol * nrm (B (psub p_old p_new)).
Proof. exact warm_start_cg_bound. Qed.

Theorem C19_warm_start_cg_bound_equilibrium : forall (V Pm : Type) (vadd : V -> V -> V) (psub padd : Pm -> Pm -> Pm),
  (forall a b c, vadd a (vadd b c) = vadd (vadd a b) c) -> (forall a b, vadd a b = vadd b a) ->
  (forall p q, padd (psub p q) q = p) ->
  forall (H : V -> V) (B : Pm -> V) (c : V),
  (forall a b, H (vadd a b) = vadd (H a) (H b)) -> (forall p q, B (padd p q) = vadd (B p) (B q)) ->
  forall (nrm : V -> R),
  forall (zero : V) x p_old p_new dx r rtol, (forall a, vadd a zero = a) ->
  g V Pm vadd H B c x p_old = zero ->
  H dx = vadd (B (psub p_old p_new)) r -> nrm r <= rtol * nrm (B (psub p_old p_new)) ->
  nrm (g V Pm vadd H B c (vadd x dx) p_new) <= rtol * nrm (B (psub p_old p_new)).
Proof. exact warm_start_cg_bound_equilibrium. Qed.

(* ---- round 4: the linear solve of WarmStart.warm_start_increment inside the model (model/M_C19_CG.v: scipy.sparse.linalg.cg as
   called there -- x0 = 0, atol = 0, maxiter = 10 n, test `norm(r) < max(atol, rtol |b|)` at the head of every pass, info NOT
   looked at by warm_start_increment).  Vectors are lists of reals of length n (`len n v`), a ⋅ b the dot product, nrm the Euclidean
   norm.  For a Hessian oracle that is linear, symmetric and positive definite and a preconditioner that is symmetric and positive
   definite (nothing else is assumed about either), for EVERY right-hand side: the routine flags convergence after at most n passes
   (conjugate directions are independent: at most n of them) and the returned increment satisfies the residual bound -- so the
   unchecked info flag is harmless in exact arithmetic; in binary64 the bound is checked on every warm start of the streams. *)
Theorem C19_scipy_cg_solves : forall (n : nat) (Hf Pf : list R -> list R),
  (forall v, len n v -> len n (Hf v)) -> (forall v, len n v -> len n (Pf v)) ->
  (forall a k b, len n a -> len n b -> Hf (raxpy a k b) = raxpy (Hf a) k (Hf b)) ->
  (forall a b, len n a -> len n b -> a ⋅ Hf b = Hf a ⋅ b) -> (forall v, len n v -> 0 < v ⋅ v -> 0 < v ⋅ Hf v) ->
  (forall a b, len n a -> len n b -> a ⋅ Pf b = Pf a ⋅ b) -> (forall v, len n v -> 0 < v ⋅ v -> 0 < v ⋅ Pf v) ->
  forall b maxiter rtol, len n b -> 0 < rtol -> (n < maxiter)%nat ->
  let '(x, ok, k) := @scipy_cg R NumR Hf Pf b maxiter rtol 0 in
  len n x /\ ok = true /\ (k <= n)%nat /\ nrm (rsub b (Hf x)) <= rtol * nrm b.
Proof. exact scipy_cg_solves. Qed.

(* warm_start_increment: dp = p_old - p_new, b = B dp (B = objective.jacobian_p_vec(x, .), any function into R^n), dx = cg(...) *)
Theorem C19_warm_start_increment_solves : forall (n : nat) (Hf Pf : list R -> list R),
  (forall v, len n v -> len n (Hf v)) -> (forall v, len n v -> len n (Pf v)) ->
  (forall a k b, len n a -> len n b -> Hf (raxpy a k b) = raxpy (Hf a) k (Hf b)) ->
  (forall a b, len n a -> len n b -> a ⋅ Hf b = Hf a ⋅ b) -> (forall v, len n v -> 0 < v ⋅ v -> 0 < v ⋅ Hf v) ->
  (forall a b, len n a -> len n b -> a ⋅ Pf b = Pf a ⋅ b) -> (forall v, len n v -> 0 < v ⋅ v -> 0 < v ⋅ Pf v) ->
  forall (m : nat) (Bf : list R -> list R), (forall q, len m q -> len n (Bf q)) ->
  forall p_old p_new rtol, len m p_old -> len m p_new -> 0 < rtol ->
  let bb := Bf (rsub p_old p_new) in
  let '(dx, ok, k) := @warm_start_increment R NumR Hf Pf Bf p_old p_new rtol in
  len n dx /\ ok = true /\ (k <= n)%nat /\ nrm (rsub bb (Hf dx)) <= rtol * nrm bb.
Proof. exact warm_start_increment_solves. Qed.

(* ... and for a residual affine in (x, p), g(x, p) = H x + B p + c, the point predicted by the MODELLED routine satisfies the
   bound that C19_warm_start_cg_bound states for an abstract solve: no hypothesis about the linear solve is left *)
Theorem C19_warm_start_increment_residual_bound : forall (n : nat) (Hf Pf : list R -> list R),
  (forall v, len n v -> len n (Hf v)) -> (forall v, len n v -> len n (Pf v)) ->
  (forall a k b, len n a -> len n b -> Hf (raxpy a k b) = raxpy (Hf a) k (Hf b)) ->
  (forall a b, len n a -> len n b -> a ⋅ Hf b = Hf a ⋅ b) -> (forall v, len n v -> 0 < v ⋅ v -> 0 < v ⋅ Hf v) ->
  (forall a b, len n a -> len n b -> a ⋅ Pf b = Pf a ⋅ b) -> (forall v, len n v -> 0 < v ⋅ v -> 0 < v ⋅ Pf v) ->
  forall (m : nat) (Bf : list R -> list R), (forall q, len m q -> len n (Bf q)) ->
  forall c, len n c -> (forall p q w, len m p -> len m q -> len n w -> Bf (rsub p q) ⋅ w = Bf p ⋅ w - Bf q ⋅ w) ->
  forall x p_old p_new rtol, len n x -> len m p_old -> len m p_new -> 0 < rtol ->
  let dx := fst (fst (@warm_start_increment R NumR Hf Pf Bf p_old p_new rtol)) in
  nrm (gaff Hf Bf c (radd x dx) p_new) <= nrm (gaff Hf Bf c x p_old) + rtol * nrm (Bf (rsub p_old p_new)).
Proof. exact warm_start_increment_residual_bound. Qed.

Example C19_warm_start_increment_nonvacuous :
  let '(dx, ok, k) := @warm_start_increment R NumR (rscale 2) (fun v => v) (fun v => v) [1; 0] [0; 0] (/ 100000) in
  len 2 dx /\ ok = true /\ (k <= 2)%nat /\ nrm (rsub (rsub [1; 0] [0; 0]) (rscale 2 dx)) <= / 100000 * nrm (rsub [1; 0] [0; 0]).
Proof. exact warm_start_increment_nonvacuous. Qed.
(* NOT PROVED: binary64 behaviour of the CG recurrence (loss of conjugacy; the n-pass bound does not hold in floating point, scipy's
   10 n cap and the unchecked info flag are then the only guard -- measured on every warm start of the streams); that jax.jvp /
   objective.hessian_vec deliver a linear symmetric positive definite operator (JAX; symmetry and definiteness are the property's
   premise "positive-definite Hessian at the current solution"); a non-affine residual (the increment is then the linear predictor by
   definition, C19_warm_start_increment_solves says it solves the linearised system). *)

(* scaling: xBar = d * x with d_j <> 0 (d = sqrt(diag K) > 0 in the code) *)
Theorem C19_scaling_minimisers : forall (f : M_C19_Warm.rvec -> R) d xb, (forall j, d j <> 0) ->
  (forall yb, scaled f d xb <= scaled f d yb) <-> (forall y, f (unscale d xb) <= f y).
Proof. exact scaling_minimisers. Qed.

Theorem C19_scaling_stationary : forall (f : M_C19_Warm.rvec -> R) d xb (gr : nat -> R), (forall j, d j <> 0) ->
  (forall i, is_derive (fun s => f (upd (unscale d xb) i s)) 0 (gr i)) ->
  (forall i, is_derive (fun t => scaled f d (upd xb i t)) 0 (gr i / d i))
  /\ ((forall i, gr i / d i = 0) <-> (forall i, gr i = 0)).
Proof. exact scaling_stationary. Qed.

(* driver order, by computation over ALL paths of the regenerated IR (conditions independent, loops 0/1/2 passes):
   the warm start (if any) is computed before objective.p is assigned; objective.p := p_new happens exactly once and before
   the solver call; nothing else stores to .p; the returned point is the solver's (times invScaling where the driver works in
   scaled variables); the returned flag, where there is one, is the solver's *)
Theorem C19_driver_order :
  driver_ok exp_flag_unscaled cfg_nonlinear_equation_solve = true
  /\ driver_ok exp_flag_unscaled cfg_spg_solve = true
  /\ driver_ok exp_noflag_unscaled cfg_bound_constrained_solve = true
  /\ driver_ok exp_noflag_raw cfg_augmented_lagrange_solve = true.
Proof. exact drivers_ok. Qed.

(* ... and what driver_ok says about each path *)
Theorem C19_path_ok_meaning : forall e ts en, path_ok e (ts, en) = true ->
  exists a b, ts = a ++ AssignPNew :: b
    /\ existsb is_assignp a = false /\ existsb is_assignp b = false
    /\ existsb is_ws b = false
    /\ existsb is_solve a = false
    /\ existsb is_bad ts = false
    /\ match en with
       | EndRet x u fl => x = true /\ u = returns_unscaled e /\ existsb is_solve b = true
                          /\ (if returns_flag e then fl = FlagSolver else fl = FlagNone)
       | EndRaise => True | _ => False end.
Proof. exact path_ok_sound. Qed.

(* ---- round 4: the order property for EVERY execution.  model/M_C19_Sem.v gives the IR a big-step non-deterministic semantics
   (execs l ts o: every condition may go either way, a loop may make ANY number of passes, ts = every tag executed, o = how the body
   was left) and a static checker sa_ok (sets of states of a five-state automaton pushed through the tree, loop invariants checked to
   be fixed points).  The checker is sound for every IR value -- a proof about the semantics, not an enumeration -- and the four
   regenerated trees pass it.  This removes the bound "loops 0/1/2 passes, fuel" of C19_driver_order from the trusted base; the
   failure exits are covered: every execution ends in a return or a raise, and on BOTH objective.p := p_new has happened exactly once
   and before every solver call (C19_path_ok_meaning spells path_ok out). *)
Theorem C19_static_checker_sound : forall e l, sa_ok e l = true -> forall ts o, execs l ts o ->
  ((exists x u f, o = ORet x u f) \/ o = ORaise) /\ path_ok e (ts, ending_of o) = true.
Proof. exact sa_sound. Qed.

Theorem C19_driver_order_every_execution :
  (forall ts o, execs cfg_nonlinear_equation_solve ts o ->
     ((exists x u f, o = ORet x u f) \/ o = ORaise) /\ path_ok exp_flag_unscaled (ts, ending_of o) = true)
  /\ (forall ts o, execs cfg_spg_solve ts o ->
     ((exists x u f, o = ORet x u f) \/ o = ORaise) /\ path_ok exp_flag_unscaled (ts, ending_of o) = true)
  /\ (forall ts o, execs cfg_bound_constrained_solve ts o ->
     ((exists x u f, o = ORet x u f) \/ o = ORaise) /\ path_ok exp_noflag_unscaled (ts, ending_of o) = true)
  /\ (forall ts o, execs cfg_augmented_lagrange_solve ts o ->
     ((exists x u f, o = ORet x u f) \/ o = ORaise) /\ path_ok exp_noflag_raw (ts, ending_of o) = true).
Proof. exact drivers_every_execution. Qed.

Example C19_exec_nonvacuous :
  execs demo_tree ([AssignPNew] ++ [SubSolve] ++ ([SubSolve] ++ [SubSolve] ++ [SubSolve] ++ []) ++ []) (ORet true false FlagNone)
  /\ sa_ok exp_noflag_raw demo_tree = true.
Proof. exact exec_nonvacuous. Qed.
(* NOT PROVED here: the value-level statement "flag = true implies |grad f(x, p_new)| < tol" for the interpreted tree of
   nonlinear_equation_solve is C01_driver_success_means_small_gradient_under_requested_parameters (props/P_C01.v, all paths of the
   interpreter of gen/CFG_TR.v); for TrustRegionSPG.solve, bound_constrained_solve and augmented_lagrange_solve only the order
   property above is proved (their solvers' flags are the subject of C05 / C04), the value-level clause is checked on the running
   drivers by the streams.  Exceptions raised inside callees are not modelled. *)

(* slot laws of Objective.param_index_update (table regenerated from the source) *)
Theorem C19_slot_laws : forall (A : Type) (a0 a1 a2 a3 a4 a5 v d : A) i j, (i < 6)%nat -> (j < 6)%nat ->
  option_map (fun l => nth j l d) (piu_apply piu_rows [a0; a1; a2; a3; a4; a5] i v d)
  = Some (if Nat.eqb i j then v else nth j [a0; a1; a2; a3; a4; a5] d).
Proof. exact piu_slot_law. Qed.
Theorem C19_slot_length : forall (A : Type) (p : list A) i v d, (i < 6)%nat ->
  option_map (@List.length A) (piu_apply piu_rows p i v d) = Some params_nfields.
Proof. exact piu_length. Qed.
Theorem C19_slot_out_of_range : forall (A : Type) (p : list A) i v d, (6 <= i)%nat -> piu_apply piu_rows p i v d = None.
Proof. exact piu_out_of_range. Qed.

Example C19_nonvacuous :
  forall h b c x po pn dx : R, h * dx = b * (po - pn) + 0 -> (h * (x + dx) + b * pn) + c = ((h * x + b * po) + c) + 0.
Proof. exact warm_start_nonvacuous. Qed.

Print Assumptions C19_warm_start_linear.
Print Assumptions C19_warm_start_cg_bound_equilibrium.
Print Assumptions C19_scaling_stationary.
Print Assumptions C19_driver_order.
Print Assumptions C19_slot_laws.
Print Assumptions C19_warm_start_increment_residual_bound.
Print Assumptions C19_driver_order_every_execution.
