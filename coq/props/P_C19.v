(* C19 -- property theorems only.  Subjects: the control-flow IR of the four load-step drivers and the slot table of
   Objective.param_index_update, both regenerated from /repo's AST on every run (gen/CFG_drivers.v); abstract statements
   about the warm start and the diagonal change of variables. *)
From Coq Require Import Reals List Bool Arith.
From Coquelicot Require Import Coquelicot.
From OV.model Require Import M_C19_CFG M_C19_Warm.
From OV.gen Require Import CFG_drivers.
From OV.proofs Require Import L_C19.
Import ListNotations.
Local Open Scope R_scope.

(* warm start: if the residual is affine, g(x,p) = H x + B p + c, and the increment solves H dx = B (p_old - p_new) + r
   (r: what the CG solve leaves), then g(x + dx, p_new) = g(x, p_old) + r; exact solve: equilibrium goes to equilibrium *)
Theorem C19_warm_start_linear : forall (V Pm : Type) (vadd : V -> V -> V) (psub padd : Pm -> Pm -> Pm),
  (forall a b c, vadd a (vadd b c) = vadd (vadd a b) c) -> (forall a b, vadd a b = vadd b a) ->
  (forall p q, padd (psub p q) q = p) ->
  forall (H : V -> V) (B : Pm -> V) (c : V),
  (forall a b, H (vadd a b) = vadd (H a) (H b)) -> (forall p q, B (padd p q) = vadd (B p) (B q)) ->
  forall x p_old p_new dx r,
  H dx = vadd (B (psub p_old p_new)) r ->
  g V Pm vadd H B c (vadd x dx) p_new = vadd (g V Pm vadd H B c x p_old) r.
Proof. exact warm_start_linear. Qed.

Theorem C19_warm_start_lands_on_solution : forall (V Pm : Type) (vadd : V -> V -> V) (psub padd : Pm -> Pm -> Pm),
  (forall a b c, vadd a (vadd b c) = vadd (vadd a b) c) -> (forall a b, vadd a b = vadd b a) ->
  (forall p q, padd (psub p q) q = p) ->
  forall (H : V -> V) (B : Pm -> V) (c : V),
  (forall a b, H (vadd a b) = vadd (H a) (H b)) -> (forall p q, B (padd p q) = vadd (B p) (B q)) ->
  forall (zero : V) x p_old p_new dx, (forall a, vadd a zero = a) ->
  g V Pm vadd H B c x p_old = zero -> H dx = vadd (B (psub p_old p_new)) zero ->
  g V Pm vadd H B c (vadd x dx) p_new = zero.
Proof. exact warm_start_lands_on_solution. Qed.

(* CG tolerance clause: the linear solve stops at |H dx - b| <= rtol |b|, b = B (p_old - p_new) (scipy cg, atol = 0).  Then
   |g(x+dx, p_new)| <= |g(x, p_old)| + rtol |b|, and from an equilibrium of the old parameters |g(x+dx, p_new)| <= rtol |b|.
   (nrm: any function satisfying the triangle inequality.) *)
Theorem C19_warm_start_cg_bound : forall (V Pm : Type) (vadd : V -> V -> V) (psub padd : Pm -> Pm -> Pm),
  (forall a b c, vadd a (vadd b c) = vadd (vadd a b) c) -> (forall a b, vadd a b = vadd b a) ->
  (forall p q, padd (psub p q) q = p) ->
  forall (H : V -> V) (B : Pm -> V) (c : V),
  (forall a b, H (vadd a b) = vadd (H a) (H b)) -> (forall p q, B (padd p q) = vadd (B p) (B q)) ->
  forall (nrm : V -> R), (forall a b, nrm (vadd a b) <= nrm a + nrm b) ->
  forall x p_old p_new dx r rtol,
  H dx = vadd (B (psub p_old p_new)) r -> nrm r <= rtol * nrm (B (psub p_old p_new)) ->
  nrm (g V Pm vadd H B c (vadd x dx) p_new) <= nrm (g V Pm vadd H B c x p_old) + rtol * nrm (B (psub p_old p_new)).
Proof. exact warm_start_cg_bound. Qed.

Theorem C19_warm_start_cg_bound_equilibrium : forall (V Pm : Type) (vadd : V -> V -> V) (psub padd : Pm -> Pm -> Pm),
  (forall a b c, vadd a (vadd b c) = vadd (vadd a b) c) -> (forall a b, vadd a b = vadd b a) ->
  (forall p q, padd (psub p q) q = p) ->
  forall (H : V -> V) (B : Pm -> V) (c : V),
  (forall a b, H (vadd a b) = vadd (H a) (H b)) -> (forall p q, B (padd p q) = vadd (B p) (B q)) ->
  forall (nrm : V -> R),
  forall (zero : V) x p_old p_new dx r rtol, (forall a, vadd a zero = a) ->
  g V Pm vadd H B c x p_old = zero ->
  H dx = vadd (B (psub p_old p_new)) r -> nrm r <= rtol * nrm (B (psub p_old p_new)) ->
  nrm (g V Pm vadd H B c (vadd x dx) p_new) <= rtol * nrm (B (psub p_old p_new)).
Proof. exact warm_start_cg_bound_equilibrium. Qed.

(* scaling: xBar = d * x with d_j <> 0 (d = sqrt(diag K) > 0 in the code) *)
Theorem C19_scaling_minimisers : forall (f : rvec -> R) d xb, (forall j, d j <> 0) ->
  (forall yb, scaled f d xb <= scaled f d yb) <-> (forall y, f (unscale d xb) <= f y).
Proof. exact scaling_minimisers. Qed.

Theorem C19_scaling_stationary : forall (f : rvec -> R) d xb (gr : nat -> R), (forall j, d j <> 0) ->
  (forall i, is_derive (fun s => f (upd (unscale d xb) i s)) 0 (gr i)) ->
  (forall i, is_derive (fun t => scaled f d (upd xb i t)) 0 (gr i / d i))
  /\ ((forall i, gr i / d i = 0) <-> (forall i, gr i = 0)).
Proof. exact scaling_stationary. Qed.

(* driver order, by computation over ALL paths of the regenerated IR (conditions independent, loops 0/1/2 passes):
   the warm start (if any) is computed before objective.p is assigned; objective.p := p_new happens exactly once and before
   the solver call; nothing else stores to .p; the returned point is the solver's (times invScaling where the driver works in
   scaled variables); the returned flag, where there is one, is the solver's *)
Theorem C19_driver_order :
  driver_ok exp_flag_unscaled cfg_nonlinear_equation_solve = true
  /\ driver_ok exp_flag_unscaled cfg_spg_solve = true
  /\ driver_ok exp_noflag_unscaled cfg_bound_constrained_solve = true
  /\ driver_ok exp_noflag_raw cfg_augmented_lagrange_solve = true.
Proof. exact drivers_ok. Qed.

(* ... and what driver_ok says about each path *)
Theorem C19_path_ok_meaning : forall e ts en, path_ok e (ts, en) = true ->
  exists a b, ts = a ++ AssignPNew :: b
    /\ existsb is_assignp a = false /\ existsb is_assignp b = false
    /\ existsb is_ws b = false
    /\ existsb is_solve a = false
    /\ existsb is_bad ts = false
    /\ match en with
       | EndRet x u fl => x = true /\ u = returns_unscaled e /\ existsb is_solve b = true
                          /\ (if returns_flag e then fl = FlagSolver else fl = FlagNone)
       | EndRaise => True | _ => False end.
Proof. exact path_ok_sound. Qed.

(* slot laws of Objective.param_index_update (table regenerated from the source) *)
Theorem C19_slot_laws : forall (A : Type) (a0 a1 a2 a3 a4 a5 v d : A) i j, (i < 6)%nat -> (j < 6)%nat ->
  option_map (fun l => nth j l d) (piu_apply piu_rows [a0; a1; a2; a3; a4; a5] i v d)
  = Some (if Nat.eqb i j then v else nth j [a0; a1; a2; a3; a4; a5] d).
Proof. exact piu_slot_law. Qed.
Theorem C19_slot_length : forall (A : Type) (p : list A) i v d, (i < 6)%nat ->
  option_map (@List.length A) (piu_apply piu_rows p i v d) = Some params_nfields.
Proof. exact piu_length. Qed.
Theorem C19_slot_out_of_range : forall (A : Type) (p : list A) i v d, (6 <= i)%nat -> piu_apply piu_rows p i v d = None.
Proof. exact piu_out_of_range. Qed.

Example C19_nonvacuous :
  forall h b c x po pn dx : R, h * dx = b * (po - pn) + 0 -> (h * (x + dx) + b * pn) + c = ((h * x + b * po) + c) + 0.
Proof. exact warm_start_nonvacuous. Qed.

Print Assumptions C19_warm_start_linear.
Print Assumptions C19_warm_start_cg_bound_equilibrium.
Print Assumptions C19_scaling_stationary.
Print Assumptions C19_driver_order.
Print Assumptions C19_slot_laws.
