(* C10 -- property theorems only.  What optimism ADDS to JAX's differentiation is the subject: the custom_root tangent solve,
   the stationarity (envelope) argument that makes the stress a partial derivative, the safe_sqrt rule, the relative-difference
   kernels of the spectral tensor functions and the helper that assembles them.  Generated kernels (OV.gen) are re-translated
   from /repo on every run; the hand models of M_C10.v are tied by correspondence.  That JAX differentiates the remaining
   primitives correctly is NOT proved; it is compared with finite differences of the energy on every run (tools/props/c10.py). *)
From Coq Require Import Reals List.
From Coquelicot Require Import Coquelicot.
From OV.base Require Import Num.
From OV.gen Require Import Gen_Math Gen_TensorMathFun Gen_TensorMathAD Gen_TensorMathJVP.
From OV.model Require Import M_C10 M_C10_Dual.
From OV.proofs Require Import L_C10 L_C10_DK L_C10_End L_C10_DKV L_C10_Gen L_C10_Inv L_C10_DKF L_C10_F14.
Local Open Scope R_scope.

(* (1) custom_root's tangent solve `lambda g, y: y / g(1.0)` inverts every linear map t |-> a t, a <> 0; together with the scalar
   implicit-function theorem this is the derivative of the root w.r.t. a parameter (the same facts are proved in C17) *)
Theorem C10_tangent_solve : forall a y : R, a <> 0 -> let g := fun t : R => a * t in g (y / g 1) = y.
Proof. exact tangent_solve. Qed.
Theorem C10_scalar_ift : forall (F : R -> R -> R) (x : R -> R) (p0 a b dx : R),
  locally p0 (fun p => F (x p) p = 0) ->
  filterdiff (fun xp : R * R => F (fst xp) (snd xp)) (locally (x p0, p0)) (fun h => a * fst h + b * snd h) ->
  is_derive x p0 dx -> a <> 0 ->
  dx = (- b) / a /\ (fun t : R => a * t) ((- b) / (fun t : R => a * t) 1) = - b.
Proof. exact scalar_ift_with_tangent_solve. Qed.

(* (1') the derivative theorem has NO hypothesis that the root is interior to the bracket find_root is given (the bracket and the initial
   guess only steer rtsafe_; they do not occur in C10_scalar_ift).  Stated explicitly for a root ON AN END of the bracket -- rate-independent
   perfect plasticity, where the root of the consistency residual is the upper end ub = eqpsOld + (trialMises - Y)/(3 mu) and rtsafe_ returns
   it without iterating: the derivative of the root is still -b/a; it is not zero when the residual depends on the parameter; and it equals
   the derivative of the end-point expression whenever the root stays on that end for nearby parameters.  (The only hypothesis that can fail
   at an end is differentiability of the residual there: the power-law rate term has an infinite slope at the LOWER end eqps = eqpsOld,
   where an actively yielding step never has its root.) *)
Theorem C10_scalar_ift_at_bracket_end : forall (F : R -> R -> R) (x lb ub : R -> R) (p0 a b dx : R),
  locally p0 (fun p => F (x p) p = 0) ->
  filterdiff (fun xp : R * R => F (fst xp) (snd xp)) (locally (x p0, p0)) (fun h => a * fst h + b * snd h) ->
  is_derive x p0 dx -> a <> 0 ->
  (x p0 = lb p0 \/ x p0 = ub p0) ->
  dx = (- b) / a
  /\ (b <> 0 -> dx <> 0)
  /\ (forall (e : R -> R) (de : R), (e = lb \/ e = ub) -> locally p0 (fun p => x p = e p) -> is_derive e p0 de -> de = (- b) / a).
Proof. exact scalar_ift_at_bracket_end. Qed.
Example C10_bracket_end_nonvacuous :
  exists (F : R -> R -> R) (x lb ub : R -> R) (p0 a b dx : R),
    locally p0 (fun p => F (x p) p = 0)
    /\ filterdiff (fun xp : R * R => F (fst xp) (snd xp)) (locally (x p0, p0)) (fun h => a * fst h + b * snd h)
    /\ is_derive x p0 dx /\ a <> 0 /\ x p0 = ub p0 /\ lb p0 < ub p0 /\ b <> 0
    /\ locally p0 (fun p => x p = ub p) /\ is_derive ub p0 dx.
Proof. exact bracket_end_nonvacuous. Qed.

(* (2) envelope theorem: the energy W(x) = phi(x, y(x)) has derivative d_x phi when the internal variable is stationary for phi
   (yielding / relaxing: b = 0) or frozen (elastic: y' = 0) -- on either side of the yield switch *)
Theorem C10_total_derivative : forall (phi : R -> R -> R) (y : R -> R) (x0 a b dy : R),
  filterdiff (fun xy : R * R => phi (fst xy) (snd xy)) (locally (x0, y x0)) (fun h => a * fst h + b * snd h) ->
  is_derive y x0 dy -> is_derive (fun x => phi x (y x)) x0 (a + b * dy).
Proof. exact total_derivative. Qed.
Theorem C10_envelope : forall (phi : R -> R -> R) (y : R -> R) (x0 a b dy : R),
  filterdiff (fun xy : R * R => phi (fst xy) (snd xy)) (locally (x0, y x0)) (fun h => a * fst h + b * snd h) ->
  is_derive y x0 dy -> (b = 0 \/ dy = 0) -> is_derive (fun x => phi x (y x)) x0 a.
Proof. exact envelope. Qed.

(* (4) safe_sqrt: primal sqrt x; tangent v * 0.5/sqrt x for x > 0, which is v times the derivative of sqrt; tangent 0 for x <= 0 *)
Theorem C10_safe_sqrt_rule : forall x v : R,
  fst (@safe_sqrt_jvp R NumR x v) = sqrt x
  /\ (0 < x -> snd (@safe_sqrt_jvp R NumR x v) = v * (/ 2 / sqrt x) /\ is_derive sqrt x (/ 2 / sqrt x))
  /\ (x <= 0 -> snd (@safe_sqrt_jvp R NumR x v) = 0).
Proof. exact safe_sqrt_rule. Qed.

(* (3) relative-difference kernels are the divided differences *)
Theorem C10_sqrt_relative_difference : forall l1 l2, 0 < l1 -> 0 < l2 -> l1 <> l2 ->
  @_sqrt_relative_difference R NumR l1 l2 = (sqrt l1 - sqrt l2) / (l1 - l2).
Proof. exact sqrt_rd_exact. Qed.
Theorem C10_exp_relative_difference : forall l1 l2, l1 <> l2 ->
  @_exp_relative_difference R NumR l1 l2 = (exp l1 - exp l2) / (l1 - l2).
Proof. exact exp_rd_exact. Qed.
(* the two kernels wired into log_symm / pow_symm are the REGENERATED ones (Gen_TensorMathFun, re-translated from TensorMath.py on every run) *)
Theorem C10_log_relative_difference : forall l1 l2, 0 < l1 -> 0 < l2 -> l1 <> l2 ->
  @_log_relative_difference R NumR l1 l2 = (ln l1 - ln l2) / (l1 - l2).
Proof. exact log_rd_exact. Qed.
Theorem C10_pow_relative_difference : forall l1 l2 m, 0 < l1 -> 0 < l2 -> l1 <> l2 ->
  @_pow_relative_difference R NumR l1 l2 m = (Rpower l1 m - Rpower l2 m) / (l1 - l2).
Proof. exact pow_rd_exact. Qed.
Theorem C10_pow_relative_difference_confluent : forall l m, 0 < l -> @_pow_relative_difference R NumR l l m = m * Rpower l (m - 1).
Proof. exact pow_rd_confluent. Qed.
(* the reference kernel with the Taylor branch (|l1 - l2| <= 0.05 min): exact on the plain branch, 1e-9 relative on the Taylor one *)
Theorem C10_log_taylor_accuracy : forall l1 l2, 0 < l1 -> 0 < l2 -> l1 <> l2 -> Rabs (l1 - l2) <= 5 / 100 * Rmin l1 l2 ->
  Rabs (@ad_rel_log_taylor R NumR l1 l2 - (ln l1 - ln l2) / (l1 - l2)) <= 1 / 1000000000 * Rabs ((ln l1 - ln l2) / (l1 - l2)).
Proof. exact ad_taylor_accuracy. Qed.
Theorem C10_relative_log_difference_accuracy : forall l1 l2, 0 < l1 -> 0 < l2 -> l1 <> l2 ->
  Rabs (@ad_rel_log R NumR l1 l2 - (ln l1 - ln l2) / (l1 - l2)) <= 1 / 1000000000 * Rabs ((ln l1 - ln l2) / (l1 - l2)).
Proof. exact ad_rel_log_accuracy. Qed.

(* the x2 == x1 guard of the helper returns f'(x1) on coinciding arguments and the kernel otherwise: the guarded entry is the
   first divided difference f[x1, x2] *)
Theorem C10_guard : forall (f df : R -> R) rel x1 x2,
  (forall a b, a <> b -> rel a b = (f a - f b) / (a - b)) ->
  @rd_guard R NumR df rel x1 x2 = if Req_EM_T x1 x2 then df x1 else (f x1 - f x2) / (x1 - x2).
Proof. exact rd_guard_divided_difference. Qed.

(* (5) the JVP helper on a diagonal argument (eigenvector matrix = identity): Hadamard product of the divided-difference matrix
   with the symmetrised direction *)
Theorem C10_helper_diagonal : forall (df : R -> R) rel lam (E : nat -> nat -> R) i j, (i < 3)%nat -> (j < 3)%nat ->
  @jvp_helper R NumR df rel lam mid E i j = @h_matrix R NumR df rel lam i j * ((E i j + E j i) / 2).
Proof. exact helper_diagonal. Qed.

(* Daleckii-Krein, monomial case: for f = x^n the helper applied to A = diag(lam) returns, entry by entry, the derivative at t = 0 of
   (A + t sym(E))^n -- the Frechet derivative of the matrix power in direction sym(E); dd n is the divided difference of x^n *)
Theorem C10_daleckii_krein_monomial : forall n rel lam (E : Rm) i j, (i < 3)%nat -> (j < 3)%nat ->
  (forall a b, a <> b -> rel a b = (a ^ n - b ^ n) / (a - b)) ->
  is_derive (fun t => mpow (line (Dg lam) (fun a b => (E a b + E b a) / 2) t) n i j) 0
            (@jvp_helper R NumR (fun x => INR n * x ^ (n - 1)) rel lam mid E i j).
Proof. exact daleckii_krein_monomial. Qed.
Theorem C10_divided_difference_of_monomial : forall n x y,
  (x <> y -> dd n x y = (x ^ n - y ^ n) / (x - y)) /\ dd n x x = INR n * x ^ (n - 1) /\ dd n x y = dd n y x.
Proof. intros n x y. exact (conj (dd_quotient n x y) (conj (dd_confluent n x) (dd_sym n x y))). Qed.
(* Daleckii-Krein for NON-DIAGONAL arguments under the eigh contract: A = V diag(lam) V^T on the 3x3 block (eq3 A (cj V (Dg lam))) with V
   orthogonal (orth V: V^T V = V V^T = I).  The helper, for ANY V, is the conjugation V (h o (V^T sym(E) V)) V^T of the Hadamard product
   (helper_conjugation: pure algebra); for monomials and for polynomials p = sum_m c_m x^m (coefficient list c, any length) it is the derivative
   at t = 0 of the matrix polynomial of A + t sym(E), entry by entry, whatever kernel `rel` is used as long as it equals the divided difference
   of p off the diagonal (coinciding eigenvalues go through the x2 == x1 guard to p').  The primal V diag(p(lam)) V^T -- what
   symmetric_matrix_function computes from the same eigen-pair -- is that matrix polynomial of A (C10_matrix_polynomial_spectral). *)
Theorem C10_helper_conjugation : forall (df : R -> R) rel lam (V E : Rm) i j,
  @jvp_helper R NumR df rel lam V E i j = cj V (fun k l => @h_matrix R NumR df rel lam k l * cj (tr V) (symd E) k l) i j.
Proof. exact helper_conj. Qed.
Theorem C10_daleckii_krein_monomial_eigh : forall n rel lam (V A E : Rm) i j, (i < 3)%nat -> (j < 3)%nat ->
  orth V -> eq3 A (cj V (Dg lam)) ->
  (forall a b, a <> b -> rel a b = (a ^ n - b ^ n) / (a - b)) ->
  is_derive (fun t => mpow (line A (symd E) t) n i j) 0 (@jvp_helper R NumR (fun x => INR n * x ^ (n - 1)) rel lam V E i j).
Proof. exact daleckii_krein_monomial_eigh. Qed.
Theorem C10_daleckii_krein_polynomial_eigh : forall c rel lam (V A E : Rm) i j, (i < 3)%nat -> (j < 3)%nat ->
  orth V -> eq3 A (cj V (Dg lam)) ->
  (forall a b, a <> b -> rel a b = (peval 0 c a - peval 0 c b) / (a - b)) ->
  is_derive (fun t => mpoly 0 c (line A (symd E) t) i j) 0 (@jvp_helper R NumR (pderiv 0 c) rel lam V E i j).
Proof. exact daleckii_krein_polynomial_eigh. Qed.
Theorem C10_matrix_polynomial_spectral : forall V lam A c, orth V -> eq3 A (cj V (Dg lam)) ->
  forall k, eq3 (mpoly k c A) (cj V (Dg (fun a => peval k c (lam a)))).
Proof. exact mpoly_cj_diag. Qed.
Example C10_dkv_nonvacuous :
  orth Vrot /\ eq3 (cj Vrot (Dg (fun k => INR k + 1))) (cj Vrot (Dg (fun k => INR k + 1)))
  /\ cj Vrot (Dg (fun k => INR k + 1)) 0%nat 1%nat = - (12 / 25)
  /\ peval 0 (1 :: 0 :: 2 :: nil) 3 = 19 /\ pderiv 0 (1 :: 0 :: 2 :: nil) 3 = 12
  /\ pdd 0 (1 :: 0 :: 2 :: nil) 3 5 = (peval 0 (1 :: 0 :: 2 :: nil) 3 - peval 0 (1 :: 0 :: 2 :: nil) 5) / (3 - 5).
Proof. exact dkv_nonvacuous. Qed.
(* ---- round 4 ---- *)
(* (6) the helper as a GENERATED kernel: Gen_TensorMathJVP.jvp_helper_gen is the whole body of _symmetric_matrix_function_jvp_helper,
   re-translated from /repo on every run (func / relative_difference / jax.jacfwd(func) are oracle parameters, eigen_sym33_unit an opaque
   function returning (lam, V)).  Whatever the opaque eigen-solver returns at the primal point, the generated kernel is the hand model applied
   to that pair -- so every theorem above about jvp_helper is a theorem about the regenerated source -- and Daleckii-Krein for polynomials is
   restated over the generated kernel with the eigh contract as a hypothesis on the returned pair. *)
Theorem C10_generated_helper_is_model : forall (eigh : eigh_t) (func dfunc : R -> R) rel (C E : Rm) lam V,
  eigh_returns eigh C lam V -> gen_helper eigh func dfunc rel C E = t9 (@jvp_helper R NumR dfunc rel lam V E).
Proof. exact gen_helper_is_model. Qed.
Theorem C10_daleckii_krein_polynomial_generated : forall (eigh : eigh_t) c func rel lam (V A E : Rm) i j, (i < 3)%nat -> (j < 3)%nat ->
  eigh_returns eigh A lam V -> orth V -> eq3 A (cj V (Dg lam)) ->
  (forall a b, a <> b -> rel a b = (peval 0 c a - peval 0 c b) / (a - b)) ->
  is_derive (fun t => mpoly 0 c (line A (symd E) t) i j) 0 (c9 i j (gen_helper eigh func (pderiv 0 c) rel A E)).
Proof. exact gen_daleckii_krein_polynomial. Qed.
Example C10_generated_nonvacuous :
  let A := cj Vrot (Dg (fun k => INR k + 1)) in
  let eigh : eigh_t := fun _ _ _ _ _ _ _ _ _ => t12 (fun k => INR k + 1) Vrot in
  eigh_returns eigh A (fun k => INR k + 1) Vrot /\ orth Vrot /\ eq3 A (cj Vrot (Dg (fun k => INR k + 1))).
Proof. exact gen_nonvacuous. Qed.

(* (7) the helper's output (and the primal V diag(f(lam)) V^T) does not depend on WHICH eigen-decomposition the eigen-solver returns: for a
   repeated eigenvalue the eigenvectors are determined only up to a rotation of the eigenspace, and the order of the eigenvalues is a
   convention.  For ANY two-argument g: V2 (g(l2) o V2^T S V2) V2^T = V1 (g(l1) o V1^T S V1) V1^T (o = entrywise product). *)
Theorem C10_spectral_hadamard_invariant : forall (g : R -> R -> R) V1 l1 V2 l2 A (S : Rm),
  orth V1 -> orth V2 -> eq3 A (cj V1 (Dg l1)) -> eq3 A (cj V2 (Dg l2)) ->
  eq3 (cj V2 (fun a b => g (l2 a) (l2 b) * cj (tr V2) S a b)) (cj V1 (fun k l => g (l1 k) (l1 l) * cj (tr V1) S k l)).
Proof. exact spectral_hadamard_invariant. Qed.
Theorem C10_helper_eigh_invariant : forall (f df : R -> R) rel V1 l1 V2 l2 (A E : Rm),
  (forall a b, a <> b -> rel a b = (f a - f b) / (a - b)) ->
  orth V1 -> orth V2 -> eq3 A (cj V1 (Dg l1)) -> eq3 A (cj V2 (Dg l2)) ->
  eq3 (@jvp_helper R NumR df rel l2 V2 E) (@jvp_helper R NumR df rel l1 V1 E).
Proof. exact helper_eigh_invariant. Qed.
Theorem C10_primal_eigh_invariant : forall (f : R -> R) V1 l1 V2 l2 A,
  orth V1 -> orth V2 -> eq3 A (cj V1 (Dg l1)) -> eq3 A (cj V2 (Dg l2)) ->
  eq3 (cj V2 (Dg (fun a => f (l2 a)))) (cj V1 (Dg (fun a => f (l1 a)))).
Proof. exact primal_invariant. Qed.
Example C10_invariance_nonvacuous :
  let l := fun k : nat => match k with 2%nat => 5 | _ => 2 end in
  orth I3 /\ orth Vrot /\ eq3 (Dg l) (cj I3 (Dg l)) /\ eq3 (Dg l) (cj Vrot (Dg l)) /\ Vrot 0%nat 1%nat <> I3 0%nat 1%nat.
Proof. exact inv_nonvacuous. Qed.

(* (8) Daleckii-Krein for a GENERAL scalar function given by a derivative hypothesis (is_derive f (lam_k) (df lam_k) at the eigenvalues),
   non-diagonal argument, eigenvalues distinct OR coinciding.  The primal is V diag(f(lam)) V^T exactly as symmetric_matrix_function computes
   it, with ANY eigen-solver `eig` satisfying the eigh contract along the line A + t sym(Cdot) (no regularity of eig is assumed: it may
   permute eigenvalues and rotate eigenspaces erratically from one t to the next); the only analytic hypothesis is that SOME eigen-decomposition
   (lt, Vt) of the line is differentiable at t = 0 (Rellich's theorem -- NOT proved here).  Then, entry by entry, the derivative at t = 0 of the
   primal is what the helper returns for the eigen-pair eig returns at A.  (On a pair of coinciding eigenvalues differentiability of the path
   forces the off-diagonal entry of V^T sym(Cdot) V to vanish for the path's own V(0); for the solver's V the invariance theorem (7) is used.) *)
Theorem C10_daleckii_krein_eigenpath : forall (f df : R -> R) rel lam (V A E : Rm) (Vt : R -> Rm) (lt : R -> nat -> R) (dV : Rm) (dl : nat -> R) i j,
  (i < 3)%nat -> (j < 3)%nat ->
  orth V -> eq3 A (cj V (Dg lam)) ->
  (forall a b, a <> b -> rel a b = (f a - f b) / (a - b)) ->
  locally 0 (fun t => orth (Vt t) /\ eq3 (line A (symd E) t) (cj (Vt t) (Dg (lt t)))) ->
  (forall a k, (a < 3)%nat -> (k < 3)%nat -> is_derive (fun t => Vt t a k) 0 (dV a k)) ->
  (forall k, (k < 3)%nat -> is_derive (fun t => lt t k) 0 (dl k)) ->
  (forall k, (k < 3)%nat -> is_derive f (lt 0 k) (df (lt 0 k))) ->
  is_derive (fun t => cj (Vt t) (Dg (fun k => f (lt t k))) i j) 0 (@jvp_helper R NumR df rel lam V E i j).
Proof. exact daleckii_krein_eigenpath. Qed.
Theorem C10_daleckii_krein_eigh_solver : forall (eig : Rm -> (nat -> R) * Rm) (f df : R -> R) rel (A E : Rm)
    (Vt : R -> Rm) (lt : R -> nat -> R) (dV : Rm) (dl : nat -> R) i j,
  (i < 3)%nat -> (j < 3)%nat ->
  locally 0 (fun t => orth (snd (eig (line A (symd E) t)))
                      /\ eq3 (line A (symd E) t) (cj (snd (eig (line A (symd E) t))) (Dg (fst (eig (line A (symd E) t)))))) ->
  (forall a b, a <> b -> rel a b = (f a - f b) / (a - b)) ->
  locally 0 (fun t => orth (Vt t) /\ eq3 (line A (symd E) t) (cj (Vt t) (Dg (lt t)))) ->
  (forall a k, (a < 3)%nat -> (k < 3)%nat -> is_derive (fun t => Vt t a k) 0 (dV a k)) ->
  (forall k, (k < 3)%nat -> is_derive (fun t => lt t k) 0 (dl k)) ->
  (forall k, (k < 3)%nat -> is_derive f (lt 0 k) (df (lt 0 k))) ->
  is_derive (fun t => cj (snd (eig (line A (symd E) t))) (Dg (fun k => f (fst (eig (line A (symd E) t)) k))) i j) 0
            (@jvp_helper R NumR df rel (fst (eig (line A (symd E) 0))) (snd (eig (line A (symd E) 0))) E i j).
Proof. exact daleckii_krein_eigh_solver. Qed.
(* the same along any differentiable path A(t) with A'(0) = sym(Cdot) *)
Theorem C10_daleckii_krein_path : forall (f df : R -> R) rel lam (V E : Rm) (At Vt : R -> Rm) (lt : R -> nat -> R) (dV : Rm) (dl : nat -> R) i j,
  (i < 3)%nat -> (j < 3)%nat ->
  orth V -> eq3 (At 0) (cj V (Dg lam)) ->
  (forall a b, a <> b -> rel a b = (f a - f b) / (a - b)) ->
  (forall a b, (a < 3)%nat -> (b < 3)%nat -> is_derive (fun t => At t a b) 0 (symd E a b)) ->
  locally 0 (fun t => orth (Vt t) /\ eq3 (At t) (cj (Vt t) (Dg (lt t)))) ->
  (forall a k, (a < 3)%nat -> (k < 3)%nat -> is_derive (fun t => Vt t a k) 0 (dV a k)) ->
  (forall k, (k < 3)%nat -> is_derive (fun t => lt t k) 0 (dl k)) ->
  (forall k, (k < 3)%nat -> is_derive f (lt 0 k) (df (lt 0 k))) ->
  is_derive (fun t => cj (Vt t) (Dg (fun k => f (lt t k))) i j) 0 (@jvp_helper R NumR df rel lam V E i j).
Proof. exact daleckii_krein_path. Qed.
(* non-vacuity: a path whose eigenvectors genuinely rotate (V^T V' <> 0), with f = ln *)
Example C10_eigenpath_nonvacuous :
  (forall t, orth (Vrott t) /\ eq3 (cj (Vrott t) (Dg (lrott t))) (cj (Vrott t) (Dg (lrott t))))
  /\ (forall a k, (a < 3)%nat -> (k < 3)%nat -> is_derive (fun t => Vrott t a k) 0 (dVrot a k))
  /\ (forall k, (k < 3)%nat -> is_derive (fun t => lrott t k) 0 (dlrot k))
  /\ (forall k, (k < 3)%nat -> is_derive ln (lrott 0 k) (/ lrott 0 k))
  /\ s3 (fun a => Vrott 0 a 0%nat * dVrot a 1%nat) = - 1.
Proof. exact dkf_nonvacuous. Qed.

(* (9) finding F14 characterised.  The generated helper evaluated at DUAL numbers (M_C10_Dual: JAX's forward mode over the rule's code --
   selects on values, the opaque eigen-solver returning (value, tangent) pairs) is what jax.jvp of the rule computes.  Exact witness, f = x^2
   (pow_symm(., 2), second derivative E1 E2 + E2 E1), A = diag(1, 1, 2), eigen-pair lam = (1, 1, 2), V = [[0,1,0],[-1,0,0],[0,0,1]]:
   (a) with the eigen-solver tangent JAX produces for the direction e00 (dlam = (1/2, 1/2, 0), dV = 0; replayed on the implementation on
       every run) the rule yields 1 in entry (0,0); the second derivative is 2;
   (b) even with the tangent of an exact eigen-decomposition path of A + s e00 (dlam = (0, 1, 0), dV = 0) the rule yields 0 in entry (0,1)
       for E1 = e01 + e10; the second derivative is 1 (the x2 == x1 branch differentiates df(x1) w.r.t. x1 only). *)
Theorem C10_second_derivative_refuted :
  orth Vw /\ eq3 Aw (cj Vw (Dg lamw))
  /\ (dtan (dc9 0 0 (dual_helper (eighD lamw dlam_jax Vw Z33) sqD dsqD relsqD (dmat Aw e00) (dmat e00 Z33))) = 1
      /\ is_derive (fun s => mm (line Aw e00 s) e00 0%nat 0%nat + mm e00 (line Aw e00 s) 0%nat 0%nat) 0 2)
  /\ ((forall s, orth Vw /\ eq3 (line Aw e00 s) (cj Vw (Dg (fun k => lamw k + s * dlam_ex k))))
      /\ dtan (dc9 0 1 (dual_helper (eighD lamw dlam_ex Vw Z33) sqD dsqD relsqD (dmat Aw e00) (dmat s01 Z33))) = 0
      /\ is_derive (fun s => mm (line Aw e00 s) s01 0%nat 1%nat + mm s01 (line Aw e00 s) 0%nat 1%nat) 0 1).
Proof. exact second_derivative_refuted. Qed.

(* NOT PROVED: existence of an eigen-decomposition of A + t sym(Cdot) that is differentiable at t = 0 (Rellich / the implicit-function
   theorem for simple eigenvalues): it is the hypothesis of (8); Frechet (uniform in the direction) rather than directional derivatives;
   a correct SECOND-order rule (F14 is open; (9) shows the present rule is not one at repeated eigenvalues); that the dual-number
   instance agrees with JAX's forward mode on every primitive (it is tied on the witness of (9) only); correctness of JAX's own
   differentiation of the remaining primitives (compared with finite differences on every run). *)

Example C10_nonvacuous :
  (0 < 1 /\ 0 < 102 / 100 /\ 1 <> 102 / 100 /\ Rabs (1 - 102 / 100) <= 5 / 100 * Rmin 1 (102 / 100))
  /\ (exists (phi : R -> R -> R) (y : R -> R) x0 a b dy,
        filterdiff (fun xy : R * R => phi (fst xy) (snd xy)) (locally (x0, y x0)) (fun h => a * fst h + b * snd h)
        /\ is_derive y x0 dy /\ b = 0 /\ dy <> 0).
Proof. exact c10_nonvacuous. Qed.
Example C10_dk_nonvacuous : dd 3 2 5 = (2 ^ 3 - 5 ^ 3) / (2 - 5) /\ dd 3 2 2 = INR 3 * 2 ^ (3 - 1)
  /\ mpow (Dg (fun i => INR i + 1)) 2 1%nat 1%nat = 4.
Proof. exact dk_nonvacuous. Qed.

Print Assumptions C10_envelope.
Print Assumptions C10_safe_sqrt_rule.
Print Assumptions C10_relative_log_difference_accuracy.
Print Assumptions C10_pow_relative_difference.
Print Assumptions C10_daleckii_krein_polynomial_eigh.
Print Assumptions C10_daleckii_krein_eigh_solver.
Print Assumptions C10_second_derivative_refuted.
