(* C08 -- property theorems only.  Subjects: the kernels regenerated from /repo (OV.gen) at T := R, composed into the
   per-model energies exactly as the material factories do (OV.model.M_C08).  H is the displacement gradient passed to
   compute_energy_density; rotL Q H = Q(I+H)-I is a superposed rigid rotation, rotR Q H = (I+H)Q-I a rotation of the
   reference configuration; `rotation Q` is Q^T Q = Q Q^T = I, det Q = 1; JJ H = det(I+H).
   lss / pw stand for TensorMath.log_sqrt_symm / pow_symm: hypotheses LogSqrtSpec / PowSpec, which are THEOREMS (end of this file) for
   the spectral functions V diag(f(lam)) V^T of model/M_C11s.v (lss_spec) and model/M_C08s.v (pw_spec) over every eigen-solver that
   decomposes every symmetric matrix (solver_ok), in particular for lss_R / pw_R built on the total solver eigh_sym of proofs/L_C11e.v. *)
From Coq Require Import Reals.
From Coquelicot Require Import Coquelicot.
From OV.base Require Import Num.
From OV.model Require Import M_C08 M_C08b M_C11s M_C08s.
From OV.proofs Require Import L_C11s L_C11e L_C11u.
From OV.proofs Require Import L_C08 L_C08b L_C08c L_C08d L_C08e L_C08s L_C08t.
Local Open Scope R_scope.
Notation M := (mat R).

(* ---- invariants ---- *)
Theorem C08_invariants_superposed_rotation : forall Q F : M, rotation Q ->
  mmul (mtr (mmul Q F)) (mmul Q F) = mmul (mtr F) F /\ mdet (mmul Q F) = mdet F /\ mddot (mmul Q F) (mmul Q F) = mddot F F.
Proof. exact rot_invL. Qed.
Theorem C08_invariants_reference_rotation : forall Q F : M, rotation Q ->
  mmul (mtr (mmul F Q)) (mmul F Q) = conj Q (mmul (mtr F) F) /\ mdet (mmul F Q) = mdet F /\ mddot (mmul F Q) (mmul F Q) = mddot F F.
Proof. exact rot_invR. Qed.

(* ---- objectivity and isotropy of every finite-deformation energy ---- *)
Theorem C08_objective_neohookean_coupled : forall p Q H, rotation Q -> E_neo_coupled p (rotL Q H) = E_neo_coupled p H.
Proof. exact neo_coupled_objective. Qed.
Theorem C08_isotropic_neohookean_coupled : forall p Q H, rotation Q -> E_neo_coupled p (rotR Q H) = E_neo_coupled p H.
Proof. exact neo_coupled_isotropic. Qed.
Theorem C08_objective_neohookean_adagio : forall p Q H, rotation Q -> 0 < JJ H -> E_neo_adagio p (rotL Q H) = E_neo_adagio p H.
Proof. exact neo_adagio_objective. Qed.
Theorem C08_isotropic_neohookean_adagio : forall p Q H, rotation Q -> 0 < JJ H -> E_neo_adagio p (rotR Q H) = E_neo_adagio p H.
Proof. exact neo_adagio_isotropic. Qed.
Theorem C08_objective_gent : forall p Q H, rotation Q -> 0 < JJ H -> E_gent p (rotL Q H) = E_gent p H.
Proof. exact gent_objective. Qed.
Theorem C08_isotropic_gent : forall p Q H, rotation Q -> 0 < JJ H -> E_gent p (rotR Q H) = E_gent p H.
Proof. exact gent_isotropic. Qed.
Theorem C08_objective_linear_elastic_green_lagrange : forall p Q H, rotation Q -> E_le_gl p (rotL Q H) = E_le_gl p H.
Proof. exact le_gl_objective. Qed.
Theorem C08_isotropic_linear_elastic_green_lagrange : forall p Q H, rotation Q -> E_le_gl p (rotR Q H) = E_le_gl p H.
Proof. exact le_gl_isotropic. Qed.
Theorem C08_objective_linear_elastic_logarithmic : forall lss p Q H, rotation Q -> E_le_log lss p (rotL Q H) = E_le_log lss p H.
Proof. exact le_log_objective. Qed.
Theorem C08_isotropic_linear_elastic_logarithmic : forall lss p Q H, LogSqrtSpec lss -> rotation Q ->
  E_le_log lss p (rotR Q H) = E_le_log lss p H.
Proof. exact le_log_isotropic. Qed.
(* J2 plasticity, logarithmic kinematics, elastic regime: objective for every plastic distortion, isotropic for the virgin one *)
Theorem C08_objective_j2_logarithmic : forall lss p eqps Fp Q H, rotation Q -> mdet Fp <> 0 ->
  E_j2_log lss p eqps Fp (rotL Q H) = E_j2_log lss p eqps Fp H.
Proof. exact j2_log_objective. Qed.
Theorem C08_isotropic_j2_logarithmic_virgin : forall lss p eqps Q H, LogSqrtSpec lss -> rotation Q ->
  E_j2_log lss p eqps mid (rotR Q H) = E_j2_log lss p eqps mid H.
Proof. exact j2_log_isotropic_virgin. Qed.
(* single-branch viscoelastic model: the whole incremental energy (equilibrium + non-equilibrium + dt * dissipation potential) *)
Theorem C08_objective_hyperviscoelastic : forall lss p Fv dt Q H, rotation Q -> 0 < JJ H -> mdet Fv <> 0 -> 0 < dt ->
  (let '(_, _, _, tau) := p in 0 < tau) -> E_hv lss p Fv dt (rotL Q H) = E_hv lss p Fv dt H.
Proof. exact hv_objective. Qed.
Theorem C08_isotropic_hyperviscoelastic_virgin : forall lss p dt Q H, LogSqrtSpec lss -> rotation Q -> 0 < JJ H -> 0 < dt ->
  (let '(_, _, _, tau) := p in 0 < tau) -> E_hv lss p mid dt (rotR Q H) = E_hv lss p mid dt H.
Proof. exact hv_isotropic_virgin. Qed.
Theorem C08_objective_multibranch_equilibrium_partial : forall p Q H, rotation Q -> 0 < JJ H -> E_mb_eq p (rotL Q H) = E_mb_eq p H.
Proof. exact mbeq_objective. Qed.
Theorem C08_isotropic_multibranch_equilibrium_partial : forall p Q H, rotation Q -> 0 < JJ H -> E_mb_eq p (rotR Q H) = E_mb_eq p H.
Proof. exact mbeq_isotropic. Qed.
(* the complete three-branch (Prony) incremental energy E_mb (equilibrium + 3 x (non-equilibrium + dt * dissipation potential)), for
   every admissible viscous state (det Fv_i <> 0), dt > 0 and relaxation times > 0 (mb_taus_pos); lss is arbitrary for objectivity *)
Theorem C08_objective_multibranch : forall lss p Fv1 Fv2 Fv3 dt Q H,
  rotation Q -> 0 < JJ H -> mdet Fv1 <> 0 -> mdet Fv2 <> 0 -> mdet Fv3 <> 0 -> 0 < dt -> mb_taus_pos p ->
  E_mb lss p Fv1 Fv2 Fv3 dt (rotL Q H) = E_mb lss p Fv1 Fv2 Fv3 dt H.
Proof. exact mb_objective. Qed.
(* isotropy: the viscous distortions are reference-configuration tensors and rotate with it (Fv -> Q^T Fv Q); virgin state as a corollary *)
Theorem C08_isotropic_multibranch : forall lss p Fv1 Fv2 Fv3 dt Q H, LogSqrtSpec lss ->
  rotation Q -> 0 < JJ H -> mdet Fv1 <> 0 -> mdet Fv2 <> 0 -> mdet Fv3 <> 0 -> 0 < dt -> mb_taus_pos p ->
  E_mb lss p (conj Q Fv1) (conj Q Fv2) (conj Q Fv3) dt (rotR Q H) = E_mb lss p Fv1 Fv2 Fv3 dt H.
Proof. exact mb_isotropic. Qed.
Theorem C08_isotropic_multibranch_virgin : forall lss p dt Q H, LogSqrtSpec lss -> rotation Q -> 0 < JJ H -> 0 < dt -> mb_taus_pos p ->
  E_mb lss p mid mid mid dt (rotR Q H) = E_mb lss p mid mid mid dt H.
Proof. exact mb_isotropic_virgin. Qed.
(* E_mb3 (model/M_C08b.v) is what the correspondence stream evaluates at binary64: the same function, for every carrier *)
Theorem C08_multibranch_three_call_sites : forall (T : Type) (NT : Num T) (lss : mat T -> mat T) p Fv1 Fv2 Fv3 dt H,
  E_mb lss p Fv1 Fv2 Fv3 dt H = E_mb3 lss lss lss p Fv1 Fv2 Fv3 dt H.
Proof. exact (@E_mb_E_mb3). Qed.
(* isotropy of the other stateful models for EVERY admissible internal state (rotated along with the reference configuration) *)
Theorem C08_isotropic_hyperviscoelastic : forall lss p Fv dt Q H, LogSqrtSpec lss -> rotation Q -> 0 < JJ H -> mdet Fv <> 0 -> 0 < dt ->
  (let '(_, _, _, tau) := p in 0 < tau) -> E_hv lss p (conj Q Fv) dt (rotR Q H) = E_hv lss p Fv dt H.
Proof. exact hv_isotropic. Qed.
Theorem C08_isotropic_j2_logarithmic : forall lss p eqps Fp Q H, LogSqrtSpec lss -> rotation Q -> mdet Fp <> 0 ->
  E_j2_log lss p eqps (conj Q Fp) (rotR Q H) = E_j2_log lss p eqps Fp H.
Proof. exact j2_log_isotropic. Qed.
Theorem C08_isotropic_j2_seth_hill : forall pw p eqps Ep Q H, PowSpec pw -> rotation Q ->
  E_j2_seth_hill pw p eqps (conj Q Ep) (rotR Q H) = E_j2_seth_hill pw p eqps Ep H.
Proof. exact j2_seth_hill_isotropic. Qed.
Theorem C08_objective_phasefield : forall lss p phase g0 g1 g2 Q H, rotation Q ->
  E_pf_log lss p phase g0 g1 g2 (rotL Q H) = E_pf_log lss p phase g0 g1 g2 H.
Proof. exact pf_log_objective. Qed.
Theorem C08_isotropic_phasefield : forall lss p phase g0 g1 g2 Q H, LogSqrtSpec lss -> rotation Q ->
  E_pf_log lss p phase (m00 Q * g0 + m10 Q * g1 + m20 Q * g2) (m01 Q * g0 + m11 Q * g1 + m21 Q * g2)
           (m02 Q * g0 + m12 Q * g1 + m22 Q * g2) (rotR Q H) = E_pf_log lss p phase g0 g1 g2 H.
Proof. exact pf_log_isotropic. Qed.

(* ---- rest state: zero energy for every model and option ---- *)
Theorem C08_rest_linear_elastic_linear : forall p, E_le_linear p mzero = 0. Proof. exact le_linear_rest. Qed.
Theorem C08_rest_linear_elastic_green_lagrange : forall p, E_le_gl p mzero = 0. Proof. exact le_gl_rest. Qed.
Theorem C08_rest_linear_elastic_logarithmic : forall lss p, LogSqrtSpec lss -> E_le_log lss p mzero = 0. Proof. exact le_log_rest. Qed.
Theorem C08_rest_neohookean_coupled : forall p, E_neo_coupled p mzero = 0. Proof. exact neo_coupled_rest. Qed.
Theorem C08_rest_neohookean_adagio : forall p, E_neo_adagio p mzero = 0. Proof. exact neo_adagio_rest. Qed.
Theorem C08_rest_gent : forall p, E_gent p mzero = 0. Proof. exact gent_rest. Qed.
Theorem C08_rest_j2_logarithmic : forall lss p eqps, LogSqrtSpec lss -> E_j2_log lss p eqps mid mzero = 0. Proof. exact j2_log_rest. Qed.
Theorem C08_rest_j2_small : forall p eqps, E_j2_linear p eqps mzero mzero = 0. Proof. exact j2_linear_rest. Qed.
Theorem C08_rest_hyperviscoelastic : forall lss p dt, LogSqrtSpec lss -> 0 < dt -> (let '(_, _, _, tau) := p in 0 < tau) ->
  E_hv lss p mid dt mzero = 0.
Proof. exact hv_rest. Qed.
Theorem C08_rest_multibranch_equilibrium_partial : forall p, E_mb_eq p mzero = 0. Proof. exact mbeq_rest. Qed.
Theorem C08_rest_multibranch : forall lss p dt, LogSqrtSpec lss -> 0 < dt -> mb_taus_pos p -> E_mb lss p mid mid mid dt mzero = 0.
Proof. exact mb_rest. Qed.
Theorem C08_rest_phasefield_logarithmic : forall lss p, LogSqrtSpec lss -> E_pf_log lss p 0 0 0 0 mzero = 0. Proof. exact pf_log_rest. Qed.
Theorem C08_rest_phasefield_linear : forall p, E_pf_linear p 0 0 0 0 mzero = 0. Proof. exact pf_linear_rest. Qed.
(* J2 with 'seth hill' kinematics (strain (C^(1/4) - I)/(1/2), C = F^T F since /repo 60fe5f7 repaired defect F4) *)
Theorem C08_rest_j2_seth_hill : forall pw p eqps, PowSpec pw -> E_j2_seth_hill pw p eqps mzero mzero = 0.
Proof. exact j2_seth_hill_rest. Qed.
Theorem C08_objective_j2_seth_hill : forall pw p eqps Ep Q H, rotation Q ->
  E_j2_seth_hill pw p eqps Ep (rotL Q H) = E_j2_seth_hill pw p eqps Ep H.
Proof. exact j2_seth_hill_objective. Qed.
Theorem C08_isotropic_j2_seth_hill_virgin : forall pw p eqps Q H, PowSpec pw -> rotation Q ->
  E_j2_seth_hill pw p eqps mzero (rotR Q H) = E_j2_seth_hill pw p eqps mzero H.
Proof. exact j2_seth_hill_isotropic_virgin. Qed.
(* regression witness for the repaired defect F4: built from H^T H the rest strain would be -2 I and the energy 18 kappa *)
Theorem C08_seth_hill_defect_formula_value : forall (pw : M -> R -> M) p, PowSpec pw ->
  W_j2 p (msub (mscal 2 (msub (pw (mmul (mtr mzero) mzero) (/ 4)) mid)) mzero) = let '(_, _, _, kappa, _) := p in 18 * kappa.
Proof. exact seth_hill_defect_value. Qed.

(* ---- rest state: zero stress = the derivative of the energy along every straight path t |-> t D vanishes at t = 0 ---- *)
Theorem C08_rest_stress_linear_elastic_linear : forall p D, is_derive (fun t => E_le_linear p (mscal t D)) 0 0.
Proof. exact le_linear_rest_stress. Qed.
Theorem C08_rest_stress_linear_elastic_green_lagrange : forall p D, is_derive (fun t => E_le_gl p (mscal t D)) 0 0.
Proof. exact le_gl_rest_stress. Qed.
Theorem C08_rest_stress_neohookean_coupled : forall p D, is_derive (fun t => E_neo_coupled p (mscal t D)) 0 0.
Proof. exact neo_coupled_rest_stress. Qed.
Theorem C08_rest_stress_neohookean_adagio : forall p D, is_derive (fun t => E_neo_adagio p (mscal t D)) 0 0.
Proof. exact neo_adagio_rest_stress. Qed.
Theorem C08_rest_stress_gent : forall p D, snd p <> 0 -> is_derive (fun t => E_gent p (mscal t D)) 0 0.
Proof. exact gent_rest_stress. Qed.
Theorem C08_rest_stress_viscoelastic_equilibrium : forall p D, is_derive (fun t => E_hv_eq p (mscal t D)) 0 0.
Proof. exact hveq_rest_stress. Qed.
Theorem C08_rest_stress_j2_small : forall p eqps D, is_derive (fun t => E_j2_linear p eqps mzero (mscal t D)) 0 0.
Proof. exact j2_linear_rest_stress. Qed.
(* zero stress at rest for the options that go through log_sqrt_symm, under LogSqrtSpec (value 0 at I) and LogSqrtDiffAtId:
   log_sqrt_symm is differentiable at the identity with derivative 1/2 sym, in the form "for every differentiable curve C of symmetric
   matrices with C 0 = I, t |-> lss (C t) is (component-wise) differentiable at 0 with derivative C'/2" (mderive = the nine component
   derivatives).  Both are hypotheses on the un-modelled spectral function (C12's subject); the harness checks them on
   TensorMath.log_sqrt_symm (jax.jvp at I and difference quotients along C(t) = (I+tD)^T (I+tD)). *)
Theorem C08_rest_stress_linear_elastic_logarithmic : forall lss, LogSqrtSpec lss -> LogSqrtDiffAtId lss ->
  forall D p, is_derive (fun t => E_le_log lss p (mscal t D)) 0 0.
Proof. exact le_log_rest_stress. Qed.
Theorem C08_rest_stress_j2_logarithmic : forall lss, LogSqrtSpec lss -> LogSqrtDiffAtId lss ->
  forall D p eqps, is_derive (fun t => E_j2_log lss p eqps mid (mscal t D)) 0 0.
Proof. exact j2_log_rest_stress. Qed.
Theorem C08_rest_stress_phasefield_logarithmic : forall lss, LogSqrtSpec lss -> LogSqrtDiffAtId lss ->
  forall D p g0 g1 g2, is_derive (fun t => E_pf_log lss p 0 g0 g1 g2 (mscal t D)) 0 0.
Proof. exact pf_log_rest_stress. Qed.
(* the complete incremental energies (equilibrium + non-equilibrium + dt * dissipation potential), virgin viscous state *)
Theorem C08_rest_stress_hyperviscoelastic : forall lss, LogSqrtSpec lss -> LogSqrtDiffAtId lss ->
  forall D p dt, 0 < dt -> (let '(_, _, _, tau) := p in 0 < tau) -> is_derive (fun t => E_hv lss p mid dt (mscal t D)) 0 0.
Proof. exact hv_rest_stress. Qed.
Theorem C08_rest_stress_multibranch : forall lss, LogSqrtSpec lss -> LogSqrtDiffAtId lss ->
  forall D p dt, 0 < dt -> mb_taus_pos p -> is_derive (fun t => E_mb lss p mid mid mid dt (mscal t D)) 0 0.
Proof. exact mb_rest_stress. Qed.
(* zero stress at rest of J2 'seth hill' (strain (C^(1/4) - I)/(1/2) through pow_symm), under PowSpec (value I at I) and PowDiffAtId:
   pow_symm(., m) is differentiable at the identity with derivative m * sym, along curves exactly as LogSqrtDiffAtId.  The harness checks
   both on TensorMath.pow_symm (jax.jvp at I = m X for several m, difference quotients along C(t) = (I+tD)^T (I+tD)). *)
Theorem C08_rest_stress_j2_seth_hill : forall pw, PowSpec pw -> PowDiffAtId pw ->
  forall D p eqps, is_derive (fun t => E_j2_seth_hill pw p eqps mzero (mscal t D)) 0 0.
Proof. exact j2_seth_hill_rest_stress. Qed.
(* NOT PROVED: zero stress at rest of the phase-field model for phase <> 0 (not a rest state: the energy is not zero there either).

   Kirchhoff stress as a derivative statement, closed-form models: for every H with det F > 0 the explicit first Piola-Kirchhoff tensor
   P (P_neo_coupled, P_adagio, P_gent, P_le_gl: 2 dpsi/dI1 F + dpsi/dJ cof F, resp. F S) is the derivative of the energy
   (d/dt W(H + t D) at 0 = P : D for every direction D) and tau = P F^T is symmetric. *)
Theorem C08_kirchhoff_symmetric_neohookean_coupled : forall p H, 0 < JJ H ->
  (forall D, is_derive (fun t => E_neo_coupled p (madd H (mscal t D))) 0 (mddot (P_neo_coupled p H) D))
  /\ msym (mmul (P_neo_coupled p H) (mtr (defgrad H))).
Proof. exact neo_coupled_kirchhoff. Qed.
Theorem C08_kirchhoff_symmetric_neohookean_adagio : forall p H, 0 < JJ H -> let '(_, _, mu, kappa, _) := p in
  (forall D, is_derive (fun t => E_neo_adagio p (madd H (mscal t D))) 0 (mddot (P_adagio kappa mu H) D))
  /\ msym (mmul (P_adagio kappa mu H) (mtr (defgrad H))).
Proof. exact neo_adagio_kirchhoff. Qed.
Theorem C08_kirchhoff_symmetric_gent : forall p H, 0 < JJ H -> (let '(_, _, Jm) := p in Jm <> 0 /\ 0 < gent_u Jm (I1 H) (JJ H)) ->
  (forall D, is_derive (fun t => E_gent p (madd H (mscal t D))) 0 (mddot (P_gent p H) D)) /\ msym (mmul (P_gent p H) (mtr (defgrad H))).
Proof. exact gent_kirchhoff. Qed.
Theorem C08_kirchhoff_symmetric_viscoelastic_equilibrium : forall p H, 0 < JJ H -> let '(K, G, _, _) := p in
  (forall D, is_derive (fun t => E_hv_eq p (madd H (mscal t D))) 0 (mddot (P_adagio K G H) D)) /\ msym (mmul (P_adagio K G H) (mtr (defgrad H))).
Proof. exact hveq_kirchhoff. Qed.
Theorem C08_kirchhoff_symmetric_multibranch_equilibrium : forall p H, 0 < JJ H -> let '(K, G, _, _, _, _, _, _) := p in
  (forall D, is_derive (fun t => E_mb_eq p (madd H (mscal t D))) 0 (mddot (P_adagio K G H) D)) /\ msym (mmul (P_adagio K G H) (mtr (defgrad H))).
Proof. exact mbeq_kirchhoff. Qed.
Theorem C08_kirchhoff_symmetric_linear_elastic_green_lagrange : forall p H,
  (forall D, is_derive (fun t => E_le_gl p (madd H (mscal t D))) 0 (mddot (P_le_gl p H) D)) /\ msym (mmul (P_le_gl p H) (mtr (defgrad H))).
Proof. exact le_gl_kirchhoff. Qed.
(* Kirchhoff-stress symmetry FROM OBJECTIVITY.  curve_diff E H l: E is differentiable at H along EVERY differentiable curve g through H
   (g 0 = H, component-wise derivative D at 0): d/dt E(g t) at 0 = l D.  If E is invariant under every superposed rotation at H and
   curve-differentiable at H with gradient P, then tau = P F^T is symmetric (differentiate along the rotations about the three axes). *)
Theorem C08_kirchhoff_symmetric_from_objectivity : forall (E : M -> R) (H P : M),
  (forall Q, rotation Q -> E (rotL Q H) = E H) -> curve_diff E H (mddot P) -> msym (mmul P (mtr (defgrad H))).
Proof. exact kirchhoff_from_objectivity. Qed.
Theorem C08_curve_derivative_gives_line_derivative : forall E H P, curve_diff E H (mddot P) ->
  forall D, is_derive (fun t => E (madd H (mscal t D))) 0 (mddot P D).
Proof. exact curve_diff_gives_lines. Qed.
(* The models that go through the spectral tensor functions: under the hypothesis that the spectral function is (Hadamard) differentiable
   at the ONE argument it is called on (LogSqrtDiffAt lss C0 L / PowDiffAt pw m C0 L: L linear, and for every differentiable curve C of
   symmetric matrices with C 0 = C0, t |-> lss (C t) has derivative L (C' 0) at 0) the energy has a gradient P at H (first Piola-Kirchhoff
   stress: d/dt E(g t) = P : g'(0) along every differentiable curve through H) and tau = P F^T is symmetric.  No equivariance of L and
   no LogSqrtSpec / PowSpec is needed (objectivity of these energies holds for every lss / pw).  Every admissible internal state. *)
Theorem C08_kirchhoff_symmetric_linear_elastic_logarithmic : forall lss L p H, 0 < JJ H -> LogSqrtDiffAt lss (CC H) L ->
  exists P : M, curve_diff (E_le_log lss p) H (mddot P) /\ msym (mmul P (mtr (defgrad H))).
Proof. exact le_log_kirchhoff. Qed.
Theorem C08_kirchhoff_symmetric_j2_logarithmic : forall lss L p eqps Fp H, 0 < JJ H -> mdet Fp <> 0 -> LogSqrtDiffAt lss (CCe H (tinv Fp)) L ->
  exists P : M, curve_diff (E_j2_log lss p eqps Fp) H (mddot P) /\ msym (mmul P (mtr (defgrad H))).
Proof. exact j2_log_kirchhoff. Qed.
Theorem C08_kirchhoff_symmetric_j2_seth_hill : forall pw L p eqps Ep H, PowDiffAt pw (/ 4) (CC H) L ->
  exists P : M, curve_diff (E_j2_seth_hill pw p eqps Ep) H (mddot P) /\ msym (mmul P (mtr (defgrad H))).
Proof. exact j2_seth_hill_kirchhoff. Qed.
Theorem C08_kirchhoff_symmetric_phasefield_undamaged : forall lss L p g0 g1 g2 H, 0 < JJ H -> LogSqrtDiffAt lss (CC H) L ->
  exists P : M, curve_diff (E_pf_log lss p 0 g0 g1 g2) H (mddot P) /\ msym (mmul P (mtr (defgrad H))).
Proof. exact pf_log_kirchhoff. Qed.
Theorem C08_kirchhoff_symmetric_hyperviscoelastic : forall lss L p Fv dt H, 0 < JJ H -> mdet Fv <> 0 -> 0 < dt ->
  (let '(_, _, _, tau) := p in 0 < tau) -> LogSqrtDiffAt lss (CCe H (linv Fv)) L ->
  exists P : M, curve_diff (E_hv lss p Fv dt) H (mddot P) /\ msym (mmul P (mtr (defgrad H))).
Proof. exact hv_kirchhoff. Qed.
Theorem C08_kirchhoff_symmetric_multibranch : forall lss L1 L2 L3 p Fv1 Fv2 Fv3 dt H,
  0 < JJ H -> mdet Fv1 <> 0 -> mdet Fv2 <> 0 -> mdet Fv3 <> 0 -> 0 < dt -> mb_taus_pos p ->
  LogSqrtDiffAt lss (CCe H (linv Fv1)) L1 -> LogSqrtDiffAt lss (CCe H (linv Fv2)) L2 -> LogSqrtDiffAt lss (CCe H (linv Fv3)) L3 ->
  exists P : M, curve_diff (E_mb lss p Fv1 Fv2 Fv3 dt) H (mddot P) /\ msym (mmul P (mtr (defgrad H))).
Proof. exact mb_kirchhoff. Qed.
(* NOT PROVED: the differentiability hypotheses LogSqrtDiffAt / PowDiffAt themselves for the spectral functions at a general symmetric
   positive definite argument (at the identity they are proved: end of this file) (Daleckii-Krein; C10/C12's subject) -- they are tied to TensorMath.log_sqrt_symm / pow_symm by the stream
   spec_diff_checks (jax.jvp is linear and equals the difference quotient along symmetric curves through C0 = F^T F / (F Fv^-1)^T (F Fv^-1));
   Kirchhoff symmetry of the phase-field model for phase <> 0 at det F = 1 exactly (kink of the volumetric split).  The algebraic form: *)
Theorem C08_kirchhoff_symmetric_form_partial : forall F S : M, msym S -> msym (mscal 2 (mmul F (mmul S (mtr F)))).
Proof. exact kirchhoff_symmetric_form. Qed.

(* ---- the hypotheses LogSqrtSpec / PowSpec are theorems for the spectral functions (solver_ok eigh: eigh returns an orthogonal
        eigen-decomposition V diag(lam) V^T of every symmetric matrix; such a solver exists: eigh_sym, the spectral theorem of L_C11e.v) ---- *)
Theorem C08_log_sqrt_spec_of_spectral_function : forall eigh : M -> @eig R, solver_ok eigh -> LogSqrtSpec (lss_spec eigh).
Proof. exact lss_spec_LogSqrtSpec. Qed.
Theorem C08_pow_spec_of_spectral_function : forall eigh : M -> @eig R, solver_ok eigh -> PowSpec (pw_spec eigh).
Proof. exact pw_spec_PowSpec. Qed.
Theorem C08_spectral_functions_exist : solver_ok eigh_sym /\ LogSqrtSpec lss_R /\ PowSpec pw_R.
Proof. exact spectral_functions_exist. Qed.
Theorem C08_pow_canonical : forall eigh (A : M) m, msym A -> eigh_ok eigh A -> pw_spec eigh A m = pw_R A m.
Proof. exact pw_R_canonical. Qed.
(* hence, with lss_R / pw_R, isotropy and the rest energies hold with no hypothesis on the tensor functions *)
Theorem C08_isotropic_linear_elastic_logarithmic_unconditional : forall p Q H, rotation Q -> E_le_log lss_R p (rotR Q H) = E_le_log lss_R p H.
Proof. exact unconditional_le_log_isotropic. Qed.
Theorem C08_isotropic_j2_logarithmic_unconditional : forall p eqps Fp Q H, rotation Q -> mdet Fp <> 0 ->
  E_j2_log lss_R p eqps (conj Q Fp) (rotR Q H) = E_j2_log lss_R p eqps Fp H.
Proof. exact unconditional_j2_log_isotropic. Qed.
Theorem C08_isotropic_j2_seth_hill_unconditional : forall p eqps Ep Q H, rotation Q ->
  E_j2_seth_hill pw_R p eqps (conj Q Ep) (rotR Q H) = E_j2_seth_hill pw_R p eqps Ep H.
Proof. exact unconditional_j2_seth_hill_isotropic. Qed.
Theorem C08_isotropic_hyperviscoelastic_unconditional : forall p Fv dt Q H, rotation Q -> 0 < JJ H -> mdet Fv <> 0 -> 0 < dt ->
  (let '(_, _, _, tau) := p in 0 < tau) -> E_hv lss_R p (conj Q Fv) dt (rotR Q H) = E_hv lss_R p Fv dt H.
Proof. exact unconditional_hv_isotropic. Qed.
Theorem C08_isotropic_multibranch_unconditional : forall p Fv1 Fv2 Fv3 dt Q H,
  rotation Q -> 0 < JJ H -> mdet Fv1 <> 0 -> mdet Fv2 <> 0 -> mdet Fv3 <> 0 -> 0 < dt -> mb_taus_pos p ->
  E_mb lss_R p (conj Q Fv1) (conj Q Fv2) (conj Q Fv3) dt (rotR Q H) = E_mb lss_R p Fv1 Fv2 Fv3 dt H.
Proof. exact unconditional_mb_isotropic. Qed.
Theorem C08_isotropic_phasefield_unconditional : forall p phase g0 g1 g2 Q H, rotation Q ->
  E_pf_log lss_R p phase (m00 Q * g0 + m10 Q * g1 + m20 Q * g2) (m01 Q * g0 + m11 Q * g1 + m21 Q * g2)
           (m02 Q * g0 + m12 Q * g1 + m22 Q * g2) (rotR Q H) = E_pf_log lss_R p phase g0 g1 g2 H.
Proof. exact unconditional_pf_log_isotropic. Qed.
Theorem C08_rest_energies_unconditional : forall p4_ p5_ p6_ p8_ hvp eqps dt, 0 < dt -> (let '(_, _, _, tau) := hvp in 0 < tau) -> mb_taus_pos p8_ ->
  E_le_log lss_R p4_ mzero = 0 /\ E_j2_log lss_R p5_ eqps mid mzero = 0 /\ E_j2_seth_hill pw_R p5_ eqps mzero mzero = 0 /\
  E_hv lss_R hvp mid dt mzero = 0 /\ E_mb lss_R p8_ mid mid mid dt mzero = 0 /\ E_pf_log lss_R p6_ 0 0 0 0 mzero = 0.
Proof. exact unconditional_rest_energies. Qed.

(* ---- the differentiability hypotheses AT THE IDENTITY are theorems too (the eigen-decomposition may depend discontinuously on the
        argument; the remainder spectral f A - f(1) I - f'(1)(A - I) = V diag(r(w_i)) V^T is O(|A - I|^2) in the Frobenius norm) ---- *)
Theorem C08_log_sqrt_diff_at_identity_of_spectral_function : forall eigh : M -> @eig R, solver_ok eigh -> LogSqrtDiffAtId (lss_spec eigh).
Proof. exact lss_spec_LogSqrtDiffAtId. Qed.
Theorem C08_pow_diff_at_identity_of_spectral_function : forall eigh : M -> @eig R, solver_ok eigh -> PowDiffAtId (pw_spec eigh).
Proof. exact pw_spec_PowDiffAtId. Qed.
(* general form: any scalar function with a quadratic expansion at 1 *)
Theorem C08_spectral_function_differentiable_at_identity : forall (eigh : M -> @eig R) (f : R -> R) (f1 f' K delta : R),
  solver_ok eigh -> 0 <= K -> 0 < delta ->
  (forall w, Rabs (w - 1) <= delta -> Rabs (f w - f1 - f' * (w - 1)) <= K * ((w - 1) * (w - 1))) ->
  forall (C : R -> M) (C' : M), (forall t, msym (C t)) -> C 0 = mid -> mderive C 0 C' -> mderive (fun t => spectral eigh f (C t)) 0 (mscal f' C').
Proof. exact spectral_diff_at_id. Qed.
(* hence zero stress at rest of every option that goes through the spectral functions, with NO hypothesis on them (lss_R, pw_R) *)
Theorem C08_rest_stress_unconditional : forall D,
  (forall p, is_derive (fun t => E_le_log lss_R p (mscal t D)) 0 0) /\
  (forall p eqps, is_derive (fun t => E_j2_log lss_R p eqps mid (mscal t D)) 0 0) /\
  (forall p eqps, is_derive (fun t => E_j2_seth_hill pw_R p eqps mzero (mscal t D)) 0 0) /\
  (forall p g0 g1 g2, is_derive (fun t => E_pf_log lss_R p 0 g0 g1 g2 (mscal t D)) 0 0) /\
  (forall p dt, 0 < dt -> (let '(_, _, _, tau) := p in 0 < tau) -> is_derive (fun t => E_hv lss_R p mid dt (mscal t D)) 0 0) /\
  (forall p dt, 0 < dt -> mb_taus_pos p -> is_derive (fun t => E_mb lss_R p mid mid mid dt (mscal t D)) 0 0).
Proof. exact unconditional_rest_stress. Qed.

Example C08_nonvacuous :
  rotation (mk 0 (-1) 0 1 0 0 0 0 1) /\ 0 < JJ (mk (/ 2) (/ 4) 0 0 (/ 3) 0 0 0 0) /\ LogSqrtSpec (fun A => mscal (/ 2) (msub A mid))
  /\ PowSpec (fun A _ => A) /\ mdet (@mid R NumR) <> 0.
Proof. exact nonvacuous_witness. Qed.
Example C08_nonvacuous_multibranch :
  mb_taus_pos (8, 3 / 2, 3, 7 / 10, 2, 7, 1, 70) /\ mdet (mk 1 (/ 4) 0 0 1 0 0 (/ 5) 1) <> 0
  /\ conj (mk 0 (-1) 0 1 0 0 0 0 1) (mk 1 (/ 4) 0 0 1 0 0 (/ 5) 1) <> mk 1 (/ 4) 0 0 1 0 0 (/ 5) 1.
Proof. exact nonvacuous_witness_mb. Qed.
Example C08_nonvacuous_derivative_hypotheses :
  (LogSqrtSpec (fun A => mscal (/ 2) (msub A mid)) /\ LogSqrtDiffAtId (fun A => mscal (/ 2) (msub A mid)))
  /\ (0 < JJ (mk (/ 2) (/ 4) 0 0 (/ 3) 0 0 0 0) /\ (30 : R) <> 0 /\ 0 < gent_u 30 (I1 mzero) (JJ mzero)).
Proof. exact nonvacuous_witness_diff. Qed.

Example C08_nonvacuous_kirchhoff_hypotheses :
  (LogSqrtDiffAt (fun A => mscal (/ 2) (msub A mid)) (CC (mk (/ 2) (/ 4) 0 0 (/ 3) 0 0 0 0)) (mscal (/ 2))
   /\ PowDiffAt (fun A m => madd mid (mscal m (msub A mid))) (/ 4) (CC (mk (/ 2) (/ 4) 0 0 (/ 3) 0 0 0 0)) (mscal (/ 4)))
  /\ (PowSpec pw_poly /\ PowDiffAtId pw_poly) /\ 0 < JJ (mk (/ 2) (/ 4) 0 0 (/ 3) 0 0 0 0).
Proof. exact nonvacuous_witness_kirchhoff. Qed.

Print Assumptions C08_objective_neohookean_adagio.
Print Assumptions C08_isotropic_linear_elastic_logarithmic.
Print Assumptions C08_isotropic_hyperviscoelastic_virgin.
Print Assumptions C08_rest_stress_gent.
Print Assumptions C08_rest_j2_seth_hill.
Print Assumptions C08_isotropic_phasefield.
Print Assumptions C08_isotropic_multibranch.
Print Assumptions C08_rest_stress_multibranch.
Print Assumptions C08_kirchhoff_symmetric_gent.
Print Assumptions C08_rest_stress_j2_seth_hill.
Print Assumptions C08_kirchhoff_symmetric_multibranch.
Print Assumptions C08_spectral_functions_exist.
Print Assumptions C08_rest_stress_unconditional.
