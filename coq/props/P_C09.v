(* C09 -- property theorems only.  Subjects: the flow direction and elastic energy regenerated from J2Plastic.py, the hardening
   energies regenerated from Hardening.py, and the scalar reduction of the radial return (model/M_C09.v) whose root solve is the
   C17 model (loop regenerated from ScalarRootFind.py).  NaN (= root finder did not converge, C17 finding F7) is `None`. *)
From Coq Require Import Reals QArith List.
From Coquelicot Require Import Coquelicot.
From OV.base Require Import Num.
From OV.gen Require Import Gen_ScalarRootFind Gen_Hardening Gen_TensorMath Gen_J2Flow Gen_J2Elastic.
From OV.model Require Import M_C17 M_C09.
From OV.proofs Require Import L_C17 L_C09.
Import ListNotations.
Local Open Scope R_scope.

(* flow direction: traceless with N:N = 3/2, both branches (incl. the dummy direction for a vanishing deviator) *)
Theorem C09_flow_direction : forall E : @m9 R, tr9 (flowdir E) = 0 /\ ddot (flowdir E) (flowdir E) = 3 / 2.
Proof. exact flow_direction_props. Qed.

(* residual form: the elastic part of the incremental potential along the return direction is the scalar quadratic, so
   d(potential)/d(eqps) = -(s - 3 mu D) + Y(eqps): a root of the residual is on the yield surface *)
Theorem C09_tensor_potential_reduction : forall (E : @m9 R) (p0 p1 mu p3 p4 D : R),
  let N := flowdir E in
  let '(x0, x1, x2, x3, x4, x5, x6, x7, x8) := axpy9 D N E in
  j2_elastic_deviatoric_free_energy x0 x1 x2 x3 x4 x5 x6 x7 x8 p0 p1 mu p3 p4
  = mu * ddot (dev9 E) (dev9 E) - D * trial_mises mu E + 3 / 2 * mu * (D * D).
Proof. exact tensor_potential_reduction. Qed.
Theorem C09_residual_form : forall (Hf Yf : R -> R) (mu s eo e : R), is_derive Hf e (Yf e) ->
  is_derive (fun x => @potential R NumR Hf mu s eo x) e (- s + 3 * mu * (e - eo) + Yf e).
Proof. exact potential_derive. Qed.

(* irreversibility, for any flow stress that does not drop between eqps_old and the elastic-predictor bound *)
Theorem C09_irreversible : forall (Yf dYf : R -> R) (mu tol : R), 0 < mu -> 0 <= tol -> forall s eo d,
  (tol < s - Yf eo -> Yf eo <= Yf (eo + (s - Yf eo) / (3 * mu))) ->
  @delta_eqps_gen R NumR Yf dYf mu tol s eo = Some d -> 0 <= d.
Proof. exact delta_nonneg. Qed.
Theorem C09_irreversible_rate_independent_laws : forall (l : @law R) mu s eo dt d, 0 < mu -> 0 <= law_Y0 l ->
  (forall x y, eo <= x -> x <= y -> @h_flow R NumR l x <= @h_flow R NumR l y) ->
  @delta_eqps R NumR l NoRate mu s eo dt = Some d -> 0 <= d.
Proof. exact delta_eqps_nonneg. Qed.
Theorem C09_history_monotone : forall (Yf dYf : R -> R) (mu tol : R), 0 < mu -> 0 <= tol -> forall steps : list (R -> R),
  (forall x y, x <= y -> Yf x <= Yf y) ->
  forall eo l, @history_gen R NumR Yf dYf mu tol steps eo = Some l ->
  forall k, (k < length l)%nat -> nth k (eo :: l) 0 <= nth (S k) (eo :: l) 0.
Proof. exact history_monotone. Qed.

(* yield consistency to the solver tolerance *)
Theorem C09_yield_consistent : forall (Yf dYf : R -> R) (mu tol : R), 0 < mu -> 0 <= tol -> forall s eo d,
  (tol < s - Yf eo -> Yf eo <= Yf (eo + (s - Yf eo) / (3 * mu))) ->
  @delta_eqps_gen R NumR Yf dYf mu tol s eo = Some d ->
  (s - 3 * mu * d) - Yf (eo + d) <= tol /\ (0 < d -> Rabs ((s - 3 * mu * d) - Yf (eo + d)) <= tol).
Proof. exact yield_consistent. Qed.

(* the elastic-branch threshold of the yield test must be the root tolerance: with a threshold thr the overstress left after a step
   is bounded by max(thr, tol); thr = tol is the model (first clause), a larger threshold leaves states outside the yield surface
   by thr > tol (third clause) *)
Theorem C09_elastic_threshold_is_root_tolerance : forall (Yf dYf : R -> R) (mu tol : R), 0 < mu -> 0 <= tol ->
  (forall s eo, delta_thr Yf dYf mu tol tol s eo = @delta_eqps_gen R NumR Yf dYf mu tol s eo) /\
  (forall thr s eo d, (tol < s - Yf eo -> Yf eo <= Yf (eo + (s - Yf eo) / (3 * mu))) ->
     delta_thr Yf dYf mu tol thr s eo = Some d -> (s - 3 * mu * d) - Yf (eo + d) <= Rmax thr tol) /\
  (forall thr eo, tol < thr ->
     delta_thr Yf dYf mu tol thr (Yf eo + thr) eo = Some 0 /\ tol < (Yf eo + thr - 3 * mu * 0) - Yf (eo + 0)).
Proof. exact elastic_threshold. Qed.

(* variational: with convex hardening the (approximately) stationary point minimises the incremental potential over eqps >= eqps_old *)
Theorem C09_variational : forall (Hf Yf : R -> R) (mu s eo : R), 0 < mu -> forall es delta : R,
  (forall x, eo <= x -> is_derive Hf x (Yf x)) -> (forall x y, eo <= x -> x <= y -> Yf x <= Yf y) -> eo <= es ->
  Rabs (- s + 3 * mu * (es - eo) + Yf es) <= delta ->
  forall e, eo <= e -> @potential R NumR Hf mu s eo es - delta * Rabs (e - es) <= @potential R NumR Hf mu s eo e.
Proof. exact potential_min. Qed.

(* idempotence for rate-independent hardening: at the same deformation with the committed state (trial stress s - 3 mu d,
   eqps eo + d) the yield test is not met and nothing changes *)
Theorem C09_idempotent_rate_independent : forall (Yf dYf : R -> R) (mu tol : R), 0 < mu -> 0 <= tol -> forall s eo d,
  (tol < s - Yf eo -> Yf eo <= Yf (eo + (s - Yf eo) / (3 * mu))) ->
  @delta_eqps_gen R NumR Yf dYf mu tol s eo = Some d ->
  @delta_eqps_gen R NumR Yf dYf mu tol (s - 3 * mu * d) (eo + d) = Some 0.
Proof. exact idempotent. Qed.

(* isochoric plastic flow, given Jacobi's formula for the (un-modelled) matrix exponential *)
Theorem C09_isochoric : forall expm : @m9 R -> @m9 R, (forall A, det9 (expm A) = exp (tr9 A)) ->
  forall (E Fp : @m9 R) (D : R), det9 (mul9 (expm (scale9 D (flowdir E))) Fp) = det9 Fp.
Proof. exact plastic_flow_isochoric. Qed.

(* hardening laws: the flow stress used by the scalar model is the derivative of the regenerated energy, and is monotone *)
Theorem C09_linear_flow : forall Y0 H e, is_derive (fun x => @h_energy R NumR (Linear Y0 H) x) e (@h_flow R NumR (Linear Y0 H) e).
Proof. exact linear_flow_derive. Qed.
Theorem C09_voce_flow : forall Y0 Ysat eps0 e, eps0 <> 0 ->
  is_derive (fun x => @h_energy R NumR (Voce Y0 Ysat eps0) x) e (@h_flow R NumR (Voce Y0 Ysat eps0) e).
Proof. exact voce_flow_derive. Qed.
Theorem C09_power_law_flow : forall Y0 n eps0 e, 0 < n -> 0 < eps0 -> 0 < 1 + e / eps0 ->
  is_derive (fun x => @h_energy R NumR (PowerLaw Y0 n eps0) x) e (@h_flow R NumR (PowerLaw Y0 n eps0) e).
Proof. exact power_flow_derive. Qed.
Theorem C09_linear_monotone : forall Y0 H, 0 <= H -> forall x y, x <= y -> @h_flow R NumR (Linear Y0 H) x <= @h_flow R NumR (Linear Y0 H) y.
Proof. exact linear_flow_monotone. Qed.
Theorem C09_voce_monotone : forall Y0 Ysat eps0, Y0 <= Ysat -> 0 < eps0 ->
  forall x y, x <= y -> @h_flow R NumR (Voce Y0 Ysat eps0) x <= @h_flow R NumR (Voce Y0 Ysat eps0) y.
Proof. exact voce_flow_monotone. Qed.
Theorem C09_power_law_monotone : forall Y0 n eps0, 0 <= Y0 -> 0 < n -> 0 < eps0 ->
  forall x y, 0 < 1 + x / eps0 -> x <= y -> @h_flow R NumR (PowerLaw Y0 n eps0) x <= @h_flow R NumR (PowerLaw Y0 n eps0) y.
Proof. exact power_flow_monotone. Qed.

(* NOT PROVED: (a) "the update never returns NaN" -- false of the faithful model: the C17 root finder can hit its iteration cap
   (C17_cap_refuted, finding F7; inside the J2 update: F13); every theorem above is conditional on `= Some d`.  Flat hardening
   (perfect plasticity, saturated Voce) is NOT excluded: there the residual at the upper bracket end is within the tolerance and
   the repaired root finder returns that end (C17_result_contract, end-point rule; finding F12 fixed by 8aadfbe).  (b) the rate-sensitivity potential's
   derivative/monotonicity (same shape as the power law; covered by the correspondence only).  (c) the equivalence of the scalar
   history with the tensor history for finite-deformation kinematics (logarithmic strain, exp_symm push-forward) -- needs the
   spectral tensor functions; C09_isochoric assumes Jacobi's formula for exp_symm; tied by L2 on the code.  (d) equality of
   energy/stress before and after committing the state beyond the scalar statement C09_idempotent_rate_independent. *)

Example C09_nonvacuous :
  (forall x y : R, x <= y -> @h_flow R NumR (Linear 1 2) x <= @h_flow R NumR (Linear 1 2) y) /\
  (@is_yielding R NumR (fun e => @h_flow R NumR (Linear 1 2) e) (1 / 10) 3 0 = true) /\
  @delta_eqps_gen R NumR (fun _ => 1) (fun _ => 0) 1 (1 / 10) 1 0 = Some 0.
Proof. exact nonvacuous_C09. Qed.

Print Assumptions C09_flow_direction.
Print Assumptions C09_irreversible.
Print Assumptions C09_yield_consistent.
Print Assumptions C09_variational.
Print Assumptions C09_idempotent_rate_independent.
Print Assumptions C09_isochoric.
