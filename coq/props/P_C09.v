(* C09 -- property theorems only.  Subjects: the flow direction and elastic energy regenerated from J2Plastic.py, the hardening
   energies regenerated from Hardening.py, and the scalar reduction of the radial return (model/M_C09.v) whose root solve is the
   C17 model (loop regenerated from ScalarRootFind.py).  NaN (= root finder did not converge, C17 finding F7) is `None`.
   Tensor level: model/M_C09T.v (additive state update: 'small deformations', 'seth hill') and model/M_C09F.v (multiplicative update,
   'large deformations': regenerated logarithmic strain and regenerated tail of compute_state_new_finite_deformations; spectral
   log_sqrt_symm / exp_symm of model/M_C11s.v, whose functional calculus is proved in proofs/L_C11s.v, L_C11t.v, L_C11e.v, L_C11u.v). *)
From Coq Require Import Reals QArith List.
From Coquelicot Require Import Coquelicot.
From OV.base Require Import Num.
From OV.gen Require Import Gen_ScalarRootFind Gen_Hardening Gen_TensorMath Gen_J2Flow Gen_J2Elastic Gen_J2Finite.
From OV.gen Require Import Gen_HyperViscoelastic Gen_MultiBranchHyperViscoelastic Gen_ViscoState.
From OV.model Require Import M_C17 M_C09 M_C09T M_C08 M_C11 M_C11s M_C09F.
From OV.proofs Require Import L_C17 L_C09 L_C09r L_C09T L_C08 L_C11a L_C11 L_C11s L_C11t L_C11e L_C11u L_C09F L_C09G L_C09N L_C09L L_C09V.
Import ListNotations.
Local Open Scope R_scope.

(* flow direction: traceless with N:N = 3/2, both branches (incl. the dummy direction for a vanishing deviator) *)
Theorem C09_flow_direction : forall E : @m9 R, tr9 (flowdir E) = 0 /\ ddot (flowdir E) (flowdir E) = 3 / 2.
Proof. exact flow_direction_props. Qed.

(* residual form: the elastic part of the incremental potential along the return direction is the scalar quadratic, so
   d(potential)/d(eqps) = -(s - 3 mu D) + Y(eqps): a root of the residual is on the yield surface *)
Theorem C09_tensor_potential_reduction : forall (E : @m9 R) (p0 p1 mu p3 p4 D : R),
  let N := flowdir E in
  let '(x0, x1, x2, x3, x4, x5, x6, x7, x8) := axpy9 D N E in
  j2_elastic_deviatoric_free_energy x0 x1 x2 x3 x4 x5 x6 x7 x8 p0 p1 mu p3 p4
  = mu * ddot (dev9 E) (dev9 E) - D * trial_mises mu E + 3 / 2 * mu * (D * D).
Proof. exact tensor_potential_reduction. Qed.
Theorem C09_residual_form : forall (Hf Yf : R -> R) (mu s eo e : R), is_derive Hf e (Yf e) ->
  is_derive (fun x => @potential R NumR Hf mu s eo x) e (- s + 3 * mu * (e - eo) + Yf e).
Proof. exact potential_derive. Qed.

(* irreversibility, for any flow stress that does not drop between eqps_old and the elastic-predictor bound *)
Theorem C09_irreversible : forall (Yf dYf : R -> R) (mu tol : R), 0 < mu -> 0 <= tol -> forall s eo d,
  (tol < s - Yf eo -> Yf eo <= Yf (eo + (s - Yf eo) / (3 * mu))) ->
  @delta_eqps_gen R NumR Yf dYf mu tol s eo = Some d -> 0 <= d.
Proof. exact delta_nonneg. Qed.
Theorem C09_irreversible_rate_independent_laws : forall (l : @law R) mu s eo dt d, 0 < mu -> 0 <= law_Y0 l ->
  (forall x y, eo <= x -> x <= y -> @h_flow R NumR l x <= @h_flow R NumR l y) ->
  @delta_eqps R NumR l NoRate mu s eo dt = Some d -> 0 <= d.
Proof. exact delta_eqps_nonneg. Qed.
Theorem C09_history_monotone : forall (Yf dYf : R -> R) (mu tol : R), 0 < mu -> 0 <= tol -> forall steps : list (R -> R),
  (forall x y, x <= y -> Yf x <= Yf y) ->
  forall eo l, @history_gen R NumR Yf dYf mu tol steps eo = Some l ->
  forall k, (k < length l)%nat -> nth k (eo :: l) 0 <= nth (S k) (eo :: l) 0.
Proof. exact history_monotone. Qed.

(* yield consistency to the solver tolerance *)
Theorem C09_yield_consistent : forall (Yf dYf : R -> R) (mu tol : R), 0 < mu -> 0 <= tol -> forall s eo d,
  (tol < s - Yf eo -> Yf eo <= Yf (eo + (s - Yf eo) / (3 * mu))) ->
  @delta_eqps_gen R NumR Yf dYf mu tol s eo = Some d ->
  (s - 3 * mu * d) - Yf (eo + d) <= tol /\ (0 < d -> Rabs ((s - 3 * mu * d) - Yf (eo + d)) <= tol).
Proof. exact yield_consistent. Qed.

(* the elastic-branch threshold of the yield test must be the root tolerance: with a threshold thr the overstress left after a step
   is bounded by max(thr, tol); thr = tol is the model (first clause), a larger threshold leaves states outside the yield surface
   by thr > tol (third clause) *)
Theorem C09_elastic_threshold_is_root_tolerance : forall (Yf dYf : R -> R) (mu tol : R), 0 < mu -> 0 <= tol ->
  (forall s eo, delta_thr Yf dYf mu tol tol s eo = @delta_eqps_gen R NumR Yf dYf mu tol s eo) /\
  (forall thr s eo d, (tol < s - Yf eo -> Yf eo <= Yf (eo + (s - Yf eo) / (3 * mu))) ->
     delta_thr Yf dYf mu tol thr s eo = Some d -> (s - 3 * mu * d) - Yf (eo + d) <= Rmax thr tol) /\
  (forall thr eo, tol < thr ->
     delta_thr Yf dYf mu tol thr (Yf eo + thr) eo = Some 0 /\ tol < (Yf eo + thr - 3 * mu * 0) - Yf (eo + 0)).
Proof. exact elastic_threshold. Qed.

(* variational: with convex hardening the (approximately) stationary point minimises the incremental potential over eqps >= eqps_old *)
Theorem C09_variational : forall (Hf Yf : R -> R) (mu s eo : R), 0 < mu -> forall es delta : R,
  (forall x, eo <= x -> is_derive Hf x (Yf x)) -> (forall x y, eo <= x -> x <= y -> Yf x <= Yf y) -> eo <= es ->
  Rabs (- s + 3 * mu * (es - eo) + Yf es) <= delta ->
  forall e, eo <= e -> @potential R NumR Hf mu s eo es - delta * Rabs (e - es) <= @potential R NumR Hf mu s eo e.
Proof. exact potential_min. Qed.

(* idempotence for rate-independent hardening: at the same deformation with the committed state (trial stress s - 3 mu d,
   eqps eo + d) the yield test is not met and nothing changes *)
Theorem C09_idempotent_rate_independent : forall (Yf dYf : R -> R) (mu tol : R), 0 < mu -> 0 <= tol -> forall s eo d,
  (tol < s - Yf eo -> Yf eo <= Yf (eo + (s - Yf eo) / (3 * mu))) ->
  @delta_eqps_gen R NumR Yf dYf mu tol s eo = Some d ->
  @delta_eqps_gen R NumR Yf dYf mu tol (s - 3 * mu * d) (eo + d) = Some 0.
Proof. exact idempotent. Qed.

(* isochoric plastic flow, given Jacobi's formula for the (un-modelled) matrix exponential *)
Theorem C09_isochoric : forall expm : @m9 R -> @m9 R, (forall A, det9 (expm A) = exp (tr9 A)) ->
  forall (E Fp : @m9 R) (D : R), det9 (mul9 (expm (scale9 D (flowdir E))) Fp) = det9 Fp.
Proof. exact plastic_flow_isochoric. Qed.

(* hardening laws: the flow stress used by the scalar model is the derivative of the regenerated energy, and is monotone *)
Theorem C09_linear_flow : forall Y0 H e, is_derive (fun x => @h_energy R NumR (Linear Y0 H) x) e (@h_flow R NumR (Linear Y0 H) e).
Proof. exact linear_flow_derive. Qed.
Theorem C09_voce_flow : forall Y0 Ysat eps0 e, eps0 <> 0 ->
  is_derive (fun x => @h_energy R NumR (Voce Y0 Ysat eps0) x) e (@h_flow R NumR (Voce Y0 Ysat eps0) e).
Proof. exact voce_flow_derive. Qed.
Theorem C09_power_law_flow : forall Y0 n eps0 e, 0 < n -> 0 < eps0 -> 0 < 1 + e / eps0 ->
  is_derive (fun x => @h_energy R NumR (PowerLaw Y0 n eps0) x) e (@h_flow R NumR (PowerLaw Y0 n eps0) e).
Proof. exact power_flow_derive. Qed.
Theorem C09_linear_monotone : forall Y0 H, 0 <= H -> forall x y, x <= y -> @h_flow R NumR (Linear Y0 H) x <= @h_flow R NumR (Linear Y0 H) y.
Proof. exact linear_flow_monotone. Qed.
Theorem C09_voce_monotone : forall Y0 Ysat eps0, Y0 <= Ysat -> 0 < eps0 ->
  forall x y, x <= y -> @h_flow R NumR (Voce Y0 Ysat eps0) x <= @h_flow R NumR (Voce Y0 Ysat eps0) y.
Proof. exact voce_flow_monotone. Qed.
Theorem C09_power_law_monotone : forall Y0 n eps0, 0 <= Y0 -> 0 < n -> 0 < eps0 ->
  forall x y, 0 < 1 + x / eps0 -> x <= y -> @h_flow R NumR (PowerLaw Y0 n eps0) x <= @h_flow R NumR (PowerLaw Y0 n eps0) y.
Proof. exact power_flow_monotone. Qed.

(* ---------- rate sensitivity (power-law kinetic potential regenerated from Hardening.power_law_rate_sensitivity) ---------- *)
(* the overstress of the scalar model is the derivative of the regenerated kinetic potential for eqps > eqps_old ... *)
Theorem C09_rate_flow : forall Sr m ed0 eo dt, 0 < m -> 0 < dt -> 0 < ed0 -> forall e, eo < e ->
  is_derive (fun x => @k_energy R NumR (Rate Sr m ed0) x eo dt) e (@k_flow R NumR (Rate Sr m ed0) e eo dt).
Proof. exact rate_flow_derive. Qed.
(* ... at eqps_old itself (where the potential is not defined to the left and the overstress has an infinite slope) the one-sided
   difference quotient of the potential tends to the model's overstress there, which is 0 *)
Theorem C09_rate_flow_at_old : forall Sr m ed0 eo dt, 0 < m -> 0 < dt -> 0 < ed0 ->
  @k_flow R NumR (Rate Sr m ed0) eo eo dt = 0 /\
  forall eps, 0 < eps -> exists delta, 0 < delta /\ forall e, eo < e < eo + delta ->
    Rabs ((@k_energy R NumR (Rate Sr m ed0) e eo dt - @k_energy R NumR (Rate Sr m ed0) eo eo dt) / (e - eo)
          - @k_flow R NumR (Rate Sr m ed0) eo eo dt) < eps.
Proof. exact rate_flow_at_old_pack. Qed.
(* the slope handed to the Newton step is the derivative of the overstress *)
Theorem C09_rate_slope : forall Sr m ed0 eo dt, 0 < m -> 0 < dt -> 0 < ed0 -> forall e, eo < e ->
  is_derive (fun x => @k_flow R NumR (Rate Sr m ed0) x eo dt) e (@k_slope R NumR (Rate Sr m ed0) e eo dt).
Proof. exact rate_slope_derive. Qed.
(* monotone (strictly for a positive rate-sensitivity stress) and non-negative on eqps >= eqps_old *)
Theorem C09_rate_monotone : forall Sr m ed0 eo dt, 0 < m -> 0 < dt -> 0 < ed0 ->
  (forall x y, 0 <= Sr -> eo <= x -> x <= y -> @k_flow R NumR (Rate Sr m ed0) x eo dt <= @k_flow R NumR (Rate Sr m ed0) y eo dt) /\
  (forall x y, 0 < Sr -> eo <= x -> x < y -> @k_flow R NumR (Rate Sr m ed0) x eo dt < @k_flow R NumR (Rate Sr m ed0) y eo dt) /\
  (forall x, 0 <= Sr -> eo <= x -> 0 <= @k_flow R NumR (Rate Sr m ed0) x eo dt).
Proof. exact rate_monotone_pack. Qed.

(* the concrete updates (model delta_eqps with the regenerated tolerance constant) for the three laws with admissible constants,
   no monotonicity premise left: rate independent -- irreversible, yield consistent, idempotent; *)
Theorem C09_update_rate_independent_laws : forall (l : @law R) mu s eo dt d, 0 < mu -> law_admissible l eo ->
  @delta_eqps R NumR l NoRate mu s eo dt = Some d ->
  0 <= d /\ (s - 3 * mu * d) - @h_flow R NumR l (eo + d) <= @tolY R NumR l /\
  (0 < d -> Rabs ((s - 3 * mu * d) - @h_flow R NumR l (eo + d)) <= @tolY R NumR l) /\
  @delta_eqps R NumR l NoRate mu (s - 3 * mu * d) (eo + d) dt = Some 0.
Proof. exact delta_eqps_norate_spec. Qed.
(* rate sensitive -- irreversible and yield consistent, the yield surface being flow stress + overstress at the rate Delta eqps / dt *)
Theorem C09_update_rate_sensitive_laws : forall (l : @law R) Sr m ed0 mu s eo dt d,
  0 < mu -> law_admissible l eo -> 0 <= Sr -> 0 < m -> 0 < dt -> 0 < ed0 ->
  @delta_eqps R NumR l (Rate Sr m ed0) mu s eo dt = Some d ->
  0 <= d /\ (s - 3 * mu * d) - (@h_flow R NumR l (eo + d) + @k_flow R NumR (Rate Sr m ed0) (eo + d) eo dt) <= @tolY R NumR l /\
  (0 < d -> Rabs ((s - 3 * mu * d) - (@h_flow R NumR l (eo + d) + @k_flow R NumR (Rate Sr m ed0) (eo + d) eo dt)) <= @tolY R NumR l).
Proof. exact delta_eqps_rate_laws. Qed.
(* variational with rate sensitivity: the potential is differentiable only on the open half line eqps > eqps_old and right-continuous
   at eqps_old; a (nearly) stationary point still minimises it over eqps >= eqps_old (regenerated hardening + kinetic energies) *)
Theorem C09_variational_rate_sensitive_laws : forall (l : @law R) Sr m ed0 mu dt s eo es delta,
  0 < mu -> law_admissible l eo -> 0 <= Sr -> 0 < m -> 0 < dt -> 0 < ed0 -> eo <= es ->
  Rabs (- s + 3 * mu * (es - eo) + (@h_flow R NumR l es + @k_flow R NumR (Rate Sr m ed0) es eo dt)) <= delta ->
  forall e, eo <= e ->
    @potential R NumR (fun x => @h_energy R NumR l x + @k_energy R NumR (Rate Sr m ed0) x eo dt) mu s eo es - delta * Rabs (e - es)
    <= @potential R NumR (fun x => @h_energy R NumR l x + @k_energy R NumR (Rate Sr m ed0) x eo dt) mu s eo e.
Proof. exact potential_min_rate_laws. Qed.

(* ---------- tensor level, small-deformation kinematics (model/M_C09T.v: regenerated linear strain and flow direction,
   state = (eqps, plastic strain), stateNew = stateOld + (Delta eqps, Delta eqps * N)) ---------- *)
(* scalar <-> tensor: the residual the code hands to the root finder is the derivative (DelT; Newton slope D2T) of the regenerated
   deviatoric energy along the return direction plus the flow stress; whatever functions deliver those derivatives, the update
   computed with them IS the scalar update at the trial Mises stress 2 mu dev(E):N *)
Theorem C09_tensor_residual_is_scalar_residual : forall (Yf dYf DelT D2T : R -> R) (mu tol eo : R) (E : @m9 R),
  (forall e, is_derive (fun x => @elastic_along R NumR mu E eo x) e (DelT e)) -> (forall e, is_derive DelT e (D2T e)) ->
  @delta_eqps_res R NumR (fun e => DelT e + Yf e) (fun e => D2T e + dYf e) (Yf eo) mu tol (trial_mises mu E) eo
  = @delta_eqps_gen R NumR Yf dYf mu tol (trial_mises mu E) eo.
Proof. exact tensor_residual_update. Qed.
(* along ANY history of (displacement gradient, time step), all three laws, with or without rate sensitivity: eqps never decreases and
   the plastic strain keeps its trace (exactly isochoric; no assumption on a matrix function is needed for these kinematics) *)
Theorem C09_small_history_invariants : forall (l : @law R) (r : @rate R) mu, 0 < mu -> rate_admissible r ->
  forall (steps : list (@m9 R * R)) (st : @tstate R) sts, law_admissible l (fst st) -> List.Forall (fun p => 0 < snd p) steps ->
  @tensor_history R NumR l r mu steps st = Some sts ->
  forall k, (k < length sts)%nat ->
    fst (nth k (st :: sts) st) <= fst (nth (S k) (st :: sts) st) /\ tr9 (snd (nth (S k) (st :: sts) st)) = tr9 (snd st).
Proof. exact tensor_history_invariants. Qed.
(* committing the state (rate-independent laws; deviators above the code's flow-direction threshold): at the same displacement
   gradient the committed state gives (i) the elastic strain the update produced, (ii) a stress on or inside the yield surface to the
   solver tolerance, in tensor terms, (iii) no further change (tensor-level idempotence), (iv) the same energy density *)
Theorem C09_small_commit_invariance : forall (l : @law R) mu kappa dt dt' H (st st' : @tstate R),
  0 < mu -> law_admissible l 0 -> 0 < law_Y0 l -> 0 <= fst st ->
  nondegenerate (strain_small H st) -> nondegenerate (strain_small H st') ->
  @state_new_small R NumR l NoRate mu dt H st = Some st' ->
  strain_small H st' = sub9 (strain_small H st) (smul9 (fst st' - fst st) (flowdir (strain_small H st))) /\
  trial_mises mu (strain_small H st') - @h_flow R NumR l (fst st') <= @tolY R NumR l /\
  @state_new_small R NumR l NoRate mu dt' H st' = Some st' /\
  @energy_small R NumR l NoRate mu kappa dt' H st' = @energy_small R NumR l NoRate mu kappa dt H st.
Proof. exact commit_invariance_small. Qed.

(* the same for the 'seth hill' kinematics (additive state update as well), TensorMath.pow_symm being an ARBITRARY function pw
   (opaque parameter of the regenerated strain kernel): nothing about the spectral power is needed *)
Theorem C09_seth_hill_history_invariants : forall pw (l : @law R) (r : @rate R) mu, 0 < mu -> rate_admissible r ->
  forall (steps : list (@m9 R * R)) (st : @tstate R) sts, law_admissible l (fst st) -> List.Forall (fun p => 0 < snd p) steps ->
  @history_add R NumR (strain_seth_hill pw) l r mu steps st = Some sts ->
  forall k, (k < length sts)%nat ->
    fst (nth k (st :: sts) st) <= fst (nth (S k) (st :: sts) st) /\ tr9 (snd (nth (S k) (st :: sts) st)) = tr9 (snd st).
Proof. exact seth_hill_history_invariants. Qed.
Theorem C09_seth_hill_commit_invariance : forall pw (l : @law R) mu kappa dt dt' H (st st' : @tstate R),
  0 < mu -> law_admissible l 0 -> 0 < law_Y0 l -> 0 <= fst st ->
  nondegenerate (strain_seth_hill pw H st) -> nondegenerate (strain_seth_hill pw H st') ->
  @state_new_add R NumR (strain_seth_hill pw) l NoRate mu dt H st = Some st' ->
  strain_seth_hill pw H st' = sub9 (strain_seth_hill pw H st) (smul9 (fst st' - fst st) (flowdir (strain_seth_hill pw H st))) /\
  trial_mises mu (strain_seth_hill pw H st') - @h_flow R NumR l (fst st') <= @tolY R NumR l /\
  @state_new_add R NumR (strain_seth_hill pw) l NoRate mu dt' H st' = Some st' /\
  @energy_add R NumR (strain_seth_hill pw) l NoRate mu kappa dt' H st' = @energy_add R NumR (strain_seth_hill pw) l NoRate mu kappa dt H st.
Proof. exact commit_invariance_seth_hill. Qed.

(* ---------- tensor level, FINITE-DEFORMATION kinematics ('large deformations', the default; model/M_C09F.v: regenerated logarithmic trial
   strain, state_increment of M_C09T, and the regenerated tail of compute_state_new_finite_deformations
   FpNew = TensorMath.exp_symm(stateInc[PLASTIC_DISTORTION]) @ FpOld).  log_sqrt_symm / exp_symm are the spectral functions
   V diag(f(lam)) V^T of model/M_C11s.v over eigen-solvers eighL / eighE; `solver_ok eigh` = the solver returns an orthogonal V and the
   eigenvalues with V diag(lam) V^T = A at every SYMMETRIC A (L_C11u; such a solver exists: eigh_sym, the spectral theorem of L_C11e) ---------- *)
(* what a step returns: the scalar update at the trial Mises stress of the logarithmic trial strain, multiplicative update of Fp *)
Theorem C09_finite_step : forall (lss expm : @fn9 R) (l : @law R) (r : @rate R) mu dt H (st st' : @tstate R),
  @state_new_fin R NumR lss expm l r mu dt H st = Some st' ->
  exists d, @delta_eqps R NumR l r mu (trial_mises mu (strain_log lss H st)) (fst st) dt = Some d /\
            st' = (fst st + d, mul9 (app9 expm (smul9 d (flowdir (strain_log lss H st)))) (snd st)).
Proof. exact state_new_fin_spec. Qed.
(* ISOCHORIC along ANY history of (displacement gradient, dt), all three laws, with or without rate sensitivity, from ANY state: eqps never
   decreases and det Fp keeps its value.  No premise on log_sqrt_symm's solver; exp_symm's solver must meet its contract on symmetric matrices *)
Theorem C09_finite_history_isochoric : forall (eighL eighE : M -> E3) (l : @law R) (r : @rate R) mu,
  solver_ok eighE -> 0 < mu -> rate_admissible r ->
  forall (steps : list (@m9 R * R)) (st : @tstate R) sts, law_admissible l (fst st) -> List.Forall (fun p => 0 < snd p) steps ->
  @history_fin R NumR (fin_lss eighL) (fin_expm eighE) l r mu steps st = Some sts ->
  forall k, (k < length sts)%nat ->
    fst (nth k (st :: sts) st) <= fst (nth (S k) (st :: sts) st) /\ det9 (snd (nth (S k) (st :: sts) st)) = det9 (snd st).
Proof. exact fin_history_isochoric_spectral. Qed.
(* the same for ANY pair of tensor functions with symmetric log_sqrt_symm values and Jacobi's formula on symmetric arguments *)
Theorem C09_finite_history_isochoric_general : forall (lss expm : @fn9 R) (l : @law R) (r : @rate R) mu,
  (forall C, sym9 (app9 lss C)) -> jacobi_on_symmetric expm -> 0 < mu -> rate_admissible r ->
  forall (steps : list (@m9 R * R)) (st : @tstate R) sts, law_admissible l (fst st) -> List.Forall (fun p => 0 < snd p) steps ->
  @history_fin R NumR lss expm l r mu steps st = Some sts ->
  forall k, (k < length sts)%nat ->
    fst (nth k (st :: sts) st) <= fst (nth (S k) (st :: sts) st) /\ det9 (snd (nth (S k) (st :: sts) st)) = det9 (snd st).
Proof. exact fin_history_invariants. Qed.
(* with the eigen-solver constructed in L_C11e.v NOTHING is assumed about the matrix functions: from the virgin state det Fp = 1 throughout *)
Theorem C09_finite_history_isochoric_unconditional : forall (l : @law R) (r : @rate R) mu, 0 < mu -> rate_admissible r ->
  forall (steps : list (@m9 R * R)) sts, law_admissible l 0 -> List.Forall (fun p => 0 < snd p) steps ->
  @history_fin R NumR (fin_lss eigh_sym) (fin_expm eigh_sym) l r mu steps virgin_fin = Some sts ->
  forall k, (k < length sts)%nat ->
    fst (nth k (virgin_fin :: sts) virgin_fin) <= fst (nth (S k) (virgin_fin :: sts) virgin_fin) /\
    det9 (snd (nth (S k) (virgin_fin :: sts) virgin_fin)) = 1.
Proof. exact fin_history_isochoric_unconditional. Qed.
(* the coaxial update: recomputed from the committed state (eqps + d, exp_symm(d N) Fp) the logarithmic trial strain is Ee_trial - d N *)
Theorem C09_finite_coaxial_update : forall (eighL eighE : M -> E3), solver_ok eighL -> solver_ok eighE ->
  forall (H : @m9 R) (eo eo' d : R) (Fp : @m9 R),
  let lss := @fin_lss R NumR eighL in let expm := @fin_expm R NumR eighE in
  mdet (defgrad (of9 H)) <> 0 -> mdet (of9 Fp) <> 0 -> nondegenerate (strain_log lss H (eo, Fp)) ->
  strain_log lss H (eo', mul9 (app9 expm (smul9 d (flowdir (strain_log lss H (eo, Fp))))) Fp)
  = axpy9 d (flowdir (strain_log lss H (eo, Fp))) (strain_log lss H (eo, Fp)).
Proof. exact strain_log_commit. Qed.
(* committing the state (rate-independent laws; deviators above the code's flow-direction threshold; F and Fp invertible): at the same
   displacement gradient the committed state gives (i) the elastic strain the update produced, (ii) a stress on or inside the yield surface to
   the solver tolerance in tensor terms, (iii) no further change of eqps AND of Fp (tensor-level idempotence; exp_symm(0) = I for every
   decomposition), (iv) the same energy density, (v) the same det Fp *)
Theorem C09_finite_commit_invariance : forall (eighL eighE : M -> E3), solver_ok eighL -> solver_ok eighE ->
  forall (l : @law R) mu kappa dt dt' H (st st' : @tstate R),
  let lss := @fin_lss R NumR eighL in let expm := @fin_expm R NumR eighE in
  0 < mu -> law_admissible l 0 -> 0 < law_Y0 l -> 0 <= fst st ->
  det9 (add9 H id9) <> 0 -> det9 (snd st) <> 0 ->
  nondegenerate (strain_log lss H st) -> nondegenerate (strain_log lss H st') ->
  @state_new_fin R NumR lss expm l NoRate mu dt H st = Some st' ->
  strain_log lss H st' = sub9 (strain_log lss H st) (smul9 (fst st' - fst st) (flowdir (strain_log lss H st))) /\
  trial_mises mu (strain_log lss H st') - @h_flow R NumR l (fst st') <= @tolY R NumR l /\
  @state_new_fin R NumR lss expm l NoRate mu dt' H st' = Some st' /\
  @energy_fin R NumR lss l NoRate mu kappa dt' H st' = @energy_fin R NumR lss l NoRate mu kappa dt H st /\
  det9 (snd st') = det9 (snd st).
Proof. exact commit_invariance_fin. Qed.
Theorem C09_finite_commit_invariance_unconditional : forall (l : @law R) mu kappa dt dt' H (st st' : @tstate R),
  let lss := @fin_lss R NumR eigh_sym in let expm := @fin_expm R NumR eigh_sym in
  0 < mu -> law_admissible l 0 -> 0 < law_Y0 l -> 0 <= fst st ->
  det9 (add9 H id9) <> 0 -> det9 (snd st) <> 0 ->
  nondegenerate (strain_log lss H st) -> nondegenerate (strain_log lss H st') ->
  @state_new_fin R NumR lss expm l NoRate mu dt H st = Some st' ->
  strain_log lss H st' = sub9 (strain_log lss H st) (smul9 (fst st' - fst st) (flowdir (strain_log lss H st))) /\
  trial_mises mu (strain_log lss H st') - @h_flow R NumR l (fst st') <= @tolY R NumR l /\
  @state_new_fin R NumR lss expm l NoRate mu dt' H st' = Some st' /\
  @energy_fin R NumR lss l NoRate mu kappa dt' H st' = @energy_fin R NumR lss l NoRate mu kappa dt H st /\
  det9 (snd st') = det9 (snd st).
Proof. exact commit_invariance_fin_unconditional. Qed.

(* ---------- "the update never returns NaN": composition with the C17 result contract.  root_call = the find_root call of update_state
   (residual, slope, guess = bracket midpoint, bracket [eqps_old, elastic-predictor bound], 50 iterations, x_tol = 0, r_tol = tol) ---------- *)
(* for ANY flow stress that does not drop over the bracket the ONLY NaN exit is the iteration cap of the root finder (not "not bracketed",
   not 0/0, not fuel), and then the hardening is not flat over the bracket *)
Theorem C09_nan_only_by_iteration_cap : forall (Yf dYf : R -> R) (mu tol : R), 0 < mu -> 0 <= tol -> forall s eo,
  (tol < s - Yf eo -> Yf eo <= Yf (ubR Yf mu s eo)) ->
  @delta_eqps_gen R NumR Yf dYf mu tol s eo = None ->
  tol < s - Yf eo /\ tol < Yf (ubR Yf mu s eo) - Yf eo /\
  exists it F dx, root_call Yf dYf mu tol s eo = Res None false it F dx IterCap /\ 50 <= it.
Proof. exact nan_only_by_iteration_cap. Qed.
Theorem C09_update_defined_unless_cap : forall (Yf dYf : R -> R) (mu tol : R), 0 < mu -> 0 <= tol -> forall s eo,
  (tol < s - Yf eo -> Yf eo <= Yf (ubR Yf mu s eo)) ->
  (forall it F dx, root_call Yf dYf mu tol s eo <> Res None false it F dx IterCap) ->
  exists d, @delta_eqps_gen R NumR Yf dYf mu tol s eo = Some d.
Proof. exact update_defined_unless_cap. Qed.
Theorem C09_nan_only_by_iteration_cap_laws : forall (l : @law R) mu s eo dt, 0 < mu -> law_admissible l eo ->
  @delta_eqps R NumR l NoRate mu s eo dt = None ->
  exists it F dx,
    root_call (fun e => @h_flow R NumR l e + @k_flow R NumR NoRate e eo dt) (fun e => @h_slope R NumR l e + @k_slope R NumR NoRate e eo dt) mu (@tolY R NumR l) s eo
    = Res None false it F dx IterCap /\ 50 <= it.
Proof. exact nan_only_by_iteration_cap_laws. Qed.
(* flat hardening over the bracket (perfect plasticity, saturated Voce): a number, namely the elastic-predictor bound *)
Theorem C09_flat_hardening_defined : forall (Yf dYf : R -> R) (mu tol : R), 0 < mu -> forall s eo,
  tol < s - Yf eo -> Rabs (Yf (ubR Yf mu s eo) - Yf eo) <= tol ->
  @delta_eqps_gen R NumR Yf dYf mu tol s eo = Some ((s - Yf eo) / (3 * mu)).
Proof. exact flat_hardening_defined. Qed.
(* LINEAR hardening (H >= 0, perfect plasticity included): the update ALWAYS returns a number -- the residual is affine, the first Newton
   iterate from the bracket midpoint is the exact root, is in range and passes the decrease test, the regenerated loop body ends converged *)
Theorem C09_linear_hardening_never_nan : forall Y0 H mu s eo dt, 0 < mu -> 0 <= Y0 -> 0 <= H ->
  exists d, @delta_eqps R NumR (Linear Y0 H) NoRate mu s eo dt = Some d.
Proof. exact linear_hardening_never_nan. Qed.

(* NOT PROVED: (a) "the update never returns NaN" -- false of the faithful model in general: the C17 root finder can hit its iteration cap
   (C17_cap_refuted, finding F7; inside the J2 update: F13, rate sensitive).  Round 4: for every flow stress that does not drop over the bracket
   (all rate-independent laws with admissible constants) the iteration cap is the ONLY NaN exit (C09_nan_only_by_iteration_cap[_laws],
   C09_update_defined_unless_cap: "not bracketed", 0/0 and fuel are excluded by the C17 result contract); flat hardening returns the
   elastic-predictor bound (C09_flat_hardening_defined; finding F12 fixed by 8aadfbe); LINEAR hardening NEVER returns NaN
   (C09_linear_hardening_never_nan, one Newton step of the regenerated loop body).  Still open: that 50 iterations suffice for Voce / power-law
   hardening and for rate sensitivity (for the latter it is false in binary64: F13) -- every theorem about those laws stays conditional on `= Some d`.
   (b) CLOSED (round 3): the rate-sensitivity potential's derivative / one-sided derivative at eqps_old / monotonicity are
   C09_rate_flow, C09_rate_flow_at_old, C09_rate_monotone; the rate-sensitive update and minimality are
   C09_update_rate_sensitive_laws, C09_variational_rate_sensitive_laws.  Tied by correspondence only: jax.grad of the regenerated
   energy IS the written-out h_flow + k_flow (stream `flow_stress`; stream `factory_history`: the hardening object the FACTORY hands out is the
   one the property set asks for, for several models created in one process).
   (c) scalar <-> tensor history: CLOSED for all three kinematics.  'small deformations' (C09_tensor_residual_is_scalar_residual,
   C09_small_history_invariants; stream `tensor_small`), 'seth hill' (C09_seth_hill_*: regenerated strain kernel, pow_symm arbitrary; not executed
   at binary64), and -- round 4 -- 'large deformations' (C09_finite_*: regenerated logarithmic strain + regenerated multiplicative tail
   exp_symm(dEp) @ FpOld; isochoric along ANY history with det(exp_symm A) = exp(tr A) PROVED for the spectral exponential from the eigen-solver
   contract, and unconditionally with the solver of L_C11e.v; stream `tensor_finite` with the code's own log_sqrt_symm / exp_symm values as oracles).
   The old C09_isochoric (Jacobi's formula as a premise) is kept; it is subsumed by C09_finite_history_isochoric.
   What is NOT modelled for 'large deformations': the eigen-solver eigen_sym33_unit itself (C12's subject) -- the theorems hold for every solver
   meeting the eigh contract on symmetric matrices; at (nearly) coinciding eigenvalues the real solver meets it only to rounding (C12 findings).
   (d) energy before/after committing: CLOSED for all three kinematics (C09_small_commit_invariance, C09_seth_hill_commit_invariance,
   C09_finite_commit_invariance[_unconditional], clause (iv)); guards for 'large deformations': F and Fp invertible, both trial deviators above
   the flow-direction threshold.  The STRESS clause is proved only in the form "same elastic strain, hence same elastic stress
   2 mu dev(Ee) + kappa tr(Ee) I" ((i) and (iii)); that jax.grad of the energy w.r.t. the displacement gradient BEFORE committing equals that
   tensor (envelope argument: d(potential)/d(eqps) = 0 at the root, N:dN = 0) is not proved -- tested by L2 (commit_invariance, dP).
   (e) the dummy flow direction (vanishing deviator, below 1e-16): isochoric / irreversible hold there too (C09_flow_direction both branches);
   commit invariance is not claimed there (the dummy direction is not coaxial with the trial strain). *)

Example C09_nonvacuous :
  (forall x y : R, x <= y -> @h_flow R NumR (Linear 1 2) x <= @h_flow R NumR (Linear 1 2) y) /\
  (@is_yielding R NumR (fun e => @h_flow R NumR (Linear 1 2) e) (1 / 10) 3 0 = true) /\
  @delta_eqps_gen R NumR (fun _ => 1) (fun _ => 0) 1 (1 / 10) 1 0 = Some 0.
Proof. exact nonvacuous_C09. Qed.
Example C09_rate_nonvacuous :
  @k_flow R NumR (Rate 2 1 1) 1 0 1 = 2 /\ @k_energy R NumR (Rate 2 1 1) 1 0 1 = 1 /\
  law_admissible (Linear 1 2) 0 /\ law_admissible (Voce 1 2 (1 / 10)) 0 /\ law_admissible (PowerLaw 1 4 (1 / 100)) 0.
Proof. exact nonvacuous_C09_rate. Qed.
Example C09_tensor_nonvacuous :
  nondegenerate (1, 0, 0, 0, 0, 0, 0, 0, 0) /\ law_admissible (Linear 1 2) 0 /\ rate_admissible (Rate 1 2 3) /\
  @state_new_small R NumR (Linear 1 2) NoRate 1 1 (0, 0, 0, 0, 0, 0, 0, 0, 0) (0, (0, 0, 0, 0, 0, 0, 0, 0, 0))
  = Some (0 + 0, add9 (0, 0, 0, 0, 0, 0, 0, 0, 0) (smul9 0 (flowdir (strain_small (0, 0, 0, 0, 0, 0, 0, 0, 0) (0, (0, 0, 0, 0, 0, 0, 0, 0, 0)))))).
Proof. exact nonvacuous_C09_tensor. Qed.
Example C09_tensor_residual_nonvacuous : forall (mu eo : R) (E : @m9 R),
  exists DelT D2T : R -> R, (forall e, is_derive (fun x => @elastic_along R NumR mu E eo x) e (DelT e)) /\ (forall e, is_derive DelT e (D2T e)).
Proof. exact tensor_residual_nonvacuous. Qed.

Example C09_finite_nonvacuous :
  let lss := @fin_lss R NumR eigh_sym in let expm := @fin_expm R NumR eigh_sym in
  det9 (add9 Hs id9) <> 0 /\ det9 (snd (@virgin_fin R NumR)) <> 0 /\ nondegenerate (strain_log lss Hs virgin_fin) /\
  law_admissible (Linear 10 2) 0 /\ 0 < law_Y0 (Linear 10 2) /\
  exists st', @state_new_fin R NumR lss expm (Linear 10 2) NoRate 1 1 Hs virgin_fin = Some st' /\ nondegenerate (strain_log lss Hs st').
Proof. exact nonvacuous_C09_finite. Qed.

Print Assumptions C09_flow_direction.
Print Assumptions C09_irreversible.
Print Assumptions C09_yield_consistent.
Print Assumptions C09_variational.
Print Assumptions C09_idempotent_rate_independent.
Print Assumptions C09_isochoric.
Print Assumptions C09_update_rate_sensitive_laws.
Print Assumptions C09_variational_rate_sensitive_laws.
Print Assumptions C09_small_history_invariants.
Print Assumptions C09_small_commit_invariance.
Print Assumptions C09_finite_commit_invariance_unconditional.
Print Assumptions C09_linear_hardening_never_nan.
