(* C06 -- property theorems only (each closed by `exact <lemma>`).  Subjects: the scalar kernels regenerated from
   optimism/EquationSolver.py, EquationSolverSubspace.py (gen/) and the hand models model/M_C06_*.v at T := R.
   Vectors are lists of reals of a common length n (`len n v`); `a ⋅ b` is the dot product the code computes. *)
From Coq Require Import Reals List ZArith.
From Coq Require Floats.PrimFloat.
From OV.base Require Import Num.
From OV.gen Require Import Gen_EquationSolver Gen_EquationSolverSubspace.
From OV.model Require Import M_C06_Vec M_C06_CG M_C06_Treigen.
From OV.proofs Require Import L_C06_Vec L_C06_CG L_C06_CGpc L_C06_CGss L_C06_Dogleg L_C06_Treigen L_C06_TreigenFull.
Import ListNotations.
Local Open Scope R_scope.

(* tau of project_to_boundary_with_coefs (the generated source expression, read off at z = 0, d = 1): non-negative
   discriminant, tau >= 0, and |z + tau d|^2 = Delta^2 whenever the coefficients are the inner products *)
Theorem C06_tau_on_boundary : forall D zz zd dd, zz <= D * D -> 0 < dd ->
  let tau := @project_to_boundary_with_coefs R NumR 0 1 D zz zd dd in
  0 <= (D * D - zz) * dd + zd * zd /\ 0 <= tau /\ zz + 2 * tau * zd + tau * tau * dd = D * D.
Proof. exact tau_spec. Qed.
Theorem C06_tau_on_boundary_subspace : forall D zz zd dd, zz <= D * D -> 0 < dd ->
  let tau := @ss_project_to_boundary_with_coefs R NumR 0 1 D zz zd dd in
  0 <= tau /\ zz + 2 * tau * zd + tau * tau * dd = D * D.
Proof. exact tau_ss_spec. Qed.
Theorem C06_project_on_boundary : forall n (z d : list R) D, len n z -> len n d -> z ⋅ z <= D * D -> 0 < d ⋅ d ->
  let out := @project_coefs R NumR z d D (z ⋅ z) (z ⋅ d) (d ⋅ d) in
  len n out /\ out ⋅ out = D * D /\ exists t, 0 <= t /\ out = raxpy z t d.
Proof. exact project_on_boundary. Qed.

(* Steihaug-Toint CG (solve_trust_region_minimization), for an ARBITRARY symmetric linear Hessian oracle (definite,
   indefinite or singular) and any positive preconditioner oracle, both inner-product modes:
   never increases the model; beats every step along the Cauchy direction inside the region (hence the Cauchy step);
   'interior' => Newton residual below the CG tolerance; Euclidean mode: inside the radius, on it when tagged
   boundary / negative curvature. *)
Theorem C06_cg_step_properties : forall n (Hf Pf : list R -> list R) pcip D cg_tol cg_ratio (x g : list R),
  (forall v, len n v -> len n (Hf v)) -> (forall v, len n v -> len n (Pf v)) ->
  (forall a k b, len n a -> len n b -> Hf (raxpy a k b) = raxpy (Hf a) k (Hf b)) ->
  (forall a b, len n a -> len n b -> a ⋅ Hf b = Hf a ⋅ b) ->
  (forall v, len n v -> 0 < v ⋅ v -> 0 < v ⋅ Pf v) ->
  cg_tol <> 0 -> len n x -> len n g ->
  forall max_cg_iters_minus_1,
  let res := @solve_trust_region_minimization R NumR Hf Pf pcip D cg_tol cg_ratio (S max_cg_iters_minus_1) x g in
  let d0 := rneg (Pf g) in
  let dd0 := if pcip then g ⋅ Pf g else d0 ⋅ d0 in
  len n (cg_z res) /\
  @qmodel R NumR Hf g (cg_z res) <= 0 /\
  (cg_iters res <> 0%nat -> forall t, 0 <= t -> t * t * dd0 <= D * D ->
     @qmodel R NumR Hf g (cg_z res) <= @qmodel R NumR Hf g (rscale t d0)) /\
  (cg_tag res = Interior ->
     radd g (Hf (cg_z res)) ⋅ radd g (Hf (cg_z res)) < @cg_tol_squared R NumR cg_tol cg_ratio g) /\
  (pcip = false -> cg_z res ⋅ cg_z res <= D * D /\
                   (is_on_boundary (cg_tag res) = true -> cg_z res ⋅ cg_z res = D * D)).
Proof. exact cg_solve_correct. Qed.
(* use_preconditioned_inner_product_for_cg=True with precond = M^-1, M symmetric positive definite (the CG conjugacy
   induction: residuals orthogonal to ALL earlier directions, directions H-conjugate): every returned step lies inside
   the trust region measured in the M-norm, and on its boundary when tagged boundary / negative curvature. *)
Theorem C06_cg_radius_preconditioned : forall n (Hf Pf Mf : list R -> list R) D cg_tol cg_ratio (x g : list R),
  (forall v, len n v -> len n (Hf v)) -> (forall v, len n v -> len n (Pf v)) ->
  (forall a b, len n a -> len n b -> a ⋅ Hf b = Hf a ⋅ b) ->
  (forall a b, len n a -> len n b -> a ⋅ Mf b = Mf a ⋅ b) ->
  (forall v, len n v -> Mf (Pf v) = v) ->
  (forall v, len n v -> 0 < v ⋅ v -> 0 < v ⋅ Mf v) ->
  cg_tol <> 0 -> len n x -> len n g ->
  forall max_cg_iters_minus_1,
  let res := @solve_trust_region_minimization R NumR Hf Pf true D cg_tol cg_ratio (S max_cg_iters_minus_1) x g in
  len n (cg_z res) /\ cg_z res ⋅ Mf (cg_z res) <= D * D /\
  (is_on_boundary (cg_tag res) = true -> cg_z res ⋅ Mf (cg_z res) = D * D).
Proof. exact cg_solve_radius_pc. Qed.
(* ... because at EVERY pass k the loop reaches, the scalars zz, zd, dd it tracks through update_step_length_squared and
   cg_inner_products_preconditioned (Gould's recurrences, the generated kernels) equal the M-inner products z.Mz, z.Md, d.Md
   of the iterates.  `cg_iter k` is the loop state after k continuing passes (proofs/L_C06_CGpc.v, built from the same
   generated kernels); the last conjunct says it IS the state of the model's loop: running the solver with k + f passes
   allowed is running the remaining f passes of cg_loop from that state. *)
Theorem C06_cg_gould_recurrences : forall n (Hf Pf Mf : list R -> list R) D cg_tol cg_ratio (x g : list R),
  (forall v, len n v -> len n (Hf v)) -> (forall v, len n v -> len n (Pf v)) ->
  (forall a b, len n a -> len n b -> a ⋅ Hf b = Hf a ⋅ b) ->
  (forall a b, len n a -> len n b -> a ⋅ Mf b = Mf a ⋅ b) ->
  (forall v, len n v -> Mf (Pf v) = v) ->
  (forall v, len n v -> 0 < v ⋅ v -> 0 < v ⋅ Mf v) ->
  cg_tol <> 0 -> len n x -> len n g ->
  forall k s, let tol2 := @cg_tol_squared R NumR cg_tol cg_ratio g in
  ~ g ⋅ g < tol2 ->
  cg_iter Hf Pf D tol2 k (cg_start Pf x g) = Some s ->
  s_zz s = s_z s ⋅ Mf (s_z s) /\ s_zd s = s_z s ⋅ Mf (s_d s) /\ s_dd s = s_d s ⋅ Mf (s_d s) /\ s_zz s <= D * D /\
  forall f, @solve_trust_region_minimization R NumR Hf Pf true D cg_tol cg_ratio (k + f) x g =
            @cg_loop R NumR Hf Pf true D f k tol2 (rneg (Pf g)) (s_z s) (s_r s) (s_d s) (s_rPr s) (s_zz s) (s_zd s) (s_dd s).
Proof. exact cg_gould_recurrences. Qed.
(* the zero-iteration return (|g|^2 < cgTolSquared: the loop is not entered, the zero step is returned tagged 'interior' with 0
   iterations -- and ONLY then are 0 iterations reported).  The zero step does NOT beat the Cauchy step unless g = 0; what holds instead,
   for every step t*d0 along the Cauchy direction d0 = -P g inside the Euclidean ball of radius D:
     m(0) - m(t d0)  =  t (g.Pg) - t^2/2 (d0.H d0)  <=  D sqrt(cgTolSquared) - t^2/2 (d0.H d0),
   i.e. the decrease forgone is below D*sqrt(cgTolSquared) when the curvature along d0 is >= 0 and exceeds it only by the
   negative-curvature term.  (No positivity of the preconditioner is needed; H symmetric linear.) *)
Theorem C06_cg_zero_iteration_return : forall n (Hf Pf : list R -> list R) pcip D cg_tol cg_ratio (x g : list R),
  (forall v, len n v -> len n (Hf v)) -> (forall v, len n v -> len n (Pf v)) ->
  (forall a k b, len n a -> len n b -> Hf (raxpy a k b) = raxpy (Hf a) k (Hf b)) ->
  (forall a b, len n a -> len n b -> a ⋅ Hf b = Hf a ⋅ b) ->
  len n x -> len n g ->
  forall max_cg_iters_minus_1,
  let tol2 := @cg_tol_squared R NumR cg_tol cg_ratio g in
  let d0 := rneg (Pf g) in
  let res := @solve_trust_region_minimization R NumR Hf Pf pcip D cg_tol cg_ratio (S max_cg_iters_minus_1) x g in
  (cg_iters res = 0%nat <-> g ⋅ g < tol2) /\
  (g ⋅ g < tol2 ->
     cg_z res = rzero x /\ cg_tag res = Interior /\ @qmodel R NumR Hf g (cg_z res) = 0 /\
     forall t, 0 <= D -> 0 <= t -> t * t * (d0 ⋅ d0) <= D * D ->
       @qmodel R NumR Hf g (cg_z res) - @qmodel R NumR Hf g (rscale t d0) <= D * sqrt tol2 - / 2 * (t * t) * (d0 ⋅ Hf d0)).
Proof. exact cg_zero_iteration. Qed.
(* EquationSolverSubspace.trust_region_cg (model/M_C06_CG.v trust_region_cg, which is handed Pr and HPr by its caller), called with
   Pr = precond r and HPr = hess_vec Pr, for an ARBITRARY symmetric linear Hessian oracle and any positive preconditioner oracle: the step
   lies inside the Euclidean trust region and on its boundary when tagged boundary / negative curvature; the model value never increases
   and, when at least one iteration is reported, is <= that of every step along the Cauchy direction inside the region; 'interior' =>
   Newton residual below the CG tolerance; with 0 iterations the clause of the theorem above holds. *)
Theorem C06_subspace_cg_step_properties : forall n (Hf Pf : list R -> list R) D cg_tol cg_ratio (x g : list R),
  (forall v, len n v -> len n (Hf v)) -> (forall v, len n v -> len n (Pf v)) ->
  (forall a k b, len n a -> len n b -> Hf (raxpy a k b) = raxpy (Hf a) k (Hf b)) ->
  (forall a b, len n a -> len n b -> a ⋅ Hf b = Hf a ⋅ b) ->
  (forall v, len n v -> 0 < v ⋅ v -> 0 < v ⋅ Pf v) ->
  cg_tol <> 0 -> len n x -> len n g ->
  forall max_cg_iters_minus_1,
  let tol2 := @cg_tol_squared R NumR cg_tol cg_ratio g in
  let d0 := rneg (Pf g) in
  let res := @trust_region_cg R NumR Hf Pf D cg_tol cg_ratio (S max_cg_iters_minus_1) x g (Pf g) (Hf (Pf g)) in
  let z := fst (fst res) in let tag := snd (fst res) in let iters := snd res in
  len n z /\
  @qmodel R NumR Hf g z <= 0 /\
  (iters <> 0%nat -> forall t, 0 <= t -> t * t * (d0 ⋅ d0) <= D * D ->
     @qmodel R NumR Hf g z <= @qmodel R NumR Hf g (rscale t d0)) /\
  (iters = 0%nat -> 0 <= D -> forall t, 0 <= t -> t * t * (d0 ⋅ d0) <= D * D ->
     @qmodel R NumR Hf g z - @qmodel R NumR Hf g (rscale t d0) <= D * sqrt tol2 - / 2 * (t * t) * (d0 ⋅ Hf d0)) /\
  (tag = Interior -> radd g (Hf z) ⋅ radd g (Hf z) < tol2) /\
  z ⋅ z <= D * D /\ (is_on_boundary tag = true -> z ⋅ z = D * D).
Proof. exact ss_solve_correct. Qed.
(* formerly NOT PROVED (a) -- radius clause in the preconditioned inner product -- is closed by C06_cg_radius_preconditioned / C06_cg_gould_recurrences;
   (b) -- the Cauchy clause when the solver returns before iterating -- is closed by C06_cg_zero_iteration_return: the clause as the property
   words it is false there (the zero step does not beat the Cauchy step unless g = 0) and the theorem states the gap that holds;
   (c) -- EquationSolverSubspace.trust_region_cg -- is closed by C06_subspace_cg_step_properties (under the contract Pr = precond r,
   HPr = hess_vec Pr that its only caller establishes; the harness passes exactly these).
   NOT PROVED: (d) the theorems are over exact reals: in binary64 CG loses conjugacy, so the recurrences drift from the M-inner products
   over many passes; the harness measures that drift on the implementation (stream `gould`) against a stated tolerance;
   (e) the zero-iteration gap in the preconditioned inner product (region t^2 g.Pg <= D^2): the bound there needs a norm of the
   preconditioner; only the Euclidean-region statement is proved. *)

(* dogleg_step: on the path origin -> Cauchy point -> quasi-Newton point, inside the radius in the mat_mul norm *)
Theorem C06_dogleg : forall n (M : list R -> list R) D,
  (forall v, len n v -> len n (M v)) ->
  (forall a k b, len n a -> len n b -> M (raxpy a k b) = raxpy (M a) k (M b)) ->
  (forall k a, len n a -> M (rscale k a) = rscale k (M a)) ->
  (forall a b, len n a -> len n b -> a ⋅ M b = M a ⋅ b) ->
  (forall v, len n v -> 0 <= v ⋅ M v) -> D <> 0 ->
  forall cp np, len n cp -> len n np ->
  let r := @dogleg_step R NumR M cp np D in
  len n r /\ r ⋅ M r <= D * D /\
  ((exists c, 0 < c <= 1 /\ r = rscale c cp) \/ r = cp \/
   (exists t, 0 <= t <= 1 /\ r = raxpy cp t (rsub np cp)) \/ r = np).
Proof. exact dogleg_correct. Qed.

(* More'-Sorensen sufficiency: what a correct eigen-solver must return, and what the harness checks on treigen.solve *)
Theorem C06_ms_sufficiency : forall n (A : list R -> list R) (b p : list R) lam Delta,
  (forall v, len n v -> len n (A v)) ->
  (forall a k c, len n a -> len n c -> A (raxpy a k c) = raxpy (A a) k (A c)) ->
  (forall a c, len n a -> len n c -> a ⋅ A c = A a ⋅ c) ->
  len n b -> len n p -> 0 <= lam ->
  (forall w, len n w -> A p ⋅ w + lam * (p ⋅ w) = - (b ⋅ w)) ->
  (forall v, len n v -> 0 <= v ⋅ A v + lam * (v ⋅ v)) ->
  p ⋅ p <= Delta * Delta -> lam * (Delta * Delta - p ⋅ p) = 0 ->
  forall s, len n s -> s ⋅ s <= Delta * Delta -> energyR A b p <= energyR A b s.
Proof. exact ms_sufficiency_full. Qed.

(* treigen.solve, hard case (as repaired by repo commit 5a997d7: z = v[:,0], sign +1 at p.z = 0): for a unit vector z and
   |p| < Delta the completed step p + tau z lies on the boundary *)
Theorem C06_treigen_hard_case_on_boundary : forall n (p z : list R) Delta, len n p -> len n z -> z ⋅ z = 1 ->
  p ⋅ p < Delta * Delta ->
  let x := @hard_case_step R NumR p z Delta in len n x /\ x ⋅ x = Delta * Delta.
Proof. exact hard_case_on_boundary. Qed.
(* ... and it minimises the model over the ball up to 2|tau| eps Delta when p solves the shifted system (A + lam I) p = -b,
   A + lam I >= 0, lam >= 0 and z is a unit eigenvector with (A + lam I) z = eps z, eps >= 0 (the code shifts the lowest
   eigenvalue by eps = 1e-12*mean|sig|; with eps = 0 this is exact global optimality in the hard case).
   The eigen-decomposition facts are hypotheses here (numpy eigh is an oracle). *)
Theorem C06_treigen_hard_case_near_optimal : forall n (A : list R -> list R) (b p z : list R) lam eps tau Delta,
  (forall v, len n v -> len n (A v)) ->
  (forall a k c, len n a -> len n c -> A (raxpy a k c) = raxpy (A a) k (A c)) ->
  (forall a c, len n a -> len n c -> a ⋅ A c = A a ⋅ c) ->
  len n b -> len n p -> len n z -> 0 <= lam -> 0 <= eps -> 0 <= Delta ->
  (forall w, len n w -> A p ⋅ w + lam * (p ⋅ w) = - (b ⋅ w)) ->
  (forall v, len n v -> 0 <= v ⋅ A v + lam * (v ⋅ v)) ->
  z ⋅ z = 1 ->
  (forall w, len n w -> A z ⋅ w + lam * (z ⋅ w) = eps * (z ⋅ w)) ->
  raxpy p tau z ⋅ raxpy p tau z = Delta * Delta ->
  forall s, len n s -> s ⋅ s <= Delta * Delta ->
  energyR A b (raxpy p tau z) <= energyR A b s + 2 * Rabs tau * eps * Delta.
Proof. exact hard_case_near_optimal_full. Qed.
(* zero model Hessian (finding F2b, fixed by repo commit 4d37146): the binary64 model takes the early return `sigScale == 0` and yields
   -(Delta/|b|) b  (A = 0, b = (3,-4), Delta = 10 gives (-6, 8) exactly), and the zero step when b = 0 as well.
   [replaces C06_treigen_zero_hessian_nan_binary64, which recorded the NaN the code returned before the fix] *)
Theorem C06_treigen_zero_hessian_binary64 :
  let I2 := [[F 1 0; F 0 0]; [F 0 0; F 1 0]] in
  let res := @treigen_solve PrimFloat.float NumF 100 [F 0 0; F 0 0] I2 [F 3 0; F (-4) 0] (F 10 0) in
  let res0 := @treigen_solve PrimFloat.float NumF 100 [F 0 0; F 0 0] I2 [F 0 0; F 0 0] (F 10 0) in
  fst res = TZero /\ fencs (snd res) = fencs [F (-6) 0; F 8 0] /\ fst res0 = TZero /\ fencs (snd res0) = fencs [F 0 0; F 0 0].
Proof. exact treigen_zero_hessian_binary64. Qed.
(* the secular iteration stalls on this input in binary64 (finding F2c, fixed by repo commit 545a5c4): after ONE update the Newton correction
   is below the resolution of lam with |bError| > 1e-9.  The old uncapped `while` never ended there; the repaired loop leaves through
   `if lamNew == lam: break` -- for the source's cap of 100 and for any other cap >= 2 -- and through the end of the range for cap = 1.
   [replaces C06_treigen_secular_stalls_binary64, which recorded the non-termination of the old loop] *)
Theorem C06_treigen_secular_stall_exit_binary64 :
  fst (@treigen_solve PrimFloat.float NumF 100 stall_sig [[F 1 0; F 0 0]; [F 0 0; F 1 0]] stall_b stall_Delta) = TStalled 1 /\
  fst (@treigen_solve PrimFloat.float NumF 400 stall_sig [[F 1 0; F 0 0]; [F 0 0; F 1 0]] stall_b stall_Delta) = TStalled 1 /\
  fst (@treigen_solve PrimFloat.float NumF 2 stall_sig [[F 1 0; F 0 0]; [F 0 0; F 1 0]] stall_b stall_Delta) = TStalled 1.
Proof. exact treigen_secular_stall_exit_binary64. Qed.
Theorem C06_treigen_secular_cap_exit_binary64 :
  fst (@treigen_solve PrimFloat.float NumF 1 stall_sig [[F 1 0; F 0 0]; [F 0 0; F 1 0]] stall_b stall_Delta) = TCapped 1.
Proof. exact treigen_secular_cap_exit_binary64. Qed.
(* treigen.solve returns a global minimiser: ONE theorem about the model (model/M_C06_Treigen.v at T := R) of the code AS REPAIRED
   (repo commits 5a997d7, 4d37146, 545a5c4) from the contract of numpy's eigh -- sig ascending, V (a list of rows, square) orthogonal,
   A = V diag(sig) V^T; `transpose_n` is PROVED to be the transpose (x.(V y) = (V^T x).y), so V^T V = I, V V^T = I and the decomposition
   are stated as operator identities.  For EVERY matrix (the guard A <> 0 of the earlier version is gone), every Delta > 0 and every cap
   of the secular `for` (100 in the source; the loop terminates by construction, there is no out-of-fuel case):
   interior: |p| < Delta and p minimises the model over the ball of radius Delta;
   hard case: |p| = Delta and p minimises it up to 4 eps Delta^2, eps = 1e-12*mean|sig| (the code's shift of the lowest eigenvalue);
   zero Hessian (mean|sig| = 0): |p| <= Delta, = Delta unless b = 0, and p minimises the model over the ball (exactly);
   secular, left through the tolerance test after j <= cap updates: | |p| - Delta | <= 1e-9 Delta and p minimises the model over the ball of
            its own radius |p| (the Newton iterates on the secular equation stay on the side |p(lam)| >= Delta -- convexity of
            1/(1+hy)^2 -- so the returned multiplier is >= max(0, -sig_0) and More'-Sorensen applies);
   secular, left through the end of the range with |bError| > 1e-9 (capped): the step is OUTSIDE the trust region, |p| > (1+1e-9) Delta, it
            still minimises the model over the ball of its own radius |p| (hence beats every point of the trust region), exactly `cap`
            updates were made, and this exit is possible only while  cap * eps * 1e-9 <= |b|/Delta - eps  (each update raises lam by at
            least eps*1e-9 and sig_0 + lam never exceeds |b|/Delta);
   secular, left through `lamNew == lam` (stalled): NOT REACHABLE over R (the Newton correction is > 0 while bError > 1e-9); it is a
            binary64-only exit -- witness above; what the harness checks on such runs is stated in tools/props/c06.py. *)
Theorem C06_treigen_global_minimiser : forall k (A : list R -> list R) (sig : list R) (V : list (list R)) (b : list R),
  let n := S k in let Vt := @transpose_n R NumR n V in
  len n sig -> (forall row, In row V -> len n row) -> length V = n -> len n b ->
  (forall y, len n y -> @matvec R NumR Vt (@matvec R NumR V y) = y) ->
  (forall x, len n x -> @matvec R NumR V (@matvec R NumR Vt x) = x) ->
  (forall x, len n x -> A x = @matvec R NumR V (@vmul R NumR sig (@matvec R NumR Vt x))) ->
  (forall x, In x sig -> hd 0 sig <= x) ->
  forall Delta, 0 < Delta ->
  forall cap, let eps := 1 / 1000000000000 * @vmean_abs R NumR sig in
  match @treigen_solve R NumR cap sig V b Delta with
  | (TInterior, p) => len n p /\ p ⋅ p < Delta * Delta /\
                      forall s, len n s -> s ⋅ s <= Delta * Delta -> energyR A b p <= energyR A b s
  | (THard, p) => len n p /\ p ⋅ p = Delta * Delta /\
                  forall s, len n s -> s ⋅ s <= Delta * Delta ->
                  energyR A b p <= energyR A b s + 4 * eps * (Delta * Delta)
  | (TZero, p) => len n p /\ p ⋅ p <= Delta * Delta /\ (0 < b ⋅ b -> p ⋅ p = Delta * Delta) /\
                  forall s, len n s -> s ⋅ s <= Delta * Delta -> energyR A b p <= energyR A b s
  | (TSecular j, p) => len n p /\ Rabs (sqrt (p ⋅ p) - Delta) <= 1 / 1000000000 * Delta /\ (j <= cap)%nat /\
                       forall s, len n s -> s ⋅ s <= p ⋅ p -> energyR A b p <= energyR A b s
  | (TCapped j, p) => len n p /\ (1 + 1 / 1000000000) * Delta < sqrt (p ⋅ p) /\ j = cap /\
                      INR cap * (eps * (1 / 1000000000)) <= sqrt (b ⋅ b) / Delta - eps /\
                      forall s, len n s -> s ⋅ s <= p ⋅ p -> energyR A b p <= energyR A b s
  | (TStalled _, _) => False
  end.
Proof. exact treigen_minimiser. Qed.
(* the secular Newton iteration by itself, in eigen-coordinates (w_i = (V^T b)_i^2 >= 0, m a lower bound of the eigenvalues), for EVERY
   tolerance tol >= 0 and every cap, from any start lam0 with m + lam0 > 0 on the side |p(lam0)| >= Delta (N lam = |p(lam)|^2):
   the multiplier does not decrease, the final state is still on that side; the loop leaves through its tolerance test
   (|p| - Delta <= tol Delta) or through the end of the range -- never through `lamNew == lam` -- and leaving through the end of the range
   with the test still failing is possible only while  cap (m+lam0) tol <= sqrt(sum w)/Delta - (m+lam0). *)
Theorem C06_secular_newton_monotone_bounded : forall (w sig : list R) Delta lam0 tol m,
  length w = length sig -> (forall x, In x w -> 0 <= x) -> (forall x, In x sig -> m <= x) -> 0 < m + lam0 -> 0 < Delta -> 0 <= tol ->
  let N := fun lam => @pnorm_squared R NumR w (@vshift R NumR lam sig) in
  Delta <= sqrt (N lam0) ->
  forall cap,
  let res := @secular R NumR tol cap 0 w sig Delta lam0 (N lam0) ((sqrt (N lam0) - Delta) / Delta) in
  lam0 <= fst res /\ Delta <= sqrt (N (fst res)) /\
  match snd res with
  | TSecular j => sqrt (N (fst res)) - Delta <= tol * Delta /\ (j <= cap)%nat
  | TCapped j => tol * Delta < sqrt (N (fst res)) - Delta /\ j = cap /\
                 INR cap * ((m + lam0) * tol) <= sqrt (@nsum R NumR w) / Delta - (m + lam0)
  | _ => False
  end.
Proof. exact secular_newton_spec. Qed.
(* hence TERMINATION of the Newton iteration on the secular equation for every tolerance > 0 (the uncapped `while` of the original code
   included): once the number of passes allowed exceeds (sqrt(sum w)/Delta - (m+lam0)) / ((m+lam0) tol) the loop has left through its
   tolerance test, with 0 <= |p| - Delta <= tol Delta.  (The bound is linear in 1/tol -- far from the quadratic rate observed, <= 9
   passes on all sampled inputs -- and with the code's start m + lam0 = eps it does not explain why 100 passes are enough.) *)
Theorem C06_secular_newton_terminates : forall (w sig : list R) Delta lam0 tol m,
  length w = length sig -> (forall x, In x w -> 0 <= x) -> (forall x, In x sig -> m <= x) -> 0 < m + lam0 -> 0 < Delta -> 0 < tol ->
  let N := fun lam => @pnorm_squared R NumR w (@vshift R NumR lam sig) in
  Delta <= sqrt (N lam0) ->
  forall cap, sqrt (@nsum R NumR w) / Delta - (m + lam0) < INR cap * ((m + lam0) * tol) ->
  exists lam' j, @secular R NumR tol cap 0 w sig Delta lam0 (N lam0) ((sqrt (N lam0) - Delta) / Delta) = (lam', TSecular j) /\
                 (j <= cap)%nat /\ lam0 <= lam' /\ 0 <= sqrt (N lam') - Delta <= tol * Delta.
Proof. exact secular_newton_terminates. Qed.
(* ... and an explicit contraction: with the eigenvalues in [m, M], M + lam <= amax, ONE Newton step from the side |p(lam)| >= Delta
   multiplies the relative radius error bError = (|p| - Delta)/Delta by at most 1 - (m + lam)/amax < 1 and keeps it >= 0
   (monotone convergence of the error to 0, linear rate at worst the inverse condition number of A + lam I). *)
Theorem C06_secular_newton_contracts : forall (w sig : list R) lam Delta m amax,
  length w = length sig -> (forall x, In x w -> 0 <= x) -> (forall x, In x sig -> m <= x) -> 0 < m + lam ->
  (forall x, In x sig -> x + lam <= amax) -> 0 < Delta ->
  let N := @pnorm_squared R NumR w (@vshift R NumR lam sig) in let Q := @qnorm_squared R NumR w (@vshift R NumR lam sig) in
  Delta <= sqrt N ->
  let be := (sqrt N - Delta) / Delta in
  let lam' := lam + N / Q * be in
  let be' := (sqrt (@pnorm_squared R NumR w (@vshift R NumR lam' sig)) - Delta) / Delta in
  0 <= be' <= (1 - (m + lam) / amax) * be.
Proof. exact secular_step_contracts. Qed.
(* formerly NOT PROVED ("treigen.solve returns a global minimiser as one theorem from the eigh contract") and ("termination of the secular
   loop": over R for every tolerance, and by construction for the capped loop) are closed by the theorems above; findings F2b, F2c are fixed.
   NOT PROVED: that the tolerance exit is reached within the source's 100 passes (the proved pass bound is linear in 1/tol and the proved
   contraction factor 1 - 1/cond(A + lam I) is close to 1 at the code's start lam = -sig_0 + eps; the quadratic rate observed is not proved;
   a capped exit is characterised above, measured never to occur); the eigh contract itself (numpy is an oracle: the harness
   measures V^T V = I, A = V diag(sig) V^T and the ordering on the logged output of every run); binary64 rounding (the theorems are over R;
   the harness compares per branch within stated tolerances; the stall exit exists only in binary64: the harness checks on every stalled
   run that the multiplier reached is admissible -- lam >= 0, sig_0 + lam > 0, the hypotheses of C06_treigen_shifted_step_optimal -- that
   the step is optimal for its own radius, and that the radius misses Delta by at most 1e-12 + 2 ulp(max(|lam|,|sig_0|))/(sig_0+lam) relative). *)
(* the two facts behind the repairs, as separate statements:
   F2b -- A = 0: the model is s.b and -Delta*b/|b| (what the early return yields) minimises it over the ball;
   F2c -- every admissible multiplier (lam >= 0, sig_0 + lam > 0) gives a minimiser over the ball of its own radius, so a secular loop that
          stops on an iteration cap or when the Newton correction no longer changes lam still returns a step that is optimal for the radius reached. *)
Theorem C06_zero_hessian_linear_minimiser : forall n (b s : list R) Delta, len n b -> len n s -> 0 < Delta -> 0 < b ⋅ b ->
  s ⋅ s <= Delta * Delta ->
  let p := rscale (- Delta / sqrt (b ⋅ b)) b in
  p ⋅ p = Delta * Delta /\ energyR (fun v => rzero v) b p <= energyR (fun v => rzero v) b s.
Proof. exact linear_model_minimiser. Qed.
Theorem C06_treigen_shifted_step_optimal : forall k (A : list R -> list R) (sig : list R) (V : list (list R)) (b : list R),
  let n := S k in let Vt := @transpose_n R NumR n V in
  len n sig -> (forall row, In row V -> len n row) -> length V = n -> len n b ->
  (forall y, len n y -> @matvec R NumR Vt (@matvec R NumR V y) = y) ->
  (forall x, len n x -> @matvec R NumR V (@matvec R NumR Vt x) = x) ->
  (forall x, len n x -> A x = @matvec R NumR V (@vmul R NumR sig (@matvec R NumR Vt x))) ->
  (forall x, In x sig -> hd 0 sig <= x) ->
  forall lam, 0 <= lam -> 0 < hd 0 sig + lam ->
  let p := rneg (@matvec R NumR V (@vdiv R NumR (@matvec R NumR Vt b) (@vshift R NumR lam sig))) in
  len n p /\ forall s, len n s -> s ⋅ s <= p ⋅ p -> energyR A b p <= energyR A b s.
Proof. exact shifted_step_optimal. Qed.
Example C06_treigen_nonvacuous :
  let sig := [2] in let V := [[1]] in let b := [4] in
  let A := fun x : list R => @matvec R NumR V (@vmul R NumR sig (@matvec R NumR (@transpose_n R NumR 1 V) x)) in
  len 1 sig /\ (forall row, In row V -> len 1 row) /\ length V = 1%nat /\ len 1 b /\
  (forall y, len 1 y -> @matvec R NumR (@transpose_n R NumR 1 V) (@matvec R NumR V y) = y) /\
  (forall x, len 1 x -> @matvec R NumR V (@matvec R NumR (@transpose_n R NumR 1 V) x) = x) /\
  (forall x, len 1 x -> A x = @matvec R NumR V (@vmul R NumR sig (@matvec R NumR (@transpose_n R NumR 1 V) x))) /\
  (forall x, In x sig -> hd 0 sig <= x) /\ 0 < @vmean_abs R NumR sig /\
  @treigen_solve R NumR 1 sig V b 1 = (TSecular 1, [-1]).
Proof. exact treigen_nonvacuous. Qed.

Example C06_treigen_zero_nonvacuous :
  let sig := [0] in let V := [[1]] in let b := [2] in
  let A := fun x : list R => @matvec R NumR V (@vmul R NumR sig (@matvec R NumR (@transpose_n R NumR 1 V) x)) in
  len 1 sig /\ (forall row, In row V -> len 1 row) /\ length V = 1%nat /\ len 1 b /\
  (forall y, len 1 y -> @matvec R NumR (@transpose_n R NumR 1 V) (@matvec R NumR V y) = y) /\
  (forall x, len 1 x -> @matvec R NumR V (@matvec R NumR (@transpose_n R NumR 1 V) x) = x) /\
  (forall x, len 1 x -> A x = @matvec R NumR V (@vmul R NumR sig (@matvec R NumR (@transpose_n R NumR 1 V) x))) /\
  (forall x, In x sig -> hd 0 sig <= x) /\
  @treigen_solve R NumR 100 sig V b 1 = (TZero, [-1]).
Proof. exact treigen_zero_nonvacuous. Qed.

Example C06_nonvacuous : forall n,
  let Hf := rscale 2 in let Pf := fun v : list R => v in
  (forall v, len n v -> len n (Hf v)) /\ (forall v, len n v -> len n (Pf v)) /\
  (forall a k b, len n a -> len n b -> Hf (raxpy a k b) = raxpy (Hf a) k (Hf b)) /\
  (forall a b, len n a -> len n b -> a ⋅ Hf b = Hf a ⋅ b) /\
  (forall v, len n v -> 0 < v ⋅ v -> 0 < v ⋅ Pf v) /\ len 2 [1; 0].
Proof. exact cg_hypotheses_satisfiable. Qed.

Example C06_cg_preconditioned_nonvacuous : forall n,
  let Hf := rscale 2 in let Pf := rscale 2 in let Mf := rscale (/ 2) in
  (forall v, len n v -> len n (Hf v)) /\ (forall v, len n v -> len n (Pf v)) /\
  (forall a b, len n a -> len n b -> a ⋅ Hf b = Hf a ⋅ b) /\
  (forall a b, len n a -> len n b -> a ⋅ Mf b = Mf a ⋅ b) /\
  (forall v, len n v -> Mf (Pf v) = v) /\
  (forall v, len n v -> 0 < v ⋅ v -> 0 < v ⋅ Mf v) /\ len 2 [1; 0].
Proof. exact cgpc_hypotheses_satisfiable. Qed.
(* H = diag(1,2), precond = M = I, g = (1,1), Delta = 10: the hypotheses hold, the loop reaches its second pass and the
   recurrence value zd there is non-zero *)
Example C06_cg_gould_nonvacuous :
  let Hf := @vmul R NumR [1; 2] in let Pf := fun v : list R => v in let Mf := fun v : list R => v in
  (forall v, len 2 v -> len 2 (Hf v)) /\ (forall v, len 2 v -> len 2 (Pf v)) /\
  (forall a b, len 2 a -> len 2 b -> a ⋅ Hf b = Hf a ⋅ b) /\
  (forall a b, len 2 a -> len 2 b -> a ⋅ Mf b = Mf a ⋅ b) /\
  (forall v, len 2 v -> Mf (Pf v) = v) /\
  (forall v, len 2 v -> 0 < v ⋅ v -> 0 < v ⋅ Mf v) /\
  ~ [1; 1] ⋅ [1; 1] < @cg_tol_squared R NumR (/ 10) 0 [1; 1] /\
  exists s, cg_iter Hf Pf 10 (@cg_tol_squared R NumR (/ 10) 0 [1; 1]) 1 (cg_start Pf [0; 0] [1; 1]) = Some s /\ s_zd s <> 0.
Proof. exact gould_nonvacuous. Qed.

Print Assumptions C06_tau_on_boundary.
Print Assumptions C06_cg_step_properties.
Print Assumptions C06_cg_gould_recurrences.
Print Assumptions C06_subspace_cg_step_properties.
Print Assumptions C06_dogleg.
Print Assumptions C06_ms_sufficiency.
Print Assumptions C06_treigen_hard_case_near_optimal.
Print Assumptions C06_treigen_global_minimiser.
Print Assumptions C06_secular_newton_terminates.
