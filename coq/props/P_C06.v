(* C06 -- property theorems only (each closed by `exact <lemma>`).  Subjects: the scalar kernels regenerated from
   optimism/EquationSolver.py, EquationSolverSubspace.py (gen/) and the hand models model/M_C06_*.v at T := R.
   Vectors are lists of reals of a common length n (`len n v`); `a ⋅ b` is the dot product the code computes. *)
From Coq Require Import Reals List ZArith.
From Coq Require Floats.PrimFloat.
From OV.base Require Import Num.
From OV.gen Require Import Gen_EquationSolver Gen_EquationSolverSubspace.
From OV.model Require Import M_C06_Vec M_C06_CG M_C06_Treigen.
From OV.proofs Require Import L_C06_Vec L_C06_CG L_C06_CGpc L_C06_Dogleg L_C06_Treigen L_C06_TreigenFull.
Import ListNotations.
Local Open Scope R_scope.

(* tau of project_to_boundary_with_coefs (the generated source expression, read off at z = 0, d = 1): non-negative
   discriminant, tau >= 0, and |z + tau d|^2 = Delta^2 whenever the coefficients are the inner products *)
Theorem C06_tau_on_boundary : forall D zz zd dd, zz <= D * D -> 0 < dd ->
  let tau := @project_to_boundary_with_coefs R NumR 0 1 D zz zd dd in
  0 <= (D * D - zz) * dd + zd * zd /\ 0 <= tau /\ zz + 2 * tau * zd + tau * tau * dd = D * D.
Proof. exact tau_spec. Qed.
Theorem C06_tau_on_boundary_subspace : forall D zz zd dd, zz <= D * D -> 0 < dd ->
  let tau := @ss_project_to_boundary_with_coefs R NumR 0 1 D zz zd dd in
  0 <= tau /\ zz + 2 * tau * zd + tau * tau * dd = D * D.
Proof. exact tau_ss_spec. Qed.
Theorem C06_project_on_boundary : forall n (z d : list R) D, len n z -> len n d -> z ⋅ z <= D * D -> 0 < d ⋅ d ->
  let out := @project_coefs R NumR z d D (z ⋅ z) (z ⋅ d) (d ⋅ d) in
  len n out /\ out ⋅ out = D * D /\ exists t, 0 <= t /\ out = raxpy z t d.
Proof. exact project_on_boundary. Qed.

(* Steihaug-Toint CG (solve_trust_region_minimization), for an ARBITRARY symmetric linear Hessian oracle (definite,
   indefinite or singular) and any positive preconditioner oracle, both inner-product modes:
   never increases the model; beats every step along the Cauchy direction inside the region (hence the Cauchy step);
   'interior' => Newton residual below the CG tolerance; Euclidean mode: inside the radius, on it when tagged
   boundary / negative curvature. *)
Theorem C06_cg_step_properties : forall n (Hf Pf : list R -> list R) pcip D cg_tol cg_ratio (x g : list R),
  (forall v, len n v -> len n (Hf v)) -> (forall v, len n v -> len n (Pf v)) ->
  (forall a k b, len n a -> len n b -> Hf (raxpy a k b) = raxpy (Hf a) k (Hf b)) ->
  (forall a b, len n a -> len n b -> a ⋅ Hf b = Hf a ⋅ b) ->
  (forall v, len n v -> 0 < v ⋅ v -> 0 < v ⋅ Pf v) ->
  cg_tol <> 0 -> len n x -> len n g ->
  forall max_cg_iters_minus_1,
  let res := @solve_trust_region_minimization R NumR Hf Pf pcip D cg_tol cg_ratio (S max_cg_iters_minus_1) x g in
  let d0 := rneg (Pf g) in
  let dd0 := if pcip then g ⋅ Pf g else d0 ⋅ d0 in
  len n (cg_z res) /\
  @qmodel R NumR Hf g (cg_z res) <= 0 /\
  (cg_iters res <> 0%nat -> forall t, 0 <= t -> t * t * dd0 <= D * D ->
     @qmodel R NumR Hf g (cg_z res) <= @qmodel R NumR Hf g (rscale t d0)) /\
  (cg_tag res = Interior ->
     radd g (Hf (cg_z res)) ⋅ radd g (Hf (cg_z res)) < @cg_tol_squared R NumR cg_tol cg_ratio g) /\
  (pcip = false -> cg_z res ⋅ cg_z res <= D * D /\
                   (is_on_boundary (cg_tag res) = true -> cg_z res ⋅ cg_z res = D * D)).
Proof. exact cg_solve_correct. Qed.
(* use_preconditioned_inner_product_for_cg=True with precond = M^-1, M symmetric positive definite (the CG conjugacy
   induction: residuals orthogonal to ALL earlier directions, directions H-conjugate): every returned step lies inside
   the trust region measured in the M-norm, and on its boundary when tagged boundary / negative curvature. *)
Theorem C06_cg_radius_preconditioned : forall n (Hf Pf Mf : list R -> list R) D cg_tol cg_ratio (x g : list R),
  (forall v, len n v -> len n (Hf v)) -> (forall v, len n v -> len n (Pf v)) ->
  (forall a b, len n a -> len n b -> a ⋅ Hf b = Hf a ⋅ b) ->
  (forall a b, len n a -> len n b -> a ⋅ Mf b = Mf a ⋅ b) ->
  (forall v, len n v -> Mf (Pf v) = v) ->
  (forall v, len n v -> 0 < v ⋅ v -> 0 < v ⋅ Mf v) ->
  cg_tol <> 0 -> len n x -> len n g ->
  forall max_cg_iters_minus_1,
  let res := @solve_trust_region_minimization R NumR Hf Pf true D cg_tol cg_ratio (S max_cg_iters_minus_1) x g in
  len n (cg_z res) /\ cg_z res ⋅ Mf (cg_z res) <= D * D /\
  (is_on_boundary (cg_tag res) = true -> cg_z res ⋅ Mf (cg_z res) = D * D).
Proof. exact cg_solve_radius_pc. Qed.
(* ... because at EVERY pass k the loop reaches, the scalars zz, zd, dd it tracks through update_step_length_squared and
   cg_inner_products_preconditioned (Gould's recurrences, the generated kernels) equal the M-inner products z.Mz, z.Md, d.Md
   of the iterates.  `cg_iter k` is the loop state after k continuing passes (proofs/L_C06_CGpc.v, built from the same
   generated kernels); the last conjunct says it IS the state of the model's loop: running the solver with k + f passes
   allowed is running the remaining f passes of cg_loop from that state. *)
Theorem C06_cg_gould_recurrences : forall n (Hf Pf Mf : list R -> list R) D cg_tol cg_ratio (x g : list R),
  (forall v, len n v -> len n (Hf v)) -> (forall v, len n v -> len n (Pf v)) ->
  (forall a b, len n a -> len n b -> a ⋅ Hf b = Hf a ⋅ b) ->
  (forall a b, len n a -> len n b -> a ⋅ Mf b = Mf a ⋅ b) ->
  (forall v, len n v -> Mf (Pf v) = v) ->
  (forall v, len n v -> 0 < v ⋅ v -> 0 < v ⋅ Mf v) ->
  cg_tol <> 0 -> len n x -> len n g ->
  forall k s, let tol2 := @cg_tol_squared R NumR cg_tol cg_ratio g in
  ~ g ⋅ g < tol2 ->
  cg_iter Hf Pf D tol2 k (cg_start Pf x g) = Some s ->
  s_zz s = s_z s ⋅ Mf (s_z s) /\ s_zd s = s_z s ⋅ Mf (s_d s) /\ s_dd s = s_d s ⋅ Mf (s_d s) /\ s_zz s <= D * D /\
  forall f, @solve_trust_region_minimization R NumR Hf Pf true D cg_tol cg_ratio (k + f) x g =
            @cg_loop R NumR Hf Pf true D f k tol2 (rneg (Pf g)) (s_z s) (s_r s) (s_d s) (s_rPr s) (s_zz s) (s_zd s) (s_dd s).
Proof. exact cg_gould_recurrences. Qed.
(* formerly NOT PROVED (a) -- radius clause in the preconditioned inner product -- is closed by the two theorems above.
   NOT PROVED: (b) the Cauchy clause when the solver returns before iterating (|g|^2 < cgTolSquared, 0 iterations, zero step tagged
   'interior'): there the zero step does NOT beat the Cauchy step unless g = 0 -- excluded by `cg_iters res <> 0`.
   (c) EquationSolverSubspace.trust_region_cg / ModelProblem: modelled (model/M_C06_CG.v trust_region_cg) and tied by the
   correspondence, but only its tau kernel has a theorem (C06_tau_on_boundary_subspace).
   (d) the theorems are over exact reals: in binary64 CG loses conjugacy, so the recurrences drift from the M-inner products
   over many passes; the harness measures that drift on the implementation (stream `gould`) against a stated tolerance. *)

(* dogleg_step: on the path origin -> Cauchy point -> quasi-Newton point, inside the radius in the mat_mul norm *)
Theorem C06_dogleg : forall n (M : list R -> list R) D,
  (forall v, len n v -> len n (M v)) ->
  (forall a k b, len n a -> len n b -> M (raxpy a k b) = raxpy (M a) k (M b)) ->
  (forall k a, len n a -> M (rscale k a) = rscale k (M a)) ->
  (forall a b, len n a -> len n b -> a ⋅ M b = M a ⋅ b) ->
  (forall v, len n v -> 0 <= v ⋅ M v) -> D <> 0 ->
  forall cp np, len n cp -> len n np ->
  let r := @dogleg_step R NumR M cp np D in
  len n r /\ r ⋅ M r <= D * D /\
  ((exists c, 0 < c <= 1 /\ r = rscale c cp) \/ r = cp \/
   (exists t, 0 <= t <= 1 /\ r = raxpy cp t (rsub np cp)) \/ r = np).
Proof. exact dogleg_correct. Qed.

(* More'-Sorensen sufficiency: what a correct eigen-solver must return, and what the harness checks on treigen.solve *)
Theorem C06_ms_sufficiency : forall n (A : list R -> list R) (b p : list R) lam Delta,
  (forall v, len n v -> len n (A v)) ->
  (forall a k c, len n a -> len n c -> A (raxpy a k c) = raxpy (A a) k (A c)) ->
  (forall a c, len n a -> len n c -> a ⋅ A c = A a ⋅ c) ->
  len n b -> len n p -> 0 <= lam ->
  (forall w, len n w -> A p ⋅ w + lam * (p ⋅ w) = - (b ⋅ w)) ->
  (forall v, len n v -> 0 <= v ⋅ A v + lam * (v ⋅ v)) ->
  p ⋅ p <= Delta * Delta -> lam * (Delta * Delta - p ⋅ p) = 0 ->
  forall s, len n s -> s ⋅ s <= Delta * Delta -> energyR A b p <= energyR A b s.
Proof. exact ms_sufficiency_full. Qed.

(* treigen.solve, hard case (as repaired by repo commit 5a997d7: z = v[:,0], sign +1 at p.z = 0): for a unit vector z and
   |p| < Delta the completed step p + tau z lies on the boundary *)
Theorem C06_treigen_hard_case_on_boundary : forall n (p z : list R) Delta, len n p -> len n z -> z ⋅ z = 1 ->
  p ⋅ p < Delta * Delta ->
  let x := @hard_case_step R NumR p z Delta in len n x /\ x ⋅ x = Delta * Delta.
Proof. exact hard_case_on_boundary. Qed.
(* ... and it minimises the model over the ball up to 2|tau| eps Delta when p solves the shifted system (A + lam I) p = -b,
   A + lam I >= 0, lam >= 0 and z is a unit eigenvector with (A + lam I) z = eps z, eps >= 0 (the code shifts the lowest
   eigenvalue by eps = 1e-12*mean|sig|; with eps = 0 this is exact global optimality in the hard case).
   The eigen-decomposition facts are hypotheses here (numpy eigh is an oracle). *)
Theorem C06_treigen_hard_case_near_optimal : forall n (A : list R -> list R) (b p z : list R) lam eps tau Delta,
  (forall v, len n v -> len n (A v)) ->
  (forall a k c, len n a -> len n c -> A (raxpy a k c) = raxpy (A a) k (A c)) ->
  (forall a c, len n a -> len n c -> a ⋅ A c = A a ⋅ c) ->
  len n b -> len n p -> len n z -> 0 <= lam -> 0 <= eps -> 0 <= Delta ->
  (forall w, len n w -> A p ⋅ w + lam * (p ⋅ w) = - (b ⋅ w)) ->
  (forall v, len n v -> 0 <= v ⋅ A v + lam * (v ⋅ v)) ->
  z ⋅ z = 1 ->
  (forall w, len n w -> A z ⋅ w + lam * (z ⋅ w) = eps * (z ⋅ w)) ->
  raxpy p tau z ⋅ raxpy p tau z = Delta * Delta ->
  forall s, len n s -> s ⋅ s <= Delta * Delta ->
  energyR A b (raxpy p tau z) <= energyR A b s + 2 * Rabs tau * eps * Delta.
Proof. exact hard_case_near_optimal_full. Qed.
(* zero model Hessian: the secular branch of the binary64 model divides by sig+lam = 0 and returns NaN (finding F2b);
   fencs encodes NaN as [0; 7777] *)
Theorem C06_treigen_zero_hessian_nan_binary64 :
  let res := @treigen_solve PrimFloat.float NumF 50 [F 0 0] [[F 1 0]] [F 1 0] (F 2 0) in
  (match fst res with TSecular _ => true | _ => false end = true) /\ fencs (snd res) = [0; 7777]%Z.
Proof. exact treigen_zero_hessian_nan_binary64. Qed.
(* the uncapped secular `while` of treigen.solve does not terminate on this input in binary64 (400 passes of the model's
   fuelled loop are not enough; the harness confirms a fixed point of lam with |bError| > 1e-9 on the implementation) -- finding F2c *)
Theorem C06_treigen_secular_stalls_binary64 :
  fst (@treigen_solve PrimFloat.float NumF 400 stall_sig [[F 1 0; F 0 0]; [F 0 0; F 1 0]] stall_b stall_Delta) = TOutOfFuel.
Proof. exact treigen_secular_stalls_binary64. Qed.
(* treigen.solve returns a global minimiser: ONE theorem about the model (model/M_C06_Treigen.v at T := R) from the contract of
   numpy's eigh -- sig ascending, V (a list of rows, square) orthogonal, A = V diag(sig) V^T; `transpose_n` is PROVED to be the
   transpose (x.(V y) = (V^T x).y), so V^T V = I, V V^T = I and the decomposition are stated as operator identities.
   For every fuel (cap on the passes of the secular `while`), whatever branch is taken:
   interior: |p| < Delta and p minimises the model over the ball of radius Delta;
   hard case: |p| = Delta and p minimises it up to 4 eps Delta^2, eps = 1e-12*mean|sig| (the code's shift of the lowest eigenvalue);
   secular: | |p| - Delta | <= 1e-9 Delta and p minimises the model over the ball of its own radius |p|
            (the Newton iterates on the secular equation stay on the side |p(lam)| >= Delta -- convexity of 1/(1+hy)^2 -- so the
            returned multiplier is >= max(0, -sig_0) and More'-Sorensen applies);
   out of fuel: nothing is claimed.  Guards: Delta > 0 and A <> 0 (mean|sig| > 0; A = 0 is the open finding F2b). *)
Theorem C06_treigen_global_minimiser : forall k (A : list R -> list R) (sig : list R) (V : list (list R)) (b : list R),
  let n := S k in let Vt := @transpose_n R NumR n V in
  len n sig -> (forall row, In row V -> len n row) -> length V = n -> len n b ->
  (forall y, len n y -> @matvec R NumR Vt (@matvec R NumR V y) = y) ->
  (forall x, len n x -> @matvec R NumR V (@matvec R NumR Vt x) = x) ->
  (forall x, len n x -> A x = @matvec R NumR V (@vmul R NumR sig (@matvec R NumR Vt x))) ->
  (forall x, In x sig -> hd 0 sig <= x) ->
  forall Delta, 0 < Delta -> 0 < @vmean_abs R NumR sig ->
  forall fuel,
  match @treigen_solve R NumR fuel sig V b Delta with
  | (TInterior, p) => len n p /\ p ⋅ p < Delta * Delta /\
                      forall s, len n s -> s ⋅ s <= Delta * Delta -> energyR A b p <= energyR A b s
  | (THard, p) => len n p /\ p ⋅ p = Delta * Delta /\
                  forall s, len n s -> s ⋅ s <= Delta * Delta ->
                  energyR A b p <= energyR A b s + 4 * (1 / 1000000000000 * @vmean_abs R NumR sig) * (Delta * Delta)
  | (TSecular _, p) => len n p /\ Rabs (sqrt (p ⋅ p) - Delta) <= 1 / 1000000000 * Delta /\
                       forall s, len n s -> s ⋅ s <= p ⋅ p -> energyR A b p <= energyR A b s
  | (TOutOfFuel, _) => True
  end.
Proof. exact treigen_minimiser. Qed.
(* formerly NOT PROVED ("treigen.solve returns a global minimiser as one theorem from the eigh contract") is closed by the theorem above.
   NOT PROVED: termination of the uncapped secular `while` (over R the Newton iterates increase monotonically and stay below the
   root, convergence itself is not proved; in binary64 the loop can stall -- finding F2c, witness above); the eigh contract itself
   (numpy is an oracle: the harness measures V^T V = I, A = V diag(sig) V^T and the ordering on the logged output of every run);
   binary64 rounding (the theorem is over R; the harness compares per branch within stated tolerances).  Two defects remain open (F2b, F2c). *)
(* supporting the patches PROPOSED (not applied) for the two open findings:
   F2b -- the case A = 0 excluded above: the model is then s.b and -Delta*b/|b| (what the proposed early return yields) minimises it over the ball;
   F2c -- every admissible multiplier (lam >= 0, sig_0 + lam > 0) gives a minimiser over the ball of its own radius, so a secular loop that
          stops on an iteration cap or when the Newton correction no longer changes lam still returns a step that is optimal for the radius reached. *)
Theorem C06_zero_hessian_linear_minimiser : forall n (b s : list R) Delta, len n b -> len n s -> 0 < Delta -> 0 < b ⋅ b ->
  s ⋅ s <= Delta * Delta ->
  let p := rscale (- Delta / sqrt (b ⋅ b)) b in
  p ⋅ p = Delta * Delta /\ energyR (fun v => rzero v) b p <= energyR (fun v => rzero v) b s.
Proof. exact linear_model_minimiser. Qed.
Theorem C06_treigen_shifted_step_optimal : forall k (A : list R -> list R) (sig : list R) (V : list (list R)) (b : list R),
  let n := S k in let Vt := @transpose_n R NumR n V in
  len n sig -> (forall row, In row V -> len n row) -> length V = n -> len n b ->
  (forall y, len n y -> @matvec R NumR Vt (@matvec R NumR V y) = y) ->
  (forall x, len n x -> @matvec R NumR V (@matvec R NumR Vt x) = x) ->
  (forall x, len n x -> A x = @matvec R NumR V (@vmul R NumR sig (@matvec R NumR Vt x))) ->
  (forall x, In x sig -> hd 0 sig <= x) ->
  forall lam, 0 <= lam -> 0 < hd 0 sig + lam ->
  let p := rneg (@matvec R NumR V (@vdiv R NumR (@matvec R NumR Vt b) (@vshift R NumR lam sig))) in
  len n p /\ forall s, len n s -> s ⋅ s <= p ⋅ p -> energyR A b p <= energyR A b s.
Proof. exact shifted_step_optimal. Qed.
Example C06_treigen_nonvacuous :
  let sig := [2] in let V := [[1]] in let b := [4] in
  let A := fun x : list R => @matvec R NumR V (@vmul R NumR sig (@matvec R NumR (@transpose_n R NumR 1 V) x)) in
  len 1 sig /\ (forall row, In row V -> len 1 row) /\ length V = 1%nat /\ len 1 b /\
  (forall y, len 1 y -> @matvec R NumR (@transpose_n R NumR 1 V) (@matvec R NumR V y) = y) /\
  (forall x, len 1 x -> @matvec R NumR V (@matvec R NumR (@transpose_n R NumR 1 V) x) = x) /\
  (forall x, len 1 x -> A x = @matvec R NumR V (@vmul R NumR sig (@matvec R NumR (@transpose_n R NumR 1 V) x))) /\
  (forall x, In x sig -> hd 0 sig <= x) /\ 0 < @vmean_abs R NumR sig /\
  @treigen_solve R NumR 1 sig V b 1 = (TSecular 1, [-1]).
Proof. exact treigen_nonvacuous. Qed.

Example C06_nonvacuous : forall n,
  let Hf := rscale 2 in let Pf := fun v : list R => v in
  (forall v, len n v -> len n (Hf v)) /\ (forall v, len n v -> len n (Pf v)) /\
  (forall a k b, len n a -> len n b -> Hf (raxpy a k b) = raxpy (Hf a) k (Hf b)) /\
  (forall a b, len n a -> len n b -> a ⋅ Hf b = Hf a ⋅ b) /\
  (forall v, len n v -> 0 < v ⋅ v -> 0 < v ⋅ Pf v) /\ len 2 [1; 0].
Proof. exact cg_hypotheses_satisfiable. Qed.

Example C06_cg_preconditioned_nonvacuous : forall n,
  let Hf := rscale 2 in let Pf := rscale 2 in let Mf := rscale (/ 2) in
  (forall v, len n v -> len n (Hf v)) /\ (forall v, len n v -> len n (Pf v)) /\
  (forall a b, len n a -> len n b -> a ⋅ Hf b = Hf a ⋅ b) /\
  (forall a b, len n a -> len n b -> a ⋅ Mf b = Mf a ⋅ b) /\
  (forall v, len n v -> Mf (Pf v) = v) /\
  (forall v, len n v -> 0 < v ⋅ v -> 0 < v ⋅ Mf v) /\ len 2 [1; 0].
Proof. exact cgpc_hypotheses_satisfiable. Qed.
(* H = diag(1,2), precond = M = I, g = (1,1), Delta = 10: the hypotheses hold, the loop reaches its second pass and the
   recurrence value zd there is non-zero *)
Example C06_cg_gould_nonvacuous :
  let Hf := @vmul R NumR [1; 2] in let Pf := fun v : list R => v in let Mf := fun v : list R => v in
  (forall v, len 2 v -> len 2 (Hf v)) /\ (forall v, len 2 v -> len 2 (Pf v)) /\
  (forall a b, len 2 a -> len 2 b -> a ⋅ Hf b = Hf a ⋅ b) /\
  (forall a b, len 2 a -> len 2 b -> a ⋅ Mf b = Mf a ⋅ b) /\
  (forall v, len 2 v -> Mf (Pf v) = v) /\
  (forall v, len 2 v -> 0 < v ⋅ v -> 0 < v ⋅ Mf v) /\
  ~ [1; 1] ⋅ [1; 1] < @cg_tol_squared R NumR (/ 10) 0 [1; 1] /\
  exists s, cg_iter Hf Pf 10 (@cg_tol_squared R NumR (/ 10) 0 [1; 1]) 1 (cg_start Pf [0; 0] [1; 1]) = Some s /\ s_zd s <> 0.
Proof. exact gould_nonvacuous. Qed.

Print Assumptions C06_tau_on_boundary.
Print Assumptions C06_cg_step_properties.
Print Assumptions C06_cg_gould_recurrences.
Print Assumptions C06_dogleg.
Print Assumptions C06_ms_sufficiency.
Print Assumptions C06_treigen_hard_case_near_optimal.
Print Assumptions C06_treigen_global_minimiser.
