(* C05 -- property theorems only (each closed by `exact <lemma>`).  Subjects: model/M_C05_SPG.v at T := R (project,
   project_onto_tr with brentq's answer as an arbitrary value, the SPG step length built from the line-search and clip kernels
   regenerated from optimism/TrustRegionSPG.py, the outer loop with arbitrary objective oracles and arbitrary step proposals)
   and model/M_C05_Full.v (the COMPLETE solver: Cauchy search + SPG sub-problem solve + outer loop, no proposal oracle).
   Bounds: (Some l | None, Some u | None), None = infinite.  wf_box: l <= u wherever both are finite. *)
From Coq Require Import Reals List.
From OV.base Require Import Num.
From OV.gen Require Import Gen_TrustRegionSPG.
From OV.model Require Import M_C06_Vec M_C06_CG M_C01_TR M_C05_SPG M_C05_Full.
From OV.proofs Require Import L_C06_Vec L_C01 L_C05 L_C05_Full.
Import ListNotations.
Local Open Scope R_scope.

(* projection onto the box: feasible, nearest feasible point, idempotent (finite, one-sided, infinite, degenerate bounds) *)
Theorem C05_project_in_box : forall x bs, wf_box bs -> length x = length bs -> in_box bs (@project R NumR x bs).
Proof. exact project_in_box. Qed.
Theorem C05_project_nearest : forall x y bs, wf_box bs -> length x = length bs -> in_box bs y ->
  rsub x (@project R NumR x bs) ⋅ rsub x (@project R NumR x bs) <= rsub x y ⋅ rsub x y.
Proof. exact project_nearest. Qed.
Theorem C05_project_idempotent : forall x bs, wf_box bs -> length x = length bs ->
  @project R NumR (@project R NumR x bs) bs = @project R NumR x bs.
Proof. exact project_idempotent. Qed.

(* project_onto_tr: in the box for EVERY value t the root finder may return, every centre and every radius *)
Theorem C05_project_tr_in_box : forall x xk bs D t, wf_box bs -> length x = length bs -> length xk = length bs ->
  in_box bs (@project_onto_tr R NumR x xk bs D t).
Proof. exact project_onto_tr_in_box. Qed.
(* ... and, since the repair of finding F15 (the point found by the root finder is pulled back toward xk when it overshoots), ALSO
   within the radius for EVERY value t the root finder may return -- no hypothesis on brentq's answer is left; the centre must be
   feasible and the radius non-negative.  Returned unchanged (the plain projection) when that is already inside. *)
Theorem C05_project_tr_in_both : forall x xk bs D t, wf_box bs -> length x = length bs -> in_box bs xk -> 0 <= D ->
  let p := @project_onto_tr R NumR x xk bs D t in
  in_box bs p /\
  (@needs_root_find R NumR x xk bs D = false -> p = @project R NumR x bs) /\
  rsub p xk ⋅ rsub p xk <= D * D.
Proof. exact project_onto_tr_props. Qed.

(* feasibility mechanism of the SPG iterations: every update is xNew + alpha (P - xNew) with P feasible and 0 <= alpha <= 1 *)
Theorem C05_spg_update_feasible : forall bs xNew p alpha, in_box bs xNew -> in_box bs p -> 0 <= alpha <= 1 ->
  in_box bs (@spg_update R NumR xNew p alpha).
Proof. exact spg_update_feasible. Qed.
(* the step length actually used (clipped, repo commit d722144) is in [0,1] for every line-search value, both modes *)
Theorem C05_spg_alpha_in_unit_interval : forall nm ds sBs q qMax, 0 <= @spg_alpha R NumR nm ds sBs q qMax <= 1.
Proof. exact spg_alpha_range. Qed.
Theorem C05_spg_step_feasible : forall bs xNew p nm ds sBs q qMax, in_box bs xNew -> in_box bs p ->
  in_box bs (@spg_update R NumR xNew p (@spg_alpha R NumR nm ds sBs q qMax)).
Proof. exact spg_step_feasible. Qed.
(* remarks about the regenerated line-search kernels themselves: the non-monotone one is >= 0 when q <= qMax; the
   monotone one can be negative (the mechanism of finding F12, repaired by the clip) *)
Theorem C05_nonmonotone_kernel_nonneg : forall ds sBs q qMax, 0 < sBs -> q <= qMax ->
  0 <= @nonmonotone_line_search R NumR ds sBs q qMax 0.
Proof. exact nonmonotone_kernel_nonneg. Qed.
Theorem C05_monotone_alpha_can_be_negative_refuted :
  exists ds sBs q qMax, 0 < sBs /\ q <= qMax /\ @kouri_exact_line_search R NumR ds sBs q qMax 0 < 0.
Proof. exact monotone_alpha_negative. Qed.
(* the clip statement and the box projection are kernels REGENERATED from the source (no hand kernel any more): spg_alpha above
   is spg_step_clip (generated from `alpha = min(1.0, max(0.0, alpha)) if sBs > 0 else 1.0`) applied to the generated line
   search; the list model's clamp is the generated project kernel *)
Theorem C05_generated_clip_is_clip : forall a sBs, @spg_step_clip R NumR a sBs = if Rlt_dec 0 sBs then Rmin 1 (Rmax 0 a) else 1.
Proof. exact spg_step_clip_spec. Qed.
Theorem C05_clamp_is_generated_project : forall x l u, @clamp R NumR x (Some l, Some u) = @project_n1 R NumR x l u.
Proof. exact clamp_is_generated. Qed.
Theorem C05_project_is_generated_n3 : forall x0 x1 x2 l0 u0 l1 u1 l2 u2,
  @project R NumR [x0; x1; x2] [(Some l0, Some u0); (Some l1, Some u1); (Some l2, Some u2)] =
  let '(a, b, c) := @project_n3 R NumR x0 x1 x2 l0 u0 l1 u1 l2 u2 in [a; b; c].
Proof. exact project_is_generated_n3. Qed.

(* "EVERY ITERATE OF THE WHOLE SOLVER IS FEASIBLE" as one theorem about the COMPLETE model (model/M_C05_Full.v:
   find_generalized_cauchy_point with its three loops, solve_spg_subproblem with qHistory / spectral step / both line searches /
   the generated clip, the outer loop calling them): for ARBITRARY value / gradient / Hessian-vector oracles that preserve the
   vector length, for EVERY sequence of root-finder answers `brent`, every settings record and every feasible start, every point
   in the trace -- each x+z whose sub-problem optimality is evaluated (the Cauchy point and every SPG iterate), each trial point
   y = x+s, each point passed to callback / update_precond / returned -- is in the box, and so is the returned point. *)
Theorem C05_every_iterate_feasible : forall (value : list R -> R) (grad : list R -> list R) (hessvec : list R -> list R -> list R)
    (brent : nat -> R) (bs : list (@bound R)) (S : settings R) (G : spg_settings R),
  wf_box bs ->
  (forall x, length x = length bs -> length (grad x) = length bs) ->
  (forall x v, length x = length bs -> length v = length bs -> length (hessvec x v) = length bs) ->
  forall x0, in_box bs x0 ->
  let '(res, tr) := @full_minimize R NumR value grad hessvec brent bs S G x0 in
  Forall (fev_feasible bs) tr /\ (forall xr flag, res = Some (xr, flag) -> in_box bs xr).
Proof. exact full_minimize_feasible. Qed.
(* flag clause for the complete model, no hypothesis at all: success is only reported at the last event of the trace, a
   ConvergedAt event at the returned point, whose projected-gradient measure is below tol *)
Theorem C05_flag_honest_complete_model : forall (value : list R -> R) (grad : list R -> list R) (hessvec : list R -> list R -> list R)
    (brent : nat -> R) (bs : list (@bound R)) (S : settings R) (G : spg_settings R) x0,
  let '(res, tr) := @full_minimize R NumR value grad hessvec brent bs S G x0 in
  forall xr, res = Some (xr, true) ->
    @optimality R NumR xr (grad xr) bs < s_tol S /\
    (tr = [FOut (EConvergedInit xr)] \/ exists tr', tr = tr' ++ [FOut (EConverged xr)]).
Proof. exact full_minimize_flag. Qed.
(* NOT PROVED: the same over binary64 (y = x + z is a rounded addition: a bound can be exceeded by an ulp; L2 allows 4 ulp and
   reports the worst excess); the trust-region half of "feasible" (|x+z - x| <= trSize) for the SPG iterates: project_onto_tr
   itself is inside the radius for every root-finder answer since the repair of F15 (C05_project_tr_in_both); the remaining step
   (convexity of the ball along z += alpha*s, and the Cauchy point's cut-back) is not attempted.
   Runs that end in the documented RuntimeError of the Cauchy search or outside the model's range (max_spg_iters = 0:
   NameError in python; cauchy_point_max_line_search_iters = 0) have result None: the theorem then only speaks about the
   points formed before. *)

(* outer loop, ARBITRARY value/gradient oracles and ARBITRARY step proposals: descent on accepted iterates (default mode,
   eta1 >= 0), flag = true only at a ConvergedAt event at the returned point whose projected-gradient measure is < tol,
   flag = false => the returned point is the current (last accepted or start) iterate *)
Theorem C05_trace_properties : forall (value : list R -> R) (grad : list R -> list R) (bs : list (@bound R))
    (proposal : nat -> list R -> list R * R * bool * nat) (S : settings R) x,
  let '(xr, flag, tr) := @bc_minimize R NumR value grad bs proposal S x in
  accepts_ok value tr /\
  (s_use_incremental S = false -> 0 <= s_eta1 S -> chain (value x) (accept_vals tr)) /\
  (flag = true -> ((exists tr', tr = tr' ++ [EConverged xr]) \/ tr = [EConvergedInit xr]) /\
                  @optimality R NumR xr (grad xr) bs < s_tol S) /\
  (flag = false -> xr = cur x tr /\ exists tr', tr = tr' ++ [ETooSmall xr] \/ tr = tr' ++ [EMaxIters xr]).
Proof. exact bc_minimize_spec. Qed.
(* NOT PROVED / FALSE: descent at the converged exit (finding F1', same mechanism as C01's F1: the convergence test precedes
   the acceptance test; the binary64 witness of C01 (C01_converged_exit_can_go_uphill_refuted_binary64) is replayed on
   bound_constrained_trust_region_minimize with the box [-10, 10] by the harness); success on convex problems (global
   convergence) -- tested only. *)

(* convex objective + projected-gradient measure exactly zero => bound-constrained minimiser *)
Theorem C05_convex_pg_zero_is_min : forall (f : list R -> R) (gradf : list R -> list R) bs x,
  wf_box bs -> in_box bs x -> length (gradf x) = length bs ->
  (forall y, in_box bs y -> f x + gradf x ⋅ rsub y x <= f y) ->
  @project R NumR (rsub x (gradf x)) bs = x ->
  forall y, in_box bs y -> f x <= f y.
Proof. exact convex_stationary_is_minimizer. Qed.

Example C05_nonvacuous :
  wf_box [(Some 0, Some 1); (None, Some 2); (Some 3, Some 3); (None, None)] /\
  in_box [(Some 0, Some 1); (None, Some 2); (Some 3, Some 3); (None, None)] [1/2; -5; 3; 7].
Proof. exact example_box. Qed.
Example C05_every_iterate_feasible_nonvacuous :
  let b := [(Some 0, Some 1); (None, Some 2); (Some 3, Some 3); (None, None)] in
  wf_box b /\ in_box b [1/2; -5; 3; 7] /\
  (forall x : list R, length x = length b -> length ((fun y : list R => y) x) = length b) /\
  (forall x v : list R, length x = length b -> length v = length b -> length ((fun (_ y : list R) => y) x v) = length b).
Proof. exact example_full_hypotheses. Qed.

Print Assumptions C05_project_nearest.
Print Assumptions C05_project_tr_in_both.
Print Assumptions C05_spg_step_feasible.
Print Assumptions C05_every_iterate_feasible.
Print Assumptions C05_flag_honest_complete_model.
Print Assumptions C05_trace_properties.
Print Assumptions C05_convex_pg_zero_is_min.
