(* C05 -- property theorems only (each closed by `exact <lemma>`).  Subjects: model/M_C05_SPG.v at T := R (project,
   project_onto_tr with brentq's answer as an arbitrary value, the SPG step length built from the line-search kernels
   regenerated from optimism/TrustRegionSPG.py, the outer loop with arbitrary objective oracles and arbitrary step proposals).
   Bounds: (Some l | None, Some u | None), None = infinite.  wf_box: l <= u wherever both are finite. *)
From Coq Require Import Reals List.
From OV.base Require Import Num.
From OV.gen Require Import Gen_TrustRegionSPG.
From OV.model Require Import M_C06_Vec M_C06_CG M_C01_TR M_C05_SPG.
From OV.proofs Require Import L_C06_Vec L_C01 L_C05.
Import ListNotations.
Local Open Scope R_scope.

(* projection onto the box: feasible, nearest feasible point, idempotent (finite, one-sided, infinite, degenerate bounds) *)
Theorem C05_project_in_box : forall x bs, wf_box bs -> length x = length bs -> in_box bs (@project R NumR x bs).
Proof. exact project_in_box. Qed.
Theorem C05_project_nearest : forall x y bs, wf_box bs -> length x = length bs -> in_box bs y ->
  rsub x (@project R NumR x bs) ⋅ rsub x (@project R NumR x bs) <= rsub x y ⋅ rsub x y.
Proof. exact project_nearest. Qed.
Theorem C05_project_idempotent : forall x bs, wf_box bs -> length x = length bs ->
  @project R NumR (@project R NumR x bs) bs = @project R NumR x bs.
Proof. exact project_idempotent. Qed.

(* project_onto_tr: in the box for EVERY value t the root finder may return; returned unchanged and inside the radius when
   the plain projection is already inside; inside the radius whenever the residual f(t) <= 0 *)
Theorem C05_project_tr_in_both : forall x xk bs D t, wf_box bs -> length x = length bs -> length xk = length bs ->
  let p := @project_onto_tr R NumR x xk bs D t in
  in_box bs p /\
  (@needs_root_find R NumR x xk bs D = false -> p = @project R NumR x bs /\ rsub p xk ⋅ rsub p xk <= D * D) /\
  (@tr_residual R NumR x xk bs D t <= 0 -> rsub p xk ⋅ rsub p xk <= D * D).
Proof. exact project_onto_tr_props. Qed.

(* feasibility mechanism of the SPG iterations: every update is xNew + alpha (P - xNew) with P feasible and 0 <= alpha <= 1 *)
Theorem C05_spg_update_feasible : forall bs xNew p alpha, in_box bs xNew -> in_box bs p -> 0 <= alpha <= 1 ->
  in_box bs (@spg_update R NumR xNew p alpha).
Proof. exact spg_update_feasible. Qed.
(* the step length actually used (clipped, repo commit d722144) is in [0,1] for every line-search value, both modes *)
Theorem C05_spg_alpha_in_unit_interval : forall nm ds sBs q qMax, 0 <= @spg_alpha R NumR nm ds sBs q qMax <= 1.
Proof. exact spg_alpha_range. Qed.
Theorem C05_spg_step_feasible : forall bs xNew p nm ds sBs q qMax, in_box bs xNew -> in_box bs p ->
  in_box bs (@spg_update R NumR xNew p (@spg_alpha R NumR nm ds sBs q qMax)).
Proof. exact spg_step_feasible. Qed.
(* remarks about the regenerated line-search kernels themselves: the non-monotone one is >= 0 when q <= qMax; the
   monotone one can be negative (the mechanism of finding F12, repaired by the clip) *)
Theorem C05_nonmonotone_kernel_nonneg : forall ds sBs q qMax, 0 < sBs -> q <= qMax ->
  0 <= @nonmonotone_line_search R NumR ds sBs q qMax 0.
Proof. exact nonmonotone_kernel_nonneg. Qed.
Theorem C05_monotone_alpha_can_be_negative_refuted :
  exists ds sBs q qMax, 0 < sBs /\ q <= qMax /\ @kouri_exact_line_search R NumR ds sBs q qMax 0 < 0.
Proof. exact monotone_alpha_negative. Qed.
(* NOT PROVED: "every iterate is feasible" as ONE theorem about the whole solver: find_generalized_cauchy_point and the SPG
   loop (qHistory, spectral step) are not modelled; the theorems above are the pieces of the convex-combination argument
   (Cauchy point = projection; updates = convex combinations; clipped alpha in [0,1]).  The clip expression is hand-modelled
   (clip01) and matched syntactically against the source by the harness.  Feasibility of every reported iterate is checked
   on the implementation by the harness (L2, 4 ulp slack) -- a test. *)

(* outer loop, ARBITRARY value/gradient oracles and ARBITRARY step proposals: descent on accepted iterates (default mode,
   eta1 >= 0), flag = true only at a ConvergedAt event at the returned point whose projected-gradient measure is < tol,
   flag = false => the returned point is the current (last accepted or start) iterate *)
Theorem C05_trace_properties : forall (value : list R -> R) (grad : list R -> list R) (bs : list (@bound R))
    (proposal : nat -> list R -> list R * R * bool * nat) (S : settings R) x,
  let '(xr, flag, tr) := @bc_minimize R NumR value grad bs proposal S x in
  accepts_ok value tr /\
  (s_use_incremental S = false -> 0 <= s_eta1 S -> chain (value x) (accept_vals tr)) /\
  (flag = true -> ((exists tr', tr = tr' ++ [EConverged xr]) \/ tr = [EConvergedInit xr]) /\
                  @optimality R NumR xr (grad xr) bs < s_tol S) /\
  (flag = false -> xr = cur x tr /\ exists tr', tr = tr' ++ [ETooSmall xr] \/ tr = tr' ++ [EMaxIters xr]).
Proof. exact bc_minimize_spec. Qed.
(* NOT PROVED / FALSE: descent at the converged exit (finding F1', same mechanism as C01's F1: the convergence test precedes
   the acceptance test; the binary64 witness of C01 (C01_converged_exit_can_go_uphill_refuted_binary64) is replayed on
   bound_constrained_trust_region_minimize with the box [-10, 10] by the harness); success on convex problems (global
   convergence) -- tested only. *)

(* convex objective + projected-gradient measure exactly zero => bound-constrained minimiser *)
Theorem C05_convex_pg_zero_is_min : forall (f : list R -> R) (gradf : list R -> list R) bs x,
  wf_box bs -> in_box bs x -> length (gradf x) = length bs ->
  (forall y, in_box bs y -> f x + gradf x ⋅ rsub y x <= f y) ->
  @project R NumR (rsub x (gradf x)) bs = x ->
  forall y, in_box bs y -> f x <= f y.
Proof. exact convex_stationary_is_minimizer. Qed.

Example C05_nonvacuous :
  wf_box [(Some 0, Some 1); (None, Some 2); (Some 3, Some 3); (None, None)] /\
  in_box [(Some 0, Some 1); (None, Some 2); (Some 3, Some 3); (None, None)] [1/2; -5; 3; 7].
Proof. exact example_box. Qed.

Print Assumptions C05_project_nearest.
Print Assumptions C05_project_tr_in_both.
Print Assumptions C05_spg_step_feasible.
Print Assumptions C05_trace_properties.
Print Assumptions C05_convex_pg_zero_is_min.
