(* C05 -- property theorems only (each closed by `exact <lemma>`).  Subjects: model/M_C05_SPG.v at T := R (project,
   project_onto_tr with brentq's answer as an arbitrary value, the SPG step length built from the line-search and clip kernels
   regenerated from optimism/TrustRegionSPG.py, the outer loop with arbitrary objective oracles and arbitrary step proposals)
   and model/M_C05_Full.v (the COMPLETE solver: Cauchy search + SPG sub-problem solve + outer loop, no proposal oracle).
   Bounds: (Some l | None, Some u | None), None = infinite.  wf_box: l <= u wherever both are finite. *)
From Coq Require Import Reals List.
From OV.base Require Import Num.
From OV.gen Require Import Gen_TrustRegionSPG.
From OV.model Require Import M_C06_Vec M_C06_CG M_C01_TR M_C05_SPG M_C05_Full.
From OV.proofs Require Import L_C06_Vec L_C01 L_C05 L_C05_Full L_C05_TR L_C05_Refine L_C05_Convex.
Import ListNotations.
Local Open Scope R_scope.

(* projection onto the box: feasible, nearest feasible point, idempotent (finite, one-sided, infinite, degenerate bounds) *)
Theorem C05_project_in_box : forall x bs, wf_box bs -> length x = length bs -> in_box bs (@project R NumR x bs).
Proof. exact project_in_box. Qed.
Theorem C05_project_nearest : forall x y bs, wf_box bs -> length x = length bs -> in_box bs y ->
  rsub x (@project R NumR x bs) ⋅ rsub x (@project R NumR x bs) <= rsub x y ⋅ rsub x y.
Proof. exact project_nearest. Qed.
Theorem C05_project_idempotent : forall x bs, wf_box bs -> length x = length bs ->
  @project R NumR (@project R NumR x bs) bs = @project R NumR x bs.
Proof. exact project_idempotent. Qed.

(* project_onto_tr: in the box for EVERY value t the root finder may return, every centre and every radius *)
Theorem C05_project_tr_in_box : forall x xk bs D t, wf_box bs -> length x = length bs -> length xk = length bs ->
  in_box bs (@project_onto_tr R NumR x xk bs D t).
Proof. exact project_onto_tr_in_box. Qed.
(* ... and, since the repair of finding F15 (the point found by the root finder is pulled back toward xk when it overshoots), ALSO
   within the radius for EVERY value t the root finder may return -- no hypothesis on brentq's answer is left; the centre must be
   feasible and the radius non-negative.  Returned unchanged (the plain projection) when that is already inside. *)
Theorem C05_project_tr_in_both : forall x xk bs D t, wf_box bs -> length x = length bs -> in_box bs xk -> 0 <= D ->
  let p := @project_onto_tr R NumR x xk bs D t in
  in_box bs p /\
  (@needs_root_find R NumR x xk bs D = false -> p = @project R NumR x bs) /\
  rsub p xk ⋅ rsub p xk <= D * D.
Proof. exact project_onto_tr_props. Qed.

(* feasibility mechanism of the SPG iterations: every update is xNew + alpha (P - xNew) with P feasible and 0 <= alpha <= 1 *)
Theorem C05_spg_update_feasible : forall bs xNew p alpha, in_box bs xNew -> in_box bs p -> 0 <= alpha <= 1 ->
  in_box bs (@spg_update R NumR xNew p alpha).
Proof. exact spg_update_feasible. Qed.
(* the step length actually used (clipped, repo commit d722144) is in [0,1] for every line-search value, both modes *)
Theorem C05_spg_alpha_in_unit_interval : forall nm ds sBs q qMax, 0 <= @spg_alpha R NumR nm ds sBs q qMax <= 1.
Proof. exact spg_alpha_range. Qed.
Theorem C05_spg_step_feasible : forall bs xNew p nm ds sBs q qMax, in_box bs xNew -> in_box bs p ->
  in_box bs (@spg_update R NumR xNew p (@spg_alpha R NumR nm ds sBs q qMax)).
Proof. exact spg_step_feasible. Qed.
(* remarks about the regenerated line-search kernels themselves: the non-monotone one is >= 0 when q <= qMax; the
   monotone one can be negative (the mechanism of finding F12, repaired by the clip) *)
Theorem C05_nonmonotone_kernel_nonneg : forall ds sBs q qMax, 0 < sBs -> q <= qMax ->
  0 <= @nonmonotone_line_search R NumR ds sBs q qMax 0.
Proof. exact nonmonotone_kernel_nonneg. Qed.
Theorem C05_monotone_alpha_can_be_negative_refuted :
  exists ds sBs q qMax, 0 < sBs /\ q <= qMax /\ @kouri_exact_line_search R NumR ds sBs q qMax 0 < 0.
Proof. exact monotone_alpha_negative. Qed.
(* the clip statement and the box projection are kernels REGENERATED from the source (no hand kernel any more): spg_alpha above
   is spg_step_clip (generated from `alpha = min(1.0, max(0.0, alpha)) if sBs > 0 else 1.0`) applied to the generated line
   search; the list model's clamp is the generated project kernel *)
Theorem C05_generated_clip_is_clip : forall a sBs, @spg_step_clip R NumR a sBs = if Rlt_dec 0 sBs then Rmin 1 (Rmax 0 a) else 1.
Proof. exact spg_step_clip_spec. Qed.
Theorem C05_clamp_is_generated_project : forall x l u, @clamp R NumR x (Some l, Some u) = @project_n1 R NumR x l u.
Proof. exact clamp_is_generated. Qed.
Theorem C05_project_is_generated_n3 : forall x0 x1 x2 l0 u0 l1 u1 l2 u2,
  @project R NumR [x0; x1; x2] [(Some l0, Some u0); (Some l1, Some u1); (Some l2, Some u2)] =
  let '(a, b, c) := @project_n3 R NumR x0 x1 x2 l0 u0 l1 u1 l2 u2 in [a; b; c].
Proof. exact project_is_generated_n3. Qed.

(* "EVERY ITERATE OF THE WHOLE SOLVER IS FEASIBLE" as one theorem about the COMPLETE model (model/M_C05_Full.v:
   find_generalized_cauchy_point with its three loops, solve_spg_subproblem with qHistory / spectral step / both line searches /
   the generated clip, the outer loop calling them): for ARBITRARY value / gradient / Hessian-vector oracles that preserve the
   vector length, for EVERY sequence of root-finder answers `brent`, every settings record and every feasible start, every point
   in the trace -- each x+z whose sub-problem optimality is evaluated (the Cauchy point and every SPG iterate), each trial point
   y = x+s, each point passed to callback / update_precond / returned -- is in the box, and so is the returned point. *)
Theorem C05_every_iterate_feasible : forall (value : list R -> R) (grad : list R -> list R) (hessvec : list R -> list R -> list R)
    (brent : nat -> R) (bs : list (@bound R)) (S : settings R) (G : spg_settings R),
  wf_box bs ->
  (forall x, length x = length bs -> length (grad x) = length bs) ->
  (forall x v, length x = length bs -> length v = length bs -> length (hessvec x v) = length bs) ->
  forall x0, in_box bs x0 ->
  let '(res, tr) := @full_minimize R NumR value grad hessvec brent bs S G x0 in
  Forall (fev_feasible bs) tr /\ (forall xr flag, res = Some (xr, flag) -> in_box bs xr).
Proof. exact full_minimize_feasible. Qed.
(* flag clause for the complete model, no hypothesis at all: success is only reported at the last event of the trace, a
   ConvergedAt event at the returned point, whose projected-gradient measure is below tol *)
Theorem C05_flag_honest_complete_model : forall (value : list R -> R) (grad : list R -> list R) (hessvec : list R -> list R -> list R)
    (brent : nat -> R) (bs : list (@bound R)) (S : settings R) (G : spg_settings R) x0,
  let '(res, tr) := @full_minimize R NumR value grad hessvec brent bs S G x0 in
  forall xr, res = Some (xr, true) ->
    @optimality R NumR xr (grad xr) bs < s_tol S /\
    (tr = [FOut (EConvergedInit xr)] \/ exists tr', tr = tr' ++ [FOut (EConverged xr)]).
Proof. exact full_minimize_flag. Qed.
(* "EVERY ITERATE OF THE WHOLE SOLVER IS IN THE TRUST REGION" -- the other half of feasibility, for the same COMPLETE model.
   proofs/L_C05_TR.v tr_walk c D tr walks along the trace with c = the current iterate (the start x0, then the point of the last
   AcceptedAt event) and D = the radius announced by the last FIter event (FIter x trSize = the (x, trSize) handed to
   find_generalized_cauchy_point / solve_spg_subproblem by that outer iteration, compared with the implementation event by event):
     - every FIter announces the CURRENT iterate as its centre and a radius >= 0,
     - every FSpg point (the generalized Cauchy point x + cauchyStep and every SPG iterate x + z) has |p - c|^2 <= D^2,
     - every trial point y = x + s has |y - c|^2 <= D^2.
   For arbitrary length-preserving value / gradient / Hessian-vector oracles, EVERY sequence of root-finder answers (project_onto_tr
   is inside the radius whatever brentq returns since repo fix F15: C05_project_tr_in_both), every feasible start.
   Hypotheses on the settings, each one needed: tr_size >= 0, t1 >= 0, t2 >= 0 (the radius is only ever multiplied by t1 / t2 or
   reset to tr_size) and cauchy_point_max_line_search_iters >= 1 (with a cap of 0 the trust-region cut-back loop of the Cauchy search
   exits after ONE cut-back without raising -- `i == maxLineSearchIters` is 1 == 0 -- and returns a step that can be outside the
   radius: f = -x + x^2/200, x0 = 0, no bounds, tr_size = 1 gives the Cauchy step 20).
   Mechanism: the cut-back loop ends with s.s <= trSize^2 or raises; z += alpha*s with s = project_onto_tr(..) - (x+z) and
   alpha in [0,1] gives |z'|^2 <= (1-alpha)|z|^2 + alpha|P - x|^2 (convexity of the square, spg_update_ball). *)
Theorem C05_every_iterate_in_trust_region : forall (value : list R -> R) (grad : list R -> list R) (hessvec : list R -> list R -> list R)
    (brent : nat -> R) (bs : list (@bound R)) (S : settings R) (G : spg_settings R),
  wf_box bs ->
  (forall x, length x = length bs -> length (grad x) = length bs) ->
  (forall x v, length x = length bs -> length v = length bs -> length (hessvec x v) = length bs) ->
  0 <= s_tr_size S -> 0 <= s_t1 S -> 0 <= s_t2 S -> (1 <= g_max_ls G)%nat ->
  forall x0, in_box bs x0 ->
  forall D0, tr_walk x0 D0 (snd (@full_minimize R NumR value grad hessvec brent bs S G x0)).
Proof. exact full_minimize_in_tr. Qed.
(* the two vector facts behind it, stated on their own *)
Theorem C05_spg_update_stays_in_ball : forall x z p a, length z = length x -> length p = length x -> 0 <= a <= 1 ->
  raxpy z a (rsub p (radd x z)) ⋅ raxpy z a (rsub p (radd x z)) <= (1 - a) * (z ⋅ z) + a * (rsub p x ⋅ rsub p x).
Proof. exact spg_update_ball. Qed.
Theorem C05_cauchy_step_in_trust_region : forall (bs : list (@bound R)) (G : spg_settings R), (1 <= g_max_ls G)%nat ->
  forall x g Hv tr alpha fwd n1 n2 a s,
  @cauchy_point R NumR bs G x g Hv tr alpha = CPOk fwd n1 n2 a s -> s ⋅ s <= tr * tr.
Proof. exact cauchy_point_in_tr. Qed.
(* the cap hypothesis is needed: with cauchy_point_max_line_search_iters = 0 the Cauchy search returns a step outside the radius
   (model Hessian 1/100, g = -1, x = 0, unbounded, first step length 100, trSize = 1: step 20; the implementation does the same) *)
Theorem C05_cauchy_step_cap_zero_refuted :
  exists (G : spg_settings R) x g Hv tr alpha fwd n1 n2 a s,
    g_max_ls G = O /\ @cauchy_point R NumR [(None, None)] G x g Hv tr alpha = CPOk fwd n1 n2 a s /\ tr * tr < s ⋅ s.
Proof. exact cauchy_cap_zero_outside. Qed.
(* NOT PROVED: both halves over binary64 (y = x + z is a rounded addition: a bound can be exceeded by an ulp, the radius by a few
   ulp of |x|; L2 allows 4 ulp for the box and trSize*1e-9 + 8 ulp(|x|) sqrt(n) for the radius and reports the worst excess).
   Runs that end in the documented RuntimeError of the Cauchy search or outside the model's range (max_spg_iters = 0:
   NameError in python; cauchy_point_max_line_search_iters = 0)
   have result None: the theorems then speak about the points formed before. *)

(* REFINEMENT: every run of the complete model that returns is a run of the proposal-oracle model bc_minimize (below) for the
   proposal sequence run_proposals that the complete run itself computes (proofs/L_C05_Refine.v: the (s, modelObjective,
   stepType == 'boundary', spgIters) of each outer iteration, by index): same returned point, same flag, and the trace of the
   proposal-oracle run is exactly the callback / update_precond / return events (outs) of the complete trace.  So every theorem
   proved about bc_minimize for ARBITRARY proposals holds for the complete solver. *)
Theorem C05_complete_run_is_a_proposal_oracle_run : forall (value : list R -> R) (grad : list R -> list R)
    (hessvec : list R -> list R -> list R) (brent : nat -> R) (bs : list (@bound R)) (S : settings R) (G : spg_settings R) x0 xr flag tr,
  @full_minimize R NumR value grad hessvec brent bs S G x0 = (Some (xr, flag), tr) ->
  @bc_minimize R NumR value grad bs (run_proposals value grad hessvec brent bs S G x0) S x0 = (xr, flag, outs tr).
Proof. exact full_minimize_refines. Qed.
(* ... transferred: descent on accepted iterates (default mode, eta1 >= 0) and returns-the-last-iterate for EVERY run of the
   complete model -- no hypothesis on the oracles, on the root finder or on the settings; runs that end in the RuntimeError
   included (such a run is the proposal-oracle run whose iteration cap is the number of completed outer iterations). *)
Theorem C05_trace_properties_complete_model : forall (value : list R -> R) (grad : list R -> list R)
    (hessvec : list R -> list R -> list R) (brent : nat -> R) (bs : list (@bound R)) (S : settings R) (G : spg_settings R) x0,
  let '(res, tr) := @full_minimize R NumR value grad hessvec brent bs S G x0 in
  accepts_ok value (outs tr) /\
  (s_use_incremental S = false -> 0 <= s_eta1 S -> chain (value x0) (accept_vals (outs tr))) /\
  (forall xr, res = Some (xr, false) ->
     xr = cur x0 (outs tr) /\ exists tr', outs tr = tr' ++ [ETooSmall xr] \/ outs tr = tr' ++ [EMaxIters xr]).
Proof. exact full_minimize_trace. Qed.

(* outer loop, ARBITRARY value/gradient oracles and ARBITRARY step proposals: descent on accepted iterates (default mode,
   eta1 >= 0), flag = true only at a ConvergedAt event at the returned point whose projected-gradient measure is < tol,
   flag = false => the returned point is the current (last accepted or start) iterate *)
Theorem C05_trace_properties : forall (value : list R -> R) (grad : list R -> list R) (bs : list (@bound R))
    (proposal : nat -> list R -> list R * R * bool * nat) (S : settings R) x,
  let '(xr, flag, tr) := @bc_minimize R NumR value grad bs proposal S x in
  accepts_ok value tr /\
  (s_use_incremental S = false -> 0 <= s_eta1 S -> chain (value x) (accept_vals tr)) /\
  (flag = true -> ((exists tr', tr = tr' ++ [EConverged xr]) \/ tr = [EConvergedInit xr]) /\
                  @optimality R NumR xr (grad xr) bs < s_tol S) /\
  (flag = false -> xr = cur x tr /\ exists tr', tr = tr' ++ [ETooSmall xr] \/ tr = tr' ++ [EMaxIters xr]).
Proof. exact bc_minimize_spec. Qed.
(* NOT PROVED / FALSE: descent at the converged exit (finding F1', same mechanism as C01's F1: the convergence test precedes
   the acceptance test; the binary64 witness of C01 (C01_converged_exit_can_go_uphill_refuted_binary64) is replayed on
   bound_constrained_trust_region_minimize with the box [-10, 10] by the harness); success on convex problems (global
   convergence) -- tested only. *)

(* convex objective + projected-gradient measure exactly zero => bound-constrained minimiser *)
Theorem C05_convex_pg_zero_is_min : forall (f : list R -> R) (gradf : list R -> list R) bs x,
  wf_box bs -> in_box bs x -> length (gradf x) = length bs ->
  (forall y, in_box bs y -> f x + gradf x ⋅ rsub y x <= f y) ->
  @project R NumR (rsub x (gradf x)) bs = x ->
  forall y, in_box bs y -> f x <= f y.
Proof. exact convex_stationary_is_minimizer. Qed.

(* the same with a NON-ZERO measure (what the solver actually certifies): gradient strongly monotone (mu) and Lipschitz (L) between
   x and the constrained minimiser xs (first-order condition g(xs).(y - xs) >= 0 on the box) =>
   mu |x - xs| <= (1 + L) |P(x - g(x)) - x| *)
Theorem C05_convex_pg_small_near_min : forall bs (x xs gx gs : list R) mu L,
  wf_box bs -> in_box bs x -> in_box bs xs -> length gx = length bs -> length gs = length bs ->
  0 < mu -> 0 <= L ->
  (forall y, in_box bs y -> 0 <= gs ⋅ rsub y xs) ->
  mu * (rsub x xs ⋅ rsub x xs) <= rsub gx gs ⋅ rsub x xs ->
  rsub gx gs ⋅ rsub gx gs <= L * L * (rsub x xs ⋅ rsub x xs) ->
  mu * sqrt (rsub x xs ⋅ rsub x xs) <= (1 + L) * @optimality R NumR x gx bs.
Proof. exact pg_small_near_minimizer. Qed.
(* "for convex problems the point returned with success is the bound-constrained minimizer", quantitatively, for the COMPLETE model:
   whenever the complete solver reports success on a problem whose gradient is mu-strongly monotone and L-Lipschitz towards the
   constrained minimiser xs, the returned point is within (1 + L)/mu * tol of xs (every oracle sequence of the root finder) *)
Theorem C05_success_is_near_constrained_minimizer : forall (value : list R -> R) (grad : list R -> list R)
    (hessvec : list R -> list R -> list R) (brent : nat -> R) (bs : list (@bound R)) (S : settings R) (G : spg_settings R),
  wf_box bs ->
  (forall x, length x = length bs -> length (grad x) = length bs) ->
  (forall x v, length x = length bs -> length v = length bs -> length (hessvec x v) = length bs) ->
  forall x0, in_box bs x0 ->
  forall xs mu L, in_box bs xs -> 0 < mu -> 0 <= L ->
  (forall y, in_box bs y -> 0 <= grad xs ⋅ rsub y xs) ->
  (forall x, in_box bs x -> mu * (rsub x xs ⋅ rsub x xs) <= rsub (grad x) (grad xs) ⋅ rsub x xs /\
                            rsub (grad x) (grad xs) ⋅ rsub (grad x) (grad xs) <= L * L * (rsub x xs ⋅ rsub x xs)) ->
  forall xr tr, @full_minimize R NumR value grad hessvec brent bs S G x0 = (Some (xr, true), tr) ->
  mu * sqrt (rsub xr xs ⋅ rsub xr xs) < (1 + L) * s_tol S.
Proof. exact success_near_minimizer. Qed.
(* NOT PROVED: that the solver DOES report success on such problems (global convergence of the trust-region / SPG iteration with this
   code's caps) -- tested only (convex-box stream: success and distance to an independent reference minimiser within this bound). *)

Example C05_convex_hypotheses_nonvacuous :
  let b : list (@bound R) := [(Some 0, None)] in let grad := (fun y : list R => y) in
  in_box b [0] /\ 0 < 1 /\ 0 <= 1 /\
  (forall y, in_box b y -> 0 <= grad [0] ⋅ rsub y [0]) /\
  (forall x, in_box b x -> 1 * (rsub x [0] ⋅ rsub x [0]) <= rsub (grad x) (grad [0]) ⋅ rsub x [0] /\
                           rsub (grad x) (grad [0]) ⋅ rsub (grad x) (grad [0]) <= 1 * 1 * (rsub x [0] ⋅ rsub x [0])).
Proof. exact example_convex_hypotheses. Qed.

Example C05_nonvacuous :
  wf_box [(Some 0, Some 1); (None, Some 2); (Some 3, Some 3); (None, None)] /\
  in_box [(Some 0, Some 1); (None, Some 2); (Some 3, Some 3); (None, None)] [1/2; -5; 3; 7].
Proof. exact example_box. Qed.
Example C05_every_iterate_feasible_nonvacuous :
  let b := [(Some 0, Some 1); (None, Some 2); (Some 3, Some 3); (None, None)] in
  wf_box b /\ in_box b [1/2; -5; 3; 7] /\
  (forall x : list R, length x = length b -> length ((fun y : list R => y) x) = length b) /\
  (forall x v : list R, length x = length b -> length v = length b -> length ((fun (_ y : list R) => y) x v) = length b).
Proof. exact example_full_hypotheses. Qed.

Example C05_in_trust_region_nonvacuous :
  (0 <= 2 /\ 0 <= 1/4 /\ 0 <= 7/4 /\ (1 <= 25)%nat) /\
  ~ tr_walk [0] 0 [FIter [0] 1; FTrial [2]] /\ ~ tr_walk [0] 0 [FIter [1] 1] /\ ~ tr_walk [0] 0 [FIter [0] (-1)] /\
  tr_walk [0] 0 [FIter [0] 1; FSpg [1] 0 0; FTrial [1]; FOut (EAccept [1] 0); FIter [1] 2; FTrial [3]].
Proof. exact example_tr_hypotheses. Qed.

Print Assumptions C05_project_nearest.
Print Assumptions C05_project_tr_in_both.
Print Assumptions C05_spg_step_feasible.
Print Assumptions C05_every_iterate_feasible.
Print Assumptions C05_flag_honest_complete_model.
Print Assumptions C05_every_iterate_in_trust_region.
Print Assumptions C05_trace_properties_complete_model.
Print Assumptions C05_trace_properties.
Print Assumptions C05_convex_pg_zero_is_min.
Print Assumptions C05_success_is_near_constrained_minimizer.
