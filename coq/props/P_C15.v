(* C15 -- property theorems only.  Each is closed by `exact <lemma>`.  Subjects: predict / correct / kinetic_energy_density
   regenerated from /repo/optimism/Mechanics.py (OV.gen.Gen_Mechanics) at T := R, applied entry by entry to fields I -> R over an
   arbitrary index set I of degrees of freedom (OV.model.M_C15_Newmark).  m and k stand for the mass form (Hessian of the
   kinetic energy) and the stiffness form (Hessian of the quadratic strain energy): ANY symmetric bilinear forms (`sbf`).
   The minimiser of the algorithmic energy is an oracle `solve`; what is assumed about it is stated in each theorem.
   Second part (theorems C15_fe_..., C15_c03_..., C15_mass_total_is_density_times_area...): m and k are no longer arbitrary -- they are the
   quadrature sums over a mesh of OV.model.M_C15_FE (regenerated kinetic_energy_density / LinearElastic kernels), for which the
   hypotheses of the first part are proved, and which are composed with C03's lifting theorems. *)
From Coq Require Import Reals List.
From Coquelicot Require Import Coquelicot.
From OV.base Require Import Num.
From OV.gen Require Import Gen_Mechanics.
From OV.gen Require Import Gen_TensorMath Gen_LinearElastic.
From OV.model Require Import M_C15_Newmark M_C15_FE M_C15_Purity.
From OV.gen Require Import CFG_c15.
From OV.proofs Require Import L_C15 L_C15fe L_C15lin L_C15linfe L_C15pure.
From OV.proofs Require Import L_C03sn L_C03cert L_C03lift L_C15fe_C03.
Import ListNotations.
Local Open Scope R_scope.

(* ---- Newmark update formulas (per degree of freedom, any beta <> 0, dt <> 0, any returned displacement U1) ---- *)
Theorem C15_update_formulas : forall g b U0 V0 A0 dt U1 : R, b <> 0 -> dt <> 0 ->
  let '(Up, Vp) := @predict R NumR g b U0 V0 A0 dt in
  let '(V1, A1) := @correct R NumR g b (U1 - Up) Vp A0 dt in
  A1 = (U1 - Up) / (b * dt * dt) /\
  U1 = U0 + dt * V0 + dt * dt * ((1 / 2 - b) * A0 + b * A1) /\
  V1 = V0 + dt * ((1 - g) * A0 + g * A1).
Proof. exact update_formulas. Qed.

(* ---- discrete balance of momentum <=> stationarity of the algorithmic energy, any differentiable strain energy ---- *)
Theorem C15_balance : forall (I : Type) (m : @field R I -> @field R I -> R), sbf I m ->
  forall (SE : @field R I -> R) (dSE : @field R I -> @field R I -> R),
  (forall U w, is_derive (fun e : R => SE (@fadd R NumR I U (@fscal R NumR I e w))) 0 (dSE U w)) ->
  forall b dt : R, b <> 0 -> dt <> 0 -> forall Up U1 : @field R I,
  (forall w, is_derive (fun e : R => @alg_energy R NumR I SE m b dt Up (@fadd R NumR I U1 (@fscal R NumR I e w))) 0 0)
  <-> (forall w, m (A_new I b dt Up U1) w + dSE U1 w = 0).
Proof. exact balance_iff_stationary. Qed.
(* the directional derivative of the algorithmic energy is internal force + inertia force, for every direction *)
Theorem C15_algorithmic_energy_derivative : forall (I : Type) (m : @field R I -> @field R I -> R), sbf I m ->
  forall (SE : @field R I -> R) (dSE : @field R I -> @field R I -> R),
  (forall U w, is_derive (fun e : R => SE (@fadd R NumR I U (@fscal R NumR I e w))) 0 (dSE U w)) ->
  forall b dt : R, b <> 0 -> dt <> 0 -> forall Up U1 w : @field R I,
  is_derive (fun e : R => @alg_energy R NumR I SE m b dt Up (@fadd R NumR I U1 (@fscal R NumR I e w))) 0 (dSE U1 w + m (A_new I b dt Up U1) w).
Proof. exact alg_energy_derivative. Qed.
(* linear elasticity: SE = 1/2 k(U,U) has derivative k(U, w) (no differentiability assumption left) *)
Theorem C15_quadratic_strain_energy_derivative : forall (I : Type) (k : @field R I -> @field R I -> R), sbf I k ->
  forall U w, is_derive (fun e : R => SEq I k (@fadd R NumR I U (@fscal R NumR I e w))) 0 (k U w).
Proof. exact SEq_derive. Qed.

(* ---- energy conservation: gamma = 1/2, beta = 1/4, linear elastic, no loads, consistent start, every step size ---- *)
Theorem C15_energy_conserved_one_step : forall (I : Type) (m k : @field R I -> @field R I -> R), sbf I m -> sbf I k ->
  forall (solve : @field R I -> R -> @field R I) (s : @state R I) (dt : R), dt <> 0 ->
  balanced I m k s ->
  stationary_at I m k (1 / 4) dt (fst (@predictF R NumR I (1 / 2) (1 / 4) (sU s) (sV s) (sA s) dt))
                (solve (fst (@predictF R NumR I (1 / 2) (1 / 4) (sU s) (sV s) (sA s) dt)) dt) ->
  balanced I m k (@newmark_step R NumR I (1 / 2) (1 / 4) solve s dt) /\
  energy I m k (@newmark_step R NumR I (1 / 2) (1 / 4) solve s dt) = energy I m k s.
Proof. exact energy_step. Qed.
Theorem C15_energy_conserved : forall (I : Type) (m k : @field R I -> @field R I -> R), sbf I m -> sbf I k ->
  forall (solve : @field R I -> R -> @field R I) (dts : list R) (s : @state R I),
  (forall dt, In dt dts -> dt <> 0) ->
  (forall Up dt, dt <> 0 -> stationary_at I m k (1 / 4) dt Up (solve Up dt)) ->
  balanced I m k s ->
  energy I m k (@newmark_run R NumR I (1 / 2) (1 / 4) solve s dts) = energy I m k s /\
  balanced I m k (@newmark_run R NumR I (1 / 2) (1 / 4) solve s dts).
Proof. exact energy_conserved. Qed.
(* the premise "the initial acceleration is itself in balance" cannot be dropped *)
Theorem C15_energy_needs_consistent_A0_refuted :
  exists (s : @state R unit) (solve : (unit -> R) -> R -> (unit -> R)) (dt : R),
    dt <> 0 /\
    stationary_at unit m1 m1 (1 / 4) dt (fst (@predictF R NumR unit (1 / 2) (1 / 4) (sU s) (sV s) (sA s) dt))
                  (solve (fst (@predictF R NumR unit (1 / 2) (1 / 4) (sU s) (sV s) (sA s) dt)) dt) /\
    ~ balanced unit m1 m1 s /\
    energy unit m1 m1 (@newmark_step R NumR unit (1 / 2) (1 / 4) solve s dt) <> energy unit m1 m1 s.
Proof. exact needs_consistent_A0_refuted. Qed.

(* ---- rigid translation at constant velocity is integrated exactly (any gamma, beta > 0, M positive definite, K >= 0, K c = 0) ---- *)
Theorem C15_rigid_translation : forall (I : Type) (m k : @field R I -> @field R I -> R), sbf I m -> sbf I k ->
  forall (g b : R) (c : @field R I) (solve : @field R I -> R -> @field R I), 0 < b ->
  (forall x, 0 <= m x x) -> (forall x, m x x = 0 -> x = @fzero R NumR I) -> (forall x, 0 <= k x x) ->
  (forall w, k c w = 0) ->
  (forall Up dt, dt <> 0 -> stationary_at I m k b dt Up (solve Up dt)) ->
  forall (dts : list R) (U0 : @field R I), (forall dt, In dt dts -> dt <> 0) -> (forall w, k U0 w = 0) ->
  @newmark_run R NumR I g b solve (mkState U0 c (@fzero R NumR I)) dts
  = mkState (@fadd R NumR I U0 (@fscal R NumR I (fold_right Rplus 0 dts) c)) c (@fzero R NumR I).
Proof. exact rigid_translation_run. Qed.

(* ---- mass: partition of unity => kinetic energy of a rigid velocity, and total of the consistent mass matrix ---- *)
Theorem C15_kinetic_energy_rigid : forall (rho : R) (qp : list (R * list R)) (n : nat) (vx vy : R),
  (forall q, In q qp -> length (snd q) = n /\ @nsum R NumR (snd q) = 1) ->
  @kinetic_energy R NumR rho qp (repeat (vx, vy) n) = 1 / 2 * rho * @nsum R NumR (map fst qp) * (vx * vx + vy * vy).
Proof. exact kinetic_energy_rigid. Qed.
Theorem C15_mass_total : forall (rho : R) (qp : list (R * list R)) (n : nat),
  (forall q, In q qp -> length (snd q) = n /\ @nsum R NumR (snd q) = 1) ->
  @mass_total R NumR rho qp n = rho * @nsum R NumR (map fst qp).
Proof. exact mass_total_is_rho_area. Qed.

(* ================================================================================================================
   The quadrature model of the energies integrated by Mechanics.create_dynamics_functions (model/M_C15_FE.v): a mesh is ANY list of
   elements (connectivity over any node type A, one record per quadrature point: volume weight, shape values, physical shape
   gradients); kinetic_energy_density, linear_strain, _linear_elastic_energy_density, _make_properties are the regenerated
   kernels.  fe_mass_form = sum_q w_q rho u_h(q).v_h(q);  fe_stiff_form = sum_q w_q eps(u):C:eps(v)  (plane strain).
   The hypotheses "m, k are symmetric bilinear forms, m positive definite, k >= 0, k c = 0" of the theorems above are
   discharged for these forms. *)

(* ---- symmetry and bilinearity: every mesh, every weight (even negative), every density and moduli *)
Theorem C15_fe_mass_form_symmetric_bilinear : forall (A : Type) (mesh : list (@elem R A)) (rho : R),
  sbf (@dof A) (@fe_mass_form R NumR A rho mesh).
Proof. exact fe_mass_sbf. Qed.
Theorem C15_fe_stiffness_form_symmetric_bilinear : forall (A : Type) (mesh : list (@elem R A)) (mu kappa : R),
  sbf (@dof A) (@fe_stiff_form R NumR A mu kappa mesh).
Proof. exact fe_stiff_sbf. Qed.
(* ---- the forms ARE the second-order parts of the energies the library integrates (regenerated densities) *)
Theorem C15_fe_kinetic_energy_is_half_mass_form : forall (A : Type) (mesh : list (@elem R A)) (rho : R) (v : @nfield R A),
  @fe_kinetic_energy R NumR A rho mesh v = 1 / 2 * @fe_mass_form R NumR A rho mesh v v.
Proof. exact fe_kinetic_half_mass. Qed.
Theorem C15_fe_strain_energy_is_half_stiffness_form : forall (A : Type) (mesh : list (@elem R A)) (E nu : R) (u : @nfield R A),
  @fe_strain_energy R NumR A E nu mesh u = 1 / 2 * @fe_stiff_form R NumR A (le_mu E nu) (le_kappa E nu) mesh u u.
Proof. exact fe_strain_half_stiff. Qed.
Theorem C15_lame_moduli : forall E nu : R,
  (le_mu E nu = E / (2 * (1 + nu)) /\ le_kappa E nu = E / (3 * (1 - 2 * nu))) /\
  (0 < E -> -1 < nu < 1 / 2 -> 0 < le_mu E nu /\ 0 < le_kappa E nu).
Proof. exact lame_moduli. Qed.
(* compute_newmark_lagrangian as modelled is the algorithmic energy of C15_balance with these forms *)
Theorem C15_fe_algorithmic_energy : forall (A : Type) (mesh : list (@elem R A)) (rho E nu b dt : R) (Up U : @nfield R A),
  @fe_alg_energy R NumR A rho E nu b dt mesh Up U
  = @alg_energy R NumR (@dof A) (SEq (@dof A) (@fe_stiff_form R NumR A (le_mu E nu) (le_kappa E nu) mesh)) (@fe_mass_form R NumR A rho mesh) b dt Up U.
Proof. exact fe_alg_energy_eq. Qed.

(* ---- positive semi-definiteness for non-negative volume weights *)
Theorem C15_fe_mass_form_psd : forall (A : Type) (mesh : list (@elem R A)) (rho : R) (v : @nfield R A),
  0 <= rho -> (forall e q, In e mesh -> In q (snd e) -> 0 <= qw q) -> 0 <= @fe_mass_form R NumR A rho mesh v v.
Proof. exact fe_mass_psd. Qed.
Theorem C15_fe_stiffness_form_psd : forall (A : Type) (mesh : list (@elem R A)) (mu kappa : R) (v : @nfield R A),
  0 <= mu -> 0 <= kappa -> (forall e q, In e mesh -> In q (snd e) -> 0 <= qw q) -> 0 <= @fe_stiff_form R NumR A mu kappa mesh v v.
Proof. exact fe_stiff_psd. Qed.
(* ---- the null space of the mass form (w_q > 0, rho > 0): exactly the fields whose interpolant vanishes at every quadrature
   point; hence M is positive definite IF AND ONLY IF sampling at the quadrature points is injective on nodal fields *)
Theorem C15_fe_mass_form_null_space : forall (A : Type) (mesh : list (@elem R A)) (rho : R) (v : @nfield R A),
  0 < rho -> (forall e q, In e mesh -> In q (snd e) -> 0 < qw q) ->
  (@fe_mass_form R NumR A rho mesh v v = 0 <->
   forall e q, In e mesh -> In q (snd e) -> @interp R NumR A v (fst e) q false = 0 /\ @interp R NumR A v (fst e) q true = 0).
Proof. exact fe_mass_null_space. Qed.
Theorem C15_fe_mass_form_definite_iff_unisolvent : forall (A : Type) (mesh : list (@elem R A)) (rho : R),
  0 < rho -> weights_pos A mesh ->
  ((forall v, @fe_mass_form R NumR A rho mesh v v = 0 -> v = @fzero R NumR (@dof A)) <-> unisolvent A mesh).
Proof. exact fe_mass_definite_iff. Qed.
(* positive weights and partition of unity alone do NOT make M definite (under-integrating rules): "M positive definite" without
   the unisolvence premise is false of the model *)
Theorem C15_fe_mass_definite_without_unisolvence_refuted :
  weights_pos bool ex2_mesh /\ partition_of_unity bool ex2_mesh /\ grad_sums_zero bool ex2_mesh /\
  exists v : @nfield R bool, @fe_mass_form R NumR bool 1 ex2_mesh v v = 0 /\ v <> @fzero R NumR (@dof bool).
Proof. exact fe_mass_not_definite_witness. Qed.

(* ---- K c = 0 for rigid translations, from "the shape-function gradients of every element sum to zero at every quadrature
   point" (grad_sums_zero: C03's gradient partition of unity, one gradient per element node) *)
Theorem C15_fe_stiffness_annihilates_translations : forall (A : Type) (mesh : list (@elem R A)) (mu kappa cx cy : R) (w : @nfield R A),
  (forall e q, In e mesh -> In q (snd e) ->
     length (qGx q) = length (fst e) /\ length (qGy q) = length (fst e) /\ @nsum R NumR (qGx q) = 0 /\ @nsum R NumR (qGy q) = 0) ->
  @fe_stiff_form R NumR A mu kappa mesh (@translation R A cx cy) w = 0.
Proof. exact fe_stiff_translation. Qed.

(* ---- the Newmark theorems over the modelled energies: no hypothesis about forms left *)
Theorem C15_fe_energy_conserved : forall (A : Type) (mesh : list (@elem R A)) (rho E nu : R)
    (solve : @nfield R A -> R -> @nfield R A) (dts : list R) (s : @state R (@dof A)),
  (forall dt, In dt dts -> dt <> 0) ->
  (forall Up dt, dt <> 0 -> forall w, is_derive (fun e : R =>
      @fe_alg_energy R NumR A rho E nu (1 / 4) dt mesh Up (@fadd R NumR (@dof A) (solve Up dt) (@fscal R NumR (@dof A) e w))) 0 0) ->
  (forall w, @fe_mass_form R NumR A rho mesh (sA s) w + @fe_stiff_form R NumR A (le_mu E nu) (le_kappa E nu) mesh (sU s) w = 0) ->
  let sN := @newmark_run R NumR (@dof A) (1 / 2) (1 / 4) solve s dts in
  (@fe_kinetic_energy R NumR A rho mesh (sV sN) + @fe_strain_energy R NumR A E nu mesh (sU sN)
   = @fe_kinetic_energy R NumR A rho mesh (sV s) + @fe_strain_energy R NumR A E nu mesh (sU s)) /\
  (forall w, @fe_mass_form R NumR A rho mesh (sA sN) w + @fe_stiff_form R NumR A (le_mu E nu) (le_kappa E nu) mesh (sU sN) w = 0).
Proof. exact fe_energy_conserved. Qed.
Theorem C15_fe_rigid_translation : forall (A : Type) (mesh : list (@elem R A)) (rho E nu g b cx cy ox oy : R)
    (solve : @nfield R A -> R -> @nfield R A) (dts : list R),
  0 < rho -> 0 < E -> -1 < nu < 1 / 2 -> 0 < b ->
  weights_pos A mesh -> grad_sums_zero A mesh -> unisolvent A mesh ->
  (forall Up dt, dt <> 0 -> fe_stationary A mesh rho E nu b dt Up (solve Up dt)) ->
  (forall dt, In dt dts -> dt <> 0) ->
  @newmark_run R NumR (@dof A) g b solve (mkState (@translation R A ox oy) (@translation R A cx cy) (@fzero R NumR (@dof A))) dts
  = mkState (@fadd R NumR (@dof A) (@translation R A ox oy) (@fscal R NumR (@dof A) (fold_right Rplus 0 dts) (@translation R A cx cy)))
            (@translation R A cx cy) (@fzero R NumR (@dof A)).
Proof. exact fe_rigid_translation. Qed.

(* ---- total mass: partition of unity => m(c, c') = rho * (sum of the quadrature volumes) * c.c' for translations c, c'
   (c = c' = e_x: the x-x entries of the consistent mass matrix sum to rho * volume; c = e_x, c' = e_y: the x-y entries sum to 0) *)
Theorem C15_fe_mass_total : forall (A : Type) (mesh : list (@elem R A)) (rho cx cy dx dy : R),
  (forall e q, In e mesh -> In q (snd e) -> length (qN q) = length (fst e) /\ @nsum R NumR (qN q) = 1) ->
  @fe_mass_form R NumR A rho mesh (@translation R A cx cy) (@translation R A dx dy) = rho * @fe_volume R NumR A mesh * (cx * dx + cy * dy).
Proof. exact fe_mass_translations. Qed.

(* ================================================================================================================
   Composition with C03: meshes as FunctionSpace builds them from reference tables (c03_mesh: vols = jac * w_q = C03's el_vols,
   shapeGrads = C03's map_grad of the reference gradients).  RefIds / TriQuadExact are the predicates C03's certificate checkers
   establish for the runtime tables (with tolerance eps for the shape tables, epsq for the quadrature rule). *)
Theorem C15_c03_mesh_premises : forall (A : Type) (p : nat) (nodes : list (R * R)) (ws : list R) (tabs : list reftab)
    (els : list (list A * tri)) (d : nat) (epsq : R) (pts : list (R * R)),
  (forall t, In t tabs -> exists q, RefIds p 0 nodes q (fst t) (fst (snd t)) (snd (snd t))) ->
  (forall ct, In ct els -> length (fst ct) = length nodes) ->
  TriQuadExact d epsq pts ws -> (forall ct, In ct els -> ccw (snd ct)) ->
  partition_of_unity A (c03_mesh ws tabs els) /\ grad_sums_zero A (c03_mesh ws tabs els) /\ weights_pos A (c03_mesh ws tabs els).
Proof. exact c03_mesh_premises. Qed.
(* "the consistent mass sums to density * area": for the certified tolerances of the binary64 tables, explicit bound; exact for
   exact tables.  mesh_area = sum of the triangle areas of the (counter-clockwise) elements. *)
Theorem C15_mass_total_is_density_times_area : forall (A : Type) (p : nat) (eps : R) (nodes : list (R * R)) (ws : list R)
    (tabs : list reftab) (els : list (list A * tri)) (d : nat) (epsq : R) (pts : list (R * R)) (rho cx cy dx dy : R),
  (forall t, In t tabs -> exists q, RefIds p eps nodes q (fst t) (fst (snd t)) (snd (snd t))) ->
  (forall ct, In ct els -> length (fst ct) = length nodes) ->
  TriQuadExact d epsq pts ws -> length ws = length tabs -> (forall ct, In ct els -> ccw (snd ct)) ->
  0 <= eps -> 0 <= epsq ->
  Rabs (@fe_mass_form R NumR A rho (c03_mesh ws tabs els) (@translation R A cx cy) (@translation R A dx dy)
        - rho * mesh_area A els * (cx * dx + cy * dy))
  <= Rabs (rho * (cx * dx + cy * dy)) * mesh_area A els * ((1 + 2 * epsq) * (eps * (2 + eps)) + 2 * epsq).
Proof. exact mass_total_density_area_eps. Qed.
Theorem C15_mass_total_is_density_times_area_exact : forall (A : Type) (p : nat) (nodes : list (R * R)) (ws : list R)
    (tabs : list reftab) (els : list (list A * tri)) (d : nat) (pts : list (R * R)) (rho cx cy dx dy : R),
  (forall t, In t tabs -> exists q, RefIds p 0 nodes q (fst t) (fst (snd t)) (snd (snd t))) ->
  (forall ct, In ct els -> length (fst ct) = length nodes) ->
  TriQuadExact d 0 pts ws -> length ws = length tabs -> (forall ct, In ct els -> ccw (snd ct)) ->
  @fe_mass_form R NumR A rho (c03_mesh ws tabs els) (@translation R A cx cy) (@translation R A dx dy)
  = rho * mesh_area A els * (cx * dx + cy * dy).
Proof. exact mass_total_density_area_exact. Qed.
(* rigid translation on meshes built from exact reference tables: the premises K c = 0 and w_q > 0 are now C03's theorems *)
Theorem C15_c03_rigid_translation : forall (A : Type) (p : nat) (nodes : list (R * R)) (ws : list R) (tabs : list reftab)
    (els : list (list A * tri)) (d : nat) (epsq : R) (pts : list (R * R)) (rho E nu g b cx cy ox oy : R)
    (solve : @nfield R A -> R -> @nfield R A) (dts : list R),
  (forall t, In t tabs -> exists q, RefIds p 0 nodes q (fst t) (fst (snd t)) (snd (snd t))) ->
  (forall ct, In ct els -> length (fst ct) = length nodes) ->
  TriQuadExact d epsq pts ws -> (forall ct, In ct els -> ccw (snd ct)) ->
  unisolvent A (c03_mesh ws tabs els) ->
  0 < rho -> 0 < E -> -1 < nu < 1 / 2 -> 0 < b ->
  (forall Up dt, dt <> 0 -> fe_stationary A (c03_mesh ws tabs els) rho E nu b dt Up (solve Up dt)) ->
  (forall dt, In dt dts -> dt <> 0) ->
  @newmark_run R NumR (@dof A) g b solve (mkState (@translation R A ox oy) (@translation R A cx cy) (@fzero R NumR (@dof A))) dts
  = mkState (@fadd R NumR (@dof A) (@translation R A ox oy) (@fscal R NumR (@dof A) (fold_right Rplus 0 dts) (@translation R A cx cy)))
            (@translation R A cx cy) (@fzero R NumR (@dof A)).
Proof. exact c03_rigid_translation_exact. Qed.

(* ================================================================================================================
   LINEARITY / SCALE INVARIANCE of the Newmark update (proofs/L_C15lin.v, L_C15linfe.v).  The regenerated predict / correct are
   linear maps of their three array arguments for EVERY gamma, beta, dt (no side condition): scaling the state by s scales
   every output by s, and outputs add.  Any absolute threshold inside them contradicts these statements (cf. the refuted
   thresholded corrector below). *)
Theorem C15_predict_homogeneous : forall g b s U V A dt : R,
  @predict R NumR g b (s * U) (s * V) (s * A) dt
  = (s * fst (@predict R NumR g b U V A dt), s * snd (@predict R NumR g b U V A dt)).
Proof. exact predict_homogeneous. Qed.
Theorem C15_predict_additive : forall g b U V A U' V' A' dt : R,
  @predict R NumR g b (U + U') (V + V') (A + A') dt
  = (fst (@predict R NumR g b U V A dt) + fst (@predict R NumR g b U' V' A' dt),
     snd (@predict R NumR g b U V A dt) + snd (@predict R NumR g b U' V' A' dt)).
Proof. exact predict_additive. Qed.
Theorem C15_correct_homogeneous : forall g b s UC V A dt : R,
  @correct R NumR g b (s * UC) (s * V) (s * A) dt
  = (s * fst (@correct R NumR g b UC V A dt), s * snd (@correct R NumR g b UC V A dt)).
Proof. exact correct_homogeneous. Qed.
Theorem C15_correct_additive : forall g b UC V A UC' V' A' dt : R,
  @correct R NumR g b (UC + UC') (V + V') (A + A') dt
  = (fst (@correct R NumR g b UC V A dt) + fst (@correct R NumR g b UC' V' A' dt),
     snd (@correct R NumR g b UC V A dt) + snd (@correct R NumR g b UC' V' A' dt)).
Proof. exact correct_additive. Qed.
(* the new acceleration vanishes ONLY for a zero correction (no dead band) *)
Theorem C15_correct_acceleration_zero_iff : forall g b UC V A dt : R, b <> 0 -> dt <> 0 ->
  (snd (@correct R NumR g b UC V A dt) = 0 <-> UC = 0).
Proof. exact correct_acceleration_zero_iff. Qed.
(* "flush |UCorrection| <= tau to zero" is not homogeneous, for every tau > 0 *)
Theorem C15_thresholded_corrector_scale_invariance_refuted : forall tau : R, 0 < tau ->
  exists s UC V A dt : R,
    snd (correct_flushed tau (1 / 2) (1 / 4) (s * UC) (s * V) (s * A) dt) <> s * snd (correct_flushed tau (1 / 2) (1 / 4) UC V A dt).
Proof. exact flushed_corrector_not_homogeneous. Qed.
(* one step commutes with scaling / addition whenever the minimiser does: any gamma, beta, dt, any index set *)
Theorem C15_step_homogeneous : forall (I : Type) (g b : R) (solve : @field R I -> R -> @field R I) (s : R) (st : @state R I) (dt : R),
  (forall Up, solve (@fscal R NumR I s Up) dt = @fscal R NumR I s (solve Up dt)) ->
  @newmark_step R NumR I g b solve (scaleS I s st) dt = scaleS I s (@newmark_step R NumR I g b solve st dt).
Proof. exact step_homogeneous. Qed.
Theorem C15_step_additive : forall (I : Type) (g b : R) (solve : @field R I -> R -> @field R I) (st st' : @state R I) (dt : R),
  (forall Up Up', solve (@fadd R NumR I Up Up') dt = @fadd R NumR I (solve Up dt) (solve Up' dt)) ->
  @newmark_step R NumR I g b solve (addS I st st') dt = addS I (@newmark_step R NumR I g b solve st dt) (@newmark_step R NumR I g b solve st' dt).
Proof. exact step_additive. Qed.
(* kinetic + strain energy is a quadratic form of the state *)
Theorem C15_energy_scales_quadratically : forall (I : Type) (m k : @field R I -> @field R I -> R), sbf I m -> sbf I k ->
  forall (s : R) (st : @state R I), energy I m k (scaleS I s st) = s * s * energy I m k st.
Proof. exact energy_scale. Qed.
(* linear elasticity (M positive definite, K >= 0, beta > 0): the stationary point is unique, hence EVERY minimiser oracle is linear
   and the whole run is a linear map of the initial state -- every gamma, every sequence of non-zero steps *)
Theorem C15_stationary_point_unique : forall (I : Type) (m k : @field R I -> @field R I -> R), sbf I m -> sbf I k ->
  forall b : R, 0 < b -> (forall x, 0 <= m x x) -> (forall x, m x x = 0 -> x = @fzero R NumR I) -> (forall x, 0 <= k x x) ->
  forall (dt : R) (Up U1 U2 : @field R I), dt <> 0 -> stationary_at I m k b dt Up U1 -> stationary_at I m k b dt Up U2 -> U1 = U2.
Proof. exact stationary_unique. Qed.
Theorem C15_run_scale_invariant : forall (I : Type) (m k : @field R I -> @field R I -> R), sbf I m -> sbf I k ->
  forall b : R, 0 < b -> (forall x, 0 <= m x x) -> (forall x, m x x = 0 -> x = @fzero R NumR I) -> (forall x, 0 <= k x x) ->
  forall solve : @field R I -> R -> @field R I, (forall Up dt, dt <> 0 -> stationary_at I m k b dt Up (solve Up dt)) ->
  forall (g s : R) (dts : list R) (st : @state R I), (forall dt, In dt dts -> dt <> 0) ->
  @newmark_run R NumR I g b solve (scaleS I s st) dts = scaleS I s (@newmark_run R NumR I g b solve st dts).
Proof. exact run_homogeneous. Qed.
Theorem C15_run_additive : forall (I : Type) (m k : @field R I -> @field R I -> R), sbf I m -> sbf I k ->
  forall b : R, 0 < b -> (forall x, 0 <= m x x) -> (forall x, m x x = 0 -> x = @fzero R NumR I) -> (forall x, 0 <= k x x) ->
  forall solve : @field R I -> R -> @field R I, (forall Up dt, dt <> 0 -> stationary_at I m k b dt Up (solve Up dt)) ->
  forall (g : R) (dts : list R) (st st' : @state R I), (forall dt, In dt dts -> dt <> 0) ->
  @newmark_run R NumR I g b solve (addS I st st') dts
  = addS I (@newmark_run R NumR I g b solve st dts) (@newmark_run R NumR I g b solve st' dts).
Proof. exact run_additive. Qed.
(* the same over the modelled energies of a mesh: no hypothesis about forms left *)
Theorem C15_fe_run_scale_invariant : forall (A : Type) (mesh : list (@elem R A)) (rho E nu g b : R),
  0 < rho -> 0 < E -> -1 < nu < 1 / 2 -> 0 < b -> weights_pos A mesh -> unisolvent A mesh ->
  forall solve : @nfield R A -> R -> @nfield R A, (forall Up dt, dt <> 0 -> fe_stationary A mesh rho E nu b dt Up (solve Up dt)) ->
  forall (s : R) (dts : list R) (st : @state R (@dof A)), (forall dt, In dt dts -> dt <> 0) ->
  @newmark_run R NumR (@dof A) g b solve (scaleS (@dof A) s st) dts = scaleS (@dof A) s (@newmark_run R NumR (@dof A) g b solve st dts).
Proof. exact fe_run_homogeneous. Qed.
Theorem C15_fe_run_additive : forall (A : Type) (mesh : list (@elem R A)) (rho E nu g b : R),
  0 < rho -> 0 < E -> -1 < nu < 1 / 2 -> 0 < b -> weights_pos A mesh -> unisolvent A mesh ->
  forall solve : @nfield R A -> R -> @nfield R A, (forall Up dt, dt <> 0 -> fe_stationary A mesh rho E nu b dt Up (solve Up dt)) ->
  forall (dts : list R) (st st' : @state R (@dof A)), (forall dt, In dt dts -> dt <> 0) ->
  @newmark_run R NumR (@dof A) g b solve (addS (@dof A) st st') dts
  = addS (@dof A) (@newmark_run R NumR (@dof A) g b solve st dts) (@newmark_run R NumR (@dof A) g b solve st' dts).
Proof. exact fe_run_additive. Qed.

(* ================================================================================================================
   PURITY of predict / correct (model/M_C15_Purity.v, proofs/L_C15pure.v).  Store model of the Python statements of the two
   functions: heap of objects (value, writable?), names -> addresses, `x += e` writes IN PLACE into a writable object (numpy)
   and rebinds x to a fresh object otherwise (jax arrays, tracers); jit(f) runs the body on fresh immutable copies.
   c15_predict / c15_correct / c15_*_wrapped are regenerated from the AST of Mechanics.py on every run (gen/CFG_c15.v: statement
   lists, returned names, and whether DynamicsFunctions(...) receives jit(f) or f).  For EVERY value oracle ev, EVERY writability
   of the caller's and of fresh objects, every heap and every argument list: no object that existed before the call changes. *)
Theorem C15_predict_pure : forall (V : Type) (dv : V) (ev : nat -> list V -> V) (fm : nat -> bool) (h : heap V) (args : list nat) (l : nat),
  (l < length h)%nat -> nth l (fst (call V dv ev fm c15_predict_wrapped c15_predict h args)) (dobj V dv) = nth l h (dobj V dv).
Proof. exact predict_pure. Qed.
Theorem C15_correct_pure : forall (V : Type) (dv : V) (ev : nat -> list V -> V) (fm : nat -> bool) (h : heap V) (args : list nat) (l : nat),
  (l < length h)%nat -> nth l (fst (call V dv ev fm c15_correct_wrapped c15_correct h args)) (dobj V dv) = nth l h (dobj V dv).
Proof. exact correct_pure. Qed.
(* the general statements behind them: the static check `safe` (wrapped in jit, or no augmented assignment to a name that may
   still denote a caller's object) implies purity; immutable caller objects imply purity for any function *)
Theorem C15_safe_function_pure : forall (V : Type) (dv : V) (ev : nat -> list V -> V) (fm : nat -> bool) (wrapped : bool) (f : fn)
    (h : heap V) (args : list nat), safe wrapped f = true ->
  forall l, (l < length h)%nat -> nth l (fst (call V dv ev fm wrapped f h args)) (dobj V dv) = nth l h (dobj V dv).
Proof. exact safe_pure. Qed.
Theorem C15_immutable_arguments_pure : forall (V : Type) (dv : V) (ev : nat -> list V -> V) (fm : nat -> bool) (wrapped : bool) (f : fn)
    (h : heap V) (args : list nat), (forall l, (l < length h)%nat -> snd (nth l h (dobj V dv)) = false) ->
  forall l, (l < length h)%nat -> nth l (fst (call V dv ev fm wrapped f h args)) (dobj V dv) = nth l h (dobj V dv).
Proof. exact immutable_pure. Qed.
(* the jit wrapper is load-bearing: predict as written, handed out WITHOUT jit and called on writable (numpy) arrays, overwrites
   the caller's U and V; through jit, or on immutable arrays, the same call leaves them alone *)
Theorem C15_unwrapped_predict_purity_refuted :
  safe false predict_as_written = false /\
  exists (ev : nat -> list nat -> nat) (h : heap nat) (args : list nat),
    nth 0 (fst (call nat 0%nat ev (fun _ => true) false predict_as_written h args)) (dobj nat 0%nat) <> nth 0 h (dobj nat 0%nat) /\
    nth 1 (fst (call nat 0%nat ev (fun _ => true) false predict_as_written h args)) (dobj nat 0%nat) <> nth 1 h (dobj nat 0%nat) /\
    (forall l, (l < 4)%nat -> nth l (fst (call nat 0%nat ev (fun _ => true) true predict_as_written h args)) (dobj nat 0%nat) = nth l h (dobj nat 0%nat)) /\
    (forall l, (l < 4)%nat -> nth l (fst (call nat 0%nat ev (fun _ => true) false predict_as_written (map (fun o => (fst o, false)) h) args)) (dobj nat 0%nat)
                        = nth l (map (fun o => (fst o, false)) h) (dobj nat 0%nat)).
Proof. exact unwrapped_predict_mutates_refuted. Qed.
Example C15_purity_tables_nonvacuous :
  f_body c15_predict <> [] /\ f_body c15_correct <> [] /\ length (f_ret c15_predict) = 2%nat /\ length (f_ret c15_correct) = 2%nat /\
  length (f_params c15_predict) = 4%nat /\ length (f_params c15_correct) = 4%nat.
Proof. exact c15_tables_nontrivial. Qed.

(* NOT PROVED (remaining):
   - unisolvence of the quadrature points for the nodal fields (<=> M positive definite, C15_fe_mass_form_definite_iff_unisolvent)
     is a premise of the translation theorems: it is a rank condition on the shape tables of each (element order, quadrature
     rule) pair and is FALSE for pairs the library accepts (order 2 with the degree-2 rule; witness
     C15_fe_mass_definite_without_unisolvence_refuted), so it cannot be derived from w_q > 0; the harness checks it
     (smallest eigenvalue of the assembled mass matrix) on every fully integrated problem;
   - K c = 0 is exact only for exact tables (RefIds .. 0 ..); for the certified tolerance eps of the binary64 tables C03 gives
     |sum grad N| <= const * eps, and the corresponding O(eps) bound on k(c, w) is not stated (the mass total is:
     C15_mass_total_is_density_times_area);
   - that the model of the mesh integrals (interp / grad2 / fe_sum, the zero padding of tensor_2D_to_3D, the composition of the
     regenerated kernels) is what FunctionSpace/Mechanics compute is tied by the correspondence (model energies and forms at
     binary64 against compute_output_kinetic_energy, compute_output_strain_energy, compute_algorithmic_energy and the
     jax Hessians on a real function space), not proved from the NumPy indexing code; axisymmetric mode and the pressure
     projection are not modelled (the correspondence covers axisymmetric runs on the implementation only);
   - the premises of the C03 composition (affine elements with nodes at the images of the reference nodes, tables satisfying
     RefIds/TriQuadExact) are C03's / C13's theorems and certificates, not re-proved here;
   - purity: the store model's account of Python/numpy/jax (`x += e` is in place exactly for writable ndarrays; jit traces on fresh
     immutable values; np.* functions and arithmetic are free of side effects) is TRUSTED, and checked on the implementation by the
     purity stream (numpy / read-only numpy / jax state, step-doubling driver); the store tie compares the model's prediction
     (objects written, identity of returned objects; also with one object passed for two parameters) with CPython on the raw and the
     handed-out function objects -- a sample, not a proof about the interpreter;
   - linearity at binary64 holds exactly only for power-of-two factors (checked bit-for-bit by the scale streams), otherwise to rounding;
     for nonlinear materials the step is of course not linear (theorems C15_run_* need the quadratic strain energy);
   - anything in binary64 (the drift observed there is bounded by the solver tolerance, not zero). *)

Example C15_energy_hypotheses_nonvacuous :
  exists (s : @state R unit) (solve : (unit -> R) -> R -> (unit -> R)),
    balanced unit m1 m1 s /\ (forall Up dt, dt <> 0 -> stationary_at unit m1 m1 (1 / 4) dt Up (solve Up dt)) /\ energy unit m1 m1 s = 1.
Proof. exact energy_hypotheses_satisfiable. Qed.
Example C15_mass_hypotheses_nonvacuous : forall q, In q [(2, [1 / 4; 3 / 4])] -> length (snd q) = 2%nat /\ @nsum R NumR (snd q) = 1.
Proof. exact mass_hypotheses_satisfiable. Qed.
Example C15_translation_hypotheses_nonvacuous :
  sbf unit m1 /\ sbf unit k0 /\ (forall x, 0 <= m1 x x) /\ (forall x, m1 x x = 0 -> x = @fzero R NumR unit) /\ (forall x, 0 <= k0 x x) /\
  (forall c w, k0 c w = 0) /\
  (forall b, b <> 0 -> forall Up dt, dt <> 0 -> stationary_at unit m1 k0 b dt Up ((fun Up _ => Up) Up dt)).
Proof. exact translation_hypotheses_satisfiable. Qed.

Example C15_fe_premises_nonvacuous :
  weights_pos three ex_mesh /\ partition_of_unity three ex_mesh /\ grad_sums_zero three ex_mesh /\ unisolvent three ex_mesh /\
  @fe_volume R NumR three ex_mesh = 1 / 2 /\ (exists u, 0 < @fe_stiff_form R NumR three 1 1 ex_mesh u u).
Proof. exact ex_mesh_premises. Qed.
Example C15_c03_premises_nonvacuous :
  let tabs : list reftab := [([1 / 3; 1 / 3; 1 / 3], ([1; 0; -1], [0; 1; -1]))] in
  let els : list (list nat * tri) := [([0; 1; 2]%nat, ((0, 0), (2, 0), (0, 1)))] in
  (forall t, In t tabs -> exists q, RefIds 1 0 p1_nodes q (fst t) (fst (snd t)) (snd (snd t))) /\
  (forall ct, In ct els -> length (fst ct) = length p1_nodes) /\
  TriQuadExact 1 0 [p1_q] [1 / 2] /\ length [1 / 2] = length tabs /\ (forall ct, In ct els -> ccw (snd ct)) /\
  mesh_area nat els = 1.
Proof. exact c03_premises_satisfiable. Qed.

Print Assumptions C15_update_formulas.
Print Assumptions C15_balance.
Print Assumptions C15_energy_conserved.
Print Assumptions C15_energy_needs_consistent_A0_refuted.
Print Assumptions C15_rigid_translation.
Print Assumptions C15_mass_total.
Print Assumptions C15_fe_rigid_translation.
Print Assumptions C15_mass_total_is_density_times_area.
Print Assumptions C15_fe_run_scale_invariant.
Print Assumptions C15_predict_pure.
