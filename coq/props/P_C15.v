(* C15 -- property theorems only.  Each is closed by `exact <lemma>`.  Subjects: predict / correct / kinetic_energy_density
   regenerated from /repo/optimism/Mechanics.py (OV.gen.Gen_Mechanics) at T := R, applied entry by entry to fields I -> R over an
   arbitrary index set I of degrees of freedom (OV.model.M_C15_Newmark).  m and k stand for the mass form (Hessian of the
   kinetic energy) and the stiffness form (Hessian of the quadratic strain energy): ANY symmetric bilinear forms (`sbf`).
   The minimiser of the algorithmic energy is an oracle `solve`; what is assumed about it is stated in each theorem. *)
From Coq Require Import Reals List.
From Coquelicot Require Import Coquelicot.
From OV.base Require Import Num.
From OV.gen Require Import Gen_Mechanics.
From OV.model Require Import M_C15_Newmark.
From OV.proofs Require Import L_C15.
Import ListNotations.
Local Open Scope R_scope.

(* ---- Newmark update formulas (per degree of freedom, any beta <> 0, dt <> 0, any returned displacement U1) ---- *)
Theorem C15_update_formulas : forall g b U0 V0 A0 dt U1 : R, b <> 0 -> dt <> 0 ->
  let '(Up, Vp) := @predict R NumR g b U0 V0 A0 dt in
  let '(V1, A1) := @correct R NumR g b (U1 - Up) Vp A0 dt in
  A1 = (U1 - Up) / (b * dt * dt) /\
  U1 = U0 + dt * V0 + dt * dt * ((1 / 2 - b) * A0 + b * A1) /\
  V1 = V0 + dt * ((1 - g) * A0 + g * A1).
Proof. exact update_formulas. Qed.

(* ---- discrete balance of momentum <=> stationarity of the algorithmic energy, any differentiable strain energy ---- *)
Theorem C15_balance : forall (I : Type) (m : @field R I -> @field R I -> R), sbf I m ->
  forall (SE : @field R I -> R) (dSE : @field R I -> @field R I -> R),
  (forall U w, is_derive (fun e : R => SE (@fadd R NumR I U (@fscal R NumR I e w))) 0 (dSE U w)) ->
  forall b dt : R, b <> 0 -> dt <> 0 -> forall Up U1 : @field R I,
  (forall w, is_derive (fun e : R => @alg_energy R NumR I SE m b dt Up (@fadd R NumR I U1 (@fscal R NumR I e w))) 0 0)
  <-> (forall w, m (A_new I b dt Up U1) w + dSE U1 w = 0).
Proof. exact balance_iff_stationary. Qed.
(* the directional derivative of the algorithmic energy is internal force + inertia force, for every direction *)
Theorem C15_algorithmic_energy_derivative : forall (I : Type) (m : @field R I -> @field R I -> R), sbf I m ->
  forall (SE : @field R I -> R) (dSE : @field R I -> @field R I -> R),
  (forall U w, is_derive (fun e : R => SE (@fadd R NumR I U (@fscal R NumR I e w))) 0 (dSE U w)) ->
  forall b dt : R, b <> 0 -> dt <> 0 -> forall Up U1 w : @field R I,
  is_derive (fun e : R => @alg_energy R NumR I SE m b dt Up (@fadd R NumR I U1 (@fscal R NumR I e w))) 0 (dSE U1 w + m (A_new I b dt Up U1) w).
Proof. exact alg_energy_derivative. Qed.
(* linear elasticity: SE = 1/2 k(U,U) has derivative k(U, w) (no differentiability assumption left) *)
Theorem C15_quadratic_strain_energy_derivative : forall (I : Type) (k : @field R I -> @field R I -> R), sbf I k ->
  forall U w, is_derive (fun e : R => SEq I k (@fadd R NumR I U (@fscal R NumR I e w))) 0 (k U w).
Proof. exact SEq_derive. Qed.

(* ---- energy conservation: gamma = 1/2, beta = 1/4, linear elastic, no loads, consistent start, every step size ---- *)
Theorem C15_energy_conserved_one_step : forall (I : Type) (m k : @field R I -> @field R I -> R), sbf I m -> sbf I k ->
  forall (solve : @field R I -> R -> @field R I) (s : @state R I) (dt : R), dt <> 0 ->
  balanced I m k s ->
  stationary_at I m k (1 / 4) dt (fst (@predictF R NumR I (1 / 2) (1 / 4) (sU s) (sV s) (sA s) dt))
                (solve (fst (@predictF R NumR I (1 / 2) (1 / 4) (sU s) (sV s) (sA s) dt)) dt) ->
  balanced I m k (@newmark_step R NumR I (1 / 2) (1 / 4) solve s dt) /\
  energy I m k (@newmark_step R NumR I (1 / 2) (1 / 4) solve s dt) = energy I m k s.
Proof. exact energy_step. Qed.
Theorem C15_energy_conserved : forall (I : Type) (m k : @field R I -> @field R I -> R), sbf I m -> sbf I k ->
  forall (solve : @field R I -> R -> @field R I) (dts : list R) (s : @state R I),
  (forall dt, In dt dts -> dt <> 0) ->
  (forall Up dt, dt <> 0 -> stationary_at I m k (1 / 4) dt Up (solve Up dt)) ->
  balanced I m k s ->
  energy I m k (@newmark_run R NumR I (1 / 2) (1 / 4) solve s dts) = energy I m k s /\
  balanced I m k (@newmark_run R NumR I (1 / 2) (1 / 4) solve s dts).
Proof. exact energy_conserved. Qed.
(* the premise "the initial acceleration is itself in balance" cannot be dropped *)
Theorem C15_energy_needs_consistent_A0_refuted :
  exists (s : @state R unit) (solve : (unit -> R) -> R -> (unit -> R)) (dt : R),
    dt <> 0 /\
    stationary_at unit m1 m1 (1 / 4) dt (fst (@predictF R NumR unit (1 / 2) (1 / 4) (sU s) (sV s) (sA s) dt))
                  (solve (fst (@predictF R NumR unit (1 / 2) (1 / 4) (sU s) (sV s) (sA s) dt)) dt) /\
    ~ balanced unit m1 m1 s /\
    energy unit m1 m1 (@newmark_step R NumR unit (1 / 2) (1 / 4) solve s dt) <> energy unit m1 m1 s.
Proof. exact needs_consistent_A0_refuted. Qed.

(* ---- rigid translation at constant velocity is integrated exactly (any gamma, beta > 0, M positive definite, K >= 0, K c = 0) ---- *)
Theorem C15_rigid_translation : forall (I : Type) (m k : @field R I -> @field R I -> R), sbf I m -> sbf I k ->
  forall (g b : R) (c : @field R I) (solve : @field R I -> R -> @field R I), 0 < b ->
  (forall x, 0 <= m x x) -> (forall x, m x x = 0 -> x = @fzero R NumR I) -> (forall x, 0 <= k x x) ->
  (forall w, k c w = 0) ->
  (forall Up dt, dt <> 0 -> stationary_at I m k b dt Up (solve Up dt)) ->
  forall (dts : list R) (U0 : @field R I), (forall dt, In dt dts -> dt <> 0) -> (forall w, k U0 w = 0) ->
  @newmark_run R NumR I g b solve (mkState U0 c (@fzero R NumR I)) dts
  = mkState (@fadd R NumR I U0 (@fscal R NumR I (fold_right Rplus 0 dts) c)) c (@fzero R NumR I).
Proof. exact rigid_translation_run. Qed.

(* ---- mass: partition of unity => kinetic energy of a rigid velocity, and total of the consistent mass matrix ---- *)
Theorem C15_kinetic_energy_rigid : forall (rho : R) (qp : list (R * list R)) (n : nat) (vx vy : R),
  (forall q, In q qp -> length (snd q) = n /\ @nsum R NumR (snd q) = 1) ->
  @kinetic_energy R NumR rho qp (repeat (vx, vy) n) = 1 / 2 * rho * @nsum R NumR (map fst qp) * (vx * vx + vy * vy).
Proof. exact kinetic_energy_rigid. Qed.
Theorem C15_mass_total : forall (rho : R) (qp : list (R * list R)) (n : nat),
  (forall q, In q qp -> length (snd q) = n /\ @nsum R NumR (snd q) = 1) ->
  @mass_total R NumR rho qp n = rho * @nsum R NumR (map fst qp).
Proof. exact mass_total_is_rho_area. Qed.

(* NOT PROVED: that the finite-element mass and stiffness forms of a given mesh ARE symmetric bilinear forms with M positive
   definite, K positive semi-definite and K c = 0 for translations (they are Hessians of energies assembled by NumPy indexing; the
   partition-of-unity premise is C03's); the correspondence checks symmetry, the momentum balance, the update formulas, the energy
   drift, rigid translation and the mass total on the real DynamicsFunctions.  NOT PROVED: anything in binary64 (the drift
   observed there is bounded by the solver tolerance, not zero). *)

Example C15_energy_hypotheses_nonvacuous :
  exists (s : @state R unit) (solve : (unit -> R) -> R -> (unit -> R)),
    balanced unit m1 m1 s /\ (forall Up dt, dt <> 0 -> stationary_at unit m1 m1 (1 / 4) dt Up (solve Up dt)) /\ energy unit m1 m1 s = 1.
Proof. exact energy_hypotheses_satisfiable. Qed.
Example C15_mass_hypotheses_nonvacuous : forall q, In q [(2, [1 / 4; 3 / 4])] -> length (snd q) = 2%nat /\ @nsum R NumR (snd q) = 1.
Proof. exact mass_hypotheses_satisfiable. Qed.
Example C15_translation_hypotheses_nonvacuous :
  sbf unit m1 /\ sbf unit k0 /\ (forall x, 0 <= m1 x x) /\ (forall x, m1 x x = 0 -> x = @fzero R NumR unit) /\ (forall x, 0 <= k0 x x) /\
  (forall c w, k0 c w = 0) /\
  (forall b, b <> 0 -> forall Up dt, dt <> 0 -> stationary_at unit m1 k0 b dt Up ((fun Up _ => Up) Up dt)).
Proof. exact translation_hypotheses_satisfiable. Qed.

Print Assumptions C15_update_formulas.
Print Assumptions C15_balance.
Print Assumptions C15_energy_conserved.
Print Assumptions C15_energy_needs_consistent_A0_refuted.
Print Assumptions C15_rigid_translation.
Print Assumptions C15_mass_total.
