(* C14 -- property theorems only.  Subject: the executable model of optimism/FunctionSpace.py:DofManager in
   model/M_C14_Dof.v (tied to the source by exact correspondence on every run).  `isBc` is the flat row-major
   (nNodes x dim) boolean mask; every theorem below holds for EVERY such mask (hence for every BC set, including
   empty, full, overlapping and repeated node sets), every mesh and every number of fields. *)
From Coq Require Import String ZArith List Bool Arith Permutation Sorted.
From OV.model Require Import M_C14_Dof M_C14_Asm M_C14_IR.
From OV.proofs Require Import L_C14 L_C14_Asm L_C14_IR L_C14_Ctor.
From OV.gen Require Import CFG_Dof.
Import ListNotations.
Open Scope list_scope.

(* the mask built by the constructor loop marks (n, c) iff some essential BC names component c and a node set containing n
   (node sets with repeated nodes, overlapping sets, empty sets and an empty BC list included) *)
Theorem C14_isBc_from_node_sets : forall nNodes dim ebcs,
  length (mk_isBc nNodes dim ebcs) = nNodes * dim
  /\ forall n c, n < nNodes -> c < dim ->
       (is_bc (mk_isBc nNodes dim ebcs) (n * dim + c) = true <-> exists nodes, In (nodes, c) ebcs /\ In n nodes).
Proof. exact isBc_from_node_sets_full. Qed.

(* unknown and constrained indices partition all dofs; both strictly increasing; disjoint; membership = the mask *)
Theorem C14_partition : forall isBc,
  Permutation (unknownIndices isBc ++ bcIndices isBc) (seq 0 (length isBc))
  /\ StronglySorted lt (unknownIndices isBc) /\ StronglySorted lt (bcIndices isBc)
  /\ (forall i, In i (unknownIndices isBc) -> In i (bcIndices isBc) -> False)
  /\ (forall i, In i (unknownIndices isBc) <-> (i < length isBc /\ is_bc isBc i = false))
  /\ (forall i, In i (bcIndices isBc) <-> (i < length isBc /\ is_bc isBc i = true)).
Proof. exact partition_full. Qed.

(* reported sizes = number of entries of each kind; they add up; get_* return vectors of those sizes *)
Theorem C14_sizes : forall isBc,
  get_unknown_size isBc = length (unknownIndices isBc) /\ get_bc_size isBc = length (bcIndices isBc)
  /\ get_unknown_size isBc + get_bc_size isBc = length isBc
  /\ (forall A (U : list A), length U = length isBc ->
        length (get_unknown_values isBc U) = get_unknown_size isBc /\ length (get_bc_values isBc U) = get_bc_size isBc).
Proof. exact sizes_full. Qed.

(* split / recombine is lossless in both directions, for an arbitrary value type (also with the scalar default Ubc) *)
Theorem C14_roundtrip : forall (A : Type) (zero : A) isBc,
  (forall Uu Ubc, length Uu = get_unknown_size isBc -> length Ubc = get_bc_size isBc ->
      get_unknown_values isBc (create_field isBc zero Uu Ubc) = Uu
      /\ get_bc_values isBc (create_field isBc zero Uu Ubc) = Ubc
      /\ length (create_field isBc zero Uu Ubc) = length isBc)
  /\ (forall U, length U = length isBc ->
      create_field isBc zero (get_unknown_values isBc U) (get_bc_values isBc U) = U)
  /\ (forall Uu c, length Uu = get_unknown_size isBc ->
      get_unknown_values isBc (create_field_scalar isBc zero Uu c) = Uu
      /\ get_bc_values isBc (create_field_scalar isBc zero Uu c) = repeat c (get_bc_size isBc)).
Proof. exact @roundtrip_full. Qed.

(* dofToUnknown is the inverse of unknownIndices and is -1 exactly on the constrained dofs *)
Theorem C14_dofToUnknown : forall isBc,
  length (dofToUnknown isBc) = length isBc
  /\ (forall k, k < length (unknownIndices isBc) -> unk isBc (nth k (unknownIndices isBc) 0) = Z.of_nat k)
  /\ (forall i, i < length isBc -> is_bc isBc i = false ->
        exists j, unk isBc i = Z.of_nat j /\ j < length (unknownIndices isBc) /\ nth j (unknownIndices isBc) 0 = i)
  /\ (forall i, i < length isBc -> (unk isBc i = (-1)%Z <-> is_bc isBc i = true)).
Proof. exact dofToUnknown_full. Qed.

(* slicing the unknown vector: for any selection of in-range dof positions (in the order the slice enumerates them) the
   result is the field values at the unconstrained selected positions, in that order *)
Theorem C14_slice : forall (A : Type) (zero : A) isBc U pos,
  length U = length isBc -> Forall (fun p => p < length isBc) pos ->
  slice_unknowns isBc zero (get_unknown_values isBc U) pos = map (fun p => nth p U zero) (filter (is_unknown isBc) pos).
Proof. exact @slice_spec. Qed.

(* ... in particular the component slice [:, c] returns the unconstrained entries of component c in node order *)
Theorem C14_slice_component : forall (A : Type) (zero : A) isBc nNodes dim c U,
  length isBc = nNodes * dim -> c < dim -> length U = nNodes * dim ->
  slice_unknowns isBc zero (get_unknown_values isBc U) (comp_positions nNodes dim c)
  = map (fun n => nth (n * dim + c) U zero) (filter (fun n => is_unknown isBc (n * dim + c)) (seq 0 nNodes)).
Proof. exact @slice_component. Qed.

(* sparse-assembly index maps: see L_C14.hessian_maps_full for the clause-by-clause comments.  Note the transposition:
   block entry (a, b) is stored at (row, col) = (unknown of dof b, unknown of dof a)  [el_coord]. *)
Theorem C14_hessian_maps : forall isBc dim nNodes conns,
  length isBc = nNodes * dim -> valid_conns nNodes conns ->
  combine (HessRowCoords isBc dim conns) (HessColCoords isBc dim conns)
    = flat_map (fun en => map (el_coord isBc dim en) (el_selected isBc dim en)) conns
  /\ mask_select (hessian_bc_mask isBc dim conns) (flat_map (el_pairs dim) conns) = flat_map (el_selected isBc dim) conns
  /\ length (HessRowCoords isBc dim conns) = count_true (hessian_bc_mask isBc dim conns)
  /\ length (HessColCoords isBc dim conns) = count_true (hessian_bc_mask isBc dim conns)
  /\ length (hessian_bc_mask isBc dim conns) = length (flat_map (el_pairs dim) conns)
  /\ (forall en, In en conns ->
        NoDup (el_selected isBc dim en)
        /\ (forall a b, In (a, b) (el_selected isBc dim en)
              <-> (a < length (el_dofs dim en) /\ b < length (el_dofs dim en)
                   /\ is_bc isBc (nth a (el_dofs dim en) 0) = false /\ is_bc isBc (nth b (el_dofs dim en) 0) = false))
        /\ (forall a b, In (a, b) (el_selected isBc dim en) ->
              exists i j, el_coord isBc dim en (a, b) = (Z.of_nat i, Z.of_nat j)
                          /\ nth i (unknownIndices isBc) 0 = nth b (el_dofs dim en) 0
                          /\ nth j (unknownIndices isBc) 0 = nth a (el_dofs dim en) 0
                          /\ i < get_unknown_size isBc /\ j < get_unknown_size isBc)).
Proof. exact hessian_maps_full. Qed.

(* ---- the index maps as the assembler USES them (model/M_C14_Asm.v; SparseMatrixAssembler.assemble_sparse_stiffness_matrix) ----
   assemble_maps = coo_matrix((kValues[hessian_bc_mask], (HessRowCoords, HessColCoords)), shape=(nUnknowns, nUnknowns)), duplicates
   summed;  assemble = the dense matrix built BY HAND from the element matrices, the connectivity and the BC mask alone: entry
   (i, j) is the sum of the block entries (a, b) of all elements with  dof b = i-th non-essential dof,  dof a = j-th non-essential
   dof (no index map, no dofToUnknown).  They are the same matrix for every mask, every valid connectivity and all element
   matrices, and its shape is unknown x unknown. *)
Theorem C14_assembly_by_hand : forall isBc dim nNodes conns kvals,
  length isBc = nNodes * dim -> valid_conns nNodes conns -> asm_blocks_ok dim conns kvals ->
  assemble_maps isBc dim conns kvals = assemble isBc dim conns kvals
  /\ length (assemble isBc dim conns kvals) = get_unknown_size isBc
  /\ Forall (fun row => length row = get_unknown_size isBc) (assemble isBc dim conns kvals).
Proof. exact assemble_maps_by_hand_full. Qed.

(* purity / no hidden state.  The model of a sequence of assemblies in one process answers request k from request k alone:
   the k-th matrix is the by-hand matrix of the k-th (element matrices, connectivity, declared BCs), whatever was assembled
   before or after it, and for valid requests it is what the index-map path gives.  (About the MODEL this is immediate -- a Coq
   function has no state; the content is the SPECIFICATION it fixes for the implementation, which the HISTORY stream of
   tools/props/c14.py compares with the real assembler on sequences of assemblies with different DofManagers of equal sizes.) *)
Theorem C14_assembly_no_hidden_state :
  (forall h k d, k < length h -> nth k (assemble_history h) [] = assemble_request (nth k h d))
  /\ (forall pre pre' post post' r,
        nth (length pre) (assemble_history (pre ++ r :: post)) [] = nth (length pre') (assemble_history (pre' ++ r :: post')) [])
  /\ (forall h, Forall valid_request h -> map assemble_request_maps h = assemble_history h)
  /\ (forall h, length (assemble_history h) = length h).
Proof. exact history_pure. Qed.

(* ... and the declared BC list matters only through the SET of (node, component) pairs it names (order, repeats, the way the
   pairs are grouped into node sets are irrelevant) *)
Theorem C14_assembly_depends_on_bc_set : forall r r',
  r_nNodes r = r_nNodes r' -> r_dim r = r_dim r' -> r_conns r = r_conns r' -> r_kvals r = r_kvals r' ->
  (forall n c, (exists nodes, In (nodes, c) (r_ebcs r) /\ In n nodes) <-> (exists nodes, In (nodes, c) (r_ebcs r') /\ In n nodes)) ->
  assemble_request r = assemble_request r' /\ assemble_request_maps r = assemble_request_maps r'.
Proof. exact request_depends_on_bc_set. Qed.

(* non-vacuity of the three statements above: two valid requests of equal sizes (same number of unknowns, COO triplets and mask
   shape) whose index maps differ, assembled A, B, A *)
Example C14_history_nonvacuous :
  valid_request ex_req_A /\ valid_request ex_req_B
  /\ assemble_history [ex_req_A; ex_req_B; ex_req_A]
     = [ [[1;4;7];[2;5;8];[3;6;9]]; [[9;6;3];[8;5;2];[7;4;1]]; [[1;4;7];[2;5;8];[3;6;9]] ]%Z
  /\ map assemble_request_maps [ex_req_A; ex_req_B; ex_req_A] = assemble_history [ex_req_A; ex_req_B; ex_req_A]
  /\ length (HessRowCoords (request_mask ex_req_A) 1 (r_conns ex_req_A)) = length (HessRowCoords (request_mask ex_req_B) 1 (r_conns ex_req_B))
  /\ HessRowCoords (request_mask ex_req_A) 1 (r_conns ex_req_A) <> HessRowCoords (request_mask ex_req_B) 1 (r_conns ex_req_B).
Proof. exact ex_history. Qed.

(* ---- the SOURCE is the model: the syntax trees of the DofManager methods and of assemble_sparse_stiffness_matrix are extracted
   from /repo's AST on every run (gen/CFG_Dof.v, tools/vlib/extract_dof.py: purely syntactic, fail-closed) and run by the
   NumPy-subset interpreter of model/M_C14_IR.v.  On the model's DofManager object (dof_object: the ten attributes hold the
   hand model's arrays) every public method returns exactly the hand-model function, for every mask, mesh size, number of
   fields and every argument (any value type A). *)
Theorem C14_source_methods : forall (A : Type) (zero : A) nNodes dim isBc conns F,
  length isBc = nNodes * dim ->
  let obj : @val A := dof_object nNodes dim isBc conns in
  let callm := call zero cfg_dof_methods (S F) in
  callm "get_bc_size"%string obj [] = Some (VInt (get_bc_size isBc))
  /\ callm "get_unknown_size"%string obj [] = Some (VInt (get_unknown_size isBc))
  /\ (forall sh U, callm "get_bc_values"%string obj [VA sh U] = Some (VA [count_true isBc] (get_bc_values isBc U)))
  /\ (forall sh U, callm "get_unknown_values"%string obj [VA sh U] = Some (VA [count_true (isUnknown isBc)] (get_unknown_values isBc U)))
  /\ (forall s1 s2 Uu Ubc, callm "create_field"%string obj [VA s1 Uu; VA s2 Ubc] = Some (VA [nNodes; dim] (create_field isBc zero Uu Ubc)))
  /\ (forall s1 Uu c, callm "create_field"%string obj [VA s1 Uu; VSc c] = Some (VA [nNodes; dim] (create_field_scalar isBc zero Uu c)))
  /\ (forall s1 Uu, callm "create_field"%string obj [VA s1 Uu] = Some (VA [nNodes; dim] (create_field_scalar isBc zero Uu zero)))
  /\ (forall s1 Uu pos, callm "slice_unknowns_with_dof_indices"%string obj [VA s1 Uu; VPos pos]
                        = Some (VA [count_true (map (is_unknown isBc) pos)] (slice_unknowns isBc zero Uu pos))).
Proof. exact ir_methods_full. Qed.

(* the extracted body of assemble_sparse_stiffness_matrix, run on the model's DofManager object with kValues of shape
   (nEl, npe, dim, npe, dim), returns -- seen as a dense matrix, duplicates summed -- the matrix assembled BY HAND from the element
   matrices, the connectivity and the mask (C14_assembly_by_hand), for every valid input: the index path of the real assembler as
   a theorem over code generated from the source.  The module binds nothing at module level (no cache, no state). *)
Theorem C14_source_assembler : forall nNodes dim isBc conns (kvals : list (list Z)) n0 n1 n3 n4,
  length isBc = nNodes * dim -> valid_conns nNodes conns -> asm_blocks_ok dim conns kvals ->
  match run_function 0%Z cfg_asm_assemble_sparse_stiffness_matrix
                     [VA [n0; n1; dim; n3; n4] (concat kvals); VConns conns; dof_object nNodes dim isBc conns] with
  | Some K => csc_dense K
  | None => None
  end = Some (assemble isBc dim conns kvals).
Proof. exact ir_assemble_by_hand. Qed.

Theorem C14_source_assembler_stateless : cfg_asm_module_state = [] /\ cfg_asm_other_functions = [].
Proof. exact asm_module_stateless. Qed.

(* ---- the extracted CONSTRUCTOR builds the model's object, for ALL inputs (proofs/L_C14_Ctor.v: loop invariants for the BC loop of
   __init__, the two loops of _make_hessian_coordinates and the loop of _make_hessian_bc_mask, through the interpreter; the helper
   methods are run from their own extracted syntax trees).  Inputs: a function space whose mesh has nNodes nodes, the node sets
   `sets` (ANY function from names to node lists: repeats, overlaps, empty sets, out-of-range nodes are ignored as in the model)
   and the connectivity table `conns`; the number of fields `dim`; ANY list of essential BCs (node-set name, component).
   Guards: node ids of the connectivity in range (NumPy raises IndexError otherwise), a rectangular table (it is a 2-D array),
   at least one element.  Objects are compared field by field in declared order (canon_object), so the order of the assignments
   in __init__ is immaterial to the STATEMENT. *)
Theorem C14_source_constructor : forall (A : Type) (zero : A) nNodes dim sets conns ebl F,
  valid_conns nNodes conns -> rect_conns conns -> conns <> [] ->
  option_map (canon_object cfg_dof_fields) (construct zero cfg_dof_methods (S F) [mk_fsp nNodes sets conns; VInt dim; mk_ebcs ebl])
  = Some (canon_object cfg_dof_fields (dof_object nNodes dim (mk_isBc nNodes dim (ebcs_of sets ebl)) conns)).
Proof. exact @construct_full. Qed.

(* ... also for a mesh WITHOUT elements (zero trips through the helper loops), where rowCoords / colCoords stay the arrays
   zeros(0, dtype=int) they were allocated as: same object up to the tag of integer arrays (canon_data compares their data) *)
Theorem C14_source_constructor_all : forall (A : Type) (zero : A) nNodes dim sets conns ebl F,
  valid_conns nNodes conns -> rect_conns conns ->
  option_map (canon_data cfg_dof_fields) (construct zero cfg_dof_methods (S F) [mk_fsp nNodes sets conns; VInt dim; mk_ebcs ebl])
  = Some (canon_data cfg_dof_fields (dof_object nNodes dim (mk_isBc nNodes dim (ebcs_of sets ebl)) conns)).
Proof. exact construct_full_data. Qed.

(* end to end over extracted code only: construct, then call every public method ON THE CONSTRUCTED OBJECT (not on dof_object):
   each returns the hand-model function of the mask declared by the BC list *)
Theorem C14_source_end_to_end : forall (A : Type) (zero : A) nNodes dim sets conns ebl F,
  valid_conns nNodes conns -> rect_conns conns -> conns <> [] ->
  let isBc := mk_isBc nNodes dim (ebcs_of sets ebl) in
  exists obj : @val A,
    construct zero cfg_dof_methods (S F) [mk_fsp nNodes sets conns; VInt dim; mk_ebcs ebl] = Some obj
    /\ canon_object cfg_dof_fields obj = canon_object cfg_dof_fields (dof_object nNodes dim isBc conns)
    /\ (let callm := call zero cfg_dof_methods (S F) in
        callm "get_bc_size"%string obj [] = Some (VInt (get_bc_size isBc))
        /\ callm "get_unknown_size"%string obj [] = Some (VInt (get_unknown_size isBc))
        /\ (forall sh U, callm "get_bc_values"%string obj [VA sh U] = Some (VA [count_true isBc] (get_bc_values isBc U)))
        /\ (forall sh U, callm "get_unknown_values"%string obj [VA sh U] = Some (VA [count_true (isUnknown isBc)] (get_unknown_values isBc U)))
        /\ (forall s1 s2 Uu Ubc, callm "create_field"%string obj [VA s1 Uu; VA s2 Ubc] = Some (VA [nNodes; dim] (create_field isBc zero Uu Ubc)))
        /\ (forall s1 Uu c, callm "create_field"%string obj [VA s1 Uu; VSc c] = Some (VA [nNodes; dim] (create_field_scalar isBc zero Uu c)))
        /\ (forall s1 Uu, callm "create_field"%string obj [VA s1 Uu] = Some (VA [nNodes; dim] (create_field_scalar isBc zero Uu zero)))
        /\ (forall s1 Uu pos, callm "slice_unknowns_with_dof_indices"%string obj [VA s1 Uu; VPos pos]
                              = Some (VA [count_true (map (is_unknown isBc) pos)] (slice_unknowns isBc zero Uu pos)))).
Proof. exact construct_end_to_end. Qed.

(* ... and the SparseMatrixAssembler index path end to end over extracted code: the extracted assembler run on the object the
   extracted constructor built returns -- as a dense matrix, duplicates summed -- the matrix assembled BY HAND from the element
   matrices, the connectivity and the DECLARED BCs (C14_assembly_by_hand; nothing of the index maps appears in the right-hand side) *)
Theorem C14_source_construct_then_assemble : forall nNodes dim sets conns ebl F (kvals : list (list Z)) n0 n1 n3 n4,
  valid_conns nNodes conns -> rect_conns conns -> conns <> [] -> asm_blocks_ok dim conns kvals ->
  match construct 0%Z cfg_dof_methods (S F) [mk_fsp nNodes sets conns; VInt dim; mk_ebcs ebl] with
  | Some obj =>
      match run_function 0%Z cfg_asm_assemble_sparse_stiffness_matrix [VA [n0; n1; dim; n3; n4] (concat kvals); VConns conns; obj] with
      | Some K => csc_dense K
      | None => None
      end
  | None => None
  end = Some (assemble (mk_isBc nNodes dim (ebcs_of sets ebl)) dim conns kvals).
Proof. exact construct_then_assemble. Qed.

(* non-vacuity of the guards: the worked example below is an instance (repeated node, overlapping sets, an undeclared = empty set) *)
Example C14_source_constructor_nonvacuous :
  valid_conns 4 ex_conns /\ rect_conns ex_conns /\ ex_conns <> []
  /\ mk_fsp 4 ex_sets ex_conns = ex_fsp /\ mk_ebcs [("a"%string, 0); ("b"%string, 0); ("c"%string, 1)] = ex_ebcs
  /\ mk_isBc 4 2 (ebcs_of ex_sets [("a"%string, 0); ("b"%string, 0); ("c"%string, 1)]) = ex_isBc.
Proof. exact ex_ctor_nonvacuous. Qed.

(* the interpreter copies array values where NumPy shares references; the two readings agree when no array that is updated in
   place can be observed through another name.  alias_safe (model/M_C14_IR.v) is a conservative syntactic sufficient condition for
   that; it holds of every extracted function of this run, and it is a real test: dropping `.copy()` in _make_hessian_coordinates
   (one array under two names in NumPy -- the row coordinates would be overwritten) is rejected although the interpreter, by
   construction, cannot see the difference. *)
Theorem C14_source_no_observable_aliasing :
  forallb (fun d => alias_safe (snd d)) cfg_dof_methods = true /\ alias_safe cfg_asm_assemble_sparse_stiffness_matrix = true.
Proof. exact alias_guard_holds. Qed.

Example C14_source_aliasing_guard_nonvacuous :
  nth 4 (f_body cfg_dof_make_hessian_coordinates) (SReturn ENone)
    = SAssign [EName "colCoords"%string] (ECall (EAttr (EName "rowCoords"%string) "copy"%string) [] [])
  /\ alias_safe hc_without_copy = false
  /\ option_map (canon_object cfg_dof_fields)
       (construct 0%Z (replace_method "_make_hessian_coordinates"%string hc_without_copy cfg_dof_methods) 2 [ex_fsp; VInt 2; ex_ebcs])
     = Some (canon_object cfg_dof_fields (dof_object 4 2 ex_isBc ex_conns))
  /\ alias_safe init_alias_early = false.
Proof. exact alias_guard_discriminates. Qed.

(* NOT PROVED (trusted, tied by the exact correspondence stream run_ir_case of tools/props/c14.py on every run): that the
   interpreter of model/M_C14_IR.v gives the NumPy subset the meaning NumPy gives it (boolean-mask selection, integer-array and
   slice assignment, tile / ravel / .T, enumerate; value semantics for the in-place updates is guarded syntactically by
   C14_source_no_observable_aliasing, whose sufficiency for NumPy's reference semantics is itself an argument, not a theorem); negative (wrap-around) and out-of-range node ids, where NumPy raises or
   wraps and the model ignores the entry, are excluded by the guards.  The constructor theorems follow the SYNTAX of __init__ and
   of the two helpers: a meaning-preserving reordering of the source can break the proof (reported as a broken tie).
   The closed instance below (kept from the previous round) is the same statement checked by computation on the worked example. *)
Example C14_source_constructor_example :
  option_map (canon_object cfg_dof_fields) (construct 0%Z cfg_dof_methods 2 [ex_fsp; VInt 2; ex_ebcs])
  = Some (canon_object cfg_dof_fields (dof_object 4 2 ex_isBc ex_conns)).
Proof. exact ex_construct. Qed.

(* non-vacuity: a concrete BC list with a repeated node, two overlapping node sets and an empty node set; an empty BC
   list; a full BC set given twice over; a valid two-element connectivity *)
Example C14_nonvacuous :
  ex_isBc = [true;false; false;false; true;false; true;false]
  /\ unknownIndices ex_isBc = [1;2;3;5;7] /\ bcIndices ex_isBc = [0;4;6]
  /\ dofToUnknown ex_isBc = [-1;0;1;2;-1;3;-1;4]%Z
  /\ Forall (el_in_range ex_isBc 2) ex_conns
  /\ length (HessRowCoords ex_isBc 2 ex_conns) = 32
  /\ mk_isBc 2 2 [] = [false;false;false;false]
  /\ mk_isBc 2 1 [([0;1;1;0], 0)] = [true;true].
Proof. exact ex_values. Qed.

Print Assumptions C14_partition.
Print Assumptions C14_roundtrip.
Print Assumptions C14_dofToUnknown.
Print Assumptions C14_slice_component.
Print Assumptions C14_hessian_maps.
Print Assumptions C14_assembly_by_hand.
Print Assumptions C14_source_assembler.
Print Assumptions C14_source_constructor.
Print Assumptions C14_source_construct_then_assemble.
