(* C18 -- property theorems only.  Each is closed by `exact <lemma>`; the subject of every statement is a
   kernel regenerated from /repo (the OV.gen files) at T := R.  Print Assumptions output is parsed by ./check. *)
From Coq Require Import Reals.
From Coquelicot Require Import Coquelicot.
From OV.base Require Import Num Piecewise.
From OV.gen Require Import Gen_SmoothFunctions Gen_Friction Gen_MortarContact Gen_Surface Gen_EdgeCpp.
From OV.model Require Import M_C18.
From OV.proofs Require Import L_C18 L_C18b L_C18x L_C18r L_C18f L_C18g.
Notation float := Coq.Floats.PrimFloat.float.
Local Open Scope R_scope.

(* smoothed minimum: one-sided, tight, exact outside the band, symmetric *)
Theorem C18_min_le : forall x y e, @s_min R NumR x y e <= Rmin x y.
Proof. exact smin_le_min. Qed.
Theorem C18_min_gap : forall x y e, safeTol < e -> Rmin x y - @s_min R NumR x y e <= e / 4.
Proof. exact smin_gap_quarter. Qed.
Theorem C18_min_gap_any_width : forall x y e, Rmin x y - @s_min R NumR x y e <= swidth e / 4.
Proof. exact smin_gap. Qed.
Theorem C18_min_exact_outside : forall x y e, e <= Rabs (x - y) -> @s_min R NumR x y e = Rmin x y.
Proof. exact smin_exact_outside. Qed.
Theorem C18_min_sym : forall x y e, @s_min R NumR x y e = @s_min R NumR y x e.
Proof. exact smin_sym. Qed.
(* mirrored bounds *)
Theorem C18_max_ge : forall x y e, Rmax x y <= @s_max R NumR x y e.
Proof. exact smax_ge_max. Qed.
Theorem C18_max_gap : forall x y e, @s_max R NumR x y e - Rmax x y <= swidth e / 4.
Proof. exact smax_gap. Qed.
Theorem C18_max_exact_outside : forall x y e, e <= Rabs (x - y) -> @s_max R NumR x y e = Rmax x y.
Proof. exact smax_exact_outside. Qed.
Theorem C18_max_sym : forall x y e, @s_max R NumR x y e = @s_max R NumR y x e.
Proof. exact smax_sym. Qed.
Theorem C18_abs_ge : forall x e, Rabs x <= @s_abs R NumR x e.
Proof. exact sabs_ge_abs. Qed.
Theorem C18_abs_gap : forall x e, @s_abs R NumR x e - Rabs x <= swidth e / 4.
Proof. exact sabs_gap. Qed.
Theorem C18_abs_exact_outside : forall x e, e <= 2 * Rabs x -> @s_abs R NumR x e = Rabs x.
Proof. exact sabs_exact_outside. Qed.
Theorem C18_abs_even : forall x e, @s_abs R NumR (- x) e = @s_abs R NumR x e.
Proof. exact sabs_even. Qed.
(* friction potential: nonnegative, below Coulomb, exact offset outside, convex *)
Theorem C18_friction_nonneg : forall mu sReg, 0 <= mu -> 0 < sReg -> forall s0 s1,
  0 <= @compute_friction_energy_from_perp_slip R NumR s0 s1 mu sReg.
Proof. exact friction_nonneg. Qed.
Theorem C18_friction_le_coulomb : forall mu sReg, 0 <= mu -> 0 < sReg -> forall s0 s1,
  @compute_friction_energy_from_perp_slip R NumR s0 s1 mu sReg <= mu * sqrt (s0 * s0 + s1 * s1).
Proof. exact friction_le_coulomb. Qed.
Theorem C18_friction_outside : forall mu sReg, 0 < sReg -> forall s0 s1, sReg < sqrt (s0 * s0 + s1 * s1) ->
  @compute_friction_energy_from_perp_slip R NumR s0 s1 mu sReg = mu * (sqrt (s0 * s0 + s1 * s1) - sReg / 2).
Proof. exact friction_outside. Qed.
Theorem C18_friction_convex : forall mu sReg, 0 <= mu -> 0 < sReg -> forall a0 a1 b0 b1 t, 0 <= t <= 1 ->
  @compute_friction_energy_from_perp_slip R NumR (t * a0 + (1 - t) * b0) (t * a1 + (1 - t) * b1) mu sReg
  <= t * @compute_friction_energy_from_perp_slip R NumR a0 a1 mu sReg
     + (1 - t) * @compute_friction_energy_from_perp_slip R NumR b0 b1 mu sReg.
Proof. exact friction_convex. Qed.
(* continuously differentiable across every branch switch, with explicit derivatives *)
Theorem C18_min_C1_x : forall y e, safeTol < e -> C1_with (fun x => @s_min R NumR x y e) (dsmin_dx y e).
Proof. exact smin_C1_in_x. Qed.
Theorem C18_min_C1_y : forall x e, safeTol < e -> C1_with (fun y => @s_min R NumR x y e) (dsmin_dx x e).
Proof. exact smin_C1_in_y. Qed.
Theorem C18_max_C1_x : forall y e, safeTol < e -> C1_with (fun x => @s_max R NumR x y e) (fun x => dsmin_dx (- y) e (- x)).
Proof. exact smax_C1_in_x. Qed.
Theorem C18_abs_C1 : forall e, safeTol < e -> C1_with (fun x => @s_abs R NumR x e) (dsabs_dx e).
Proof. exact sabs_C1. Qed.
Theorem C18_zmax_C1 : forall e, 0 < e -> C1_with (fun x => @zmax R NumR x e) (dzmax_dx e).
Proof. exact zmax_C1. Qed.
Theorem C18_zmax_bounds : forall e, 0 < e -> forall x, Rmax 0 x <= @zmax R NumR x e <= Rmax 0 x + e / 4.
Proof. exact zmax_bounds. Qed.
Theorem C18_smooth_linear_C1 : forall l, 0 < l <= 1 / 2 -> C1_with (fun xi => @smooth_linear R NumR xi l) (dslin l).
Proof. exact smooth_linear_C1. Qed.
Theorem C18_friction_profile_C1 : forall sReg, 0 < sReg -> C1_with (fE sReg) (dfE sReg).
Proof. exact friction_profile_C1. Qed.
Theorem C18_friction_C1_partial : forall mu sReg, 0 < sReg -> forall s1,
  C1_with (fun s0 => @compute_friction_energy_from_perp_slip R NumR s0 s1 mu sReg)
          (fun s0 => mu * (dfE sReg (s0 * s0 + s1 * s1) * (2 * s0))).
Proof. exact friction_C1_partial. Qed.

(* outside the admissible widths: for width <= safeTol the kernel is discontinuous at the switch (documented domain limit) *)
Theorem C18_min_below_safe_tol_refuted :
  let e := safeTol / 2 in @s_min R NumR e 0 e = 0 /\ forall d, 0 < d < e -> @s_min R NumR (e - d) 0 e <= - safeTol / 16.
Proof. exact smin_jump_below_safeTol. Qed.
(* the executable derivative formulas (model/M_C18.v), which the harness runs at binary64 against jax.grad, are the proved derivatives *)
Theorem C18_dformula_min : forall x y e, @d_smin_dx R NumR x y e = dsmin_dx y e x.
Proof. exact d_smin_dx_ok. Qed.
Theorem C18_dformula_abs : forall x e, @d_sabs R NumR x e = dsabs_dx e x.
Proof. exact d_sabs_ok. Qed.
Theorem C18_dformula_zmax : forall x e, @d_zmax R NumR x e = dzmax_dx e x.
Proof. exact d_zmax_ok. Qed.
Theorem C18_dformula_slin : forall x l, @d_slin R NumR x l = dslin l x.
Proof. exact d_slin_ok. Qed.
Theorem C18_dformula_friction : forall s0 s1 mu sReg,
  fst (@d_friction R NumR s0 s1 mu sReg) = mu * (dfE sReg (s0 * s0 + s1 * s1) * (2 * s0)).
Proof. exact d_friction_ok. Qed.

(* second-wave additions: remaining partials, friction along every line, smoothstep, necessity of l <= 1/2 *)
Theorem C18_max_C1_y : forall x e, safeTol < e -> C1_with (fun y => @s_max R NumR x y e) (fun y => dsmin_dx (- x) e (- y)).
Proof. exact smax_C1_in_y. Qed.
Theorem C18_friction_C1_along_every_line : forall mu sReg a0 a1 d0 d1, 0 < sReg ->
  C1_with (fun t => @compute_friction_energy_from_perp_slip R NumR (a0 + t * d0) (a1 + t * d1) mu sReg)
          (fun t => mu * (dfE sReg ((a0 + t * d0) * (a0 + t * d0) + (a1 + t * d1) * (a1 + t * d1))
                          * (2 * (a0 + t * d0) * d0 + 2 * (a1 + t * d1) * d1))).
Proof. exact friction_C1_along_line. Qed.
Theorem C18_friction_C1_partial_1 : forall mu sReg s0, 0 < sReg ->
  C1_with (fun s1 => @compute_friction_energy_from_perp_slip R NumR s0 s1 mu sReg)
          (fun s1 => mu * (dfE sReg (s0 * s0 + s1 * s1) * (2 * s1))).
Proof. exact friction_C1_partial_1. Qed.
Theorem C18_smoothstep_C1 : C1_with (fun x => @smoothstep R NumR x) dsstep.
Proof. exact smoothstep_C1. Qed.
Theorem C18_smoothstep_range : forall x, 0 <= @smoothstep R NumR x <= 1.
Proof. exact smoothstep_range. Qed.
(* the hypothesis l <= 1/2 of C18_smooth_linear_C1 cannot be dropped: for l = 1 smooth_linear jumps at xi = 1 *)
Theorem C18_smooth_linear_needs_l_le_half_refuted :
  forall delta, 0 < delta -> exists x, Rabs (x - 1) < delta /\ 1 / 4 <= Rabs (@smooth_linear R NumR x 1 - @smooth_linear R NumR 1 1).
Proof. exact smooth_linear_not_continuous_for_l_1_refuted. Qed.

Theorem C18_dformula_max_y : forall x y e, @d_smax_dy R NumR x y e = dsmin_dx (- x) e (- y).
Proof. exact d_smax_dy_ok. Qed.
Theorem C18_dformula_friction_1 : forall s0 s1 mu sReg,
  snd (@d_friction R NumR s0 s1 mu sReg) = mu * (dfE sReg (s0 * s0 + s1 * s1) * (2 * s1)).
Proof. exact d_friction_ok_1. Qed.
Theorem C18_dformula_smoothstep : forall x, @d_sstep R NumR x = dsstep x.
Proof. exact d_sstep_ok. Qed.

(* round-4 additions: BINARY64.  The subject is the PrimFloat instance of the generated kernels (the instance the harness executes
   against the implementation); FR x is the real value of the float x (Flocq B2R), fin x says x is neither inf nor NaN,
   u64 = 2^-53, tol64 = the binary64 value of safeTol, rnd64 = round-to-nearest-even onto binary64 (with subnormals).
   "No overflow" is expressed as finiteness of the RESULT (shown to force finiteness of every intermediate); underflow is covered. *)
Theorem C18_min_binary64_bounds : forall x y eps : float, fin x = true -> fin y = true -> fin eps = true ->
  fin (@min_base float NumF x y eps) = true ->
  Rmin (FR x) (FR y) - Rmax (FR eps) tol64 / 4 - 3 * u64 * (Rabs (FR x) + Rabs (FR y) + Rmax (FR eps) tol64)
    <= FR (@min_base float NumF x y eps)
    <= Rmin (FR x) (FR y) + 3 * u64 * (Rabs (FR x) + Rabs (FR y) + Rmax (FR eps) tol64).
Proof. exact min_base_binary64_bounds. Qed.
Theorem C18_min_binary64_inband_error : forall x y eps : float, fin x = true -> fin y = true -> fin eps = true ->
  in_band64 x y eps = true -> fin (@min_base float NumF x y eps) = true ->
  Rabs (FR (@min_base float NumF x y eps) - closed_form (FR x) (FR y) (Rmax (FR eps) tol64))
    <= 3 * u64 * (Rabs (FR x) + Rabs (FR y) + Rmax (FR eps) tol64).
Proof. exact min_base_binary64_inband_error. Qed.
Theorem C18_min_binary64_exact_outside : forall x y eps : float, fin x = true -> fin y = true -> fin eps = true ->
  FR eps <= Rabs (FR x - FR y) -> FR (@min_base float NumF x y eps) = Rmin (FR x) (FR y).
Proof. exact min_base_binary64_exact_outside. Qed.
Theorem C18_min_binary64_outside_bit_exact : forall x y eps : float, in_band64 x y eps = false ->
  @min_base float NumF x y eps = plain_min64 x y.
Proof. exact min_base_binary64_outside_exact. Qed.
Theorem C18_max_binary64_bounds : forall x y eps : float, fin x = true -> fin y = true -> fin eps = true ->
  fin (@s_max float NumF x y eps) = true ->
  Rmax (FR x) (FR y) - 3 * u64 * (Rabs (FR x) + Rabs (FR y) + Rmax (FR eps) tol64)
    <= FR (@s_max float NumF x y eps)
    <= Rmax (FR x) (FR y) + Rmax (FR eps) tol64 / 4 + 3 * u64 * (Rabs (FR x) + Rabs (FR y) + Rmax (FR eps) tol64).
Proof. exact s_max_binary64_bounds. Qed.
Theorem C18_abs_binary64_bounds : forall x eps : float, fin x = true -> fin eps = true ->
  fin (@s_abs float NumF x eps) = true ->
  Rabs (FR x) - 3 * u64 * (2 * Rabs (FR x) + Rmax (FR eps) tol64)
    <= FR (@s_abs float NumF x eps)
    <= Rabs (FR x) + Rmax (FR eps) tol64 / 4 + 3 * u64 * (2 * Rabs (FR x) + Rmax (FR eps) tol64).
Proof. exact s_abs_binary64_bounds. Qed.
(* NaN arguments: the result is the second argument (NaN in y propagates, NaN in x is dropped by where(x < y, x, y)) *)
Theorem C18_min_binary64_nan : forall x y eps : float, Coq.Floats.PrimFloat.is_nan x = true \/ Coq.Floats.PrimFloat.is_nan y = true ->
  @min_base float NumF x y eps = y.
Proof. exact min_base_binary64_nan. Qed.
(* the same analysis for ANY rounding operator with relative error u <= 1/1000 and absolute (underflow) error eta, eta*1000 <= u tol^2 *)
Theorem C18_min_rounded_abstract : forall (rnd : R -> R) (u eta : R), 0 <= u -> u <= 1 / 1000 -> 0 <= eta ->
  (forall z, Rabs (rnd z - z) <= u * Rabs z + eta) ->
  forall h q x y s tol, h = 1 / 2 -> q = 1 / 4 -> 0 < tol <= 1 -> tol <= s -> eta * 1000 <= u * (tol * tol) ->
  Rabs (rnd (x - y)) < s ->
  Rmin x y - s / 4 - 3 * u * (Rabs x + Rabs y + s) <= rounded_inband rnd h q x y s <= Rmin x y + 3 * u * (Rabs x + Rabs y + s).
Proof. exact rounded_inband_bounds. Qed.
(* the binary64 rounding operator satisfies that error model, and the numeric side conditions hold *)
Theorem C18_rnd64_error_model : (forall z, Rabs (rnd64 z - z) <= u64 * Rabs z + eta64) /\ 0 <= u64 <= 1 / 1000 /\
  0 < tol64 <= 1 /\ 0 <= eta64 /\ eta64 * 1000 <= u64 * (tol64 * tol64).
Proof. exact (conj rnd64_err (conj u64_bounds (conj tol64_bounds eta64_bounds))). Qed.
(* symmetry in binary64, at the level of values: for finite arguments the two results are finite together (this covers every
   overflow case) and, when finite, have the same real value.  same64 a b := fin a = fin b /\ (fin a = true -> FR a = FR b). *)
Theorem C18_min_binary64_sym : forall x y eps : float, fin x = true -> fin y = true -> fin eps = true ->
  same64 (@min_base float NumF x y eps) (@min_base float NumF y x eps).
Proof. exact min_base_binary64_sym. Qed.
(* NOT PROVED (binary64): the same for the friction potential, zmax, smooth_linear, smoothstep (reals + correspondence only);
   runs whose result is not finite ((x-y)^2 overflows inside the band for |x-y| > 1.3e154 -- the theorems assume a finite result);
   BITWISE symmetry of min_base (false: min_base (+0) (-0) e = -0 vs +0 swapped, and C18_min_binary64_nan shows the NaN asymmetry);
   the flush-to-zero instance of C18_min_rounded_abstract (eta = 2^-1022 satisfies its numeric hypothesis, the FTZ rounding
   operator itself is not instantiated). *)
Example C18_binary64_nonvacuous :
  fin f64_one = true /\ fin f64_three_halves = true /\ in_band64 f64_one f64_three_halves f64_one = true /\
  fin (@min_base float NumF f64_one f64_three_halves f64_one) = true.
Proof. exact binary64_nonvacuous. Qed.

(* non-vacuity: hypotheses are satisfiable at concrete arguments *)
Example C18_nonvacuous : safeTol < 1 /\ 0 < 1 <= 1 / 2 + 1 / 2 /\ (1:R) <= Rabs (3 - 1).
Proof. exact C18_nonvacuous_witness. Qed.

Print Assumptions C18_min_le.
Print Assumptions C18_friction_convex.
Print Assumptions C18_min_C1_x.
Print Assumptions C18_friction_C1_partial.
Print Assumptions C18_min_binary64_bounds.
