(* C02 -- property theorems only.  Subject: the executable model of SparseMatrixAssembler.assemble_sparse_stiffness_matrix
   (model/M_C02_Assembly.v) on top of the DofManager model of C14, and of the per-block loops of Mechanics._compute_*_multi_block.
   The models are tied to the source by exact integer correspondence; the analytic half of the property (element blocks are the
   autodiff Hessians of the element energies, chain rule through create_field) is compared on the real code (L2), not proved. *)
From Coq Require Import ZArith List Bool Arith Permutation Reals.
From OV.model Require Import M_C14_Dof M_C02_Assembly.
From OV.proofs Require Import L_C14 L_C02 L_C02_refs.
From OV.gen Require Import Refs_Mechanics.
Import ListNotations.

(* every entry of the assembled matrix (duplicates summed, any value type): K[i, j] is the sum of the block entries (a, b)
   whose two dofs are unknown and with  unknown(dof b) = i  and  unknown(dof a) = j   -- the TRANSPOSED placement *)
Theorem C02_assembly_entries : forall (V : Type) (vzero : V) (vadd : V -> V -> V) isBc dim nNodes conns (kvals : list (list V)) i j,
  length isBc = nNodes * dim -> valid_conns nNodes conns -> blocks_ok dim conns kvals ->
  dense vzero vadd (coo_triples isBc dim conns kvals) i j
  = sum_where vzero vadd (lands_at isBc dim i j) (all_entries dim conns kvals).
Proof. exact assembly_entries_full. Qed.

(* hence the reduced matrix is the restriction to the unknown dofs of the (transposed) global scatter of the blocks:
   K[i, j] = G^T[unknownIndices[i], unknownIndices[j]],  G = sum_e (scatter of K_e) *)
Theorem C02_assembly_is_restriction : forall (V : Type) (vzero : V) (vadd : V -> V -> V) isBc dim nNodes conns (kvals : list (list V)) i j,
  length isBc = nNodes * dim -> valid_conns nNodes conns -> blocks_ok dim conns kvals ->
  i < get_unknown_size isBc -> j < get_unknown_size isBc ->
  dense vzero vadd (coo_triples isBc dim conns kvals) (Z.of_nat i) (Z.of_nat j)
  = sum_where vzero vadd (scatters_to dim (nth i (unknownIndices isBc) 0) (nth j (unknownIndices isBc) 0))
              (all_entries dim conns kvals).
Proof. exact assembly_is_restriction_full. Qed.

(* symmetric element blocks (autodiff Hessians are) give a symmetric matrix, equal to P^T (sum_e G_e^T K_e G_e) P *)
Theorem C02_assembly_symmetric : forall isBc dim nNodes conns (Ks : list (nat -> nat -> R)) i j,
  length isBc = nNodes * dim -> valid_conns nNodes conns -> blocks_symmetric dim conns Ks ->
  dense 0%R Rplus (coo_triples isBc dim conns (kvals_of dim conns Ks)) i j
  = dense 0%R Rplus (coo_triples isBc dim conns (kvals_of dim conns Ks)) j i.
Proof. exact assembly_symmetric_R. Qed.

Theorem C02_assembly_is_PtKP : forall isBc dim nNodes conns (Ks : list (nat -> nat -> R)) i j,
  length isBc = nNodes * dim -> valid_conns nNodes conns -> blocks_symmetric dim conns Ks ->
  i < get_unknown_size isBc -> j < get_unknown_size isBc ->
  dense 0%R Rplus (coo_triples isBc dim conns (kvals_of dim conns Ks)) (Z.of_nat i) (Z.of_nat j)
  = sum_where 0%R Rplus (scatters_to_straight dim (nth i (unknownIndices isBc) 0) (nth j (unknownIndices isBc) 0))
              (all_entries dim conns (kvals_of dim conns Ks)).
Proof. exact assembly_is_PtKP_R. Qed.

(* without symmetry of the blocks the assembled matrix is NOT the straight restriction (it is its transpose): the property
   "assembled = Hessian" leans on the element blocks being symmetric *)
Theorem C02_assembly_transposed_refuted :
  exists (isBc : list bool) (dim : nat) (conns : list (list nat)) (kvals : list (list Z)) (i j : nat),
    Forall (el_in_range isBc dim) conns /\ blocks_ok dim conns kvals
    /\ i < get_unknown_size isBc /\ j < get_unknown_size isBc
    /\ dense 0%Z Z.add (coo_triples isBc dim conns kvals) (Z.of_nat i) (Z.of_nat j)
       <> sum_where 0%Z Z.add (scatters_to_straight dim (nth i (unknownIndices isBc) 0) (nth j (unknownIndices isBc) 0))
                    (all_entries dim conns kvals).
Proof. exact transposed_refuted. Qed.

(* splitting the elements into blocks carrying the same per-element functions changes neither the scattered per-element
   arrays (states, element Hessians) nor the summed energy *)
Theorem C02_blocks_partition :
  (forall (W : Type) (f : nat -> W) blocks base,
      covers (length base) blocks -> multi_block_scatter f blocks base = map f (seq 0 (length base)))
  /\ (forall (ee : nat -> R) blocks nElements,
      Permutation (concat blocks) (seq 0 nElements) ->
      multi_block_energy 0%R Rplus ee blocks = single_block_energy 0%R Rplus ee nElements).
Proof. exact blocks_partition_full. Qed.

(* gather semantics of FunctionSpace.evaluate_on_block / integrate_over_block (every per-element array is indexed with the
   same block index; values are contracted with vols[block]): the block integral is the sum over the listed elements of
   each element's values against its OWN volumes; it is invariant under any reordering of the block's id list; blocks
   listing every element exactly once (any order) add up to the integral over slice(None); row k of evaluate_on_block
   is the kernel of element block[k]. *)
Theorem C02_integrate_over_block_gather :
  forall (E : Type) (edef : E) (kernel vols : E -> list R), (forall e, length (kernel e) = length (vols e)) ->
  (forall elems block,
      integrate_over_block 0%R Rplus Rmult edef kernel vols elems block
      = block_energy 0%R Rplus (element_energy 0%R Rplus Rmult edef kernel vols elems) block)
  /\ (forall elems block block', Permutation block block' ->
      integrate_over_block 0%R Rplus Rmult edef kernel vols elems block
      = integrate_over_block 0%R Rplus Rmult edef kernel vols elems block')
  /\ (forall elems blocks, Permutation (concat blocks) (seq 0 (length elems)) ->
      fold_left (fun acc ids => (acc + integrate_over_block 0%R Rplus Rmult edef kernel vols elems ids)%R) blocks 0%R
      = integrate_over_block 0%R Rplus Rmult edef kernel vols elems (seq 0 (length elems)))
  /\ (forall elems block k i, nth_error block k = Some i ->
      nth_error (evaluate_on_block edef kernel elems block) k = Some (kernel (nth i elems edef))).
Proof. exact gather_full. Qed.

(* NOT PROVED: "the assembled matrix equals the second derivative of the total energy w.r.t. the unknowns" in full, i.e.
     d2/dUu2 [ sum_e E_e(G_e (create_field Uu Ubc)) ] = P^T (sum_e G_e^T (d2 E_e) G_e) P,
   because it needs (a) that jax.hessian(integrate_element_from_local_field) is the Hessian of the element energy (JAX autodiff,
   not ours to prove) and (b) the chain rule through the affine map create_field for arbitrary twice differentiable E_e (a
   standard fact not formalised here).  What IS proved is the index half: the assembler realises P^T (sum G^T K G) P exactly.
   The analytic half is compared on the real code on every run (K vs dense jax.hessian), see tools/props/c02.py.
   (Findings F5/F6 -- pressure-projection options, Newmark with UPredicted <> 0 -- are fixed in /repo and now covered by L2.) *)

(* static well-formedness of Mechanics.py (table regenerated from the AST on every run, decided by computation): every
   Module.attr reference resolves, no name is read that is bound nowhere, and every nested element-gradient hook has the arity
   of FunctionSpace.default_modify_element_gradient.  (Refuted before the fix of finding F5; the conditional forms below
   hold for any tree.) *)
Theorem C02_refs_resolve : refs_resolve.
Proof. exact refs_resolve_now. Qed.
Theorem C02_refs_resolve_decided : if refs_all_ok then refs_resolve else refs_broken.
Proof. exact refs_decided. Qed.
Theorem C02_refs_resolve_refuted_when_flagged : refs_all_ok = false -> ~ refs_resolve.
Proof. exact refs_resolve_refuted_when_flag_false. Qed.
Example C02_refs_nonvacuous : 20 <= length attr_refs /\ 2 <= length hook_arities.
Proof. exact refs_nonvacuous. Qed.

Example C02_nonvacuous :
  Forall (el_in_range ex_isBc 2) ex_conns /\ blocks_symmetric 2 ex_conns ex_Ks
  /\ blocks_ok 2 ex_conns (kvals_of 2 ex_conns ex_Ks)
  /\ covers 2 [[1]; [0]] /\ Permutation (concat [[1]; [0]]) (seq 0 2)
  /\ dense_matrix 0%Z Z.add 5 (coo_triples ex_isBc 2 ex_conns (kvals_of 2 ex_conns ex_Ks))
     = [[3; 5; 7; 11; 0]; [5; 37; 54; 32; 71]; [7; 54; 79; 45; 106]; [11; 32; 45; 43; 36]; [0; 71; 106; 36; 176]]%Z.
Proof. exact c02_nonvacuous. Qed.

Print Assumptions C02_assembly_entries.
Print Assumptions C02_assembly_is_restriction.
Print Assumptions C02_assembly_symmetric.
Print Assumptions C02_assembly_is_PtKP.
Print Assumptions C02_blocks_partition.
Print Assumptions C02_integrate_over_block_gather.
Print Assumptions C02_refs_resolve.
