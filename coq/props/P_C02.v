(* C02 -- property theorems only.  Subject: the executable model of SparseMatrixAssembler.assemble_sparse_stiffness_matrix
   (model/M_C02_Assembly.v) on top of the DofManager model of C14, and of the per-block loops of Mechanics._compute_*_multi_block.
   The models are tied to the source by exact integer correspondence.  The analytic half: the chain rule through the affine map
   create_field and the element gathers IS proved (C02_hessian_chain*, for arbitrary element energies, given that each element
   block holds the second directional derivatives of its element energy); that jax.hessian delivers those derivatives is not
   ours to prove and is compared on the real code (L2). *)
From Coq Require Import ZArith List Bool Arith Permutation Reals.
From OV.model Require Import M_C14_Dof M_C02_Assembly M_C02_Energy M_C02_MultiBlock.
From OV.proofs Require Import L_C14 L_C02 L_C02_refs L_C02_hess L_C02_mb L_C02_batch.
From OV.gen Require Import Refs_Mechanics.
Import ListNotations.

(* every entry of the assembled matrix (duplicates summed, any value type): K[i, j] is the sum of the block entries (a, b)
   whose two dofs are unknown and with  unknown(dof b) = i  and  unknown(dof a) = j   -- the TRANSPOSED placement *)
Theorem C02_assembly_entries : forall (V : Type) (vzero : V) (vadd : V -> V -> V) isBc dim nNodes conns (kvals : list (list V)) i j,
  length isBc = nNodes * dim -> valid_conns nNodes conns -> blocks_ok dim conns kvals ->
  dense vzero vadd (coo_triples isBc dim conns kvals) i j
  = sum_where vzero vadd (lands_at isBc dim i j) (all_entries dim conns kvals).
Proof. exact assembly_entries_full. Qed.

(* hence the reduced matrix is the restriction to the unknown dofs of the (transposed) global scatter of the blocks:
   K[i, j] = G^T[unknownIndices[i], unknownIndices[j]],  G = sum_e (scatter of K_e) *)
Theorem C02_assembly_is_restriction : forall (V : Type) (vzero : V) (vadd : V -> V -> V) isBc dim nNodes conns (kvals : list (list V)) i j,
  length isBc = nNodes * dim -> valid_conns nNodes conns -> blocks_ok dim conns kvals ->
  i < get_unknown_size isBc -> j < get_unknown_size isBc ->
  dense vzero vadd (coo_triples isBc dim conns kvals) (Z.of_nat i) (Z.of_nat j)
  = sum_where vzero vadd (scatters_to dim (nth i (unknownIndices isBc) 0) (nth j (unknownIndices isBc) 0))
              (all_entries dim conns kvals).
Proof. exact assembly_is_restriction_full. Qed.

(* symmetric element blocks (autodiff Hessians are) give a symmetric matrix, equal to P^T (sum_e G_e^T K_e G_e) P *)
Theorem C02_assembly_symmetric : forall isBc dim nNodes conns (Ks : list (nat -> nat -> R)) i j,
  length isBc = nNodes * dim -> valid_conns nNodes conns -> blocks_symmetric dim conns Ks ->
  dense 0%R Rplus (coo_triples isBc dim conns (kvals_of dim conns Ks)) i j
  = dense 0%R Rplus (coo_triples isBc dim conns (kvals_of dim conns Ks)) j i.
Proof. exact assembly_symmetric_R. Qed.

Theorem C02_assembly_is_PtKP : forall isBc dim nNodes conns (Ks : list (nat -> nat -> R)) i j,
  length isBc = nNodes * dim -> valid_conns nNodes conns -> blocks_symmetric dim conns Ks ->
  i < get_unknown_size isBc -> j < get_unknown_size isBc ->
  dense 0%R Rplus (coo_triples isBc dim conns (kvals_of dim conns Ks)) (Z.of_nat i) (Z.of_nat j)
  = sum_where 0%R Rplus (scatters_to_straight dim (nth i (unknownIndices isBc) 0) (nth j (unknownIndices isBc) 0))
              (all_entries dim conns (kvals_of dim conns Ks)).
Proof. exact assembly_is_PtKP_R. Qed.

(* without symmetry of the blocks the assembled matrix is NOT the straight restriction (it is its transpose): the property
   "assembled = Hessian" leans on the element blocks being symmetric *)
Theorem C02_assembly_transposed_refuted :
  exists (isBc : list bool) (dim : nat) (conns : list (list nat)) (kvals : list (list Z)) (i j : nat),
    Forall (el_in_range isBc dim) conns /\ blocks_ok dim conns kvals
    /\ i < get_unknown_size isBc /\ j < get_unknown_size isBc
    /\ dense 0%Z Z.add (coo_triples isBc dim conns kvals) (Z.of_nat i) (Z.of_nat j)
       <> sum_where 0%Z Z.add (scatters_to_straight dim (nth i (unknownIndices isBc) 0) (nth j (unknownIndices isBc) 0))
                    (all_entries dim conns kvals).
Proof. exact transposed_refuted. Qed.

(* splitting the elements into blocks carrying the same per-element functions changes neither the scattered per-element
   arrays (states, element Hessians) nor the summed energy *)
Theorem C02_blocks_partition :
  (forall (W : Type) (f : nat -> W) blocks base,
      covers (length base) blocks -> multi_block_scatter f blocks base = map f (seq 0 (length base)))
  /\ (forall (ee : nat -> R) blocks nElements,
      Permutation (concat blocks) (seq 0 nElements) ->
      multi_block_energy 0%R Rplus ee blocks = single_block_energy 0%R Rplus ee nElements).
Proof. exact blocks_partition_full. Qed.

(* gather semantics of FunctionSpace.evaluate_on_block / integrate_over_block (every per-element array is indexed with the
   same block index; values are contracted with vols[block]): the block integral is the sum over the listed elements of
   each element's values against its OWN volumes; it is invariant under any reordering of the block's id list; blocks
   listing every element exactly once (any order) add up to the integral over slice(None); row k of evaluate_on_block
   is the kernel of element block[k]. *)
Theorem C02_integrate_over_block_gather :
  forall (E : Type) (edef : E) (kernel vols : E -> list R), (forall e, length (kernel e) = length (vols e)) ->
  (forall elems block,
      integrate_over_block 0%R Rplus Rmult edef kernel vols elems block
      = block_energy 0%R Rplus (element_energy 0%R Rplus Rmult edef kernel vols elems) block)
  /\ (forall elems block block', Permutation block block' ->
      integrate_over_block 0%R Rplus Rmult edef kernel vols elems block
      = integrate_over_block 0%R Rplus Rmult edef kernel vols elems block')
  /\ (forall elems blocks, Permutation (concat blocks) (seq 0 (length elems)) ->
      fold_left (fun acc ids => (acc + integrate_over_block 0%R Rplus Rmult edef kernel vols elems ids)%R) blocks 0%R
      = integrate_over_block 0%R Rplus Rmult edef kernel vols elems (seq 0 (length elems)))
  /\ (forall elems block k i, nth_error block k = Some i ->
      nth_error (evaluate_on_block edef kernel elems block) k = Some (kernel (nth i elems edef))).
Proof. exact gather_full. Qed.

(* the multi-block clause as ONE statement over the model of the three per-block loops of Mechanics
   (model/M_C02_MultiBlock.v: for blockKey in blockModels: elemIds = mesh.blocks[blockKey]; energy += integrate_over_block(...,
   L(material), elemIds); statesNew = statesNew.at[elemIds].set(kernel(material) on dispGrads[elemIds], states[elemIds]);
   elementHessians = elementHessians.at[elemIds].set(element stiffness(material) on the gathered rows)):
   if the block id lists partition the elements (each element exactly once, ANY order inside and across blocks) and every block
   carries the same material m, then the energy, the updated internal variables, the element Hessians and hence every entry of the
   assembled stiffness (any BC mask, any connectivity) are those of the single-block functions for m.
   E = an element's row of all per-element arrays, M = material, ek / sk / hk = the material's energy-density / state-update /
   element-Hessian kernels evaluated on one element's own rows. *)
Theorem C02_multiblock_same_material :
  forall (E M S : Type) (edef : E) (ek : M -> E -> list R) (vols : E -> list R) (sk : M -> E -> S) (hk : M -> E -> list R)
         (elems : list E) (blocks : list (list nat)) (mats : list M) (m : M) (base : list S) (zeros : list (list R)),
  (forall e, length (ek m e) = length (vols e)) ->
  length mats = length blocks -> Forall (eq m) mats ->
  Permutation (concat blocks) (seq 0 (length elems)) ->
  length base = length elems -> length zeros = length elems ->
  mb_energy 0%R Rplus Rmult edef ek vols elems (combine blocks mats) = sb_energy 0%R Rplus Rmult edef ek vols elems m
  /\ mb_states edef sk elems (combine blocks mats) base = sb_states sk elems m
  /\ mb_hessians edef hk elems (combine blocks mats) zeros = sb_hessians hk elems m
  /\ (forall isBc dim conns i j,
        dense 0%R Rplus (coo_triples isBc dim conns (mb_hessians edef hk elems (combine blocks mats) zeros)) i j
        = dense 0%R Rplus (coo_triples isBc dim conns (sb_hessians hk elems m)) i j).
Proof. exact multiblock_full. Qed.

(* hypotheses satisfiable, the loops do something, and with two DIFFERENT materials the result is not the single-block one *)
Example C02_multiblock_nonvacuous :
  let elems := [10; 20; 30]%Z in
  let sk := fun (m : Z) (e : Z) => (m * e)%Z in
  Permutation (concat [[2]; [0; 1]]) (seq 0 (length elems)) /\ Forall (eq 7%Z) [7; 7]%Z
  /\ mb_states 0%Z sk elems (combine [[2]; [0; 1]] [7; 7]%Z) [0; 0; 0]%Z = [70; 140; 210]%Z
  /\ sb_states sk elems 7%Z = [70; 140; 210]%Z
  /\ mb_states 0%Z sk elems (combine [[2]; [0; 1]] [7; 5]%Z) [0; 0; 0]%Z <> sb_states sk elems 7%Z.
Proof. exact multiblock_nonvacuous. Qed.

(* ---------- the analytic half: chain rule through create_field and the element gathers ----------
   reduced_energy isBc dim conns Es Ubc Uu = sum_e E_e(U[conns[e],:]) with U = create_field Uu Ubc   (model/M_C02_Energy.v)
   lin x t a = x + t a;   bil n K a b = a^T K b;
   mixed2 F k : d/ds d/dt F(s,t) at (0,0) exists and equals k  (Coquelicot: dF/dt(s,0) exists for s near 0, and s |-> dF/dt(s,0)
                is differentiable at 0 with derivative k);
   line2 f k  : f is differentiable near 0 and is_derive_n f 2 0 k;
   represents n E x K : for all directions a, b in R^n  mixed2 (fun s t => E (x + s a + t b)) (a^T K b)
                        -- "K holds the second directional derivatives of E at x".
   For ARBITRARY element energies (no polynomial / smoothness restriction beyond the hypothesis itself): if every (symmetric) element
   block K_e holds the second directional derivatives of E_e at the element's current local field, then the mixed second
   directional derivative of the total energy w.r.t. the unknowns in directions (v, w) exists and is v^T K w with K the
   matrix the assembler produces -- i.e. K = P^T (sum_e G_e^T K_e G_e) P is the Hessian of Uu |-> E(create_field Uu Ubc). *)
Theorem C02_hessian_chain :
  forall isBc dim nNodes conns (Es : list (list R -> R)) (Ks : list (nat -> nat -> R)) (Uu Ubc v w : list R),
  length isBc = nNodes * dim -> valid_conns nNodes conns -> blocks_symmetric dim conns Ks -> length Es = length conns ->
  length Uu = get_unknown_size isBc -> length Ubc = get_bc_size isBc ->
  length v = get_unknown_size isBc -> length w = get_unknown_size isBc ->
  (forall e, e < length conns ->
      represents (length (el_dofs dim (nth e conns []))) (nth e Es E0)
                 (gather_local 0%R dim (create_field isBc 0%R Uu Ubc) (nth e conns [])) (nth e Ks K0)) ->
  mixed2 (fun s t => reduced_energy isBc dim conns Es Ubc (lin (lin Uu s v) t w))
         (bil (get_unknown_size isBc)
              (fun i j => dense 0%R Rplus (coo_triples isBc dim conns (kvals_of dim conns Ks)) (Z.of_nat i) (Z.of_nat j)) v w).
Proof. exact hessian_chain_full. Qed.

(* coordinate form: entry (i, j) of the assembled matrix is the mixed partial derivative d2 E / dUu_i dUu_j *)
Theorem C02_hessian_entries :
  forall isBc dim nNodes conns (Es : list (list R -> R)) (Ks : list (nat -> nat -> R)) (Uu Ubc : list R) i j,
  length isBc = nNodes * dim -> valid_conns nNodes conns -> blocks_symmetric dim conns Ks -> length Es = length conns ->
  length Uu = get_unknown_size isBc -> length Ubc = get_bc_size isBc ->
  i < get_unknown_size isBc -> j < get_unknown_size isBc ->
  (forall e, e < length conns ->
      represents (length (el_dofs dim (nth e conns []))) (nth e Es E0)
                 (gather_local 0%R dim (create_field isBc 0%R Uu Ubc) (nth e conns [])) (nth e Ks K0)) ->
  mixed2 (fun s t => reduced_energy isBc dim conns Es Ubc
                       (lin (lin Uu s (unitv (get_unknown_size isBc) i)) t (unitv (get_unknown_size isBc) j)))
         (dense 0%R Rplus (coo_triples isBc dim conns (kvals_of dim conns Ks)) (Z.of_nat i) (Z.of_nat j)).
Proof. exact hessian_entries. Qed.

(* the same along single lines (Derive_n ... 2): d2/dt2 E(Uu + t v) at 0 = v^T K v, from second derivatives of the element
   energies along lines only *)
Theorem C02_hessian_chain_line :
  forall isBc dim nNodes conns (Es : list (list R -> R)) (Ks : list (nat -> nat -> R)) (Uu Ubc v : list R),
  length isBc = nNodes * dim -> valid_conns nNodes conns -> blocks_symmetric dim conns Ks -> length Es = length conns ->
  length Uu = get_unknown_size isBc -> length Ubc = get_bc_size isBc -> length v = get_unknown_size isBc ->
  (forall e, e < length conns ->
      represents_line (length (el_dofs dim (nth e conns []))) (nth e Es E0)
                      (gather_local 0%R dim (create_field isBc 0%R Uu Ubc) (nth e conns [])) (nth e Ks K0)) ->
  line2 (fun t => reduced_energy isBc dim conns Es Ubc (lin Uu t v))
        (bil (get_unknown_size isBc)
             (fun i j => dense 0%R Rplus (coo_triples isBc dim conns (kvals_of dim conns Ks)) (Z.of_nat i) (Z.of_nat j)) v v).
Proof. exact hessian_chain_line_full. Qed.

(* unconditional instance: quadratic element energies c_e + g_e.x + 1/2 x^T K_e x (linear elasticity; any linearised material)
   -- the assembled matrix is the Hessian of the total energy, both as mixed derivative and along lines *)
Theorem C02_hessian_quadratic :
  forall isBc dim nNodes conns (Es : list (list R -> R)) (Ks : list (nat -> nat -> R)) (Uu Ubc v w : list R),
  length isBc = nNodes * dim -> valid_conns nNodes conns -> blocks_symmetric dim conns Ks -> length Es = length conns ->
  length Uu = get_unknown_size isBc -> length Ubc = get_bc_size isBc ->
  length v = get_unknown_size isBc -> length w = get_unknown_size isBc ->
  (forall e, e < length conns -> exists c g, forall x,
        nth e Es E0 x = quad_energy (length (el_dofs dim (nth e conns []))) c g (nth e Ks K0) x) ->
  mixed2 (fun s t => reduced_energy isBc dim conns Es Ubc (lin (lin Uu s v) t w))
         (bil (get_unknown_size isBc)
              (fun i j => dense 0%R Rplus (coo_triples isBc dim conns (kvals_of dim conns Ks)) (Z.of_nat i) (Z.of_nat j)) v w)
  /\ line2 (fun t => reduced_energy isBc dim conns Es Ubc (lin Uu t v))
           (bil (get_unknown_size isBc)
                (fun i j => dense 0%R Rplus (coo_triples isBc dim conns (kvals_of dim conns Ks)) (Z.of_nat i) (Z.of_nat j)) v v).
Proof. exact hessian_quadratic. Qed.

(* the hypotheses are jointly satisfiable (two-element mesh with BCs, quadratic energies with the symmetric example blocks, any
   Uu / Ubc), and `represents` is not restricted to constant Hessians: E(x) = x_0^3 has K(x) = [6 x_0] *)
Example C02_hessian_nonvacuous :
  length ex_isBc = 4 * 2 /\ valid_conns 4 ex_conns /\ blocks_symmetric 2 ex_conns ex_KsR /\ length ex_Es = length ex_conns
  /\ get_unknown_size ex_isBc = 5 /\ get_bc_size ex_isBc = 3
  /\ (forall Uu Ubc e, length Uu = 5 -> length Ubc = 3 -> e < length ex_conns ->
        represents (length (el_dofs 2 (nth e ex_conns []))) (nth e ex_Es E0)
                   (gather_local 0%R 2 (create_field ex_isBc 0%R Uu Ubc) (nth e ex_conns [])) (nth e ex_KsR K0))
  /\ (forall x0 : R, represents 1 (fun x => (nth 0 x 0 ^ 3)%R) [x0] (fun _ _ => (6 * x0)%R))
  /\ (exists x0 x1 : R, (fun _ _ : nat => (6 * x0)%R) 0 0 <> (fun _ _ : nat => (6 * x1)%R) 0 0).
Proof. exact hessian_nonvacuous. Qed.

(* NOT PROVED (remaining gap of "the assembled matrix equals the second derivative of the total energy"): hypothesis `represents`
   of C02_hessian_chain for the REAL element energies, i.e. that jax.hessian(FunctionSpace.integrate_element_from_local_field)
   returns the second directional derivatives of the element energy (JAX autodiff; not ours to prove), and that those energies are
   twice differentiable at the current state (material-specific: true for the neo-Hookean / linear elastic densities at det F > 0,
   false for J2 exactly on the yield surface).  Also the Hessian as a Frechet derivative (rather than the matrix of mixed
   directional derivatives) is not formalised.  The L2 stream compares K with the dense jax.hessian and, new, v^T K w with the
   forward-over-forward directional derivative jvp(jvp(E o create_field)) on the real code on every run.
   (Findings F5/F6 -- pressure-projection options, Newmark with UPredicted <> 0 -- are fixed in /repo and covered by L2.) *)

(* static well-formedness of Mechanics.py (table regenerated from the AST on every run, decided by computation): every
   Module.attr reference resolves, no name is read that is bound nowhere, and every nested element-gradient hook has the arity
   of FunctionSpace.default_modify_element_gradient.  (Refuted before the fix of finding F5; the conditional forms below
   hold for any tree.) *)
Theorem C02_refs_resolve : refs_resolve.
Proof. exact refs_resolve_now. Qed.
Theorem C02_refs_resolve_decided : if refs_all_ok then refs_resolve else refs_broken.
Proof. exact refs_decided. Qed.
Theorem C02_refs_resolve_refuted_when_flagged : refs_all_ok = false -> ~ refs_resolve.
Proof. exact refs_resolve_refuted_when_flag_false. Qed.
Example C02_refs_nonvacuous : 20 <= length attr_refs /\ 1 <= length hook_arities.
Proof. exact refs_nonvacuous. Qed.
(* (round 4: the non-vacuity bound on nested hooks is 1, not 2: a factory that delegates to
   define_pressure_projection_gradient_tranformation, as create_dynamics_functions does, has no nested hook of its own; the calls
   of hook variables are now covered by call_arities below.) *)

(* round 4 -- the kinematic options through EVERY factory (tables regenerated from the AST on every run, decided by computation):
   every top-level function of Mechanics.py with a parameter pressureProjectionDegree (the single-block, multi-block and dynamics
   factories and the helper) tests it only as `is None` / `is not None` (so degree 0 is not mistaken for "no projection"), never
   rebinds it, and reaches volume_average_J_gradient_transformation directly or by passing the parameter unchanged to a function
   that does; every function with a parameter mode2D compares it with both "plane strain" and "axisymmetric" or delegates to one
   that does; every call of a top-level function of the module and of an element-gradient hook variable passes a number of
   arguments the callee accepts.  The conditional forms hold for any tree.
   NOT PROVED: that the factories then compute the SAME projected gradient (semantics of the nested closures): compared on the real
   code by the cross-factory stream (single-block vs multi-block vs dynamics factory on the same mesh, degrees None / 0 / 1, order 2). *)
Theorem C02_option_sites_resolve : sites_resolve.
Proof. exact sites_resolve_now. Qed.
Theorem C02_option_sites_decided : if sites_all_ok then sites_resolve else sites_broken.
Proof. exact sites_decided. Qed.
Theorem C02_option_sites_refuted_when_flagged : sites_all_ok = false -> ~ sites_resolve.
Proof. exact sites_resolve_refuted_when_flag_false. Qed.
Theorem C02_factories_pass_every_degree :
  forall f ln nt nn rb re di, In (f, ln, nt, nn, rb, re, di) pp_sites -> nt = nn /\ rb = 0 /\ re = true.
Proof. exact factories_pass_every_degree. Qed.
Example C02_option_sites_nonvacuous :
  3 <= length (filter is_factory pp_sites) /\ 3 <= length (filter is_mode_factory mode_sites) /\ 20 <= length call_arities.
Proof. exact sites_nonvacuous. Qed.

(* round 4 -- element batching: evaluating the element-Hessian kernel a batch of element ids at a time (gather, map, concatenate,
   truncate to the element count) gives exactly the single-block element Hessians whenever the batches, read in order, list the
   elements 0..n-1 followed only by padding -- for any batch sizes and any padding ids.  This is what the large-mesh stream's
   reference (chunks of 128, last chunk padded with the last id) relies on, and the specification a batched element map must meet;
   windows shifted back to fit (dynamic_slice) violate the hypothesis and the conclusion (batched_clamped_refuted in L_C02_batch.v).
   NOT PROVED / not modelled: jax.vmap / lax.map themselves; /repo has no batching today (plain vmap over all elements). *)
Theorem C02_batched_hessians :
  forall (E M H : Type) (edef : E) (hk : M -> E -> H) (m : M) (elems : list E) (batches : list (list nat)) (pad : list nat),
  concat batches = seq 0 (length elems) ++ pad ->
  batched_map edef (hk m) elems batches = sb_hessians hk elems m.
Proof. exact (@batched_hessians_correct). Qed.
Example C02_batched_nonvacuous :
  concat [[0; 1]; [2; 2]] = seq 0 (length [10; 20; 30]) ++ [2]
  /\ batched_map 0 (fun e => 2 * e) [10; 20; 30] [[0; 1]; [2; 2]] = [20; 40; 60].
Proof. exact batched_nonvacuous. Qed.

Example C02_nonvacuous :
  Forall (el_in_range ex_isBc 2) ex_conns /\ blocks_symmetric 2 ex_conns ex_Ks
  /\ blocks_ok 2 ex_conns (kvals_of 2 ex_conns ex_Ks)
  /\ covers 2 [[1]; [0]] /\ Permutation (concat [[1]; [0]]) (seq 0 2)
  /\ dense_matrix 0%Z Z.add 5 (coo_triples ex_isBc 2 ex_conns (kvals_of 2 ex_conns ex_Ks))
     = [[3; 5; 7; 11; 0]; [5; 37; 54; 32; 71]; [7; 54; 79; 45; 106]; [11; 32; 45; 43; 36]; [0; 71; 106; 36; 176]]%Z.
Proof. exact c02_nonvacuous. Qed.

Print Assumptions C02_assembly_entries.
Print Assumptions C02_assembly_is_restriction.
Print Assumptions C02_assembly_symmetric.
Print Assumptions C02_assembly_is_PtKP.
Print Assumptions C02_blocks_partition.
Print Assumptions C02_integrate_over_block_gather.
Print Assumptions C02_refs_resolve.
Print Assumptions C02_option_sites_resolve.
Print Assumptions C02_hessian_chain.
Print Assumptions C02_hessian_quadratic.
Print Assumptions C02_multiblock_same_material.
