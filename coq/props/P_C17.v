(* C17 -- property theorems only.  Subject: model/M_C17.v `rtsafe` at T := R (or T := Q for the exact witnesses), whose loop
   test and loop body are the kernels regenerated from optimism/ScalarRootFind.py on every run; f, f' are arbitrary.
   NaN is `None`.  Print Assumptions output is parsed by ./check. *)
From Coq Require Import Reals QArith List.
From Coquelicot Require Import Coquelicot.
From OV.base Require Import Num.
From OV.gen Require Import Gen_ScalarRootFind.
From OV.model Require Import M_C17.
From OV.proofs Require Import L_C17.
Import ListNotations.
Local Open Scope R_scope.

(* the Newton in-range product test of the loop body is false exactly when the Newton iterate lies in the closed bracket *)
Theorem C17_newton_in_range_test : forall root xl xh F DF, DF <> 0 ->
  (0 < ((root - xh) * DF - F) * ((root - xl) * DF - F) <-> ~ between xl xh (root - F / DF)).
Proof. exact newton_in_range_test. Qed.
Theorem C17_newton_test_zero_slope : forall root xl xh F,
  (0 < ((root - xh) * 0 - F) * ((root - xl) * 0 - F) <-> F <> 0).
Proof. exact newton_test_zero_slope. Qed.
(* ... and this is how the regenerated body uses it: an accepted Newton step lands in the current bracket and halves the
   residual fast enough; an out-of-range Newton iterate is replaced by the midpoint *)
Theorem C17_newton_accepted_in_bracket : forall (f df : R -> R) x_tol r_tol (c : @carry R),
  ~ zoz c -> ~ bisect_chosen c ->
  c_DF c <> 0 /\ c_root (body (fdf_of f df) x_tol r_tol c) = c_root c - c_F c / c_DF c /\
  between (c_xl c) (c_xh c) (c_root (body (fdf_of f df) x_tol r_tol c)) /\ Rabs (2 * c_F c) <= Rabs (c_dxOld c * c_DF c).
Proof. exact newton_accepted_in_bracket. Qed.
Theorem C17_in_range_newton_accepted : forall (f df : R -> R) x_tol r_tol (c : @carry R), c_DF c <> 0 ->
  between (c_xl c) (c_xh c) (c_root c - c_F c / c_DF c) -> Rabs (2 * c_F c) <= Rabs (c_dxOld c * c_DF c) ->
  c_root (body (fdf_of f df) x_tol r_tol c) = c_root c - c_F c / c_DF c.
Proof. exact in_range_newton_accepted. Qed.
Theorem C17_out_of_range_bisects : forall (f df : R -> R) x_tol r_tol (c : @carry R), c_DF c <> 0 ->
  ~ between (c_xl c) (c_xh c) (c_root c - c_F c / c_DF c) ->
  c_root (body (fdf_of f df) x_tol r_tol c) = c_xl c + (c_xh c - c_xl c) / 2.
Proof. exact out_of_range_bisects. Qed.

(* bracket invariant: with a sign change, every iterate (any guess, either orientation) keeps f xl < 0 <= f xh, the bracket ends
   and the iterate inside [min b0 b1, max b0 b1], and F, DF are the oracle values at the iterate *)
Theorem C17_bracket_invariant : forall (f df : R -> R) x_tol r_tol n x0 b0 b1, f b0 * f b1 < 0 ->
  forall c, iterate_of f df x_tol r_tol n x0 b0 b1 c -> Inv f df (Rmin b0 b1) (Rmax b0 b1) c.
Proof. exact bracket_invariant. Qed.
Theorem C17_result_in_bracket : forall (f df : R -> R) x_tol r_tol n x0 b0 b1 v cv it F dx w, f b0 * f b1 < 0 ->
  rtsafe f df x0 b0 b1 n x_tol r_tol = Res (Some v) cv it F dx w ->
  Rmin b0 b1 <= v <= Rmax b0 b1 /\
  exists xl xh, between xl xh v /\ f xl < 0 <= f xh /\ Rmin b0 b1 <= xl <= Rmax b0 b1 /\ Rmin b0 b1 <= xh <= Rmax b0 b1.
Proof. exact result_in_bracket. Qed.
Theorem C17_root_in_final_bracket : forall (f df : R -> R) x_tol r_tol n x0 b0 b1 v cv it F dx w,
  continuity f -> f b0 * f b1 < 0 ->
  rtsafe f df x0 b0 b1 n x_tol r_tol = Res (Some v) cv it F dx w ->
  exists xl xh z, between xl xh v /\ between xl xh z /\ f z = 0 /\
                  Rmin b0 b1 <= xl <= Rmax b0 b1 /\ Rmin b0 b1 <= xh <= Rmax b0 b1.
Proof. exact root_in_final_bracket. Qed.

(* result contract: the fuel max_iters always suffices; non-NaN <-> converged; NaN by "not bracketed" exactly when there is
   neither a sign change nor an end point with |f| <= r_tol (with r_tol = 0: an exact root) -- whatever f does with NaN (final
   mask); end points and the clipped guess that already meet the residual tolerance are returned untouched (right end first);
   with 0 <= r_tol an iterate with F = 0 stops the iteration, the 0/0 state is never reached; residual = f at the result.
   Sign change: the code tests sign(fl)*sign(fh) < 0; over R this is fl*fh < 0 (L_C17.sign_test_R); that the two differ in
   binary64 when the product underflows is covered by the correspondence streams with residual magnitudes 1e-200..1e-300. *)
Theorem C17_never_out_of_fuel : forall (f df : R -> R) x_tol r_tol n x0 b0 b1,
  rtsafe f df x0 b0 b1 n x_tol r_tol <> OutOfFuel.
Proof. exact never_out_of_fuel. Qed.
Theorem C17_result_contract : forall (f df : R -> R) x_tol r_tol n x0 b0 b1 x cv it F dx w,
  rtsafe f df x0 b0 b1 n x_tol r_tol = Res x cv it F dx w ->
  (x <> None <-> cv = true) /\ (cv = true <-> w = Converged) /\
  (w = NotBracketed <-> (~ (f b0 * f b1 < 0) /\ r_tol < Rabs (f b0) /\ r_tol < Rabs (f b1))) /\
  (Rabs (f b1) <= r_tol -> x = Some b1 /\ it = 0) /\
  (Rabs (f b0) <= r_tol -> r_tol < Rabs (f b1) -> x = Some b0 /\ it = 0) /\
  (f b0 * f b1 < 0 -> r_tol < Rabs (f b0) -> r_tol < Rabs (f b1) -> Rabs (f (clipR x0 b0 b1)) <= r_tol ->
     x = Some (clipR x0 b0 b1) /\ it = 0) /\
  (w = IterCap -> INR n <= it) /\
  (0 <= r_tol -> w <> ZeroOverZero) /\
  (forall v, x = Some v -> F = f v).
Proof. exact result_contract. Qed.
Theorem C17_sign_test_is_product_test : forall a b : R,
  Rltb (@nmul R NumR (nsign a) (nsign b)) (@nzero R NumR) = Rltb (a * b) 0.
Proof. exact sign_test_R. Qed.
Theorem C17_converged_reason : forall (f df : R -> R) x_tol r_tol n x0 b0 b1 v it F dx,
  rtsafe f df x0 b0 b1 n x_tol r_tol = Res (Some v) true it F dx Converged ->
  (it = 0 /\ (v = b0 \/ v = b1 \/ v = clipR x0 b0 b1) /\ Rabs (f v) <= r_tol)
  \/ (exists p, iterate_of f df x_tol r_tol n x0 b0 b1 p /\ c_conv p = false /\ c_i p < INR n /\ ~ zoz p /\ it = c_i p + 1 /\
                v = c_root (body (fdf_of f df) x_tol r_tol p) /\
                (Rabs dx < x_tol \/ Rabs F <= r_tol \/ v = c_root p \/ v = c_xl p)).
Proof. exact converged_reason. Qed.

(* with x_tol <= 0 (the way the J2 update calls the solver) and 0 <= r_tol a bracketed converged run ends on |f| <= r_tol *)
Theorem C17_converged_small_residual : forall (f df : R -> R) x_tol r_tol n x0 b0 b1 v it F dx, x_tol <= 0 -> 0 <= r_tol -> f b0 * f b1 < 0 ->
  rtsafe f df x0 b0 b1 n x_tol r_tol = Res (Some v) true it F dx Converged -> Rabs (f v) <= r_tol.
Proof. exact converged_small_residual. Qed.

(* NOT PROVED (false of the faithful model): "f continuous with a sign change => the result is not NaN and meets the tolerance".
   Refuted in exact arithmetic (the generic model run over reduced rationals), default settings, f = x^3 on [-1,1], guess 0.3:
   Newton converges linearly at a triple root, the safeguard interleaves bisections, 50 iterations do not reach |dx| < 1e-13
   -> NaN (finding F7, open by design; same mechanism as width * 2^-50 > x_tol for steep power laws). *)
Theorem C17_cap_refuted : exists (cs dcs : list Q) (x0 b0 b1 : Q),
  Qlt (@poly Q NumQr cs b0 * @poly Q NumQr cs b1)%Q 0%Q /\
  is_nan_by IterCap (@rtsafe Q NumQr (@poly Q NumQr cs) (@poly Q NumQr dcs) x0 b0 b1 50 (1 # 10000000000000)%Q 0%Q) = true.
Proof. exists cubeQ, dcubeQ, (3 # 10)%Q, (-1)%Q, 1%Q. exact cap_witness. Qed.
(* formerly refuted (finding F7b, fixed by 8aadfbe): a guess exactly at a root with zero slope (F = 0, DF = 0) used to select the
   Newton branch and compute 0/0.  Now positive: an iterate with F = 0 ends the iteration converged (0 <= r_tol), and the old
   witness x^3 on [-1,1] from x0 = 0 returns 0 with zero iterations *)
Theorem C17_zero_slope_root_refuted : forall (f df : R -> R) x_tol r_tol n x0 b0 b1 x cv it F dx w, 0 <= r_tol ->
  rtsafe f df x0 b0 b1 n x_tol r_tol = Res x cv it F dx w -> w <> ZeroOverZero.
Proof. exact no_zero_over_zero. Qed.
Theorem C17_zero_slope_root_witness_converges :
  converges_at 0%Q (@rtsafe Q NumQr (@poly Q NumQr cubeQ) (@poly Q NumQr dcubeQ) 0%Q (-1)%Q 1%Q 50 (1 # 10000000000000)%Q 0%Q) = true.
Proof. exact zero_slope_root_witness. Qed.
(* positive counterpart: a bisection step halves the bracket and |dx|, so in the bisection regime convergence by the cap needs
   width * 2^-max_iters < x_tol *)
Theorem C17_bisection_halves : forall (f df : R -> R) x_tol r_tol lo hi (c : @carry R), Inv f df lo hi c -> bisect_chosen c ->
  let c' := body (fdf_of f df) x_tol r_tol c in
  Rabs (c_xh c' - c_xl c') = Rabs (c_xh c - c_xl c) / 2 /\ Rabs (c_dx c') = Rabs (c_xh c - c_xl c) / 2.
Proof. exact bisection_halves. Qed.

(* differentiability: custom_root's tangent solve y / g(1) inverts the linearised residual, and the implicit function theorem
   fixes the derivative of the root: a x' + b = 0 *)
Theorem C17_tangent_solve : forall a y : R, a <> 0 -> let g := fun t : R => a * t in g (y / g 1) = y.
Proof. exact tangent_solve. Qed.
Theorem C17_ift : forall (F : R -> R -> R) (x : R -> R) (p0 a b dx : R),
  locally p0 (fun p => F (x p) p = 0) ->
  filterdiff (fun xp : R * R => F (fst xp) (snd xp)) (locally (x p0, p0)) (fun h => a * fst h + b * snd h) ->
  is_derive x p0 dx -> a <> 0 ->
  dx = (- b) / a /\ (fun t : R => a * t) ((- b) / (fun t : R => a * t) 1) = - b.
Proof. exact ift_with_tangent_solve. Qed.

(* non-vacuity: a bracketed run of the real model that converges (f = x - 1/2 on [0,1], guess 0, x_tol = 1: one Newton step) *)
Example C17_nonvacuous : exists v it F dx,
  rtsafe (fun x => x - 1 / 2) (fun _ => 1) 0 0 1 1 1 0 = Res (Some v) true it F dx Converged /\ (0 - 1 / 2) * (1 - 1 / 2) < 0.
Proof. exact nonvacuous_run. Qed.

Print Assumptions C17_bracket_invariant.
Print Assumptions C17_result_contract.
Print Assumptions C17_converged_reason.
Print Assumptions C17_root_in_final_bracket.
Print Assumptions C17_cap_refuted.
Print Assumptions C17_ift.
