(* C17 -- property theorems only.  Subject: model/M_C17.v `rtsafe` at T := R (or T := Q for the exact witnesses), whose loop
   test and loop body are the kernels regenerated from optimism/ScalarRootFind.py on every run; f, f' are arbitrary.
   NaN is `None`.  Print Assumptions output is parsed by ./check. *)
From Coq Require Import Reals QArith List.
From Coquelicot Require Import Coquelicot.
From OV.base Require Import Num.
From OV.gen Require Import Gen_ScalarRootFind Gen_C17FindRoot.
From OV.model Require Import M_C17 M_C17d.
From OV.proofs Require Import L_C17 L_C17d L_C17f.
Import ListNotations.
Local Open Scope R_scope.

(* the Newton in-range product test of the loop body is false exactly when the Newton iterate lies in the closed bracket *)
Theorem C17_newton_in_range_test : forall root xl xh F DF, DF <> 0 ->
  (0 < ((root - xh) * DF - F) * ((root - xl) * DF - F) <-> ~ between xl xh (root - F / DF)).
Proof. exact newton_in_range_test. Qed.
Theorem C17_newton_test_zero_slope : forall root xl xh F,
  (0 < ((root - xh) * 0 - F) * ((root - xl) * 0 - F) <-> F <> 0).
Proof. exact newton_test_zero_slope. Qed.
(* ... and this is how the regenerated body uses it: an accepted Newton step lands in the current bracket and halves the
   residual fast enough; an out-of-range Newton iterate is replaced by the midpoint *)
Theorem C17_newton_accepted_in_bracket : forall (f df : R -> R) x_tol r_tol (c : @carry R),
  ~ zoz c -> ~ bisect_chosen c ->
  c_DF c <> 0 /\ c_root (body (fdf_of f df) x_tol r_tol c) = c_root c - c_F c / c_DF c /\
  between (c_xl c) (c_xh c) (c_root (body (fdf_of f df) x_tol r_tol c)) /\ Rabs (2 * c_F c) <= Rabs (c_dxOld c * c_DF c).
Proof. exact newton_accepted_in_bracket. Qed.
Theorem C17_in_range_newton_accepted : forall (f df : R -> R) x_tol r_tol (c : @carry R), c_DF c <> 0 ->
  between (c_xl c) (c_xh c) (c_root c - c_F c / c_DF c) -> Rabs (2 * c_F c) <= Rabs (c_dxOld c * c_DF c) ->
  c_root (body (fdf_of f df) x_tol r_tol c) = c_root c - c_F c / c_DF c.
Proof. exact in_range_newton_accepted. Qed.
Theorem C17_out_of_range_bisects : forall (f df : R -> R) x_tol r_tol (c : @carry R), c_DF c <> 0 ->
  ~ between (c_xl c) (c_xh c) (c_root c - c_F c / c_DF c) ->
  c_root (body (fdf_of f df) x_tol r_tol c) = c_xl c + (c_xh c - c_xl c) / 2.
Proof. exact out_of_range_bisects. Qed.

(* bracket invariant: with a sign change, every iterate (any guess, either orientation) keeps f xl < 0 <= f xh, the bracket ends
   and the iterate inside [min b0 b1, max b0 b1], and F, DF are the oracle values at the iterate *)
Theorem C17_bracket_invariant : forall (f df : R -> R) x_tol r_tol n x0 b0 b1, f b0 * f b1 < 0 ->
  forall c, iterate_of f df x_tol r_tol n x0 b0 b1 c -> Inv f df (Rmin b0 b1) (Rmax b0 b1) c.
Proof. exact bracket_invariant. Qed.
Theorem C17_result_in_bracket : forall (f df : R -> R) x_tol r_tol n x0 b0 b1 v cv it F dx w, f b0 * f b1 < 0 ->
  rtsafe f df x0 b0 b1 n x_tol r_tol = Res (Some v) cv it F dx w ->
  Rmin b0 b1 <= v <= Rmax b0 b1 /\
  exists xl xh, between xl xh v /\ f xl < 0 <= f xh /\ Rmin b0 b1 <= xl <= Rmax b0 b1 /\ Rmin b0 b1 <= xh <= Rmax b0 b1.
Proof. exact result_in_bracket. Qed.
Theorem C17_root_in_final_bracket : forall (f df : R -> R) x_tol r_tol n x0 b0 b1 v cv it F dx w,
  continuity f -> f b0 * f b1 < 0 ->
  rtsafe f df x0 b0 b1 n x_tol r_tol = Res (Some v) cv it F dx w ->
  exists xl xh z, between xl xh v /\ between xl xh z /\ f z = 0 /\
                  Rmin b0 b1 <= xl <= Rmax b0 b1 /\ Rmin b0 b1 <= xh <= Rmax b0 b1.
Proof. exact root_in_final_bracket. Qed.

(* result contract: the fuel max_iters always suffices; non-NaN <-> converged; NaN by "not bracketed" exactly when there is
   neither a sign change nor an end point with |f| <= r_tol (with r_tol = 0: an exact root) -- whatever f does with NaN (final
   mask); end points and the clipped guess that already meet the residual tolerance are returned untouched (right end first);
   with 0 <= r_tol an iterate with F = 0 stops the iteration, the 0/0 state is never reached; residual = f at the result.
   Sign change: the code tests sign(fl)*sign(fh) < 0; over R this is fl*fh < 0 (L_C17.sign_test_R); that the two differ in
   binary64 when the product underflows is covered by the correspondence streams with residual magnitudes 1e-200..1e-300. *)
Theorem C17_never_out_of_fuel : forall (f df : R -> R) x_tol r_tol n x0 b0 b1,
  rtsafe f df x0 b0 b1 n x_tol r_tol <> OutOfFuel.
Proof. exact never_out_of_fuel. Qed.
Theorem C17_result_contract : forall (f df : R -> R) x_tol r_tol n x0 b0 b1 x cv it F dx w,
  rtsafe f df x0 b0 b1 n x_tol r_tol = Res x cv it F dx w ->
  (x <> None <-> cv = true) /\ (cv = true <-> w = Converged) /\
  (w = NotBracketed <-> (~ (f b0 * f b1 < 0) /\ r_tol < Rabs (f b0) /\ r_tol < Rabs (f b1))) /\
  (Rabs (f b1) <= r_tol -> x = Some b1 /\ it = 0) /\
  (Rabs (f b0) <= r_tol -> r_tol < Rabs (f b1) -> x = Some b0 /\ it = 0) /\
  (f b0 * f b1 < 0 -> r_tol < Rabs (f b0) -> r_tol < Rabs (f b1) -> Rabs (f (clipR x0 b0 b1)) <= r_tol ->
     x = Some (clipR x0 b0 b1) /\ it = 0) /\
  (w = IterCap -> INR n <= it) /\
  (0 <= r_tol -> w <> ZeroOverZero) /\
  (forall v, x = Some v -> F = f v).
Proof. exact result_contract. Qed.
Theorem C17_sign_test_is_product_test : forall a b : R,
  Rltb (@nmul R NumR (nsign a) (nsign b)) (@nzero R NumR) = Rltb (a * b) 0.
Proof. exact sign_test_R. Qed.
Theorem C17_converged_reason : forall (f df : R -> R) x_tol r_tol n x0 b0 b1 v it F dx,
  rtsafe f df x0 b0 b1 n x_tol r_tol = Res (Some v) true it F dx Converged ->
  (it = 0 /\ (v = b0 \/ v = b1 \/ v = clipR x0 b0 b1) /\ Rabs (f v) <= r_tol)
  \/ (exists p, iterate_of f df x_tol r_tol n x0 b0 b1 p /\ c_conv p = false /\ c_i p < INR n /\ ~ zoz p /\ it = c_i p + 1 /\
                v = c_root (body (fdf_of f df) x_tol r_tol p) /\
                (Rabs dx < x_tol \/ Rabs F <= r_tol \/ v = c_root p \/ v = c_xl p)).
Proof. exact converged_reason. Qed.

(* with x_tol <= 0 (the way the J2 update calls the solver) and 0 <= r_tol a bracketed converged run ends on |f| <= r_tol *)
Theorem C17_converged_small_residual : forall (f df : R -> R) x_tol r_tol n x0 b0 b1 v it F dx, x_tol <= 0 -> 0 <= r_tol -> f b0 * f b1 < 0 ->
  rtsafe f df x0 b0 b1 n x_tol r_tol = Res (Some v) true it F dx Converged -> Rabs (f v) <= r_tol.
Proof. exact converged_small_residual. Qed.

(* NOT PROVED (false of the faithful model): "f continuous with a sign change => the result is not NaN and meets the tolerance".
   Refuted in exact arithmetic (the generic model run over reduced rationals), default settings, f = x^3 on [-1,1], guess 0.3:
   Newton converges linearly at a triple root, the safeguard interleaves bisections, 50 iterations do not reach |dx| < 1e-13
   -> NaN (finding F7, open by design; same mechanism as width * 2^-50 > x_tol for steep power laws). *)
Theorem C17_cap_refuted : exists (cs dcs : list Q) (x0 b0 b1 : Q),
  Qlt (@poly Q NumQr cs b0 * @poly Q NumQr cs b1)%Q 0%Q /\
  is_nan_by IterCap (@rtsafe Q NumQr (@poly Q NumQr cs) (@poly Q NumQr dcs) x0 b0 b1 50 (1 # 10000000000000)%Q 0%Q) = true.
Proof. exists cubeQ, dcubeQ, (3 # 10)%Q, (-1)%Q, 1%Q. exact cap_witness. Qed.
(* formerly refuted (finding F7b, fixed by 8aadfbe): a guess exactly at a root with zero slope (F = 0, DF = 0) used to select the
   Newton branch and compute 0/0.  Now positive: an iterate with F = 0 ends the iteration converged (0 <= r_tol), and the old
   witness x^3 on [-1,1] from x0 = 0 returns 0 with zero iterations *)
Theorem C17_zero_slope_root_refuted : forall (f df : R -> R) x_tol r_tol n x0 b0 b1 x cv it F dx w, 0 <= r_tol ->
  rtsafe f df x0 b0 b1 n x_tol r_tol = Res x cv it F dx w -> w <> ZeroOverZero.
Proof. exact no_zero_over_zero. Qed.
Theorem C17_zero_slope_root_witness_converges :
  converges_at 0%Q (@rtsafe Q NumQr (@poly Q NumQr cubeQ) (@poly Q NumQr dcubeQ) 0%Q (-1)%Q 1%Q 50 (1 # 10000000000000)%Q 0%Q) = true.
Proof. exact zero_slope_root_witness. Qed.
(* positive counterpart: a bisection step halves the bracket and |dx|, so in the bisection regime convergence by the cap needs
   width * 2^-max_iters < x_tol *)
Theorem C17_bisection_halves : forall (f df : R -> R) x_tol r_tol lo hi (c : @carry R), Inv f df lo hi c -> bisect_chosen c ->
  let c' := body (fdf_of f df) x_tol r_tol c in
  Rabs (c_xh c' - c_xl c') = Rabs (c_xh c - c_xl c) / 2 /\ Rabs (c_dx c') = Rabs (c_xh c - c_xl c) / 2.
Proof. exact bisection_halves. Qed.

(* differentiability: custom_root's tangent solve y / g(1) inverts the linearised residual, and the implicit function theorem
   fixes the derivative of the root: a x' + b = 0 *)
Theorem C17_tangent_solve : forall a y : R, a <> 0 -> let g := fun t : R => a * t in g (y / g 1) = y.
Proof. exact tangent_solve. Qed.
Theorem C17_ift : forall (F : R -> R -> R) (x : R -> R) (p0 a b dx : R),
  locally p0 (fun p => F (x p) p = 0) ->
  filterdiff (fun xp : R * R => F (fst xp) (snd xp)) (locally (x p0, p0)) (fun h => a * fst h + b * snd h) ->
  is_derive x p0 dx -> a <> 0 ->
  dx = (- b) / a /\ (fun t : R => a * t) ((- b) / (fun t : R => a * t) 1) = - b.
Proof. exact ift_with_tangent_solve. Qed.

(* ---- derivative clause over the GENERATED custom_root arguments (gen/Gen_C17FindRoot.v, re-extracted from find_root on every
   run by tools/vlib/extract_c17.py, whatever syntactic form the tangent solve has) ----
   the tangent solve divides by the slope for EVERY non-zero slope, however small (any threshold on |s| breaks this proof; seed
   C17-5), so it inverts every linear map with non-zero slope and is invariant under a rescaling of the residual *)
Theorem C17_gen_tangent_solve : forall s y : R, s <> 0 -> Gen_C17FindRoot.tangent_solve (T:=R) (fun dx => s * dx) y = y / s.
Proof. exact gen_tangent_solve. Qed.
Theorem C17_gen_tangent_solve_inverts : forall (g : R -> R) (y : R), (forall t, g t = g 1 * t) -> g 1 <> 0 ->
  g (Gen_C17FindRoot.tangent_solve (T:=R) g y) = y /\ Gen_C17FindRoot.tangent_solve (T:=R) g y = y / g 1.
Proof. exact gen_tangent_solve_inverts. Qed.
Theorem C17_gen_tangent_solve_scale_invariant : forall c s y : R, c <> 0 -> s <> 0 ->
  Gen_C17FindRoot.tangent_solve (T:=R) (fun dx => (c * s) * dx) (c * y) = Gen_C17FindRoot.tangent_solve (T:=R) (fun dx => s * dx) y.
Proof. exact gen_tangent_solve_scale_invariant. Qed.
(* custom_root's forward rule (model/M_C17d.v:root_jvp = - tangent_solve (t |-> fx t) (fp dp)) gives -fp dp / fx *)
Theorem C17_root_jvp_value : forall fx fp dp : R, fx <> 0 -> root_jvp (T:=R) fx fp dp = - (fp * dp) / fx.
Proof. exact root_jvp_value. Qed.
(* find_root returns custom_root's result untouched (no clamp / rounding of the root: seed C17-2), so its first output is
   differentiable in the returned solution with derivative 1 at EVERY point, bracket ends included; and the custom_root call
   is wired to find_root's own f, x0 and rtsafe_(F, X0, bracket, settings) with has_aux=True (flags read off the AST) *)
Theorem C17_find_root_returns_custom_root : forall (f : R -> R) (x aux x0 b0 b1 mi xt rt : R),
  find_root_post (T:=R) f x aux x0 b0 b1 mi xt rt = (x, aux).
Proof. exact gen_find_root_post_id. Qed.
Theorem C17_custom_root_wiring : custom_root_wiring_ok = true.
Proof. exact wiring_ok. Qed.
(* the derivative of find_root's output in a parameter IS what custom_root's rule computes, and that is the IFT value *)
Theorem C17_find_root_derivative : forall (F : R -> R -> R) (root : R -> R) (p0 a b dx : R) (f : R -> R) (aux x0 b0 b1 mi xt rt : R),
  locally p0 (fun p => F (root p) p = 0) ->
  filterdiff (fun xp : R * R => F (fst xp) (snd xp)) (locally (root p0, p0)) (fun h => a * fst h + b * snd h) ->
  is_derive root p0 dx -> a <> 0 ->
  is_derive (fun p => fst (find_root_post (T:=R) f (root p) aux x0 b0 b1 mi xt rt)) p0 (root_jvp (T:=R) a b 1) /\
  root_jvp (T:=R) a b 1 = - b / a.
Proof. exact find_root_derivative. Qed.
(* end-point roots (goal: derivative clause at a root that is a bracket end): the model returns the end itself with zero
   iterations, find_root's post-processing is the identity there (derivative 1, not the 0 / one-sided value of a clamp) and
   custom_root's rule evaluated at the end gives the implicit-function value -f_p / f_x *)
Theorem C17_endpoint_root_derivative : forall (f df fp : R -> R) x_tol r_tol n x0 b0 b1 x cv it Fv dxv w (aux : R),
  rtsafe f df x0 b0 b1 n x_tol r_tol = Res x cv it Fv dxv w ->
  (Rabs (f b1) <= r_tol \/ (Rabs (f b0) <= r_tol /\ r_tol < Rabs (f b1))) ->
  exists v, x = Some v /\ it = 0 /\ cv = true /\
    ((Rabs (f b1) <= r_tol /\ v = b1) \/ (r_tol < Rabs (f b1) /\ v = b0)) /\
    fst (find_root_post (T:=R) f v aux x0 b0 b1 (INR n) x_tol r_tol) = v /\
    is_derive (fun u => fst (find_root_post (T:=R) f u aux x0 b0 b1 (INR n) x_tol r_tol)) v 1 /\
    (df v <> 0 -> root_jvp (T:=R) (df v) (fp v) 1 = - fp v / df v).
Proof. exact endpoint_root_derivative. Qed.
(* NOT PROVED (trusted / tested only): that jax.lax.custom_root's forward rule is the expression transcribed as M_C17d.root_jvp
   (tied at binary64 to jax.jacfwd of find_root, within 2 ulp, on the scaled-residual stream) and that its reverse rule (jax.grad)
   is the transpose of it (stream only: jax.grad against -f_a/f_x); that the root map is differentiable (hypothesis of
   C17_find_root_derivative; at an end-point root with a FIXED bracket the map p |-> returned value is in general only one-sidedly a
   root map, so the rule's value is the derivative of the root branch, not of a clamped map). *)
Example C17_tiny_slope_nonvacuous :
  Gen_C17FindRoot.tangent_solve (T:=R) (fun dx => (1 / 100000000000000) * dx) (1 / 100000000000000) = 1.
Proof. exact tiny_slope_nonvacuous. Qed.

(* ---- binary64 (the PrimFloat instance of the same model, the one executed bit-for-bit against rtsafe_ run op by op) ----
   for ARBITRARY float oracles f, f' (f' may return NaN) and any settings, by the IEEE comparison laws of FloatAxioms alone:
   one loop body keeps (f xl < 0) = true, (f xh < 0) = false, F = f root, and its iterate is one of the new bracket ends; *)
Theorem C17_binary64_body_keeps_sign_invariant : forall (f df : PrimFloat.float -> PrimFloat.float) (xt rt : PrimFloat.float) (c : @carry PrimFloat.float),
  Inv64 f c -> let c' := body (fun x => (f x, df x)) xt rt c in Inv64 f c' /\ (c_root c' = c_xl c' \/ c_root c' = c_xh c').
Proof. exact body64_inv. Qed.
(* the code's sign test means a strict sign change in binary64; *)
Theorem C17_binary64_sign_test : forall fl fh : PrimFloat.float,
  @nltb PrimFloat.float NumF (nmul (nsign fl) (nsign fh)) (@nzero PrimFloat.float NumF) = true ->
  (PrimFloat.ltb fl nzero = true /\ PrimFloat.ltb fh nzero = false /\ PrimFloat.ltb nzero fh = true) \/
  (PrimFloat.ltb fl nzero = false /\ PrimFloat.ltb nzero fl = true /\ PrimFloat.ltb fh nzero = true).
Proof. exact sign_test_binary64. Qed.
(* hence a non-NaN result of a bracketed run is converged, carries the residual f(result), and is an end of a pair of evaluated
   points with f xl < 0 and not f xh < 0 (0 <= f xh when f xh is not NaN), or the untouched start value *)
Theorem C17_binary64_sign_invariant : forall (f df : PrimFloat.float -> PrimFloat.float) (x0 b0 b1 : PrimFloat.float) (n : nat)
    (xt rt : PrimFloat.float) v cv it Fv dxv w,
  @nltb PrimFloat.float NumF (nmul (nsign (f b0)) (nsign (f b1))) (@nzero PrimFloat.float NumF) = true ->
  @rtsafe PrimFloat.float NumF f df x0 b0 b1 n xt rt = Res (Some v) cv it Fv dxv w ->
  Fv = f v /\ cv = true /\ w = Converged /\
  exists xl xh, PrimFloat.ltb (f xl) nzero = true /\ PrimFloat.ltb (f xh) nzero = false /\
                (PrimFloat.is_nan (f xh) = false -> PrimFloat.leb nzero (f xh) = true) /\
                (v = xl \/ v = xh \/ v = b0 \/ v = b1 \/ v = clip x0 b0 b1).
Proof. exact binary64_sign_invariant. Qed.
Theorem C17_binary64_nan_iff_not_converged : forall (f df : PrimFloat.float -> PrimFloat.float) (x0 b0 b1 : PrimFloat.float) (n : nat)
    (xt rt : PrimFloat.float) x cv it Fv dxv w,
  @rtsafe PrimFloat.float NumF f df x0 b0 b1 n xt rt = Res x cv it Fv dxv w -> (x <> None <-> cv = true) /\ (cv = true <-> w = Converged).
Proof. exact binary64_nan_iff_not_converged. Qed.
(* NOT PROVED (false of the binary64 model): "every iterate and the result lie in [min b0 b1, max b0 b1]" (C17_bracket_invariant /
   C17_result_in_bracket over R).  The rounded range test can accept a Newton step whose rounded iterate is outside: f = s x - 1e-30
   on [0,1] (root 6e-31 inside), guess 0.1172...: (a) with x_tol = 0.25 the run CONVERGES on -1.39e-17 < 0; (b) with the default
   settings the first iterate, and the bracket end xl, become negative (later iterates return).  Reproduced on rtsafe_ executed op by
   op (jax.disable_jit); not reproduced under XLA compilation on CPU, which fuses the multiply-subtract of the range test (finding F7f). *)
Theorem C17_binary64_result_in_bracket_refuted :
  PrimFloat.ltb (feval ovs_f nzero) nzero = true /\ PrimFloat.ltb nzero (feval ovs_f f_one) = true /\
  @nltb PrimFloat.float NumF (nmul (nsign (feval ovs_f nzero)) (nsign (feval ovs_f f_one))) nzero = true /\
  match @rtsafe PrimFloat.float NumF (feval ovs_f) (fdiff ovs_f) ovs_x0 nzero f_one 50 x_tol_quarter nzero with
  | Res (Some v) true _ _ _ Converged => PrimFloat.ltb v nzero
  | _ => false
  end = true.
Proof. exact binary64_result_outside_bracket_witness. Qed.
Theorem C17_binary64_iterate_in_bracket_refuted :
  match init (feval ovs_f) (fdiff ovs_f) ovs_x0 nzero f_one nzero with
  | Some c0 => let c1 := body (fun x => (feval ovs_f x, fdiff ovs_f x)) x_tol_default nzero c0 in
               andb (andb (PrimFloat.eqb (c_xl c0) nzero) (PrimFloat.eqb (c_xh c0) f_one))
                    (andb (PrimFloat.ltb (c_root c1) nzero) (PrimFloat.ltb (c_xl c1) nzero))
  | None => false
  end = true.
Proof. exact binary64_iterate_outside_bracket_witness. Qed.

(* non-vacuity: a bracketed run of the real model that converges (f = x - 1/2 on [0,1], guess 0, x_tol = 1: one Newton step) *)
Example C17_nonvacuous : exists v it F dx,
  rtsafe (fun x => x - 1 / 2) (fun _ => 1) 0 0 1 1 1 0 = Res (Some v) true it F dx Converged /\ (0 - 1 / 2) * (1 - 1 / 2) < 0.
Proof. exact nonvacuous_run. Qed.

Print Assumptions C17_bracket_invariant.
Print Assumptions C17_result_contract.
Print Assumptions C17_converged_reason.
Print Assumptions C17_root_in_final_bracket.
Print Assumptions C17_cap_refuted.
Print Assumptions C17_ift.
Print Assumptions C17_find_root_derivative.
Print Assumptions C17_binary64_sign_invariant.
