(* C04 -- property theorems only.  Subjects: the kernels regenerated from optimism/ConstrainedObjective.py at T := R
   (fischer_burmeister, the nested augmented-Lagrangian `f`) and the outer-loop model of optimism/AlSolver.py
   (model/M_C04_AL.v, tied to the implementation by the trace correspondence of tools/props/c04.py).
   All loop theorems hold for ARBITRARY oracles (sub-problem solver, constraint, AL gradient, second-order update). *)
From Coq Require Import Reals List.
From Coquelicot Require Import Coquelicot.
From OV.base Require Import Num Piecewise.
From OV.gen Require Import Gen_ConstrainedObjective Gen_AlSolver Gen_BoundConstrainedObjective.
From OV.model Require Import M_C04_AL M_C04_BC.
From OV.model Require Import M_C19_CFG.
From OV.gen Require Import CFG_drivers.
From OV.proofs Require Import L_C04 L_C04_CFG L_C04_Upd L_C04_Cvx L_C04_Newton L_C04_BC.
Import ListNotations.
Local Open Scope list_scope.
Local Open Scope R_scope.

(* Fischer-Burmeister residual small => scaled feasibility, multiplier sign, complementarity in the min form *)
Theorem C04_fb_small_implies_complementarity : forall c l k e,
  Rabs (@fischer_burmeister R NumR c l k) <= e ->
  - e <= c * k /\ - e <= l /\ Rmin (c * k) l <= e / (2 - sqrt 2).
Proof. exact fb_small_implies_complementarity. Qed.

Theorem C04_fb_zero_iff_exact_complementarity : forall c l k,
  @fischer_burmeister R NumR c l k = 0 <-> (0 <= c * k /\ 0 <= l /\ (c * k) * l = 0).
Proof. exact fb_zero_iff. Qed.

(* the product form lam*c of the property statement is scale dependent: not bounded by the termination test.
   (This is why the conclusion predicate run on the implementation uses the min form and reports the product separately.) *)
Theorem C04_product_form_unbounded_refuted : forall e k M, 0 < e -> 0 < k -> 0 < M ->
  exists c l, Rabs (@fischer_burmeister R NumR c l k) <= e /\ 0 <= c /\ 0 <= l /\ M <= l * c.
Proof. exact fb_product_unbounded. Qed.

(* the penalty term is C1 in the constraint value across the switch lam = kappa*c; its derivative is minus the updated multiplier *)
Theorem C04_al_penalty_C1 : forall l k, 0 < k ->
  C1_with (fun c => @al_value R NumR (fun _ _ => 0) (fun x _ => x) c 0 l k) (fun c => - Rmax (l - k * c) 0).
Proof. exact pen_C1. Qed.

(* hence grad_x AL = grad f - sum_i max(lam_i - kappa_i c_i, 0) grad c_i, and those effective multipliers are within the
   complementarity error of lam (factor kappa/kappa0 >= 1 after penalty growth) *)
Theorem C04_al_gradient_is_lagrangian_gradient : forall c l k0 k e,
  0 <= l -> 0 < k0 <= k -> Rabs (@fischer_burmeister R NumR c l k0) <= e ->
  Rabs (l - Rmax (l - k * c) 0) <= k / k0 * (e / (2 - sqrt 2)).
Proof. exact effective_multiplier_close. Qed.

(* one outer iteration, arbitrary oracles: multipliers >= 0 after the first-order update; kappa componentwise non-decreasing
   when penalty_scaling >= 1; a return only through the termination test *)
Theorem C04_outer_invariants : forall (cfg : @settings R) (orc : @oracles R) kappa0 it s res ev,
  iteration cfg orc kappa0 it s = (res, ev) -> ((it = 0)%nat \/ nonneg (slam s)) ->
  List.Forall (ev_lam_ok) ev
  /\ match res with
     | inl s' => (newton_only cfg = false -> nonneg (slam s'))
                 /\ (1 <= penalty_scaling cfg -> nonneg (skap s) -> le_vec (skap s) (skap s') /\ nonneg (skap s'))
     | inr (x, lam, kappa) =>
         newton_only cfg = false /\ nonneg lam
         /\ (1 <= penalty_scaling cfg -> nonneg (skap s) -> le_vec (skap s) kappa /\ nonneg kappa)
         /\ norm2 (resid orc kappa0 it x lam kappa) < tol cfg
     end.
Proof. exact iteration_invariants. Qed.

(* every outer iteration the solver goes through, from the initial state, by induction over the history *)
Theorem C04_every_outer_iteration : forall (cfg : @settings R) (orc : @oracles R) kappa0 fuel x lam kappa it2 s2 res ev,
  visits cfg orc kappa0 fuel 0 (init_state x lam kappa) it2 s2 -> iteration cfg orc kappa0 it2 s2 = (res, ev) ->
  newton_only cfg = false -> 1 <= penalty_scaling cfg -> nonneg kappa ->
  match res with
  | inl s' => nonneg (slam s') /\ le_vec (skap s2) (skap s') /\ le_vec kappa (skap s')
  | inr (_, lam', kappa') => nonneg lam' /\ le_vec (skap s2) kappa' /\ le_vec kappa kappa'
  end.
Proof. exact every_iteration. Qed.

Theorem C04_returns_only_from_a_visited_iteration : forall (cfg : @settings R) (orc : @oracles R) kappa0 fuel it s x lam kappa ev,
  loop cfg orc kappa0 fuel it s = (Returned x lam kappa, ev) ->
  exists it2 s2 ev2, visits cfg orc kappa0 fuel it s it2 s2 /\ iteration cfg orc kappa0 it2 s2 = (inr (x, lam, kappa), ev2).
Proof. exact loop_returns_from_visit. Qed.

(* every multiplier shown to the callback from the second outer iteration on, and after every sub-step, is >= 0 *)
Theorem C04_observed_multipliers_nonneg : forall (cfg : @settings R) (orc : @oracles R) kappa0 fuel it s o ev,
  loop cfg orc kappa0 fuel it s = (o, ev) -> newton_only cfg = false -> ((it = 0)%nat \/ nonneg (slam s)) ->
  List.Forall ev_lam_ok ev
  /\ (1 <= penalty_scaling cfg -> nonneg (skap s) ->
      match o with Returned _ _ kappa | NotConverged _ _ kappa => le_vec (skap s) kappa /\ nonneg kappa end)
  /\ match o with
     | Returned x lam kappa => nonneg lam /\ exists it', (it' < it + fuel)%nat /\ norm2 (resid orc kappa0 it' x lam kappa) < tol cfg
     | NotConverged _ _ _ => True
     end.
Proof. exact loop_invariants. Qed.

(* every normal return: multipliers >= 0 exactly, ||grad_x AL|| < tol, and per constraint
   kappa0*c > -tol, lam > -tol, min(kappa0*c, lam) <= tol/(2 - sqrt 2) *)
Theorem C04_return_is_KKT : forall (cfg : @settings R) (orc : @oracles R) kappa0 x0 lam0 kap0 x lam kappa ev,
  al_solve cfg orc kappa0 x0 lam0 kap0 = (Returned x lam kappa, ev) ->
  newton_only cfg = false
  /\ nonneg lam
  /\ (1 <= penalty_scaling cfg -> nonneg kap0 -> le_vec kap0 kappa)
  /\ exists it, (it < max_al_iters cfg)%nat
       /\ @norm2 R NumR (gradAL orc it Sub x lam kappa) < tol cfg
       /\ List.Forall (kkt_row (tol cfg)) (zip3 triple (constraint orc it Sub x) lam kappa0).
Proof. exact al_solve_return_is_KKT. Qed.

(* use_newton_only: multipliers are never projected and the function never returns normally -- outside "admissible" *)
Theorem C04_newton_only_never_returns : forall (cfg : @settings R) (orc : @oracles R) kappa0 fuel it s o ev,
  newton_only cfg = true -> loop cfg orc kappa0 fuel it s = (o, ev) ->
  match o with Returned _ _ _ => False | NotConverged _ _ _ => True end.
Proof. exact newton_only_never_returns. Qed.

(* exact KKT + convex objective + concave constraints (first-order sense) => global constrained minimiser; unique if strict *)
Theorem C04_convex_KKT_is_min : forall (V : Type) (f : V -> R) (df : V -> V -> R) (x : V) (cons : conlist V),
  (forall y, f x + df x y <= f y) -> kkt_exact V df x cons -> concave_cons V x cons ->
  feasible V cons x /\ forall y, feasible V cons y -> f x <= f y.
Proof. exact convex_KKT_is_min. Qed.

Theorem C04_strictly_convex_KKT_is_unique_min : forall (V : Type) (f : V -> R) (df : V -> V -> R) (x : V) (cons : conlist V)
  (neq : V -> V -> Prop),
  (forall y, neq y x -> f x + df x y < f y) -> kkt_exact V df x cons -> concave_cons V x cons ->
  forall y, feasible V cons y -> neq y x -> f x < f y.
Proof. exact strictly_convex_KKT_is_unique_min. Qed.
(* quantitative version: approximate KKT point x (multipliers >= 0, Lagrangian gradient <= eg, possibly slightly infeasible) of a
   problem whose objective is mu-strongly convex (first-order sense, at x and at xs) with concave constraints, against an exact KKT
   point xs with multipliers lam_s, d = |x - xs|:   mu d^2 <= eg d + S + Vi,  so  d <= (eg + sqrt(eg^2 + 4 mu (S + Vi))) / (2 mu),
   S = sum lam_i max(c_i(x),0),  Vi = sum lam_s_i max(-c_i(x),0).  Both are O(tol) by C04_return_is_KKT and C04_product_from_min. *)
Theorem C04_approx_KKT_is_near_min : forall (V : Type) (f : V -> R) (df : V -> V -> R) (x xs : V) (mu eg d : R) (cons cons_s : conlist V),
  0 < mu -> 0 <= eg -> 0 <= d ->
  f x + df x xs + mu / 2 * (d * d) <= f xs ->
  f xs + df xs x + mu / 2 * (d * d) <= f x ->
  Rabs (df x xs - lagr_pairing V x cons xs) <= eg * d ->
  mult_nonneg V cons -> concave_cons V x cons -> feasible V cons xs ->
  kkt_exact V df xs cons_s -> concave_cons V xs cons_s ->
  d <= (eg + sqrt (eg * eg + 4 * mu * (comp_slack V x cons + weighted_violation V x cons_s))) / (2 * mu).
Proof. exact approx_KKT_is_near_min. Qed.

(* ---- the convex clause over LISTS OF R (vectors of length n, gradients as lists, pairing = dot product), tied to the solver's return.
   Problem (f, gf, cs): objective with gradient, constraints c_i >= 0 with gradients (cfun = (c_i, grad c_i)); differentiable-convex
   interface: dconvex / dstrict / dstrong n f gf, dconcave n (c_i, grad c_i) -- first-order inequalities between vectors of length n.
   passes_test n gf cs t x lam kappa kappa0: lam, kappa >= 0, kappa0 > 0, |grad_x AL(x; lam, kappa)| < t with
   grad_x AL = grad f - sum_i max(lam_i - kappa_i c_i, 0) grad c_i (al_gradient; the effective multipliers are the GENERATED update
   statement), and the Fischer-Burmeister rows of C04_return_is_KKT.  Every normal return of the outer-loop model whose oracles AT THE
   RETURNED POINT are this problem's constraint values and AL gradient passes it (arbitrary sub-problem solver / second-order update): *)
Theorem C04_return_passes_test_of_the_problem : forall n (gf : list R -> list R) (cs : list cfun)
    (cfg : @settings R) (orc : @oracles R) kappa0 x0 lam0 kap0 x lam kappa ev,
  al_solve cfg orc kappa0 x0 lam0 kap0 = (Returned x lam kappa, ev) ->
  1 <= penalty_scaling cfg -> nonneg kap0 -> List.Forall (fun a => 0 < a) kappa0 ->
  length x = n -> length lam = length cs -> length kappa = length cs -> length kappa0 = length cs ->
  (forall it, constraint orc it Sub x = cvals cs x) ->
  (forall it, gradAL orc it Sub x lam kappa = al_gradient gf cs x lam kappa) ->
  passes_test n gf cs (tol cfg) x lam kappa kappa0.
Proof. exact al_solve_return_passes_test. Qed.
(* convex objective, concave constraints: a point that passes the test is tol-optimal against EVERY feasible point ... *)
Theorem C04_convex_return_gap : forall n f gf (cs : list cfun), grad_len n gf -> List.Forall (dconcave n) cs ->
  forall t x lam kappa kappa0, dconvex n f gf -> passes_test n gf cs t x lam kappa kappa0 ->
  forall y, length y = n -> feasible_l cs y ->
  f x - f y <= t * @norm2 R NumR (vsub y x) + t / (2 - sqrt 2) * slack_sum (cvals cs x) lam kappa0.
Proof. exact passes_test_gap. Qed.
(* ... and (it may violate constraints by < tol/kappa0) not much better than the constrained minimum either *)
Theorem C04_convex_return_lower : forall n f gf (cs : list cfun), grad_len n gf -> List.Forall (dconcave n) cs ->
  forall t x lam kappa kappa0 xs ls, dconvex n f gf -> passes_test n gf cs t x lam kappa kappa0 -> kkt_point n gf cs xs ls ->
  f xs - f x <= t * mult_sum ls kappa0.
Proof. exact passes_test_lower. Qed.
(* mu-strongly convex objective: explicit O(sqrt tol) distance to the constrained minimiser, all constants from the termination test *)
Theorem C04_strongly_convex_return_near_min : forall n f gf (cs : list cfun), grad_len n gf -> List.Forall (dconcave n) cs ->
  forall t mu x lam kappa kappa0 xs ls, 0 < mu -> dstrong n mu f gf ->
  passes_test n gf cs t x lam kappa kappa0 -> kkt_point n gf cs xs ls ->
  @norm2 R NumR (vsub x xs)
    <= (t + sqrt (t * t + 4 * mu * (t / (2 - sqrt 2) * slack_sum (cvals cs x) lam kappa0 + t * mult_sum ls kappa0))) / (2 * mu).
Proof. exact passes_test_near_min. Qed.
(* tol = 0 over lists: exact KKT point (vector stationarity grad f = sum ls_i grad c_i) = global constrained minimiser; unique if strict *)
Theorem C04_kkt_point_is_min_lists : forall n f gf (cs : list cfun), grad_len n gf -> List.Forall (dconcave n) cs ->
  forall xs ls, dconvex n f gf -> kkt_point n gf cs xs ls ->
  feasible_l cs xs /\ forall y, length y = n -> feasible_l cs y -> f xs <= f y.
Proof. exact kkt_point_is_min. Qed.
Theorem C04_kkt_point_is_unique_min_lists : forall n f gf (cs : list cfun), grad_len n gf -> List.Forall (dconcave n) cs ->
  forall xs ls, dstrict n f gf -> kkt_point n gf cs xs ls ->
  forall y, length y = n -> feasible_l cs y -> y <> xs -> f xs < f y.
Proof. exact kkt_point_is_unique_min. Qed.
(* headline: solver return on a convex problem => tol-optimal *)
Theorem C04_convex_solve_returns_tol_optimal : forall n f gf (cs : list cfun), grad_len n gf -> List.Forall (dconcave n) cs ->
  forall (cfg : @settings R) (orc : @oracles R) kappa0 x0 lam0 kap0 x lam kappa ev,
  al_solve cfg orc kappa0 x0 lam0 kap0 = (Returned x lam kappa, ev) ->
  1 <= penalty_scaling cfg -> nonneg kap0 -> List.Forall (fun a => 0 < a) kappa0 ->
  length x = n -> length lam = length cs -> length kappa = length cs -> length kappa0 = length cs ->
  (forall it, constraint orc it Sub x = cvals cs x) ->
  (forall it, gradAL orc it Sub x lam kappa = al_gradient gf cs x lam kappa) ->
  dconvex n f gf ->
  forall y, length y = n -> feasible_l cs y ->
  f x - f y <= tol cfg * @norm2 R NumR (vsub y x) + tol cfg / (2 - sqrt 2) * slack_sum (cvals cs x) lam kappa0.
Proof. exact al_solve_convex_return_tol_optimal. Qed.
(* Cauchy-Schwarz for the model's norm (np.linalg.norm) *)
Theorem C04_cauchy_schwarz : forall a b, Rabs (dot a b) <= @norm2 R NumR a * @norm2 R NumR b.
Proof. exact abs_dot_le. Qed.
Example C04_convex_lists_nonvacuous :
  grad_len 1 ex_gf /\ dstrong 1 2 ex_f ex_gf /\ dconvex 1 ex_f ex_gf /\ dstrict 1 ex_f ex_gf /\ List.Forall (dconcave 1) [ex_c]
  /\ kkt_point 1 ex_gf [ex_c] [1] [2]
  /\ passes_test 1 ex_gf [ex_c] (1 / 10) [1] [2] [1] [1].
Proof. exact cvx_nonvacuous. Qed.

Theorem C04_product_from_min : forall c l k, 0 < k -> 0 <= c -> 0 <= l -> l * c = Rmin (c * k) l * Rmax (c * k) l / k.
Proof. exact product_from_min. Qed.
(* ---- the state updates over GENERATED code: the three update statements of AlSolver.solve_sub_step are regenerated from the source
   on every run (gen/Gen_AlSolver.v, read per constraint) and the outer-loop model calls them ---- *)
Theorem C04_multiplier_update_generated : forall l k c,
  @sub_lam_update R NumR l k c = Rmax (l - k * c) 0 /\ 0 <= @sub_lam_update R NumR l k c.
Proof. exact multiplier_update_generated. Qed.
Theorem C04_penalty_update_generated : forall k p s,
  @sub_kappa_update R NumR k p s = (if p then s * k else k)
  /\ (1 <= s -> 0 <= k -> k <= @sub_kappa_update R NumR k p s /\ 0 <= @sub_kappa_update R NumR k p s).
Proof. exact penalty_update_generated. Qed.
Theorem C04_poor_progress_generated : forall e old tdf tl m,
  @sub_poor_progress R NumR e old tdf tl m = true <-> Rmax (tdf * old) (10 * tl / sqrt m) < e.
Proof. exact poor_progress_generated. Qed.
(* after EVERY sub-step (arbitrary oracles): the new multipliers are the generated statement applied to (lam, kappa, c(x')) per
   constraint, every new penalty is the generated statement applied to the old one for some flag, untouched when the sub-problem
   solver reported failure; hence lam >= 0 and kappa non-decreasing (penalty_scaling >= 1) follow from the generated code alone *)
Theorem C04_sub_step_by_generated_updates : forall (cfg : @settings R) (orc : @oracles R) kappa0 it x lam kappa ncpOld s' ok ev,
  sub_step cfg orc kappa0 it x lam kappa ncpOld = (s', ok, ev) ->
  slam s' = zip3 (@sub_lam_update R NumR) lam kappa (constraint orc it Sub (sx s'))
  /\ List.Forall2 (fun k k' => exists p, k' = @sub_kappa_update R NumR k p (penalty_scaling cfg)) kappa (skap s')
  /\ (ok = false -> skap s' = kappa).
Proof. exact sub_step_by_generated_updates. Qed.
Theorem C04_generated_updates_invariants : forall s lam kappa c kappa',
  List.Forall2 (fun k k' => exists p, k' = @sub_kappa_update R NumR k p s) kappa kappa' -> 1 <= s -> nonneg kappa ->
  nonneg (zip3 (@sub_lam_update R NumR) lam kappa c) /\ le_vec kappa kappa' /\ nonneg kappa'.
Proof. exact generated_updates_invariants. Qed.

(* ---- bound-constrained front end (hand model bc_solve of BoundConstrainedSolver.bound_constrained_solve around the outer loop) ----
   initial state of BoundConstrainedObjective: multipliers max(g*invScaling, 0) (generated statement) >= 0, penalties 0.25 > 0 *)
Theorem C04_bound_initial_state : forall g,
  nonneg (@bc_initial_lam R NumR g) /\ List.Forall (fun a => 0 < a) (@bc_initial_kappa R NumR g)
  /\ length (@bc_initial_lam R NumR g) = length g /\ length (@bc_initial_kappa R NumR g) = length g.
Proof. exact bc_initial_state. Qed.
(* every normal return of bound_constrained_solve: raw multipliers and get_multipliers() = lam*scaling >= 0 exactly; because the solve
   starts from kappa = constraintKappa (reset_kappa) and penalties never decrease, 0 < kappa0_i <= kappa_i at the return (the
   hypothesis of C04_al_gradient_is_lagrangian_gradient holds by construction); the scaled point passed the termination test *)
Theorem C04_bound_constrained_return : forall (cfg : @settings R) (orc : @oracles R) scaling isc sc_c kappa0 x0 dxBar lam x mult lam' kappa' ev,
  bc_solve cfg orc scaling isc sc_c kappa0 x0 dxBar lam = (BCReturned x mult lam' kappa', ev) ->
  1 <= penalty_scaling cfg -> List.Forall (fun a => 0 < a) kappa0 -> List.Forall (fun a => 0 < a) sc_c ->
  nonneg lam' /\ nonneg mult /\ mult = @vmul R NumR lam' sc_c
  /\ List.Forall2 (fun k0 k => 0 < k0 <= k) kappa0 kappa'
  /\ exists xBar it, x = @vmul R NumR isc xBar /\ (it < max_al_iters cfg)%nat
       /\ @norm2 R NumR (gradAL orc it Sub xBar lam' kappa') < tol cfg
       /\ List.Forall (kkt_row (tol cfg)) (zip3 triple (constraint orc it Sub xBar) lam' kappa0).
Proof. exact bc_solve_return. Qed.
(* ---- the COMPLETE front end: model bc_front of model/M_C04_BC.v (all of bound_constrained_solve: reset_kappa, scaling, the flags
   useWarmStart / updatePrecond / sub_problem_callback, the warm-start increment as an ARBITRARY oracle `warm`, the nested
   augmented_lagrange_solve, invScaling on the way out), with its own event trace; tied to the implementation by the executed trace
   correspondence `bc trace` (real bound_constrained_solve on a real BoundConstrainedObjective, compared event by event).
   Every normal return, for all flags and oracles: the conclusions of C04_bound_constrained_return, and the trace is
   reset_kappa :: a ++ [p := p] ++ b ++ [nested p := p] ++ (events of the nested solve), with no other store to p, no warm start after
   the store, no event of the nested solve before it; the nested solve is al_solve started from kappa = constraintKappa at
   bc_start = scaling*x0 (+ warm increment), and every multiplier it shows is >= 0 *)
Theorem C04_bound_front_end_return : forall (cfg : @settings R) (orc : @oracles R) (warm : list R -> list R) fl
    scaling isc sc_c kappa0 x0 lam x mult lam' kappa' ev,
  bc_front cfg orc warm fl scaling isc sc_c kappa0 x0 lam = (BCReturned x mult lam' kappa', ev) ->
  1 <= penalty_scaling cfg -> List.Forall (fun a => 0 < a) kappa0 -> List.Forall (fun a => 0 < a) sc_c ->
  nonneg lam' /\ nonneg mult /\ mult = @vmul R NumR lam' sc_c
  /\ List.Forall2 (fun k0 k => 0 < k0 <= k) kappa0 kappa'
  /\ (exists xBar it, x = @vmul R NumR isc xBar /\ (it < max_al_iters cfg)%nat
       /\ @norm2 R NumR (gradAL orc it Sub xBar lam' kappa') < tol cfg
       /\ List.Forall (kkt_row (tol cfg)) (zip3 triple (constraint orc it Sub xBar) lam' kappa0))
  /\ exists a b eva xBar,
       ev = BCReset kappa0 :: (a ++ BCAssignP (use_warm_start fl) :: b) ++ [BCNestedAssignP] ++ map (@BCAl R) eva
       /\ existsb (@is_bc_assign R) a = false /\ existsb (@is_bc_assign R) b = false
       /\ existsb (@is_bc_warm R) b = false /\ existsb (@is_bc_al R) (a ++ b) = false
       /\ al_solve cfg orc kappa0 (bc_start warm fl scaling x0) lam kappa0 = (Returned xBar lam' kappa', eva)
       /\ List.Forall (ev_lam_ok) eva.
Proof. exact bc_front_return. Qed.
(* the only other exit is the raise of the nested solve *)
Theorem C04_bound_front_end_exits : forall (cfg : @settings R) (orc : @oracles R) (warm : list R -> list R) fl
    scaling isc sc_c kappa0 x0 lam o ev,
  bc_front cfg orc warm fl scaling isc sc_c kappa0 x0 lam = (o, ev) ->
  match o with
  | BCReturned x mult lam' kappa' => exists xBar eva,
      al_solve cfg orc kappa0 (bc_start warm fl scaling x0) lam kappa0 = (Returned xBar lam' kappa', eva)
      /\ x = @vmul R NumR isc xBar /\ mult = @vmul R NumR lam' sc_c
  | BCNotConverged => exists xBar lam' kappa' eva,
      al_solve cfg orc kappa0 (bc_start warm fl scaling x0) lam kappa0 = (NotConverged xBar lam' kappa', eva)
  end.
Proof. exact bc_front_exits. Qed.
(* refinement: bc_front computes the outcome and the outer-loop trace of the older model bc_solve (dxBar := the warm oracle's answer
   under useWarmStart, the zero vector otherwise), so C04_bound_constrained_return is a statement about the executed model too *)
Theorem C04_bound_front_end_refines_bc_solve : forall (cfg : @settings R) (orc : @oracles R) (warm : list R -> list R) fl
    scaling isc sc_c kappa0 x0 lam,
  let dx := bc_dx warm fl (@vmul R NumR scaling x0) in
  fst (bc_front cfg orc warm fl scaling isc sc_c kappa0 x0 lam) = fst (bc_solve cfg orc scaling isc sc_c kappa0 x0 dx lam)
  /\ snd (bc_front cfg orc warm fl scaling isc sc_c kappa0 x0 lam)
     = BCReset kappa0 :: bc_prologue warm fl scaling x0 ++ [BCNestedAssignP]
         ++ map (@BCAl R) (snd (bc_solve cfg orc scaling isc sc_c kappa0 x0 dx lam)).
Proof. exact bc_front_refines_bc_solve. Qed.
(* non-vacuity: one bound (kappa0 = 5), all three flags on, sub-problem solver answering [1] (bound inactive), zero AL gradient: the first
   outer iteration passes the termination test and the front end returns invScaling * xBar with zero multipliers *)
Example C04_bound_front_end_nonvacuous : exists ev,
  bc_front bcx_cfg bcx_orc (fun _ => [1]) {| use_warm_start := true; update_precond := true; has_sub_callback := true |}
           [2] [1 / 2] [2] [5] [0] [0] = (BCReturned [1 / 2] [0] [0] [5], ev).
Proof. exact bc_front_nonvacuous. Qed.
Example C04_generated_updates_nonvacuous :
  @sub_lam_update R NumR 1 2 3 = 0 /\ @sub_lam_update R NumR 1 2 (-3) = 7 /\ @sub_kappa_update R NumR 2 true 4 = 8
  /\ @sub_poor_progress R NumR 1 1 (3 / 4) (1 / 100) 4 = true /\ @sub_poor_progress R NumR (1 / 2) 1 (3 / 4) (1 / 100) 4 = false.
Proof. exact generated_updates_nonvacuous. Qed.

(* the problem that is solved is the one posed with the parameters of THIS call: on every control-flow path through
   augmented_lagrange_solve and bound_constrained_solve (control-flow IR regenerated from their ASTs on every run; all combinations of
   useWarmStart / updatePrecond / updatePrecondBeforeWarmStart; loops 0/1/2 passes) `objective.p = p` is executed exactly once, after
   every warm start and before the first sub-problem solve, and nothing else stores to .p -- so the oracle values the outer loop
   reads (the `oracles` of the theorems above) are those of the parameters that were passed; every path ends in a return or the raise *)
Theorem C04_parameters_of_this_call_installed_on_every_path : forall ts en,
  In (ts, en) (paths cfg_augmented_lagrange_solve) \/ In (ts, en) (paths cfg_bound_constrained_solve) ->
  (exists a b, ts = a ++ AssignPNew :: b
     /\ existsb is_assignp a = false /\ existsb is_assignp b = false
     /\ existsb is_ws b = false /\ existsb is_solve a = false /\ existsb is_bad ts = false)
  /\ match en with EndRet _ _ _ | EndRaise => True | _ => False end.
Proof. exact parameters_installed_on_every_path. Qed.
Example C04_paths_nonvacuous :
  has_path cfg_augmented_lagrange_solve (fun ts => andb (existsb is_ws ts) (existsb is_solve ts)) = true
  /\ has_path cfg_augmented_lagrange_solve (fun ts => andb (andb (negb (existsb is_ws ts)) (negb (existsb (fun t => match t with UpdatePrecond => true | _ => false end) ts))) (existsb is_solve ts)) = true
  /\ has_path cfg_bound_constrained_solve (fun ts => andb (existsb is_ws ts) (existsb is_solve ts)) = true
  /\ has_path cfg_bound_constrained_solve (fun ts => andb (negb (existsb is_ws ts)) (existsb is_solve ts)) = true.
Proof. exact al_paths_nonvacuous. Qed.

(* NOT PROVED: convergence (that the loop returns at all): NotConverged (the NameError exit) is a legitimate outcome.
   NOT PROVED: that grad_x of the jax-differentiated AL function IS al_gradient (grad f - sum_i max(lam_i - kappa_i c_i, 0) grad c_i): it is
   the oracle hypothesis of the convex-clause theorems over lists (C04_return_passes_test_of_the_problem); its scalar core is proved
   (C04_al_penalty_C1: derivative of the penalty in c is -max(lam - kappa c, 0)), the chain rule through c(x) and the sum over constraints is
   JAX autodiff, MEASURED on every convex end-to-end return (alObjective.gradient(x) against grad f - J^T max(lam - kappa c, 0)).
   The convex clause itself (tol-optimality against every feasible point, lower side, distance to the unique minimiser under strong
   convexity, exact case tol = 0 with uniqueness) is now proved over lists of R and tied to the return of the outer-loop model; what
   remains a hypothesis there is convexity/concavity of the user's functions in the first-order sense (dconvex/dconcave).
   NOT MODELLED (oracles / tested only): the sub-problem solver, linear_update (GMRES: newton_step is an oracle returning (s, exitcode) in
   both the AL model and the globalized_newton_step model; no contract on the GMRES answer is assumed or proved), the warm-start
   increment, jax autodiff of the AL function; the `np.any(poorProgress) and solverSuccess` guard and the evaluation order of
   solve_sub_step are hand-modelled (trace correspondence), only its three update statements are generated code.  The
   bound-constrained front end bc_front is a hand model tied by an EXECUTED trace correspondence (second pass: stream `bc trace`, all
   flag combinations, real and scripted warm start) and by the control-flow IR; WarmStart.warm_start_increment is an oracle in it
   (its CG contract is C19's subject).  globalized_newton_step is a hand model tied by an executed correspondence (result, number of tests, slope and
   residual evaluations) on the real function with newton_step scripted; it is imported but never called by AlSolver.
   ODDITY (first pass), decided: after its LAST cutback (linesearchCount = maxLinesearchIters - 1) globalized_newton_step recomputes the
   residual energy of the shortened step but the loop ends without testing it, and 0.0 (no step) is returned even if that step would
   have passed the sufficient-decrease test.  The model reproduces this (gn_loop with fuel 0 returns None after rEN' was computed) and
   C04_globalized_newton_descent is a statement about returned steps only, so it is unaffected.  It does NOT touch property C04:
   no KKT clause mentions NewtonSolver, AlSolver imports globalized_newton_step but never calls it (checked on the AST by the harness:
   `globalized_newton_step_called_by_AlSolver` = 0 in the evidence), the effect is one wasted residual evaluation and a possibly
   pessimistic "no step" answer, never a wrong step.  Outside the property; no finding filed. *)

(* bound-constrained front end (BoundConstrainedObjective): per constrained dof, with d = scaling > 0, scaled gradient g/d, scaled
   bound d*x >= 0 and multiplier lam, KKT in the scaled variables <=> KKT in the original variables with the multiplier d*lam
   that get_multipliers() returns.  (scaling*invScaling = 1 and get_multipliers() = lam*scaling are checked on the implementation.) *)
Theorem C04_bound_scaling_KKT_transparent : forall d g lam x, 0 < d ->
  (g / d - lam = 0 /\ 0 <= lam /\ 0 <= d * x /\ lam * (d * x) = 0)
  <-> (g - d * lam = 0 /\ 0 <= d * lam /\ 0 <= x /\ (d * lam) * x = 0).
Proof. exact bound_scaling_KKT_transparent. Qed.

(* NewtonSolver.compute_min_p (hand model, tied by correspondence): stays in the bracket and minimises the interpolating parabola *)
Theorem C04_compute_min_p_in_bounds : forall p0 p1 p2 b0 b1, b0 <= b1 -> b0 <= @compute_min_p R NumR p0 p1 p2 b0 b1 <= b1.
Proof. exact compute_min_p_in_bounds. Qed.
Theorem C04_compute_min_p_minimises : forall p0 p1 p2 b0 b1, b0 <= b1 -> 0 < p1 - p0 - p2 ->
  let q := fun s => (p1 - p0 - p2) * s * s + p2 * s + p0 in
  forall s, b0 <= s <= b1 -> q (@compute_min_p R NumR p0 p1 p2 b0 b1) <= q s.
Proof. exact compute_min_p_minimises. Qed.

(* NewtonSolver.globalized_newton_step (hand model, Section GNewton of model/M_C04_AL.v, tied by an executed correspondence on the real
   function; oracles: residual, the GMRES Newton step, the directional slope from jax).  Descent lemma: whenever a step is returned,
   GMRES did not report failure, the step is the Newton step scaled by c in [0.01^k, 0.5^k] after k < maxLinesearchIters cutbacks
   (every factor from compute_min_p on [0.01, 0.5]), the forcing term in force satisfies etak <= etak' < 1, and the residual energy
   0.5|r|^2 at x+s is below (1 - t(1 - etak')) times the one at x -- in particular strictly below it. *)
Theorem C04_globalized_newton_descent : forall (orc : @gn_oracles R) x etak t maxLs s ev,
  globalized_newton_step orc x etak t maxLs = (Some s, ev) -> 0 < t -> etak < 1 ->
  snd (gn_newton orc) = false
  /\ exists k c etak', (k < maxLs)%nat /\ s = @vscale R NumR c (fst (gn_newton orc)) /\ (1 / 100) ^ k <= c <= (1 / 2) ^ k
     /\ etak <= etak' < 1
     /\ renergy (gn_res orc (S k) (@vadd R NumR x s)) < (1 - t * (1 - etak')) * renergy (gn_res orc 0 x)
     /\ renergy (gn_res orc (S k) (@vadd R NumR x s)) < renergy (gn_res orc 0 x).
Proof. exact gn_descent. Qed.
Example C04_globalized_newton_nonvacuous :
  let orc := {| gn_res := fun site _ => match site with O => [2] | _ => [1] end; gn_newton := ([1], false); gn_slope := fun _ _ => -1 |} in
  exists ev, @globalized_newton_step R NumR orc [0] (1 / 1000) (1 / 10000) 4 = (Some [1], ev).
Proof. exact gn_nonvacuous. Qed.

Example C04_nonvacuous : Rabs (FB 0 3 2) <= 0 /\ FB 1 0 5 = 0.
Proof. exact C04_nonvacuous_fb. Qed.
Example C04_approx_KKT_nonvacuous :
  let x := 11 / 10 in let xs := 1 in
  let cons := [(22 / 10, (fun y : R => y - 1), (fun y z : R => z - y))] in
  let cons_s := [(2, (fun y : R => y - 1), (fun y z : R => z - y))] in
  kkt_exact R (fun y z => 2 * y * (z - y)) xs cons_s /\ concave_cons R xs cons_s /\ concave_cons R x cons /\ feasible R cons xs
  /\ mult_nonneg R cons /\ comp_slack R x cons = 22 / 100.
Proof. exact approx_KKT_nonvacuous. Qed.
Example C04_convex_nonvacuous :
  let cons := [(2, (fun x : R => x - 1), (fun x y : R => y - x))] in
  kkt_exact R (fun x y => 2 * x * (y - x)) 1 cons /\ concave_cons R 1 cons /\ (forall y, 1 * 1 + 2 * 1 * (y - 1) <= y * y).
Proof. exact C04_nonvacuous_convex. Qed.

Print Assumptions C04_fb_small_implies_complementarity.
Print Assumptions C04_al_penalty_C1.
Print Assumptions C04_every_outer_iteration.
Print Assumptions C04_return_is_KKT.
Print Assumptions C04_convex_KKT_is_min.
Print Assumptions C04_approx_KKT_is_near_min.
Print Assumptions C04_bound_constrained_return.
Print Assumptions C04_bound_front_end_return.
Print Assumptions C04_convex_solve_returns_tol_optimal.
Print Assumptions C04_globalized_newton_descent.
