(* C04 -- property theorems only.  Subjects: the kernels regenerated from optimism/ConstrainedObjective.py at T := R
   (fischer_burmeister, the nested augmented-Lagrangian `f`) and the outer-loop model of optimism/AlSolver.py
   (model/M_C04_AL.v, tied to the implementation by the trace correspondence of tools/props/c04.py).
   All loop theorems hold for ARBITRARY oracles (sub-problem solver, constraint, AL gradient, second-order update). *)
From Coq Require Import Reals List.
From Coquelicot Require Import Coquelicot.
From OV.base Require Import Num Piecewise.
From OV.gen Require Import Gen_ConstrainedObjective.
From OV.model Require Import M_C04_AL.
From OV.proofs Require Import L_C04.
Import ListNotations.
Local Open Scope R_scope.

(* Fischer-Burmeister residual small => scaled feasibility, multiplier sign, complementarity in the min form *)
Theorem C04_fb_small_implies_complementarity : forall c l k e,
  Rabs (@fischer_burmeister R NumR c l k) <= e ->
  - e <= c * k /\ - e <= l /\ Rmin (c * k) l <= e / (2 - sqrt 2).
Proof. exact fb_small_implies_complementarity. Qed.

Theorem C04_fb_zero_iff_exact_complementarity : forall c l k,
  @fischer_burmeister R NumR c l k = 0 <-> (0 <= c * k /\ 0 <= l /\ (c * k) * l = 0).
Proof. exact fb_zero_iff. Qed.

(* the product form lam*c of the property statement is scale dependent: not bounded by the termination test.
   (This is why the conclusion predicate run on the implementation uses the min form and reports the product separately.) *)
Theorem C04_product_form_unbounded_refuted : forall e k M, 0 < e -> 0 < k -> 0 < M ->
  exists c l, Rabs (@fischer_burmeister R NumR c l k) <= e /\ 0 <= c /\ 0 <= l /\ M <= l * c.
Proof. exact fb_product_unbounded. Qed.

(* the penalty term is C1 in the constraint value across the switch lam = kappa*c; its derivative is minus the updated multiplier *)
Theorem C04_al_penalty_C1 : forall l k, 0 < k ->
  C1_with (fun c => @al_value R NumR (fun _ _ => 0) (fun x _ => x) c 0 l k) (fun c => - Rmax (l - k * c) 0).
Proof. exact pen_C1. Qed.

(* hence grad_x AL = grad f - sum_i max(lam_i - kappa_i c_i, 0) grad c_i, and those effective multipliers are within the
   complementarity error of lam (factor kappa/kappa0 >= 1 after penalty growth) *)
Theorem C04_al_gradient_is_lagrangian_gradient : forall c l k0 k e,
  0 <= l -> 0 < k0 <= k -> Rabs (@fischer_burmeister R NumR c l k0) <= e ->
  Rabs (l - Rmax (l - k * c) 0) <= k / k0 * (e / (2 - sqrt 2)).
Proof. exact effective_multiplier_close. Qed.

(* one outer iteration, arbitrary oracles: multipliers >= 0 after the first-order update; kappa componentwise non-decreasing
   when penalty_scaling >= 1; a return only through the termination test *)
Theorem C04_outer_invariants : forall (cfg : @settings R) (orc : @oracles R) kappa0 it s res ev,
  iteration cfg orc kappa0 it s = (res, ev) -> ((it = 0)%nat \/ nonneg (slam s)) ->
  List.Forall (ev_lam_ok) ev
  /\ match res with
     | inl s' => (newton_only cfg = false -> nonneg (slam s'))
                 /\ (1 <= penalty_scaling cfg -> nonneg (skap s) -> le_vec (skap s) (skap s') /\ nonneg (skap s'))
     | inr (x, lam, kappa) =>
         newton_only cfg = false /\ nonneg lam
         /\ (1 <= penalty_scaling cfg -> nonneg (skap s) -> le_vec (skap s) kappa /\ nonneg kappa)
         /\ norm2 (resid orc kappa0 it x lam kappa) < tol cfg
     end.
Proof. exact iteration_invariants. Qed.

(* every outer iteration the solver goes through, from the initial state, by induction over the history *)
Theorem C04_every_outer_iteration : forall (cfg : @settings R) (orc : @oracles R) kappa0 fuel x lam kappa it2 s2 res ev,
  visits cfg orc kappa0 fuel 0 (init_state x lam kappa) it2 s2 -> iteration cfg orc kappa0 it2 s2 = (res, ev) ->
  newton_only cfg = false -> 1 <= penalty_scaling cfg -> nonneg kappa ->
  match res with
  | inl s' => nonneg (slam s') /\ le_vec (skap s2) (skap s') /\ le_vec kappa (skap s')
  | inr (_, lam', kappa') => nonneg lam' /\ le_vec (skap s2) kappa' /\ le_vec kappa kappa'
  end.
Proof. exact every_iteration. Qed.

Theorem C04_returns_only_from_a_visited_iteration : forall (cfg : @settings R) (orc : @oracles R) kappa0 fuel it s x lam kappa ev,
  loop cfg orc kappa0 fuel it s = (Returned x lam kappa, ev) ->
  exists it2 s2 ev2, visits cfg orc kappa0 fuel it s it2 s2 /\ iteration cfg orc kappa0 it2 s2 = (inr (x, lam, kappa), ev2).
Proof. exact loop_returns_from_visit. Qed.

(* every multiplier shown to the callback from the second outer iteration on, and after every sub-step, is >= 0 *)
Theorem C04_observed_multipliers_nonneg : forall (cfg : @settings R) (orc : @oracles R) kappa0 fuel it s o ev,
  loop cfg orc kappa0 fuel it s = (o, ev) -> newton_only cfg = false -> ((it = 0)%nat \/ nonneg (slam s)) ->
  List.Forall ev_lam_ok ev
  /\ (1 <= penalty_scaling cfg -> nonneg (skap s) ->
      match o with Returned _ _ kappa | NotConverged _ _ kappa => le_vec (skap s) kappa /\ nonneg kappa end)
  /\ match o with
     | Returned x lam kappa => nonneg lam /\ exists it', (it' < it + fuel)%nat /\ norm2 (resid orc kappa0 it' x lam kappa) < tol cfg
     | NotConverged _ _ _ => True
     end.
Proof. exact loop_invariants. Qed.

(* every normal return: multipliers >= 0 exactly, ||grad_x AL|| < tol, and per constraint
   kappa0*c > -tol, lam > -tol, min(kappa0*c, lam) <= tol/(2 - sqrt 2) *)
Theorem C04_return_is_KKT : forall (cfg : @settings R) (orc : @oracles R) kappa0 x0 lam0 kap0 x lam kappa ev,
  al_solve cfg orc kappa0 x0 lam0 kap0 = (Returned x lam kappa, ev) ->
  newton_only cfg = false
  /\ nonneg lam
  /\ (1 <= penalty_scaling cfg -> nonneg kap0 -> le_vec kap0 kappa)
  /\ exists it, (it < max_al_iters cfg)%nat
       /\ @norm2 R NumR (gradAL orc it Sub x lam kappa) < tol cfg
       /\ List.Forall (kkt_row (tol cfg)) (zip3 triple (constraint orc it Sub x) lam kappa0).
Proof. exact al_solve_return_is_KKT. Qed.

(* use_newton_only: multipliers are never projected and the function never returns normally -- outside "admissible" *)
Theorem C04_newton_only_never_returns : forall (cfg : @settings R) (orc : @oracles R) kappa0 fuel it s o ev,
  newton_only cfg = true -> loop cfg orc kappa0 fuel it s = (o, ev) ->
  match o with Returned _ _ _ => False | NotConverged _ _ _ => True end.
Proof. exact newton_only_never_returns. Qed.

(* exact KKT + convex objective + concave constraints (first-order sense) => global constrained minimiser; unique if strict *)
Theorem C04_convex_KKT_is_min : forall (V : Type) (f : V -> R) (df : V -> V -> R) (x : V) (cons : conlist V),
  (forall y, f x + df x y <= f y) -> kkt_exact V df x cons -> concave_cons V x cons ->
  feasible V cons x /\ forall y, feasible V cons y -> f x <= f y.
Proof. exact convex_KKT_is_min. Qed.

Theorem C04_strictly_convex_KKT_is_unique_min : forall (V : Type) (f : V -> R) (df : V -> V -> R) (x : V) (cons : conlist V)
  (neq : V -> V -> Prop),
  (forall y, neq y x -> f x + df x y < f y) -> kkt_exact V df x cons -> concave_cons V x cons ->
  forall y, feasible V cons y -> neq y x -> f x < f y.
Proof. exact strictly_convex_KKT_is_unique_min. Qed.
(* quantitative version: approximate KKT point x (multipliers >= 0, Lagrangian gradient <= eg, possibly slightly infeasible) of a
   problem whose objective is mu-strongly convex (first-order sense, at x and at xs) with concave constraints, against an exact KKT
   point xs with multipliers lam_s, d = |x - xs|:   mu d^2 <= eg d + S + Vi,  so  d <= (eg + sqrt(eg^2 + 4 mu (S + Vi))) / (2 mu),
   S = sum lam_i max(c_i(x),0),  Vi = sum lam_s_i max(-c_i(x),0).  Both are O(tol) by C04_return_is_KKT and C04_product_from_min. *)
Theorem C04_approx_KKT_is_near_min : forall (V : Type) (f : V -> R) (df : V -> V -> R) (x xs : V) (mu eg d : R) (cons cons_s : conlist V),
  0 < mu -> 0 <= eg -> 0 <= d ->
  f x + df x xs + mu / 2 * (d * d) <= f xs ->
  f xs + df xs x + mu / 2 * (d * d) <= f x ->
  Rabs (df x xs - lagr_pairing V x cons xs) <= eg * d ->
  mult_nonneg V cons -> concave_cons V x cons -> feasible V cons xs ->
  kkt_exact V df xs cons_s -> concave_cons V xs cons_s ->
  d <= (eg + sqrt (eg * eg + 4 * mu * (comp_slack V x cons + weighted_violation V x cons_s))) / (2 * mu).
Proof. exact approx_KKT_is_near_min. Qed.

Theorem C04_product_from_min : forall c l k, 0 < k -> 0 <= c -> 0 <= l -> l * c = Rmin (c * k) l * Rmax (c * k) l / k.
Proof. exact product_from_min. Qed.
(* NOT PROVED: convergence (that the loop returns at all): NotConverged (the NameError exit) is a legitimate outcome. *)

(* bound-constrained front end (BoundConstrainedObjective): per constrained dof, with d = scaling > 0, scaled gradient g/d, scaled
   bound d*x >= 0 and multiplier lam, KKT in the scaled variables <=> KKT in the original variables with the multiplier d*lam
   that get_multipliers() returns.  (scaling*invScaling = 1 and get_multipliers() = lam*scaling are checked on the implementation.) *)
Theorem C04_bound_scaling_KKT_transparent : forall d g lam x, 0 < d ->
  (g / d - lam = 0 /\ 0 <= lam /\ 0 <= d * x /\ lam * (d * x) = 0)
  <-> (g - d * lam = 0 /\ 0 <= d * lam /\ 0 <= x /\ (d * lam) * x = 0).
Proof. exact bound_scaling_KKT_transparent. Qed.

(* NewtonSolver.compute_min_p (hand model, tied by correspondence): stays in the bracket and minimises the interpolating parabola *)
Theorem C04_compute_min_p_in_bounds : forall p0 p1 p2 b0 b1, b0 <= b1 -> b0 <= @compute_min_p R NumR p0 p1 p2 b0 b1 <= b1.
Proof. exact compute_min_p_in_bounds. Qed.
Theorem C04_compute_min_p_minimises : forall p0 p1 p2 b0 b1, b0 <= b1 -> 0 < p1 - p0 - p2 ->
  let q := fun s => (p1 - p0 - p2) * s * s + p2 * s + p0 in
  forall s, b0 <= s <= b1 -> q (@compute_min_p R NumR p0 p1 p2 b0 b1) <= q s.
Proof. exact compute_min_p_minimises. Qed.

Example C04_nonvacuous : Rabs (FB 0 3 2) <= 0 /\ FB 1 0 5 = 0.
Proof. exact C04_nonvacuous_fb. Qed.
Example C04_approx_KKT_nonvacuous :
  let x := 11 / 10 in let xs := 1 in
  let cons := [(22 / 10, (fun y : R => y - 1), (fun y z : R => z - y))] in
  let cons_s := [(2, (fun y : R => y - 1), (fun y z : R => z - y))] in
  kkt_exact R (fun y z => 2 * y * (z - y)) xs cons_s /\ concave_cons R xs cons_s /\ concave_cons R x cons /\ feasible R cons xs
  /\ mult_nonneg R cons /\ comp_slack R x cons = 22 / 100.
Proof. exact approx_KKT_nonvacuous. Qed.
Example C04_convex_nonvacuous :
  let cons := [(2, (fun x : R => x - 1), (fun x y : R => y - x))] in
  kkt_exact R (fun x y => 2 * x * (y - x)) 1 cons /\ concave_cons R 1 cons /\ (forall y, 1 * 1 + 2 * 1 * (y - 1) <= y * y).
Proof. exact C04_nonvacuous_convex. Qed.

Print Assumptions C04_fb_small_implies_complementarity.
Print Assumptions C04_al_penalty_C1.
Print Assumptions C04_every_outer_iteration.
Print Assumptions C04_return_is_KKT.
Print Assumptions C04_convex_KKT_is_min.
Print Assumptions C04_approx_KKT_is_near_min.
