(* C13 -- mesh construction, merging, reading and order elevation keep meshes valid: property theorems only.
   Subjects: hand models of optimism/Mesh.py (create_structured_mesh_data, create_edges, combine_mesh and helpers,
   create_higher_order_mesh_from_simplex_mesh: connectivity write log and stacked coordinate array) and of the readers as
   functions of the whole file content (ReadExodusMesh.py, ReadMesh.py), tied to /repo by exact comparison (integers) and
   binary64 execution (coordinates) on every run (tools/props/c13.py). *)
From Coq Require Import List Arith ZArith Reals.
From OV.base Require Import Num.
From Coq Require Import QArith Qreals.
Close Scope Q_scope.
From OV.model Require Import M_C13_Struct M_C13_Edges M_C13_Combine M_C13_Read M_C13_Elevate M_C13_Coords M_C13_ElevMesh M_C13_ReadFile M_C13_ReadChk M_C13_Jac.
From OV.proofs Require Import L_C13_Struct L_C13_Edges L_C13_Combine L_C13_Read L_C13_Top L_C13_Elevate L_C13_Elev2 L_C13_Elev3 L_C13_Coords L_C13_ElevMesh L_C13_ReadFile L_C13_ReadChk L_C13_Jac.
Import ListNotations.

(* ---- structured generator: in-range connectivity using every node, counter-clockwise elements of positive area,
        2(Nx-1)(Ny-1) elements, block_0 = all elements.  xs, ys are the (strictly increasing) linspace arrays. *)
Theorem C13_structured_valid : forall Nx Ny (xs ys : nat -> R), 2 <= Nx -> 2 <= Ny ->
  (forall i, S i < Nx -> (xs i < xs (S i))%R) -> (forall j, S j < Ny -> (ys j < ys (S j))%R) ->
  let conns := struct_conns Nx Ny in
  let coords := struct_coords Nx Ny xs ys in
  length conns = 2 * (Nx - 1) * (Ny - 1)
  /\ length coords = Ny * Nx
  /\ (forall t, In t conns -> length t = 3 /\ forall i, In i t -> i < length coords)
  /\ (forall n, n < length coords -> exists t, In t conns /\ In n t)
  /\ (forall t, In t conns -> exists q, @tri_area2 R NumR coords t = Some q /\ (0 < q)%R)
  /\ struct_block0 Nx Ny = seq 0 (length conns).
Proof. exact structured_valid. Qed.
Theorem C13_structured_area : forall Nx Ny (xs ys : nat -> R) t,
  (forall i, S i < Nx -> (xs i < xs (S i))%R) -> (forall j, S j < Ny -> (ys j < ys (S j))%R) ->
  In t (struct_conns Nx Ny) ->
  exists ex ey, ex < Nx - 1 /\ ey < Ny - 1 /\
    @tri_area2 R NumR (struct_coords Nx Ny xs ys) t = Some ((xs (S ex) - xs ex) * (ys (S ey) - ys ey))%R
    /\ (0 < (xs (S ex) - xs ex) * (ys (S ey) - ys ey))%R.
Proof. exact struct_ccw. Qed.

(* ---- edge extraction, for EVERY connectivity table: each undirected edge exactly once; the left element holds the
        row's directed pair on the recorded side (so a boundary edge has its owner's orientation, counter-clockwise when
        the element is); the right element holds the reversed pair, and None (-1,-1) is returned only if no triangle does *)
Theorem C13_edges_once : forall conns,
  NoDup (map edge_key (create_edges conns))
  /\ (forall f, In f (all_faces conns) -> In (key f) (map edge_key (create_edges conns)))
  /\ (forall r, In r (create_edges conns) -> In (e_a r, e_b r) (all_faces conns)).
Proof. exact edges_once. Qed.
Theorem C13_edges_adjacency : forall conns r, In r (create_edges conns) ->
  holds conns (e_tl r) (e_pl r) (e_a r, e_b r)
  /\ match e_right r with
     | Some (t, p) => holds conns t p (e_b r, e_a r)
     | None => forall t p, ~ holds conns t p (e_b r, e_a r)
     end.
Proof. exact edges_adjacency. Qed.
(* for a consistently oriented manifold triangulation (no directed pair twice) the left and right holders are unique *)
Theorem C13_edges_unique_holder : forall conns t p t' p' f,
  NoDup (all_faces conns) -> holds conns t p f -> holds conns t' p' f -> t = t' /\ p = p'.
Proof. exact holder_unique. Qed.

(* ---- merging: offsets, ranges, nothing lost *)
Theorem C13_combine_offsets : forall (m1 m2 : cmesh R),
  let m := combine_mesh m1 m2 in
  let n1 := length (cm_coords m1) in let n2 := length (cm_coords m2) in
  (length (cm_coords m) = n1 + n2 /\ length (cm_conns m) = length (cm_conns m1) + length (cm_conns m2))
  /\ cm_conns m = cm_conns m1 ++ map (map (Nat.add n1)) (cm_conns m2)
  /\ (Forall (Forall (fun i => i < n1)) (cm_conns m1) -> Forall (Forall (fun i => i < n2)) (cm_conns m2) ->
      Forall (Forall (fun i => i < n1 + n2)) (cm_conns m))
  /\ ((forall n, n < n1 -> exists t, In t (cm_conns m1) /\ In n t) -> (forall n, n < n2 -> exists t, In t (cm_conns m2) /\ In n t) ->
      forall n, n < n1 + n2 -> exists t, In t (cm_conns m) /\ In n t)
  /\ (forall t, Forall (fun i => i < n1) t -> @tri_area2 R NumR (cm_coords m) t = @tri_area2 R NumR (cm_coords m1) t)
  /\ (forall t, @tri_area2 R NumR (cm_coords m) (shift n1 t) = @tri_area2 R NumR (cm_coords m2) t).
Proof.
  intros m1 m2. cbv zeta. split; [apply combine_counts |]. split; [reflexivity |]. split; [apply combine_in_range |].
  split; [apply combine_every_node_used |]. split; [apply combine_area_first | apply combine_area_second].
Qed.
(* NO member is lost, for ANY names (distinct or equal; repaired code 157ff14 concatenates on equal names): every element
   of a first-mesh block and every shifted element of a second-mesh block is found under its name, the member count adds
   up, members stay in range.  [NoDup] is the dict invariant of the FIRST mesh's own dict (keys of one dict are unique). *)
Theorem C13_combine_blocks_no_loss : forall (m1 m2 : cmesh R), NoDup (map fst (cm_blocks m1)) ->
  (forall k v, In (k, v) (cm_blocks m1) -> exists v', dget (cm_blocks (combine_mesh m1 m2)) k = Some v' /\ forall e, In e v -> In e v')
  /\ (forall k v, In (k, v) (cm_blocks m2) ->
        exists v', dget (cm_blocks (combine_mesh m1 m2)) k = Some v' /\ forall e, In e v -> In (length (cm_conns m1) + e) v')
  /\ members (cm_blocks (combine_mesh m1 m2)) = members (cm_blocks m1) + members (cm_blocks m2).
Proof. exact combine_blocks_no_loss. Qed.
Theorem C13_combine_blocks_in_range : forall (m1 m2 : cmesh R), NoDup (map fst (cm_blocks m1)) ->
  Forall (fun kv => Forall (fun e => e < length (cm_conns m1)) (snd kv)) (cm_blocks m1) ->
  Forall (fun kv => Forall (fun e => e < length (cm_conns m2)) (snd kv)) (cm_blocks m2) ->
  Forall (fun kv => Forall (fun e => e < length (cm_conns (combine_mesh m1 m2))) (snd kv)) (cm_blocks (combine_mesh m1 m2)).
Proof. exact combine_blocks_in_range. Qed.
Theorem C13_combine_nodesets_no_loss : forall (m1 m2 : cmesh R) d1 d2,
  cm_nodesets m1 = Some d1 -> cm_nodesets m2 = Some d2 -> NoDup (map fst d1) ->
  exists d, cm_nodesets (combine_mesh m1 m2) = Some d
  /\ (forall k v, In (k, v) d1 -> exists v', dget d k = Some v' /\ forall x, In x v -> In x v')
  /\ (forall k v, In (k, v) d2 -> exists v', dget d k = Some v' /\ forall x, In x v -> In (length (cm_coords m1) + x) v')
  /\ members d = members d1 + members d2.
Proof. exact combine_nodesets_no_loss. Qed.
Theorem C13_combine_sidesets_no_loss : forall (m1 m2 : cmesh R) d1 d2,
  cm_sidesets m1 = Some d1 -> cm_sidesets m2 = Some d2 -> NoDup (map fst d1) ->
  exists d, cm_sidesets (combine_mesh m1 m2) = Some d
  /\ (forall k v, In (k, v) d1 -> exists v', dget d k = Some v' /\ forall x, In x v -> In x v')
  /\ (forall k v, In (k, v) d2 -> exists v', dget d k = Some v' /\ forall es, In es v -> In (length (cm_conns m1) + fst es, snd es) v')
  /\ members d = members d1 + members d2.
Proof. exact combine_sidesets_no_loss. Qed.
(* with pairwise distinct names, the exact shape: first mesh's blocks followed by the shifted second mesh's blocks *)
Theorem C13_combine_blocks_distinct_names : forall (m1 m2 : cmesh R),
  NoDup (map fst (cm_blocks m1) ++ map fst (cm_blocks m2)) ->
  cm_blocks (combine_mesh m1 m2)
  = cm_blocks m1 ++ map (fun kv => (fst kv, map (Nat.add (length (cm_conns m1))) (snd kv))) (cm_blocks m2).
Proof. exact combine_blocks_form. Qed.
(* regression (known finding F8, fixed): two structured 3x3 meshes, both with block_0 *)
Theorem C13_combine_name_clash_regression :
  let m := combine_mesh (smesh 3 3) (smesh 3 3) in
  length (cm_conns m) = 16 /\ cm_blocks m = [(0%Z, seq 0 16)] /\ members (cm_blocks m) = 16.
Proof. exact combine_name_clash_regression. Qed.

(* ---- readers: 1-based -> 0-based stays in range and one-to-one, blocks are consecutive ranges covering all elements,
        6-node rows are permuted so that native vertices / faces see (vertex, mid-side, vertex) *)
Theorem C13_reader_indices :
  (forall n blocks, Forall (Forall (Forall (fun i => 1 <= i <= n))) blocks -> Forall (Forall (fun i => i < n)) (read_conns blocks))
  /\ (forall blocks, concat (read_block_ranges blocks) = seq 0 (length (read_conns blocks))
                     /\ length (read_block_ranges blocks) = length blocks)
  /\ (forall n l, Forall (fun i => 1 <= i <= n) l -> Forall (fun i => i < n) (to0 l))
  /\ (forall l, Forall (fun i => 1 <= i) l -> NoDup l -> NoDup (to0 l) /\ length (to0 l) = length l)
  /\ (forall v0 v1 v2 m01 m12 m20,
        let row := permute_tri6 [v0; v1; v2; m01; m12; m20] in
        map (map (fun p => nth p row 0)) native_faces = [[v0; m01; v1]; [v1; m12; v2]; [v2; m20; v0]]
        /\ map (fun p => nth p row 0) native_vertex = [v0; v1; v2]).
Proof.
  split; [exact read_conns_in_range |]. split; [intros; split; [apply read_blocks_cover | apply read_blocks_count] |].
  split; [exact to0_in_range |]. split; [intros l H1 H2; split; [now apply to0_nodup | apply to0_length] |].
  exact permute_tri6_faces.
Qed.

(* ---- readers, THE WHOLE FILE.  THE REPOSITORY'S READER is [read_exodus_checked] (model/M_C13_ReadChk.v) since /repo ce166ed: after the
        auto-naming loops _read_blocks / _read_node_sets / _read_side_sets call _check_names_are_distinct, which raises ValueError when the
        final names of a kind coincide (None in the model); otherwise the reader does what [read_exodus] (model/M_C13_ReadFile.v, the reader
        WITHOUT the name check = the code before ce166ed) does.  The tie (every run): the real reader against read_exodus_checked on
        in-memory files with distinct AND with coinciding final names (accept / ValueError and the whole mesh) and on the repository's
        Exodus fixtures; an AST check that the three calls sit between the auto-naming loop and the first use of the names.
        HEADLINE, no hypothesis on names: on every well-formed file the reader either rejects -- exactly when some final names coincide --
        or returns a mesh with one element per file row (node ids in range, 3 / 6 entries per row), every block / node set / side set of the
        file present (counts equal, blocks partition 0..nE-1 in order, node-set member total preserved) and block_maps whose entries in
        order are the element number map in force.  Per-record detail: C13_read_exodus_checked_no_loss, C13_read_block_maps below. *)
Theorem C13_read_exodus_mesh_whole_file : forall six aB aN aS f, exo_wf six f ->
  match read_exodus_checked six aB aN aS f with
  | None => ~ (NoDup (final_names aB 0 (ef_bnames f)) /\ NoDup (final_names aN 0 (ef_nsnames f)) /\ NoDup (final_names aS 0 (ef_ssnames f)))
  | Some r =>
      (NoDup (final_names aB 0 (ef_bnames f)) /\ NoDup (final_names aN 0 (ef_nsnames f)) /\ NoDup (final_names aS 0 (ef_ssnames f)))
      /\ length (rm_conns r) = list_sum (map (@length _) (ef_blocks f))
      /\ Forall (Forall (fun n => n < ef_nnodes f)) (rm_conns r) /\ Forall (fun row => length row = if six then 6 else 3) (rm_conns r)
      /\ length (rm_blocks r) = length (ef_blocks f) /\ concat (map snd (rm_blocks r)) = seq 0 (length (rm_conns r))
      /\ length (rm_nodesets r) = length (ef_nodesets f) /\ members (rm_nodesets r) = list_sum (map (@length _) (ef_nodesets f))
      /\ length (rm_sidesets r) = length (ef_sidesets f)
      /\ forall emap, (match emap with Some l => length l = length (rm_conns r) | None => True end) ->
           concat (map snd (read_block_maps emap (rm_blocks r))) = match emap with Some l => l | None => seq 1 (length (rm_conns r)) end
  end.
Proof. exact read_exodus_checked_whole_file. Qed.
(* ---- the reader without the name check (model/M_C13_ReadFile.v: read_exodus maps the file content -- 1-based block connectivity records,
        node-set records, (element, side) records, name records with empty names -- to the mesh's connectivity, blocks, node sets,
        side sets and simplexNodesOrdinals; six = 6-node triangles).  [exo_wf]: ids in the file are in range (1..nnodes, 1..nelems,
        sides 1..3), rows have 3 / 6 entries, one name per record, element and side records of a side set have equal length.
        Nothing is lost and every index is in range: *)
Theorem C13_read_exodus_elements : forall six aB aN aS f, exo_wf six f ->
  let r := read_exodus six aB aN aS f in
  length (rm_conns r) = list_sum (map (@length _) (ef_blocks f))
  /\ (forall b blk i row, nth_error (ef_blocks f) b = Some blk -> nth_error blk i = Some row ->
        nth_error (rm_conns r) (block_first (ef_blocks f) b + i) = Some (if six then permute_tri6 (to0 row) else to0 row))
  /\ Forall (Forall (fun n => n < ef_nnodes f)) (rm_conns r)
  /\ Forall (fun row => length row = if six then 6 else 3) (rm_conns r).
Proof. intros six aB aN aS f H. cbv zeta. pose proof (read_exodus_elements six aB aN aS f H) as T. destruct six; exact T. Qed.
(* blocks / node sets / side sets of read_exodus under PAIRWISE DISTINCT final names (given names, "block_<i+1>" etc. for empty ones):
   the lemmas from which the theorems about the checked reader follow (the check establishes exactly this hypothesis) *)
Theorem C13_read_exodus_blocks : forall six aB aN aS f, exo_wf six f -> NoDup (final_names aB 0 (ef_bnames f)) ->
  let r := read_exodus six aB aN aS f in
  rm_blocks r = combine (final_names aB 0 (ef_bnames f)) (read_block_ranges (ef_blocks f))
  /\ (forall b blk k, nth_error (ef_blocks f) b = Some blk -> nth_error (final_names aB 0 (ef_bnames f)) b = Some k ->
        dget (rm_blocks r) k = Some (seq (block_first (ef_blocks f) b) (length blk)))
  /\ concat (map snd (rm_blocks r)) = seq 0 (length (rm_conns r))
  /\ length (rm_blocks r) = length (ef_blocks f).
Proof. exact read_exodus_blocks. Qed.
Theorem C13_read_exodus_nodesets : forall six aB aN aS f, exo_wf six f -> NoDup (final_names aN 0 (ef_nsnames f)) ->
  let r := read_exodus six aB aN aS f in
  length (rm_nodesets r) = length (ef_nodesets f)
  /\ forall i l k, nth_error (ef_nodesets f) i = Some l -> nth_error (final_names aN 0 (ef_nsnames f)) i = Some k ->
       dget (rm_nodesets r) k = Some (to0 l) /\ length (to0 l) = length l /\ map S (to0 l) = l
       /\ Forall (fun n => n < ef_nnodes f) (to0 l).
Proof. exact read_exodus_nodesets. Qed.
Theorem C13_read_exodus_sidesets : forall six aB aN aS f, exo_wf six f -> NoDup (final_names aS 0 (ef_ssnames f)) ->
  let r := read_exodus six aB aN aS f in
  length (rm_sidesets r) = length (ef_sidesets f)
  /\ forall i es ss k, nth_error (ef_sidesets f) i = Some (es, ss) -> nth_error (final_names aS 0 (ef_ssnames f)) i = Some k ->
       dget (rm_sidesets r) k = Some (read_sideset es ss) /\ length (read_sideset es ss) = length es
       /\ map (fun p => S (fst p)) (read_sideset es ss) = es /\ map (fun p => S (snd p)) (read_sideset es ss) = ss
       /\ Forall (fun p => fst p < length (rm_conns r) /\ snd p < 3) (read_sideset es ss).
Proof. exact read_exodus_sidesets. Qed.
Theorem C13_read_exodus_simplex : forall six aB aN aS f,
  let r := read_exodus six aB aN aS f in
  NoDup (rm_simplex r)
  /\ forall x, In x (rm_simplex r) <->
       if six then exists row, In row (read_conns (ef_blocks f)) /\ In x (firstn 3 row) else x < ef_nnodes f.
Proof. exact read_exodus_simplex. Qed.
(* HISTORY (finding C13-READ-NAMES, fixed by ce166ed) and the reason the check exists: the distinct-names hypothesis is NEEDED for
   read_exodus: a well-formed 3-node file with two blocks, the first NAMED like the auto-generated name of the second ("block_2", id 7),
   the second unnamed: read_exodus keeps one block entry and element 0 is in no block.  The reader before ce166ed did exactly that; the
   witness file is replayed on every run and must now be REJECTED (a silently shortened dict is reported as a regression). *)
Theorem C13_read_exodus_name_clash_refuted :
  exo_wf false clash_file /\ (forall i, clash_auto i <> 0%Z)
  /\ let r := read_exodus false clash_auto clash_auto clash_auto clash_file in
     length (rm_conns r) = 2 /\ rm_blocks r = [(7%Z, [1])] /\ ~ In 0 (concat (map snd (rm_blocks r))).
Proof. exact read_exodus_name_clash_refuted. Qed.
(* JSON reader: indices pass through unchanged; a side set [elements, sides] becomes the list of pairs, nothing lost *)
Theorem C13_read_json_sidesets : forall ss,
  map fst (read_json_sidesets ss) = map fst ss
  /\ forall k es sd, In (k, (es, sd)) ss -> length es = length sd ->
       In (k, combine es sd) (read_json_sidesets ss) /\ length (combine es sd) = length es
       /\ map fst (combine es sd) = es /\ map snd (combine es sd) = sd.
Proof. exact read_json_sidesets_spec. Qed.
Example C13_read_exodus_nonvacuous :
  exo_wf true sample_file /\ NoDup (final_names clash_auto 0 (ef_bnames sample_file))
  /\ NoDup (final_names clash_auto 0 (ef_nsnames sample_file)) /\ NoDup (final_names clash_auto 0 (ef_ssnames sample_file))
  /\ rm_conns (read_exodus true clash_auto clash_auto clash_auto sample_file) = [[0; 3; 1; 5; 4; 2]; [1; 7; 6; 4; 8; 2]].
Proof. exact read_exodus_nonvacuous. Qed.
(* ---- the name check is exactly right.  dict(zip(names, vals)) / blocks[name] = ... keeps one entry per record IF AND ONLY IF the
        names are pairwise distinct; so the distinct-names hypothesis above is not only sufficient but exactly the loss-free case: *)
Theorem C13_dict_assignment_lossless_iff : forall (V : Type) (names : list Z) (vals : list V), length names = length vals ->
  (length (dict_of names vals) = length names <-> NoDup names).
Proof. exact @dict_of_lossless_iff. Qed.
(* [read_exodus_checked] (the repository's reader, ce166ed: `if len(set(names)) != len(names): raise ValueError` after the auto-naming
   loops) accepts exactly the files with pairwise distinct final names and returns what read_exodus returns; it rejects exactly the
   well-formed files on which read_exodus (the reader before the fix) drops a record -- no over-rejection; on every accepted file nothing
   is lost, with NO hypothesis on the names. *)
Theorem C13_read_exodus_checked_spec : forall six aB aN aS f,
  (forall r', read_exodus_checked six aB aN aS f = Some r'
     <-> (NoDup (final_names aB 0 (ef_bnames f)) /\ NoDup (final_names aN 0 (ef_nsnames f)) /\ NoDup (final_names aS 0 (ef_ssnames f)))
         /\ r' = read_exodus six aB aN aS f)
  /\ (read_exodus_checked six aB aN aS f = None
      <-> ~ (NoDup (final_names aB 0 (ef_bnames f)) /\ NoDup (final_names aN 0 (ef_nsnames f)) /\ NoDup (final_names aS 0 (ef_ssnames f)))).
Proof. exact read_exodus_checked_spec. Qed.
Theorem C13_read_exodus_rejects_iff_record_lost : forall six aB aN aS f, exo_wf six f ->
  let r := read_exodus six aB aN aS f in
  read_exodus_checked six aB aN aS f = None
  <-> (length (rm_blocks r) < length (ef_blocks f) \/ length (rm_nodesets r) < length (ef_nodesets f)
       \/ length (rm_sidesets r) < length (ef_sidesets f)).
Proof. exact read_exodus_rejects_iff_record_lost. Qed.
Theorem C13_read_exodus_checked_no_loss : forall six aB aN aS f, exo_wf six f ->
  forall r', read_exodus_checked six aB aN aS f = Some r' ->
    r' = read_exodus six aB aN aS f
    /\ (concat (map snd (rm_blocks r')) = seq 0 (length (rm_conns r')) /\ length (rm_blocks r') = length (ef_blocks f)
        /\ forall b blk k, nth_error (ef_blocks f) b = Some blk -> nth_error (final_names aB 0 (ef_bnames f)) b = Some k ->
             dget (rm_blocks r') k = Some (seq (block_first (ef_blocks f) b) (length blk)))
    /\ (length (rm_nodesets r') = length (ef_nodesets f)
        /\ forall i l k, nth_error (ef_nodesets f) i = Some l -> nth_error (final_names aN 0 (ef_nsnames f)) i = Some k ->
             dget (rm_nodesets r') k = Some (to0 l) /\ map S (to0 l) = l /\ Forall (fun n => n < ef_nnodes f) (to0 l))
    /\ (length (rm_sidesets r') = length (ef_sidesets f)
        /\ forall i es ss k, nth_error (ef_sidesets f) i = Some (es, ss) -> nth_error (final_names aS 0 (ef_ssnames f)) i = Some k ->
             dget (rm_sidesets r') k = Some (read_sideset es ss) /\ map (fun p => S (fst p)) (read_sideset es ss) = es
             /\ map (fun p => S (snd p)) (read_sideset es ss) = ss
             /\ Forall (fun p => fst p < length (rm_conns r') /\ snd p < 3) (read_sideset es ss)).
Proof. exact read_exodus_checked_no_loss. Qed.
(* ---- block_maps (_read_block_maps: iterates over the blocks DICT and slices the element number map, the file's elem_num_map or
        1..nE): under distinct names block b's entry is the slice [first_b, first_b + n_b) of the map in force and the slices in
        order are the whole map.  With a name clash block_maps are misaligned too (the surviving block of the witness file, which
        holds element 1, gets the global number of element 0) -- same (fixed) finding; the checked reader rejects that file. *)
Theorem C13_read_block_maps : forall six aB aN aS f, exo_wf six f -> NoDup (final_names aB 0 (ef_bnames f)) ->
  forall emap, (match emap with Some l => length l = length (rm_conns (read_exodus six aB aN aS f)) | None => True end) ->
  let r := read_exodus six aB aN aS f in
  let em := match emap with Some l => l | None => seq 1 (length (rm_conns r)) end in
  let bm := read_block_maps emap (rm_blocks r) in
  map fst bm = final_names aB 0 (ef_bnames f) /\ length bm = length (ef_blocks f)
  /\ (forall b blk k, nth_error (ef_blocks f) b = Some blk -> nth_error (final_names aB 0 (ef_bnames f)) b = Some k ->
        dget bm k = Some (firstn (length blk) (skipn (block_first (ef_blocks f) b) em)))
  /\ concat (map snd bm) = em.
Proof. exact read_block_maps_spec. Qed.
Theorem C13_read_block_maps_name_clash_refuted :
  let r := read_exodus false clash_auto clash_auto clash_auto clash_file in
  rm_blocks r = [(7%Z, [1])] /\ read_block_maps (Some [10; 20]) (rm_blocks r) = [(7%Z, [10])] /\ nth 1 [10; 20] 0 = 20
  /\ read_exodus_checked false clash_auto clash_auto clash_auto clash_file = None.
Proof. exact read_block_maps_name_clash_refuted. Qed.
(* ---- coordinates (_read_coordinates: column_stack([coordx, coordy])): one row per node, row i = (coordx[i], coordy[i]) *)
Theorem C13_read_coords : forall (T : Type) (xs ys : list T) n, length xs = n -> length ys = n ->
  length (read_coords xs ys) = n /\ map fst (read_coords xs ys) = xs /\ map snd (read_coords xs ys) = ys
  /\ forall i x y, nth_error xs i = Some x -> nth_error ys i = Some y -> nth_error (read_coords xs ys) i = Some (x, y).
Proof. exact @read_coords_spec. Qed.
Example C13_read_checked_nonvacuous :
  (exists r', read_exodus_checked true clash_auto clash_auto clash_auto sample_file = Some r')
  /\ read_block_maps None (rm_blocks (read_exodus true clash_auto clash_auto clash_auto sample_file)) = [(6%Z, [1]); (7%Z, [2])].
Proof. exact read_checked_nonvacuous. Qed.
(* NOT PROVED (readers): the netCDF / JSON file layer (bytes -> records), name decoding and the masked-array handling of coordx /
   coordy (.filled()) are outside the model (the reader code runs unchanged on a stand-in Dataset).  That the repository's reader IS
   read_exodus_checked is not a theorem but is TIED on every run: exact comparison of the real reader (accept / ValueError, whole mesh,
   block_maps) with the model on files with distinct and with coinciding final names, plus the fail-closed AST check of the three
   _check_names_are_distinct calls (tools/props/c13.py names_check_structure). *)

(* ---- order elevation, numbering only: the ids handed to the slots (vertex), (edge e, k < p-1), (element t, k < nInt) are
        exactly 0 .. nV + nE(p-1) + nT*nInt - 1, each once (no duplicate, no unused id), and the right element receives the
        edge's ids in reversed order *)
Theorem C13_elevate_numbering_partial : forall nV nE nT m nI,
  all_ids nV nE nT m nI = seq 0 (nV + nE * m + nT * nI)
  /\ NoDup (all_ids nV nE nT m nI)
  /\ (forall i, In i (all_ids nV nE nT m nI) <-> i < nV + nE * m + nT * nI)
  /\ (forall e, edge_ids_right nV m e = rev (edge_ids nV m e) /\ length (edge_ids nV m e) = m).
Proof.
  intros. split; [apply all_ids_seq |]. split; [apply all_ids_nodup |]. split; [apply all_ids_nodup | intros; apply edge_ids_right_rev].
Qed.
(* ---- order elevation, connectivity.  [events] is the log of the functional array writes of
        create_higher_order_mesh_from_simplex_mesh, [lookup] returns the last value written to an entry, [elevated] is the
        resulting table (compared with the implementation on every run).  [pe_good] is the reference-element certificate
        (vertex / face-interior / interior position tables partition 0..n-1), established by the checker [pe_okb], which is
        evaluated on the implementation's tables for every order 1..5 with and without bubble on every run.
        Hypothesis on the mesh: no element side has equal end points. *)
Theorem C13_pe_certificate_sound : forall pe m, pe_okb pe m = true -> pe_good pe m.
Proof. exact pe_okb_good. Qed.
(* no write is overwritten: all targets of the write log are pairwise distinct *)
Theorem C13_elevate_writes_survive : forall conns pe nV m, pe_good pe m ->
  (forall f, In f (all_faces conns) -> fst f <> snd f) ->
  NoDup (map fst (events pe nV m conns))
  /\ forall k v, In (k, v) (events pe nV m conns) -> lookup (events pe nV m conns) k = Some v.
Proof. intros conns pe nV m H1 H2. split; [now apply targets_nodup | now apply write_survives]. Qed.
(* vertex ids at the vertex positions; interior ids at the interior positions *)
Theorem C13_elevate_vertex_interior : forall conns pe nV m, pe_good pe m ->
  (forall f, In f (all_faces conns) -> fst f <> snd f) ->
  (forall t c i p v, nth_error conns t = Some c -> nth_error (pe_vertex pe) i = Some p -> nth_error c i = Some v ->
     lookup (events pe nV m conns) (t, p) = Some v)
  /\ (forall t k p, t < length conns -> nth_error (pe_interior pe) k = Some p ->
     lookup (events pe nV m conns) (t, p)
     = Some (nV + length (create_edges conns) * m + t * length (pe_interior pe) + k)).
Proof. intros conns pe nV m H1 H2. split; [exact (elev_vertex conns pe nV m H1 H2) | exact (elev_interior conns pe nV m H1 H2)]. Qed.
(* conformity: for edge row e the left element carries the ids nV+e*m+k at the interior positions of its recorded face in
   order, the right element (if any) carries the same ids in reversed order at the interior positions of its face *)
Theorem C13_elevate_conform : forall conns pe nV m, pe_good pe m ->
  (forall f, In f (all_faces conns) -> fst f <> snd f) ->
  forall e r sl i p v, nth_error (create_edges conns) e = Some r -> In sl (slots_of r) ->
    nth_error (pe_mid pe (snd (fst sl))) i = Some p ->
    nth_error (if snd sl then edge_ids nV m e else rev (edge_ids nV m e)) i = Some v ->
    lookup (events pe nV m conns) (fst (fst sl), p) = Some v.
Proof. intros conns pe nV m H1 H2. exact (elev_edge conns pe nV m H1 H2). Qed.
(* no unused node, and everything stored is in range *)
Theorem C13_elevate_onto_in_range : forall conns pe nV m, pe_good pe m ->
  (forall f, In f (all_faces conns) -> fst f <> snd f) ->
  let N := nV + length (create_edges conns) * m + length conns * length (pe_interior pe) in
  (Forall (fun c => length c = 3) conns -> (forall n, n < nV -> exists c, In c conns /\ In n c) ->
     forall id, id < N -> exists k, lookup (events pe nV m conns) k = Some id)
  /\ (Forall (Forall (fun i => i < nV)) conns -> forall k v, lookup (events pe nV m conns) k = Some v -> v < N).
Proof. intros conns pe nV m H1 H2. cbv zeta. split; [exact (elev_onto conns pe nV m H1 H2) | exact (elev_in_range conns pe nV m)]. Qed.
Theorem C13_elevated_entry : forall conns pe nV m t pos, t < length conns -> pos < pe_n pe ->
  nth pos (nth t (elevated pe nV m conns) []) 0
  = match lookup (events pe nV m conns) (t, pos) with Some v => v | None => 0 end.
Proof. exact elevated_entry. Qed.
(* coordinates of the shared edge nodes agree between neighbours up to delta |A-B| when the 1-D nodes are symmetric up to
   delta (certificate lobatto_sym_cert, evaluated on the implementation's Lobatto nodes for orders 1..5) *)
Theorem C13_elevate_edge_point_conform : forall a b s s' delta : R, (Rabs (s + s' - 1) <= delta)%R ->
  (Rabs (((1 - s') * a + s' * b) - ((1 - s) * b + s * a)) <= delta * Rabs (a - b))%R.
Proof. exact edge_point_conform. Qed.
(* every entry of every elevated row is written (the 0 of np.zeros never survives): certified reference element, rows of
   three vertices, no degenerate side, and no directed vertex pair occurring twice (consistently oriented manifold) *)
Theorem C13_elevate_every_entry_written : forall conns pe nV m, pe_okb pe m = true ->
  NoDup (all_faces conns) -> (forall f, In f (all_faces conns) -> fst f <> snd f) -> Forall (fun c => length c = 3) conns ->
  forall t pos, t < length conns -> pos < pe_n pe ->
  exists v, lookup (events pe nV m conns) (t, pos) = Some v /\ nth pos (nth t (elevated pe nV m conns) []) 0 = v.
Proof. exact elevated_entry_written. Qed.

(* ---- order elevation, COORDINATES (one component; x and y alike).  [elev_coord] is the stacked coordinate array
        vstack((mesh.coords, edgeCoords, interiorCoords)) (compared with the implementation on every run); which row an id denotes: *)
Theorem C13_elevate_coord_rows : forall (X s1d N0 N1 : nat -> R) (ea eb : nat -> nat) (tri : nat -> nat -> nat) nV nE m nI,
  (forall v, v < nV -> elev_coord X s1d N0 N1 ea eb tri nV nE m nI v = X v)
  /\ (forall e k, e < nE -> k < m -> elev_coord X s1d N0 N1 ea eb tri nV nE m nI (nV + e * m + k) = edge_coord X s1d ea eb e k)
  /\ (forall t k, k < nI -> elev_coord X s1d N0 N1 ea eb tri nV nE m nI (nV + nE * m + t * nI + k) = interior_coord X N0 N1 tri t k).
Proof.
  intros. split; [intros; now apply coord_of_vertex_id |]. split; [intros; now apply coord_of_edge_id | intros; now apply coord_of_interior_id].
Qed.
(* affine placement.  (xi0, xi1): reference coordinates of the face position; the certificate ref_face_okb (evaluated in Coq over Q on
   the implementation's tables for ALL orders 1..5 with and without bubble on every run, tol 1e-14) bounds their distance to the side
   weights by delta; lobatto_sym_cert bounds |s_k + s_{m-1-k} - 1| by delta'.  Together with C13_elevate_conform (which id sits at which
   face position) the stored coordinate of every edge node is the affine image of its reference node, for the left AND the right element: *)
Theorem C13_elevate_affine_left : forall s (sk xi0 xi1 X0 X1 X2 delta : R), s < 3 ->
  (Rabs (xi0 - side_weight s 0 sk) <= delta)%R -> (Rabs (xi1 - side_weight s 1 sk) <= delta)%R ->
  let Xa := nth s [X0; X1; X2] 0%R in let Xb := nth ((s + 1) mod 3) [X0; X1; X2] 0%R in
  (Rabs (affine_image xi0 xi1 X0 X1 X2 - ((1 - sk) * Xa + sk * Xb)) <= delta * (Rabs (X0 - X2) + Rabs (X1 - X2)))%R.
Proof. exact affine_placement_left. Qed.
Theorem C13_elevate_affine_right : forall s (sk sk' xi0 xi1 X0 X1 X2 delta delta' : R), s < 3 ->
  (Rabs (xi0 - side_weight s 0 sk) <= delta)%R -> (Rabs (xi1 - side_weight s 1 sk) <= delta)%R ->
  (Rabs (sk + sk' - 1) <= delta')%R ->
  let Xa := nth s [X0; X1; X2] 0%R in let Xb := nth ((s + 1) mod 3) [X0; X1; X2] 0%R in
  (Rabs (affine_image xi0 xi1 X0 X1 X2 - ((1 - sk') * Xb + sk' * Xa))
   <= delta * (Rabs (X0 - X2) + Rabs (X1 - X2)) + delta' * Rabs (Xa - Xb))%R.
Proof. exact affine_placement_right. Qed.
(* vertex and interior positions: exact (vertex reference coordinates are the unit points: certificate ref_vertex_okb;
   the interior weights are the reference coordinates of the interior positions, the same table) *)
Theorem C13_elevate_affine_vertex_interior :
  (forall X0 X1 X2 : R, affine_image 1 0 X0 X1 X2 = X0 /\ affine_image 0 1 X0 X1 X2 = X1 /\ affine_image 0 0 X0 X1 X2 = X2)
  /\ (forall (X N0 N1 : nat -> R) tri t k,
        interior_coord X N0 N1 tri t k = affine_image (N0 k) (N1 k) (X (tri t 0)) (X (tri t 1)) (X (tri t 2))).
Proof. split; [exact affine_placement_vertex | exact affine_placement_interior]. Qed.
(* ---- order elevation, THE WHOLE ELEVATED MESH in one closed statement.  Objects (model/M_C13_ElevMesh.v): [elevated] the
        connectivity table, [em_coord] the stacked coordinate array (one component) computed from the function's inputs only
        (vertex coordinates X, simplex connectivity, 1-D interior parameters s1d, reference coordinates ref, position tables pe),
        [em_affine t pos] the affine image ref[pos].0 X[c0] + ref[pos].1 X[c1] + (1 - ref[pos].0 - ref[pos].1) X[c2] of reference
        node pos in element t, [em_nnodes] = nV + nE m + nT nI.  Mesh hypotheses: rows of three vertex ids < nV, no degenerate side,
        no directed vertex pair twice (consistently oriented manifold triangulation).  Table hypotheses [ref_good]: vertex positions
        at the unit points, face position k of side s within delta of the 1-D parameter s1d k on that side; 1-D parameters
        symmetric up to delta'.  Conclusion, for EVERY element t and EVERY reference position pos: the stored id is a node of the
        mesh and its stored coordinate is the affine image of the reference node, up to
        em_bound t = delta (|X0-X2| + |X1-X2|) + delta' (|X0-X1| + |X1-X2| + |X2-X0|)   (exactly 0 at vertex and interior positions). *)
Theorem C13_elevated_mesh_affine : forall (X s1d : nat -> R) (ref : nat -> R * R) pe nV m conns (delta delta' : R),
  pe_okb pe m = true -> NoDup (all_faces conns) -> (forall f, In f (all_faces conns) -> fst f <> snd f) ->
  Forall (fun c => length c = 3) conns -> Forall (Forall (fun i => i < nV)) conns ->
  ref_good ref pe s1d delta -> (forall k, k < m -> (Rabs (s1d k + s1d (m - 1 - k)%nat - 1) <= delta')%R) ->
  (0 <= delta)%R -> (0 <= delta')%R ->
  forall t pos, t < length conns -> pos < pe_n pe ->
    let id := nth pos (nth t (elevated pe nV m conns) []) 0 in
    id < em_nnodes pe nV m conns
    /\ (Rabs (@em_coord R NumR X s1d ref pe nV m conns id - @em_affine R NumR X ref conns t pos) <= em_bound X conns delta delta' t)%R.
Proof. exact elevated_node_affine. Qed.
(* the same with every table hypothesis discharged by ONE computed certificate [elev_cert_okb] (evaluated in Coq on the
   implementation's tables, exact rationals of the binary64 entries, for every order 2..5 with and without bubble on every run):
   ref and s1d are then the real values of the implementation's own tables and delta = delta' = tol (1e-14). *)
Theorem C13_elevated_mesh_certified : forall pe m refq faces nodes in1d tol conns nV (X : nat -> R),
  elev_cert_okb pe m refq faces nodes in1d tol = true ->
  NoDup (all_faces conns) -> (forall f, In f (all_faces conns) -> fst f <> snd f) ->
  Forall (fun c => length c = 3) conns -> Forall (Forall (fun i => i < nV)) conns ->
  forall t pos, t < length conns -> pos < pe_n pe ->
    let id := nth pos (nth t (elevated pe nV m conns) []) 0 in
    id < em_nnodes pe nV m conns
    /\ (Rabs (@em_coord R NumR X (s1d_of_q nodes in1d) (ref_of_q refq) pe nV m conns id - @em_affine R NumR X (ref_of_q refq) conns t pos)
        <= em_bound X conns (Q2R tol) (Q2R tol) t)%R.
Proof. exact elevated_mesh_certified. Qed.
(* shape of the whole table: one row per element, pe_n entries per row, every entry in range, every node id stored somewhere
   (no unused node, given that every vertex is used), vertex columns reproduce the simplex connectivity; and the coordinate
   column has one entry per node, entry id being em_coord id *)
Theorem C13_elevated_mesh_shape : forall conns pe nV m,
  pe_okb pe m = true -> NoDup (all_faces conns) -> (forall f, In f (all_faces conns) -> fst f <> snd f) ->
  Forall (fun c => length c = 3) conns -> Forall (Forall (fun i => i < nV)) conns ->
  length (elevated pe nV m conns) = length conns
  /\ Forall (fun row => length row = pe_n pe /\ Forall (fun id => id < em_nnodes pe nV m conns) row) (elevated pe nV m conns)
  /\ ((forall n, n < nV -> exists c, In c conns /\ In n c) ->
      forall id, id < em_nnodes pe nV m conns ->
      exists t pos, t < length conns /\ pos < pe_n pe /\ nth pos (nth t (elevated pe nV m conns) []) 0 = id)
  /\ (forall t i p, t < length conns -> nth_error (pe_vertex pe) i = Some p ->
      p < pe_n pe /\ nth p (nth t (elevated pe nV m conns) []) 0 = em_tri conns t i).
Proof. exact elevated_mesh_shape. Qed.
Theorem C13_elevated_coords_column : forall (X s1d : nat -> R) ref pe nV m conns,
  length (@em_coords R NumR X s1d ref pe nV m conns) = em_nnodes pe nV m conns
  /\ forall id d, id < em_nnodes pe nV m conns ->
       nth id (@em_coords R NumR X s1d ref pe nV m conns) d = @em_coord R NumR X s1d ref pe nV m conns id.
Proof. intros. split; [apply em_coords_length | intros; now apply em_coords_nth]. Qed.
(* ---- GEOMETRIC NON-DEGENERACY of the elevated elements.  optimism never forms the isoparametric map: FunctionSpace.py takes the
        geometry of every element from its three vertex nodes (jac = cross(v1 - v0, v2 - v0), J = column_stack((v0 - v2, v1 - v2))).
        Objects (model/M_C13_Jac.v): [el_coord X .. t p] the stored coordinate of local node p of elevated element t (coords[conns[t][p]]),
        [wsumf 0 W c] = sum_p W[p] c(p), [iso_pos N c] the isoparametric image sum_p N_p x_p, [iso_det Gx Gy cx cy] the determinant of
        the isoparametric Jacobian from the parametric gradient rows, [simplex_det] the constant Jacobian of the simplex.
        [repro ref n xi N Gx Gy eps] (proofs/L_C13_Jac.v): the shape row reproduces 1, xi0, xi1 and their gradients at xi within eps
        (sum N = 1, sum N ref = xi, sum grad N = 0, sum grad N (x) ref = I).  Bounds: comp_size Z = |Z2| + |Z0-Z2| + |Z1-Z2|,
        entry_bound Z = eps comp_size Z + lam em_bound Z (lam >= sum |grad N|), det_bound = entry_bound Y (|X0-X2|+|X1-X2|)
        + entry_bound X (|Y0-Y2|+|Y1-Y2|) + 2 entry_bound X entry_bound Y. *)
(* exact Lagrange shape functions -- the solution of the transposed Vandermonde systems Interpolants.shape2d solves, for ANY basis whose
   span contains 1, xi0, xi1 (coefficient lists c1, cx, cy; dxb, dyb the derivative functions) -- reproduce at EVERY point xi *)
Theorem C13_lagrange_shapes_reproduce_affine : forall (ref : nat -> R * R) (n nb : nat) (pb dxb dyb : nat -> R * R -> R) (c1 cx cy : list R),
  length c1 = nb -> length cx = nb -> length cy = nb ->
  (forall eta, wsumf 0 c1 (fun j => pb j eta) = 1%R /\ wsumf 0 c1 (fun j => dxb j eta) = 0%R /\ wsumf 0 c1 (fun j => dyb j eta) = 0%R) ->
  (forall eta, wsumf 0 cx (fun j => pb j eta) = fst eta /\ wsumf 0 cx (fun j => dxb j eta) = 1%R /\ wsumf 0 cx (fun j => dyb j eta) = 0%R) ->
  (forall eta, wsumf 0 cy (fun j => pb j eta) = snd eta /\ wsumf 0 cy (fun j => dxb j eta) = 0%R /\ wsumf 0 cy (fun j => dyb j eta) = 1%R) ->
  forall xi N Gx Gy, length N = n -> length Gx = n -> length Gy = n ->
    (forall j, j < nb -> wsumf 0 N (fun a => pb j (ref a)) = pb j xi) ->
    (forall j, j < nb -> wsumf 0 Gx (fun a => pb j (ref a)) = dxb j xi) ->
    (forall j, j < nb -> wsumf 0 Gy (fun a => pb j (ref a)) = dyb j xi) ->
    repro ref n xi N Gx Gy 0.
Proof. exact lagrange_repro. Qed.
(* the span hypotheses are satisfiable: the monomial basis 1, eta0, eta1 with its derivative functions *)
Example C13_lagrange_span_nonvacuous :
  let pb := fun (j : nat) (eta : R * R) => match j with 0 => 1%R | 1 => fst eta | _ => snd eta end in
  let dxb := fun (j : nat) (_ : R * R) => match j with 1 => 1%R | _ => 0%R end in
  let dyb := fun (j : nat) (_ : R * R) => match j with 2 => 1%R | _ => 0%R end in
  (forall eta, wsumf 0 [1; 0; 0]%R (fun j => pb j eta) = 1%R /\ wsumf 0 [1; 0; 0]%R (fun j => dxb j eta) = 0%R /\ wsumf 0 [1; 0; 0]%R (fun j => dyb j eta) = 0%R)
  /\ (forall eta, wsumf 0 [0; 1; 0]%R (fun j => pb j eta) = fst eta /\ wsumf 0 [0; 1; 0]%R (fun j => dxb j eta) = 1%R /\ wsumf 0 [0; 1; 0]%R (fun j => dyb j eta) = 0%R)
  /\ (forall eta, wsumf 0 [0; 0; 1]%R (fun j => pb j eta) = snd eta /\ wsumf 0 [0; 0; 1]%R (fun j => dxb j eta) = 0%R /\ wsumf 0 [0; 0; 1]%R (fun j => dyb j eta) = 1%R).
Proof. exact lagrange_span_nonvacuous. Qed.
(* with EXACT tables (delta = delta' = 0) and exact reproduction (eps = 0): at every such point the isoparametric map of every elevated
   element IS the affine map of its simplex, its Jacobian matrix IS column_stack((v0 - v2, v1 - v2)) and its determinant the simplex's *)
Theorem C13_isoparametric_map_is_affine_exact : forall (X Y s1d : nat -> R) ref pe nV m conns,
  pe_okb pe m = true -> NoDup (all_faces conns) -> (forall f, In f (all_faces conns) -> fst f <> snd f) ->
  Forall (fun c => length c = 3) conns -> Forall (Forall (fun i => i < nV)) conns ->
  ref_good ref pe s1d 0 -> (forall k, k < m -> (Rabs (s1d k + s1d (m - 1 - k)%nat - 1) <= 0)%R) ->
  forall t, t < length conns -> forall xi N Gx Gy, repro ref (pe_n pe) xi N Gx Gy 0 ->
    let cx := el_coord X s1d ref pe nV m conns t in let cy := el_coord Y s1d ref pe nV m conns t in
    let V := fun (Z : nat -> R) (i : nat) => Z (em_tri conns t i) in
    iso_pos N cx = affine_image (fst xi) (snd xi) (V X 0) (V X 1) (V X 2)
    /\ iso_pos N cy = affine_image (fst xi) (snd xi) (V Y 0) (V Y 1) (V Y 2)
    /\ wsumf 0 Gx cx = (V X 0%nat - V X 2%nat)%R /\ wsumf 0 Gy cx = (V X 1%nat - V X 2%nat)%R
    /\ wsumf 0 Gx cy = (V Y 0%nat - V Y 2%nat)%R /\ wsumf 0 Gy cy = (V Y 1%nat - V Y 2%nat)%R
    /\ iso_det Gx Gy cx cy = simplex_det X Y conns t.
Proof. exact iso_exact. Qed.
(* with the certificate tolerances: position, the four Jacobian entries and the determinant, with explicit bounds; positivity *)
Theorem C13_isoparametric_jacobian : forall (X Y s1d : nat -> R) ref pe nV m conns (delta delta' : R),
  pe_okb pe m = true -> NoDup (all_faces conns) -> (forall f, In f (all_faces conns) -> fst f <> snd f) ->
  Forall (fun c => length c = 3) conns -> Forall (Forall (fun i => i < nV)) conns ->
  ref_good ref pe s1d delta -> (forall k, k < m -> (Rabs (s1d k + s1d (m - 1 - k)%nat - 1) <= delta')%R) ->
  (0 <= delta)%R -> (0 <= delta')%R ->
  forall t, t < length conns -> forall xi N Gx Gy (eps lam : R), repro ref (pe_n pe) xi N Gx Gy eps -> (asum Gx <= lam)%R -> (asum Gy <= lam)%R ->
    (forall Z : nat -> R,
       (Rabs (iso_pos N (el_coord Z s1d ref pe nV m conns t)
              - affine_image (fst xi) (snd xi) (Z (em_tri conns t 0%nat)) (Z (em_tri conns t 1%nat)) (Z (em_tri conns t 2%nat)))
        <= eps * comp_size conns t Z + asum N * em_bound Z conns delta delta' t)%R
       /\ (Rabs (wsumf 0 Gx (el_coord Z s1d ref pe nV m conns t) - (Z (em_tri conns t 0%nat) - Z (em_tri conns t 2%nat)))
           <= entry_bound conns delta delta' t eps lam Z)%R
       /\ (Rabs (wsumf 0 Gy (el_coord Z s1d ref pe nV m conns t) - (Z (em_tri conns t 1%nat) - Z (em_tri conns t 2%nat)))
           <= entry_bound conns delta delta' t eps lam Z)%R)
    /\ (Rabs (iso_det Gx Gy (el_coord X s1d ref pe nV m conns t) (el_coord Y s1d ref pe nV m conns t) - simplex_det X Y conns t)
        <= det_bound X Y conns delta delta' t eps lam)%R
    /\ ((det_bound X Y conns delta delta' t eps lam < simplex_det X Y conns t)%R ->
        (0 < iso_det Gx Gy (el_coord X s1d ref pe nV m conns t) (el_coord Y s1d ref pe nV m conns t))%R).
Proof.
  intros X Y s1d ref pe nV m conns delta delta' H1 H2 H3 H4 H5 H6 H7 H8 H9 t Ht xi N Gx Gy eps lam Hr Lx Ly.
  split; [intros Z; split; [exact (iso_position s1d ref pe nV m conns delta delta' H1 H2 H3 H4 H5 H6 H7 H8 H9 t Ht xi N Gx Gy eps Hr Z)
                           | exact (iso_jacobian_entries s1d ref pe nV m conns delta delta' H1 H2 H3 H4 H5 H6 H7 H8 H9 t Ht xi N Gx Gy eps lam Hr Lx Ly Z)] |].
  split; [exact (iso_jacobian_det X Y s1d ref pe nV m conns delta delta' H1 H2 H3 H4 H5 H6 H7 H8 H9 t Ht xi N Gx Gy eps lam Hr Lx Ly)
         | exact (iso_jacobian_positive X Y s1d ref pe nV m conns delta delta' H1 H2 H3 H4 H5 H6 H7 H8 H9 t Ht xi N Gx Gy eps lam Hr Lx Ly)].
Qed.
(* every hypothesis on tables discharged by ONE computed certificate [jac_cert_okb] = elev_cert_okb (reference tables, tol) + repro_cert_okb
   (the implementation's OWN shape table at the quadrature points: values and both gradient rows, tolerance tols, lam bounds sum |grad N|),
   evaluated in Coq on the exact rationals of the binary64 entries for every order 2..5 with and without bubble on every run: at every
   quadrature point of every element of every consistently oriented triangulation the isoparametric Jacobian is within det_bound of the
   simplex Jacobian FunctionSpace uses, hence positive whenever twice the element's area exceeds det_bound (~1e-13 x size^2) *)
Theorem C13_elevated_jacobian_certified : forall pe m refq faces nodes in1d qrecs tol tols lam conns nV (X Y : nat -> R),
  jac_cert_okb pe m refq faces nodes in1d qrecs tol tols lam = true ->
  NoDup (all_faces conns) -> (forall f, In f (all_faces conns) -> fst f <> snd f) ->
  Forall (fun c => length c = 3) conns -> Forall (Forall (fun i => i < nV)) conns ->
  forall t rc, t < length conns -> In rc qrecs ->
    let cx := el_coord X (s1d_of_q nodes in1d) (ref_of_q refq) pe nV m conns t in
    let cy := el_coord Y (s1d_of_q nodes in1d) (ref_of_q refq) pe nV m conns t in
    let B := det_bound X Y conns (Q2R tol) (Q2R tol) t (Q2R tols) (Q2R lam) in
    (Rabs (iso_det (rec_Gx rc) (rec_Gy rc) cx cy - simplex_det X Y conns t) <= B)%R
    /\ ((B < simplex_det X Y conns t)%R -> (0 < iso_det (rec_Gx rc) (rec_Gy rc) cx cy)%R).
Proof. exact elevated_jacobian_certified. Qed.
Theorem C13_repro_certificate_sound : forall refq qrecs tol lam, repro_cert_okb refq qrecs tol lam = true ->
  (0 <= Q2R tol)%R /\ forall rc, In rc qrecs ->
    repro (ref_of_q refq) (length refq) (rec_xi rc) (rec_N rc) (rec_Gx rc) (rec_Gy rc) (Q2R tol)
    /\ (asum (rec_Gx rc) <= Q2R lam)%R /\ (asum (rec_Gy rc) <= Q2R lam)%R.
Proof. exact repro_cert_sound. Qed.
(* simplex_det is the Jacobian of FunctionSpace.compute_element_volumes: cross(v1 - v0, v2 - v0) *)
Theorem C13_simplex_det_is_cross : forall (X Y : nat -> R) conns t,
  simplex_det X Y conns t
  = ((X (em_tri conns t 1%nat) - X (em_tri conns t 0%nat)) * (Y (em_tri conns t 2%nat) - Y (em_tri conns t 0%nat))
     - (X (em_tri conns t 2%nat) - X (em_tri conns t 0%nat)) * (Y (em_tri conns t 1%nat) - Y (em_tri conns t 0%nat)))%R.
Proof. exact simplex_det_cross. Qed.
Example C13_jacobian_nonvacuous :
  jac_cert_okb pe_quadratic 1 [(1, 0); (1 # 2, 1 # 2); (0, 1); (1 # 2, 0); (0, 1 # 2); (0, 0)]%Q
               [[0; 1; 2]; [2; 4; 5]; [5; 3; 0]] [0; 1 # 2; 1]%Q [1]
               [((1 # 3, 1 # 3), ([-1 # 9; 4 # 9; -1 # 9; 4 # 9; 4 # 9; -1 # 9],
                                  ([1 # 3; 4 # 3; 0; 0; -4 # 3; -1 # 3], [0; 4 # 3; 1 # 3; -4 # 3; 0; -1 # 3])))]%Q 0%Q 0%Q 4%Q = true
  /\ nth 0 (struct_conns 3 4) [] = [0; 1; 4]
  /\ simplex_det (fun n => INR (n mod 3)) (fun n => INR (n / 3)) (struct_conns 3 4) 0 = 1%R.
Proof. exact jacobian_nonvacuous. Qed.
(* NOT PROVED: binary64 rounding of the two matrix products (np.dot(A, coords[edgeConn]) and np.dot(A, coords[triConn])): the
   theorems are over R; the binary64 instance of the SAME definition em_coords is executed in Coq and compared with the
   implementation's coordinate array entry by entry (tolerance 4 ulp-scale units) on every run.  Non-degeneracy: that the shape
   functions optimism computes NUMERICALLY (onp.linalg.solve of the Vandermonde systems, binary64) reproduce the affine functions is
   proved only for the exact solution (C13_lagrange_shapes_reproduce_affine, every point) and CERTIFIED for the computed tables at the
   quadrature points (repro_cert_okb, tolerance 1e-11); that the Dubiner basis of vander2d spans P1 is a hypothesis of the Lagrange
   theorem (coefficient lists c1, cx, cy), not derived from the source; for the bubble elements (shape2dBubble) only the certified
   tables are covered, not the every-point statement. *)

Example C13_elevated_mesh_nonvacuous :
  elev_cert_okb pe_quadratic 1 [(1, 0); (1 # 2, 1 # 2); (0, 1); (1 # 2, 0); (0, 1 # 2); (0, 0)]%Q
                [[0; 1; 2]; [2; 4; 5]; [5; 3; 0]] [0; 1 # 2; 1]%Q [1] 0%Q = true
  /\ NoDup (all_faces (struct_conns 3 4)) /\ (forall f, In f (all_faces (struct_conns 3 4)) -> fst f <> snd f)
  /\ Forall (fun c => length c = 3) (struct_conns 3 4) /\ Forall (Forall (fun i => i < 12)) (struct_conns 3 4)
  /\ (forall n, n < 12 -> exists c, In c (struct_conns 3 4) /\ In n c)
  /\ nth 1 (nth 0 (elevated pe_quadratic 12 1 (struct_conns 3 4)) []) 0 = 12.
Proof. exact elevated_mesh_nonvacuous. Qed.
Example C13_nonvacuous : exists (xs ys : nat -> R),
  (forall i, S i < 3 -> (xs i < xs (S i))%R) /\ (forall j, S j < 4 -> (ys j < ys (S j))%R)
  /\ length (struct_conns 3 4) = 12 /\ NoDup (all_faces (struct_conns 3 4)).
Proof. exact structured_nonvacuous. Qed.

Print Assumptions C13_structured_valid.
Print Assumptions C13_edges_once.
Print Assumptions C13_edges_adjacency.
Print Assumptions C13_combine_offsets.
Print Assumptions C13_combine_blocks_no_loss.
Print Assumptions C13_combine_sidesets_no_loss.
Print Assumptions C13_reader_indices.
Print Assumptions C13_elevate_writes_survive.
Print Assumptions C13_elevate_conform.
Print Assumptions C13_elevate_every_entry_written.
Print Assumptions C13_elevate_affine_right.
Print Assumptions C13_elevated_mesh_certified.
Print Assumptions C13_elevated_mesh_shape.
Print Assumptions C13_read_exodus_sidesets.
Print Assumptions C13_read_exodus_mesh_whole_file.
Print Assumptions C13_read_block_maps.
Print Assumptions C13_isoparametric_map_is_affine_exact.
Print Assumptions C13_elevated_jacobian_certified.
