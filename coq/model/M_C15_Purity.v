(* C15: purity of predict / correct -- a store model of the Python statements they consist of.
   predict and correct are written with AUGMENTED assignments to their parameters (`U += ...`).  In Python `x += e` calls
   x.__iadd__: for a writable numpy.ndarray that ADDS IN PLACE into the object the caller also holds; for an immutable array
   (jax.Array, tracer) it falls back to x = x + e, a fresh object.  Under jax.jit the body only ever sees tracers (immutable,
   distinct from the caller's objects).  This file models exactly that:
     heap   = list of objects (value, writable?)            -- addresses are positions
     env    = association list  name -> address
     stmt   = x = y (alias: another name for the same object) | x = <expression> (fresh object) | x += <expression>
   The VALUE computed by a statement is an oracle `ev` (statement number, values read) -- the arithmetic is the business of
   the regenerated kernels (gen/Gen_Mechanics.v); here only WHERE results are stored matters.  Whether a fresh object is
   writable is an oracle too (`fm`): numpy arithmetic yields writable arrays, jax arithmetic immutable ones.
   The statement lists of the real functions and whether the factory wraps them in jit are regenerated from the AST on every
   run (gen/CFG_c15.v, tools/vlib/extract_c15.py).  Executable definitions only. *)
From Coq Require Import String List Bool Arith.
Import ListNotations.

Inductive rhs : Type :=
| RAlias (y : string)                 (* a bare name: the target becomes one more name of the same object *)
| RExpr (reads : list string).        (* a side-effect-free expression over the names read: a fresh object *)
Inductive stmt : Type :=
| SAssign (x : string) (r : rhs)
| SAug (x : string) (reads : list string).       (* x += expression *)
Record fn : Type := mkFn { f_params : list string; f_body : list stmt; f_ret : list string }.

Fixpoint lookup (env : list (string * nat)) (x : string) : option nat :=
  match env with
  | [] => None
  | (y, l) :: r => if String.eqb x y then Some l else lookup r x
  end.
Fixpoint upd {A : Type} (h : list A) (n : nat) (a : A) : list A :=
  match h, n with
  | [], _ => []
  | _ :: t, O => a :: t
  | x :: t, S k => x :: upd t k a
  end.
Fixpoint mem (x : string) (l : list string) : bool :=
  match l with [] => false | y :: r => String.eqb x y || mem x r end.
Fixpoint remove_name (x : string) (l : list string) : list string :=
  match l with [] => [] | y :: r => if String.eqb x y then remove_name x r else y :: remove_name x r end.

Section Exec.
  Variable V : Type.
  Variable dv : V.
  Variable ev : nat -> list V -> V.      (* value produced by statement number k from the values it reads *)
  Variable fm : nat -> bool.             (* is the fresh object made by statement number k writable? *)
  Definition obj : Type := (V * bool)%type.
  Definition heap : Type := list obj.
  Definition dobj : obj := (dv, false).
  Definition val (h : heap) (env : list (string * nat)) (y : string) : V :=
    match lookup env y with Some l => fst (nth l h dobj) | None => dv end.

  Definition exec1 (k : nat) (s : stmt) (eh : list (string * nat) * heap) : list (string * nat) * heap :=
    let '(env, h) := eh in
    match s with
    | SAssign x (RAlias y) =>
        match lookup env y with
        | Some l => ((x, l) :: env, h)
        | None => ((x, length h) :: env, h ++ [(dv, fm k)])        (* unbound name (NameError in Python): totalised as a fresh object *)
        end
    | SAssign x (RExpr rd) => ((x, length h) :: env, h ++ [(ev k (map (val h env) rd), fm k)])
    | SAug x rd =>
        match lookup env x with
        | Some l =>
            let v := ev k (val h env x :: map (val h env) rd) in
            if snd (nth l h dobj) then (env, upd h l (v, true))               (* ndarray.__iadd__: in place *)
            else ((x, length h) :: env, h ++ [(v, fm k)])                      (* immutable: x = x + e *)
        | None => (env, h)
        end
    end.
  Fixpoint exec (k : nat) (body : list stmt) (eh : list (string * nat) * heap) : list (string * nat) * heap :=
    match body with [] => eh | s :: r => exec (S k) r (exec1 k s eh) end.

  (* a call: `wrapped` = the function object handed out is jit(f): the body runs on fresh immutable copies (tracers) of the
     arguments; otherwise the parameters are bound to the caller's own objects.  Result: final heap, addresses returned. *)
  Definition call (wrapped : bool) (f : fn) (h : heap) (args : list nat) : heap * list (option nat) :=
    let '(env0, h0) :=
      if wrapped then (combine (f_params f) (seq (length h) (length args)), h ++ map (fun l => (fst (nth l h dobj), false)) args)
      else (combine (f_params f) args, h) in
    let '(env1, h1) := exec 0 (f_body f) (env0, h0) in
    (h1, map (lookup env1) (f_ret f)).
End Exec.

(* static check: no augmented assignment to a name that may still denote one of the caller's objects *)
Fixpoint safe_body (tainted : list string) (body : list stmt) : bool :=
  match body with
  | [] => true
  | SAssign x (RAlias y) :: r => safe_body (if mem y tainted then x :: tainted else remove_name x tainted) r
  | SAssign x (RExpr _) :: r => safe_body (remove_name x tainted) r
  | SAug x _ :: r => if mem x tainted then false else safe_body tainted r
  end.
Definition safe (wrapped : bool) (f : fn) : bool := wrapped || safe_body (f_params f) (f_body f).

(* observable store behaviour of one call with four arguments (three arrays and the step size; the step size is an immutable
   number; `args` = their addresses, which may repeat: predict(U, U, A, dt) passes the same object twice): which of the caller's four objects were written, and for every returned name whether it is one of the caller's objects
   (its address) or a fresh one (-1).  Values count writes: an augmented assignment increments, so "written" = value <> 0.
   Compared by the harness with what CPython / numpy / jax do with the real function objects (tools/props/c15.py, store tie). *)
Definition store_signature_at (wrapped : bool) (f : fn) (writable : bool) (args : list nat) : list (list nat) :=
  let h : heap nat := [(0, writable); (0, writable); (0, writable); (0, false)] in
  let '(h1, rets) := call nat 0 (fun _ vs => S (hd 0 vs)) (fun _ => writable) wrapped f h args in
  [ map (fun l => fst (nth l h1 (dobj nat 0))) [0; 1; 2; 3];
    map (fun r => match r with Some l => if Nat.ltb l 4 then S l else 0 | None => 99 end) rets ].
Definition store_signature (wrapped : bool) (f : fn) (writable : bool) : list (list nat) := store_signature_at wrapped f writable [0; 1; 2; 3].

Local Open Scope string_scope.
(* predict as written at the time of writing (NOT the tie -- that is gen/CFG_c15.v): witness for the refutation *)
Definition predict_as_written : fn :=
  mkFn ["U"; "V"; "A"; "dt"] [SAug "U" ["dt"; "V"; "dt"; "dt"; "A"]; SAug "V" ["dt"; "A"]] ["U"; "V"].
