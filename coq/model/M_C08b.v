(* C08 (extension): the complete three-branch (Prony) energy of MultiBranchHyperViscoelastic._energy_density with one
   log_sqrt_symm parameter PER BRANCH.  M_C08.E_mb passes the same function to the three branches (as the source does);
   E_mb3 is the same composition of the same generated kernels with the three call sites separated, so that the correspondence
   stream can feed each call site the value the implementation's log_sqrt_symm returned there and evaluate THE definition the
   theorems are about (E_mb lss = E_mb3 lss lss lss holds by computation for every carrier, proofs/L_C08b.v).  No proofs here. *)
From Coq Require Import ZArith QArith List.
From OV.base Require Import Num.
From OV.gen Require Import Gen_TensorMath Gen_MultiBranchHyperViscoelastic.
From OV.model Require Import M_C08.

Section M.
  Context {T : Type} {NT : Num T}.
  Definition E_mb3 (l1 l2 l3 : mat T -> mat T) (p : p8) (Fv1 Fv2 Fv3 : mat T) (dt : T) (H : mat T) : T :=
    let W_eq := E_mb_eq p H in
    let '(w1, s1) := mb_branch (@_compute_state_increment_b1 T NT) (@_neq_strain_energy_b1 T NT) (@_dissipation_potential_b1 T NT) l1 p Fv1 dt H in
    let '(w2, s2) := mb_branch (@_compute_state_increment_b2 T NT) (@_neq_strain_energy_b2 T NT) (@_dissipation_potential_b2 T NT) l2 p Fv2 dt H in
    let '(w3, s3) := mb_branch (@_compute_state_increment_b3 T NT) (@_neq_strain_energy_b3 T NT) (@_dissipation_potential_b3 T NT) l3 p Fv3 dt H in
    let W_neq := nadd (nadd (nadd nzero w1) w2) w3 in
    let Psi := nadd (nadd (nadd nzero s1) s2) s3 in
    nadd (nadd W_eq W_neq) (nmul dt Psi).
End M.
