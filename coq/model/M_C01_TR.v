(* C01 -- hand model of optimism/EquationSolver.py: trust_region_minimize as a fuelled state machine, generic in Num T.
   Oracles (Section variables): value, grad, hessvec, precond, mult_approx; the preconditioner state is the point at which
   update_precond was last called (xp).  The decision expressions are literal: rho = realImprove/modelImprove with IEEE-like
   division by zero, its re-signing when modelObjective > 0, `not rho >= eta2`, willAccept.  Output: returned point, flag and
   the trace of events mirroring every callback(x, objective), every update_precond(x) and every return.
   Executable definitions only. *)
From Coq Require Import ZArith QArith List Bool.
From OV.base Require Import Num.
From OV.model Require Import M_C06_Vec M_C06_CG.
Import ListNotations.

(* a quotient with IEEE-like behaviour at a zero denominator.  At T := R the zero is +0; at T := float the sign of the zero
   is recovered from 1/den, so the classification coincides with native binary64 division. *)
Inductive ext (T : Type) := Fin (t : T) | PInf | NInf | ENaN.
Arguments Fin {T} t. Arguments PInf {T}. Arguments NInf {T}. Arguments ENaN {T}.

Section Ext.
  Context {T : Type} {NT : Num T}.
  Definition ediv (num den : T) : ext T :=
    if neqb den nzero then
      let s := if nltb (ndiv nunit den) nzero then nopp num else num in     (* negative zero flips the sign *)
      if nltb nzero s then PInf else if nltb s nzero then NInf else ENaN
    else Fin (ndiv num den).
  Definition ege (r : ext T) (thr : T) : bool :=        (* r >= thr *)
    match r with Fin q => nleb thr q | PInf => true | NInf => false | ENaN => false end.
  Definition egt (r : ext T) (thr : T) : bool :=        (* r > thr *)
    match r with Fin q => nltb thr q | PInf => true | NInf => false | ENaN => false end.
  Definition efloat (r : ext T) : T :=                  (* for reporting only *)
    match r with Fin q => q | PInf => ndiv nunit nzero | NInf => ndiv (nopp nunit) nzero | ENaN => ndiv nzero nzero end.
End Ext.

Record settings (T : Type) := {
  s_t1 : T; s_t2 : T; s_eta1 : T; s_eta2 : T; s_eta3 : T;
  s_max_trust_iters : nat; s_tol : T; s_max_cg_iters : nat; s_max_cumulative_cg_iters : nat;
  s_cg_tol : T; s_cg_ratio : T; s_tr_size : T; s_min_tr_size : T;
  s_use_pc_ip : bool; s_use_incremental : bool }.
Arguments s_t1 {T}. Arguments s_t2 {T}. Arguments s_eta1 {T}. Arguments s_eta2 {T}. Arguments s_eta3 {T}.
Arguments s_max_trust_iters {T}. Arguments s_tol {T}. Arguments s_max_cg_iters {T}. Arguments s_max_cumulative_cg_iters {T}.
Arguments s_cg_tol {T}. Arguments s_cg_ratio {T}. Arguments s_tr_size {T}. Arguments s_min_tr_size {T}.
Arguments s_use_pc_ip {T}. Arguments s_use_incremental {T}.

Inductive event (T : Type) :=
| EConvergedInit (x : list T)          (* callback(x) + return (x, True) from the initial test *)
| EAccept (x : list T) (o : T)         (* callback(x) after an accepted step; o = objective.value(x) as recomputed by the solver *)
| EConverged (y : list T)              (* callback(y) + return (y, True) *)
| ETooSmall (x : list T)               (* callback(x) + return (x, False): radius still too small *)
| EMaxIters (x : list T)               (* return (x, False) after max_trust_iters (no callback: it sits under check_stability) *)
| EPrecond (x : list T)                (* objective.update_precond(x) *)
| EOutOfFuel.                          (* model artefact: inner-loop fuel exhausted *)
Arguments EConvergedInit {T}. Arguments EAccept {T}. Arguments EConverged {T}. Arguments ETooSmall {T}.
Arguments EMaxIters {T}. Arguments EPrecond {T}. Arguments EOutOfFuel {T}.

Section TR.
  Context {T : Type} {NT : Num T}.
  Local Notation vec := (list T).
  Variable value : vec -> T.
  Variable grad : vec -> vec.
  Variable hessvec : vec -> vec -> vec.         (* objective.hessian_vec(x, v) *)
  Variable precond : vec -> vec -> vec.         (* apply_precond(v) in preconditioner state xp *)
  Variable mult_approx : vec -> vec -> vec.     (* multiply_by_approx_hessian(v) in preconditioner state xp *)
  Variable S : settings T.

  Record st := { c_x : vec; c_g : vec; c_o : T; c_gNorm : T; c_tr : T; c_tried : bool; c_cum : nat; c_xp : vec }.

  Inductive inner_out :=
  | IReturn (x : vec) (flag : bool) (ev : list (event T))
  | IContinue (s : st) (ev : list (event T))
  | IFuel (ev : list (event T)).

  Definition prepend (ev : list (event T)) (o : inner_out) : inner_out :=
    match o with
    | IReturn x f e => IReturn x f (ev ++ e)
    | IContinue s e => IContinue s (ev ++ e)
    | IFuel e => IFuel (ev ++ e)
    end.

  Definition mult_of (xp : vec) : vec -> vec := if s_use_pc_ip S then mult_approx xp else (fun v => v).
  Definition tol2 : T := npow (s_tol S) 2.

  (* the acceptance ratio exactly as computed: rho = realImprove/modelImprove, re-signed when modelObjective > 0 *)
  Definition rho_of (modelObjective realObjective : T) : ext T :=
    let modelImprove := nopp modelObjective in
    let realImprove := nopp realObjective in
    if nltb nzero modelObjective then ediv realImprove (nopp modelImprove) else ediv realImprove modelImprove.

  Definition will_accept (rho : ext T) (realResNorm gNorm : T) : bool :=
    orb (ege rho (s_eta1 S)) (andb (ege rho nzero) (nleb realResNorm gNorm)).

  Definition new_radius (rho : ext T) (stepType : steptag) (tr : T) : T :=
    if negb (ege rho (s_eta2 S)) then nmul tr (s_t1 S)
    else if andb (egt rho (s_eta3 S)) (is_on_boundary stepType) then nmul tr (s_t2 S)
    else tr.

  (* the real objective change of the trial step *)
  Definition real_objective (s : st) (d y : vec) : T :=
    if s_use_incremental S then nmul nhalf (vdot (vadd (c_g s) (grad y)) d)
    else nsub (value y) (c_o s).

  (* one `while not happyAboutTrSize` loop; cp, qn: cauchyPoint, qNewtonPoint of this outer iteration *)
  Fixpoint inner (fuel : nat) (s : st) (cp qn : vec) (stepType : steptag) (cgIters : nat) : inner_out :=
    match fuel with
    | O => IFuel [EOutOfFuel]
    | Datatypes.S fuel' =>
      let d := dogleg_step (mult_of (c_xp s)) cp qn (c_tr s) in
      let Jd := hessvec (c_x s) d in
      let modelObjective := nadd (vdot (c_g s) d) (nmul nhalf (vdot d Jd)) in
      let y := vadd (c_x s) d in
      let realObjective := real_objective s d y in
      let gy := grad y in
      if nltb (vdot gy gy) tol2 then IReturn y true [EConverged y]
      else
        let rho := rho_of modelObjective realObjective in
        let tr' := new_radius rho stepType (c_tr s) in
        let realResNorm := vnorm gy in
        if will_accept rho realResNorm (c_gNorm s) then
          (* x = y; g = gy; o = objective.value(x); ...; happyAboutTrSize = True; callback *)
          let oy := value y in
          let ev1 := [EAccept y oy] in
          let upd := orb (Nat.leb (s_max_cg_iters S) cgIters) (Nat.leb (s_max_cumulative_cg_iters S) (c_cum s)) in
          let xp2 := if upd then y else c_xp s in
          let cum2 := if upd then O else c_cum s in
          let ev2 := if upd then [EPrecond y] else [] in
          if nltb tr' (s_min_tr_size S) then
            (* triedNewPrecond was just reset to False: update precond and try again *)
            IContinue {| c_x := y; c_g := gy; c_o := oy; c_gNorm := realResNorm; c_tr := s_tr_size S; c_tried := true;
                         c_cum := O; c_xp := y |} (ev1 ++ ev2 ++ [EPrecond y])
          else
            IContinue {| c_x := y; c_g := gy; c_o := oy; c_gNorm := realResNorm; c_tr := tr'; c_tried := false;
                         c_cum := cum2; c_xp := xp2 |} (ev1 ++ ev2)
        else
          (* rejected: stepType = boundary; cgIters = 0 *)
          let upd := orb (Nat.leb (s_max_cg_iters S) O) (Nat.leb (s_max_cumulative_cg_iters S) (c_cum s)) in
          let xp2 := if upd then c_x s else c_xp s in
          let cum2 := if upd then O else c_cum s in
          let ev2 := if upd then [EPrecond (c_x s)] else [] in
          if nltb tr' (s_min_tr_size S) then
            if negb (c_tried s) then
              IContinue {| c_x := c_x s; c_g := c_g s; c_o := c_o s; c_gNorm := c_gNorm s; c_tr := s_tr_size S; c_tried := true;
                           c_cum := O; c_xp := c_x s |} (ev2 ++ [EPrecond (c_x s)])
            else IReturn (c_x s) false (ev2 ++ [ETooSmall (c_x s)])
          else
            prepend ev2
              (inner fuel' {| c_x := c_x s; c_g := c_g s; c_o := c_o s; c_gNorm := c_gNorm s; c_tr := tr'; c_tried := c_tried s;
                              c_cum := cum2; c_xp := xp2 |} cp qn Boundary O)
    end.

  (* the step proposal of one outer iteration: Cauchy point, quasi-Newton point, step type, CG iterations *)
  Definition propose (s : st) : vec * vec * steptag * nat :=
    let x := c_x s in let g := c_g s in let tr := c_tr s in
    let Hv := hessvec x in
    let mult := mult_of (c_xp s) in
    let gKg := vdot g (Hv g) in
    let '(cp, cpn2) :=
      if nltb nzero gKg then
        let alpha := ndiv (nopp (vdot g g)) gKg in
        let cp := vscale alpha g in (cp, vdot cp (mult cp))
      else (vscale (ndiv tr (nsqrt (vdot g (mult g)))) (vneg g), nmul tr tr) in
    if nleb (nmul tr tr) cpn2 then
      let cp' := vscale (ndiv tr (nsqrt cpn2)) cp in (cp', cp', Boundary, 1%nat)
    else
      let res := solve_trust_region_minimization Hv (precond (c_xp s)) (s_use_pc_ip S) tr (s_cg_tol S) (s_cg_ratio S)
                   (s_max_cg_iters S) x g in
      (cp, cg_z res, cg_tag res, cg_iters res).

  Fixpoint outer (iters fuel : nat) (s : st) : vec * bool * list (event T) :=
    match iters with
    | O => (c_x s, false, [EMaxIters (c_x s)])
    | Datatypes.S k =>
      let '(cp, qn, stepType, cgIters) := propose s in
      let s1 := {| c_x := c_x s; c_g := c_g s; c_o := c_o s; c_gNorm := c_gNorm s; c_tr := c_tr s; c_tried := c_tried s;
                   c_cum := (c_cum s + cgIters)%nat; c_xp := c_xp s |} in
      match inner fuel s1 cp qn stepType cgIters with
      | IReturn x flag ev => (x, flag, ev)
      | IContinue s' ev => let '(x, flag, ev') := outer k fuel s' in (x, flag, ev ++ ev')
      | IFuel ev => (c_x s, false, ev)
      end
    end.

  (* trust_region_minimize(objective, x, settings, callback); xp0: preconditioner state on entry *)
  Definition trust_region_minimize (fuel : nat) (x xp0 : vec) : vec * bool * list (event T) :=
    let g := grad x in
    let o := value x in
    let gNorm := vnorm g in
    if nltb (vdot g g) tol2 then (x, true, [EConvergedInit x])
    else outer (s_max_trust_iters S) fuel
           {| c_x := x; c_g := g; c_o := o; c_gNorm := gNorm; c_tr := s_tr_size S; c_tried := false; c_cum := O; c_xp := xp0 |}.
End TR.

(* ---- the objective family used by the correspondence: f(x) = x.Ax/2 + b.x + sum c_i x_i^3 + sum d_i x_i^4,
        hessian_vec optionally inconsistent (A+E), preconditioner kinds: 0 identity, 1 diagonal at the update point, 2 stale diagonal, 3 mismatched *)
Section Poly.
  Context {T : Type} {NT : Num T}.
  Local Notation vec := (list T).
  Variables (A E : list vec) (b c d : vec) (pkind : nat) (x0 : vec).
  Definition cube (x : vec) : vec := vmul (vmul x x) x.
  Definition quart (x : vec) : vec := vmul (vmul (vmul x x) x) x.
  Definition three : T := nZ 3. Definition four : T := nZ 4. Definition six : T := nZ 6. Definition twelve : T := nZ 12.
  Definition quarter : T := nconst (1 # 4) (1, -2)%Z.
  Definition pvalue (x : vec) : T :=
    nadd (nadd (nadd (nmul nhalf (vdot x (matvec A x))) (vdot b x)) (vdot c (cube x))) (vdot d (quart x)).
  Definition pgrad (x : vec) : vec :=
    vadd (vadd (vadd (matvec A x) b) (vscale three (vmul c (vmul x x)))) (vscale four (vmul d (cube x))).
  Definition phess_diag_extra (x : vec) : vec := vadd (vscale six (vmul c x)) (vscale twelve (vmul d (vmul x x))).
  Definition phessvec (x v : vec) : vec := vadd (vadd (matvec A v) (matvec E v)) (vmul (phess_diag_extra x) v).
  Fixpoint diag_of (m : list vec) (i : nat) : vec :=
    match m with [] => [] | row :: m' => nth i row nzero :: diag_of m' (Datatypes.S i) end.
  Definition pdiag (xp : vec) : vec :=       (* max(|H_ii(xp)|, 1/4) *)
    map (fun h => nmax (nabs h) quarter) (vadd (diag_of A O) (phess_diag_extra xp)).
  (* kind 3: diagonal preconditioner but identity approximate Hessian (deliberately inconsistent oracles) *)
  Definition pprecond (xp v : vec) : vec :=
    match pkind with O => v | 1%nat => vdiv v (pdiag xp) | 2%nat => vdiv v (pdiag x0) | _ => vdiv v (pdiag xp) end.
  Definition pmult (xp v : vec) : vec :=
    match pkind with O => v | 1%nat => vmul v (pdiag xp) | 2%nat => vmul v (pdiag x0) | _ => v end.
End Poly.
