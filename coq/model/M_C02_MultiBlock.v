(* C02: the three per-block loops of optimism/Mechanics.py (create_multi_block_mechanics_functions) written over the gather model
   of FunctionSpace.evaluate_on_block (M_C02_Assembly.v, Section Gather) and the .at[elemIds].set scatter (M_C14_Dof.scatter).
   Definitions only.
     E : one element's row of every per-element array (its state, connectivity, shapes, shape gradients, volumes) -- with the
         global field U and dt fixed, everything an element kernel reads;
     M : a material model (an entry of the blockModels dict); the loops run over the dict in insertion order and read
         elemIds = mesh.blocks[blockKey], so the data is the list of (elemIds, material) pairs. *)
From Coq Require Import ZArith List Bool Arith.
From OV.model Require Import M_C14_Dof M_C02_Assembly.
Import ListNotations.

Section MultiBlock.
  Context {V : Type} (vzero : V) (vadd vmul : V -> V -> V).
  Context {E M S H : Type} (edef : E).
  Variable ek : M -> E -> list V.     (* energy density of the material at the element's quadrature points *)
  Variable vols : E -> list V.        (* functionSpace.vols[e] *)
  Variable sk : M -> E -> S.          (* compute_state_new over the element's quadrature points (from dispGrads[e], states[e]) *)
  Variable hk : M -> E -> H.          (* element_hess_func with the material's Lagrangian on the element's own rows *)

  (* _compute_strain_energy_multi_block: energy = 0.0; for blockKey: energy += integrate_over_block(..., L(material), elemIds) *)
  Definition mb_energy (elems : list E) (bms : list (list nat * M)) : V :=
    fold_left (fun acc bm => vadd acc (integrate_over_block vzero vadd vmul edef (ek (snd bm)) vols elems (fst bm))) bms vzero.
  (* _compute_strain_energy: integrate_over_block(..., slice(None)) *)
  Definition sb_energy (elems : list E) (m : M) : V :=
    integrate_over_block vzero vadd vmul edef (ek m) vols elems (seq 0 (length elems)).

  (* _compute_updated_internal_variables_multi_block: statesNew = array(states); for blockKey:
       statesNew = statesNew.at[elemIds].set(vmap(compute_state_new)(dispGrads[elemIds], states[elemIds])) *)
  Definition mb_states (elems : list E) (bms : list (list nat * M)) (base : list S) : list S :=
    fold_left (fun acc bm => scatter acc (fst bm) (map (sk (snd bm)) (gather edef elems (fst bm)))) bms base.
  Definition sb_states (elems : list E) (m : M) : list S := map (sk m) elems.

  (* _compute_element_stiffnesses_multi_block: elementHessians = zeros; for blockKey:
       elementHessians = elementHessians.at[elemIds].set(vmap(element stiffness)(..., states[elemIds], conns[elemIds], shapes[elemIds], ...)) *)
  Definition mb_hessians (elems : list E) (bms : list (list nat * M)) (zeros : list H) : list H :=
    fold_left (fun acc bm => scatter acc (fst bm) (map (hk (snd bm)) (gather edef elems (fst bm)))) bms zeros.
  Definition sb_hessians (elems : list E) (m : M) : list H := map (hk m) elems.
End MultiBlock.

(* ---------- correspondence case (integers).  Per element: for every material k its energy-density values, new state row and
   flat element Hessian (reference values computed per element from the element's own rows), and its volumes.  Materials are
   indices; an element is (per-material energy values, volumes, per-material new states, per-material Hessians). *)
Definition mbE : Type := (list (list Z) * list Z) * (list (list Z) * list (list Z)).
Definition run_mb_case (elems : list mbE) (blocks : list (list Z)) (mats : list Z) (base zeros : list (list Z)) : list Z :=
  let bms := combine (map nl blocks) (map Z.to_nat mats) in
  let edef : mbE := (([], []), ([], [])) in
  let ek := fun (m : nat) (e : mbE) => nth m (fst (fst e)) [] in
  let vl := fun (e : mbE) => snd (fst e) in
  let sk := fun (m : nat) (e : mbE) => nth m (fst (snd e)) [] in
  let hk := fun (m : nat) (e : mbE) => nth m (snd (snd e)) [] in
  pack [ [mb_energy 0%Z Z.add Z.mul edef ek vl elems bms];
         concat (mb_states edef sk elems bms base);
         concat (mb_hessians edef hk elems bms zeros) ].

(* ---------- round 4: element batching.  Evaluating a per-element kernel "a batch of elements at a time": every batch is a list of
   element ids, the kernel is mapped over the gathered rows, the batch results are concatenated and truncated to the number of
   elements (the harness's chunked reference computation has this shape; so would a batched element map in FunctionSpace). *)
Definition batched_map {E H : Type} (edef : E) (f : E -> H) (elems : list E) (batches : list (list nat)) : list H :=
  firstn (length elems) (concat (map (fun ids => map f (gather edef elems ids)) batches)).

(* fixed-size windows [b*c, b*c + c) whose start is clamped so that the window fits (lax.dynamic_slice semantics) *)
Definition clamped_windows (n c : nat) : list (list nat) :=
  map (fun b => seq (Nat.min (b * c) (n - c)) c) (seq 0 ((n + c - 1) / c)).

