(* C05 -- hand model of optimism/TrustRegionSPG.py: project, project_onto_tr (brentq's answer t is an oracle value),
   the SPG step-length rule, and bound_constrained_trust_region_minimize as a state machine in which the step proposal of
   each outer iteration (find_generalized_cauchy_point + solve_spg_subproblem) is an ORACLE: the harness logs what the
   implementation's solve_spg_subproblem returned and feeds it to the model.  The acceptance logic (rho, its re-signing,
   `not rho >= eta2`, willAccept) is the same literal code as in trust_region_minimize and reuses model/M_C01_TR.v.
   Bounds are pairs of options: None stands for -inf (lower) / +inf (upper).  Executable definitions only. *)
From Coq Require Import ZArith QArith List Bool.
From OV.base Require Import Num.
From OV.gen Require Import Gen_TrustRegionSPG.
From OV.model Require Import M_C06_Vec M_C06_CG M_C01_TR.
Import ListNotations.

Section Box.
  Context {T : Type} {NT : Num T}.
  Local Notation vec := (list T).
  Definition bound := (option T * option T)%type.

  (* np.maximum(lb, np.minimum(x, ub)) for one component; None = infinite bound.  With both bounds finite this is the regenerated
     kernel project_n1 (proofs/L_C05.v: clamp_is_generated, project_is_generated_n2/n3) *)
  Definition clamp (x : T) (b : bound) : T :=
    let m := match snd b with Some u => if nltb x u then x else u | None => x end in
    match fst b with Some l => if nltb l m then m else l | None => m end.
  Fixpoint project (x : vec) (bs : list bound) : vec :=
    match x, bs with xi :: x', b :: bs' => clamp xi b :: project x' bs' | _, _ => [] end.

  (* project_onto_tr(x, xk, bounds, trSize); t = what optimize.brentq returned (only read when the root find is needed) *)
  Definition tr_residual (x xk : vec) (bs : list bound) (trSize t : T) : T :=      (* f(t) *)
    let r := vsub (project (vaxpy xk t (vsub x xk)) bs) xk in nsub (vdot r r) (nmul trSize trSize).
  Definition needs_root_find (x xk : vec) (bs : list bound) (trSize : T) : bool :=
    let d := vsub (project x bs) xk in negb (nleb (vdot d d) (nmul trSize trSize)).
  (* since repo fix (finding F15): the point found by the root finder is pulled back toward xk when it overshoots the radius
       d = p - xk; dist = np.linalg.norm(d); if dist > trSize: p = project(xk + (trSize/dist)*d, bounds) *)
  Definition pull_back (p xk : vec) (bs : list bound) (trSize : T) : vec :=
    let d := vsub p xk in
    let dist := vnorm d in
    if nltb trSize dist then project (vaxpy xk (ndiv trSize dist) d) bs else p.
  Definition project_onto_tr (x xk : vec) (bs : list bound) (trSize t : T) : vec :=
    if needs_root_find x xk bs trSize then pull_back (project (vaxpy xk t (vsub x xk)) bs) xk bs trSize else project x bs.

  (* the step length used by one SPG iteration (repo commit d722144):
       alpha = line_search(ds, sBs, q, qMax, settings)
       alpha = min(1.0, max(0.0, alpha)) if sBs > 0 else 1.0
     Both line searches AND the clip statement are the kernels regenerated from the source (gen/Gen_TrustRegionSPG.v:
     nonmonotone_line_search, kouri_exact_line_search, spg_step_clip = the 2nd of the 2 assignments to alpha in
     solve_spg_subproblem, python's min/max with CPython's evaluation order: a NaN is clipped to 0). *)
  Definition line_search_alpha (nonmonotone : bool) (ds sBs q qMax : T) : T :=
    if nonmonotone then nonmonotone_line_search ds sBs q qMax nzero else kouri_exact_line_search ds sBs q qMax nzero.
  Definition spg_alpha (nonmonotone : bool) (ds sBs q qMax : T) : T :=
    spg_step_clip (line_search_alpha nonmonotone ds sBs q qMax) sBs.
  (* z += alpha*s with s = project_onto_tr(...) - xNew : the new trial point x + z *)
  Definition spg_update (xNew p : vec) (alpha : T) : vec := vaxpy xNew alpha (vsub p xNew).

  (* projected-gradient optimality measure |P(y - g) - y| *)
  Definition optimality (y gy : vec) (bs : list bound) : T := vnorm (vsub (project (vsub y gy) bs) y).
End Box.

Section BC.
  Context {T : Type} {NT : Num T}.
  Local Notation vec := (list T).
  Variable value : vec -> T.
  Variable grad : vec -> vec.
  Variable bs : list (@bound T).
  (* oracle: the k-th outer iteration's (s, modelObjective, stepType == 'boundary', spgIters) as returned by
     solve_spg_subproblem (after find_generalized_cauchy_point), given the current iterate *)
  Variable proposal : nat -> vec -> vec * T * bool * nat.
  Variable S : settings T.      (* s_max_cg_iters := max_spg_iters, s_max_cumulative_cg_iters := max_cumulative_spg_iters *)

  Record bst := { b_x : vec; b_g : vec; b_o : T; b_prevOpt : T; b_tr : T; b_tried : bool; b_cum : nat }.

  Fixpoint bc_outer (iters k : nat) (s : bst) : vec * bool * list (event T) :=
    match iters with
    | O => (b_x s, false, [EMaxIters (b_x s)])
    | Datatypes.S iters' =>
      let '(sv, modelObjective, onBoundary, spgIters) := proposal k (b_x s) in
      let cum := (b_cum s + spgIters)%nat in
      let y := vadd (b_x s) sv in
      let realObjective :=
        if s_use_incremental S then nmul nhalf (vdot (vadd (b_g s) (grad y)) sv) else nsub (value y) (b_o s) in
      let gy := grad y in
      let realOpt := optimality y gy bs in
      if nltb realOpt (s_tol S) then (y, true, [EConverged y])
      else
        let rho := rho_of modelObjective realObjective in
        let tr' := new_radius S rho (if onBoundary then Boundary else Interior) (b_tr s) in
        let acc := will_accept S rho realOpt (b_prevOpt s) in
        let x1 := if acc then y else b_x s in
        let g1 := if acc then gy else b_g s in
        let o1 := if acc then value y else b_o s in
        let p1 := if acc then realOpt else b_prevOpt s in
        let tried1 := if acc then false else b_tried s in
        let ev1 := if acc then [EAccept y (value y)] else [] in
        let cum1 := if orb (Nat.leb (s_max_cg_iters S) spgIters) (Nat.leb (s_max_cumulative_cg_iters S) cum) then O else cum in
        if nltb tr' (s_min_tr_size S) then
          if negb tried1 then
            let '(x, f, ev) := bc_outer iters' (Datatypes.S k)
                 {| b_x := x1; b_g := g1; b_o := o1; b_prevOpt := p1; b_tr := s_tr_size S; b_tried := true; b_cum := O |} in
            (x, f, ev1 ++ [EPrecond x1] ++ ev)
          else (x1, false, ev1 ++ [ETooSmall x1])
        else
          let '(x, f, ev) := bc_outer iters' (Datatypes.S k)
               {| b_x := x1; b_g := g1; b_o := o1; b_prevOpt := p1; b_tr := tr'; b_tried := tried1; b_cum := cum1 |} in
          (x, f, ev1 ++ ev)
    end.

  Definition bc_minimize (x : vec) : vec * bool * list (event T) :=
    let g := grad x in
    let o := value x in
    let prevOpt := optimality x g bs in
    if nltb prevOpt (s_tol S) then (x, true, [EConvergedInit x])
    else bc_outer (s_max_trust_iters S) O
           {| b_x := x; b_g := g; b_o := o; b_prevOpt := prevOpt; b_tr := s_tr_size S; b_tried := false; b_cum := O |}.
End BC.
