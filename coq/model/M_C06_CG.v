(* C06 -- hand model of optimism/EquationSolver.py: solve_trust_region_minimization (Steihaug-Toint truncated CG),
   dogleg_step / preconditioned_project_to_boundary, and EquationSolverSubspace.trust_region_cg.
   The scalar kernels (tau of project_to_boundary_with_coefs, update_step_length_squared, the Gould recurrences) are the
   definitions re-translated from the source on every run (gen/Gen_EquationSolver*.v).  Executable definitions only. *)
From Coq Require Import ZArith QArith List Bool.
From OV.base Require Import Num.
From OV.gen Require Import Gen_EquationSolver Gen_EquationSolverSubspace.
From OV.model Require Import M_C06_Vec.
Import ListNotations.

Inductive steptag := Interior | Boundary | NegCurve | InteriorCap.   (* 'interior' 'boundary' 'neg curve' 'interior_' *)
Definition tag_code (t : steptag) : Z :=
  match t with Interior => 0 | Boundary => 1 | NegCurve => 2 | InteriorCap => 3 end%Z.
Definition is_on_boundary (t : steptag) : bool := match t with Boundary | NegCurve => true | _ => false end.

Section CG.
  Context {T : Type} {NT : Num T}.
  Local Notation vec := (list T).

  (* tau of project_to_boundary_with_coefs: the source function is polymorphic in (z, d); at z = 0, d = 1 it returns tau *)
  Definition tau_coefs (trSize zz zd dd : T) : T :=
    project_to_boundary_with_coefs nzero nunit trSize zz zd dd.
  Definition tau_coefs_ss (trSize zz zd dd : T) : T :=
    ss_project_to_boundary_with_coefs nzero nunit trSize zz zd dd.
  (* project_to_boundary_with_coefs on vectors: z + tau*d *)
  Definition project_coefs (z d : vec) (trSize zz zd dd : T) : vec := vaxpy z (tau_coefs trSize zz zd dd) d.
  Definition project_coefs_ss (z d : vec) (trSize zz zd dd : T) : vec := vaxpy z (tau_coefs_ss trSize zz zd dd) d.

  Record cgres := { cg_z : vec; cg_cauchy : vec; cg_tag : steptag; cg_iters : nat }.

  Section Solve.
    Variable hess_vec precond : vec -> vec.      (* oracles: hess_vec_func, precond *)
    Variable use_pc_ip : bool.                    (* settings.use_preconditioned_inner_product_for_cg *)
    Variable trSize cg_tol cg_ratio : T.          (* trSize, settings.cg_tol, settings.cg_inexact_solve_ratio *)

    Definition cg_tol_squared (r : vec) : T :=    (* max(cg_tol**2, ratio*ratio*r@r) *)
      nmax (npow cg_tol 2) (nmul (nmul cg_ratio cg_ratio) (vdot r r)).

    (* one pass of the for-loop body; fuel = iterations left, i = iterations done *)
    Fixpoint cg_loop (fuel i : nat) (tol2 : T) (cauchyP z r d : vec) (rPr zz zd dd : T) : cgres :=
      match fuel with
      | O => {| cg_z := z; cg_cauchy := cauchyP; cg_tag := InteriorCap; cg_iters := i |}
      | S fuel' =>
        let Hd := hess_vec d in
        let curvature := vdot d Hd in
        let alpha := ndiv rPr curvature in
        let zNp1 := vaxpy z alpha d in
        let zzNp1 := update_step_length_squared alpha zz zd dd in
        if nleb curvature nzero then
          {| cg_z := project_coefs z d trSize zz zd dd; cg_cauchy := cauchyP; cg_tag := NegCurve; cg_iters := S i |}
        else if nltb (npow trSize 2) zzNp1 then
          {| cg_z := project_coefs z d trSize zz zd dd; cg_cauchy := cauchyP; cg_tag := Boundary; cg_iters := S i |}
        else
          let r' := vaxpy r alpha Hd in
          let Pr := precond r' in
          let rPrNp1 := vdot r' Pr in
          if nltb (vdot r' r') tol2 then
            {| cg_z := zNp1; cg_cauchy := cauchyP; cg_tag := Interior; cg_iters := S i |}
          else
            let beta := ndiv rPrNp1 rPr in
            let d' := vadd (vneg Pr) (vscale beta d) in
            let '(zd', dd') :=
              if use_pc_ip then cg_inner_products_preconditioned alpha beta zd dd rPrNp1 nzero nzero
              else (vdot zNp1 d', vdot d' d') in
            cg_loop fuel' (S i) tol2 cauchyP zNp1 r' d' rPrNp1 zzNp1 zd' dd'
      end.

    Definition solve_trust_region_minimization (max_cg_iters : nat) (x r : vec) : cgres :=
      let z := vzero_like x in
      let tol2 := cg_tol_squared r in
      if nltb (vdot r r) tol2 then {| cg_z := z; cg_cauchy := z; cg_tag := Interior; cg_iters := O |}
      else
        let Pr := precond r in
        let d := vneg Pr in
        let rPr := vdot r Pr in
        let dd := if use_pc_ip then rPr else vdot d d in
        cg_loop max_cg_iters O tol2 d z r d rPr nzero nzero dd.

    (* EquationSolverSubspace.trust_region_cg: Euclidean radius test with freshly computed inner products;
       the curvature of the first direction is handed in (curvature = -d@HPr). *)
    Fixpoint sscg_loop (fuel i : nat) (tol2 : T) (z r d : vec) (rPr curvature : T) : vec * steptag * nat :=
      match fuel with
      | O => (z, InteriorCap, i)
      | S fuel' =>
        let alpha := ndiv rPr curvature in
        let zNp1 := vaxpy z alpha d in
        if nleb curvature nzero then
          (project_coefs_ss z d trSize (vdot z z) (vdot z d) (vdot d d), NegCurve, S i)
        else if nltb (npow trSize 2) (vdot zNp1 zNp1) then
          (project_coefs_ss z d trSize (vdot z z) (vdot z d) (vdot d d), Boundary, S i)
        else
          let r' := vaxpy r alpha (hess_vec d) in
          let Pr := precond r' in
          let rPrNp1 := vdot r' Pr in
          if nltb (vdot r' r') tol2 then (zNp1, Interior, S i)
          else
            let beta := ndiv rPrNp1 rPr in
            let d' := vadd (vneg Pr) (vscale beta d) in
            sscg_loop fuel' (S i) tol2 zNp1 r' d' rPrNp1 (vdot d' (hess_vec d'))
      end.

    Definition trust_region_cg (max_cg_iters : nat) (x r Pr HPr : vec) : vec * steptag * nat :=
      let z := vzero_like x in
      let tol2 := cg_tol_squared r in
      if nltb (vdot r r) tol2 then (z, Interior, O)
      else
        let d := vneg Pr in
        sscg_loop max_cg_iters O tol2 z r d (vdot r Pr) (nopp (vdot d HPr)).
  End Solve.

  (* preconditioned_project_to_boundary(z, d, trSize, zz, mult_by_approx_hessian) *)
  Definition pc_project (mat_mul : vec -> vec) (z d : vec) (trSize zz : T) : vec :=
    let Pd := mat_mul d in
    let dd := vdot d Pd in
    let zd := vdot z Pd in
    let tau := ndiv (nsub (nsqrt (nadd (nmul (nsub (npow trSize 2) zz) dd) (npow zd 2))) zd) dd in
    vaxpy z tau d.

  (* dogleg_step(cp, newtonP, trSize, mat_mul); the branch taken is reported for the correspondence *)
  Definition dogleg_branch (mat_mul : vec -> vec) (cp np : vec) (trSize : T) : nat :=
    let cc := vdot cp (mat_mul cp) in
    let nn := vdot np (mat_mul np) in
    let tt := nmul trSize trSize in
    if nleb tt cc then 0%nat else if nltb nn cc then 1%nat else if nltb tt nn then 2%nat else 3%nat.
  Definition dogleg_step (mat_mul : vec -> vec) (cp np : vec) (trSize : T) : vec :=
    let cc := vdot cp (mat_mul cp) in
    let nn := vdot np (mat_mul np) in
    let tt := nmul trSize trSize in
    if nleb tt cc then vscale (nsqrt (ndiv tt cc)) cp          (* cp * sqrt(tt/cc) *)
    else if nltb nn cc then cp
    else if nltb tt nn then pc_project mat_mul cp (vsub np cp) trSize cc
    else np.

  (* the quadratic model  r@z + 0.5*z@H z  (for statements and the L2 predicate) *)
  Definition qmodel (hess_vec : vec -> vec) (g z : vec) : T :=
    nadd (vdot g z) (nmul nhalf (vdot z (hess_vec z))).
End CG.
