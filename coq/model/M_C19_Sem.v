(* C19 -- an execution semantics for the driver IR of model/M_C19_CFG.v and a static checker for the order property.
   exec / execs: big-step, non-deterministic: every condition may go either way and a loop may make ANY number of passes
   (the enumerator `paths` of M_C19_CFG.v stops at two); the trace lists every tag executed, `Other` included.
   The order property of path_ok is recognised by a five-state automaton (step / end_ok); sa / sas propagate SETS of automaton
   states through the tree (loops: a set closed under the loop body, found by iteration and CHECKED to be a fixed point).
   proofs/L_C19_Sem.v proves the checker sound for every IR value.  No proofs here. *)
From Coq Require Import List Bool Arith String.
From OV.model Require Import M_C19_CFG.
Import ListNotations.

Inductive outc := ONormal | OBreak | ORet (x_from_solver unscaled : bool) (f : flagsrc) | ORaise.

Inductive exec : stmt -> list tag -> outc -> Prop :=
| XDo t : exec (Do t) [t] ONormal
| XIfA c a b ts o : execs a ts o -> exec (IfS c a b) ts o
| XIfB c a b ts o : execs b ts o -> exec (IfS c a b) ts o
| XLoopDone body : exec (Loop body) [] ONormal                                   (* the loop condition fails / iterator exhausted *)
| XLoopPass body ts1 ts2 o : execs body ts1 ONormal -> exec (Loop body) ts2 o -> exec (Loop body) (ts1 ++ ts2) o
| XLoopBreak body ts : execs body ts OBreak -> exec (Loop body) ts ONormal
| XLoopRet body ts x u f : execs body ts (ORet x u f) -> exec (Loop body) ts (ORet x u f)
| XLoopRaise body ts : execs body ts ORaise -> exec (Loop body) ts ORaise
| XRet x u f : exec (Ret x u f) [] (ORet x u f)
| XRaise : exec Raise [] ORaise
| XBreak : exec Break [] OBreak
with execs : list stmt -> list tag -> outc -> Prop :=
| XNil : execs [] [] ONormal
| XSeq s r ts1 ts2 o : exec s ts1 ONormal -> execs r ts2 o -> execs (s :: r) (ts1 ++ ts2) o
| XStop s r ts o : exec s ts o -> o <> ONormal -> execs (s :: r) ts o.

(* how a complete run of a driver body ends, as an `ending` of M_C19_CFG *)
Definition ending_of (o : outc) : ending :=
  match o with ORet x u f => EndRet x u f | ORaise => EndRaise | ONormal | OBreak => EndFall end.

(* ---- the automaton of the order property: QU = objective.p not yet assigned; QA solved flagged = assigned, a solver call was
   made since, a solver call that binds a success flag was made since *)
Inductive ast := QU | QA (solved flagged : bool).
Definition is_flagsolve (t : tag) : bool := match t with Solve true _ => true | _ => false end.

Definition step (t : tag) (q : ast) : option ast :=
  match t with
  | AssignPNew => match q with QU => Some (QA false false) | QA _ _ => None end
  | AssignPOther | ClobberFlag => None
  | Solve fl nested => if nested then None else match q with QU => None | QA _ sf => Some (QA true (sf || fl)) end
  | SubSolve => match q with QU => None | QA _ sf => Some (QA true sf) end
  | WarmStart => match q with QU => Some QU | QA _ _ => None end
  | UpdatePrecond | Other => Some q
  end.
Fixpoint run (ts : list tag) (q : ast) : option ast :=
  match ts with [] => Some q | t :: r => match step t q with Some q' => run r q' | None => None end end.

Definition end_ok (e : expect) (q : ast) (en : ending) : bool :=
  match q with
  | QU => false
  | QA s sf =>
      match en with
      | EndRet x u fl => x && Bool.eqb u (returns_unscaled e) && s
                         && (if returns_flag e then match fl with FlagSolver => sf | _ => false end
                             else match fl with FlagNone => true | _ => false end)
      | EndRaise => true
      | EndFall | EndFuel => false
      end
  end.

(* ---- sets of automaton states, in a canonical form (extensional equality = Leibniz equality) *)
Record aset := { mU : bool; m00 : bool; m10 : bool; m11 : bool; m01 : bool }.
Definition mem (S : aset) (q : ast) : bool :=
  match q with QU => mU S | QA false false => m00 S | QA true false => m10 S | QA true true => m11 S | QA false true => m01 S end.
Definition of_pred (f : ast -> bool) : aset :=
  {| mU := f QU; m00 := f (QA false false); m10 := f (QA true false); m11 := f (QA true true); m01 := f (QA false true) |}.
Definition all_ast : list ast := [QU; QA false false; QA true false; QA true true; QA false true].
Definition ast_eqb (a b : ast) : bool :=
  match a, b with QU, QU => true | QA s f, QA s' f' => Bool.eqb s s' && Bool.eqb f f' | _, _ => false end.
Definition aset_eqb (S T : aset) : bool :=
  Bool.eqb (mU S) (mU T) && Bool.eqb (m00 S) (m00 T) && Bool.eqb (m10 S) (m10 T) && Bool.eqb (m11 S) (m11 T) && Bool.eqb (m01 S) (m01 T).
Definition empty : aset := of_pred (fun _ => false).
Definition union (S T : aset) : aset := of_pred (fun q => mem S q || mem T q).
Definition single (q : ast) : aset := of_pred (ast_eqb q).
Definition all_in (S : aset) (p : ast -> bool) : bool := forallb (fun q => implb (mem S q) (p q)) all_ast.
(* image of S under one tag, and whether the tag is allowed in every state of S *)
Definition img (t : tag) (S : aset) : aset :=
  of_pred (fun q' => existsb (fun q => mem S q && match step t q with Some q1 => ast_eqb q1 q' | None => false end) all_ast).
Definition step_ok (t : tag) (S : aset) : bool := all_in S (fun q => match step t q with Some _ => true | None => false end).

Record ares := { nrm : aset; brk : aset; ok : bool }.
Definition afail : ares := {| nrm := empty; brk := empty; ok := false |}.
Fixpoint iter (k : nat) (F : aset -> aset) (S : aset) : aset := match k with O => S | S k' => iter k' F (F S) end.

Fixpoint sa (fuel : nat) (e : expect) (s : stmt) (S : aset) {struct fuel} : ares :=
  match fuel with
  | O => afail
  | Datatypes.S f =>
      match s with
      | Do t => {| nrm := img t S; brk := empty; ok := step_ok t S |}
      | IfS _ a b => let ra := sas f e a S in let rb := sas f e b S in
                     {| nrm := union (nrm ra) (nrm rb); brk := union (brk ra) (brk rb); ok := ok ra && ok rb |}
      | Loop body =>
          let F := fun I => union I (nrm (sas f e body I)) in
          let I := iter 6 F S in
          let rb := sas f e body I in
          {| nrm := union I (brk rb); brk := empty; ok := ok rb && aset_eqb (F I) I |}
      | Ret x u fl => {| nrm := empty; brk := empty; ok := all_in S (fun q => end_ok e q (EndRet x u fl)) |}
      | Raise => {| nrm := empty; brk := empty; ok := all_in S (fun q => end_ok e q EndRaise) |}
      | Break => {| nrm := empty; brk := S; ok := true |}
      end
  end
with sas (fuel : nat) (e : expect) (l : list stmt) (S : aset) {struct fuel} : ares :=
  match fuel with
  | O => afail
  | Datatypes.S f =>
      match l with
      | [] => {| nrm := S; brk := empty; ok := true |}
      | s :: r => let r1 := sa f e s S in let r2 := sas f e r (nrm r1) in
                  {| nrm := nrm r2; brk := union (brk r1) (brk r2); ok := ok r1 && ok r2 |}
      end
  end.

(* a driver body: started with objective.p unassigned; it must not fall off its end or break outside a loop *)
Definition sa_ok (e : expect) (l : list stmt) : bool :=
  let r := sas 200 e l (single QU) in
  ok r && aset_eqb (nrm r) empty && aset_eqb (brk r) empty.
