(* C13 -- the whole elevated mesh of optimism/Mesh.py create_higher_order_mesh_from_simplex_mesh as ONE object: the
   connectivity table [elevated] (model/M_C13_Elevate.v) together with the stacked coordinate array
       coords = vstack((mesh.coords, edgeCoords.reshape(-1,2), interiorCoords.reshape(-1,2)))
   computed from the inputs of the function only: vertex coordinates X (one component; x and y are treated alike), the
   simplex connectivity, the 1-D interior node parameters s1d = parentElement1d.coordinates[interiorNodes] and the
   reference-element tables (basis.coordinates = ref, vertexNodes / faceNodes / interiorNodes = pe).
   Generic in the numeric type: R in the theorems, binary64 (PrimFloat) when executed against the implementation.
       edgeCoords[e][k]     = (1.0 - s1d[k]) * X[a_e] + s1d[k] * X[b_e]                  (a_e, b_e) = edgeConns[e]
       interiorCoords[t][k] = N0[k] X[c_t0] + N1[k] X[c_t1] + (1.0 - N0[k] - N1[k]) X[c_t2]   N0, N1 = ref[interiorNodes][:, 0/1]
   No proofs here. *)
From Coq Require Import List Arith.
From OV.base Require Import Num.
From OV.model Require Import M_C13_Edges M_C13_Elevate.
Import ListNotations.

Definition row0 : edge_row := mkRow 0 0 0 0 None.

Section ElevMesh.
  Context {T : Type} {NT : Num T}.
  Variable X : nat -> T.                  (* mesh.coords[:, c] *)
  Variable s1d : nat -> T.                (* parentElement1d.coordinates[parentElement1d.interiorNodes] *)
  Variable ref : nat -> T * T.            (* basis.coordinates *)
  Variable pe : pelem.
  Variables nV m : nat.
  Variable conns : list (list nat).

  Definition em_tri (t i : nat) : nat := nth i (nth t conns []) 0.
  Definition em_ipos (k : nat) : nat := nth k (pe_interior pe) 0.
  Definition em_N0 (k : nat) : T := fst (ref (em_ipos k)).
  Definition em_N1 (k : nat) : T := snd (ref (em_ipos k)).
  (* rows = create_edges conns, passed explicitly so that it is evaluated once when the array is executed *)
  Definition em_edge_coord (rows : list edge_row) (e k : nat) : T :=
    nadd (nmul (nsub nunit (s1d k)) (X (e_a (nth e rows row0)))) (nmul (s1d k) (X (e_b (nth e rows row0)))).
  Definition em_interior_coord (t k : nat) : T :=
    nadd (nadd (nmul (em_N0 k) (X (em_tri t 0))) (nmul (em_N1 k) (X (em_tri t 1))))
         (nmul (nsub (nsub nunit (em_N0 k)) (em_N1 k)) (X (em_tri t 2))).
  Definition em_coord_rows (rows : list edge_row) (id : nat) : T :=
    let nE := length rows in let nI := length (pe_interior pe) in
    if id <? nV then X id
    else if id <? nV + nE * m then em_edge_coord rows ((id - nV) / m) ((id - nV) mod m)
    else em_interior_coord ((id - nV - nE * m) / nI) ((id - nV - nE * m) mod nI).
  (* coordinate (one component) of node id of the elevated mesh *)
  Definition em_coord (id : nat) : T := em_coord_rows (create_edges conns) id.
  (* number of nodes of the elevated mesh, and the whole coordinate column *)
  Definition em_nnodes : nat := nV + length (create_edges conns) * m + length conns * length (pe_interior pe).
  Definition em_coords : list T := let rows := create_edges conns in map (em_coord_rows rows) (seq 0 em_nnodes).
  (* affine image of reference node pos in element t: xi0 X[c0] + xi1 X[c1] + (1 - xi0 - xi1) X[c2] *)
  Definition em_affine (t pos : nat) : T :=
    nadd (nadd (nmul (fst (ref pos)) (X (em_tri t 0))) (nmul (snd (ref pos)) (X (em_tri t 1))))
         (nmul (nsub (nsub nunit (fst (ref pos))) (snd (ref pos))) (X (em_tri t 2))).
End ElevMesh.

(* ---- exchange with the harness: binary64 execution of the coordinate column *)
From Coq Require Import ZArith Floats.
Definition fnth (l : list float) (i : nat) : float := nth i l PrimFloat.zero.
Definition fnth2 (l : list (float * float)) (i : nat) : float * float := nth i l (PrimFloat.zero, PrimFloat.zero).
Definition enc_em_coords (X s1d : list float) (ref : list (float * float)) (pe : pelem) (m : Z) (conns : list (list Z)) : list Z :=
  fencs (@em_coords float NumF (fnth X) (fnth s1d) (fnth2 ref) pe (length X) (Z.to_nat m) (map (map Z.to_nat) conns)).

(* ---- ONE certificate for everything the closed theorem needs from the reference tables (evaluated in Coq on the
        implementation's tables, exact rationals of the binary64 entries, for every order 2..5 with and without bubble):
        nodes = parentElement1d.coordinates, in1d = parentElement1d.interiorNodes, faces = basis.faceNodes (full rows),
        refq = basis.coordinates; pe holds vertexNodes, faceNodes[s][in1d], interiorNodes. *)
From Coq Require Import QArith Qabs.
From OV.model Require Import M_C13_Coords.
Fixpoint list_eqb (a b : list nat) : bool :=
  match a, b with [], [] => true | x :: a', y :: b' => (x =? y)%nat && list_eqb a' b' | _, _ => false end.
Definition lobatto_sym_okb (nodes : list Q) (tol : Q) : bool :=
  forallb (fun p : Q * Q => Qle_bool (Qabs (fst p + snd p - 1)) tol) (combine nodes (rev nodes)).
Definition s1d_q (nodes : list Q) (in1d : list nat) : list Q := map (fun i => nth i nodes 0%Q) in1d.
Definition elev_cert_okb (pe : pelem) (m : nat) (refq : list (Q * Q)) (faces : list (list nat)) (nodes : list Q) (in1d : list nat) (tol : Q) : bool :=
  pe_okb pe m && (length nodes =? m + 2)%nat && list_eqb in1d (seq 1 m)
  && list_eqb (pe_m0 pe) (map (fun i => nth i (nth 0 faces []) 0%nat) in1d)
  && list_eqb (pe_m1 pe) (map (fun i => nth i (nth 1 faces []) 0%nat) in1d)
  && list_eqb (pe_m2 pe) (map (fun i => nth i (nth 2 faces []) 0%nat) in1d)
  && ref_vertex_okb refq (pe_vertex pe) && ref_face_okb refq [pe_m0 pe; pe_m1 pe; pe_m2 pe] (s1d_q nodes in1d) tol
  && lobatto_sym_okb nodes tol && Qle_bool 0 tol.
Definition elev_cert (pe : pelem) (m : Z) (refq : list (Q * Q)) (faces : list (list Z)) (nodes : list Q) (in1d : list Z) (tol : Q) : list Z :=
  [if elev_cert_okb pe (Z.to_nat m) refq (map (map Z.to_nat) faces) nodes (map Z.to_nat in1d) tol then 1%Z else 0%Z].
