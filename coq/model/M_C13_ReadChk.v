(* C13 -- readers, continued (optimism/ReadExodusMesh.py):
   (a) THE READER AS IT IS since /repo ce166ed (repair of finding C13-READ-NAMES): after the auto-naming loop of _read_blocks /
       _read_node_sets / _read_side_sets the call _check_names_are_distinct(names, kind):
           if len(set(names)) != len(names): raise ValueError(...)
       i.e. the reader rejects (None) a file whose final names are not pairwise distinct and otherwise does what read_exodus
       (model/M_C13_ReadFile.v, the reader without the check) does;
   (b) _read_block_maps: elementMap = elem_num_map if the file has one, else arange(1, nEle) with nEle = 1 + sum of the block sizes;
           for blockName, blockElems in blocks.items(): block_maps[blockName] = elementMap[first : first + len(blockElems)]; first += len(blockElems)
       (iteration over the blocks DICT, in insertion order);
   (c) _read_coordinates: column_stack([coordx, coordy]).
   No proofs here. *)
From Coq Require Import List Arith ZArith Bool.
From OV.model Require Import M_C13_Combine M_C13_Read M_C13_ReadFile.
Import ListNotations.

Fixpoint zmem (k : Z) (l : list Z) : bool := match l with [] => false | x :: r => Z.eqb k x || zmem k r end.
(* len(set(names)) == len(names) *)
Fixpoint distinctb (l : list Z) : bool := match l with [] => true | x :: r => negb (zmem x r) && distinctb r end.

Definition read_exodus_checked (six : bool) (autoB autoN autoS : nat -> Z) (f : exo_file) : option rmesh :=
  if distinctb (final_names autoB 0 (ef_bnames f)) && distinctb (final_names autoN 0 (ef_nsnames f))
     && distinctb (final_names autoS 0 (ef_ssnames f))
  then Some (read_exodus six autoB autoN autoS f) else None.

(* elementMap[first : first + n] for the consecutive sizes *)
Fixpoint slices {A} (first : nat) (sizes : list nat) (l : list A) : list (list A) :=
  match sizes with [] => [] | n :: r => firstn n (skipn first l) :: slices (first + n) r l end.
Definition read_block_maps (emap : option (list nat)) (blocks : dict (list nat)) : dict (list nat) :=
  let sizes := map (fun kv => length (snd kv)) blocks in
  let em := match emap with Some l => l | None => seq 1 (list_sum sizes) end in
  dict_of (map fst blocks) (slices 0 sizes em).

Definition read_coords {T} (xs ys : list T) : list (T * T) := combine xs ys.

(* ---- exchange with the harness *)
Definition enc_checked (r : option rmesh) : list Z := match r with None => [(-9)%Z] | Some m => enc_rmesh m end.
Definition emap_of (l : list Z) : option (list nat) := match l with [] => None | _ :: r => Some (map Z.to_nat r) end.   (* [] = no elem_num_map; 0 :: map otherwise *)
Definition enc_block_maps (six : bool) (aB aN aS : nat -> Z) (f : exo_file) (emap : list Z) : list Z :=
  enc_dict_nat (read_block_maps (emap_of emap) (rm_blocks (read_exodus six aB aN aS f))).
