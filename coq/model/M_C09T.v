(* C09: executable TENSOR-level model of the J2 update for the kinematics with an ADDITIVE state update -- 'small deformations' and
   'seth hill' -- (optimism/material/J2Plastic.py:
   compute_elastic_linear_strain (regenerated), compute_state_increment, update_state, compute_state_new_small_deformations,
   _energy_density, incremental_potential), no proofs here.  State = (eqps, plastic strain as a flat 3x3).
   The scalar root solve is the one of model/M_C09.v (delta_eqps, C17 root finder inside) called at the trial Mises stress
   2 mu dev(Etrial):N; proofs/L_C09T.v shows that the residual the code hands to the root finder -- the derivative of the
   tensor-level incremental potential along the return direction -- IS the scalar residual, so nothing is lost. *)
From Coq Require Import ZArith QArith Bool List.
From OV.base Require Import Num.
From OV.gen Require Import Gen_ScalarRootFind Gen_Hardening Gen_TensorMath Gen_J2Flow Gen_J2Elastic.
From OV.model Require Import M_C17 M_C09.
Import ListNotations.

Section MT.
  Context {T : Type} {NT : Num T}.

  Definition tstate : Type := (T * @m9 T)%type.

  Definition add9 (a b : @m9 T) : @m9 T :=
    let '(a0, a1, a2, a3, a4, a5, a6, a7, a8) := a in let '(b0, b1, b2, b3, b4, b5, b6, b7, b8) := b in
    (nadd a0 b0, nadd a1 b1, nadd a2 b2, nadd a3 b3, nadd a4 b4, nadd a5 b5, nadd a6 b6, nadd a7 b7, nadd a8 b8).
  Definition sub9 (a b : @m9 T) : @m9 T :=
    let '(a0, a1, a2, a3, a4, a5, a6, a7, a8) := a in let '(b0, b1, b2, b3, b4, b5, b6, b7, b8) := b in
    (nsub a0 b0, nsub a1 b1, nsub a2 b2, nsub a3 b3, nsub a4 b4, nsub a5 b5, nsub a6 b6, nsub a7 b7, nsub a8 b8).
  Definition smul9 (k : T) (a : @m9 T) : @m9 T :=
    let '(a0, a1, a2, a3, a4, a5, a6, a7, a8) := a in
    (nmul k a0, nmul k a1, nmul k a2, nmul k a3, nmul k a4, nmul k a5, nmul k a6, nmul k a7, nmul k a8).

  (* compute_elastic_linear_strain: sym(dispGrad) - plastic strain (regenerated kernel) *)
  Definition strain_small (H : @m9 T) (st : tstate) : @m9 T :=
    let '(h0, h1, h2, h3, h4, h5, h6, h7, h8) := H in
    let '(eo, (p0, p1, p2, p3, p4, p5, p6, p7, p8)) := st in
    compute_elastic_linear_strain h0 h1 h2 h3 h4 h5 h6 h7 h8 eo p0 p1 p2 p3 p4 p5 p6 p7 p8.

  (* the update with the residual / slope functions handed to the root finder left open (update_state: find_root(lambda e: r(...)));
     Yo = flow stress at the old state (yield test and upper bracket end) *)
  Definition delta_eqps_res (rf drf : T -> T) (Yo mu tol s eo : T) : option T :=
    if nltb tol (nsub s Yo) then
      let lb := eo in
      let ub := nadd eo (ndiv (nsub s Yo) (nmul three mu)) in
      let guess := nmul nhalf (nadd lb ub) in
      match rtsafe rf drf guess lb ub 50 nzero tol with
      | Res (Some v) _ _ _ _ _ => Some (nsub v eo)
      | _ => None
      end
    else Some nzero.

  (* compute_state_increment: (Delta eqps, Delta plastic strain = Delta eqps * N); the elastic branch returns zeros = 0 * N *)
  Definition state_increment (l : law) (r : rate) (mu dt : T) (Etr : @m9 T) (eo : T) : option (T * @m9 T) :=
    let N := flowdir Etr in
    match delta_eqps l r mu (trial_mises mu Etr) eo dt with
    | Some d => Some (d, smul9 d N)
    | None => None
    end.

  (* compute_elastic_seth_hill_strain: (pow_symm(F^T F, 1/4) - I)/(2/4) - plastic strain (regenerated kernel; TensorMath.pow_symm is
     an opaque parameter pw) *)
  Definition strain_seth_hill (pw : T -> T -> T -> T -> T -> T -> T -> T -> T -> T -> @m9 T) (H : @m9 T) (st : tstate) : @m9 T :=
    let '(h0, h1, h2, h3, h4, h5, h6, h7, h8) := H in
    let '(eo, (p0, p1, p2, p3, p4, p5, p6, p7, p8)) := st in
    compute_elastic_seth_hill_strain pw h0 h1 h2 h3 h4 h5 h6 h7 h8 eo p0 p1 p2 p3 p4 p5 p6 p7 p8.

  (* compute_state_new_small_deformations / compute_state_new_seth_hill: stateOld + stateInc, Ef = the kinematics' elastic strain *)
  Definition state_new_add (Ef : @m9 T -> tstate -> @m9 T) (l : law) (r : rate) (mu dt : T) (H : @m9 T) (st : tstate) : option tstate :=
    match state_increment l r mu dt (Ef H st) (fst st) with
    | Some (d, dEp) => Some (nadd (fst st) d, add9 (snd st) dEp)
    | None => None
    end.
  Definition state_new_small := state_new_add strain_small.

  (* _energy_density: elastic free energy of (trial strain - increment) + hardening energy(eqps_new, eqps_old, dt) *)
  Definition energy_add (Ef : @m9 T -> tstate -> @m9 T) (l : law) (r : rate) (mu kappa dt : T) (H : @m9 T) (st : tstate) : option T :=
    let Etr := Ef H st in
    match state_increment l r mu dt Etr (fst st) with
    | Some (d, dEp) =>
        let en := nadd (fst st) d in
        let '(x0, x1, x2, x3, x4, x5, x6, x7, x8) := sub9 Etr dEp in
        Some (nadd (j2_elastic_free_energy x0 x1 x2 x3 x4 x5 x6 x7 x8 nzero nzero mu kappa nzero)
                   (nadd (h_energy l en) (k_energy r en (fst st) dt)))
    | None => None
    end.

  Definition energy_small := energy_add strain_small.

  (* a history of (displacement gradient, time step) pairs; the list of states after each step; None once a NaN occurs *)
  Fixpoint history_add (Ef : @m9 T -> tstate -> @m9 T) (l : law) (r : rate) (mu : T) (steps : list (@m9 T * T)) (st : tstate) : option (list tstate) :=
    match steps with
    | [] => Some []
    | (H, dt) :: rest =>
        match state_new_add Ef l r mu dt H st with
        | None => None
        | Some st' => match history_add Ef l r mu rest st' with None => None | Some sts => Some (st' :: sts) end
        end
    end.
  Definition tensor_history := history_add strain_small.

  (* incremental_potential at tensor level: deviatoric elastic energy of (trial strain - (eqps - eqps_old) N) + hardening energies *)
  Definition elastic_along (mu : T) (Etr : @m9 T) (eo e : T) : T :=
    let '(x0, x1, x2, x3, x4, x5, x6, x7, x8) := axpy9 (nsub e eo) (flowdir Etr) Etr in
    j2_elastic_deviatoric_free_energy x0 x1 x2 x3 x4 x5 x6 x7 x8 nzero nzero mu nzero nzero.
  Definition potential_tensor (l : law) (r : rate) (mu dt : T) (Etr : @m9 T) (eo e : T) : T :=
    nadd (elastic_along mu Etr eo e) (nadd (h_energy l e) (k_energy r e eo dt)).
End MT.

(* encoding for the harness *)
Definition enc_tstate (s : option (@tstate PrimFloat.float)) : list Z :=
  match s with Some (e, p) => 1%Z :: (fenc e ++ enc_m9 p)%list | None => [0%Z] end.
Definition enc_optf (s : option PrimFloat.float) : list Z :=
  match s with Some e => 1%Z :: fenc e | None => [0%Z] end.
