(* C14: what SparseMatrixAssembler.assemble_sparse_stiffness_matrix does with the DofManager's index maps, next to a dense
   reference assembled "by hand" from the element matrices, the connectivity and the BC mask alone (no index map, no
   dofToUnknown), and the model of a HISTORY of assemblies in one process.  Definitions only; values are integers (the
   correspondence streams use integer-valued element matrices, which binary64 adds exactly).
   Additive to model/M_C14_Dof.v (which C02 shares); nothing there is changed. *)
From Coq Require Import ZArith List Bool Arith.
From OV.model Require Import M_C14_Dof.
Import ListNotations.

Section Asm.
  Variable isBc : list bool.
  Variable dim : nat.

  (* ---------- the reference, by hand ----------
     every entry of every element block as ((global dof of a, global dof of b), K_e[a, b]) in row-major (e, a, b) order;
     kvals : one flat row-major list of nd*nd numbers per element *)
  Definition el_entries (en : list nat) (ke : list Z) : list ((nat * nat) * Z) :=
    let ds := el_dofs dim en in
    map (fun pv => ((nth (fst (fst pv)) ds 0, nth (snd (fst pv)) ds 0), snd pv)) (combine (el_pairs dim en) ke).
  Definition dof_entries (conns : list (list nat)) (kvals : list (list Z)) : list ((nat * nat) * Z) :=
    flat_map (fun ek => el_entries (fst ek) (snd ek)) (combine conns kvals).
  (* sum of the block entries (a, b) with  dof b = di  and  dof a = dj   (the assembler's orientation: row <- b, col <- a;
     for the symmetric blocks a Hessian consists of this is also the straight orientation) *)
  Definition entry_sum (E : list ((nat * nat) * Z)) (di dj : nat) : Z :=
    fold_right (fun dv acc => if (snd (fst dv) =? di) && (fst (fst dv) =? dj) then (snd dv + acc)%Z else acc) 0%Z E.
  (* the reduced matrix: rows and columns run over the NON-essential dofs in increasing (node-major) order *)
  Definition assemble (conns : list (list nat)) (kvals : list (list Z)) : list (list Z) :=
    let E := dof_entries conns kvals in
    let u := unknownIndices isBc in
    map (fun di => map (fun dj => entry_sum E di dj) u) u.

  (* ---------- what the assembler does with the maps ----------
     coo_matrix((kValues.reshape(nEl, nd, nd)[hessian_bc_mask], (HessRowCoords, HessColCoords)), shape=(n, n)).tocsc()
     with n = unknownIndices.size; duplicate coordinates are summed; coordinates outside 0..n-1 make scipy raise (here: dropped,
     and the theorem proves there are none) *)
  Definition coo_entry (t : list ((Z * Z) * Z)) (i j : Z) : Z :=
    fold_right (fun rcv acc => if (fst (fst rcv) =? i)%Z && (snd (fst rcv) =? j)%Z then (snd rcv + acc)%Z else acc) 0%Z t.
  Definition coo_dense (n : nat) (rows cols vals : list Z) : list (list Z) :=
    let t := combine (combine rows cols) vals in
    map (fun i => map (fun j => coo_entry t (Z.of_nat i) (Z.of_nat j)) (seq 0 n)) (seq 0 n).
  Definition masked_kvalues (conns : list (list nat)) (kvals : list (list Z)) : list Z :=
    mask_select (hessian_bc_mask isBc dim conns) (concat kvals).
  Definition assemble_maps (conns : list (list nat)) (kvals : list (list Z)) : list (list Z) :=
    coo_dense (length (unknownIndices isBc)) (HessRowCoords isBc dim conns) (HessColCoords isBc dim conns)
              (masked_kvalues conns kvals).
End Asm.

(* ---------- a history of assemblies in one process ----------
   One request = everything the caller hands over: the mesh size, the number of fields, the declared essential BCs
   (node list, component), the connectivity and the element matrices.  The model has no state: request k is answered from
   request k alone. *)
Record request := { r_nNodes : nat; r_dim : nat; r_ebcs : list (list nat * nat);
                    r_conns : list (list nat); r_kvals : list (list Z) }.
Definition request_mask (r : request) : list bool := mk_isBc (r_nNodes r) (r_dim r) (r_ebcs r).
Definition assemble_request (r : request) : list (list Z) :=
  assemble (request_mask r) (r_dim r) (r_conns r) (r_kvals r).
Definition assemble_request_maps (r : request) : list (list Z) :=
  assemble_maps (request_mask r) (r_dim r) (r_conns r) (r_kvals r).
Definition assemble_history (h : list request) : list (list (list Z)) := map assemble_request h.

(* ---------- correspondence: one history, every matrix row-major, packed as  len :: items ---------- *)
Definition mk_request (nNodes dim : Z) (ebcs : list (list Z * Z)) (conns kvals : list (list Z)) : request :=
  {| r_nNodes := Z.to_nat nNodes; r_dim := Z.to_nat dim;
     r_ebcs := map (fun e => (nl (fst e), Z.to_nat (snd e))) ebcs; r_conns := map nl conns; r_kvals := kvals |}.
Definition run_history (h : list request) : list Z := pack (map (@concat Z) (assemble_history h)).
