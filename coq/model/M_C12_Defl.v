(* C12 (round 4): the part of eigen_sym33_non_unit AFTER the trigonometric root (definitions only).
   The source segment between `eval2 = ...` and `evec1 = ...` is regenerated from /repo on every run as ONE kernel (eig_deflate) and,
   cut at the assignments of ki_ki / evec2 / eval1, as FOUR stage kernels (eig_pivot, eig_gs, eig_wilkinson, eig_vectors).
   eig_compose chains the four stage kernels exactly as the routine's data flow does; the theorems of proofs/L_C12_Defl.v are about
   eig_compose at T := R.  (eig_compose = eig_deflate holds by conversion -- `reflexivity` succeeds, but needs 3 minutes, so the
   equality is checked on every run by executing both at binary64 on the harness inputs, bit for bit, instead.)
   Since /repo e63b801 eig_vectors contains the scaling of (fac1, fac2) by facmax and the both_zero test on the scaled pair; the chaining
   below is unchanged (same live variables at the cuts). *)
From Coq Require Import Reals.
From OV.base Require Import Num.
From OV.gen Require Import Gen_Math Gen_TensorMathEig.
Local Open Scope R_scope.

Section Compose.
  Context {T : Type} {NT : Num T}.
  Definition eig_compose (cxx cyy czz cxy cyz czx lam : T) : T * T * T * T * T * T * T * T * T * T * T :=
    let '(k0, k1, k2, p0, p1, p2, q0, q1, q2, ki) := eig_pivot cxx cyy czz cxy cyz czx lam in
    let '(a0, a1, a2, ai, e0, e1, e2) := eig_gs k0 k1 k2 p0 p1 p2 q0 q1 q2 ki in
    let '(xx, yy, kaxy, xy2, ev0, ev1) := eig_wilkinson cxx cyy czz cxy cyz czx k0 k1 k2 a0 a1 a2 ki ai in
    let '(u0, u1, u2, w0, w1, w2) := eig_vectors xx yy kaxy xy2 ev0 k0 k1 k2 a0 a1 a2 ki ai e0 e1 e2 in
    (ev0, ev1, u0, u1, u2, w0, w1, w2, e0, e1, e2).
End Compose.

(* 3-vectors over R and the action of the symmetric matrix D = [[dxx dxy dzx] [dxy dyy dyz] [dzx dyz dzz]] *)
Definition V3 := (R * R * R)%type.
Definition dot (a b : V3) : R := let '(a0, a1, a2) := a in let '(b0, b1, b2) := b in a0 * b0 + a1 * b1 + a2 * b2.
Definition cross (a b : V3) : V3 :=
  let '(a0, a1, a2) := a in let '(b0, b1, b2) := b in (a1 * b2 - a2 * b1, a2 * b0 - a0 * b2, a0 * b1 - a1 * b0).
Definition vscale (s : R) (a : V3) : V3 := let '(a0, a1, a2) := a in (s * a0, s * a1, s * a2).
Definition vlin (s : R) (a : V3) (t : R) (b : V3) : V3 :=
  let '(a0, a1, a2) := a in let '(b0, b1, b2) := b in (s * a0 + t * b0, s * a1 + t * b1, s * a2 + t * b2).
Definition smv (dxx dyy dzz dxy dyz dzx : R) (v : V3) : V3 :=
  let '(v0, v1, v2) := v in (dxx * v0 + dxy * v1 + dzx * v2, dxy * v0 + dyy * v1 + dyz * v2, dzx * v0 + dyz * v1 + dzz * v2).
(* the invariants as the routine computes them from the deviatoric entries: c2 = second invariant, c3 = - det *)
Definition sE2 (dxx dyy dzz dxy dyz dzx : R) : R := dxx * dyy + dyy * dzz + dzz * dxx - dxy * dxy - dyz * dyz - dzx * dzx.
Definition sC3 (dxx dyy dzz dxy dyz dzx : R) : R :=
  dxx * (dyz * dyz) + dyy * (dzx * dzx) - 2 * dxy * dyz * dzx + dzz * (dxy * dxy - dxx * dyy).
Definition cubic3 (c2 c3 x : R) : R := x * x * x + c2 * x + c3.

(* what "the deflation is exact" means for the outputs (eval0, eval1, evec0, evec1, evec2) given the eigenvalue lam it was run with *)
Definition deflation_exact (dxx dyy dzz dxy dyz dzx lam : R) (out : R * R * R * R * R * R * R * R * R * R * R) : Prop :=
  let '(e0, e1, u0, u1, u2, w0, w1, w2, v0, v1, v2) := out in
  let u := (u0, u1, u2) in let w := (w0, w1, w2) in let v := (v0, v1, v2) in
  let D := smv dxx dyy dzz dxy dyz dzx in
  (forall x, cubic3 (sE2 dxx dyy dzz dxy dyz dzx) (sC3 dxx dyy dzz dxy dyz dzx) x = (x - lam) * (x - e0) * (x - e1))
  /\ D v = vscale lam v /\ D u = vscale e0 u /\ D w = vscale e1 w
  /\ 0 < dot v v /\ 0 < dot u u /\ 0 < dot w w
  /\ dot u v = 0 /\ dot w v = 0 /\ dot u w = 0.
