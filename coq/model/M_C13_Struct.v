(* C13 -- structured mesh generator of optimism/Mesh.py (create_structured_mesh_data, construct_structured_mesh).
   Connectivity over nat; coordinates over a numeric type T (R in theorems, Q when executed).
   xs, ys stand for the arrays np.linspace(xExtent[0], xExtent[1], Nx), np.linspace(yExtent[0], yExtent[1], Ny). *)
From Coq Require Import List Arith.
From OV.base Require Import Num.
Import ListNotations.

(* the two triangles appended for cell (ex, ey) *)
Definition tri_pair (Nx ex ey : nat) : list (list nat) :=
  [[ex + Nx * ey; ex + 1 + Nx * ey; ex + 1 + Nx * (ey + 1)];
   [ex + Nx * ey; ex + 1 + Nx * (ey + 1); ex + Nx * (ey + 1)]].
(* for ex in range(Nx-1): for ey in range(Ny-1): ... *)
Definition struct_conns (Nx Ny : nat) : list (list nat) :=
  flat_map (fun ex => flat_map (fun ey => tri_pair Nx ex ey) (seq 0 (Ny - 1))) (seq 0 (Nx - 1)).
(* coords = [[xs[nx], ys[ny]] for ny in range(Ny) for nx in range(Nx)] *)
Definition struct_coords {A} (Nx Ny : nat) (xs ys : nat -> A) : list (A * A) :=
  flat_map (fun ny => map (fun nx => (xs nx, ys ny)) (seq 0 Nx)) (seq 0 Ny).
(* blocks = {'block_0': np.arange(conns.shape[0])} *)
Definition struct_block0 (Nx Ny : nat) : list nat := seq 0 (length (struct_conns Nx Ny)).

Section Area.
  Context {T : Type} {NT : Num T}.
  (* twice the signed area of the triangle (a, b, c); positive iff counter-clockwise *)
  Definition area2 (a b c : T * T) : T :=
    nsub (nmul (nsub (fst b) (fst a)) (nsub (snd c) (snd a))) (nmul (nsub (fst c) (fst a)) (nsub (snd b) (snd a))).
  Definition tri_area2 (coords : list (T * T)) (t : list nat) : option T :=
    match t with
    | [i; j; k] =>
        match nth_error coords i, nth_error coords j, nth_error coords k with
        | Some a, Some b, Some c => Some (area2 a b c)
        | _, _, _ => None
        end
    | _ => None
    end.
End Area.
