(* C11 -- glue around the kernels regenerated from optimism/material/HyperViscoelastic.py and
   MultiBranchHyperViscoelastic.py (no proofs here).  Matrices are the 3x3 records of model/M_C08.v; the un-modelled
   spectral functions are parameters lss : mat -> mat (TensorMath.log_sqrt_symm) and expm : mat -> mat (jax.scipy.linalg.expm).
   The three-branch model's Python loops `for n in range(NUM_PRONY_TERMS)` are unrolled by hand with the generated per-branch
   kernels (prop_id = 2, 4, 6), as in M_C08.E_mb. *)
From Coq Require Import ZArith QArith List.
From OV.base Require Import Num.
From OV.gen Require Import Gen_TensorMath Gen_HyperViscoelastic Gen_MultiBranchHyperViscoelastic Gen_ViscoState.
From OV.model Require Import M_C08.
Import ListNotations.

Section M.
  Context {T : Type} {NT : Num T}.
  Notation mat := (mat T).

  (* trial elastic logarithmic strain for displacement gradient H and viscous distortion Fv *)
  Definition Etrial (lss : mat -> mat) (H Fv : mat) : mat :=
    of9 (ap9 (ap9 (@_compute_elastic_logarithmic_strain T NT (lift1 lss)) H) Fv).
  Definition nds (E : mat) : T := ap9 (@norm_of_deviator_squared T NT) E.
  Definition mdiv (A : mat) (s : T) : mat :=
    mk (ndiv (m00 A) s) (ndiv (m01 A) s) (ndiv (m02 A) s) (ndiv (m10 A) s) (ndiv (m11 A) s) (ndiv (m12 A) s)
       (ndiv (m20 A) s) (ndiv (m21 A) s) (ndiv (m22 A) s).

  (* ---- single branch ---- *)
  Definition inc_hv (p : p4) (dt : T) (E : mat) : mat :=
    let '(a, b, c, d) := p in of9 (ap9 (@_compute_state_increment T NT) E dt a b c d).
  Definition Wneq_hv (p : p4) (E : mat) : T := let '(a, b, c, d) := p in ap9 (@_neq_strain_energy T NT) E a b c d.
  Definition Psi_hv (p : p4) (Dv : mat) : T := let '(a, b, c, d) := p in ap9 (@_dissipation_potential T NT) Dv a b c d.
  (* compute_material_qoi *)
  Definition D_hv (lss : mat -> mat) (p : p4) (Fv : mat) (dt : T) (H : mat) : T :=
    let '(a, b, c, d) := p in ap9 (ap9 (@hv_dissipated_energy T NT (lift1 lss)) H) Fv dt a b c d.
  (* compute_state_new *)
  Definition state_new_hv (lss expm : mat -> mat) (p : p4) (Fv : mat) (dt : T) (H : mat) : mat :=
    let '(a, b, c, d) := p in of9 (ap9 (ap9 (@c11_state_new T NT (lift1 lss) (lift1 expm)) H) Fv dt a b c d).
  (* elastic strain left in the branch after a step of size dt started from the trial strain E (Ee = Ee_trial - delta_Ev) *)
  Definition relax_hv (p : p4) (dt : T) (E : mat) : mat := msub E (inc_hv p dt E).
  (* the stored non-equilibrium energy that _energy_density reports for state Fv, step dt, deformation H *)
  Definition Wneq_reported_hv (lss : mat -> mat) (p : p4) (Fv : mat) (dt : T) (H : mat) : T :=
    Wneq_hv p (relax_hv p dt (Etrial lss H Fv)).
  (* a history at held deformation: states after the steps dts *)
  Fixpoint states_hv (lss expm : mat -> mat) (p : p4) (H : mat) (Fv : mat) (dts : list T) : list mat :=
    match dts with
    | [] => []
    | dt :: r => Fv :: states_hv lss expm p H (state_new_hv lss expm p Fv dt H) r
    end.

  (* ---- three branches: branch n uses G_neq = props[2+2n], tau = props[3+2n] and its own viscous distortion ---- *)
  Definition inc_b (n : nat) (p : p8) (dt : T) (E : mat) : mat :=
    let '(a, b, c, d, e, f, g, h) := p in
    match n with
    | O => of9 (ap9 (@_compute_state_increment_b1 T NT) E dt a b c d e f g h)
    | S O => of9 (ap9 (@_compute_state_increment_b2 T NT) E dt a b c d e f g h)
    | _ => of9 (ap9 (@_compute_state_increment_b3 T NT) E dt a b c d e f g h)
    end.
  Definition Wneq_b (n : nat) (p : p8) (E : mat) : T :=
    let '(a, b, c, d, e, f, g, h) := p in
    match n with
    | O => ap9 (@_neq_strain_energy_b1 T NT) E a b c d e f g h
    | S O => ap9 (@_neq_strain_energy_b2 T NT) E a b c d e f g h
    | _ => ap9 (@_neq_strain_energy_b3 T NT) E a b c d e f g h
    end.
  Definition Psi_b (n : nat) (p : p8) (Dv : mat) : T :=
    let '(a, b, c, d, e, f, g, h) := p in
    match n with
    | O => ap9 (@_dissipation_potential_b1 T NT) Dv a b c d e f g h
    | S O => ap9 (@_dissipation_potential_b2 T NT) Dv a b c d e f g h
    | _ => ap9 (@_dissipation_potential_b3 T NT) Dv a b c d e f g h
    end.
  Definition Etrial_mb (lss : mat -> mat) (H Fv : mat) : mat :=
    of9 (ap9 (ap9 (@mb_compute_elastic_logarithmic_strain T NT (lift1 lss)) H) Fv).
  (* _compute_dissipated_energy: Psi = 0.0; for n: Psi = Psi + dt * _dissipation_potential(delta_Ev / dt, ...) *)
  Definition D_mb_branch (n : nat) (lss : mat -> mat) (p : p8) (Fv : mat) (dt : T) (H : mat) : T :=
    nmul dt (Psi_b n p (mdiv (inc_b n p dt (Etrial_mb lss H Fv)) dt)).
  Definition D_mb (lss : mat -> mat) (p : p8) (Fv1 Fv2 Fv3 : mat) (dt : T) (H : mat) : T :=
    nadd (nadd (nadd nzero (D_mb_branch O lss p Fv1 dt H)) (D_mb_branch (S O) lss p Fv2 dt H)) (D_mb_branch (S (S O)) lss p Fv3 dt H).
  (* _compute_state_new, one branch: Fv_new = expm(delta_Ev) @ Fv_old *)
  Definition state_new_b (n : nat) (lss expm : mat -> mat) (p : p8) (Fv : mat) (dt : T) (H : mat) : mat :=
    mmul (expm (inc_b n p dt (Etrial_mb lss H Fv))) Fv.
  Definition relax_b (n : nat) (p : p8) (dt : T) (E : mat) : mat := msub E (inc_b n p dt E).
  Definition Wneq_reported_b (n : nat) (lss : mat -> mat) (p : p8) (Fv : mat) (dt : T) (H : mat) : T :=
    Wneq_b n p (relax_b n p dt (Etrial_mb lss H Fv)).
End M.
