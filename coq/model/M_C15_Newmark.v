(* C15: Newmark time stepping as done with Mechanics.create_dynamics_functions: the nodal arrays U, V, A are fields I -> T
   (I = any index set of degrees of freedom); predict / correct are the kernels regenerated from the source applied entry by
   entry (the source expressions are elementwise in the arrays); the algorithmic energy is
      SE(U) + 1/(beta dt^2) * 1/2 m(U - Up, U - Up)
   (compute_newmark_lagrangian) for a strain-energy functional SE and the mass form m(u,v) = sum_q w_q rho u_h(q).v_h(q)
   (kinetic_energy_density integrated with the displacement shape functions).  The minimiser of the algorithmic energy is an
   oracle `solve` (the nonlinear solver is not part of this property).  Executable definitions only. *)
From Coq Require Import ZArith QArith Bool List.
From OV.base Require Import Num.
From OV.gen Require Import Gen_Mechanics.
Import ListNotations.

Section Fields.
  Context {T : Type} {NT : Num T} {I : Type}.
  Definition field : Type := I -> T.
  Definition fadd (u v : field) : field := fun i => nadd (u i) (v i).
  Definition fsub (u v : field) : field := fun i => nsub (u i) (v i).
  Definition fscal (a : T) (u : field) : field := fun i => nmul a (u i).
  Definition fzero : field := fun _ => nzero.

  (* the regenerated kernels, entry by entry *)
  Definition predictF (gamma beta : T) (U V A : field) (dt : T) : field * field :=
    (fun i => fst (predict gamma beta (U i) (V i) (A i) dt), fun i => snd (predict gamma beta (U i) (V i) (A i) dt)).
  Definition correctF (gamma beta : T) (UC V A : field) (dt : T) : field * field :=      (* returns (V, A) *)
    (fun i => fst (correct gamma beta (UC i) (V i) (A i) dt), fun i => snd (correct gamma beta (UC i) (V i) (A i) dt)).

  Definition alg_energy (SE : field -> T) (m : field -> field -> T) (beta dt : T) (Up U : field) : T :=
    nadd (SE U) (nmul (ndiv nunit (nmul beta (nmul dt dt))) (nmul nhalf (m (fsub U Up) (fsub U Up)))).

  Record state : Type := mkState { sU : field; sV : field; sA : field }.
  (* one time step: predict; minimise the algorithmic energy (oracle); correct *)
  Definition newmark_step (gamma beta : T) (solve : field -> T -> field) (s : state) (dt : T) : state :=
    let '(Up, Vp) := predictF gamma beta (sU s) (sV s) (sA s) dt in
    let U1 := solve Up dt in
    let '(V1, A1) := correctF gamma beta (fsub U1 Up) Vp (sA s) dt in
    mkState U1 V1 A1.
  Fixpoint newmark_run (gamma beta : T) (solve : field -> T -> field) (s : state) (dts : list T) : state :=
    match dts with [] => s | dt :: r => newmark_run gamma beta solve (newmark_step gamma beta solve s dt) r end.
  Definition total_energy (SE : field -> T) (m : field -> field -> T) (s : state) : T :=
    nadd (nmul nhalf (m (sV s) (sV s))) (SE (sU s)).
End Fields.

(* kinetic energy of a finite-element velocity field: quadrature points q with weight w_q (element volume * quadrature weight)
   and the values N_a(q) of the shape functions of the nodes a (in the same order as the nodal velocities) *)
Section Kinetic.
  Context {T : Type} {NT : Num T}.
  Fixpoint interp2 (N : list T) (V : list (T * T)) : T * T :=
    match N, V with
    | n :: N', (vx, vy) :: V' => let '(ax, ay) := interp2 N' V' in (nadd (nmul n vx) ax, nadd (nmul n vy) ay)
    | _, _ => (nzero, nzero)
    end.
  Definition kinetic_energy (rho : T) (qp : list (T * list T)) (V : list (T * T)) : T :=
    nsum (map (fun q : T * list T => let '(w, N) := q in let '(vx, vy) := interp2 N V in nmul w (kinetic_energy_density vx vy rho)) qp).
  (* entry (a,b) of the consistent mass matrix of one velocity component *)
  Definition mass_entry (rho : T) (qp : list (T * list T)) (a b : nat) : T :=
    nsum (map (fun q : T * list T => let '(w, N) := q in nmul (nmul w rho) (nmul (nth a N nzero) (nth b N nzero))) qp).
  Definition mass_total (rho : T) (qp : list (T * list T)) (n : nat) : T :=
    nsum (map (fun a => nsum (map (fun b => mass_entry rho qp a b) (seq 0 n))) (seq 0 n)).
End Kinetic.
