(* C06 -- hand model of optimism/treigen/treigen.py: solve(A, b, Delta).
   `eigh` is an oracle: its result (sig ascending, v = matrix whose COLUMNS are the eigenvectors, given as a list of rows)
   is an argument.  The hard-case branch is modelled as written (after repo commit 5a997d7): z = v[:,0] is the first COLUMN
   of v, and the sign in tau is +1 when p.z = 0.
   Executable definitions only. *)
From Coq Require Import ZArith QArith List Bool.
From OV.base Require Import Num.
From OV.model Require Import M_C06_Vec.
Import ListNotations.

Inductive trbranch := TInterior | THard | TSecular (iters : nat) | TOutOfFuel.

Section Treigen.
  Context {T : Type} {NT : Num T}.
  Local Notation vec := (list T).

  Definition c_1em12 : T := nconst (1 # 1000000000000) (4951760157141521, -92)%Z.
  Definition c_1em9 : T := nconst (1 # 1000000000) (4835703278458517, -82)%Z.

  Definition vrecip_pow2 (s : vec) : vec := map (fun x => ndiv nunit (nmul x x)) s.             (* 1.0/(sig*sig) *)
  Definition vrecip_pow3 (s : vec) : vec := map (fun x => ndiv nunit (nmul (nmul x x) x)) s.    (* 1.0/(sig*sig*sig) *)
  Definition pnorm_squared (bvv s : vec) : T := vdot bvv (vrecip_pow2 s).
  Definition qnorm_squared (bvv s : vec) : T := vdot bvv (vrecip_pow3 s).
  Definition vmean_abs (s : vec) : T := ndiv (nsum (map nabs s)) (nZ (Z.of_nat (length s))).   (* np.mean(np.abs(sig)) *)

  (* the hard-case completion  p + tau*z  with  sgn = where(pz < 0, -1, 1),  tau = ddmpp/(pz + sgn*sqrt(pz*pz + ddmpp)) *)
  Definition hard_case_step (p z : vec) (Delta : T) : vec :=
    let pz := vdot p z in
    let pp := vdot p p in
    let ddmpp := nsub (nmul Delta Delta) pp in
    let sgn := if nltb pz nzero then nopp nunit else nunit in
    let tau := ndiv ddmpp (nadd pz (nmul sgn (nsqrt (nadd (nmul pz pz) ddmpp)))) in
    vaxpy p tau z.

  Fixpoint secular (fuel n : nat) (bvv sig : vec) (Delta lam pNormSq bError : T) : option (T * nat) :=
    if nltb c_1em9 (nabs bError) then
      match fuel with
      | O => None
      | S f =>
        let qNormSq := qnorm_squared bvv (vshift lam sig) in
        let lam' := nadd lam (nmul (ndiv pNormSq qNormSq) bError) in
        let pNormSq' := pnorm_squared bvv (vshift lam' sig) in
        let pNorm := nsqrt pNormSq' in
        secular f (S n) bvv sig Delta lam' pNormSq' (ndiv (nsub pNorm Delta) Delta)
      end
    else Some (lam, n).

  (* sig, v : what eigh(A) returned *)
  Definition treigen_solve (fuel : nat) (sig : vec) (v : list vec) (b : vec) (Delta : T) : trbranch * vec :=
    let n := length sig in
    let bv := matvec (transpose_n n v) b in          (* v.T @ b *)
    let bvv := vmul bv bv in
    let sig0 := hd nzero sig in
    if andb (nltb nzero sig0) (nltb (vnorm (vdiv bv sig)) Delta) then
      (TInterior, vneg (matvec v (vdiv bv sig)))
    else
      let sigScale := vmean_abs sig in
      let eps := nmul c_1em12 sigScale in
      let minSig := sig0 in
      let lam := if nltb minSig eps then nadd (nopp minSig) eps else nzero in
      if andb (nltb minSig eps) (nltb (vnorm (vdiv bv (vshift lam sig))) Delta) then
        let p := vneg (matvec v (vdiv bv (vshift lam sig))) in
        let z := map (fun row => hd nzero row) v in    (* v[:,0] : first column = lowest eigenvector *)
        (THard, hard_case_step p z Delta)
      else
        let pNormSq := pnorm_squared bvv (vshift lam sig) in
        let pNorm := nsqrt pNormSq in
        let bError := ndiv (nsub pNorm Delta) Delta in
        match secular fuel O bvv sig Delta lam pNormSq bError with
        | None => (TOutOfFuel, [])
        | Some (lam', k) => (TSecular k, vneg (matvec v (vdiv bv (vshift lam' sig))))
        end.

  (* energy(A, b, s) with A given by its rows *)
  Definition tr_energy (A : list vec) (b s : vec) : T := nadd (nmul nhalf (vdot s (matvec A s))) (vdot s b).
End Treigen.
