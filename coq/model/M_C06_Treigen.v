(* C06 -- hand model of optimism/treigen/treigen.py: solve(A, b, Delta).
   `eigh` is an oracle: its result (sig ascending, v = matrix whose COLUMNS are the eigenvectors, given as a list of rows)
   is an argument.  The hard-case branch is modelled as written (after repo commit 5a997d7): z = v[:,0] is the first COLUMN
   of v, and the sign in tau is +1 when p.z = 0.  As written after repo commits 4d37146 and 545a5c4: the early return for a
   zero model Hessian (sigScale == 0), and the secular iteration as a `for _ in range(cap)` (cap = 100 in the source, read off
   the AST by the harness on every run) with its three exits: the tolerance test at the head of a pass, the fixed point
   `lamNew == lam`, and the exhaustion of the range.  There is no out-of-fuel result any more: the loop terminates by construction.
   Executable definitions only. *)
From Coq Require Import ZArith QArith List Bool.
From OV.base Require Import Num.
From OV.model Require Import M_C06_Vec.
Import ListNotations.

(* which return statement / loop exit produced the step; the naturals count the updates of lam that were made:
   TSecular  : the head test `not abs(bError) > 1e-9` stopped the loop (or the range ended with the test satisfied)
   TStalled  : `if lamNew == lam: break`
   TCapped   : the range ended with abs(bError) > 1e-9 still true
   TZero     : the early return for sigScale == 0 *)
Inductive trbranch := TInterior | THard | TSecular (iters : nat) | TZero | TStalled (iters : nat) | TCapped (iters : nat).

Section Treigen.
  Context {T : Type} {NT : Num T}.
  Local Notation vec := (list T).

  Definition c_1em12 : T := nconst (1 # 1000000000000) (4951760157141521, -92)%Z.
  Definition c_1em9 : T := nconst (1 # 1000000000) (4835703278458517, -82)%Z.

  Definition vrecip_pow2 (s : vec) : vec := map (fun x => ndiv nunit (nmul x x)) s.             (* 1.0/(sig*sig) *)
  Definition vrecip_pow3 (s : vec) : vec := map (fun x => ndiv nunit (nmul (nmul x x) x)) s.    (* 1.0/(sig*sig*sig) *)
  Definition pnorm_squared (bvv s : vec) : T := vdot bvv (vrecip_pow2 s).
  Definition qnorm_squared (bvv s : vec) : T := vdot bvv (vrecip_pow3 s).
  Definition vmean_abs (s : vec) : T := ndiv (nsum (map nabs s)) (nZ (Z.of_nat (length s))).   (* np.mean(np.abs(sig)) *)

  (* the hard-case completion  p + tau*z  with  sgn = where(pz < 0, -1, 1),  tau = ddmpp/(pz + sgn*sqrt(pz*pz + ddmpp)) *)
  Definition hard_case_step (p z : vec) (Delta : T) : vec :=
    let pz := vdot p z in
    let pp := vdot p p in
    let ddmpp := nsub (nmul Delta Delta) pp in
    let sgn := if nltb pz nzero then nopp nunit else nunit in
    let tau := ndiv ddmpp (nadd pz (nmul sgn (nsqrt (nadd (nmul pz pz) ddmpp)))) in
    vaxpy p tau z.

  (* the secular loop; tol is the literal 1e-9 of the source (a parameter so that termination can be stated for every tolerance),
     cap the passes left of the range, n the updates of lam made so far; returns the multiplier and the exit taken *)
  Fixpoint secular (tol : T) (cap n : nat) (bvv sig : vec) (Delta lam pNormSq bError : T) : T * trbranch :=
    match cap with
    | O => (lam, if nltb tol (nabs bError) then TCapped n else TSecular n)
    | S f =>
      if nltb tol (nabs bError) then                        (* if not np.abs(bError) > 1e-9: break *)
        let qNormSq := qnorm_squared bvv (vshift lam sig) in
        let lamNew := nadd lam (nmul (ndiv pNormSq qNormSq) bError) in
        if neqb lamNew lam then (lam, TStalled n)           (* if lamNew == lam: break *)
        else
          let pNormSq' := pnorm_squared bvv (vshift lamNew sig) in
          let pNorm := nsqrt pNormSq' in
          secular tol f (S n) bvv sig Delta lamNew pNormSq' (ndiv (nsub pNorm Delta) Delta)
      else (lam, TSecular n)
    end.

  (* sig, v : what eigh(A) returned *)
  Definition treigen_solve (cap : nat) (sig : vec) (v : list vec) (b : vec) (Delta : T) : trbranch * vec :=
    let n := length sig in
    let bv := matvec (transpose_n n v) b in          (* v.T @ b *)
    let bvv := vmul bv bv in
    let sig0 := hd nzero sig in
    if andb (nltb nzero sig0) (nltb (vnorm (vdiv bv sig)) Delta) then
      (TInterior, vneg (matvec v (vdiv bv sig)))
    else
      let sigScale := vmean_abs sig in
      if neqb sigScale nzero then                      (* A = 0 *)
        let bNorm := vnorm b in
        (TZero, if nltb nzero bNorm then vscale (nopp (ndiv Delta bNorm)) b else vscale nzero b)   (* -(Delta/bNorm)*b  /  0.*b *)
      else
      let eps := nmul c_1em12 sigScale in
      let minSig := sig0 in
      let lam := if nltb minSig eps then nadd (nopp minSig) eps else nzero in
      if andb (nltb minSig eps) (nltb (vnorm (vdiv bv (vshift lam sig))) Delta) then
        let p := vneg (matvec v (vdiv bv (vshift lam sig))) in
        let z := map (fun row => hd nzero row) v in    (* v[:,0] : first column = lowest eigenvector *)
        (THard, hard_case_step p z Delta)
      else
        let pNormSq := pnorm_squared bvv (vshift lam sig) in
        let pNorm := nsqrt pNormSq in
        let bError := ndiv (nsub pNorm Delta) Delta in
        let '(lam', br) := secular c_1em9 cap O bvv sig Delta lam pNormSq bError in
        (br, vneg (matvec v (vdiv bv (vshift lam' sig)))).

  (* energy(A, b, s) with A given by its rows *)
  Definition tr_energy (A : list vec) (b s : vec) : T := nadd (nmul nhalf (vdot s (matvec A s))) (vdot s b).
End Treigen.
