(* C01 -- the driver EquationSolver.nonlinear_equation_solve: an interpreter for ITS extracted syntax tree
   (gen/CFG_TR.v: cfg_nonlinear_equation_solve, regenerated from /repo's AST on every run) with a semantics for the attribute
   store `objective.p = p`, and a hand-written closed form (driver_hand) that proofs/L_C01_Drv.v proves equal to it.

   The objective is a mutable object: its oracles read objective.p at CALL time.  Hence here they are functions of a parameter
   value of an arbitrary type P:  value, grad, hessvec : P -> ...;  the preconditioner oracles get TWO parameters, the one that
   was current when the preconditioner was last rebuilt by the driver (update_precond reads objective.p) and the one current at
   call time, so that a stale preconditioner (updatePrecond=False) is expressible.  WarmStart.warm_start_increment(objective,
   x, pNew) is an oracle `warm` of everything it can read: objective.p (the OLD parameters at that point), the preconditioner
   state and its arguments; it is assumed not to modify the objective (checked syntactically on the source by the harness).
   objective.scaling / objective.invScaling are a float or a vector (ScaledObjective).
   State of the driver: local variables, objective.p (dpar), the parameter (dpcp) and point (dxp) of the last update_precond,
   and a trace of the effects: update_precond calls (with the parameter current at that time), the store objective.p = p, and
   the call of the solver with the parameter current at that time, its arguments and everything it reported.
   The solver call `solver_algorithm(objective, xBar0, settings, callback=callback)` resolves the callee in the function table
   of the module, binds positional / keyword / default arguments as Python does and hands over to `solver` -- an argument of
   the interpreter that is instantiated (below) by (i) the interpreter of model/M_C01_CFG.v running the callee's OWN extracted
   syntax tree, or (ii) the hand model model/M_C01_TR.v -- with the oracles taken at the parameter that is current AT THE CALL.
   Anything not listed is an error (DError / None).  Exceptions are not modelled.  Executable definitions only. *)
From Coq Require Import ZArith QArith List Bool String.
From OV.base Require Import Num.
From OV.model Require Import M_C06_Vec M_C06_CG M_C01_TR M_C01_CFG.
Import ListNotations.
Open Scope string_scope.

Inductive scal (T : Type) := ScS (t : T) | ScV (v : list T).
Arguments ScS {T} t. Arguments ScV {T} v.

Section Driver.
  Context {T : Type} {NT : Num T} {P : Type}.
  Local Notation vec := (list T).
  Variable warm : P -> P -> vec -> vec -> P -> vec.      (* objective.p, preconditioner parameter and point, x, pNew *)
  Variable scaling invScaling : scal T.
  (* callee name, its syntax tree, argument values, objective.p, preconditioner parameter and point
     -> returned point, flag, reported events, preconditioner point afterwards *)
  Variable solver : string -> fundef -> list (@val T) -> P -> P -> vec -> option (vec * bool * list (@rawev T) * vec).
  Variable ftable : list (string * fundef).

  Inductive dval :=
  | DV (v : vec) | DS (t : T) | DB (b : bool) | DP (p : P) | DObj | DSet | DCb | DNone
  | DMeth (m : string) | DGlob (g : string) | DUnbound | DTup (l : list dval).

  Inductive devent :=
  | DUpdatePrecond (par : P) (x : vec)          (* objective.update_precond(x) while objective.p = par *)
  | DSetP (p : P)                               (* objective.p = p *)
  | DSolve (g : string) (par pcp : P) (xp : vec) (args : list (@val T)) (x : vec) (flag : bool) (ev : list (@rawev T)).
  Record dstate := { denv : list (string * dval); dpar : P; dpcp : P; dxp : vec; dtrace : list devent }.
  Inductive doutcome := DNormal (st : dstate) | DReturn (v : dval) (st : dstate) | DError.

  Definition with_denv (e : list (string * dval)) (st : dstate) : dstate :=
    {| denv := e; dpar := dpar st; dpcp := dpcp st; dxp := dxp st; dtrace := dtrace st |}.
  Fixpoint dupdate (k : string) (v : dval) (l : list (string * dval)) : list (string * dval) :=
    match l with [] => [(k, v)] | (k', v') :: r => if String.eqb k k' then (k, v) :: r else (k', v') :: dupdate k v r end.
  Definition dassign (k : string) (v : dval) (st : dstate) : dstate := with_denv (dupdate k v (denv st)) st.
  Fixpoint dassign_all (ks : list string) (vs : list dval) (st : dstate) : option dstate :=
    match ks, vs with
    | [], [] => Some st
    | k :: ks', v :: vs' => dassign_all ks' vs' (dassign k v st)
    | _, _ => None
    end.

  Definition dtruthy (v : dval) : option bool := match v with DB b => Some b | DCb => Some true | DNone => Some false | _ => None end.
  Definition dscal (s : scal T) : dval := match s with ScS t => DS t | ScV v => DV v end.
  Definition smul (s : scal T) (x : vec) : vec := match s with ScS t => vscale t x | ScV v => vmul v x end.
  Definition dbin (op : binop) (a b : dval) : option dval :=
    match op, a, b with
    | BMul, DS t, DV x => Some (DV (vscale t x))
    | BMul, DV s, DV x => Some (DV (vmul s x))
    | BAdd, DV x, DV y => Some (DV (vadd x y))
    | _, _, _ => None
    end.
  Definition to_val (v : dval) : option (@val T) :=
    match v with DV x => Some (VV x) | DObj => Some VObj | DSet => Some VSet | DCb => Some VCb | DNone => Some VNone | DB b => Some (VB b)
            | _ => None end.
  Fixpoint all_some {A : Type} (l : list (option A)) : option (list A) :=
    match l with [] => Some [] | Some a :: r => option_map (cons a) (all_some r) | None :: _ => None end.

  (* the full positional argument list of f(args, **kws) for a function with parameters ps and defaults defs, as Python binds it *)
  Fixpoint call_args (ps : list string) (args : list dval) (kws defs : list (string * dval)) : option (list dval) :=
    match ps, args with
    | [], [] => Some []
    | [], _ :: _ => None                                                    (* too many positional arguments *)
    | p :: ps', a :: args' => match assoc p kws with
                              | Some _ => None                              (* multiple values for a parameter *)
                              | None => option_map (cons a) (call_args ps' args' kws defs) end
    | p :: ps', [] => match (match assoc p kws with Some v => Some v | None => assoc p defs end) with
                      | Some v => option_map (cons v) (call_args ps' [] kws defs)
                      | None => None end                                    (* missing argument *)
    end.
  Definition kws_known (ps : list string) (kws : list (string * dval)) : bool :=
    forallb (fun kw => existsb (String.eqb (fst kw)) ps) kws.

  Fixpoint deval (F : nat) (e : expr) (st : dstate) {struct F} : option dval :=
    match F with O => None | Datatypes.S F' =>
    match e with
    | EName x => match assoc x (denv st) with Some DUnbound => None | r => r end
    | EGlobal x => Some (DGlob x)
    | EAttr e a => match deval F' e st with
                   | Some DObj => if String.eqb a "scaling" then Some (dscal scaling)
                                  else if String.eqb a "invScaling" then Some (dscal invScaling)
                                  else if String.eqb a "p" then Some (DP (dpar st))
                                  else Some (DMeth a)
                   | Some (DGlob g) => Some (DGlob (g ++ "." ++ a))
                   | _ => None end
    | EBool b => Some (DB b)
    | ENone => Some DNone
    | EBin op a b => match deval F' a st, deval F' b st with Some x, Some y => dbin op x y | _, _ => None end
    | ETuple l => option_map DTup (all_some (map (fun a => deval F' a st) l))
    | ECall f args [] =>                   (* the only pure call: WarmStart.warm_start_increment(objective, x, pNew) *)
        match deval F' f st, all_some (map (fun a => deval F' a st) args) with
        | Some (DGlob g), Some [DObj; DV x; DP pn] =>
            if String.eqb g "WarmStart.warm_start_increment" then Some (DV (warm (dpar st) (dpcp st) (dxp st) x pn)) else None
        | _, _ => None end
    | _ => None
    end end.

  Definition deval_kws (F : nat) (kws : list (string * expr)) (st : dstate) : option (list (string * dval)) :=
    all_some (map (fun kw => option_map (pair (fst kw)) (deval F (snd kw) st)) kws).

  (* e is a call of a function of the module (the solver): Some (result) -- None inside means the call failed *)
  Definition module_call (F : nat) (e : expr) (st : dstate) : option (option (list dval * dstate)) :=
    match e with
    | ECall f args kws =>
        match deval F f st with
        | Some (DGlob g) =>
            match assoc g ftable with
            | Some fd =>
                Some (match all_some (map (fun a => deval F a st) args), deval_kws F kws st, deval_kws F (f_defaults fd) (with_denv [] st) with
                      | Some avs, Some kvs, Some dvs =>
                          if kws_known (f_params fd) kvs then
                            match call_args (f_params fd) avs kvs dvs with
                            | Some full =>
                                match all_some (map to_val full) with
                                | Some vals =>
                                    match solver g fd vals (dpar st) (dpcp st) (dxp st) with
                                    | Some (x, fl, ev, xp') =>
                                        Some ([DV x; DB fl],
                                              {| denv := denv st; dpar := dpar st; dpcp := dpcp st; dxp := xp';
                                                 dtrace := (dtrace st ++ [DSolve g (dpar st) (dpcp st) (dxp st) vals x fl ev])%list |})
                                    | None => None end
                                | None => None end
                            | None => None end
                          else None
                      | _, _, _ => None end)
            | None => None end
        | _ => None end
    | _ => None
    end.

  Fixpoint dexec (F : nat) (s : stmt) (st : dstate) {struct F} : doutcome :=
    match F with O => DError | Datatypes.S F' =>
    match s with
    | SAssign ts e =>
        match module_call F' e st with
        | Some (Some (vs, st')) => match dassign_all ts vs st' with Some st'' => DNormal st'' | None => DError end
        | Some None => DError
        | None =>
            match ts, deval F' e st with
            | [x], Some v => DNormal (dassign x v st)
            | _, Some (DTup vs) => match dassign_all ts vs st with Some st' => DNormal st' | None => DError end
            | _, _ => DError end
        end
    | SAug op x e => match deval F' (EName x) st, deval F' e st with
                     | Some a, Some b => match dbin op a b with Some v => DNormal (dassign x v st) | None => DError end
                     | _, _ => DError end
    | SSetAttr o a e =>                      (* objective.p = e : the only attribute store with a meaning *)
        match deval F' (EName o) st, deval F' e st with
        | Some DObj, Some (DP p) =>
            if String.eqb a "p" then
              DNormal {| denv := denv st; dpar := p; dpcp := dpcp st; dxp := dxp st; dtrace := (dtrace st ++ [DSetP p])%list |}
            else DError
        | _, _ => DError end
    | SIf c a b => match deval F' c st with
                   | Some v => match dtruthy v with
                               | Some cb => if cb then dblock F' a st else dblock F' b st
                               | None => DError end
                   | None => DError end
    | SReturn e => match deval F' e st with Some v => DReturn v st | None => DError end
    | SExpr (ECall f [a] []) =>              (* objective.update_precond(x): rebuilt from x and the CURRENT objective.p *)
        match deval F' f st, deval F' a st with
        | Some (DMeth m), Some (DV x) =>
            if String.eqb m "update_precond" then
              DNormal {| denv := denv st; dpar := dpar st; dpcp := dpar st; dxp := x; dtrace := (dtrace st ++ [DUpdatePrecond (dpar st) x])%list |}
            else DError
        | _, _ => DError end
    | _ => DError
    end end
  with dblock (F : nat) (l : list stmt) (st : dstate) {struct F} : doutcome :=
    match F with O => DError | Datatypes.S F' =>
    match l with
    | [] => DNormal st
    | s :: r => match dexec F' s st with DNormal st' => dblock F' r st' | o => o end
    end end.

  (* run a function of the table from a given state of the objective (p, preconditioner) *)
  Definition drun (F : nat) (fd : fundef) (args : list dval) (par pcp : P) (xp : vec) : doutcome :=
    match dassign_all (f_params fd) args {| denv := []; dpar := par; dpcp := pcp; dxp := xp; dtrace := [] |} with
    | Some st => dblock F (f_body fd) st
    | None => DError
    end.
  (* nonlinear_equation_solve(objective, x0, p, settings, callback=cb, useWarmStart=uw, updatePrecond=up): solver_algorithm is
     left to its default, read off the tree *)
  Definition drun_default (F : nat) (fd : fundef) (x0 : vec) (p : P) (cb : dval) (uw up : bool) (par pcp : P) (xp : vec) : doutcome :=
    let st0 := {| denv := []; dpar := par; dpcp := pcp; dxp := xp; dtrace := [] |} in
    match deval_kws F (f_defaults fd) st0 with
    | Some dvs => match call_args (f_params fd) [DObj; DV x0; DP p; DSet] [("callback", cb); ("useWarmStart", DB uw); ("updatePrecond", DB up)] dvs with
                  | Some full => drun F fd full par pcp xp
                  | None => DError end
    | None => DError
    end.

  Definition dresult_of (o : doutcome) : option (vec * bool * P * P * vec * list devent) :=
    match o with
    | DReturn (DTup [DV x; DB f]) st => Some (x, f, dpar st, dpcp st, dxp st, dtrace st)
    | _ => None
    end.

  (* ---- the closed form: what the driver does, written by hand.  td: the syntax tree of the default solver *)
  Definition driver_hand (g : string) (td : fundef) (x0 : vec) (p : P) (cb : @val T) (uw up : bool) (par pcp : P) (xp : vec)
      : option (vec * bool * P * P * vec * list devent) :=
    let xb := smul scaling x0 in
    (* useWarmStart: [update_precond(xBar0)] ; xBar0 += warm_start_increment(objective, xBar0, p) -- all under the OLD objective.p *)
    let '(pcp1, xp1, ev1) := if andb uw up then (par, xb, [DUpdatePrecond par xb]) else (pcp, xp, []) in
    let xb1 := if uw then vadd xb (warm par pcp1 xp1 xb p) else xb in
    (* objective.p = p ; [update_precond(xBar0)] -- under the NEW parameters *)
    let '(pcp2, xp2, ev2) := if up then (p, xb1, [DUpdatePrecond p xb1]) else (pcp1, xp1, []) in
    let args := [VObj; VV xb1; VSet; cb] in
    match solver g td args p pcp2 xp2 with
    | Some (x, fl, ev, xp3) =>
        Some (smul invScaling x, fl, p, pcp2, xp3, (ev1 ++ [DSetP p] ++ ev2 ++ [DSolve g p pcp2 xp2 args x fl ev])%list)
    | None => None
    end.
End Driver.

Arguments DV {T P} v. Arguments DS {T P} t. Arguments DB {T P} b. Arguments DP {T P} p. Arguments DObj {T P}. Arguments DSet {T P}.
Arguments DCb {T P}. Arguments DNone {T P}. Arguments DMeth {T P} m. Arguments DGlob {T P} g. Arguments DUnbound {T P}. Arguments DTup {T P} l.
Arguments DUpdatePrecond {T P} par x. Arguments DSetP {T P} p. Arguments DSolve {T P} g par pcp xp args x flag ev.
Arguments DNormal {T P} st. Arguments DReturn {T P} v st. Arguments DError {T P}.

(* ---- the two solvers *)
Section Solvers.
  Context {T : Type} {NT : Num T} {P : Type}.
  Local Notation vec := (list T).
  Variable value : P -> vec -> T.
  Variable grad : P -> vec -> vec.
  Variable hessvec : P -> vec -> vec -> vec.
  Variable precond mult_approx : P -> P -> vec -> vec -> vec.   (* preconditioner parameter, objective.p at call time, point, vector *)
  Variable S : settings T.
  Variable chk : bool.
  Variable wfuel : nat.

  (* (i) the callee's own extracted syntax tree, interpreted (model/M_C01_CFG.v) with the oracles at the current parameter *)
  Definition solver_tree (ftable : list (string * fundef)) (strconsts : list (string * string)) (F : nat)
      (g : string) (fd : fundef) (args : list (@val T)) (par pcp : P) (xp0 : vec) : option (vec * bool * list (@rawev T) * vec) :=
    match @run T NT (value par) (grad par) (hessvec par) (precond pcp par) (mult_approx pcp par) S chk wfuel ftable strconsts F fd args xp0 with
    | OReturn (VTup [VV x; VB f]) st => Some (x, f, trace st, xp st)
    | _ => None
    end.

  (* (ii) the hand model of trust_region_minimize (model/M_C01_TR.v); without a callback only update_precond is observable *)
  Definition xp_after (xp0 : vec) (ev : list (@rawev T)) : vec :=
    fold_left (fun acc e => match e with RPrecond x => x | _ => acc end) ev xp0.
  Definition no_callbacks (ev : list (@rawev T)) : list (@rawev T) :=
    filter (fun e => match e with RPrecond _ => true | _ => false end) ev.
  Definition solver_hand (g : string) (fd : fundef) (args : list (@val T)) (par pcp : P) (xp0 : vec) : option (vec * bool * list (@rawev T) * vec) :=
    if String.eqb g "trust_region_minimize" then
      match args with
      | [VObj; VV x; VSet; cb] =>
          match (match cb with VCb => Some true | VNone => Some false | _ => None end) with
          | Some has_cb =>
              let '(xr, flag, tr) := @trust_region_minimize T NT (value par) (grad par) (hessvec par) (precond pcp par) (mult_approx pcp par) S wfuel x xp0 in
              if existsb is_fuel tr then None
              else let ev := raw chk tr in
                   Some (xr, flag, if has_cb then ev else no_callbacks ev, xp_after xp0 ev)
          | None => None end
      | _ => None end
    else None.
End Solvers.
