(* C13 -- coordinates written by create_higher_order_mesh_from_simplex_mesh (one coordinate component; x and y are treated alike):
     coords = vstack((mesh.coords, edgeCoords.reshape(-1,2), interiorCoords.reshape(-1,2)))
     edgeCoords[e][k]     = (1 - s_k) X[a_e] + s_k X[b_e]          (a_e, b_e) = edgeConns[e],  s_k = 1-D interior node k
     interiorCoords[t][k] = N0_k X[c_t0] + N1_k X[c_t1] + (1 - N0_k - N1_k) X[c_t2]
   and the certificate (evaluated over Q on the implementation's reference-element tables) that reference face nodes lie at the
   1-D node parameters between the end vertices of their side.  No proofs here. *)
From Coq Require Import Reals List Arith QArith Qabs ZArith.
Import ListNotations.

Section CoordModel.
  Local Open Scope R_scope.
  Variable X : nat -> R.                 (* vertex coordinate (one component) of the simplex mesh *)
  Variable s1d : nat -> R.               (* parentElement1d.coordinates[interiorNodes][k] *)
  Variables N0 N1 : nat -> R.            (* basis.coordinates[interiorNodes][k, 0/1] *)
  Variables ea eb : nat -> nat.          (* edgeConns[e] = (ea e, eb e) *)
  Variable tri : nat -> nat -> nat.      (* mesh.conns[t][i] *)
  Variables nV nE m nI : nat.

  Definition edge_coord (e k : nat) : R := (1 - s1d k) * X (ea e) + s1d k * X (eb e).
  Definition interior_coord (t k : nat) : R :=
    N0 k * X (tri t 0) + N1 k * X (tri t 1) + (1 - N0 k - N1 k) * X (tri t 2).
  (* row id of the stacked coordinate array *)
  Definition elev_coord (id : nat) : R :=
    if id <? nV then X id
    else if id <? nV + nE * m then edge_coord ((id - nV) / m) ((id - nV) mod m)
    else interior_coord ((id - nV - nE * m) / nI) ((id - nV - nE * m) mod nI).

  (* affine image of the reference point (xi0, xi1) in the element with vertex values X0 X1 X2 *)
  Definition affine_image (xi0 xi1 X0 X1 X2 : R) : R := xi0 * X0 + xi1 * X1 + (1 - xi0 - xi1) * X2.
  (* barycentric weight of vertex j for the point at parameter sk on side s (from vertex s to vertex s+1 mod 3) *)
  Definition side_weight (s j : nat) (sk : R) : R :=
    (if Nat.eqb j s then 1 - sk else 0) + (if Nat.eqb j ((s + 1) mod 3) then sk else 0).
End CoordModel.

(* ---- certificate over Q: ref = reference coordinates of all nodes, vertex positions at the unit points, face node k of side s
        within tol of the barycentric point with weights side_weight *)
Definition qnth (l : list (Q * Q)) (i : nat) : Q * Q := nth i l (0, 0)%Q.
Definition qweight (s j : nat) (sk : Q) : Q :=
  ((if Nat.eqb j s then 1 - sk else 0) + (if Nat.eqb j ((s + 1) mod 3) then sk else 0))%Q.
Definition ref_vertex_okb (ref : list (Q * Q)) (vertex : list nat) : bool :=
  match vertex with
  | [v0; v1; v2] => Qeq_bool (fst (qnth ref v0)) 1 && Qeq_bool (snd (qnth ref v0)) 0
                    && Qeq_bool (fst (qnth ref v1)) 0 && Qeq_bool (snd (qnth ref v1)) 1
                    && Qeq_bool (fst (qnth ref v2)) 0 && Qeq_bool (snd (qnth ref v2)) 0
  | _ => false
  end.
Definition ref_face_okb (ref : list (Q * Q)) (mids : list (list nat)) (s1d : list Q) (tol : Q) : bool :=
  forallb (fun sm : nat * list nat =>
    let s := fst sm in
    (Nat.eqb (length (snd sm)) (length s1d)) &&
    forallb (fun pk : nat * Q =>
      Qle_bool (Qabs (fst (qnth ref (fst pk)) - qweight s 0 (snd pk))) tol
      && Qle_bool (Qabs (snd (qnth ref (fst pk)) - qweight s 1 (snd pk))) tol) (combine (snd sm) s1d))
  (combine [0; 1; 2]%nat mids).
Definition ref_coord_cert (ref : list (Q * Q)) (vertex : list nat) (mids : list (list nat)) (s1d : list Q) (tol : Q) : list Z :=
  [if ref_vertex_okb ref vertex && ref_face_okb ref mids s1d tol then 1%Z else 0%Z].
