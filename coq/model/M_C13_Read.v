(* C13 -- index arithmetic of the mesh readers (optimism/ReadExodusMesh.py; ReadMesh.py passes indices through unchanged).
   An Exodus file stores 1-based node/element/side numbers; the reader subtracts 1, stacks the blocks' connectivity,
   gives block i the element range [first_i, first_i + n_i) and reorders 6-node rows into the native node order. *)
From Coq Require Import List Arith.
Import ListNotations.

Definition exo2native : list nat := [0; 3; 1; 5; 4; 2].          (* exodusToNativeTri6NodeOrder *)
Definition permute_tri6 (row : list nat) : list nat := map (fun p => nth p row 0) exo2native.   (* conns[:, perm] *)
Definition to0 (l : list nat) : list nat := map pred l.             (* record[:] - 1 *)

(* _read_blocks: blocks = list of 1-based connectivity tables *)
Fixpoint block_ranges (first : nat) (sizes : list nat) : list (list nat) :=
  match sizes with [] => [] | n :: r => seq first n :: block_ranges (first + n) r end.
Definition read_conns (blocks : list (list (list nat))) : list (list nat) := concat (map (map to0) blocks).
Definition read_block_ranges (blocks : list (list (list nat))) : list (list nat) := block_ranges 0 (map (@length _) blocks).
Definition read_sideset (elems sides : list nat) : list (nat * nat) := combine (to0 elems) (to0 sides).
(* _get_vertex_nodes_from_exodus_tri6_mesh: the set of ids in the first three columns *)
Definition vertex_ids (conns : list (list nat)) : list nat := nodup Nat.eq_dec (flat_map (firstn 3) conns).

(* native quadratic triangle (Interpolants.make_parent_element_2d(2)): vertexNodes and faceNodes *)
Definition native_vertex : list nat := [0; 2; 5].
Definition native_faces : list (list nat) := [[0; 1; 2]; [2; 4; 5]; [5; 3; 0]].
