(* C19 -- hand model of the linear solve inside WarmStart.warm_start_increment:
     dp = objective.p[index] - pNew[index];  b = objective.jacobian_p_vec(x, dp)  (index 0; jacobian_p2_vec for index 2)
     dx, info = scipy.sparse.linalg.cg(Lop, b, M=LopPrecond, callback=...)      ;  return dx      (info is NOT looked at)
   scipy_cg follows scipy 1.14 _isolve/iterative.py:cg statement by statement (x0 = None, rtol = 1e-5, atol = 0.,
   maxiter = None -> 10*n):  the `bnrm2 == 0` early return, atol := max(atol, rtol*|b|), the test `norm(r) < atol` at the HEAD
   of every pass (so the residual after the last permitted pass is never tested: the loop-exhausted exit reports failure),
   z = M r, rho = r.z, p = z (first pass) or beta*p + z, q = A p, alpha = rho / p.q, x += alpha p, r -= alpha q.
   Oracles: matvec (objective.hessian_vec(x, .)), psolve (objective.apply_precond), jac_p_vec (objective.jacobian_p_vec(x, .)).
   Tied to the running scipy routine by an exact-input correspondence stream (tools/props/c19.py, stream `cg`).
   Executable definitions only. *)
From Coq Require Import ZArith QArith List Bool.
From OV.base Require Import Num.
From OV.model Require Import M_C06_Vec.
Import ListNotations.

Section ScipyCG.
  Context {T : Type} {NT : Num T}.
  Local Notation vec := (list T).
  Variable matvec psolve : vec -> vec.

  (* result: returned x, info == 0 ?, number of completed passes (= number of callback calls) *)
  Fixpoint scg_loop (fuel it : nat) (atol : T) (x r p : vec) (rho_prev : T) : vec * bool * nat :=
    match fuel with
    | O => (x, false, it)                                   (* for loop exhausted: return postprocess(x), maxiter *)
    | S f =>
      if nltb (vnorm r) atol then (x, true, it)              (* if np.linalg.norm(r) < atol: return postprocess(x), 0 *)
      else
        let z := psolve r in
        let rho := vdot r z in
        let p' := match it with O => z | S _ => vadd (vscale (ndiv rho rho_prev) p) z end in
        let q := matvec p' in
        let alpha := ndiv rho (vdot p' q) in
        scg_loop f (S it) atol (vaxpy x alpha p') (vsub r (vscale alpha q)) p' rho
    end.

  Definition scg_atol (b : vec) (rtol atol0 : T) : T := nmax atol0 (nmul rtol (vnorm b)).

  Definition scipy_cg (b : vec) (maxiter : nat) (rtol atol0 : T) : vec * bool * nat :=
    if neqb (vnorm b) nzero then (b, true, O)                (* if bnrm2 == 0: return postprocess(b), 0 *)
    else scg_loop maxiter O (scg_atol b rtol atol0) (vzero_like b) b b nzero.

  (* WarmStart.warm_start_increment(objective, x, pNew, index): p_old_i = objective.p[index], p_new_i = pNew[index] *)
  Definition warm_start_increment (jac_p_vec : vec -> vec) (p_old_i p_new_i : vec) (rtol : T) : vec * bool * nat :=
    let dp := vsub p_old_i p_new_i in
    let b := jac_p_vec dp in
    scipy_cg b (10 * length b) rtol nzero.
End ScipyCG.
