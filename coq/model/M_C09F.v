(* C09: executable TENSOR-level model of the J2 update for the FINITE-DEFORMATION kinematics ('large deformations', the default;
   multiplicative update of the plastic distortion) -- optimism/material/J2Plastic.py:
     compute_state_new_finite_deformations:
        elasticTrialStrain = compute_elastic_logarithmic_strain(dispGrad, stateOld)          (regenerated kernel, Gen_J2Elastic)
        stateInc = compute_state_increment(elasticTrialStrain, stateOld, dt, props, hardening_model)   (model/M_C09T.v state_increment)
        eqpsNew = ...; FpNew = TensorMath.exp_symm(stateInc[PLASTIC_DISTORTION]) @ FpOld     (regenerated TAIL, Gen_J2Finite)
     energy_density_function = _energy_density(compute_elastic_logarithmic_strain(dispGrad, state), state, ...)  (M_C09T.energy_add)
   No proofs here.  TensorMath.log_sqrt_symm / exp_symm are function parameters (lss, expm) of 9 scalars; their spectral form
   V diag(f(lam)) V^T over an eigen-solver (model/M_C11s.v: spectral, lss_spec, expm_spec -- what symmetric_matrix_function builds)
   is plugged in by fin_lss / fin_expm.  That the first two statements of the routine are the two calls above is checked on the AST
   on every run (tools/props/c09.py: structure_checks). *)
From Coq Require Import ZArith QArith Bool List.
From OV.base Require Import Num.
From OV.gen Require Import Gen_ScalarRootFind Gen_Hardening Gen_TensorMath Gen_J2Flow Gen_J2Elastic Gen_J2Finite.
From OV.model Require Import M_C17 M_C09 M_C09T M_C08 M_C11s.
Import ListNotations.

Section MF.
  Context {T : Type} {NT : Num T}.

  (* a 3x3 tensor function as the translator passes it: 9 scalars in, flat 3x3 out *)
  Definition fn9 : Type := T -> T -> T -> T -> T -> T -> T -> T -> T -> @m9 T.

  (* compute_elastic_logarithmic_strain(dispGrad, state): dev(log_sqrt_symm(Fe^T Fe)) + log1p(det(F) - 1)/3 I, Fe = F inv(Fp) *)
  Definition strain_log (lss : fn9) (H : @m9 T) (st : @tstate T) : @m9 T :=
    let '(h0, h1, h2, h3, h4, h5, h6, h7, h8) := H in
    let '(eo, (p0, p1, p2, p3, p4, p5, p6, p7, p8)) := st in
    compute_elastic_logarithmic_strain lss h0 h1 h2 h3 h4 h5 h6 h7 h8 eo p0 p1 p2 p3 p4 p5 p6 p7 p8.

  (* the regenerated tail: (eqpsOld + Delta eqps, exp_symm(Delta Ep) @ FpOld) *)
  Definition tail_fin (expm : fn9) (st : @tstate T) (inc : T * @m9 T) : @tstate T :=
    let '(eo, (p0, p1, p2, p3, p4, p5, p6, p7, p8)) := st in
    let '(d, (i0, i1, i2, i3, i4, i5, i6, i7, i8)) := inc in
    let '(e, f0, f1, f2, f3, f4, f5, f6, f7, f8) :=
      j2_state_new_finite_tail expm eo p0 p1 p2 p3 p4 p5 p6 p7 p8 d i0 i1 i2 i3 i4 i5 i6 i7 i8 in
    (e, (f0, f1, f2, f3, f4, f5, f6, f7, f8)).

  (* compute_state_new_finite_deformations; None = NaN state (root finder did not converge) *)
  Definition state_new_fin (lss expm : fn9) (l : law) (r : rate) (mu dt : T) (H : @m9 T) (st : @tstate T) : option (@tstate T) :=
    match state_increment l r mu dt (strain_log lss H st) (fst st) with
    | Some inc => Some (tail_fin expm st inc)
    | None => None
    end.

  (* energy_density_function for these kinematics *)
  Definition energy_fin (lss : fn9) := energy_add (strain_log lss).

  (* a history of (displacement gradient, time step) pairs; the list of states after each step; None once a NaN occurs *)
  Fixpoint history_fin (lss expm : fn9) (l : law) (r : rate) (mu : T) (steps : list (@m9 T * T)) (st : @tstate T) : option (list (@tstate T)) :=
    match steps with
    | [] => Some []
    | (H, dt) :: rest =>
        match state_new_fin lss expm l r mu dt H st with
        | None => None
        | Some st' => match history_fin lss expm l r mu rest st' with None => None | Some sts => Some (st' :: sts) end
        end
    end.

  (* make_initial_state_finite_deformations: eqps = 0, Fp = I *)
  Definition id9 : @m9 T := (nunit, nzero, nzero, nzero, nunit, nzero, nzero, nzero, nunit).
  Definition virgin_fin : @tstate T := (nzero, id9).

  (* the spectral tensor functions over an eigen-solver, in the translator's calling convention *)
  Definition fin_lss (eigh : mat T -> @eig T) : fn9 := lift1 (lss_spec eigh).
  Definition fin_expm (eigh : mat T -> @eig T) : fn9 := lift1 (expm_spec eigh).
End MF.
