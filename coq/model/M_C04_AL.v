(* C04: executable model of optimism/AlSolver.py: augmented_lagrange_solve (outer loop, second-order branch with its
   ten-step line search and multiplier restore) and solve_sub_step (first-order multiplier update, poor-progress
   penalty growth), plus NewtonSolver.compute_min_p.  No proofs here.

   Black boxes are ORACLES (fields of a record; the theorems quantify over arbitrary ones):
     sub_solve  it x lam kappa        the sub-problem solver   -> (x', success)
     constraint it phase x            alObjective.constraint   -> c
     gradAL     it phase x lam kappa  alObjective.gradient (x-part of total_residual) -> g
     lin_update it x lam kappa        AlSolver.linear_update   -> (dx, dl, exitcode <> 0)
   Every oracle sees the call site (outer iteration, line-search step or sub-step), so "arbitrary oracle" includes
   history-dependent ones.  NOT oracles: the Fischer-Burmeister residual (the kernel regenerated from
   ConstrainedObjective.py), the multiplier update, the penalty growth, all tests and the norm.
   Generic in Num T: T := R for the theorems, T := float for execution against the implementation. *)
From Coq Require Import ZArith QArith Bool List.
From OV.base Require Import Num.
From OV.gen Require Import Gen_ConstrainedObjective Gen_AlSolver Gen_BoundConstrainedObjective.
Import ListNotations.

Inductive phase := LS (k : nat) | Sub.

Section AL.
  Context {T : Type} {NT : Num T}.
  Definition vec : Type := list T.

  Fixpoint map2 {A B C} (f : A -> B -> C) (la : list A) (lb : list B) : list C :=
    match la, lb with a :: la', b :: lb' => f a b :: map2 f la' lb' | _, _ => [] end.
  Fixpoint zip3 {A B C D} (f : A -> B -> C -> D) (la : list A) (lb : list B) (lc : list C) : list D :=
    match la, lb, lc with a :: la', b :: lb', c :: lc' => f a b c :: zip3 f la' lb' lc' | _, _, _ => [] end.

  Definition vadd (a b : vec) : vec := map2 nadd a b.
  Definition vscale (s : T) (a : vec) : vec := map (fun x => nmul x s) a.           (* dx *= s *)
  Definition norm2 (v : vec) : T := nsqrt (nsum (map (fun a => nmul a a) v)).       (* np.linalg.norm *)

  (* alObjective.lam = np.maximum(alObjective.lam - kappa*c, 0.0): the statement itself, regenerated from AlSolver.solve_sub_step
     (gen/Gen_AlSolver.v: sub_lam_update), applied per constraint *)
  Definition lam_update (lam kappa c : vec) : vec := zip3 sub_lam_update lam kappa c.
  (* vmap(fischer_burmeister)(c, l, constraintKappa) *)
  Definition ncp_of (c lam kappa0 : vec) : vec := zip3 fischer_burmeister c lam kappa0.
  (* alObjective.kappa = kappa.at[poor].set(s * kappa[poor]): the statement regenerated from solve_sub_step (sub_kappa_update),
     applied per constraint; entries without a flag are kept *)
  Fixpoint scale_where (s : T) (poor : list bool) (kappa : vec) : vec :=
    match kappa with
    | [] => []
    | k :: ks => match poor with
                 | [] => k :: ks
                 | p :: ps => sub_kappa_update k p s :: scale_where s ps ks
                 end
    end.

  Record settings := {
    penalty_scaling : T; target_decrease : T; use_second_order : bool; newton_only : bool;
    n_low_order : nat; max_al_iters : nat; tol : T; sub_tol : T }.

  Record oracles := {
    sub_solve : nat -> vec -> vec -> vec -> vec * bool;
    constraint : nat -> phase -> vec -> vec;
    gradAL : nat -> phase -> vec -> vec -> vec -> vec;
    lin_update : nat -> vec -> vec -> vec -> vec * vec * bool }.

  Inductive event :=
  | Callback (it : nat) (x lam kappa : vec)
  | SecondOrder (it : nat) (failed : bool)
  | LSTry (it k : nat) (trial : T) (accepted : bool)
  | PrecondUpdate (it : nat)
  | SubSolve (it : nat) (tolUsed : T) (ok : bool)
  | AfterSub (it : nat) (x lam kappa ncpE : vec) (poor : list bool) (grew : bool) (err : T).

  Inductive outcome := Returned (x lam kappa : vec) | NotConverged (x lam kappa : vec).

  Variable cfg : settings.
  Variable orc : oracles.
  Variable kappa0 : vec.          (* ConstrainedObjective.constraintKappa, baked into the FB residual *)

  Definition c_huge : T := nconst (10000000000000000000000000000000000000000000000000000000000000000 # 1) (6842277657836021%Z, 160%Z).
  Definition c_fifth : T := nconst (1 # 5) (3602879701896397%Z, (-54)%Z).
  Definition c_hundred : T := nZ 100.

  (* total_residual(x) = hstack(grad_x AL, FB(c(x), lam, kappa0)) *)
  Definition total_residual (it : nat) (ph : phase) (x lam kappa : vec) : vec :=
    gradAL orc it ph x lam kappa ++ ncp_of (constraint orc it ph x) lam kappa0.

  (* tolerance ramp: 100^((3-it)/3) * subSettings.tol for it < 3 *)
  Definition sub_tol_at (it : nat) : T :=
    if Nat.ltb it 3 then nmul (npowr c_hundred (ndiv (nZ (Z.of_nat (3 - it))) (nZ 3))) (sub_tol cfg) else sub_tol cfg.

  (* for linesearch in range(10): ...   returns (x, lam, errorNorm, updatePrecond, events) *)
  Fixpoint linesearch (fuel k it : nat) (x lamSave dx dl kappa : vec) (errN : T) (upd : bool)
    : vec * vec * T * bool * list event :=
    match fuel with
    | O => (x, lamSave, errN, upd, [])
    | S f =>
        let upd' := if Nat.eqb k 9 then true else upd in
        let y := vadd x dx in
        let lamT := vadd lamSave dl in
        let trial := norm2 (total_residual it (LS k) y lamT kappa) in
        if nltb trial errN then (y, lamT, trial, upd', [LSTry it k trial true])
        else let '(r, ev) := linesearch f (S k) it x lamSave (vscale c_fifth dx) (vscale c_fifth dl) kappa errN upd' in
             (r, LSTry it k trial false :: ev)
    end.

  Record st := { sx : vec; slam : vec; skap : vec; sncp : vec; serr : T }.

  (* solve_sub_step + the error evaluation that follows it *)
  Definition sub_step (it : nat) (x lam kappa ncpOld : vec) : st * bool * list event :=
    let '(x', ok) := sub_solve orc it x lam kappa in
    let c := constraint orc it Sub x' in
    let lam' := lam_update lam kappa c in
    let ncpE := map nabs (ncp_of c lam' kappa0) in
    (* poorProgress = ncpError > np.maximum(tdf * ncpErrorOld, 10 * tol / np.sqrt(len(ncpError))): regenerated (sub_poor_progress) *)
    let poor := map2 (fun e old => sub_poor_progress e old (target_decrease cfg) (tol cfg) (nZ (Z.of_nat (length ncpE)))) ncpE ncpOld in
    let grew := andb (existsb (fun b => b) poor) ok in
    let kappa' := if grew then scale_where (penalty_scaling cfg) poor kappa else kappa in
    let err := norm2 (total_residual it Sub x' lam' kappa') in
    ({| sx := x'; slam := lam'; skap := kappa'; sncp := ncpE; serr := err |}, ok,
     [SubSolve it (sub_tol_at it) ok; AfterSub it x' lam' kappa' ncpE poor grew err]).

  (* one pass of the `for it in range(maxAlIters)` body; inl = continue with new state, inr = return *)
  Definition iteration (it : nat) (s : st) : (st + (vec * vec * vec)) * list event :=
    let ev0 := [Callback it (sx s) (slam s) (skap s)] in
    let second := orb (andb (use_second_order cfg) (Nat.leb (n_low_order cfg) it)) (newton_only cfg) in
    let '(x1, lam1, err1, upd, ev1) :=
      if second then
        let '(dx, dl, failed) := lin_update orc it (sx s) (slam s) (skap s) in
        let '(r, ev) := linesearch 10 0 it (sx s) (slam s) dx dl (skap s) (serr s) failed in
        (r, SecondOrder it failed :: ev)
      else (sx s, slam s, serr s, false, []) in
    let ev2 := if upd then [PrecondUpdate it] else [] in
    if newton_only cfg then
      (inl {| sx := x1; slam := lam1; skap := skap s; sncp := sncp s; serr := err1 |}, ev0 ++ ev1 ++ ev2)
    else
      let '(s', ok, ev3) := sub_step it x1 lam1 (skap s) (sncp s) in
      if nltb (serr s') (tol cfg)
      then (inr (sx s', slam s', skap s'), ev0 ++ ev1 ++ ev2 ++ ev3 ++ [Callback (S it) (sx s') (slam s') (skap s')])
      else (inl s', ev0 ++ ev1 ++ ev2 ++ ev3).

  Fixpoint loop (fuel it : nat) (s : st) : outcome * list event :=
    match fuel with
    | O => (NotConverged (sx s) (slam s) (skap s), [])          (* raise NameError('Loadstep failed to converge ...') *)
    | S f =>
        match iteration it s with
        | (inr (x, lam, kappa), ev) => (Returned x lam kappa, ev)
        | (inl s', ev) => let '(o, ev') := loop f (S it) s' in (o, ev ++ ev')
        end
    end.

  Definition init_state (x lam kappa : vec) : st :=
    {| sx := x; slam := lam; skap := kappa; sncp := map (fun _ => nmul c_huge nunit) lam; serr := c_huge |}.

  (* augmented_lagrange_solve after its prologue (warm start / objective.p / preconditioner: see C19) *)
  Definition al_solve (x lam kappa : vec) : outcome * list event :=
    loop (max_al_iters cfg) 0 (init_state x lam kappa).
End AL.

Arguments event T : clear implicits.
Arguments outcome T : clear implicits.

(* ---- BoundConstrainedSolver.bound_constrained_solve around al_solve, and the state BoundConstrainedObjective.__init__ sets up ----
   reset_kappa(): kappa := constraintKappa (= kappa0);  xBar0 = scaling * x0 (+ warm-start increment: an oracle value dxBar);
   augmented_lagrange_solve(obj, xBar0, p, ..., useWarmStart=False, updatePrecond=False);  return invScaling * xBar.
   get_multipliers() = lam * scaling[constrainedIndices].  Initial multipliers: lam0 = max(g_i * invScaling_i, 0) (generated
   bc_initial_multiplier), initial penalties 0.25. *)
Section Bound.
  Context {T : Type} {NT : Num T}.
  Variable cfg : @settings T.
  Variable orc : @oracles T.
  Definition c_quarter : T := nconst (1 # 4) (4503599627370496%Z, (-54)%Z).
  Definition bc_initial_lam (gscaled : list T) : list T := map bc_initial_multiplier gscaled.
  Definition bc_initial_kappa (gscaled : list T) : list T := map (fun _ => c_quarter) gscaled.
  Definition vmul (a b : list T) : list T := map2 nmul a b.
  Inductive bc_outcome := BCReturned (x mult lam kappa : list T) | BCNotConverged.
  (* sc_c / isc: scaling restricted to the constrained dofs / inverse scaling on all dofs *)
  Definition bc_solve (scaling isc sc_c kappa0 x0 dxBar lam : list T) : bc_outcome * list (event T) :=
    let xBar0 := vadd (vmul scaling x0) dxBar in
    match al_solve cfg orc kappa0 xBar0 lam kappa0 with          (* reset_kappa: the solve starts from kappa = constraintKappa *)
    | (Returned xBar lam' kappa', ev) => (BCReturned (vmul isc xBar) (vmul lam' sc_c) lam' kappa', ev)
    | (NotConverged _ _ _, ev) => (BCNotConverged, ev)
    end.
End Bound.

(* ---- NewtonSolver.compute_min_p(ps, bounds) ---- *)
Section MinP.
  Context {T : Type} {NT : Num T}.
  Definition compute_min_p (p0 p1 p2 b0 b1 : T) : T :=
    let b := p2 in
    let a := nsub (nsub p1 p0) p2 in
    if nleb a nzero then (if nltb p0 p1 then b0 else b1)
    else
      let quadMin := ndiv (nopp b) (nmul ntwo a) in
      (* python min(max(quadMin, b0), b1):  max(a,b) = b if b > a else a ; min(a,b) = b if b < a else a *)
      let m := if nltb quadMin b0 then b0 else quadMin in
      if nltb b1 m then b1 else m.
End MinP.

(* ---- NewtonSolver.globalized_newton_step(residual, linear_op, x, etak, t, maxLinesearchIters) ----
   Oracles (arbitrary, each sees its call site): gn_res site y = residual(y) (site 0: at x; site k+1: at x+s after k cutbacks),
   gn_newton = newton_step(...) -> (s, exitcode != 0)  [GMRES],  gn_slope count s = grad(energy)(0.0) for the current s  [jax].
   NOT oracles: the residual energy 0.5*norm(r)**2, the sufficient-decrease test, the sign test on the slope, compute_min_p on
   [0.01, 0.5], the cutback s *= theta and the forcing-term update etak = 1 - theta*(1 - etak).  None = the function returned 0.0. *)
Section GNewton.
  Context {T : Type} {NT : Num T}.
  Record gn_oracles := {
    gn_res : nat -> list T -> list T;
    gn_newton : list T * bool;
    gn_slope : nat -> list T -> T }.
  Variable orc : gn_oracles.
  Definition renergy (r : list T) : T := nmul nhalf (nmul (norm2 r) (norm2 r)).
  Definition c_001 : T := nconst (1 # 100) (5764607523034235%Z, (-59)%Z).
  Definition c_05 : T := nhalf.
  Inductive gn_event :=
  | GNTry (count : nat) (rEnergyN minImprove : T) (accepted : bool)
  | GNCut (count : nat) (slope theta etak : T)
  | GNUphill (count : nat) (slope : T).
  Fixpoint gn_loop (fuel count : nat) (x s : list T) (etak t rE0 rEN : T) : option (list T) * list gn_event :=
    match fuel with
    | O => (None, [])
    | S f =>
        let minImprove := nsub nunit (nmul t (nsub nunit etak)) in
        if nltb rEN (nmul minImprove rE0) then (Some s, [GNTry count rEN minImprove true])
        else
          let d := gn_slope orc count s in
          if nleb nzero d then (None, [GNTry count rEN minImprove false; GNUphill count d])
          else
            let theta := compute_min_p rE0 rEN d c_001 c_05 in
            let s' := vscale theta s in
            let etak' := nsub nunit (nmul theta (nsub nunit etak)) in
            let rEN' := renergy (gn_res orc (S (S count)) (vadd x s')) in
            let '(r, ev) := gn_loop f (S count) x s' etak' t rE0 rEN' in
            (r, GNTry count rEN minImprove false :: GNCut count d theta etak' :: ev)
    end.
  Definition globalized_newton_step (x : list T) (etak t : T) (maxLs : nat) : option (list T) * list gn_event :=
    let rE0 := renergy (gn_res orc 0 x) in
    let '(s, failed) := gn_newton orc in
    if failed then (None, [])
    else gn_loop maxLs 0 x s etak t rE0 (renergy (gn_res orc 1 (vadd x s))).
End GNewton.
Arguments gn_event T : clear implicits.

(* ---- exchange with the harness (T := float) ---- *)
From Coq Require Import Floats.PrimFloat.
Definition zn (n : nat) : Z := Z.of_nat n.
Definition bz (b : bool) : Z := if b then 1%Z else 0%Z.
Definition enc_event (e : event float) : list Z :=
  match e with
  | Callback it x lam kappa => [1%Z; zn it] ++ fencs x ++ fencs lam ++ fencs kappa
  | SecondOrder it failed => [2%Z; zn it; bz failed]
  | LSTry it k trial acc => [3%Z; zn it; zn k] ++ fenc trial ++ [bz acc]
  | PrecondUpdate it => [4%Z; zn it]
  | SubSolve it t ok => [5%Z; zn it] ++ fenc t ++ [bz ok]
  | AfterSub it x lam kappa ncpE poor grew err =>
      [6%Z; zn it] ++ fencs x ++ fencs lam ++ fencs kappa ++ fencs ncpE ++ map bz poor ++ [bz grew] ++ fenc err
  end.
Definition enc_outcome (o : outcome float) : list Z :=
  match o with
  | Returned x lam kappa => [7%Z] ++ fencs x ++ fencs lam ++ fencs kappa
  | NotConverged x lam kappa => [8%Z] ++ fencs x ++ fencs lam ++ fencs kappa
  end.
Definition enc_run (r : outcome float * list (event float)) : list Z :=
  flat_map enc_event (snd r) ++ enc_outcome (fst r).

(* scripted oracles: association lists keyed by call site *)
Definition site_eqb (a b : nat * phase) : bool :=
  andb (Nat.eqb (fst a) (fst b))
       (match snd a, snd b with Sub, Sub => true | LS i, LS j => Nat.eqb i j | _, _ => false end).
Fixpoint lookup {A} (d : A) (k : nat * phase) (l : list ((nat * phase) * A)) : A :=
  match l with [] => d | (k', v) :: r => if site_eqb k k' then v else lookup d k r end.
Definition scripted (subs : list ((nat * phase) * (list float * bool)))
                    (cons : list ((nat * phase) * list float))
                    (grads : list ((nat * phase) * list float))
                    (lins : list ((nat * phase) * (list float * list float * bool))) : @oracles float :=
  {| sub_solve := fun it _ _ _ => lookup ([], false) (it, Sub) subs;
     constraint := fun it ph _ => lookup [] (it, ph) cons;
     gradAL := fun it ph _ _ _ => lookup [] (it, ph) grads;
     lin_update := fun it _ _ _ => lookup ([], [], true) (it, Sub) lins |}.

(* globalized_newton_step: scripted oracles (residual values by call site) and encoding of the result *)
Definition gn_scripted (res : list (list float)) (newton : list float * bool) (slopes : list float) : @gn_oracles float :=
  {| gn_res := fun site _ => nth site res []; gn_newton := newton; gn_slope := fun count _ => nth count slopes PrimFloat.zero |}.
Definition enc_gn_event (e : gn_event float) : list Z :=
  match e with
  | GNTry c rn mi acc => [1%Z; zn c] ++ fenc rn ++ fenc mi ++ [bz acc]
  | GNCut c d th ek => [2%Z; zn c] ++ fenc d ++ fenc th ++ fenc ek
  | GNUphill c d => [3%Z; zn c] ++ fenc d
  end.
Definition enc_gn (r : option (list float) * list (gn_event float)) : list Z :=
  flat_map enc_gn_event (snd r) ++ match fst r with Some s => [7%Z] ++ fencs s | None => [8%Z] end.
