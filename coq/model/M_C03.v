(* C03 -- executable definitions only (no proofs).
   (1) exact "scaled number" arithmetic  m * b^k  (b = 2 for binary64 tables, b = 10 for decimal source text),
       evaluated by vm_compute on Z only;
   (2) certificate checkers for quadrature tables, shape-function tables, face-node layout, Lobatto nodes;
   (3) a Num-generic model of the geometric kernels of optimism/FunctionSpace.py and Mesh.py
       (element volumes, mapped shape gradients, edge vectors) -- executed at binary64 against the implementation,
       reasoned about at R in proofs/L_C03lift.v. *)
From Coq Require Import ZArith QArith List Bool.
From OV.base Require Import Num.
Import ListNotations.
Local Open Scope Z_scope.

(* ------------------------------------------------------------------ scaled numbers *)
Definition sn := (Z * Z)%type.            (* (m, k) stands for m * b^k *)

Fixpoint fpow_pos (z : Z) (p : positive) : Z :=
  match p with
  | xH => z
  | xO q => let t := fpow_pos z q in t * t
  | xI q => let t := fpow_pos z q in z * (t * t)
  end.
Definition fpow (z k : Z) : Z := match k with Z0 => 1 | Zpos p => fpow_pos z p | Zneg _ => 0 end.

Section SN.
  Variable b : Z.
  Definition s_align (x : sn) (k : Z) : Z := fst x * fpow b (snd x - k).   (* meaningful for k <= snd x *)
  Definition s_mul (x y : sn) : sn := (fst x * fst y, snd x + snd y).
  Definition s_add (x y : sn) : sn :=
    let k := Z.min (snd x) (snd y) in (s_align x k + s_align y k, k).
  Definition s_opp (x : sn) : sn := (- fst x, snd x).
  Definition s_sub (x y : sn) : sn := s_add x (s_opp y).
  Definition s_abs (x : sn) : sn := (Z.abs (fst x), snd x).
  Definition s_scale (z : Z) (x : sn) : sn := (z * fst x, snd x).
  Definition s_leb (x y : sn) : bool :=
    let k := Z.min (snd x) (snd y) in s_align x k <=? s_align y k.
  Definition s_ltb (x y : sn) : bool :=
    let k := Z.min (snd x) (snd y) in s_align x k <? s_align y k.
  Fixpoint s_pow (x : sn) (n : nat) : sn :=
    match n with O => (1, 0) | S m => s_mul x (s_pow x m) end.
  (* power table [x^0; x^1; ...; x^n] by repeated multiplication *)
  Fixpoint s_pows_from (x acc : sn) (n : nat) : list sn :=
    match n with O => [acc] | S k => acc :: s_pows_from x (s_mul x acc) k end.
  Definition s_pows (x : sn) (n : nat) : list sn := s_pows_from x (1, 0) n.
  Fixpoint s_sum (l : list sn) : sn :=
    match l with [] => (0, 0) | x :: r => s_add x (s_sum r) end.
  Fixpoint s_dot (a c : list sn) : sn :=
    match a, c with x :: a', y :: c' => s_add (s_mul x y) (s_dot a' c') | _, _ => (0, 0) end.

  (* |x - num/den| <= tn/td   checked as   td * |den * x - num| <= tn * den   (den, td > 0) *)
  Definition s_close_frac (x : sn) (num den tn td : Z) : bool :=
    s_leb (s_scale td (s_abs (s_sub (s_scale den x) (num, 0)))) (tn * den, 0).
  (* |x - y| <= tn/td *)
  Definition s_close (x y : sn) (tn td : Z) : bool :=
    s_leb (s_scale td (s_abs (s_sub x y))) (tn, 0).

  (* monomials and their partial derivatives at a point *)
  Definition s_mon (p : sn * sn) (ij : nat * nat) : sn := s_mul (s_pow (fst p) (fst ij)) (s_pow (snd p) (snd ij)).
  Definition s_dmon (x : sn) (i : nat) : sn := s_scale (Z.of_nat i) (s_pow x (pred i)).
  Definition s_mon_dx (p : sn * sn) (ij : nat * nat) : sn := s_mul (s_dmon (fst p) (fst ij)) (s_pow (snd p) (snd ij)).
  Definition s_mon_dy (p : sn * sn) (ij : nat * nat) : sn := s_mul (s_pow (fst p) (fst ij)) (s_dmon (snd p) (snd ij)).
End SN.

(* all (i, j) with i + j <= d *)
Definition monos (d : nat) : list (nat * nat) :=
  flat_map (fun i => map (fun j => (i, j)) (seq 0 (S d - i))) (seq 0 (S d)).

Fixpoint zfact (n : nat) : Z := match n with O => 1 | S m => Z.of_nat n * zfact m end.

(* ------------------------------------------------------------------ certificate checkers *)
Section Checkers.
  Variable b : Z.
  Notation "x *s y" := (s_mul x y) (at level 40).

  (* triangle rule: every monomial of degree <= d integrated to  a! b! / (a+b+2)!  within tn/td;
     weights > 0; points in the closed reference triangle *)
  Definition tri_mono_ok (tab : list (list sn * list sn)) (ws : list sn) (tn td : Z) (ij : nat * nat) : bool :=
    s_close_frac b (s_dot b ws (map (fun t => s_mul (nth (fst ij) (fst t) (0, 0)) (nth (snd ij) (snd t) (0, 0))) tab))
                 (zfact (fst ij) * zfact (snd ij)) (zfact (fst ij + snd ij + 2)) tn td.
  Definition in_ref_tri (p : sn * sn) : bool :=
    s_leb b (0, 0) (fst p) && s_leb b (0, 0) (snd p) && s_leb b (s_add b (fst p) (snd p)) (1, 0).
  Definition tri_rule_ok (d : nat) (pts : list (sn * sn)) (ws : list sn) (tn td : Z) : bool :=
    Nat.eqb (length pts) (length ws)
    && (let tab := map (fun p => (s_pows (fst p) d, s_pows (snd p) d)) pts in forallb (tri_mono_ok tab ws tn td) (monos d))
    && forallb (fun w => s_ltb b (0, 0) w) ws
    && forallb in_ref_tri pts.

  (* 1-D rule on [0,1]: x^k integrated to 1/(k+1) within tn/td for k <= d; weights > 0; points in [0,1] *)
  Definition gauss1d_mono_ok (xs ws : list sn) (tn td : Z) (k : nat) : bool :=
    s_close_frac b (s_dot b ws (map (fun x => s_pow x k) xs)) 1 (Z.of_nat (S k)) tn td.
  Definition gauss1d_ok (d : nat) (xs ws : list sn) (tn td : Z) : bool :=
    Nat.eqb (length xs) (length ws)
    && forallb (gauss1d_mono_ok xs ws tn td) (seq 0 (S d))
    && forallb (fun w => s_ltb b (0, 0) w) ws
    && forallb (fun x => s_leb b (0, 0) x && s_leb b x (1, 0)) xs.

  (* 2-D shape tables: one record per evaluation point: (point, N_a, dN_a/dxi, dN_a/deta) *)
  Definition qrec := ((sn * sn) * (list sn * (list sn * list sn)))%type.
  Definition shape_q_ok (nn : nat) (tn td : Z) (ij : nat * nat) (mrow : list sn) (r : qrec) : bool :=
    let '(q, (N, (Gx, Gy))) := r in
    Nat.eqb (length N) nn && Nat.eqb (length Gx) nn && Nat.eqb (length Gy) nn
    && s_close b (s_dot b N mrow) (s_mon q ij) tn td
    && s_close b (s_dot b Gx mrow) (s_mon_dx q ij) tn td
    && s_close b (s_dot b Gy mrow) (s_mon_dy q ij) tn td.
  Definition shapes_ok (p : nat) (nodes : list (sn * sn)) (qrecs : list qrec) (tn td : Z) : bool :=
    forallb (fun ij => let mrow := map (fun nd => s_mon nd ij) nodes in
                       forallb (shape_q_ok (length nodes) tn td ij mrow) qrecs) (monos p).

  (* 1-D shape tables (edge interpolation): (point, N_a, dN_a/ds) *)
  Definition qrec1 := (sn * (list sn * list sn))%type.
  Definition shape1_q_ok (nn : nat) (tn td : Z) (k : nat) (mrow : list sn) (r : qrec1) : bool :=
    let '(s, (N, dN)) := r in
    Nat.eqb (length N) nn && Nat.eqb (length dN) nn
    && s_close b (s_dot b N mrow) (s_pow s k) tn td
    && s_close b (s_dot b dN mrow) (s_dmon s k) tn td.
  Definition shapes1d_ok (p : nat) (nodes : list sn) (qrecs : list qrec1) (tn td : Z) : bool :=
    forallb (fun k => let mrow := map (fun x => s_pow x k) nodes in
                      forallb (shape1_q_ok (length nodes) tn td k mrow) qrecs) (seq 0 (S p)).

  (* Lebesgue sums of the 1-D shape tables: sum_a |N_a(s_q)| <= ln/ld at every record (amplification of the placement
     error of the edge nodes in the interpolated edge points) *)
  Definition lebesgue1_ok (qrecs : list qrec1) (ln ld : Z) : bool :=
    forallb (fun r : qrec1 => s_leb b (s_scale ld (s_sum b (map s_abs (fst (snd r))))) (ln, 0)) qrecs.

  (* face-node layout of the 2-D parent element against the 1-D parent element:
     vertex nodes sit at (1,0), (0,1), (0,0); face f runs from vertex f to vertex f+1 and its a-th node is
     (1 - s_a) V_f + s_a V_{f+1} for the 1-D nodes s_a (within tn/td per coordinate) *)
  Definition nth_node (nodes : list (sn * sn)) (i : nat) : option (sn * sn) := nth_error nodes i.
  Definition pt_close (p q : sn * sn) (tn td : Z) : bool :=
    s_close b (fst p) (fst q) tn td && s_close b (snd p) (snd q) tn td.
  Definition ref_vertex (f : nat) : sn * sn :=
    match f with O => ((1, 0), (0, 0)) | S O => ((0, 0), (1, 0)) | _ => ((0, 0), (0, 0)) end.
  Definition lerp (s : sn) (p q : sn * sn) : sn * sn :=
    (s_add b (s_mul (s_sub b (1, 0) s) (fst p)) (s_mul s (fst q)),
     s_add b (s_mul (s_sub b (1, 0) s) (snd p)) (s_mul s (snd q))).
  Definition face_ok (nodes : list (sn * sn)) (nodes1 : list sn) (tn td : Z) (f : nat) (fn : list nat) : bool :=
    Nat.eqb (length fn) (length nodes1)
    && forallb (fun ia => match nth_node nodes (fst ia) with
                          | Some p => pt_close p (lerp (snd ia) (ref_vertex f) (ref_vertex (S f mod 3))) tn td
                          | None => false end) (combine fn nodes1).
  Definition vertices_ok (nodes : list (sn * sn)) (vn : list nat) : bool :=
    match vn with
    | [a; c; d] =>
        match nth_node nodes a, nth_node nodes c, nth_node nodes d with
        | Some pa, Some pc, Some pd => pt_close pa (ref_vertex 0) 0 1 && pt_close pc (ref_vertex 1) 0 1 && pt_close pd (ref_vertex 2) 0 1
        | _, _, _ => false end
    | _ => false end.
  Definition faces_ok (nodes : list (sn * sn)) (vn : list nat) (faces : list (list nat)) (nodes1 : list sn) (tn td : Z) : bool :=
    vertices_ok nodes vn
    && Nat.eqb (length faces) 3
    && forallb (fun ffn => face_ok nodes nodes1 tn td (fst ffn) (snd ffn)) (combine (seq 0 3) faces)
    && match vn, faces with
       | [a; c; d], [f0; f1; f2] =>
           Nat.eqb (hd 0%nat f0) a && Nat.eqb (last f0 0%nat) c && Nat.eqb (hd 0%nat f1) c && Nat.eqb (last f1 0%nat) d
           && Nat.eqb (hd 0%nat f2) d && Nat.eqb (last f2 0%nat) a
       | _, _ => false end.

  (* 1-D nodes: first 0, last 1, strictly increasing, symmetric under s -> 1 - s within tn/td (an edge shared by two
     elements is traversed in opposite directions, so the node set must be its own mirror image) *)
  Fixpoint increasing (l : list sn) : bool :=
    match l with x :: ((y :: _) as r) => s_ltb b x y && increasing r | _ => true end.
  Definition nodes1d_ok (p : nat) (xs : list sn) (tn td : Z) : bool :=
    Nat.eqb (length xs) (S p)
    && s_close b (hd (1, 0) xs) (0, 0) 0 1 && s_close b (last xs (0, 0)) (1, 0) 0 1
    && increasing xs
    && forallb (fun xy => s_close b (s_add b (fst xy) (snd xy)) (1, 0) tn td) (combine xs (rev xs)).
End Checkers.

(* ------------------------------------------------------------------ triangle-rule branch selection *)
(* generated table format (gen/Tab_TriQuad.v): list of ((is_le, bound), (points, weights)) in source order;
   `if degree <= n` is (true, n), `elif degree == n` is (false, n); the first matching branch is taken *)
Definition tri_branch := ((bool * Z) * (list (Q * Q) * list Q))%type.
Definition cond_holds (c : bool * Z) (d : Z) : bool := if fst c then d <=? snd c else d =? snd c.
Fixpoint select_branch (bs : list tri_branch) (d : Z) : option (list (Q * Q) * list Q) :=
  match bs with
  | [] => None
  | (c, t) :: r => if cond_holds c d then Some t else select_branch r d
  end.
(* a rational with denominator 10^S as a base-10 scaled number *)
Definition q2dec (S : Z) (q : Q) : option sn :=
  if (Zpos (Qden q) =? fpow 10 S) then Some (Qnum q, - S) else None.
Fixpoint omap {A B} (f : A -> option B) (l : list A) : option (list B) :=
  match l with
  | [] => Some []
  | x :: r => match f x, omap f r with Some y, Some ys => Some (y :: ys) | _, _ => None end
  end.
Definition q2dec2 (S : Z) (p : Q * Q) : option (sn * sn) :=
  match q2dec S (fst p), q2dec S (snd p) with Some x, Some y => Some (x, y) | _, _ => None end.
(* the rule selected for degree d passes the exactness check for degree d *)
Definition tri_table_ok (S : Z) (bs : list tri_branch) (tn td : Z) (d : nat) : bool :=
  match select_branch bs (Z.of_nat d) with
  | Some (pts, ws) =>
      match omap (q2dec2 S) pts, omap (q2dec S) ws with
      | Some dp, Some dw => tri_rule_ok 10 d dp dw tn td
      | _, _ => false end
  | None => false end.

(* all degrees 1..dmax at once: the exactness check is run once per group of degrees served by the same branch, at
   the largest degree of the group (exactness to degree D implies exactness to every d <= D for the same table) *)
Fixpoint select_index (bs : list tri_branch) (d : Z) : option nat :=
  match bs with
  | [] => None
  | (c, _) :: r => if cond_holds c d then Some O else option_map S (select_index r d)
  end.
Definition same_index (bs : list tri_branch) (d D : nat) : bool :=
  match select_index bs (Z.of_nat d), select_index bs (Z.of_nat D) with
  | Some a, Some c => Nat.eqb a c
  | _, _ => false end.
Definition is_rep (bs : list tri_branch) (dmax d : nat) : bool := Nat.eqb d dmax || negb (same_index bs d (S d)).
Definition tri_tables_ok (S : Z) (bs : list tri_branch) (tn td : Z) (dmax : nat) : bool :=
  let reps := filter (is_rep bs dmax) (seq 1 dmax) in
  forallb (tri_table_ok S bs tn td) reps
  && forallb (fun d => existsb (fun D => Nat.leb d D && same_index bs d D) reps) (seq 1 dmax).

(* ------------------------------------------------------------------ geometric kernels (Num-generic) *)
Section Geo.
  Context {T : Type} {NT : Num T}.
  Local Open Scope num_scope.
  (* FunctionSpace.compute_element_volumes: jac = cross(v1 - v0, v2 - v0); vols = jac * w *)
  Definition el_jac (v0 v1 v2 : T * T) : T :=
    (fst v1 - fst v0) * (snd v2 - snd v0) - (snd v1 - snd v0) * (fst v2 - fst v0).
  Definition el_vols (v0 v1 v2 : T * T) (ws : list T) : list T := map (fun w => el_jac v0 v1 v2 * w) ws.
  (* FunctionSpace.map_element_shape_grads: J = [v0 - v2 | v1 - v2]; physical gradient g solves J^T g = dN *)
  Definition map_grad (v0 v1 v2 : T * T) (dN : T * T) : T * T :=
    let a := fst v0 - fst v2 in let c := fst v1 - fst v2 in     (* J = [[a, c], [b', d]] *)
    let b' := snd v0 - snd v2 in let d := snd v1 - snd v2 in
    let det := a * d - c * b' in
    (* J^T = [[a, b'], [c, d]];  g = (J^T)^-1 dN *)
    ((d * fst dN - b' * snd dN) / det, (a * snd dN - c * fst dN) / det).
  (* compute_element_volumes_axisymmetric: 2 pi r_q vol_q with r_q = sum_a N_a x_a *)
  Definition el_vols_axi (twopi : T) (v0 v1 v2 : T * T) (Ns : list (list T)) (xs : list T) (ws : list T) : list T :=
    map (fun Nw => twopi * ndot (fst Nw) xs * (el_jac v0 v1 v2 * snd Nw)) (combine Ns ws).
  (* Mesh.compute_edge_vectors: tangent = Xv1 - Xv0, normal = (t_y, -t_x), jac = |t|; returns t/jac, n/jac, jac *)
  Definition edge_vectors (x0 x1 : T * T) : (T * T) * (T * T) * T :=
    let tx := fst x1 - fst x0 in let ty := snd x1 - snd x0 in
    let jac := nsqrt (tx * tx + ty * ty) in
    ((tx / jac, ty / jac), (ty / jac, - tx / jac), jac).
  (* FunctionSpace.interpolate_nodal_field_on_edge applied to the coordinate field (edgeShapes.values.T @ edgeCoords, one
     row N of shape values per 1-D quadrature point), and FunctionSpace.integrate_function_on_edge with
     func(u, X, n) = F1(X) n_x + F2(X) n_y:  dot(integrand, jac * wgauss), (n, jac) from compute_edge_vectors *)
  Definition edge_pt (N : list T) (Xn : list (T * T)) : T * T := (ndot N (map fst Xn), ndot N (map snd Xn)).
  Definition edge_flux_sum (F1 F2 : T * T -> T) (A B : T * T) (Xn : list (T * T)) (Ns : list (list T)) (ws : list T) : T :=
    let nj := edge_vectors A B in
    let n := snd (fst nj) in let jac := snd nj in
    ndot (map (fun N => let X := edge_pt N Xn in F1 X * fst n + F2 X * snd n) Ns) (map (fun w => jac * w) ws).
  (* monomial integrands x^a y^c used by the correspondence stream *)
  Definition mono_fn (a c : nat) (X : T * T) : T := npow (fst X) a * npow (snd X) c.
  (* interpolation and gradient of a nodal field at one quadrature point *)
  Definition interp (N u : list T) : T := ndot N u.
  Definition grad_at (v0 v1 v2 : T * T) (Gx Gy u : list T) : T * T :=
    map_grad v0 v1 v2 (ndot Gx u, ndot Gy u).
End Geo.
