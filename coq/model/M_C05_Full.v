(* C05 -- COMPLETE hand model of optimism/TrustRegionSPG.py: find_generalized_cauchy_point (forward / back-tracking and
   trust-region cut-back loops with their caps and RuntimeError exits), solve_spg_subproblem (sub-problem optimality,
   spectral step length, non-monotone history, both line searches, the [0,1] clip, all three exits) and
   bound_constrained_trust_region_minimize calling them (no step-proposal oracle any more).  Generic in Num T.
   Oracles (Section variables): value, grad, hessvec (objective.hessian_vec(x, v)) and brent : nat -> T, the value returned
   by the k-th call of scipy.optimize.brentq of the run (k counts the root finds actually performed).
   The step-length kernels (both line searches, the clip statement) are the regenerated ones (gen/Gen_TrustRegionSPG.v)
   through M_C05_SPG.spg_alpha; project / project_onto_tr are those of M_C05_SPG.v (clamp = regenerated project kernel).
   Operator precedence is literal: `mu0*g@s` is (mu0*g)@s, `0.5*s@H(s)` is (0.5*s)@H(s), `0.5*alpha*sBs` is (0.5*alpha)*sBs.
   Output: the returned (point, flag) -- None when the run ends in the documented RuntimeError or leaves the model's range --
   and a trace with EVERY point the solver forms: the centre x and the radius trSize of each outer iteration (FIter), each x+z
   whose sub-problem optimality is evaluated (the Cauchy point and every SPG iterate), each trial point y, and the callback /
   update_precond / return events of M_C01_TR.event.
   Executable definitions only. *)
From Coq Require Import ZArith QArith List Bool.
From OV.base Require Import Num.
From OV.gen Require Import Gen_TrustRegionSPG.
From OV.model Require Import M_C06_Vec M_C06_CG M_C01_TR M_C05_SPG.
Import ListNotations.

(* the settings fields that M_C01_TR.settings does not have (s_max_cg_iters := max_spg_iters, s_cg_tol := spg_tol,
   s_cg_ratio := spg_inexact_solve_ratio, s_max_cumulative_cg_iters := max_cumulative_spg_iters) *)
Record spg_settings (T : Type) := {
  g_nonmonotone : bool;      (* spg_use_nonmonotone *)
  g_hist : nat;              (* spg_nonmonotone_iter_limit_to_enforce_decrease *)
  g_mu0 : T;                 (* cauchy_point_sufficient_decrease_factor *)
  g_qtol : T;                (* cauchy_point_decrease_tol *)
  g_max_ls : nat;            (* cauchy_point_max_line_search_iters *)
  g_lam_min : T; g_lam_max : T }.   (* min/max_spectral_step_length *)
Arguments g_nonmonotone {T}. Arguments g_hist {T}. Arguments g_mu0 {T}. Arguments g_qtol {T}. Arguments g_max_ls {T}.
Arguments g_lam_min {T}. Arguments g_lam_max {T}.

Inductive fevent (T : Type) :=
| FCauchy (fwd : bool) (n1 n2 : nat) (alpha : T)   (* find_generalized_cauchy_point returned: initial step acceptable (forward
                                                      tracking)?, iterations of the forward / back-tracking loop, iterations of
                                                      the trust-region cut-back loop, the returned alpha *)
| FCauchyError (phase : nat)                       (* RuntimeError: 1 = back-tracking loop, 2 = trust-region cut-back loop *)
| FSpg (xNew : list T) (roots : nat) (chi2 : T)    (* a point x+z passed to subproblem_optimality; number of brentq calls so far; the result *)
| FSpgExit (kind : nat) (iters : nat)              (* solve_spg_subproblem returned: 0 'cauchy pt', 1 'boundary', 2 'interior_' *)
| FTrial (y : list T)                              (* y = x + s *)
| FOut (e : event T)                               (* callback / update_precond / return events, as in M_C01_TR *)
| FModelLimit                                      (* max_spg_iters = 0 (python: NameError) or a loop cap of 0: outside the model *)
| FIter (x : list T) (trSize : T).                 (* start of an outer iteration: the (x, trSize) handed to find_generalized_cauchy_point
                                                      and solve_spg_subproblem -- the centre and radius of this iteration's trust region *)
Arguments FCauchy {T}. Arguments FCauchyError {T}. Arguments FSpg {T}. Arguments FSpgExit {T}. Arguments FTrial {T}.
Arguments FOut {T}. Arguments FModelLimit {T}. Arguments FIter {T}.

Section Full.
  Context {T : Type} {NT : Num T}.
  Local Notation vec := (list T).
  Variable value : vec -> T.
  Variable grad : vec -> vec.
  Variable hessvec : vec -> vec -> vec.
  Variable brent : nat -> T.
  Variable bs : list (@bound T).
  Variable S : settings T.
  Variable G : spg_settings T.

  Definition cutback : T := nconst (1 # 5) (3602879701896397, -54)%Z.     (* 0.2 *)
  (* python's builtin min(a, b) / max(a, b): the first argument unless the second is strictly smaller / larger *)
  Definition pymin (a b : T) : T := if nltb b a then b else a.
  Definition pymax (a b : T) : T := if nltb a b then b else a.

  (* ---------------------------------------------------------------- find_generalized_cauchy_point *)
  Section Cauchy.
    Variables (x g : vec) (Hv : vec -> vec) (trSize : T).
    Definition qm (s : vec) : T := nadd (vdot (vscale nhalf s) (Hv s)) (vdot g s).          (* 0.5*s@hess_vec_func(s) + g@s *)
    Definition pstep (alpha : T) : vec := vsub (project (vsub x (vscale alpha g)) bs) x.     (* project(x - alpha*g, bounds) - x *)
    Definition suff (s : vec) : T := vdot (vscale (g_mu0 G) g) s.                           (* mu0*g@s *)
    Definition deltaSq : T := nmul trSize trSize.

    Inductive cp_result :=
    | CPOk (fwd : bool) (n1 n2 : nat) (alpha : T) (s : vec)
    | CPError (phase : nat)
    | CPLimit.

    (* the forward-tracking `while search` loop; q is m(s) of the INITIAL step (never updated by the code) *)
    Fixpoint fwd_loop (fuel i : nat) (q alpha : T) (s : vec) (alphaTry : T) (sTry : vec) (qTry : T) : option (nat * T * vec) :=
      match fuel with
      | O => None
      | Datatypes.S fuel' =>
        let ok := andb (nleb qTry (suff sTry)) (nltb (nmul (g_qtol G) (nabs q)) (nabs (nsub q qTry))) in
        let alpha1 := if ok then alphaTry else alpha in
        let s1 := if ok then sTry else s in
        let alphaTry1 := ndiv alphaTry cutback in
        let sTry1 := pstep alphaTry1 in
        let qTry1 := qm sTry1 in
        let i1 := Datatypes.S i in
        if orb (negb ok) (orb (nleb deltaSq (vdot sTry1 sTry1)) (Nat.eqb i1 (g_max_ls G))) then Some (i1, alpha1, s1)
        else fwd_loop fuel' i1 q alpha1 s1 alphaTry1 sTry1 qTry1
      end.

    (* the two cut-back loops: alpha *= cutback; s = ...; i += 1; search = again(s) and i < maxLineSearchIters *)
    Fixpoint shrink_loop (again : vec -> bool) (fuel i : nat) (alpha : T) : option (nat * T * vec) :=
      match fuel with
      | O => None
      | Datatypes.S fuel' =>
        let alpha1 := nmul alpha cutback in
        let s1 := pstep alpha1 in
        let i1 := Datatypes.S i in
        if andb (again s1) (Nat.ltb i1 (g_max_ls G)) then shrink_loop again fuel' i1 alpha1 else Some (i1, alpha1, s1)
      end.
    Definition not_acceptable (s : vec) : bool := nltb (suff s) (qm s).          (* m(s) > mu0*g@s *)
    Definition outside_tr (s : vec) : bool := nltb deltaSq (vdot s s).           (* ss > deltaSquared *)

    Definition tr_cutback (fwd : bool) (n1 : nat) (alpha : T) (s : vec) : cp_result :=
      if outside_tr s then
        match shrink_loop outside_tr (Datatypes.S (g_max_ls G)) O alpha with
        | Some (i, a2, s2) => if Nat.eqb i (g_max_ls G) then CPError 2 else CPOk fwd n1 i a2 s2
        | None => CPLimit
        end
      else CPOk fwd n1 O alpha s.

    Definition cauchy_point (alpha : T) : cp_result :=
      let s := pstep alpha in
      if nleb (qm s) (suff s) then
        let q := qm s in
        let alphaTry := ndiv alpha cutback in
        let sTry := pstep alphaTry in
        match fwd_loop (Datatypes.S (g_max_ls G)) O q alpha s alphaTry sTry (qm sTry) with
        | Some (i, a1, s1) => tr_cutback true i a1 s1
        | None => CPLimit
        end
      else
        match shrink_loop not_acceptable (Datatypes.S (g_max_ls G)) O alpha with
        | Some (i, a1, s1) => if Nat.eqb i (g_max_ls G) then CPError 1 else tr_cutback false i a1 s1
        | None => CPLimit
        end.
  End Cauchy.

  (* ---------------------------------------------------------------- solve_spg_subproblem *)
  (* project_onto_tr with the root finder's answer taken from the oracle stream; returns the advanced call counter *)
  Definition ptr (p xk : vec) (trSize : T) (k : nat) : vec * nat :=
    (project_onto_tr p xk bs trSize (brent k), if needs_root_find p xk bs trSize then Datatypes.S k else k).
  (* subproblem_optimality(xNew, x, d, bounds, trSize) *)
  Definition sub_opt (xNew x d : vec) (trSize : T) (k : nat) : T * nat :=
    let '(p, k1) := ptr (vsub xNew d) x trSize k in
    let chi := vsub p xNew in (vdot chi chi, k1).

  (* qHistory: the deque starts with M-1 copies of -inf and q; -inf entries never win `max` (q is a number), so the model keeps
     only the appended values, at most max(M,1) of them *)
  Definition hist_cap : nat := Datatypes.S (g_hist G - 1).
  Definition hist_push (h : list T) (q : T) : list T :=
    let h1 := h ++ [q] in if Nat.ltb hist_cap (length h1) then tl h1 else h1.
  Definition hist_max (h : list T) : T := match h with [] => nzero | a :: r => fold_left pymax r a end.

  Record spg_out := { o_z : vec; o_q : T; o_chi : T; o_kind : nat; o_iters : nat; o_k : nat; o_ev : list (fevent T) }.

  Fixpoint spg_loop (rem i : nat) (x : vec) (Hv : vec -> vec) (trSize tol2 : T) (z d : vec) (q : T) (xNew : vec) (lam : T)
      (h : list T) (k : nat) (chi2 : T) : spg_out :=
    match rem with
    | O => {| o_z := z; o_q := q; o_chi := nsqrt chi2; o_kind := 2; o_iters := i; o_k := k; o_ev := [] |}
    | Datatypes.S rem' =>
      let '(p, k1) := ptr (vsub xNew (vscale lam d)) x trSize k in
      let s := vsub p xNew in
      let Bs := Hv s in
      let sBs := vdot s Bs in
      let ds := vdot d s in
      let qMax := hist_max h in
      let alpha := spg_alpha (g_nonmonotone G) ds sBs q qMax in
      let z1 := vaxpy z alpha s in                                                  (* z += alpha*s *)
      let d1 := vaxpy d alpha Bs in                                                 (* d += alpha*Bs *)
      let q1 := nadd q (nmul alpha (nadd ds (nmul (nmul nhalf alpha) sBs))) in      (* q += alpha*(ds + 0.5*alpha*sBs) *)
      let xNew1 := vadd x z1 in
      let '(chi2', k2) := sub_opt xNew1 x d1 trSize k1 in
      let h1 := hist_push h q1 in
      if nltb chi2' tol2 then
        {| o_z := z1; o_q := q1; o_chi := nsqrt chi2'; o_kind := 1; o_iters := Datatypes.S i; o_k := k2; o_ev := [FSpg xNew1 k2 chi2'] |}
      else
        let lam1 := if nltb nzero sBs then pymax (g_lam_min G) (pymin (g_lam_max G) (ndiv (vdot s s) sBs)) else g_lam_max G in
        let r := spg_loop rem' (Datatypes.S i) x Hv trSize tol2 z1 d1 q1 xNew1 lam1 h1 k2 chi2' in
        {| o_z := o_z r; o_q := o_q r; o_chi := o_chi r; o_kind := o_kind r; o_iters := o_iters r; o_k := o_k r;
           o_ev := FSpg xNew1 k2 chi2' :: o_ev r |}
    end.

  (* kind 3: max_spg_iters = 0 and the Cauchy point is not optimal (python raises NameError on `i`) *)
  Definition solve_spg (x cauchyStep r : vec) (Hv : vec -> vec) (trSize : T) (k : nat) : spg_out :=
    let z := cauchyStep in
    let xNew := vadd x z in
    let Bz := Hv z in
    let d := vadd r Bz in
    let q := nadd (vdot r z) (vdot (vscale nhalf z) Bz) in
    let '(chi2, k1) := sub_opt xNew x d trSize k in
    let tol2 := pymax (npow (s_cg_tol S) 2) (nmul chi2 (npow (s_cg_ratio S) 2)) in
    if nltb chi2 tol2 then
      {| o_z := z; o_q := q; o_chi := nsqrt chi2; o_kind := 0; o_iters := O; o_k := k1; o_ev := [FSpg xNew k1 chi2] |}
    else if Nat.eqb (s_max_cg_iters S) O then
      {| o_z := z; o_q := q; o_chi := nsqrt chi2; o_kind := 3; o_iters := O; o_k := k1; o_ev := [FSpg xNew k1 chi2] |}
    else
      let lam := pymax (g_lam_min G) (pymin (ndiv nunit (vnorm d)) (g_lam_max G)) in
      let r := spg_loop (s_max_cg_iters S) O x Hv trSize tol2 z d q xNew lam [q] k1 chi2 in
      {| o_z := o_z r; o_q := o_q r; o_chi := o_chi r; o_kind := o_kind r; o_iters := o_iters r; o_k := o_k r;
         o_ev := FSpg xNew k1 chi2 :: o_ev r |}.

  (* ---------------------------------------------------------------- bound_constrained_trust_region_minimize *)
  Record fstate := { f_x : vec; f_g : vec; f_o : T; f_prevOpt : T; f_tr : T; f_tried : bool; f_cum : nat; f_alpha : T; f_k : nat }.

  Inductive decision :=
  | DConverged (y : vec)
  | DStop (x : vec) (ev : list (event T))
  | DNext (s : fstate) (ev : list (event T)).

  (* everything of one outer iteration after solve_spg_subproblem returned (sv, modelObjective, stepType, spgIters) *)
  Definition decide (s : fstate) (alpha1 : T) (k1 : nat) (sv : vec) (modelObjective : T) (onBoundary : bool) (spgIters : nat) : decision :=
    let cum := (f_cum s + spgIters)%nat in
    let y := vadd (f_x s) sv in
    let gy := grad y in
    let realObjective :=
      if s_use_incremental S then nmul nhalf (vdot (vadd (f_g s) gy) sv) else nsub (value y) (f_o s) in
    let realOpt := optimality y gy bs in
    if nltb realOpt (s_tol S) then DConverged y
    else
      let rho := rho_of modelObjective realObjective in
      let tr' := new_radius S rho (if onBoundary then Boundary else Interior) (f_tr s) in
      let acc := will_accept S rho realOpt (f_prevOpt s) in
      let x1 := if acc then y else f_x s in
      let g1 := if acc then gy else f_g s in
      let o1 := if acc then value y else f_o s in
      let p1 := if acc then realOpt else f_prevOpt s in
      let tried1 := if acc then false else f_tried s in
      let ev1 := if acc then [EAccept y (value y)] else [] in
      let cum1 := if orb (Nat.leb (s_max_cg_iters S) spgIters) (Nat.leb (s_max_cumulative_cg_iters S) cum) then O else cum in
      if nltb tr' (s_min_tr_size S) then
        if negb tried1 then
          DNext {| f_x := x1; f_g := g1; f_o := o1; f_prevOpt := p1; f_tr := s_tr_size S; f_tried := true; f_cum := O;
                   f_alpha := alpha1; f_k := k1 |} (ev1 ++ [EPrecond x1])
        else DStop x1 (ev1 ++ [ETooSmall x1])
      else
        DNext {| f_x := x1; f_g := g1; f_o := o1; f_prevOpt := p1; f_tr := tr'; f_tried := tried1; f_cum := cum1;
                 f_alpha := alpha1; f_k := k1 |} ev1.

  Fixpoint full_outer (iters : nat) (s : fstate) : option (vec * bool) * list (fevent T) :=
    match iters with
    | O => (Some (f_x s, false), [FOut (EMaxIters (f_x s))])
    | Datatypes.S iters' =>
      let Hv := hessvec (f_x s) in
      match cauchy_point (f_x s) (f_g s) Hv (f_tr s) (f_alpha s) with
      | CPError ph => (None, [FIter (f_x s) (f_tr s); FCauchyError ph])
      | CPLimit => (None, [FIter (f_x s) (f_tr s); FModelLimit])
      | CPOk fwd n1 n2 alpha1 cs =>
        let r := solve_spg (f_x s) cs (f_g s) Hv (f_tr s) (f_k s) in
        let pre := FIter (f_x s) (f_tr s) :: FCauchy fwd n1 n2 alpha1 :: o_ev r ++ [FSpgExit (o_kind r) (o_iters r)] in
        if Nat.eqb (o_kind r) 3 then (None, pre ++ [FModelLimit])
        else
          let y := vadd (f_x s) (o_z r) in
          match decide s alpha1 (o_k r) (o_z r) (o_q r) (Nat.eqb (o_kind r) 1) (o_iters r) with
          | DConverged y' => (Some (y', true), pre ++ [FTrial y; FOut (EConverged y')])
          | DStop x ev => (Some (x, false), pre ++ FTrial y :: map FOut ev)
          | DNext s' ev => let '(res, tr) := full_outer iters' s' in (res, pre ++ FTrial y :: map FOut ev ++ tr)
          end
      end
    end.

  Definition full_minimize (x : vec) : option (vec * bool) * list (fevent T) :=
    let g := grad x in
    let o := value x in
    let prevOpt := optimality x g bs in
    if nltb prevOpt (s_tol S) then (Some (x, true), [FOut (EConvergedInit x)])
    else
      let gHg := vdot g (hessvec x g) in
      let alpha := if nltb nzero gHg then ndiv (vdot g g) gHg else ndiv (s_tr_size S) (vnorm g) in
      full_outer (s_max_trust_iters S)
        {| f_x := x; f_g := g; f_o := o; f_prevOpt := prevOpt; f_tr := s_tr_size S; f_tried := false; f_cum := O;
           f_alpha := alpha; f_k := O |}.
End Full.
