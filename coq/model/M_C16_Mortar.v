(* C16: executable model of MortarContact.compute_intersection / integrate_with_active_mortar / integrate_with_mortar
   and of the penalty contact energy (PenaltyContact.compute_edge_penalty_contact_energy with Surface.integrate_values).
   Generic in the numeric type: theorems use T := R, the correspondence runs T := binary64 against the implementation.
   Conventions kept from the source:
   - compute_xi solves [edgeB0-edgeB1 | normal] (xi, g)^T = edgeB0 - xa  (jnp.linalg.solve; here Cramer's rule);
   - candidate list  xiAs = [0, 1, xiA(b0), xiA(b1)],  xiBs = [xiB(a0), xiB(a1), 0, 1],  gs likewise;
   - a candidate is valid when 0 <= xiA <= 1 and 0 <= xiB <= 1 (comparisons with NaN are false, so NaN is invalid);
   - nanargmin / nanargmax return the FIRST index of the smallest / largest valid xiA, and JAX's -1 (= last entry,
     index 3) when no candidate is valid;
   - `jnp.any(xiA == jnp.nan)` is identically False in IEEE arithmetic, so the active branch is always taken;
   - smooth_linear and eval_linear_field_on_edge are the kernels regenerated from the source. *)
From Coq Require Import ZArith QArith Bool List.
From OV.base Require Import Num.
From OV.gen Require Import Gen_MortarContact.
Import ListNotations.

Section Mortar.
  Context {T : Type} {NT : Num T}.

  Definition solve2 (m00 m01 m10 m11 r0 r1 : T) : T * T :=
    let det := nsub (nmul m00 m11) (nmul m01 m10) in
    (ndiv (nsub (nmul r0 m11) (nmul m01 r1)) det, ndiv (nsub (nmul m00 r1) (nmul r0 m10)) det).

  (* (xi, g) with  xa - ((1-xi) e0 + xi e1) + g n = 0 *)
  Definition compute_xi (xa0 xa1 e00 e01 e10 e11 n0 n1 : T) : T * T :=
    solve2 (nsub e00 e10) n0 (nsub e01 e11) n1 (nsub e00 xa0) (nsub e01 xa1).

  Definition cand : Type := (T * T * T)%type.     (* (xiA, xiB, g) *)
  Definition cxa (c : cand) : T := fst (fst c).
  Definition cxb (c : cand) : T := snd (fst c).
  Definition cg (c : cand) : T := snd c.

  Definition candidates (a00 a01 a10 a11 b00 b01 b10 b11 n0 n1 : T) : list cand :=
    let '(xb0, g0) := compute_xi a00 a01 b00 b01 b10 b11 n0 n1 in
    let '(xb1, g1) := compute_xi a10 a11 b00 b01 b10 b11 n0 n1 in
    let '(xa2, g2) := compute_xi b00 b01 a00 a01 a10 a11 (nopp n0) (nopp n1) in
    let '(xa3, g3) := compute_xi b10 b11 a00 a01 a10 a11 (nopp n0) (nopp n1) in
    [ (nzero, xb0, g0); (nunit, xb1, g1); (xa2, nzero, g2); (xa3, nunit, g3) ].

  Definition valid (c : cand) : bool :=
    nleb nzero (cxa c) && nleb (cxa c) nunit && nleb nzero (cxb c) && nleb (cxb c) nunit.

  (* first candidate that is best w.r.t. `better` among the valid ones; None when there is none *)
  Fixpoint first_best (better : T -> T -> bool) (l : list cand) (best : option cand) : option cand :=
    match l with
    | [] => best
    | c :: r =>
        let best' := if valid c then
                       match best with None => Some c | Some b => if better (cxa c) (cxa b) then Some c else best end
                     else best in
        first_best better r best'
    end.
  Definition sel_min (l : list cand) : cand := match first_best nltb l None with Some c => c | None => last l (nzero, nzero, nzero) end.
  Definition sel_max (l : list cand) : cand := match first_best (fun x y => nltb y x) l None with Some c => c | None => last l (nzero, nzero, nzero) end.
  (* index form, for the correspondence with nanargmin / nanargmax *)
  Fixpoint first_best_idx (better : T -> T -> bool) (l : list cand) (i : Z) (best : option (Z * cand)) : option (Z * cand) :=
    match l with
    | [] => best
    | c :: r =>
        let best' := if valid c then
                       match best with None => Some (i, c) | Some (_, b) => if better (cxa c) (cxa b) then Some (i, c) else best end
                     else best in
        first_best_idx better r (i + 1)%Z best'
    end.
  Definition arg_min (l : list cand) : Z := match first_best_idx nltb l 0%Z None with Some (i, _) => i | None => (-1)%Z end.
  Definition arg_max (l : list cand) : Z := match first_best_idx (fun x y => nltb y x) l 0%Z None with Some (i, _) => i | None => (-1)%Z end.

  (* two-point (in general: any) quadrature on the selected overlap; quad = [(xi_k, w_k)] on [0,1] *)
  Definition active (cmin cmax : cand) (lenA lenB : T) (f : T -> T -> T -> T) (l : T) (quad : list (T * T)) : T :=
    let dxiA := nsub (smooth_linear (cxa cmax) l) (smooth_linear (cxa cmin) l) in
    let dxiB := nabs (nsub (smooth_linear (cxb cmax) l) (smooth_linear (cxb cmin) l)) in
    nsum (map (fun q : T * T =>
                 let '(xg, wg) := q in
                 nmul (nmul nhalf (nadd (nmul (nmul lenA dxiA) wg) (nmul (nmul lenB dxiB) wg)))
                      (f (eval_linear_field_on_edge (cxa cmin) (cxa cmax) xg)
                         (eval_linear_field_on_edge (cxb cmin) (cxb cmax) xg)
                         (eval_linear_field_on_edge (cg cmin) (cg cmax) xg))) quad).

  Definition seglen (e00 e01 e10 e11 : T) : T :=
    nsqrt (nadd (nmul (nsub e00 e10) (nsub e00 e10)) (nmul (nsub e01 e11) (nsub e01 e11))).

  (* integrate_with_mortar for a given common normal *)
  Definition mortar_with_normal (a00 a01 a10 a11 b00 b01 b10 b11 n0 n1 : T) (f : T -> T -> T -> T) (l : T) (quad : list (T * T)) : T :=
    let cs := candidates a00 a01 a10 a11 b00 b01 b10 b11 n0 n1 in
    active (sel_min cs) (sel_max cs) (seglen a00 a01 a10 a11) (seglen b00 b01 b10 b11) f l quad.

  (* the two common-normal rules of the source *)
  Definition normal_from_a (a00 a01 a10 a11 b00 b01 b10 b11 : T) : T * T := compute_normal a00 a01 a10 a11.
  Definition average_normal (a00 a01 a10 a11 b00 b01 b10 b11 : T) : T * T :=
    let '(na0, na1) := compute_normal a00 a01 a10 a11 in
    let '(nb0, nb1) := compute_normal b00 b01 b10 b11 in
    let d0 := nsub na0 nb0 in let d1 := nsub na1 nb1 in
    let nn := nsqrt (nadd (nmul d0 d0) (nmul d1 d1)) in
    (ndiv d0 nn, ndiv d1 nn).
  Definition mortar (rule : T -> T -> T -> T -> T -> T -> T -> T -> T * T)
             (a00 a01 a10 a11 b00 b01 b10 b11 : T) (f : T -> T -> T -> T) (l : T) (quad : list (T * T)) : T :=
    let '(n0, n1) := rule a00 a01 a10 a11 b00 b01 b10 b11 in
    mortar_with_normal a00 a01 a10 a11 b00 b01 b10 b11 n0 n1 f l quad.

  (* penalty contact energy on one edge: stiffness * sum_k (jac * w_k) * min(0, phi_k)^2 *)
  Definition penalty_edge (stiffness jac : T) (wphi : list (T * T)) : T :=
    nmul stiffness (nsum (map (fun q : T * T => let '(w, phi) := q in nmul (nmul jac w) (nsq (nmin nzero phi))) wphi)).
  Definition penalty_total (edges : list (T * T * list (T * T))) : T :=
    nsum (map (fun e : T * T * list (T * T) => let '(k, jac, wphi) := e in penalty_edge k jac wphi) edges).

  (* Contact.get_closest_distance: the signed distance of the edge whose |cpp_distance| is smallest (first one on ties) *)
  Fixpoint closest_of (best : T) (l : list T) : T :=
    match l with [] => best | d :: r => closest_of (if nltb (nabs d) (nabs best) then d else best) r end.
  Definition closest_distance (l : list T) : T := match l with [] => nzero | d :: r => closest_of d r end.
End Mortar.
