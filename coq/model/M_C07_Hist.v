(* C07: a reverse sweep over a load history whose solves share ONE Objective (model/M_C07_Rule.v gives the denotation of one reverse rule).
   JAX runs the custom reverse rules in reverse order of the forward solves; every rule reads AND assigns objective.p, which is a mutable
   attribute of the shared object -- so the sweep threads objective.p through the rules.  The parameters of solve k depend on the global
   (design / boundary / time) parameters theta and on the previous solution (path-dependent state; it is also the initial guess); that part of the
   chain is JAX's own and enters through the transposed derivatives b_At, b_Bt.  Definitions only. *)
From Coq Require Import Reals List Bool Arith String.
From OV.model Require Import M_C07_Refs M_C19_CFG M_C07_Rule.
From OV.gen Require Import CFG_drivers.
Import ListNotations.

Section HistSem.
  Variables V P Th : Type.
  Variable gradx : V -> Par P -> V.
  Variable vjp_at : (P -> V) -> P -> V -> P.
  Variable jvp_at : (V -> V) -> V -> V -> V.
  Variable cg : V -> V -> (V -> V) -> (V -> V) -> option R -> V * V.
  Variable vzero : V.
  Variable precond : V -> V.
  Variable vadd : V -> V -> V.
  Variable vscale : R -> V -> V.
  Variable thadd : Th -> Th -> Th.

  Definition vplus (a b : V) : V := vadd a (vscale 1%R b).

  (* one solve of the history as the reverse sweep meets it.  b_state: nonlinear_solve_with_state (true) or nonlinear_solve (false);
     b_env: the residual data saved by the forward rule (e_psaved / e_dsaved, e_Uu) -- its e_pcur and e_v are overwritten by the sweep;
     b_vout: the direct cotangent of this solution (the objective of the outer problem may read every solution);
     b_At k / b_Bt k: transposed derivative of the value of parameter slot k w.r.t. theta / w.r.t. the previous solution *)
  Record bstep := { b_state : bool; b_env : renv V P; b_vout : V; b_At : nat -> P -> Th; b_Bt : nat -> P -> V }.

  (* objective.p, the cotangent flowing to the solution of the solve the sweep meets next, the accumulated cotangent of theta *)
  Record sstate := { s_pobj : Par P; s_ubar : V; s_thbar : Th }.

  Definition env_of (st : sstate) (b : bstep) : renv V P :=
    let e0 := b_env b in
    {| e_pcur := s_pobj st; e_psaved := e_psaved V P e0; e_dsaved := e_dsaved V P e0; e_Uu := e_Uu V P e0;
       e_v := vplus (b_vout b) (s_ubar st);
       e_jV := e_jV V P e0; e_jop := e_jop V P e0; e_jpre := e_jpre V P e0; e_rad := e_rad V P e0 |}.

  (* JAX accumulates the cotangents a rule returns through the transposed derivative of whatever produced the rule's arguments; a Python None
     contributes nothing; anything not of the recognised shape makes the sweep stuck *)
  Fixpoint acc (X : Type) (add : X -> X -> X) (f : nat -> P -> X) (sl : list slotdesc) (cs : list (cot P)) (a : X) : option X :=
    match sl, cs with
    | [], [] => Some a
    | SlotVJP k _ :: sl', CotVal _ c :: cs' => acc X add f sl' cs' (add a (f k c))
    | SlotVJP _ _ :: sl', CotNone _ :: cs' => acc X add f sl' cs' a
    | SlotNone :: sl', CotNone _ :: cs' => acc X add f sl' cs' a
    | _, _ => None
    end.

  (* the descriptors / restore kinds / closures are parameters here; the theorems instantiate them with the regenerated tables *)
  Variable cls : list vjpclosure.
  Variables r_state r_design : revrule.
  Variables rk_state rk_design : restore_kind.
  Variable hv_ok : bool.

  Definition back_step (st : sstate) (b : bstep) : option sstate :=
    let e := env_of st b in
    let r := if b_state b then r_state else r_design in
    let rk := if b_state b then rk_state else rk_design in
    let o := rule_out V P gradx vjp_at jvp_at cg vzero precond cls r rk hv_ok e in
    match acc Th thadd (b_At b) (r_slots r) (snd o) (s_thbar st), acc V vplus (b_Bt b) (r_slots r) (snd o) (fst o) with
    | Some th, Some ub => Some {| s_pobj := p_used V P rk e; s_ubar := ub; s_thbar := th |}
    | _, _ => None
    end.

  (* the solves in the order the sweep meets them: LAST solve first *)
  Fixpoint sweep (st : sstate) (bs : list bstep) : option sstate :=
    match bs with
    | [] => Some st
    | b :: bs' => match back_step st b with Some st' => sweep st' bs' | None => None end
    end.

  (* the parameters the forward solve of a step ran with = what its forward rule saved (since /repo 42a60d0 for nonlinear_solve too: the whole Params) *)
  Definition p_fwd (b : bstep) : Par P := e_psaved V P (b_env b).
End HistSem.

(* the forward passes, as far as objective.p is concerned.  pk_design / pk_state: with which parameters the primal of nonlinear_solve /
   nonlinear_solve_with_state runs the equation solver, eq_assigns: nonlinear_equation_solve leaves objective.p = those parameters on every path
   (all three regenerated from the AST: gen/Refs_NonlinearSolve.v); the solver itself is a black box returning the solution *)
Section FwdSem.
  Variables V P : Type.
  Variable solve : V -> Par P -> V.
  Variables pk_design pk_state : restore_kind.
  Variable eq_assigns : bool.

  Inductive fcall := FDesign (d : P) | FState (p : Par P).

  Definition params_of (pobj : Par P) (c : fcall) : Par P :=
    match c with
    | FDesign d => match pk_design with RestoreSlot k => upd P pobj k d | _ => pobj end
    | FState p => match pk_state with RestoreSaved => p | _ => pobj end
    end.

  (* (objective.p afterwards, solution, parameters the solve ran with) *)
  Definition fwd_call (pobj : Par P) (guess : V) (c : fcall) : Par P * V * Par P :=
    let p := params_of pobj c in (if eq_assigns then p else pobj, solve guess p, p).

  (* a history: the argument of every call may depend on the previous solution (which is also the initial guess).
     Result: per solve (objective.p when its forward pass started, parameters it ran with, solution), and objective.p at the end *)
  Fixpoint fwd_run (pobj : Par P) (u : V) (cs : list (V -> fcall)) : list (Par P * Par P * V) * Par P :=
    match cs with
    | [] => ([], pobj)
    | c :: cs' => let '(pobj', u', p) := fwd_call pobj u (c u) in
                  let '(rec, pfin) := fwd_run pobj' u' cs' in ((pobj, p, u') :: rec, pfin)
    end.

  (* the forward RULE: the primal, then what is saved for the reverse rule besides the solution.  fs_design / fs_state (regenerated): RestoreSaved = the
     argument itself, RestoreSlot k = objective.p as the primal left it with slot k := the argument *)
  Variables fs_design fs_state : restore_kind.
  Definition fwd_saved (pobj_after : Par P) (c : fcall) : Par P :=
    match c with
    | FDesign d => match fs_design with RestoreSlot k => upd P pobj_after k d | _ => pobj_after end
    | FState p => match fs_state with RestoreSaved => p | _ => pobj_after end
    end.
  (* (objective.p afterwards, solution, parameters the solve ran with, Params saved for the reverse rule) *)
  Definition fwd_rule (pobj : Par P) (guess : V) (c : fcall) : Par P * V * Par P * Par P :=
    let '(pobj', u, p) := fwd_call pobj guess c in (pobj', u, p, fwd_saved pobj' c).
End FwdSem.
