(* C19: definitions for the scaling-transparency statements (vectors as functions nat -> R, diagonal scaling).  No proofs. *)
From Coq Require Import Reals Arith.
Local Open Scope R_scope.

Definition rvec : Type := nat -> R.
(* x + s e_i *)
Definition upd (x : rvec) (i : nat) (s : R) : rvec := fun j => if Nat.eqb j i then x j + s else x j.
(* x = invScaling * xBar,  xBar = scaling * x   with scaling = d *)
Definition unscale (d : rvec) (xb : rvec) : rvec := fun j => xb j / d j.
Definition scale (d : rvec) (x : rvec) : rvec := fun j => d j * x j.
(* ScaledObjective: scaled_objective(xBar, p) = objective_func(invScaling * xBar, p) *)
Definition scaled (f : rvec -> R) (d : rvec) : rvec -> R := fun xb => f (unscale d xb).
