(* C10: hand-written executable models of the parts of optimism/TensorMath.py that the translator does not cover
   (the x2 == x1 guard, _symmetric_matrix_function_jvp_helper).  The argsort-based relative-difference kernels are no longer modelled
   by hand: they are regenerated (OV.gen.Gen_TensorMathFun._log_relative_difference / _pow_relative_difference).  Definitions only;
   generic in the numeric interface (R for theorems, binary64 for the correspondence). *)
From Coq Require Import ZArith QArith List.
From OV.base Require Import Num.
Import ListNotations.

Section H.
  Context {T : Type} {NT : Num T}.

  (* rd(x1, x2) inside _symmetric_matrix_function_jvp_helper:
       x2_safe = where(x2 == x1, x2 + 1.0, x2);  where(x2 == x1, df(x1), relative_difference(x1, x2_safe)) *)
  Definition rd_guard (df : T -> T) (rel : T -> T -> T) (x1 x2 : T) : T :=
    let x2_safe := if neqb x2 x1 then nadd x2 nunit else x2 in
    if neqb x2 x1 then df x1 else rel x1 x2_safe.

  (* 3x3 matrices as index functions (indices 0..2) *)
  Definition mat := nat -> nat -> T.
  Definition sum3 (f : nat -> T) : T := nadd (nadd (f 0%nat) (f 1%nat)) (f 2%nat).
  Definition mmul (A B : mat) : mat := fun i j => sum3 (fun k => nmul (A i k) (B k j)).
  Definition mtr (A : mat) : mat := fun i j => A j i.
  Definition msym (A : mat) : mat := fun i j => nmul nhalf (nadd (A i j) (A j i)).
  Definition mid : mat := fun i j => if Nat.eqb i j then nunit else nzero.
  Definition mdiag (l : nat -> T) : mat := fun i j => if Nat.eqb i j then l i else nzero.
  Definition madd (A B : mat) : mat := fun i j => nadd (A i j) (B i j).
  Definition mscal (c : T) (A : mat) : mat := fun i j => nmul c (A i j).

  (* the divided-difference matrix h of the helper: diagonal df(lam_i); h01 = rd(lam0, lam1), h12 = rd(lam1, lam2),
     h20 = rd(lam2, lam0), symmetric fill *)
  Definition h_matrix (df : T -> T) (rel : T -> T -> T) (lam : nat -> T) : mat :=
    fun i j =>
      match i, j with
      | 0%nat, 0%nat => df (lam 0%nat) | 1%nat, 1%nat => df (lam 1%nat) | 2%nat, 2%nat => df (lam 2%nat)
      | 0%nat, 1%nat | 1%nat, 0%nat => rd_guard df rel (lam 0%nat) (lam 1%nat)
      | 1%nat, 2%nat | 2%nat, 1%nat => rd_guard df rel (lam 1%nat) (lam 2%nat)
      | 0%nat, 2%nat | 2%nat, 0%nat => rd_guard df rel (lam 2%nat) (lam 0%nat)
      | _, _ => nzero
      end.

  (* _symmetric_matrix_function_jvp_helper given the eigen-pair (lam, V) the implementation computed for C:
     W = V^T sym(Cdot) V; h *= W; t_ij = 0.5 (V[i]^T h V[j] + V[j]^T h V[i])  (V[i] = i-th ROW of V) *)
  Definition jvp_helper (df : T -> T) (rel : T -> T -> T) (lam : nat -> T) (V Cdot : mat) : mat :=
    let W := mmul (mtr V) (mmul (msym Cdot) V) in
    let hW : mat := fun i j => nmul (h_matrix df rel lam i j) (W i j) in
    msym (mmul V (mmul hW (mtr V))).

  Definition mat_of_list (l : list T) : mat := fun i j => nth (3 * i + j) l nzero.
  Definition list_of_mat (A : mat) : list T :=
    [A 0 0; A 0 1; A 0 2; A 1 0; A 1 1; A 1 2; A 2 0; A 2 1; A 2 2]%nat.
End H.
