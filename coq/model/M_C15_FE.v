(* C15: quadrature model of the energies that Mechanics.create_dynamics_functions integrates over a mesh, and of the mass and
   stiffness forms they imply (plane strain, linear elastic).  Executable definitions only.

   A mesh is a list of elements; an element is its connectivity (identifiers of its nodes, any type A) and one record per
   quadrature point: the volume weight  vols[e,q]  (element Jacobian * quadrature weight), the values  shapes[e,q,:]  and the
   physical gradients  shapeGrads[e,q,:,0], shapeGrads[e,q,:,1]  of the shape functions of the element's nodes.  A nodal field is
   a function of (node, component) -- component false = x, true = y -- i.e. a `field` over the index set A * bool of the Newmark
   model (M_C15_Newmark).

     FunctionSpace.interpolate_to_point                       np.dot(shape, U[elConn])                 -> interp
     FunctionSpace.compute_quadrature_point_field_gradient    tensordot(U[elConn], shapeGrad, [0,0])   -> grad2   (dg[i][j])
     Mechanics.plane_strain_gradient_transformation           tensor_2D_to_3D: zero padding to 3x3     -> se_density (hand)
     LinearElastic.strain_energy (strain measure 'linear')    regenerated kernels linear_strain, _linear_elastic_energy_density,
                                                              _make_properties (Gen_LinearElastic)
     Mechanics.kinetic_energy_density                         regenerated kernel (Gen_Mechanics)
     FunctionSpace.integrate_over_block                       np.dot(vals.ravel(), vols.ravel())       -> fe_sum
     Mechanics.compute_newmark_lagrangian                     SE(U) + KE(U - UPredicted) * (1/(beta*dt**2))  -> fe_alg_energy *)
From Coq Require Import ZArith QArith Bool List.
From OV.base Require Import Num.
From OV.gen Require Import Gen_Mechanics Gen_TensorMath Gen_LinearElastic.
From OV.model Require Import M_C15_Newmark.
Import ListNotations.

Section FE.
  Context {T : Type} {NT : Num T} {A : Type}.

  Record qpt : Type := mkQ { qw : T; qN : list T; qGx : list T; qGy : list T }.
  Definition elem : Type := (list A * list qpt)%type.
  Definition dof : Type := (A * bool)%type.
  Definition nfield : Type := @field T dof.

  (* U[elConn, c] *)
  Definition gather (u : nfield) (conn : list A) (c : bool) : list T := map (fun a => u (a, c)) conn.
  Definition interp (u : nfield) (conn : list A) (q : qpt) (c : bool) : T := ndot (qN q) (gather u conn c).
  (* (dg00, dg01, dg10, dg11),  dg[i][j] = sum_a U[a,i] * shapeGrad[a,j] *)
  Definition grad2 (u : nfield) (conn : list A) (q : qpt) : T * T * T * T :=
    (ndot (gather u conn false) (qGx q), ndot (gather u conn false) (qGy q),
     ndot (gather u conn true) (qGx q), ndot (gather u conn true) (qGy q)).

  (* sum over elements and quadrature points of  value * volume weight *)
  Definition fe_sum (f : list A -> qpt -> T) (mesh : list elem) : T :=
    nsum (map (fun e : elem => nsum (map (fun q => nmul (f (fst e) q) (qw q)) (snd e))) mesh).

  (* strain energy density of the linear-elastic model at a plane-strain displacement gradient *)
  Definition se_density_props (p0 p1 p2 p3 : T) (g : T * T * T * T) : T :=
    let '(g00, g01, g10, g11) := g in
    let '(s00, s01, s02, s10, s11, s12, s20, s21, s22) := linear_strain g00 g01 nzero g10 g11 nzero nzero nzero nzero in
    _linear_elastic_energy_density s00 s01 s02 s10 s11 s12 s20 s21 s22 p0 p1 p2 p3.
  Definition se_density (E nu : T) (g : T * T * T * T) : T :=
    let '(p0, p1, p2, p3) := le_make_properties E nu in se_density_props p0 p1 p2 p3 g.

  (* compute_output_kinetic_energy / compute_output_strain_energy / compute_algorithmic_energy *)
  Definition fe_kinetic_energy (rho : T) (mesh : list elem) (v : nfield) : T :=
    fe_sum (fun conn q => kinetic_energy_density (interp v conn q false) (interp v conn q true) rho) mesh.
  Definition fe_strain_energy (E nu : T) (mesh : list elem) (u : nfield) : T :=
    fe_sum (fun conn q => se_density E nu (grad2 u conn q)) mesh.
  Definition fe_alg_energy (rho E nu beta dt : T) (mesh : list elem) (Up U : nfield) : T :=
    nadd (fe_strain_energy E nu mesh U)
         (nmul (fe_kinetic_energy rho mesh (fsub U Up)) (ndiv nunit (nmul beta (npow dt 2)))).

  (* the forms: mass form  sum_q w_q rho u_h(q).v_h(q)  and stiffness form  sum_q w_q eps(u):C:eps(v)  with
     eps:C:eps' = kappa tr(eps) tr(eps') + 2 mu dev(eps):dev(eps')  (plane strain: eps_33 = eps_13 = eps_23 = 0) *)
  Definition fe_mass_form (rho : T) (mesh : list elem) (u v : nfield) : T :=
    fe_sum (fun conn q => nmul rho (nadd (nmul (interp u conn q false) (interp v conn q false))
                                         (nmul (interp u conn q true) (interp v conn q true)))) mesh.
  Definition cdot (mu kappa : T) (g h : T * T * T * T) : T :=
    let '(g00, g01, g10, g11) := g in
    let '(h00, h01, h10, h11) := h in
    let tg := nadd g00 g11 in
    let th := nadd h00 h11 in
    nadd (nmul kappa (nmul tg th))
         (nmul (nmul ntwo mu)
               (nsub (nadd (nadd (nmul g00 h00) (nmul g11 h11)) (nmul nhalf (nmul (nadd g01 g10) (nadd h01 h10))))
                     (ndiv (nmul tg th) (nZ 3)))).
  Definition fe_stiff_form (mu kappa : T) (mesh : list elem) (u v : nfield) : T :=
    fe_sum (fun conn q => cdot mu kappa (grad2 u conn q) (grad2 v conn q)) mesh.

  (* a rigid translation: the same 2-vector at every node *)
  Definition translation (cx cy : T) : nfield := fun d => if snd d then cy else cx.
  (* total of the quadrature-point volumes *)
  Definition fe_volume (mesh : list elem) : T := fe_sum (fun _ _ => nunit) mesh.
End FE.
