(* C13 -- node numbering of optimism/Mesh.py create_higher_order_mesh_from_simplex_mesh.
   nV vertices keep their ids; edge e (row e of create_edges) gets the m = p-1 ids
   nodeOrdinalOffset + arange(e*m, (e+1)*m) with nodeOrdinalOffset = nV, written in this order into the left element's
   face and in reversed order (np.flip) into the right element's face; element t gets the nI interior ids
   arange(nT*nI).reshape(nT, nI)[t] + nV + nE*m. *)
From Coq Require Import List Arith ZArith.
Import ListNotations.

Definition edge_ids (nV m e : nat) : list nat := map (fun k => nV + e * m + k) (seq 0 m).
Definition edge_ids_right (nV m e : nat) : list nat := rev (edge_ids nV m e).
Definition interior_ids (nV nE m nI t : nat) : list nat := map (fun k => nV + nE * m + t * nI + k) (seq 0 nI).
(* all node ids of the elevated mesh, slot by slot: vertices, then (edge, k), then (element, k) *)
Definition all_ids (nV nE nT m nI : nat) : list nat :=
  seq 0 nV ++ flat_map (edge_ids nV m) (seq 0 nE) ++ flat_map (interior_ids nV nE m nI) (seq 0 nT).
Definition enc_elev (nV nE nT m nI : Z) : list Z :=
  let n := Z.to_nat in
  map Z.of_nat (flat_map (edge_ids (n nV) (n m)) (seq 0 (n nE)) ++ flat_map (edge_ids_right (n nV) (n m)) (seq 0 (n nE))
                ++ flat_map (interior_ids (n nV) (n nE) (n m) (n nI)) (seq 0 (n nT))).
