(* C13 -- node numbering of optimism/Mesh.py create_higher_order_mesh_from_simplex_mesh.
   nV vertices keep their ids; edge e (row e of create_edges) gets the m = p-1 ids
   nodeOrdinalOffset + arange(e*m, (e+1)*m) with nodeOrdinalOffset = nV, written in this order into the left element's
   face and in reversed order (np.flip) into the right element's face; element t gets the nI interior ids
   arange(nT*nI).reshape(nT, nI)[t] + nV + nE*m. *)
From Coq Require Import List Arith ZArith.
Import ListNotations.

Definition edge_ids (nV m e : nat) : list nat := map (fun k => nV + e * m + k) (seq 0 m).
Definition edge_ids_right (nV m e : nat) : list nat := rev (edge_ids nV m e).
Definition interior_ids (nV nE m nI t : nat) : list nat := map (fun k => nV + nE * m + t * nI + k) (seq 0 nI).
(* all node ids of the elevated mesh, slot by slot: vertices, then (edge, k), then (element, k) *)
Definition all_ids (nV nE nT m nI : nat) : list nat :=
  seq 0 nV ++ flat_map (edge_ids nV m) (seq 0 nE) ++ flat_map (interior_ids nV nE m nI) (seq 0 nT).
Definition enc_elev (nV nE nT m nI : Z) : list Z :=
  let n := Z.to_nat in
  map Z.of_nat (flat_map (edge_ids (n nV) (n m)) (seq 0 (n nE)) ++ flat_map (edge_ids_right (n nV) (n m)) (seq 0 (n nE))
                ++ flat_map (interior_ids (n nV) (n nE) (n m) (n nI)) (seq 0 (n nT))).

(* ------------------------------------------------------------------------------------------------------------------
   Connectivity of the elevated mesh.  create_higher_order_mesh_from_simplex_mesh builds it by a sequence of functional
   array updates conns.at[t, positions].set(values): (1) vertex ids at basis.vertexNodes, (2) for every row e of
   create_edges the edge's ids at basis.faceNodes[sideLeft][interiorNodes1d] of the left element and, flipped, at
   basis.faceNodes[sideRight][interiorNodes1d] of the right element, (3) interior ids at basis.interiorNodes.
   The model is the log of these writes in program order; an entry of the result is the LAST value written to it. *)
From OV.model Require Import M_C13_Edges.

(* reference element tables: vertexNodes, faceNodes[s][1:-1] for s = 0,1,2, interiorNodes *)
Record pelem := mkPE { pe_n : nat; pe_vertex : list nat; pe_m0 : list nat; pe_m1 : list nat; pe_m2 : list nat; pe_interior : list nat }.
Definition pe_mid (pe : pelem) (s : nat) : list nat := match s with 0 => pe_m0 pe | 1 => pe_m1 pe | _ => pe_m2 pe end.
Definition pe_positions (pe : pelem) : list nat := pe_vertex pe ++ pe_m0 pe ++ pe_m1 pe ++ pe_m2 pe ++ pe_interior pe.

Definition ev := ((nat * nat) * nat)%type.             (* ((element, position), value) *)
Definition writes_at (t : nat) (pos vals : list nat) : list ev := map (fun pv => ((t, fst pv), snd pv)) (combine pos vals).
Fixpoint indexed_from {A} (i : nat) (l : list A) : list (nat * A) :=
  match l with [] => [] | x :: r => (i, x) :: indexed_from (S i) r end.
(* the (element, side) slots an edge row writes to; true = left (ids in order), false = right (ids flipped) *)
Definition slots_of (r : edge_row) : list ((nat * nat) * bool) :=
  ((e_tl r, e_pl r), true) :: match e_right r with Some tp => [(tp, false)] | None => [] end.
Definition ev_slot (pe : pelem) (nV m e : nat) (sl : (nat * nat) * bool) : list ev :=
  writes_at (fst (fst sl)) (pe_mid pe (snd (fst sl))) (if snd sl then edge_ids nV m e else rev (edge_ids nV m e)).
Definition ev_vertex (pe : pelem) (conns : list (list nat)) : list ev :=
  flat_map (fun tc => writes_at (fst tc) (pe_vertex pe) (snd tc)) (indexed_from 0 conns).
Definition ev_edges (pe : pelem) (nV m : nat) (rows : list edge_row) : list ev :=
  flat_map (fun er => flat_map (ev_slot pe nV m (fst er)) (slots_of (snd er))) (indexed_from 0 rows).
Definition ev_interior (pe : pelem) (nV nE m nT : nat) : list ev :=
  flat_map (fun t => writes_at t (pe_interior pe) (interior_ids nV nE m (length (pe_interior pe)) t)) (seq 0 nT).
Definition events (pe : pelem) (nV m : nat) (conns : list (list nat)) : list ev :=
  let rows := create_edges conns in
  ev_vertex pe conns ++ ev_edges pe nV m rows ++ ev_interior pe nV (length rows) m (length conns).

Definition key_eqb (a b : nat * nat) : bool := (fst a =? fst b) && (snd a =? snd b).
(* last write wins *)
Fixpoint lookup (W : list ev) (k : nat * nat) : option nat :=
  match W with
  | [] => None
  | (k', v) :: r => match lookup r k with Some x => Some x | None => if key_eqb k k' then Some v else None end
  end.
Definition elevated (pe : pelem) (nV m : nat) (conns : list (list nat)) : list (list nat) :=
  let W := events pe nV m conns in
  map (fun t => map (fun pos => match lookup W (t, pos) with Some v => v | None => 0 end) (seq 0 (pe_n pe))) (seq 0 (length conns)).

(* certificate for a reference element (K): the position tables partition 0..n-1 and have the right sizes *)
Fixpoint nodupb (l : list nat) : bool := match l with [] => true | x :: r => negb (existsb (Nat.eqb x) r) && nodupb r end.
Definition pe_okb (pe : pelem) (m : nat) : bool :=
  (length (pe_vertex pe) =? 3) && (length (pe_m0 pe) =? m) && (length (pe_m1 pe) =? m) && (length (pe_m2 pe) =? m)
  && nodupb (pe_positions pe) && forallb (fun p => p <? pe_n pe) (pe_positions pe) && (length (pe_positions pe) =? pe_n pe).

Definition mk_pe (n : Z) (v m0 m1 m2 i : list Z) : pelem :=
  let f := map Z.to_nat in mkPE (Z.to_nat n) (f v) (f m0) (f m1) (f m2) (f i).
Definition enc_elevated (pe : pelem) (nV m : Z) (conns : list (list Z)) : list Z :=
  (if pe_okb pe (Z.to_nat m) then 1%Z else 0%Z)
  :: map Z.of_nat (concat (elevated pe (Z.to_nat nV) (Z.to_nat m) (map (map Z.to_nat) conns))).

(* certificates (K) evaluated on the implementation's tables: reference element partition, symmetry of the 1-D Lobatto nodes *)
From Coq Require Import QArith Qabs.
Definition pe_cert (pe : pelem) (m : Z) : list Z := [if pe_okb pe (Z.to_nat m) then 1%Z else 0%Z].
Definition lobatto_sym_cert (nodes : list Q) (tol : Q) : list Z :=
  [if forallb (fun p : Q * Q => Qle_bool (Qabs (fst p + snd p - 1)) tol) (combine nodes (rev nodes)) then 1%Z else 0%Z].
