(* C20 -- executable model of optimism/VTKWriter.py (hand model H) and of an independent legacy-VTK reader.

   Tokens.  A .vtk file is modelled as the list of its whitespace-separated tokens; the first two lines (magic line and
   title line) are one token each.  Numbers are exact rationals (numerator, positive denominator) that the model never
   computes with: values supplied by the user are opaque, the only numbers the writer itself creates are natural-number
   counts/ids (vnat n) and the padding zero (vzero).

   Writer state (class VTKWriter):  w_nall = mesh.coords.shape[0];  w_outnodes = self.outputNodes;
   w_points = mesh.coords[self.outputNodes];  w_k = len(self.elConn);  w_cells = mesh.conns[:, self.elConn];
   w_ctype = self.vtkCellType;  w_nodal / w_cell = self.nodalFields / self.cellFields (insertion-ordered dicts with
   Python overwrite semantics);  w_spheres = zip(self.spheres, self.sphereRadii);  w_edges = self.contactEdges.
   The mesh is immutable, so the two gathers the code repeats in every write() are done once in [init].
   [write] returns the token list AND the state after the call.  Since the repairs 2cde078 / 34184b3 / 07417cb the
   code pads LOCAL copies of the nodal / cell field dicts (for the sphere points / contact-edge cells), sizes sphere_radius
   with the output-node count and counts the edge cells in CELL_DATA, so the state returned is the state given. *)
From Coq Require Import ZArith List Bool PeanoNat.
Import ListNotations.

Inductive dtype := BIT | UCHAR | CHAR | USHORT | SHORT | UINT | INT | ULONG | LONG | FLOAT | DOUBLE.
Inductive ftype := SCALARS | VECTORS | TENSORS.
Inductive kw := KMagic | KTitle | KAscii | KDataset | KUGrid | KPoints | KCells | KCellTypes | KPointData | KCellData
              | KLookup | KDefault.
Definition val := (Z * positive)%type.
Inductive tok := TK (k : kw) | TF (f : ftype) | TD (d : dtype) | TName (n : Z) | TNum (v : val).

Definition vzero : val := (0%Z, 1%positive).
Definition vnat (n : nat) : val := (Z.of_nat n, 1%positive).
Definition tnat (n : nat) : tok := TNum (vnat n).

Notation "x <- e ; k" := (match e with Some x => k | None => None end) (at level 60, e at next level, right associativity).
Notation "' p <- e ; k" := (match e with Some p => k | None => None end) (at level 60, p pattern, e at next level, right associativity).

Fixpoint mapM {A B} (f : A -> option B) (l : list A) : option (list B) :=
  match l with
  | [] => Some []
  | x :: r => y <- f x; ys <- mapM f r; Some (y :: ys)
  end.
(* numpy fancy indexing l[idx] with in-range natural indices; None stands for IndexError *)
Definition gather {A} (l : list A) (idx : list nat) : option (list A) := mapM (nth_error l) idx.

(* ---------------------------------------------------------------- state *)
Record field := mkField { f_rows : list (list val); f_ft : ftype; f_dt : dtype }.
Definition fields := list (Z * field).
(* d[k] = f on an insertion-ordered dict *)
Fixpoint dict_set (d : fields) (k : Z) (f : field) : fields :=
  match d with
  | [] => [(k, f)]
  | (k', f') :: r => if Z.eqb k k' then (k, f) :: r else (k', f') :: dict_set r k f
  end.

Record mesh := mkMesh {
  m_coords : list (val * val); m_conns : list (list nat); m_degree : nat;
  m_vertexNodes : list nat; m_simplex : list nat }.

Record writer := mkWriter {
  w_nall : nat; w_outnodes : list nat; w_points : list (val * val);
  w_k : nat; w_cells : list (list nat); w_ctype : nat;
  w_nodal : fields; w_cell : fields;
  w_spheres : list (val * val * val);      (* (x, y, radius) *)
  w_edges : list (nat * nat) }.

Definition set_nodal (w : writer) (d : fields) : writer :=
  mkWriter (w_nall w) (w_outnodes w) (w_points w) (w_k w) (w_cells w) (w_ctype w) d (w_cell w) (w_spheres w) (w_edges w).
Definition set_cell (w : writer) (d : fields) : writer :=
  mkWriter (w_nall w) (w_outnodes w) (w_points w) (w_k w) (w_cells w) (w_ctype w) (w_nodal w) d (w_spheres w) (w_edges w).

(* VTKWriter.__init__ *)
Definition init (m : mesh) : option writer :=
  let nall := length (m_coords m) in
  let '(outn, elc, ct) := if m_degree m =? 2 then (seq 0 nall, [0; 2; 5; 1; 4; 3], 22)
                          else (m_simplex m, m_vertexNodes m, 5) in
  pts <- gather (m_coords m) outn;
  cells <- mapM (fun row => gather row elc) (m_conns m);
  Some (mkWriter nall outn pts (length elc) cells ct [] [] [] []).

(* _check_and_format_data for one entity (node or element); the spatial dimension is read off the number of components.
   None stands for the AssertionError / broadcast error of the code. *)
Definition z3 : list val := [vzero; vzero; vzero].
Definition format_entity (ft : ftype) (c : list val) : option (list (list val)) :=
  match ft, c with
  | SCALARS, [a] => Some [[a]]
  | VECTORS, [a] => Some [[a; vzero; vzero]]
  | VECTORS, [a; b] => Some [[a; b; vzero]]
  | VECTORS, [a; b; c] => Some [[a; b; c]]
  | TENSORS, [a] => Some [[a; vzero; vzero]; z3; z3]
  | TENSORS, [a; b; c; d] => Some [[a; b; vzero]; [c; d; vzero]; z3]
  | TENSORS, [a; b; c; d; e; f; g; h; i] => Some [[a; b; c]; [d; e; f]; [g; h; i]]
  | _, _ => None
  end.

(* add_nodal_field: data has one component list per mesh node (all nodes) *)
Definition add_nodal_field (w : writer) (nm : Z) (data : list (list val)) (ft : ftype) (dt : dtype) : option writer :=
  sel <- gather data (w_outnodes w);
  rows <- mapM (format_entity ft) sel;
  Some (set_nodal w (dict_set (w_nodal w) nm (mkField (concat rows) ft dt))).

(* add_cell_field: wrong leading dimension -> warning, field skipped *)
Definition add_cell_field (w : writer) (nm : Z) (data : list (list val)) (ft : ftype) (dt : dtype) : option writer :=
  if length data =? length (w_cells w) then
    rows <- mapM (format_entity ft) data;
    Some (set_cell w (dict_set (w_cell w) nm (mkField (concat rows) ft dt)))
  else Some w.

Definition add_sphere (w : writer) (x y r : val) : writer :=
  mkWriter (w_nall w) (w_outnodes w) (w_points w) (w_k w) (w_cells w) (w_ctype w) (w_nodal w) (w_cell w)
           (w_spheres w ++ [(x, y, r)]) (w_edges w).
Definition add_contact_edges (w : writer) (es : list (nat * nat)) : writer :=
  mkWriter (w_nall w) (w_outnodes w) (w_points w) (w_k w) (w_cells w) (w_ctype w) (w_nodal w) (w_cell w)
           (w_spheres w) (w_edges w ++ es).

(* ---------------------------------------------------------------- write() *)
Definition sr_name : Z := 0%Z.       (* the dict key 'sphere_radius' *)
Definition default_rows (ft : ftype) : list (list val) :=
  match ft with SCALARS => [[vzero]] | VECTORS => [z3] | TENSORS => [z3; z3; z3] end.
(* for sphere in self.spheres: data = vstack((data, default_values(...))) *)
Definition pad_field (n : nat) (f : field) : field :=
  mkField (f_rows f ++ concat (repeat (default_rows (f_ft f)) n)) (f_ft f) (f_dt f).
Definition sphere_field (nall : nat) (radii : list val) : field :=
  mkField (map (fun v => [v]) (repeat vzero nall ++ radii)) SCALARS DOUBLE.

Definition emit_rows (rows : list (list val)) : list tok := map TNum (concat rows).
Definition field_head (nm : Z) (f : field) : list tok :=
  match f_ft f with
  | SCALARS => [TF SCALARS; TName nm; TD (f_dt f); TK KLookup; TK KDefault]
  | ft => [TF ft; TName nm; TD (f_dt f)]
  end.
Definition emit_field (nf : Z * field) : list tok := field_head (fst nf) (snd nf) ++ emit_rows (f_rows (snd nf)).
Definition emit_fields (d : fields) : list tok := flat_map emit_field d.

Definition header : list tok := [TK KMagic; TK KTitle; TK KAscii; TK KDataset; TK KUGrid].
Definition emit_pt (p : val * val) : list tok := [TNum (fst p); TNum (snd p); TNum vzero].
Definition emit_sph (s : val * val * val) : list tok := [TNum (fst (fst s)); TNum (snd (fst s)); TNum vzero].
Definition emit_points (w : writer) : list tok :=
  [TK KPoints; tnat (length (w_points w) + length (w_spheres w)); TD DOUBLE]
  ++ flat_map emit_pt (w_points w) ++ flat_map emit_sph (w_spheres w).
Definition emit_edge (e : nat * nat) : list tok := [tnat 2; tnat (fst e); tnat (snd e)].
Definition emit_cells (w : writer) : list tok :=
  let nel := length (w_cells w) in let ned := length (w_edges w) in
  [TK KCells; tnat (nel + ned); tnat (nel * w_k w + nel + ned * 3)]
  ++ flat_map (fun c => tnat (w_k w) :: map tnat c) (w_cells w) ++ flat_map emit_edge (w_edges w).
Definition emit_types (w : writer) : list tok :=
  let nel := length (w_cells w) in let ned := length (w_edges w) in
  [TK KCellTypes; tnat (nel + ned)] ++ repeat (tnat (w_ctype w)) nel ++ repeat (tnat 3) ned.

Definition is_nil {A} (l : list A) : bool := match l with [] => true | _ => false end.

(* _write_nodal_fields: nodalFields = dict(self.nodalFields) is padded (one default row per sphere) and, with spheres,
   gets the key 'sphere_radius' (zeros for the output nodes, then the radii); self.nodalFields is not touched *)
Definition written_nodal (w : writer) : fields :=
  let nsph := length (w_spheres w) in
  let nodal1 := map (fun nf => (fst nf, pad_field nsph (snd nf))) (w_nodal w) in
  if is_nil (w_spheres w) then nodal1
  else dict_set nodal1 sr_name (sphere_field (length (w_points w)) (map snd (w_spheres w))).
Definition emit_pointdata (w : writer) : list tok :=
  if is_nil (w_nodal w) && is_nil (w_spheres w) then []
  else [TK KPointData; tnat (length (w_points w) + length (w_spheres w))] ++ emit_fields (written_nodal w).
(* _write_cell_fields: cellFields = dict(self.cellFields) padded with one default row per contact edge *)
Definition written_cell (w : writer) : fields :=
  map (fun nf => (fst nf, pad_field (length (w_edges w)) (snd nf))) (w_cell w).
Definition emit_celldata (w : writer) : list tok :=
  if is_nil (w_cell w) then []
  else [TK KCellData; tnat (length (w_cells w) + length (w_edges w))] ++ emit_fields (written_cell w).

Definition write (w : writer) : list tok * writer :=
  (header ++ emit_points w ++ emit_cells w ++ emit_types w ++ emit_pointdata w ++ emit_celldata w, w).

Fixpoint writes (n : nat) (w : writer) : list (list tok) :=
  match n with O => [] | S m => fst (write w) :: writes m (snd (write w)) end.

(* ---------------------------------------------------------------- an independent reader for the legacy-VTK subset *)
Record array := mkArr { a_name : Z; a_ft : ftype; a_dt : dtype; a_vals : list val }.
Record dataset := mkDS {
  d_pts : list (val * val * val);
  d_cells : list (list nat);
  d_size : nat;                              (* the size field of the CELLS line *)
  d_types : list nat;
  d_pd : option (nat * list array);          (* POINT_DATA n and its arrays *)
  d_cd : option (nat * list array) }.        (* CELL_DATA n and its arrays *)

Definition as_nat (t : tok) : option nat :=
  match t with
  | TNum (z, d) => if Pos.eqb d 1 && Z.leb 0 z then Some (Z.to_nat z) else None
  | _ => None
  end.
Fixpoint take_nums (n : nat) (ts : list tok) : option (list val * list tok) :=
  match n with
  | O => Some ([], ts)
  | S m => match ts with
           | TNum v :: r => '(vs, r') <- take_nums m r; Some (v :: vs, r')
           | _ => None
           end
  end.
Fixpoint take_nats (n : nat) (ts : list tok) : option (list nat * list tok) :=
  match n with
  | O => Some ([], ts)
  | S m => match ts with
           | t :: r => i <- as_nat t; '(is, r') <- take_nats m r; Some (i :: is, r')
           | [] => None
           end
  end.
Fixpoint take_pts (n : nat) (ts : list tok) : option (list (val * val * val) * list tok) :=
  match n with
  | O => Some ([], ts)
  | S m => match ts with
           | TNum x :: TNum y :: TNum z :: r => '(ps, r') <- take_pts m r; Some ((x, y, z) :: ps, r')
           | _ => None
           end
  end.
Fixpoint take_cells (n : nat) (ts : list tok) : option (list (list nat) * list tok) :=
  match n with
  | O => Some ([], ts)
  | S m => match ts with
           | t :: r => k <- as_nat t; '(ids, r') <- take_nats k r; '(cs, r'') <- take_cells m r'; Some (ids :: cs, r'')
           | [] => None
           end
  end.
Definition ncomp (ft : ftype) : nat := match ft with SCALARS => 1 | VECTORS => 3 | TENSORS => 9 end.
(* arrays of one POINT_DATA / CELL_DATA section: each must carry exactly n records *)
Fixpoint parse_arrays (fuel n : nat) (ts : list tok) : option (list array * list tok) :=
  match fuel with
  | O => None
  | S fuel' =>
    match ts with
    | TF ft :: TName nm :: TD dt :: r =>
        r1 <- match ft, r with
              | SCALARS, TK KLookup :: TK KDefault :: r1 => Some r1
              | SCALARS, _ => None
              | _, _ => Some r
              end;
        '(vs, r2) <- take_nums (n * ncomp ft) r1;
        '(arrs, r3) <- parse_arrays fuel' n r2;
        Some (mkArr nm ft dt vs :: arrs, r3)
    | TF _ :: _ => None
    | _ => Some ([], ts)
    end
  end.
Definition kw_eqb (a b : kw) : bool :=
  match a, b with
  | KMagic, KMagic | KTitle, KTitle | KAscii, KAscii | KDataset, KDataset | KUGrid, KUGrid | KPoints, KPoints
  | KCells, KCells | KCellTypes, KCellTypes | KPointData, KPointData | KCellData, KCellData | KLookup, KLookup
  | KDefault, KDefault => true
  | _, _ => false
  end.
Definition p_points (ts : list tok) : option (list (val * val * val) * list tok) :=
  match ts with
  | TK KPoints :: tn :: TD _ :: r => np <- as_nat tn; take_pts np r
  | _ => None
  end.
Definition p_cells (ts : list tok) : option ((nat * list (list nat)) * list tok) :=
  match ts with
  | TK KCells :: tc :: tsz :: r => nc <- as_nat tc; sz <- as_nat tsz; '(cs, r') <- take_cells nc r; Some ((sz, cs), r')
  | _ => None
  end.
Definition p_types (ts : list tok) : option (list nat * list tok) :=
  match ts with
  | TK KCellTypes :: tn :: r => nt <- as_nat tn; take_nats nt r
  | _ => None
  end.
Definition p_data (kwd : kw) (ts : list tok) : option (option (nat * list array) * list tok) :=
  match ts with
  | TK k :: t :: r =>
      if kw_eqb k kwd then n <- as_nat t; '(arrs, r') <- parse_arrays (S (length r)) n r; Some (Some (n, arrs), r')
      else Some (None, ts)
  | _ => Some (None, ts)
  end.
Definition parse (ts : list tok) : option dataset :=
  match ts with
  | TK KMagic :: TK KTitle :: TK KAscii :: TK KDataset :: TK KUGrid :: r0 =>
      '(pts, r1) <- p_points r0;
      '(szcells, r2) <- p_cells r1;
      '(types, r3) <- p_types r2;
      '(pd, r4) <- p_data KPointData r3;
      '(cd, r5) <- p_data KCellData r4;
      match r5 with
      | [] => Some (mkDS pts (snd szcells) (fst szcells) types pd cd)
      | _ => None
      end
  | _ => None
  end.

(* cross-section consistency of a parsed dataset: the clauses of the property *)
Definition arr_ok (n : nat) (a : array) : bool := length (a_vals a) =? n * ncomp (a_ft a).
Definition data_ok (n : nat) (d : option (nat * list array)) : bool :=
  match d with None => true | Some (m, arrs) => (m =? n) && forallb (arr_ok m) arrs end.
Definition c_size (d : dataset) : bool := d_size d =? list_sum (map (fun c => S (length c)) (d_cells d)).
Definition c_types (d : dataset) : bool := length (d_types d) =? length (d_cells d).
Definition c_range (d : dataset) : bool := forallb (forallb (fun i => i <? length (d_pts d))) (d_cells d).
Definition c_pd (d : dataset) : bool := data_ok (length (d_pts d)) (d_pd d).
Definition c_cd (d : dataset) : bool := data_ok (length (d_cells d)) (d_cd d).
Definition check (d : dataset) : bool := c_size d && c_types d && c_range d && c_pd d && c_cd d.

(* ---------------------------------------------------------------- the dataset the user supplied (specification) *)
Definition to_array (nf : Z * field) : array :=
  mkArr (fst nf) (f_ft (snd nf)) (f_dt (snd nf)) (concat (f_rows (snd nf))).
Definition abs_pts (w : writer) : list (val * val * val) :=
  map (fun p => (fst p, snd p, vzero)) (w_points w) ++ map (fun s => (fst (fst s), snd (fst s), vzero)) (w_spheres w).
Definition abs_cells (w : writer) : list (list nat) := w_cells w ++ map (fun e => [fst e; snd e]) (w_edges w).
Definition abs_types (w : writer) : list nat := repeat (w_ctype w) (length (w_cells w)) ++ repeat 3 (length (w_edges w)).
(* every written point carries one record: user fields padded with zeros for the sphere points, and, when there are
   spheres, the marker radius (zero on mesh points) stored under the reserved key 'sphere_radius' *)
Definition abs_pd (w : writer) : option (nat * list array) :=
  if is_nil (w_nodal w) && is_nil (w_spheres w) then None else
  let nsph := length (w_spheres w) in
  let user := map (fun nf => (fst nf, pad_field nsph (snd nf))) (w_nodal w) in
  Some (length (w_points w) + nsph,
        map to_array (if is_nil (w_spheres w) then user
                      else dict_set user sr_name (sphere_field (length (w_points w)) (map snd (w_spheres w))))).
(* every written cell (mesh elements and contact-edge cells) carries one record: zeros on the edge cells *)
Definition abs_cd (w : writer) : option (nat * list array) :=
  if is_nil (w_cell w) then None else
  Some (length (w_cells w) + length (w_edges w),
        map (fun nf => to_array (fst nf, pad_field (length (w_edges w)) (snd nf))) (w_cell w)).
Definition abstract (w : writer) : dataset :=
  mkDS (abs_pts w) (abs_cells w)
       (list_sum (map (fun c => S (length c)) (abs_cells w))) (abs_types w) (abs_pd w) (abs_cd w).

(* ---------------------------------------------------------------- exchange with the harness: everything is list Z *)
Definition kw_code (k : kw) : Z :=
  match k with KMagic => 0 | KTitle => 1 | KAscii => 2 | KDataset => 3 | KUGrid => 4 | KPoints => 5 | KCells => 6
             | KCellTypes => 7 | KPointData => 8 | KCellData => 9 | KLookup => 10 | KDefault => 11 end%Z.
Definition ft_code (f : ftype) : Z := match f with SCALARS => 0 | VECTORS => 1 | TENSORS => 2 end%Z.
Definition dt_code (d : dtype) : Z :=
  match d with BIT => 0 | UCHAR => 1 | CHAR => 2 | USHORT => 3 | SHORT => 4 | UINT => 5 | INT => 6 | ULONG => 7
             | LONG => 8 | FLOAT => 9 | DOUBLE => 10 end%Z.
Definition enc_tok (t : tok) : list Z :=
  match t with
  | TK k => [0; kw_code k] | TF f => [1; ft_code f] | TD d => [2; dt_code d] | TName n => [3; n]
  | TNum (a, b) => [4; a; Zpos b]
  end%Z.
Definition enc_toks (ts : list tok) : list Z := flat_map enc_tok ts.
Definition bz (b : bool) : Z := if b then 1%Z else 0%Z.
Definition zn (n : nat) : Z := Z.of_nat n.
Definition enc_val (v : val) : list Z := [fst v; Zpos (snd v)].
Definition enc_arr (a : array) : list Z :=
  [a_name a; ft_code (a_ft a); dt_code (a_dt a); zn (length (a_vals a))] ++ flat_map enc_val (a_vals a).
Definition enc_data (d : option (nat * list array)) : list Z :=
  match d with None => [(-1)%Z] | Some (n, arrs) => [zn n; zn (length arrs)] ++ flat_map enc_arr arrs end.
Definition enc_ds (d : dataset) : list Z :=
  [zn (length (d_pts d))] ++ flat_map (fun p => enc_val (fst (fst p)) ++ enc_val (snd (fst p)) ++ enc_val (snd p)) (d_pts d)
  ++ [zn (length (d_cells d))] ++ flat_map (fun c => zn (length c) :: map zn c) (d_cells d)
  ++ [zn (d_size d); zn (length (d_types d))] ++ map zn (d_types d) ++ enc_data (d_pd d) ++ enc_data (d_cd d).
(* staged diagnosis of a token stream: how far the reader gets, and which consistency clauses hold *)
Definition stage (ts : list tok) : Z :=
  match ts with
  | TK KMagic :: TK KTitle :: TK KAscii :: TK KDataset :: TK KUGrid :: r0 =>
    match p_points r0 with None => 1 | Some (_, r1) =>
    match p_cells r1 with None => 2 | Some (_, r2) =>
    match p_types r2 with None => 3 | Some (_, r3) =>
    match p_data KPointData r3 with None => 4 | Some (_, r4) =>
    match p_data KCellData r4 with None => 5 | Some (_, r5) =>
    match r5 with [] => 7 | _ => 6 end end end end end end
  | _ => 0
  end%Z.
Definition diag (ts : list tok) : list Z :=
  stage ts :: match parse ts with
              | None => []
              | Some d => [bz (c_size d); bz (c_types d); bz (c_range d); bz (c_pd d); bz (c_cd d)]
              end.

(* ---------------------------------------------------------------- state invariants used in the theorem statements *)
Definition width (ft : ftype) : nat := match ft with SCALARS => 1 | _ => 3 end.      (* columns of the stored 2-D array *)
Definition rpe (ft : ftype) : nat := match ft with TENSORS => 3 | _ => 1 end.        (* rows per entity *)
(* a stored field has one record (rpe rows of width columns) for each of n entities *)
Definition field_ok (n : nat) (f : field) : Prop :=
  length (f_rows f) = n * rpe (f_ft f) /\ Forall (fun r => length r = width (f_ft f)) (f_rows f).
Definition dict_ok (n : nat) (d : fields) : Prop := NoDup (map fst d) /\ Forall (fun nf => field_ok n (snd nf)) d.
Definition wf_writer (w : writer) : Prop :=
  length (w_outnodes w) = length (w_points w)
  /\ Forall (fun c => length c = w_k w) (w_cells w)
  /\ dict_ok (length (w_points w)) (w_nodal w) /\ dict_ok (length (w_cells w)) (w_cell w).
(* element and contact-edge connectivity refers to written points *)
Definition in_range (w : writer) : Prop :=
  Forall (Forall (fun i => i < length (w_points w) + length (w_spheres w))) (abs_cells w).
(* meaning of [data_ok]: the declared count is n and every array has exactly one record per entity *)
Definition data_spec (n : nat) (d : option (nat * list array)) : Prop :=
  forall m arrs, d = Some (m, arrs) -> m = n /\ forall a, In a arrs -> length (a_vals a) = n * ncomp (a_ft a).

(* ---------------------------------------------------------------- scenario interpreter used by the harness *)
Inductive op :=
  | OpNodal (nm : Z) (data : list (list val)) (ft : ftype) (dt : dtype)
  | OpCell (nm : Z) (data : list (list val)) (ft : ftype) (dt : dtype)
  | OpSphere (x y r : val) | OpEdges (es : list (nat * nat)) | OpWrite.
Definition seg (l : list Z) : list Z := zn (length l) :: l.
(* per write(): the tokens written and the dataset that was supplied (state before the write); -1 = exception *)
Fixpoint run (w : writer) (ops : list op) : list Z :=
  match ops with
  | [] => []
  | OpWrite :: r => seg (enc_toks (fst (write w))) ++ seg (enc_ds (abstract w)) ++ run (snd (write w)) r
  | OpNodal nm data ft dt :: r =>
      match add_nodal_field w nm data ft dt with Some w' => run w' r | None => [(-1)%Z] end
  | OpCell nm data ft dt :: r =>
      match add_cell_field w nm data ft dt with Some w' => run w' r | None => [(-1)%Z] end
  | OpSphere x y r0 :: r => run (add_sphere w x y r0) r
  | OpEdges es :: r => run (add_contact_edges w es) r
  end.
Definition run_scenario (m : mesh) (ops : list op) : list Z :=
  match init m with Some w => run w ops | None => [(-1)%Z] end.
(* the independent reader on an arbitrary token stream *)
Definition read_file (ts : list tok) : list Z :=
  seg (diag ts) ++ match parse ts with Some d => seg (enc_ds d) | None => [(-1)%Z] end.
(* literal helpers (the harness file is in Z_scope) *)
Definition v (a b : Z) : val := (a, Z.to_pos b).
Definition nl (l : list Z) : list nat := map Z.to_nat l.
Definition npairs (l : list (Z * Z)) : list (nat * nat) := map (fun p => (Z.to_nat (fst p), Z.to_nat (snd p))) l.
Definition mesh_of (coords : list (val * val)) (conns : list (list Z)) (deg : Z) (vn sn : list Z) : mesh :=
  mkMesh coords (map nl conns) (Z.to_nat deg) (nl vn) (nl sn).
