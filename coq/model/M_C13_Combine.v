(* C13 -- optimism/Mesh.py combine_mesh / combine_blocks / combine_nodesets / combine_sidesets.
   Python dicts are insertion-ordered association lists (names are ids).  Follows the repaired code (fix 157ff14):
   entries with equal names are concatenated. *)
From Coq Require Import List Arith ZArith Bool.
Import ListNotations.

Definition dict (V : Type) := list (Z * V).
Fixpoint dset {V} (d : dict V) (k : Z) (v : V) : dict V :=
  match d with
  | [] => [(k, v)]
  | (k', v') :: r => if Z.eqb k k' then (k, v) :: r else (k', v') :: dset r k v
  end.
Fixpoint dget {V} (d : dict V) (k : Z) : option V :=
  match d with [] => None | (k', v) :: r => if Z.eqb k k' then Some v else dget r k end.

(* newSet[key] = f(newSet[key]) if key in newSet else f0 -- in place, keeping the key's position *)
Fixpoint dupd {V} (d : dict V) (k : Z) (upd : V -> V) (fresh : V) : dict V :=
  match d with
  | [] => [(k, fresh)]
  | (k', v') :: r => if Z.eqb k k' then (k, upd v') :: r else (k', v') :: dupd r k upd fresh
  end.

(* repaired code (157ff14):
     newSet = {}; for key in set1: newSet[key] = set1[key]
     for key in set2: val = g(set2[key]); newSet[key] = mrg(newSet[key], val) if key in newSet else val *)
Definition combine_dicts {A} (mrg : list A -> list A -> list A) (g : list A -> list A) (s1 s2 : dict (list A)) : dict (list A) :=
  fold_left (fun d kv => dupd d (fst kv) (fun old => mrg old (g (snd kv))) (g (snd kv))) s2
            (fold_left (fun d kv => dset d (fst kv) (snd kv)) s1 []).

Definition shift (off : nat) (l : list nat) : list nat := map (Nat.add off) l.
Definition shift_sides (off : nat) (l : list (nat * nat)) : list (nat * nat) := map (fun es => (off + fst es, snd es)) l.
(* blocks, node sets: np.concatenate((newSet[key], val)) *)
Definition merge_cat {A} (old val : list A) : list A := old ++ val.
(* side sets: if len(old)>0 and len(val)>0: concatenate; elif len(val)>0: val; else: keep old *)
Definition merge_sides {A} (old val : list A) : list A :=
  match old, val with
  | _ :: _, _ :: _ => old ++ val
  | _, _ :: _ => val
  | _, [] => old
  end.
Definition combine_blocks (s1 s2 : dict (list nat)) (elemOffset : nat) := combine_dicts merge_cat (shift elemOffset) s1 s2.
Definition combine_nodesets (s1 s2 : option (dict (list nat))) (nodeOffset : nat) : option (dict (list nat)) :=
  match s1, s2 with
  | None, None => None
  | _, _ => Some (combine_dicts merge_cat (shift nodeOffset) (match s1 with Some d => d | None => [] end)
                                (match s2 with Some d => d | None => [] end))
  end.
Definition combine_sidesets (s1 s2 : option (dict (list (nat * nat)))) (elemOffset : nat) :=
  match s1, s2 with
  | None, None => None
  | _, _ => Some (combine_dicts merge_sides (shift_sides elemOffset) (match s1 with Some d => d | None => [] end)
                                (match s2 with Some d => d | None => [] end))
  end.

Record cmesh (T : Type) := mkCMesh {
  cm_coords : list (T * T); cm_conns : list (list nat); cm_blocks : dict (list nat);
  cm_nodesets : option (dict (list nat)); cm_sidesets : option (dict (list (nat * nat))) }.
Arguments mkCMesh {T}. Arguments cm_coords {T}. Arguments cm_conns {T}. Arguments cm_blocks {T}.
Arguments cm_nodesets {T}. Arguments cm_sidesets {T}.

Definition combine_mesh {T} (m1 m2 : cmesh T) : cmesh T :=
  let n1 := length (cm_coords m1) in
  let e1 := length (cm_conns m1) in
  mkCMesh (cm_coords m1 ++ cm_coords m2)
          (cm_conns m1 ++ map (shift n1) (cm_conns m2))
          (combine_blocks (cm_blocks m1) (cm_blocks m2) e1)
          (combine_nodesets (cm_nodesets m1) (cm_nodesets m2) n1)
          (combine_sidesets (cm_sidesets m1) (cm_sidesets m2) e1).

(* total number of set members *)
Definition members {A} (d : dict (list A)) : nat := list_sum (map (fun kv => length (snd kv)) d).

(* exchange with the harness *)
Definition zl (l : list nat) : list Z := map Z.of_nat l.
Definition enc_dict (d : dict (list nat)) : list Z :=
  Z.of_nat (length d) :: flat_map (fun kv => fst kv :: Z.of_nat (length (snd kv)) :: zl (snd kv)) d.
Definition enc_sdict (d : dict (list (nat * nat))) : list Z :=
  Z.of_nat (length d) :: flat_map (fun kv => fst kv :: Z.of_nat (length (snd kv))
                                              :: flat_map (fun es => [Z.of_nat (fst es); Z.of_nat (snd es)]) (snd kv)) d.
Definition enc_odict (d : option (dict (list nat))) := match d with None => [(-1)%Z] | Some d => enc_dict d end.
Definition enc_osdict (d : option (dict (list (nat * nat)))) := match d with None => [(-1)%Z] | Some d => enc_sdict d end.
Definition enc_cmesh (m : cmesh unit) : list Z :=
  [Z.of_nat (length (cm_coords m)); Z.of_nat (length (cm_conns m))] ++ flat_map zl (cm_conns m)
  ++ enc_dict (cm_blocks m) ++ enc_odict (cm_nodesets m) ++ enc_osdict (cm_sidesets m).
Definition nl (l : list Z) : list nat := map Z.to_nat l.
Definition mk_dict (d : list (Z * list Z)) : dict (list nat) := map (fun kv => (fst kv, nl (snd kv))) d.
Definition mk_sdict (d : list (Z * list (Z * Z))) : dict (list (nat * nat)) :=
  map (fun kv => (fst kv, map (fun es => (Z.to_nat (fst es), Z.to_nat (snd es))) (snd kv))) d.
Definition mk_cmesh (nnodes : Z) (conns : list (list Z)) (blocks : list (Z * list Z))
                    (ns : option (list (Z * list Z))) (ss : option (list (Z * list (Z * Z)))) : cmesh unit :=
  mkCMesh (repeat (tt, tt) (Z.to_nat nnodes)) (map nl conns) (mk_dict blocks) (option_map mk_dict ns) (option_map mk_sdict ss).
