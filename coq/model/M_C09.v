(* C09: executable scalar reduction of the J2 radial-return update (optimism/material/J2Plastic.py: compute_state_increment /
   update_state), no proofs here.  Given the trial Mises stress s = 2 mu dev(E):N, the old equivalent plastic strain eo and
   the flow stress Y(e) = d(hardening)/d(eqps), the update solves
       r(e) = -s + 3 mu (e - eo) + Y(e) = 0        (= d(incremental potential)/d(eqps), proved in L_C09)
   on the bracket [eo, eo + (s - Y(eo))/(3 mu)] with the root finder of C17 (model M_C17.rtsafe, whose loop is regenerated
   from ScalarRootFind.py), settings x_tol = 0, r_tol = _TOLERANCE * Y0, 50 iterations; guess = bracket midpoint.
   The hardening ENERGIES are the kernels regenerated from Hardening.py; the flow stresses / slopes (what jax.grad delivers)
   are written out here and proved to be their derivatives in L_C09. *)
From Coq Require Import ZArith QArith Bool List.
From OV.base Require Import Num.
From OV.gen Require Import Gen_ScalarRootFind Gen_Hardening Gen_TensorMath Gen_J2Flow.
From OV.model Require Import M_C17.
Import ListNotations.

Section M.
  Context {T : Type} {NT : Num T}.

  Inductive law := Linear (Y0 H : T) | Voce (Y0 Ysat eps0 : T) | PowerLaw (Y0 n eps0 : T).
  Inductive rate := NoRate | Rate (Sr m epsDot0 : T).

  Definition three : T := nconst (3 # 1) (3%Z, 0%Z).

  Definition law_Y0 (l : law) : T := match l with Linear Y0 _ => Y0 | Voce Y0 _ _ => Y0 | PowerLaw Y0 _ _ => Y0 end.

  (* energies: regenerated kernels *)
  Definition h_energy (l : law) (e : T) : T :=
    match l with
    | Linear Y0 H => linear e Y0 H
    | Voce Y0 Ysat eps0 => voce e Y0 Ysat eps0
    | PowerLaw Y0 n eps0 => power_law e Y0 n eps0
    end.
  Definition k_energy (r : rate) (e eo dt : T) : T :=
    match r with NoRate => nzero | Rate Sr m ed0 => power_law_rate_sensitivity e eo dt Sr m ed0 end.

  (* flow stress and its slope *)
  Definition h_flow (l : law) (e : T) : T :=
    match l with
    | Linear Y0 H => nadd Y0 (nmul H e)
    | Voce Y0 Ysat eps0 => nsub Ysat (nmul (nsub Ysat Y0) (nexp (ndiv (nopp e) eps0)))
    | PowerLaw Y0 n eps0 => nmul Y0 (npowr (nadd nunit (ndiv e eps0)) (ndiv nunit n))
    end.
  Definition h_slope (l : law) (e : T) : T :=
    match l with
    | Linear Y0 H => H
    | Voce Y0 Ysat eps0 => nmul (ndiv (nsub Ysat Y0) eps0) (nexp (ndiv (nopp e) eps0))
    | PowerLaw Y0 n eps0 => nmul (ndiv Y0 (nmul n eps0)) (npowr (nadd nunit (ndiv e eps0)) (nsub (ndiv nunit n) nunit))
    end.
  Definition k_flow (r : rate) (e eo dt : T) : T :=
    match r with NoRate => nzero | Rate Sr m ed0 => nmul Sr (npowr (ndiv (ndiv (nsub e eo) dt) ed0) (ndiv nunit m)) end.
  Definition k_slope (r : rate) (e eo dt : T) : T :=
    match r with
    | NoRate => nzero
    | Rate Sr m ed0 => nmul (ndiv Sr (nmul (nmul m dt) ed0)) (npowr (ndiv (ndiv (nsub e eo) dt) ed0) (nsub (ndiv nunit m) nunit))
    end.

  (* ---- the update for an arbitrary flow-stress function Yf (slope dYf), then the concrete laws ---- *)
  Definition resid (Yf : T -> T) (mu s eo : T) (e : T) : T :=
    nadd (nadd (nopp s) (nmul (nmul three mu) (nsub e eo))) (Yf e).
  Definition dresid (dYf : T -> T) (mu : T) (e : T) : T := nadd (nmul three mu) (dYf e).

  Definition is_yielding (Yf : T -> T) (tol s eo : T) : bool := nltb tol (nsub s (Yf eo)).

  (* Delta eqps; None = NaN (root finder did not converge) *)
  Definition delta_eqps_gen (Yf dYf : T -> T) (mu tol s eo : T) : option T :=
    if is_yielding Yf tol s eo then
      let lb := eo in
      let ub := nadd eo (ndiv (nsub s (Yf eo)) (nmul three mu)) in
      let guess := nmul nhalf (nadd lb ub) in
      match rtsafe (resid Yf mu s eo) (dresid dYf mu) guess lb ub 50 nzero tol with
      | Res (Some v) _ _ _ _ _ => Some (nsub v eo)
      | _ => None
      end
    else Some nzero.

  Definition tolY (l : law) : T := nmul c__TOLERANCE (law_Y0 l).

  Definition delta_eqps (l : law) (r : rate) (mu s eo dt : T) : option T :=
    delta_eqps_gen (fun e => nadd (h_flow l e) (k_flow r e eo dt)) (fun e => nadd (h_slope l e) (k_slope r e eo dt)) mu (tolY l) s eo.

  (* a history in the scalar reduction: each step supplies the trial stress as an arbitrary function of the current eqps
     (in the tensor model it depends on the whole state); eqps is threaded; None once a NaN occurs *)
  Fixpoint history_gen (Yf dYf : T -> T) (mu tol : T) (steps : list (T -> T)) (eo : T) : option (list T) :=
    match steps with
    | [] => Some []
    | s :: rest =>
        match delta_eqps_gen Yf dYf mu tol (s eo) eo with
        | None => None
        | Some d => match history_gen Yf dYf mu tol rest (nadd eo d) with None => None | Some l => Some (nadd eo d :: l) end
        end
    end.

  (* incremental potential in the scalar reduction (up to the constant mu |dev E|^2) *)
  Definition potential (Hf : T -> T) (mu s eo : T) (e : T) : T :=
    nadd (nadd (nopp (nmul (nsub e eo) s)) (nmul (nmul (ndiv three ntwo) mu) (nmul (nsub e eo) (nsub e eo)))) (Hf e).

  (* 3x3 helpers on flat 9-tuples *)
  Definition m9 : Type := (T * T * T * T * T * T * T * T * T)%type.
  Definition ddot (a b : m9) : T :=
    let '(a0, a1, a2, a3, a4, a5, a6, a7, a8) := a in let '(b0, b1, b2, b3, b4, b5, b6, b7, b8) := b in
    nadd (nadd (nadd (nadd (nadd (nadd (nadd (nadd (nmul a0 b0) (nmul a1 b1)) (nmul a2 b2)) (nmul a3 b3)) (nmul a4 b4)) (nmul a5 b5)) (nmul a6 b6)) (nmul a7 b7)) (nmul a8 b8).
  Definition tr9 (a : m9) : T := let '(a0, _, _, _, a4, _, _, _, a8) := a in nadd (nadd a0 a4) a8.
  Definition axpy9 (k : T) (a b : m9) : m9 :=      (* b - k a *)
    let '(a0, a1, a2, a3, a4, a5, a6, a7, a8) := a in let '(b0, b1, b2, b3, b4, b5, b6, b7, b8) := b in
    (nsub b0 (nmul k a0), nsub b1 (nmul k a1), nsub b2 (nmul k a2), nsub b3 (nmul k a3), nsub b4 (nmul k a4),
     nsub b5 (nmul k a5), nsub b6 (nmul k a6), nsub b7 (nmul k a7), nsub b8 (nmul k a8)).
  Definition flowdir (E : m9) : m9 :=
    let '(a0, a1, a2, a3, a4, a5, a6, a7, a8) := E in compute_flow_direction a0 a1 a2 a3 a4 a5 a6 a7 a8.
  Definition dev9 (E : m9) : m9 := let '(a0, a1, a2, a3, a4, a5, a6, a7, a8) := E in dev a0 a1 a2 a3 a4 a5 a6 a7 a8.
  Definition det9 (E : m9) : T := let '(a0, a1, a2, a3, a4, a5, a6, a7, a8) := E in t_det a0 a1 a2 a3 a4 a5 a6 a7 a8.
  Definition mul9 (a b : m9) : m9 :=
    let '(a0, a1, a2, a3, a4, a5, a6, a7, a8) := a in let '(b0, b1, b2, b3, b4, b5, b6, b7, b8) := b in
    (nadd (nadd (nmul a0 b0) (nmul a1 b3)) (nmul a2 b6), nadd (nadd (nmul a0 b1) (nmul a1 b4)) (nmul a2 b7), nadd (nadd (nmul a0 b2) (nmul a1 b5)) (nmul a2 b8),
     nadd (nadd (nmul a3 b0) (nmul a4 b3)) (nmul a5 b6), nadd (nadd (nmul a3 b1) (nmul a4 b4)) (nmul a5 b7), nadd (nadd (nmul a3 b2) (nmul a4 b5)) (nmul a5 b8),
     nadd (nadd (nmul a6 b0) (nmul a7 b3)) (nmul a8 b6), nadd (nadd (nmul a6 b1) (nmul a7 b4)) (nmul a8 b7), nadd (nadd (nmul a6 b2) (nmul a7 b5)) (nmul a8 b8)).
  Definition trial_mises (mu : T) (E : m9) : T := nmul (nmul ntwo mu) (ddot (dev9 E) (flowdir E)).
End M.

(* encoding for the harness *)
Definition enc_delta (d : option PrimFloat.float) : list Z :=
  match d with Some v => 1%Z :: fenc v | None => [0%Z] end.
Definition enc_m9 (a : @m9 PrimFloat.float) : list Z :=
  let '(a0, a1, a2, a3, a4, a5, a6, a7, a8) := a in fencs [a0; a1; a2; a3; a4; a5; a6; a7; a8].
