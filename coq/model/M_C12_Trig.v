(* C12 (round 3): names for the outputs of the generated first stage of eigen_sym33_non_unit (definitions only).
   `eig_trig_stage` is the prefix of that routine's body up to the assignment of eval2, regenerated from /repo on every run. *)
From Coq Require Import Reals.
From OV.base Require Import Num.
From OV.gen Require Import Gen_TensorMath Gen_TensorMathFun.
From OV.model Require Import M_C08.
Local Open Scope R_scope.

Notation M := (mat R).

Definition stage (A : M) : R * R * R * R * R * R := ap9 (@eig_trig_stage R NumR) A.
Definition st_c1 (A : M) : R := let '(c1, _, _, _, _, _) := stage A in c1.
Definition st_c2 (A : M) : R := let '(_, c2, _, _, _, _) := stage A in c2.
Definition st_c3 (A : M) : R := let '(_, _, c3, _, _, _) := stage A in c3.
Definition st_rr (A : M) : R := let '(_, _, _, rr, _, _) := stage A in rr.
Definition st_arg (A : M) : R := let '(_, _, _, _, arg, _) := stage A in arg.
Definition st_eval2 (A : M) : R := let '(_, _, _, _, _, e) := stage A in e.
(* deviator of the symmetric part, with the generated helpers of the same file *)
Definition devsym (A : M) : M := of9 (ap9 (@dev R NumR) (of9 (ap9 (@sym R NumR) A))).
Definition charpoly (D : M) (x : R) : R := mdet (msub (mscal x mid) D).
Definition cubic (c2 c3 x : R) : R := x * x * x + c2 * x + c3.
(* example tensor for the non-vacuity statement: diag(2, 3, 7) *)
Definition Aex : M := mk 2 0 0 0 3 0 0 0 7.
