(* C13 -- the isoparametric map of an elevated element and its Jacobian.
   optimism never forms this map: FunctionSpace.py takes the geometry of every element from its three VERTEX nodes only
       compute_element_volumes:  jac = cross(v1 - v0, v2 - v0),   map_element_shape_grads:  J = column_stack((v0 - v2, v1 - v2))
   (v = Xn[parentElement.vertexNodes]).  That is legitimate exactly when the isoparametric map  xi |-> sum_a N_a(xi) x_a  of the
   element's OWN nodes is that affine map.  Here: the map and its Jacobian from shape values / parametric gradients at a point
   (Interpolants.compute_shapes: one row of ShapeFunctions.values / .gradients[:, :, 0] / .gradients[:, :, 1]) and the stored
   coordinates of the element's nodes (em_coord of the ids in row t of the elevated connectivity).  Plus the rational checker
   of the degree-1 reproduction identities of a shape table.  No proofs here. *)
From Coq Require Import List Arith Reals QArith Qabs ZArith.
From OV.base Require Import Num.
From OV.model Require Import M_C13_Edges M_C13_Elevate M_C13_Coords M_C13_ElevMesh.
Import ListNotations.

(* sum_a W[a] * f (k + a) *)
Fixpoint wsumf (k : nat) (W : list R) (f : nat -> R) : R :=
  match W with [] => 0%R | a :: W' => (a * f k + wsumf (S k) W' f)%R end.
Definition lsum (W : list R) : R := wsumf 0 W (fun _ => 1%R).
Fixpoint asum (W : list R) : R := match W with [] => 0%R | a :: W' => (Rabs a + asum W')%R end.

(* stored coordinate (one component) of local node p of element t of the elevated mesh: coords[conns[t][p]] *)
Definition el_coord (X s1d : nat -> R) (ref : nat -> R * R) (pe : pelem) (nV m : nat) (conns : list (list nat)) (t p : nat) : R :=
  @em_coord R NumR X s1d ref pe nV m conns (nth p (nth t (elevated pe nV m conns) []) 0%nat).

(* isoparametric position  sum_a N_a x_a  and Jacobian determinant  d(x,y)/d(xi0,xi1)  from the gradient rows Gx = dN/dxi0, Gy = dN/dxi1 *)
Definition iso_pos (N : list R) (c : nat -> R) : R := wsumf 0 N c.
Definition iso_det (Gx Gy : list R) (cx cy : nat -> R) : R :=
  (wsumf 0 Gx cx * wsumf 0 Gy cy - wsumf 0 Gy cx * wsumf 0 Gx cy)%R.
(* what FunctionSpace uses instead: the constant Jacobian of the simplex, det column_stack((v0 - v2, v1 - v2)) = cross(v1 - v0, v2 - v0) *)
Definition simplex_det (X Y : nat -> R) (conns : list (list nat)) (t : nat) : R :=
  ((X (em_tri conns t 0) - X (em_tri conns t 2)) * (Y (em_tri conns t 1) - Y (em_tri conns t 2))
   - (X (em_tri conns t 1) - X (em_tri conns t 2)) * (Y (em_tri conns t 0) - Y (em_tri conns t 2)))%R.

(* ---- certificate over Q: one record per evaluation point: (xi, (N, (Gx, Gy))) *)
Fixpoint qwsumf (k : nat) (W : list Q) (f : nat -> Q) : Q :=
  match W with [] => 0%Q | a :: W' => (a * f k + qwsumf (S k) W' f)%Q end.
Fixpoint qasum (W : list Q) : Q := match W with [] => 0%Q | a :: W' => (Qabs a + qasum W')%Q end.
Definition qclose (x y tol : Q) : bool := Qle_bool (Qabs (x - y)) tol.
Definition qrec := ((Q * Q) * (list Q * (list Q * list Q)))%type.
Definition repro_rec_okb (refq : list (Q * Q)) (tol lam : Q) (rc : qrec) : bool :=
  let xi := fst rc in let N := fst (snd rc) in let Gx := fst (snd (snd rc)) in let Gy := snd (snd (snd rc)) in
  let one := fun _ : nat => 1%Q in let r0 := fun p => fst (qnth refq p) in let r1 := fun p => snd (qnth refq p) in
  (length N =? length refq)%nat && (length Gx =? length refq)%nat && (length Gy =? length refq)%nat
  && qclose (qwsumf 0 N one) 1 tol && qclose (qwsumf 0 N r0) (fst xi) tol && qclose (qwsumf 0 N r1) (snd xi) tol
  && qclose (qwsumf 0 Gx one) 0 tol && qclose (qwsumf 0 Gx r0) 1 tol && qclose (qwsumf 0 Gx r1) 0 tol
  && qclose (qwsumf 0 Gy one) 0 tol && qclose (qwsumf 0 Gy r0) 0 tol && qclose (qwsumf 0 Gy r1) 1 tol
  && Qle_bool (qasum Gx) lam && Qle_bool (qasum Gy) lam.
Definition repro_cert_okb (refq : list (Q * Q)) (qrecs : list qrec) (tol lam : Q) : bool :=
  forallb (repro_rec_okb refq tol lam) qrecs && Qle_bool 0 tol.
(* ONE certificate for the Jacobian theorem: the tables of the closed elevated-mesh theorem (elev_cert_okb) and the shape table *)
Definition jac_cert_okb (pe : pelem) (m : nat) (refq : list (Q * Q)) (faces : list (list nat)) (nodes : list Q) (in1d : list nat)
                        (qrecs : list qrec) (tol tols lam : Q) : bool :=
  elev_cert_okb pe m refq faces nodes in1d tol && repro_cert_okb refq qrecs tols lam && (length refq =? pe_n pe)%nat.
Definition jac_cert (pe : pelem) (m : Z) (refq : list (Q * Q)) (faces : list (list Z)) (nodes : list Q) (in1d : list Z)
                    (qrecs : list qrec) (tol tols lam : Q) : list Z :=
  [if jac_cert_okb pe (Z.to_nat m) refq (map (map Z.to_nat) faces) nodes (map Z.to_nat in1d) qrecs tol tols lam then 1%Z else 0%Z].
