(* C19 / C07: tiny control-flow IR for the load-step drivers, its path semantics and the executable order checker.
   The IR VALUES are regenerated from /repo's AST on every run (gen/CFG_drivers.v); this file only fixes the vocabulary.
   Also: the slot table of Objective.param_index_update (regenerated) and its interpreter.  No proofs here. *)
From Coq Require Import List Bool Arith String.
Import ListNotations.

Inductive flagsrc := FlagSolver | FlagNone | FlagOther.

Inductive tag :=
| WarmStart                       (* WarmStart.warm_start_increment(objective, x, p) is evaluated *)
| AssignPNew                      (* objective.p = p   (the driver's parameter argument) *)
| AssignPOther                    (* any other store to an attribute named p *)
| UpdatePrecond                   (* objective.update_precond(..) *)
| Solve (flag nested_ws : bool)   (* call of the nonlinear solver; binds a success flag?; may the callee warm start again? *)
| SubSolve                        (* AlSolver: solve_sub_step(..) inside the outer loop *)
| ClobberFlag                     (* a name holding the solver's flag is re-bound *)
| Other.                          (* statement that neither stores to .p, nor warm starts, nor calls a solver *)

Inductive stmt :=
| Do (t : tag)
| IfS (c : string) (a b : list stmt)
| Loop (body : list stmt)
| Ret (x_from_solver unscaled : bool) (f : flagsrc)
| Raise
| Break.

(* a path: the tags executed, and how it ended *)
Inductive ending := EndRet (x_from_solver unscaled : bool) (f : flagsrc) | EndRaise | EndFall | EndFuel.
Definition path : Type := (list tag * ending)%type.

(* all paths through a block.  Conditions are treated as independent (a superset of the feasible paths); a loop body runs
   0, 1 or 2 times.  `k` continues an unfinished path with the rest of the enclosing blocks.  Running out of fuel yields a
   path ending in EndFuel, which the checker rejects (never silently drops a path). *)
(* statements that cannot influence the order property: only `Other`, no return / raise, and `break` only inside a loop that is
   itself part of the statement.  They are skipped by the enumerator (keeps the path count of AlSolver's outer loop small). *)
Fixpoint inert (fuel : nat) (inloop : bool) (s : stmt) : bool :=
  match fuel with
  | O => false
  | S f => match s with
           | Do Other => true
           | Do _ => false
           | IfS _ a b => forallb (inert f inloop) a && forallb (inert f inloop) b
           | Loop body => forallb (inert f true) body
           | Break => inloop
           | Ret _ _ _ | Raise => false
           end
  end.

Fixpoint paths_stmts (fuel : nat) (l : list stmt) (k kb : list tag -> list path) (pre : list tag) : list path :=
  match fuel with
  | O => [(pre, EndFuel)]
  | S f =>
      match l with
      | [] => k pre
      | s :: r =>
          let kr := fun pre' => paths_stmts f r k kb pre' in
          if inert 100 false s then kr pre else
          match s with
          | Do t => kr (pre ++ [t])
          | IfS _ a b => paths_stmts f a kr kb pre ++ paths_stmts f b kr kb pre
          | Loop body =>       (* 0, 1 or 2 passes; `break` and the end of the last pass both continue after the loop *)
              kr pre ++ paths_stmts f body kr kr pre ++ paths_stmts f body (fun pre' => paths_stmts f body kr kr pre') kr pre
          | Ret x u fl => [(pre, EndRet x u fl)]
          | Raise => [(pre, EndRaise)]
          | Break => kb pre
          end
      end
  end.

(* a `break` outside any loop is malformed: it ends the path in EndFall, which the checker rejects *)
Definition paths (l : list stmt) : list path :=
  paths_stmts 1000 l (fun pre => [(pre, EndFall)]) (fun pre => [(pre, EndFall)]) [].

(* --- the order property, per path --- *)
Definition is_solve (t : tag) : bool := match t with Solve _ _ | SubSolve => true | _ => false end.
Definition is_assignp (t : tag) : bool := match t with AssignPNew => true | _ => false end.
Definition is_ws (t : tag) : bool := match t with WarmStart => true | _ => false end.
Definition is_bad (t : tag) : bool := match t with AssignPOther | ClobberFlag | Solve _ true => true | _ => false end.

Fixpoint before_first (p : tag -> bool) (l : list tag) : list tag :=
  match l with [] => [] | t :: r => if p t then [] else t :: before_first p r end.
Fixpoint after_first (p : tag -> bool) (l : list tag) : list tag :=
  match l with [] => [] | t :: r => if p t then r else after_first p r end.
Definition count (p : tag -> bool) (l : list tag) : nat := List.length (filter p l).

(* expectations that differ per driver *)
Record expect := { returns_flag : bool; returns_unscaled : bool }.

Definition path_ok (e : expect) (p : path) : bool :=
  let '(ts, en) := p in
  (* objective.p := p_new exactly once, nothing else ever stores to .p, solver flag never re-bound, no nested warm start *)
  Nat.eqb (count is_assignp ts) 1
  && negb (existsb is_bad ts)
  (* every warm start is computed before the assignment (it needs the old parameters) *)
  && negb (existsb is_ws (after_first is_assignp ts))
  (* the assignment happens before the first solver call *)
  && negb (existsb is_solve (before_first is_assignp ts))
  && match en with
     | EndRet x u fl =>
         (* the returned point is the solver's (unscaled where the driver works in scaled variables), the flag is the solver's *)
         x && Bool.eqb u (returns_unscaled e) && existsb is_solve ts
         && (if returns_flag e then match fl with FlagSolver => existsb (fun t => match t with Solve true _ => true | _ => false end) ts | _ => false end
             else match fl with FlagNone => true | _ => false end)
     | EndRaise => true
     | EndFall => false          (* every driver ends with an explicit return or raise *)
     | EndFuel => false
     end.

Definition driver_ok (e : expect) (l : list stmt) : bool :=
  let ps := paths l in negb (Nat.eqb (List.length ps) 0) && forallb (path_ok e) ps.

(* encoding of paths for the harness (dynamic cross-check: observed event orders must be among the IR's paths) *)
Definition tag_code (t : tag) : nat :=
  match t with WarmStart => 1 | AssignPNew => 2 | AssignPOther => 3 | UpdatePrecond => 4 | Solve _ _ => 5 | SubSolve => 6
             | ClobberFlag => 7 | Other => 0 end.

(* --- Objective.param_index_update: slot table regenerated from the source, and its interpreter --- *)
Inductive slot_src := New | Old (j : nat).
Definition piu_table : Type := list (nat * list slot_src).

Section PIU.
  Context {A : Type}.
  Fixpoint find_row (t : piu_table) (i : nat) : option (list slot_src) :=
    match t with [] => None | (k, row) :: r => if Nat.eqb k i then Some row else find_row r i end.
  (* None models the Python fall-through (prints and returns None) *)
  Definition piu_apply (t : piu_table) (p : list A) (i : nat) (v : A) (dflt : A) : option (list A) :=
    match find_row t i with
    | None => None
    | Some row => Some (map (fun s => match s with New => v | Old j => nth j p dflt end) row)
    end.
End PIU.
