(* C18: executable (Num-generic) derivative formulas; at T := R they are proved equal to the C1 derivatives of
   the regenerated kernels (proofs/L_C18x.v), at T := float they are run against jax.grad of the implementation. *)
From Coq Require Import ZArith QArith List.
From OV.base Require Import Num.
Import ListNotations.

Section D.
  Context {T : Type} {NT : Num T}.
  Definition quarter : T := nconst (1 # 4) (1%Z, (-2)%Z).
  Definition d_smin_dx (x y e : T) : T :=
    if nleb x (nsub y e) then nunit
    else if nleb x (nadd y e) then ndiv (nsub y (ndiv (nsub (nadd x y) e) ntwo)) e
    else nzero.
  Definition d_smin_dy (x y e : T) : T := d_smin_dx y x e.
  Definition d_smax_dx (x y e : T) : T := d_smin_dx (nopp x) (nopp y) e.
  Definition d_smax_dy (x y e : T) : T := d_smin_dx (nopp y) (nopp x) e.
  Definition d_sstep (x : T) : T :=
    if nleb x nzero then nzero else if nleb x nunit then nsub (nmul (nZ 6) x) (nmul (nZ 6) (nmul x x)) else nzero.
  Definition d_sabs (x e : T) : T :=
    if nleb x (ndiv (nopp e) ntwo) then nopp nunit
    else if nleb x (ndiv e ntwo) then ndiv (nmul ntwo x) e
    else nunit.
  Definition d_zmax (x e : T) : T :=
    if nleb x (nopp e) then nzero
    else if nleb x e then ndiv (nadd x e) (nmul ntwo e)
    else nunit.
  Definition d_slin (x l : T) : T :=
    if nleb x l then ndiv x l
    else if nleb x (nsub nunit l) then nunit
    else ndiv (nsub nunit x) l.
  (* gradient of the friction energy w.r.t. the slip vector *)
  Definition d_friction (s0 s1 mu sReg : T) : T * T :=
    let q := nadd (nmul s0 s0) (nmul s1 s1) in
    let dq := if nleb q (nmul sReg sReg) then ndiv nunit (nmul ntwo sReg) else ndiv nunit (nmul ntwo (nsqrt q)) in
    (nmul mu (nmul dq (nmul ntwo s0)), nmul mu (nmul dq (nmul ntwo s1))).
End D.
