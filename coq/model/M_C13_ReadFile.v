(* C13 -- the mesh readers as functions of the WHOLE file content (optimism/ReadExodusMesh.py read_exodus_mesh with _read_blocks,
   _read_node_sets, _read_side_sets, _get_vertex_nodes_from_exodus_tri6_mesh; optimism/ReadMesh.py read_json_mesh).
   An Exodus file stores 1-based node / element / side numbers and one record per block / node set / side set, plus a
   record of names; an empty name is replaced by "block_<i+1>" / "nodeset_<i+1>" / "sideset_<i+1>".  The reader
     - stacks the blocks' connectivity (np.vstack) after subtracting 1, block i becoming the element range
       [first_i, first_i + n_i) stored under its name:   blocks[blockNames[i]] = elemRange     (dict assignment),
     - nodeSets = dict(zip(names, [record - 1 ...])),   sideSets = dict(zip(names, [column_stack((elems - 1, sides - 1)) ...])),
     - for 6-node triangles reorders the columns (exodusToNativeTri6NodeOrder) and takes the ids of the first three file
       columns as simplexNodesOrdinals.
   Names are ids (Z; 0 = empty name in the file); Python dicts are association lists in which assigning to an existing key
   replaces its value (dset, model/M_C13_Combine.v).  No proofs here. *)
From Coq Require Import List Arith ZArith Bool.
From OV.model Require Import M_C13_Combine M_C13_Read.
Import ListNotations.

Record exo_file := mkExo {
  ef_nnodes : nat;
  ef_blocks : list (list (list nat));          (* connect<i+1>[:]  (1-based rows) *)
  ef_bnames : list Z;                          (* eb_names *)
  ef_nodesets : list (list nat);               (* node_ns<i+1>[:]  (1-based) *)
  ef_nsnames : list Z;                         (* ns_names *)
  ef_sidesets : list (list nat * list nat);    (* (elem_ss<i+1>[:], side_ss<i+1>[:])  (1-based) *)
  ef_ssnames : list Z }.                       (* ss_names *)

(* for i, name in enumerate(names): if not name: names[i] = prefix + str(i+1)   -- auto i is the id of that generated string *)
Fixpoint final_names (auto : nat -> Z) (i : nat) (names : list Z) : list Z :=
  match names with [] => [] | n :: r => (if Z.eqb n 0 then auto i else n) :: final_names auto (S i) r end.
(* d = {}; for k, v in zip(names, vals): d[k] = v *)
Definition dict_of {V} (names : list Z) (vals : list V) : dict V :=
  fold_left (fun d kv => dset d (fst kv) (snd kv)) (combine names vals) [].

Record rmesh := mkRM {
  rm_conns : list (list nat); rm_blocks : dict (list nat); rm_nodesets : dict (list nat);
  rm_sidesets : dict (list (nat * nat)); rm_simplex : list nat }.

Definition read_exodus (six : bool) (autoB autoN autoS : nat -> Z) (f : exo_file) : rmesh :=
  let conns0 := read_conns (ef_blocks f) in
  mkRM (if six then map permute_tri6 conns0 else conns0)
       (dict_of (final_names autoB 0 (ef_bnames f)) (read_block_ranges (ef_blocks f)))
       (dict_of (final_names autoN 0 (ef_nsnames f)) (map to0 (ef_nodesets f)))
       (dict_of (final_names autoS 0 (ef_ssnames f)) (map (fun es => read_sideset (fst es) (snd es)) (ef_sidesets f)))
       (if six then vertex_ids conns0 else seq 0 (ef_nnodes f)).

(* first element of block b in the stacked table *)
Definition block_first (blocks : list (list (list nat))) (b : nat) : nat := list_sum (map (@length _) (firstn b blocks)).

(* read_json_mesh: indices are stored 0-based and passed through; a side set is stored as [elements, sides] and becomes
   np.column_stack((elements, sides)) *)
Definition read_json_sidesets (ss : dict (list nat * list nat)) : dict (list (nat * nat)) :=
  map (fun kv => (fst kv, combine (fst (snd kv)) (snd (snd kv)))) ss.

(* ---- exchange with the harness *)
Definition enc_dict_nat (d : dict (list nat)) : list Z :=
  Z.of_nat (length d) :: flat_map (fun kv => fst kv :: Z.of_nat (length (snd kv)) :: map Z.of_nat (snd kv)) d.
Definition enc_dict_pairs (d : dict (list (nat * nat))) : list Z :=
  Z.of_nat (length d) :: flat_map (fun kv => fst kv :: Z.of_nat (length (snd kv)) :: flat_map (fun p => [Z.of_nat (fst p); Z.of_nat (snd p)]) (snd kv)) d.
Definition zn := map Z.to_nat.
Definition mk_exo (nn : Z) (blocks : list (list (list Z))) (bn : list Z) (ns : list (list Z)) (nsn : list Z)
                  (ss : list (list Z * list Z)) (ssn : list Z) : exo_file :=
  mkExo (Z.to_nat nn) (map (map zn) blocks) bn (map zn ns) nsn (map (fun es => (zn (fst es), zn (snd es))) ss) ssn.
Definition auto_of (l : list Z) (i : nat) : Z := nth i l 0%Z.
Definition enc_rmesh (r : rmesh) : list Z :=
  Z.of_nat (length (rm_conns r)) :: map Z.of_nat (concat (rm_conns r)) ++ [(-7)%Z] ++ enc_dict_nat (rm_blocks r) ++ [(-7)%Z]
  ++ enc_dict_nat (rm_nodesets r) ++ [(-7)%Z] ++ enc_dict_pairs (rm_sidesets r) ++ [(-7)%Z] ++ map Z.of_nat (rm_simplex r).
