(* C07: vocabulary of the static reference / arity / unpack table of optimism/inverse/NonlinearSolve.py and of the
   reverse-rule descriptors; the VALUES are regenerated from /repo's AST on every run (gen/Refs_NonlinearSolve.v).
   Executable checkers only, no proofs. *)
From Coq Require Import List Bool Arith String.
Import ListNotations.
Local Open Scope string_scope.

(* one statically resolvable call: callee is a def / namedtuple in optimism/, or a method of class Objective *)
Record callref := {
  c_site : string;            (* enclosing function *)
  c_line : nat;
  c_callee : string;
  c_exists : bool;            (* the callee is defined in the module it is looked up in *)
  c_npos : nat;               (* positional arguments at the call site *)
  c_kws : list string;        (* keyword names at the call site *)
  c_params : list string;     (* callee's positional-or-keyword parameters (self removed for methods) *)
  c_ndefaults : nat;          (* how many trailing parameters have defaults *)
  c_vararg : bool;
  c_kwarg : bool }.

Definition sin (s : string) (l : list string) : bool := existsb (String.eqb s) l.

Definition call_ok (c : callref) : bool :=
  let np := List.length (c_params c) in
  c_exists c
  (* not more positional arguments than parameters *)
  && (c_vararg c || Nat.leb (c_npos c) np)
  (* every keyword names a parameter that is not already filled positionally *)
  && forallb (fun k => c_kwarg c || sin k (skipn (c_npos c) (c_params c))) (c_kws c)
  (* every parameter without default is supplied *)
  && forallb (fun k => sin k (c_kws c)) (skipn (c_npos c) (firstn (np - c_ndefaults c) (c_params c))).

(* tuple unpacking / constant indexing of a statically resolvable call result *)
Record unpackref := {
  u_site : string;
  u_line : nat;
  u_callee : string;
  u_width : nat;              (* number of names unpacked into, or index+1 for result[index] *)
  u_exact : bool;             (* true for unpacking (widths must match), false for indexing (index must be in range) *)
  u_ret_widths : list nat }.  (* tuple width of every `return` of the callee *)

Definition unpack_ok (u : unpackref) : bool :=
  negb (Nat.eqb (List.length (u_ret_widths u)) 0)
  && forallb (fun w => if u_exact u then Nat.eqb w (u_width u) else Nat.leb (u_width u) w) (u_ret_widths u).

(* reverse rule descriptor *)
Inductive slotdesc := SlotVJP (k guard : nat) | SlotNone | SlotOtherExpr.
Record revrule := {
  r_name : string;
  r_sets_p : bool;                 (* objective.p is set to the forward-pass parameters before the adjoint solve *)
  r_adj_x0_zero : bool;            (* adjoint solve starts from a zero vector *)
  r_adj_rhs_cotangent : bool;      (* linear term of the quadratic model is the incoming cotangent v *)
  r_adj_op_hessian_at_solution : bool;   (* operator is w |-> objective.hessian_vec(Uu, w) at the forward solution Uu *)
  r_adj_precond : bool;            (* preconditioner argument is objective.apply_precond *)
  r_adj_radius_inf : bool;         (* trust-region radius is np.inf: a plain CG solve *)
  r_lam_result0 : bool;            (* the adjoint is component 0 of the solver's result *)
  r_guess_cotangent_zero : bool;   (* cotangent returned for the initial guess is a zero vector *)
  r_slots : list slotdesc }.       (* cotangents returned for the parameters *)

Definition slot_eqb (a b : slotdesc) : bool :=
  match a, b with
  | SlotVJP k g, SlotVJP k' g' => Nat.eqb k k' && Nat.eqb g g'
  | SlotNone, SlotNone => true
  | _, _ => false
  end.
Fixpoint slots_eqb (a b : list slotdesc) : bool :=
  match a, b with [], [] => true | x :: a', y :: b' => slot_eqb x y && slots_eqb a' b' | _, _ => false end.

Definition revrule_ok (r : revrule) (expected : list slotdesc) : bool :=
  r_sets_p r && r_adj_x0_zero r && r_adj_rhs_cotangent r && r_adj_op_hessian_at_solution r && r_adj_precond r
  && r_adj_radius_inf r && r_lam_result0 r && r_guess_cotangent_zero r && slots_eqb (r_slots r) expected.

(* --- vocabulary for the semantics of the reverse rules (values regenerated from the AST into gen/Refs_NonlinearSolve.v) --- *)
(* how a reverse rule re-establishes objective.p before anything is evaluated on the objective *)
Inductive restore_kind := RestoreSaved | RestoreSlot (k : nat) | RestoreNone.

(* Objective.vec_jacobian_p<k>(self, x, vp) and the jitted closure it calls:
     self.<closure> = jit(lambda x, p, vx: vjp(lambda q: self.grad_x(x, param_index_update(p, <update_slot>, q)), p[<primal_slot>])[1](vx)) *)
Record vjpclosure := {
  vc_method : string;
  vc_method_slot : nat;                 (* the <k> of the method name *)
  vc_closure : string;                  (* attribute of self the method calls *)
  vc_closure_defined : bool;            (* assigned in __init__ as jit(lambda x, p, vx: ...) and nowhere else in the class *)
  vc_args_x_selfp_v : bool;             (* method body is `return self.<closure>(x, self.p, vp)` *)
  vc_is_vjp : bool;                     (* closure body is vjp(<fun>, <primal>)[1](<cot>) *)
  vc_fun_is_grad_x_of_update : bool;    (* <fun> is lambda q: self.grad_x(x, param_index_update(p, <update_slot>, q)) *)
  vc_update_slot : nat;
  vc_primal_is_p_slot : bool;           (* <primal> is p[<primal_slot>] *)
  vc_primal_slot : nat;
  vc_cot_is_third : bool }.             (* <cot> is the closure's third parameter *)

Definition closure_ok (c : vjpclosure) : bool :=
  vc_closure_defined c && vc_args_x_selfp_v c && vc_is_vjp c && vc_fun_is_grad_x_of_update c && vc_primal_is_p_slot c && vc_cot_is_third c
  && Nat.eqb (vc_update_slot c) (vc_method_slot c) && Nat.eqb (vc_primal_slot c) (vc_method_slot c).

Fixpoint find_closure (cls : list vjpclosure) (k : nat) : option vjpclosure :=
  match cls with [] => None | c :: r => if Nat.eqb (vc_method_slot c) k then Some c else find_closure r k end.
