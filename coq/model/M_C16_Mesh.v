(* C16: executable model of the MESH-LEVEL level-set / penalty functions
     Surface.get_field_index / eval_field / integrate_values, QuadratureRule.eval_at_iso_points,
     LevelsetConstraint.compute_edge_levelset_constraints / compute_levelset_constraints /
       compute_contact_point_coords_on_edge / compute_contact_point_coordinates,
     PenaltyContact.get_current_coordinates_at_quadrature_points / evaluate_levelset_on_edge / evaluate_contact_constraints /
       compute_edge_penalty_contact_energy / compute_total_penalty_contact_energy.
   A mesh is   coords : list (T*T)  (node -> reference position),  conns : list (Z*Z*Z)  (element -> its three vertex nodes),
   a displacement field is a list (T*T) indexed like coords, an edge is (element index, local side number n1) and its two
   nodes are conns[element][n1], conns[element][(n1+1) % 3]; a 1D rule is  xig, wg : list T.
   The model follows the source statement by statement (same gathers, same arithmetic expressions in the same order):
     fieldIndex  = (conns[edge[0]], [n1, (n1+1)%3])                      get_field_index
     eval_field  = field[fieldIndex[0]][fieldIndex[1]]                    two-level gather: 3 rows, then 2 of those
     iso points  = [f[0] + (f[1]-f[0])*xi for xi in xigauss]              eval_at_iso_points
     lset        = levelset(iso points of edgeCoords + edgeDisps)
     energy      = stiffness * ((|c0 - c1| * wgauss) . square(minimum(0, lset)))   with c = REFERENCE edge coordinates
   Indexing is totalised with a default (lookups outside a list give the default); JAX clamps / wraps instead, so every theorem
   states its in-range hypotheses explicitly and the correspondence only feeds in-range indices.
   The obstacle function `levelset` is a parameter phi : T -> T -> T applied point by point (the source passes the whole
   (nq x 2) array to a vectorised function; plane / corner / sphere are regenerated pointwise in gen/Gen_Levelset.v). *)
From Coq Require Import ZArith QArith Bool List.
From OV.base Require Import Num.
Import ListNotations.

Definition nthZ16 {A} (d : A) (l : list A) (z : Z) : A := nth (Z.to_nat z) l d.

Definition tri : Type := (Z * Z * Z)%type.
(* row k of a 3-row array (k = 0, 1, 2) *)
Definition pick3 {A} (r : A * A * A) (k : Z) : A :=
  let '(r0, r1, r2) := r in if (k =? 0)%Z then r0 else if (k =? 1)%Z then r1 else r2.

(* Surface.get_field_index(edge, conns) *)
Definition get_field_index (conns : list tri) (edge : Z * Z) : tri * (Z * Z) :=
  let elemIndex := fst edge in
  let elemConns := nthZ16 (0, 0, 0)%Z conns elemIndex in
  let n1 := snd edge in
  let n2 := ((n1 + 1) mod 3)%Z in
  (elemConns, (n1, n2)).

(* Surface.eval_field(field, fieldIndex) = field[fieldIndex[0]][fieldIndex[1]] *)
Definition eval_field {A} (d : A) (field : list A) (fieldIndex : tri * (Z * Z)) : A * A :=
  let '(ec, (n1, n2)) := fieldIndex in
  let '(c0, c1, c2) := ec in
  let rows := (nthZ16 d field c0, nthZ16 d field c1, nthZ16 d field c2) in
  (pick3 rows n1, pick3 rows n2).

(* the two global node numbers of an edge (specification vocabulary) *)
Definition edge_nodes (conns : list tri) (edge : Z * Z) : Z * Z :=
  let c := nthZ16 (0, 0, 0)%Z conns (fst edge) in (pick3 c (snd edge), pick3 c ((snd edge + 1) mod 3)%Z).

Section Mesh.
  Context {T : Type} {NT : Num T}.
  Definition pt : Type := (T * T)%type.
  Definition pzero : pt := (nzero, nzero).
  Definition padd (p q : pt) : pt := (nadd (fst p) (fst q), nadd (snd p) (snd q)).

  (* QuadratureRule.eval_at_iso_points(xigauss, field) *)
  Definition iso_point (f0 f1 : pt) (xi : T) : pt :=
    (nadd (fst f0) (nmul (nsub (fst f1) (fst f0)) xi), nadd (snd f0) (nmul (nsub (snd f1) (snd f0)) xi)).
  Definition eval_at_iso_points (xig : list T) (field : pt * pt) : list pt :=
    map (iso_point (fst field) (snd field)) xig.

  (* edgeCoords + edgeDisps *)
  Definition edge_current (coords disp : list pt) (conns : list tri) (edge : Z * Z) : pt * pt :=
    let fieldIndex := get_field_index conns edge in
    let edgeCoords := eval_field pzero coords fieldIndex in
    let edgeDisps := eval_field pzero disp fieldIndex in
    (padd (fst edgeCoords) (fst edgeDisps), padd (snd edgeCoords) (snd edgeDisps)).

  (* LevelsetConstraint.compute_contact_point_coords_on_edge = PenaltyContact.get_current_coordinates_at_quadrature_points *)
  Definition contact_point_coords_on_edge (coords disp : list pt) (conns : list tri) (xig : list T) (edge : Z * Z) : list pt :=
    eval_at_iso_points xig (edge_current coords disp conns edge).
  Definition contact_point_coordinates (coords disp : list pt) (conns : list tri) (xig : list T) (edges : list (Z * Z)) : list (list pt) :=
    map (contact_point_coords_on_edge coords disp conns xig) edges.

  (* LevelsetConstraint.compute_edge_levelset_constraints = PenaltyContact.evaluate_levelset_on_edge *)
  Definition edge_levelset_constraints (phi : T -> T -> T) (coords disp : list pt) (conns : list tri) (xig : list T) (edge : Z * Z) : list T :=
    let quadratureCurCoords := eval_at_iso_points xig (edge_current coords disp conns edge) in
    map (fun p : pt => phi (fst p) (snd p)) quadratureCurCoords.
  (* LevelsetConstraint.compute_levelset_constraints = PenaltyContact.evaluate_contact_constraints (vmap over the edges) *)
  Definition levelset_constraints (phi : T -> T -> T) (coords disp : list pt) (conns : list tri) (xig : list T) (edges : list (Z * Z)) : list (list T) :=
    map (edge_levelset_constraints phi coords disp conns xig) edges.

  (* Surface.integrate_values(quadratureRule, coords, gaussField) *)
  Definition edge_jac (c : pt * pt) : T :=
    let d0 := nsub (fst (fst c)) (fst (snd c)) in let d1 := nsub (snd (fst c)) (snd (snd c)) in
    nsqrt (nadd (nmul d0 d0) (nmul d1 d1)).
  Definition integrate_values (wg : list T) (c : pt * pt) (gaussField : list T) : T :=
    let jac := edge_jac c in
    let dx := map (nmul jac) wg in
    ndot dx gaussField.

  (* PenaltyContact.compute_edge_penalty_contact_energy *)
  Definition edge_penalty_contact_energy (phi : T -> T -> T) (coords disp : list pt) (conns : list tri) (xig wg : list T)
             (stiffness : T) (edge : Z * Z) : T :=
    let fieldIndex := get_field_index conns edge in
    let edgeCoords := eval_field pzero coords fieldIndex in
    let lsetField := edge_levelset_constraints phi coords disp conns xig edge in
    let negativeLsetField := map (nmin nzero) lsetField in
    nmul stiffness (integrate_values wg edgeCoords (map nsq negativeLsetField)).
  (* PenaltyContact.compute_total_penalty_contact_energy *)
  Definition total_penalty_contact_energy (phi : T -> T -> T) (coords disp : list pt) (conns : list tri) (xig wg : list T)
             (edges : list (Z * Z)) (stiffness : T) : T :=
    nsum (map (edge_penalty_contact_energy phi coords disp conns xig wg stiffness) edges).

  (* flattening helpers for the correspondence *)
  Definition flat_pts (l : list (list pt)) : list T := flat_map (flat_map (fun p : pt => [fst p; snd p])) l.
End Mesh.
