(* C16: executable models of the PROPOSED PATCHES for the open findings C16-F1 and C16-F2.

   **** NOT THE CODE IN /repo. ****  /repo is unchanged; the two findings stay open.  The definitions below model the patched
   functions whose Python text is kept (and executed, without touching /repo) in tools/vlib/c16_patches.py:

     F1  MortarContact.compute_average_normal, patched (eps = threshold, proposed default 1e-8; eps = 0 is the minimal variant):
             nA = compute_normal(edgeA); nB = compute_normal(edgeB)
             normal = nA - nB
             nrm = jnp.linalg.norm(normal)
             big = nrm > eps
             return jnp.where(big, normal / jnp.where(big, nrm, 1.0), nA)

     F2  MortarContact.compute_intersection, patched (tol, proposed default 1e-12):
             good  = (xiAs >= -tol) & (xiAs <= 1.0 + tol) & (xiBs >= -tol) & (xiBs <= 1.0 + tol)
             xiAs  = jnp.clip(xiAs, 0.0, 1.0);  xiBs = jnp.clip(xiBs, 0.0, 1.0)
             xiAgood = jnp.where(good, xiAs, jnp.nan)
             argsMinMax = jnp.array([jnp.nanargmin(xiAgood), jnp.nanargmax(xiAgood)])
             return xiAs[argsMinMax], xiBs[argsMinMax], gs[argsMinMax]

   Everything else (compute_xi, candidate order, first-extremum selection, -1 -> last entry, integrate_with_active_mortar) is the
   model of the unpatched source, model/M_C16_Mortar.v.  The models are tied to the Python text of the patches by the correspondence
   stream `patched` of ./check C16 (binary64 execution of both). *)
From Coq Require Import ZArith QArith Bool List.
From OV.base Require Import Num.
From OV.gen Require Import Gen_MortarContact.
From OV.model Require Import M_C16_Mortar.
Import ListNotations.

Section ProposedPatches.
  Context {T : Type} {NT : Num T}.

  (* ---------------- proposed patch for C16-F1 ---------------- *)
  Definition average_normal_p (eps : T) (a00 a01 a10 a11 b00 b01 b10 b11 : T) : T * T :=
    let '(na0, na1) := compute_normal a00 a01 a10 a11 in
    let '(nb0, nb1) := compute_normal b00 b01 b10 b11 in
    let d0 := nsub na0 nb0 in let d1 := nsub na1 nb1 in
    let nn := nsqrt (nadd (nmul d0 d0) (nmul d1 d1)) in
    let big := nltb eps nn in
    let den := if big then nn else nunit in
    (if big then ndiv d0 den else na0, if big then ndiv d1 den else na1).

  (* ---------------- proposed patch for C16-F2 ---------------- *)
  Definition valid_tol (tol : T) (c : cand) : bool :=
    nleb (nopp tol) (cxa c) && nleb (cxa c) (nadd nunit tol) && nleb (nopp tol) (cxb c) && nleb (cxb c) (nadd nunit tol).
  (* jnp.clip(x, 0, 1); a NaN stays a NaN (both comparisons false) *)
  Definition clip01 (x : T) : T := if nltb x nzero then nzero else if nltb nunit x then nunit else x.
  Definition clipc (c : cand) : cand := (clip01 (cxa c), clip01 (cxb c), cg c).

  (* first candidate, among those accepted by the toleranced mask, whose CLIPPED xiA is best; the clipped candidate is stored *)
  Fixpoint first_best_p (tol : T) (better : T -> T -> bool) (l : list cand) (best : option cand) : option cand :=
    match l with
    | [] => best
    | c :: r =>
        let best' := if valid_tol tol c then
                       match best with None => Some (clipc c) | Some b => if better (cxa (clipc c)) (cxa b) then Some (clipc c) else best end
                     else best in
        first_best_p tol better r best'
    end.
  Definition sel_min_p (tol : T) (l : list cand) : cand :=
    match first_best_p tol nltb l None with Some c => c | None => clipc (last l (nzero, nzero, nzero)) end.
  Definition sel_max_p (tol : T) (l : list cand) : cand :=
    match first_best_p tol (fun x y => nltb y x) l None with Some c => c | None => clipc (last l (nzero, nzero, nzero)) end.

  Definition mortar_with_normal_p (tol : T) (a00 a01 a10 a11 b00 b01 b10 b11 n0 n1 : T) (f : T -> T -> T -> T) (l : T) (quad : list (T * T)) : T :=
    let cs := candidates a00 a01 a10 a11 b00 b01 b10 b11 n0 n1 in
    active (sel_min_p tol cs) (sel_max_p tol cs) (seglen a00 a01 a10 a11) (seglen b00 b01 b10 b11) f l quad.
  Definition mortar_p (tol : T) (rule : T -> T -> T -> T -> T -> T -> T -> T -> T * T)
             (a00 a01 a10 a11 b00 b01 b10 b11 : T) (f : T -> T -> T -> T) (l : T) (quad : list (T * T)) : T :=
    let '(n0, n1) := rule a00 a01 a10 a11 b00 b01 b10 b11 in
    mortar_with_normal_p tol a00 a01 a10 a11 b00 b01 b10 b11 n0 n1 f l quad.
End ProposedPatches.
