(* C10: forward-mode dual numbers as an instance of the numeric interface.  Every generated kernel is generic in {T} {NT : Num T};
   instantiated at D = R * R (value, tangent) a kernel computes what JAX's forward mode computes when the kernel's code is differentiated:
   arithmetic by the sum / product / quotient / chain rules, comparisons -- hence every np.where select -- on the VALUES only (the
   derivative of where(c, a, b) is where(c, da, db)).  Definitions only. *)
From Coq Require Import Reals QArith.
From OV.base Require Import Num.
Local Open Scope R_scope.

Definition D : Type := (R * R)%type.
Definition dval (x : D) : R := fst x.
Definition dtan (x : D) : R := snd x.

#[export] Instance NumD : Num D := {|
  nconst := fun q _ => (Q2R' q, 0);
  nadd := fun a b => (fst a + fst b, snd a + snd b);
  nsub := fun a b => (fst a - fst b, snd a - snd b);
  nmul := fun a b => (fst a * fst b, snd a * fst b + fst a * snd b);
  ndiv := fun a b => (fst a / fst b, (snd a * fst b - fst a * snd b) / (fst b * fst b));
  nopp := fun a => (- fst a, - snd a);
  nabs := fun a => (Rabs (fst a), if Rltb (fst a) 0 then - snd a else if Rltb 0 (fst a) then snd a else 0);
  nsqrt := fun a => (sqrt (fst a), snd a / (2 * sqrt (fst a)));
  nexp := fun a => (exp (fst a), snd a * exp (fst a));
  nln := fun a => (ln (fst a), snd a / fst a);
  nltb := fun a b => Rltb (fst a) (fst b);
  nleb := fun a b => Rleb (fst a) (fst b);
  neqb := fun a b => Reqb (fst a) (fst b) |}.

(* a smooth scalar function lifted to dual numbers by its derivative *)
Definition dlift (f df : R -> R) (x : D) : D := (f (fst x), df (fst x) * snd x).
(* a smooth two-argument function lifted by its two partial derivatives *)
Definition dlift2 (g g1 g2 : R -> R -> R) (x y : D) : D := (g (fst x) (fst y), g1 (fst x) (fst y) * snd x + g2 (fst x) (fst y) * snd y).
