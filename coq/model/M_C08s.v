(* C08 (round 4): TensorMath.pow_symm as TensorMath.symmetric_matrix_function builds it,
     lam, V = eigen_sym33_unit(A);  return V @ np.diag(np.power(lam, m)) @ V.T
   over an eigen-solver parameter (model/M_C11s.v: spectral, lss_spec = TensorMath.log_sqrt_symm); npowr is the translator's np.power.
   No proofs here. *)
From Coq Require Import ZArith QArith List.
From OV.base Require Import Num.
From OV.model Require Import M_C08 M_C11s.

Section M.
  Context {T : Type} {NT : Num T}.
  Definition pw_spec (eigh : mat T -> @eig T) (A : mat T) (m : T) : mat T := spectral eigh (fun x => npowr x m) A.
End M.
