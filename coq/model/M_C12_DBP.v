(* C12 (round 4): hand model (H) of one pass of the loop body of LinAlg.sqrtm_dbp (Denman-Beavers iteration, product form), for
   3x3 matrices (definitions only).  body_f of the source:
       g = where(diff >= scaleTol, |det M|^(-1/(2 dim)), 1);  X *= g;  M *= g*g;  N = inv(M)
       X = 0.5 * X @ (I + N);   M = 0.5 * (I + 0.5 * (M + N))
   The scale factor g is an INPUT of the model step (the harness feeds the value the routine's formula gives); the inverse is the
   kernel TensorMath.inv regenerated from /repo (the routine itself calls np.linalg.inv).  Start: X0 = M0 = A. *)
From Coq Require Import List.
From OV.base Require Import Num.
From OV.gen Require Import Gen_TensorMath.
From OV.model Require Import M_C08.
Import ListNotations.

Section DBP.
  Context {T : Type} {NT : Num T}.
  Definition dbp_inv (A : mat T) : mat T := of9 (ap9 (@t_inv T NT) A).
  Definition dbp_scaled (g : T) (XM : mat T * mat T) : mat T * mat T := (mscal g (fst XM), mscal (nmul g g) (snd XM)).
  Definition dbp_core (XM : mat T * mat T) : mat T * mat T :=
    let N := dbp_inv (snd XM) in
    (mscal nhalf (mmul (fst XM) (madd mid N)), mscal nhalf (madd mid (mscal nhalf (madd (snd XM) N)))).
  Definition dbp_step (g : T) (XM : mat T * mat T) : mat T * mat T := dbp_core (dbp_scaled g XM).
  Fixpoint dbp_iter (gs : list T) (XM : mat T * mat T) : mat T * mat T :=
    match gs with [] => XM | g :: gs' => dbp_iter gs' (dbp_step g XM) end.
End DBP.
