(* C17, derivative clause: jax.lax.custom_root's forward rule over the tangent solve regenerated from find_root's custom_root call
   (gen/Gen_C17FindRoot.v).  jax/_src/lax/control_flow/solves.py:_root_jvp computes, at the solution the solve returned,
       solution_dot = - tangent_solve (t |-> d_x f(solution) * t) (d_p f(solution) * p_dot)
   (no proofs here). *)
From Coq Require Import ZArith QArith Bool List.
From OV.base Require Import Num.
From OV.gen Require Import Gen_C17FindRoot.

Section M.
  Context {T : Type} {NT : Num T}.
  (* fx, fp: partial derivatives of the residual in x and in the parameter at the returned solution; dp: parameter tangent *)
  Definition root_jvp (fx fp dp : T) : T := nopp (tangent_solve (fun t => nmul fx t) (nmul fp dp)).
End M.

(* binary64 execution for the correspondence stream: [root_jvp fx fp dp] *)
Definition enc_root_jvp (fx fp dp : PrimFloat.float) : list Z := fenc (@root_jvp PrimFloat.float NumF fx fp dp).
