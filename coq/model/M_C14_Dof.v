(* C14 (shared with C02): executable model of optimism/FunctionSpace.py:DofManager, written the way NumPy computes it.
   Definitions only.  Fields are flat row-major lists (a (nNodes, dim) array a is the list a[0,0], a[0,1], ..., a[1,0], ...);
   dof indices are nat, dofToUnknown is a list Z (it holds -1 on constrained dofs).
   Indexing outside an array raises IndexError in NumPy; here such reads return the stated default and such writes are
   no-ops, and every theorem states the in-range guard it needs explicitly. *)
From Coq Require Import ZArith List Bool Arith.
Import ListNotations.

(* ---------- NumPy primitives ---------- *)

(* a[mask] : boolean-mask selection in row-major order *)
Fixpoint mask_select {A} (m : list bool) (l : list A) : list A :=
  match m, l with
  | b :: m', x :: l' => if b then x :: mask_select m' l' else mask_select m' l'
  | _, _ => []
  end.

(* a.at[mask].set(vals) : the k-th True position receives vals[k] (positions beyond the supplied values keep the base) *)
Fixpoint mask_set {A} (m : list bool) (base vals : list A) : list A :=
  match m, base with
  | b :: m', x :: base' =>
      if b then match vals with
                | v :: vals' => v :: mask_set m' base' vals'
                | [] => x :: mask_set m' base' []
                end
      else x :: mask_set m' base' vals
  | _, _ => base
  end.

(* a[i] = v *)
Fixpoint set_nth {A} (i : nat) (v : A) (l : list A) : list A :=
  match l, i with
  | [], _ => []
  | _ :: r, O => v :: r
  | x :: r, S i' => x :: set_nth i' v r
  end.

(* a[idx] = vals  (integer-array assignment, performed left to right) *)
Definition scatter {A} (base : list A) (idx : list nat) (vals : list A) : list A :=
  fold_left (fun acc iv => set_nth (fst iv) (snd iv) acc) (combine idx vals) base.

Fixpoint count_true (m : list bool) : nat :=
  match m with [] => 0 | b :: m' => (if b then 1 else 0) + count_true m' end.

(* a[j] for an integer index array j with NumPy's wrap-around of negative indices *)
Definition nthZ {A} (d : A) (l : list A) (z : Z) : A :=
  if (z <? 0)%Z then nth (Z.to_nat (Z.of_nat (length l) + z)) l d else nth (Z.to_nat z) l d.
Definition gatherZ {A} (d : A) (l : list A) (j : list Z) : list A := map (nthZ d l) j.

(* ---------- DofManager.__init__ ---------- *)

(* isBc = full(fieldShape, False); for ebc in EssentialBCs: isBc[nodeSets[ebc.nodeSet], ebc.component] = True.
   An essential BC is (list of nodes of its node set -- repeats allowed --, component). *)
Definition set_bc_node (nNodes dim comp : nat) (acc : list bool) (n : nat) : list bool :=
  if (n <? nNodes) && (comp <? dim) then set_nth (n * dim + comp) true acc else acc.
Definition apply_ebc (nNodes dim : nat) (acc : list bool) (ebc : list nat * nat) : list bool :=
  fold_left (set_bc_node nNodes dim (snd ebc)) (fst ebc) acc.
Definition mk_isBc (nNodes dim : nat) (ebcs : list (list nat * nat)) : list bool :=
  fold_left (apply_ebc nNodes dim) ebcs (repeat false (nNodes * dim)).

Section Dof.
  Variable isBc : list bool.             (* flat (nNodes*dim) mask *)

  Definition nDofs : nat := length isBc.                                   (* isBc.size *)
  Definition isUnknown : list bool := map negb isBc.                        (* ~isBc *)
  Definition ids : list nat := seq 0 nDofs.                                 (* arange(size).reshape(fieldShape) *)
  Definition unknownIndices : list nat := mask_select isUnknown ids.        (* ids[isUnknown] *)
  Definition bcIndices : list nat := mask_select isBc ids.                  (* ids[isBc] *)
  (* ones(size)*-1 ; dofToUnknown[unknownIndices] = arange(unknownIndices.size) *)
  Definition dofToUnknown : list Z :=
    scatter (repeat (-1)%Z nDofs) unknownIndices (map Z.of_nat (seq 0 (length unknownIndices))).

  Definition get_bc_size : nat := count_true isBc.                          (* np.sum(isBc) *)
  Definition get_unknown_size : nat := count_true isUnknown.

  Definition is_unknown (d : nat) : bool := nth d isUnknown false.
  Definition is_bc (d : nat) : bool := nth d isBc false.
  Definition unk (d : nat) : Z := nth d dofToUnknown (-1)%Z.

  Section Values.
    Context {A : Type}.
    Variable zero : A.
    (* U = zeros(shape).at[isBc].set(Ubc); U.at[isUnknown].set(Uu) *)
    Definition create_field (Uu Ubc : list A) : list A :=
      mask_set isUnknown (mask_set isBc (repeat zero nDofs) Ubc) Uu.
    (* the scalar default / broadcast form create_field(Uu, c) *)
    Definition create_field_scalar (Uu : list A) (c : A) : list A :=
      create_field Uu (repeat c get_bc_size).
    Definition get_bc_values (U : list A) : list A := mask_select isBc U.
    Definition get_unknown_values (U : list A) : list A := mask_select isUnknown U.
    (* slice_unknowns_with_dof_indices(Uu, s): `pos` lists the flat dof positions the basic slice s selects, in row-major
       order.  i = isUnknown[s]; j = dofToUnknown.reshape(fieldShape)[s]; Uu[j[i]] *)
    Definition slice_unknowns (Uu : list A) (pos : list nat) : list A :=
      let i := map is_unknown pos in
      let j := map unk pos in
      gatherZ zero Uu (mask_select i j).
  End Values.

  (* ---------- Hessian coordinate arrays and mask ---------- *)
  Variable dim : nat.

  (* ids[eNodes,:].ravel() *)
  Definition el_dofs (eNodes : list nat) : list nat :=
    flat_map (fun n => map (fun c => n * dim + c) (seq 0 dim)) eNodes.
  (* isUnknown[eNodes,:].ravel() *)
  Definition el_unknown_flags (eNodes : list nat) : list bool := map is_unknown (el_dofs eNodes).
  (* dofToUnknown[elDofs[elUnknownFlags]] *)
  Definition el_unknowns (eNodes : list nat) : list Z :=
    map unk (mask_select (el_unknown_flags eNodes) (el_dofs eNodes)).
  (* nElUnknowns[e] = sum(elUnknownFlags) *)
  Definition n_el_unknowns (eNodes : list nat) : nat := count_true (el_unknown_flags eNodes).
  (* tile(elUnknowns, (n,1)).ravel()  -- stored as ROW coordinates *)
  Definition el_rows (eNodes : list nat) : list Z := concat (repeat (el_unknowns eNodes) (n_el_unknowns eNodes)).
  (* tile(elUnknowns, (n,1)).T.ravel()  -- stored as COLUMN coordinates *)
  Definition el_cols (eNodes : list nat) : list Z :=
    flat_map (fun u => repeat u (n_el_unknowns eNodes)) (el_unknowns eNodes).
  Definition HessRowCoords (conns : list (list nat)) : list Z := flat_map el_rows conns.
  Definition HessColCoords (conns : list (list nat)) : list Z := flat_map el_cols conns.
  (* eFlag = isBc[eNodes,:].ravel(); mask[e] = True; mask[e,eFlag,:] = False; mask[e,:,eFlag] = False; flat row-major *)
  Definition el_bc_flags (eNodes : list nat) : list bool := map is_bc (el_dofs eNodes).
  Definition el_mask (eNodes : list nat) : list bool :=
    let f := el_bc_flags eNodes in
    flat_map (fun fa => map (fun fb => negb fa && negb fb) f) f.
  Definition hessian_bc_mask (conns : list (list nat)) : list bool := flat_map el_mask conns.

  (* the (a, b) local index pairs of one element block in row-major order, and all (e, a, b) triples *)
  Definition el_pairs (eNodes : list nat) : list (nat * nat) :=
    let nd := length (el_dofs eNodes) in list_prod (seq 0 nd) (seq 0 nd).
  Fixpoint all_triples_from (e : nat) (conns : list (list nat)) : list (nat * nat * nat) :=
    match conns with
    | [] => []
    | en :: r => map (fun ab => (e, fst ab, snd ab)) (el_pairs en) ++ all_triples_from (S e) r
    end.
  Definition all_triples (conns : list (list nat)) := all_triples_from 0 conns.
  (* global dof of local index a in element e *)
  Definition dof_of (conns : list (list nat)) (e a : nat) : nat := nth a (el_dofs (nth e conns [])) 0.

  (* specification side: the local pairs (a, b) of an element whose two dofs are both unknown, row-major; and the
     (row, col) coordinate the assembler must use for block entry (a, b) -- note the transposition (row = unknown of b) *)
  Definition el_both_unknown (eNodes : list nat) (ab : nat * nat) : bool :=
    is_unknown (nth (fst ab) (el_dofs eNodes) 0) && is_unknown (nth (snd ab) (el_dofs eNodes) 0).
  Definition el_selected (eNodes : list nat) : list (nat * nat) := filter (el_both_unknown eNodes) (el_pairs eNodes).
  Definition el_coord (eNodes : list nat) (ab : nat * nat) : Z * Z :=
    (unk (nth (snd ab) (el_dofs eNodes) 0), unk (nth (fst ab) (el_dofs eNodes) 0)).
End Dof.

(* the flat positions selected by the basic slice [:, c] of a (nNodes, dim) array *)
Definition comp_positions (nNodes dim c : nat) : list nat := map (fun n => n * dim + c) (seq 0 nNodes).

(* ---------- encoders for the correspondence (results are list Z) ---------- *)
Definition encb (l : list bool) : list Z := map (fun b : bool => if b then 1%Z else 0%Z) l.
Definition encn (l : list nat) : list Z := map Z.of_nat l.

(* ---------- one correspondence case: every observable of the DofManager, packed as  len :: items  per output ---------- *)
Definition pack (ls : list (list Z)) : list Z := flat_map (fun l => Z.of_nat (length l) :: l) ls.
Definition nl (l : list Z) : list nat := map Z.to_nat l.

Definition run_case (nNodes dim : Z) (ebcs : list (list Z * Z)) (conns : list (list Z))
           (U Uu Ubc : list Z) (c : Z) (slices : list (list Z)) (comps : list Z) : list Z :=
  let nN := Z.to_nat nNodes in
  let dm := Z.to_nat dim in
  let isBc := mk_isBc nN dm (map (fun e => (nl (fst e), Z.to_nat (snd e))) ebcs) in
  let cs := map nl conns in
  pack ([ encb isBc; encb (isUnknown isBc); encn (ids isBc); encn (unknownIndices isBc); encn (bcIndices isBc);
          dofToUnknown isBc; [Z.of_nat (get_bc_size isBc); Z.of_nat (get_unknown_size isBc)];
          HessRowCoords isBc dm cs; HessColCoords isBc dm cs; encb (hessian_bc_mask isBc dm cs);
          create_field isBc 0%Z Uu Ubc; create_field_scalar isBc 0%Z Uu c;
          get_bc_values isBc U; get_unknown_values isBc U ]
        ++ map (fun pos => slice_unknowns isBc 0%Z Uu (nl pos)) slices
        ++ map (fun k => slice_unknowns isBc 0%Z Uu (comp_positions nN dm (Z.to_nat k))) comps).
