(* C04: executable model of the WHOLE of BoundConstrainedSolver.bound_constrained_solve (front end + the nested
   AlSolver.augmented_lagrange_solve of model/M_C04_AL.v), with its own event trace, for the executed trace correspondence of
   tools/props/c04.py (stream `bc trace`).  No proofs here.

     boundConstrainedObjective.reset_kappa()                       BCReset kappa0          (kappa := constraintKappa)
     xBar0 = scaling * x0
     if useWarmStart:
         if updatePrecond: update_precond(xBar0)                   BCPrecond xBar0
         dxBar = WarmStart.warm_start_increment(obj, xBar0, p)     BCWarm xBar0 dxBar      (oracle `warm`, sees xBar0)
         xBar0 += dxBar
         obj.p = p                                                 BCAssignP true
     else:
         dxBar = 0.0
         obj.p = p                                                 BCAssignP false
     if sub_problem_callback: sub_problem_callback(xBar0-dxBar,..) BCSubCallback (xBar0 - dxBar)   ((xs + dx) - dx as written)
     if updatePrecond: update_precond(xBar0)                       BCPrecond xBar0
     xBar = augmented_lagrange_solve(obj, xBar0, p, ..., useWarmStart=False, updatePrecond=False)
                                                                   BCNestedAssignP (its prologue: alObjective.p = p), then BCAl e
     return invScaling * xBar                                      BCReturned (isc*xBar) (lam*scaling[idx]) lam kappa

   Oracles: those of the outer loop (record `oracles`) and `warm` (the CG warm-start increment; arbitrary).
   The older `bc_solve` of M_C04_AL.v (dxBar an input, no flags, no front-end events) is kept; proofs/L_C04_BC.v proves that both
   compute the same outcome and the same outer-loop trace. *)
From Coq Require Import ZArith QArith Bool List.
From OV.base Require Import Num.
From OV.gen Require Import Gen_ConstrainedObjective Gen_AlSolver Gen_BoundConstrainedObjective.
From OV.model Require Import M_C04_AL.
Import ListNotations.

Section BCFront.
  Context {T : Type} {NT : Num T}.
  Variable cfg : @settings T.
  Variable orc : @oracles T.
  Variable warm : list T -> list T.

  Record bc_flags := { use_warm_start : bool; update_precond : bool; has_sub_callback : bool }.

  Inductive bc_event :=
  | BCReset (kappa : list T)
  | BCPrecond (xBar : list T)
  | BCWarm (xBar0 dxBar : list T)
  | BCAssignP (after_warm : bool)
  | BCSubCallback (x : list T)
  | BCNestedAssignP
  | BCAl (e : event T).

  Definition vsubl (a b : list T) : list T := map2 nsub a b.

  (* the point the nested solve starts from *)
  Definition bc_start (fl : bc_flags) (scaling x0 : list T) : list T :=
    let xs := vmul scaling x0 in
    if use_warm_start fl then vadd xs (warm xs) else xs.

  (* front-end events before the nested solve *)
  Definition bc_prologue (fl : bc_flags) (scaling x0 : list T) : list bc_event :=
    let xs := vmul scaling x0 in
    let xBar0 := bc_start fl scaling x0 in
    (if use_warm_start fl
     then (if update_precond fl then [BCPrecond xs] else []) ++ [BCWarm xs (warm xs); BCAssignP true]
     else [BCAssignP false])
    ++ (if has_sub_callback fl
        then [BCSubCallback (if use_warm_start fl then vsubl xBar0 (warm xs) else xBar0)] else [])
    ++ (if update_precond fl then [BCPrecond xBar0] else []).

  Definition bc_front (fl : bc_flags) (scaling isc sc_c kappa0 x0 lam : list T) : bc_outcome * list bc_event :=
    let xBar0 := bc_start fl scaling x0 in
    let pre := BCReset kappa0 :: bc_prologue fl scaling x0 ++ [BCNestedAssignP] in
    match al_solve cfg orc kappa0 xBar0 lam kappa0 with
    | (Returned xBar lam' kappa', ev) => (BCReturned (vmul isc xBar) (vmul lam' sc_c) lam' kappa', pre ++ map BCAl ev)
    | (NotConverged _ _ _, ev) => (BCNotConverged, pre ++ map BCAl ev)
    end.

  Definition is_bc_assign (e : bc_event) : bool := match e with BCAssignP _ => true | _ => false end.
  Definition is_bc_warm (e : bc_event) : bool := match e with BCWarm _ _ => true | _ => false end.
  Definition is_bc_al (e : bc_event) : bool := match e with BCAl _ | BCNestedAssignP => true | _ => false end.
End BCFront.
Arguments bc_event T : clear implicits.

(* ---- exchange with the harness (T := float) ---- *)
From Coq Require Import Floats.PrimFloat.
Definition enc_bc_event (e : bc_event float) : list Z :=
  match e with
  | BCReset kappa => [11%Z] ++ fencs kappa
  | BCPrecond x => [12%Z] ++ fencs x
  | BCWarm x dx => [13%Z] ++ fencs x ++ fencs dx
  | BCAssignP w => [14%Z; bz w]
  | BCSubCallback x => [15%Z] ++ fencs x
  | BCNestedAssignP => [16%Z]
  | BCAl e => enc_event e
  end.
Definition enc_bc_outcome (o : @bc_outcome float) : list Z :=
  match o with
  | BCReturned x mult lam kappa => [17%Z] ++ fencs x ++ fencs mult ++ fencs lam ++ fencs kappa
  | BCNotConverged => [18%Z]
  end.
Definition enc_bc_run (r : @bc_outcome float * list (bc_event float)) : list Z :=
  flat_map enc_bc_event (snd r) ++ enc_bc_outcome (fst r).
