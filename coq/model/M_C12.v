(* C12: executable result checkers over exact rationals (no proofs here).  The harness converts every binary64 output of the
   implementation exactly to Q (floats are dyadic rationals) and runs these checkers with vm_compute; proofs/L_C12.v proves
   that `true` implies the entrywise residual / orthogonality / ordering bounds.  Matrices are lists of rows. *)
From Coq Require Import ZArith QArith Qabs List Bool.
Import ListNotations.
Local Open Scope Q_scope.

Definition qmat := list (list Q).
Fixpoint dotQ (a b : list Q) : Q := match a, b with x :: a', y :: b' => x * y + dotQ a' b' | _, _ => 0 end.
Fixpoint transposeQ (A : qmat) : qmat :=
  match A with
  | [] => []
  | [r] => map (fun x => [x]) r
  | r :: A' => map (fun p => fst p :: snd p) (combine r (transposeQ A'))
  end.
Definition mmulQ (A B : qmat) : qmat := let Bt := transposeQ B in map (fun r => map (fun c => dotQ r c) Bt) A.
Definition maddQ (A B : qmat) : qmat := map (fun p => map (fun q => fst q + snd q) (combine (fst p) (snd p))) (combine A B).
Definition mscalQ (s : Q) (A : qmat) : qmat := map (map (Qmult s)) A.
Definition identQ (n : nat) : qmat := map (fun i => map (fun j => if Nat.eqb i j then 1 else 0) (seq 0 n)) (seq 0 n).
Definition diagQ (d : list Q) : qmat :=
  map (fun p => map (fun q => if Nat.eqb (fst p) (fst q) then snd p else 0) (combine (seq 0 (length d)) d)) (combine (seq 0 (length d)) d).
Definition leQ (x y : Q) : bool := Qle_bool x y.
Fixpoint close_row (a b : list Q) (tol : Q) : bool :=
  match a, b with
  | [], [] => true
  | x :: a', y :: b' => leQ (Qabs (x - y)) tol && close_row a' b' tol
  | _, _ => false
  end.
Fixpoint close (A B : qmat) (tol : Q) : bool :=
  match A, B with
  | [], [] => true
  | r :: A', s :: B' => close_row r s tol && close A' B' tol
  | _, _ => false
  end.
Fixpoint sortedQ (l : list Q) : bool :=
  match l with x :: ((y :: _) as r) => leQ x y && sortedQ r | _ => true end.
Definition norm_inf (A : qmat) : Q := fold_right (fun r m => let s := fold_right (fun x a => Qabs x + a) 0 r in if leQ m s then s else m) 0 A.

(* eigen-decomposition: A ~ V diag(lam) V^T (relative to |A|_inf), V^T V ~ I, lam ascending *)
Definition check_eig (A : qmat) (lam : list Q) (V : qmat) (tol : Q) : bool :=
  close (mmulQ (mmulQ V (diagQ lam)) (transposeQ V)) A (tol * norm_inf A)
  && close (mmulQ (transposeQ V) V) (identQ (length V)) tol
  && sortedQ lam.
(* X Y ~ Z entrywise (square root S S = A, inverse pairs X Y = I, pow(A,2) = A A, Sylvester residuals ...) *)
Definition check_prod (X Y Z : qmat) (tol : Q) : bool := close (mmulQ X Y) Z tol.
(* f(Q^T A Q) ~ Q^T f(A) Q *)
Definition check_equivariant (fQAQ Qm fA : qmat) (tol : Q) : bool :=
  close fQAQ (mmulQ (mmulQ (transposeQ Qm) fA) Qm) tol.
(* derivative of the square root: S L + L S ~ D *)
Definition check_sylvester (S L D : qmat) (tol : Q) : bool := close (maddQ (mmulQ S L) (mmulQ L S)) D tol.
(* derivative of the inverse (pow -1):  A L A ~ -D *)
Definition check_inverse_jvp (A L D : qmat) (tol : Q) : bool := close (mmulQ (mmulQ A L) A) (mscalQ (-1) D) tol.
Definition check_symmetric (A : qmat) (tol : Q) : bool := close A (transposeQ A) tol.

Definition benc (b : bool) : list Z := [if b then 1%Z else 0%Z].
