(* C20 -- number formatting and the word-level lexer of the independent reader (executable definitions only).

   optimism/VTKWriter.py turns every number into text with '{}'.format(x) / str(x):
     * Python ints (the counts of POINTS / CELLS / CELL_TYPES / POINT_DATA / CELL_DATA, the size field, the literal 2 / 3 of the
       contact-edge cells) and numpy integer scalars (connectivity, cell types, integer field data) are written as a decimal
       integer literal, '-' for negative values, no leading zeros: [fmt_int];
     * numpy float64 / float32 scalars are written by the shortest-repr algorithm of CPython / numpy (Python's float.__repr__):
       a decimal literal  [-]ddd.ddd  or  [-]d.ddde[+-]dd.  The algorithm itself is NOT modelled; its contract ("the literal
       read back at that precision is the value") is the named hypothesis [float_repr_contract], checked per token by the harness.
   The reader side: [read_int] (integer literals, exact), [read_dec] (decimal literals -> mantissa * 10^exponent, exact),
   [round_bin] (correctly rounded conversion of an exact rational to a binary floating-point format: round to nearest, ties to
   even, gradual underflow, None on overflow), [read_num] (what a reader of doubles obtains from a numeric word), and the word
   lexer [lex_word] that replaces the number / keyword mapping of the harness lexer. *)
From Coq Require Import ZArith List Bool String Ascii DecimalString DecimalZ Decimal PeanoNat.
From OV.model Require Import M_C20.
Import ListNotations.
Open Scope string_scope.

(* ---------------------------------------------------------------- integers *)
Definition fmt_int (z : Z) : string := NilZero.string_of_int (Z.to_int z).
Definition read_int (s : string) : option Z := option_map Z.of_int (NilZero.int_of_string s).

(* ---------------------------------------------------------------- decimal literals *)
Definition is_digit (c : ascii) : bool := let n := nat_of_ascii c in (48 <=? n)%nat && (n <=? 57)%nat.
Fixpoint span_digits (s : string) : string * string :=
  match s with
  | String c r => if is_digit c then let '(a, b) := span_digits r in (String c a, b) else ("", s)
  | "" => ("", "")
  end.
Fixpoint digits_val (s : string) (acc : Z) : Z :=
  match s with
  | "" => acc
  | String c r => digits_val r (acc * 10 + Z.of_nat (nat_of_ascii c - 48))%Z
  end.
Definition take_sign (s : string) : bool * string :=
  match s with
  | String "-" r => (true, r)
  | String "+" r => (false, r)
  | _ => (false, s)
  end.
Definition is_empty (s : string) : bool := match s with "" => true | _ => false end.
(* the language  [+-]? (d+ .? d* | . d+) ([eE] [+-]? d+)?  ->  (mantissa, exponent of ten) *)
Definition read_dec (s : string) : option (Z * Z) :=
  let '(neg, s1) := take_sign s in
  let '(ip, s2) := span_digits s1 in
  let '(fp, s3) := match s2 with String "." r => span_digits r | _ => ("", s2) end in
  if is_empty ip && is_empty fp then None else
  let ex := match s3 with
            | "" => Some 0%Z
            | String c r =>
                if Ascii.eqb c "e" || Ascii.eqb c "E" then
                  let '(eneg, r1) := take_sign r in
                  let '(ed, r2) := span_digits r1 in
                  if is_empty ed || negb (is_empty r2) then None
                  else Some (if eneg then - digits_val ed 0 else digits_val ed 0)%Z
                else None
            end in
  match ex with
  | None => None
  | Some e => let m := digits_val (ip ++ fp) 0 in
              Some ((if neg then - m else m)%Z, (e - Z.of_nat (String.length fp))%Z)
  end.
(* exact value of a decimal literal as a (not necessarily reduced) fraction *)
Definition dec_val (me : Z * Z) : Z * positive :=
  let '(m, e) := me in
  if (0 <=? e)%Z then ((m * 10 ^ e)%Z, 1%positive) else (m, Z.to_pos (10 ^ (- e))).

(* ---------------------------------------------------------------- correctly rounded binary floating point
   round_bin prec emin emax n d = the element of the format (precision prec bits, least exponent of the unit in the last place
   emin, values below 2^emax) nearest to n/d, ties to even, as a reduced fraction; None when the result is not finite. *)
Definition round_bin (prec emin emax : Z) (n : Z) (d : positive) : option val :=
  if (n =? 0)%Z then Some (0%Z, 1%positive) else
  let a := Z.abs n in
  let e0 := (Z.log2 a - Z.log2 (Zpos d))%Z in
  let ge := if (0 <=? e0)%Z then (Zpos d * 2 ^ e0 <=? a)%Z else (Zpos d <=? a * 2 ^ (- e0))%Z in
  let fl := if ge then e0 else (e0 - 1)%Z in                        (* floor (log2 (a/d)) *)
  let k := Z.max (fl - (prec - 1)) emin in                          (* exponent of the unit in the last place *)
  let num := if (0 <=? k)%Z then a else (a * 2 ^ (- k))%Z in
  let den := if (0 <=? k)%Z then (Zpos d * 2 ^ k)%Z else Zpos d in
  let m0 := (num / den)%Z in
  let r := (num mod den)%Z in
  let m := if (den <? 2 * r)%Z then (m0 + 1)%Z
           else if (den =? 2 * r)%Z then (if Z.odd m0 then m0 + 1 else m0)%Z else m0 in
  let sg := if (n <? 0)%Z then (-1)%Z else 1%Z in
  if (0 <=? k)%Z then
    (if (2 ^ emax <=? m * 2 ^ k)%Z then None else Some ((sg * m * 2 ^ k)%Z, 1%positive))
  else
    let g := Z.gcd m (2 ^ (- k)) in
    Some ((sg * (m / g))%Z, Z.to_pos (2 ^ (- k) / g)).
Definition round_b64 (q : Z * positive) : option val := round_bin 53 (-1074) 1024 (fst q) (snd q).
Definition round_b32 (q : Z * positive) : option val := round_bin 24 (-149) 128 (fst q) (snd q).
Definition is_b64 (v : val) : Prop := round_b64 v = Some v.
Definition is_b32 (v : val) : Prop := round_b32 v = Some v.

(* a numeric word as a reader of doubles sees it; integer literals are kept exact (they are read as integers) *)
Definition read_num (s : string) : option val :=
  match read_int s with
  | Some z => Some (z, 1%positive)
  | None => match read_dec s with Some me => round_b64 (dec_val me) | None => None end
  end.
(* the same word read into a float32 array (label `float`) *)
Definition read_num32 (s : string) : option val :=
  match read_dec s with Some me => round_b32 (dec_val me) | None => None end.

(* ---------------------------------------------------------------- words *)
Definition magic_line : string := "# vtk DataFile Version 3.0".
Definition title_line : string := "Written from jax-fem".
Definition word_table : list (string * tok) :=
  [("ASCII", TK KAscii); ("DATASET", TK KDataset); ("UNSTRUCTURED_GRID", TK KUGrid); ("POINTS", TK KPoints);
   ("CELLS", TK KCells); ("CELL_TYPES", TK KCellTypes); ("POINT_DATA", TK KPointData); ("CELL_DATA", TK KCellData);
   ("LOOKUP_TABLE", TK KLookup); ("default", TK KDefault);
   ("SCALARS", TF SCALARS); ("VECTORS", TF VECTORS); ("TENSORS", TF TENSORS);
   ("bit", TD BIT); ("unsigned_char", TD UCHAR); ("char", TD CHAR); ("unsigned_short", TD USHORT); ("short", TD SHORT);
   ("unsigned_int", TD UINT); ("int", TD INT); ("unsigned_long", TD ULONG); ("long", TD LONG); ("float", TD FLOAT);
   ("double", TD DOUBLE)].
Fixpoint assoc {B} (s : string) (l : list (string * B)) : option B :=
  match l with
  | [] => None
  | (k, b) :: r => if String.eqb s k then Some b else assoc s r
  end.
Fixpoint index_of (s : string) (l : list string) (i : nat) : option nat :=
  match l with
  | [] => None
  | k :: r => if String.eqb s k then Some i else index_of s r (S i)
  end.
(* one whitespace-separated word of the body of the file; names is the table of field names (id = position);
   an unknown word becomes the name -3, which no writer token equals *)
Definition lex_word (names : list string) (s : string) : tok :=
  match read_num s with
  | Some v => TNum v
  | None => match assoc s word_table with
            | Some t => t
            | None => match index_of s names 0 with
                      | Some i => TName (Z.of_nat i)
                      | None => TName (-3)
                      end
            end
  end.
(* first line: "# vtk DataFile Version x.y"; second line: a title of at most 256 characters *)
Definition lex_line0 (s : string) : tok :=
  if String.prefix "# vtk DataFile Version " s &&
     match read_dec (substring 23 (String.length s - 23) s) with Some _ => true | None => false end
  then TK KMagic else TName (-1).
Definition lex_line1 (s : string) : tok := if (String.length s <=? 256)%nat then TK KTitle else TName (-2).
(* a file = its first two lines and the words of the rest *)
Definition lex_file (names : list string) (f : list string) : list tok :=
  match f with
  | l0 :: l1 :: ws => lex_line0 l0 :: lex_line1 l1 :: map (lex_word names) ws
  | _ => []
  end.
Definition parse_words (names : list string) (f : list string) : option dataset := parse (lex_file names f).

(* ---------------------------------------------------------------- the writer's side: which word may stand for which token *)
Definition word_ok (t : tok) : bool :=
  match t with TK KMagic | TK KTitle => false | TK _ | TF _ | TD _ => true | _ => false end.
(* renders names t s : the word s is what the writer's formats produce for the token t *)
Inductive renders (names : list string) : tok -> string -> Prop :=
| R_word s t : In (s, t) word_table -> renders names t s
| R_int z : renders names (TNum (z, 1%positive)) (fmt_int z)
    (* '{}'.format of a Python int / numpy integer *)
| R_float x s me : read_int s = None -> read_dec s = Some me -> round_b64 (dec_val me) = Some x -> renders names (TNum x) s
    (* '{}'.format of a numpy floating scalar: a decimal literal whose nearest double is the value x *)
| R_name i s : nth_error names i = Some s -> index_of s names 0 = Some i -> read_num s = None -> assoc s word_table = None ->
               renders names (TName (Z.of_nat i)) s.
    (* a field name: not numeric, not a VTK keyword, first occurrence in the name table *)

(* the named hypothesis about CPython / numpy: repr of a finite double is a non-integer-looking decimal literal that reads back
   (correctly rounded) to the same double *)
Definition float_repr_contract (repr64 : val -> string) : Prop :=
  forall x, is_b64 x -> read_int (repr64 x) = None /\
                        exists me, read_dec (repr64 x) = Some me /\ round_b64 (dec_val me) = Some x.

(* ---------------------------------------------------------------- exchange with the harness *)
Definition enc_ov (o : option val) : list Z := match o with Some v => [1%Z; fst v; Zpos (snd v)] | None => [0%Z] end.
Definition enc_str (s : string) : list Z := map (fun c => Z.of_nat (nat_of_ascii c)) (list_ascii_of_string s).
(* the Coq lexer and the Coq reader on the words of a real file *)
Definition read_words (names : list string) (f : list string) : list Z :=
  let ts := lex_file names f in seg (enc_toks ts) ++ read_file ts.

(* ---------------------------------------------------------------- decidable version of [renders] *)
Fixpoint forallb2_eq (a b : list Z) : bool :=
  match a, b with
  | [], [] => true
  | x :: a', y :: b' => Z.eqb x y && forallb2_eq a' b'
  | _, _ => false
  end.
Definition renders_b (names : list string) (t : tok) (s : string) : bool :=
  match t with
  | TNum v =>
      match read_int s with
      | Some z => forallb2_eq (enc_val v) (enc_val (z, 1%positive)) && String.eqb s (fmt_int z)
      | None => match read_dec s with
                | Some me => match round_b64 (dec_val me) with
                             | Some x => forallb2_eq (enc_val v) (enc_val x)
                             | None => false
                             end
                | None => false
                end
      end
  | TName n =>
      match read_num s, assoc s word_table, index_of s names 0 with
      | None, None, Some i => Z.eqb (Z.of_nat i) n
      | _, _, _ => false
      end
  | _ => match assoc s word_table with Some t' => forallb2_eq (enc_tok t) (enc_tok t') | None => false end
  end.
Fixpoint renders_all (names : list string) (ts : list tok) (ws : list string) : bool :=
  match ts, ws with
  | [], [] => true
  | t :: ts', s :: ws' => renders_b names t s && renders_all names ts' ws'
  | _, _ => false
  end.

(* ---------------------------------------------------------------- compact per-scenario comparison (harness exchange)
   For every write() of a scenario: the model's tokens against the Coq-lexed words of the file the implementation wrote (first
   difference only), the staged diagnosis of the independent reader on the file, and whether the file parses to exactly the
   supplied dataset.  Keeps the printed result small: the token lists themselves never leave Coq. *)
Definition tok_eqb (a b : tok) : bool := forallb2_eq (enc_tok a) (enc_tok b).
Fixpoint first_diff (a b : list tok) (i : Z) : list Z :=
  match a, b with
  | [], [] => [(-1)%Z]
  | x :: a', y :: b' => if tok_eqb x y then first_diff a' b' (i + 1)%Z else i :: seg (enc_tok x) ++ seg (enc_tok y)
  | x :: _, [] => i :: seg (enc_tok x) ++ seg []
  | [], y :: _ => i :: seg [] ++ seg (enc_tok y)
  end.
Definition check_file (names : list string) (mt : list tok) (abs : dataset) (f : list string) : list Z :=
  let ts := lex_file names f in
  seg (first_diff mt ts 0 ++ [zn (List.length mt); zn (List.length ts)]) ++ seg (diag ts)
  ++ seg [match parse ts with Some d => bz (forallb2_eq (enc_ds d) (enc_ds abs)) | None => 0%Z end].
Fixpoint run_check (names : list string) (w : writer) (ops : list op) (files : list (list string)) : list Z :=
  match ops with
  | [] => []
  | OpWrite :: r =>
      match files with
      | f :: fs => check_file names (fst (write w)) (abstract w) f ++ run_check names (snd (write w)) r fs
      | [] => [(-2)%Z]
      end
  | OpNodal nm data ft dt :: r =>
      match add_nodal_field w nm data ft dt with Some w' => run_check names w' r files | None => [(-1)%Z] end
  | OpCell nm data ft dt :: r =>
      match add_cell_field w nm data ft dt with Some w' => run_check names w' r files | None => [(-1)%Z] end
  | OpSphere x y r0 :: r => run_check names (add_sphere w x y r0) r files
  | OpEdges es :: r => run_check names (add_contact_edges w es) r files
  end.
Definition check_scenario (names : list string) (m : mesh) (ops : list op) (files : list (list string)) : list Z :=
  match init m with Some w => run_check names w ops files | None => [(-1)%Z] end.
(* without the model: only the reader's diagnosis of a file *)
Definition diag_words (names : list string) (f : list string) : list Z := seg (diag (lex_file names f)).

(* ---------------------------------------------------------------- a numeric word read AT THE DECLARED DATA TYPE of its array
   An integer data type admits only integer literals (no '.', no exponent) within the range of the type; `float` words are
   rounded to binary32, `double` words to binary64. *)
Definition int_range (d : dtype) : option (Z * Z) :=
  match d with
  | BIT => Some (0, 1) | UCHAR => Some (0, 255) | CHAR => Some (-128, 127)
  | USHORT => Some (0, 65535) | SHORT => Some (-32768, 32767)
  | UINT => Some (0, 4294967295) | INT => Some (-2147483648, 2147483647)
  | ULONG => Some (0, 18446744073709551615) | LONG => Some (-9223372036854775808, 9223372036854775807)
  | FLOAT | DOUBLE => None
  end%Z.
Definition read_at (d : dtype) (s : string) : option val :=
  match int_range d with
  | Some (lo, hi) => match read_int s with
                     | Some z => if (lo <=? z)%Z && (z <=? hi)%Z then Some (z, 1%positive) else None
                     | None => None
                     end
  | None => match d with
            | FLOAT => read_num32 s
            | _ => match read_dec s with Some me => round_b64 (dec_val me) | None => None end
            end
  end.
