(* C01 -- a little Python-subset IR (abstract syntax) and its interpreter.
   The IR VALUES (the syntax trees of EquationSolver.trust_region_minimize, is_converged, is_on_boundary and
   nonlinear_equation_solve) are regenerated from /repo's AST on every run (gen/CFG_TR.v, tools/vlib/extract_tr.py); this file
   only fixes the vocabulary and gives it a meaning.  The interpreter is generic in Num T and in the objective's oracles, like
   the hand model model/M_C01_TR.v; proofs/L_C01_CFG.v proves that running the extracted syntax tree IS the hand model.

   Semantics in short.  Values: float scalars, float QUOTIENTS (a/b is kept as the pair so that a comparison `q >= t` / `q > t`
   of a quotient is the IEEE-like extended comparison ege/egt (ediv a b) t of M_C01_TR, while arithmetic on it is ndiv a b; at
   T := float both are native binary64 operations), naturals, booleans, vectors, step-type tags, closures (late binding, as in
   Python: free names of a lambda are looked up when it is CALLED), bound methods of the objective (oracles; the preconditioner
   state they read is the one at call time), module-level functions (interpreted from their own extracted syntax tree when
   they are in the function table, else primitives: np.linalg.norm, np.sqrt, dogleg_step, solve_trust_region_minimization --
   the latter two are the C06 models).  Effects: callback(x, objective) and objective.update_precond(x) append an event,
   update_precond also moves the preconditioner state; objective.check_stability(x) is a no-op.
   Loops: `for i in range(n)` runs n times; `while` runs at most wfuel passes (then OFuel).  The recursion depth of the
   interpreter itself is bounded by a separate depth fuel F (OError / None when exhausted: never a silent result).
   Anything not listed is an error (None / OError): unsupported syntax can never evaluate to something.
   Executable definitions only. *)
From Coq Require Import ZArith QArith List Bool String.
From OV.base Require Import Num.
From OV.model Require Import M_C06_Vec M_C06_CG M_C01_TR.
Import ListNotations.
Open Scope string_scope.

Inductive binop := BAdd | BSub | BMul | BDiv | BMatMul | BPow.
Inductive cmpop := CLt | CLe | CGt | CGe | CEq.

Inductive expr :=
| EName (x : string)                       (* a local name (parameter or assigned somewhere in the function) *)
| EGlobal (x : string)                     (* any other name: module-level / library *)
| EAttr (e : expr) (a : string)
| EFloat (q : Q) (me : Z * Z)              (* float literal: exact decimal value, binary64 value as mantissa * 2^exponent *)
| EInt (n : nat)
| EBool (b : bool)
| EStr (s : string)
| ENone
| ENeg (e : expr)
| ENot (e : expr)
| EBin (op : binop) (a b : expr)
| ECmp (op : cmpop) (a b : expr)
| EAnd (a b : expr)
| EOr (a b : expr)
| EIfExp (c a b : expr)
| ELambda (ps : list string) (body : expr)
| ECall (f : expr) (args : list expr) (kws : list (string * expr))
| ETuple (l : list expr).

Inductive stmt :=
| SAssign (ts : list string) (e : expr)           (* x = e   /   a, b, c = e *)
| SAug (op : binop) (x : string) (e : expr)       (* x op= e *)
| SSetAttr (o a : string) (e : expr)              (* o.a = e *)
| SIf (c : expr) (a b : list stmt)
| SWhile (c : expr) (body : list stmt)
| SFor (i : string) (n : expr) (body : list stmt) (* for i in range(n) *)
| SReturn (e : expr)
| SExpr (e : expr).

Record fundef := { f_params : list string; f_defaults : list (string * expr); f_body : list stmt }.

Definition tag_of_string (s : string) : option steptag :=
  if String.eqb s "interior" then Some Interior else if String.eqb s "boundary" then Some Boundary
  else if String.eqb s "neg curve" then Some NegCurve else if String.eqb s "interior_" then Some InteriorCap else None.
Definition steptag_eqb (a b : steptag) : bool :=
  match a, b with Interior, Interior | Boundary, Boundary | NegCurve, NegCurve | InteriorCap, InteriorCap => true | _, _ => false end.

(* list append under its own name (environments), so that proofs can keep `++` on event traces folded *)
Fixpoint cat {A : Type} (a b : list A) : list A := match a with [] => b | x :: r => x :: cat r b end.

Fixpoint assoc {A : Type} (k : string) (l : list (string * A)) : option A :=
  match l with [] => None | (k', v) :: r => if String.eqb k k' then Some v else assoc k r end.

Section Interp.
  Context {T : Type} {NT : Num T}.
  Local Notation vec := (list T).
  Variable value : vec -> T.
  Variable grad : vec -> vec.
  Variable hessvec : vec -> vec -> vec.
  Variable precond : vec -> vec -> vec.
  Variable mult_approx : vec -> vec -> vec.
  Variable S : settings T.
  Variable chk : bool.                                    (* settings.check_stability *)
  Variable wfuel : nat.                                   (* bound on the passes of a `while` *)
  Variable ftable : list (string * fundef).               (* gen/CFG_TR.v: cfg_functions *)
  Variable strconsts : list (string * string).            (* gen/CFG_TR.v: cfg_string_constants *)

  Inductive val :=
  | VS (t : T)                 (* float scalar *)
  | VQ (num den : T)           (* float quotient num / den *)
  | VN (n : nat)
  | VB (b : bool)
  | VV (v : vec)
  | VT (t : steptag)           (* one of the step-type strings *)
  | VClo (ps : list string) (body : expr)
  | VMeth (m : string)         (* objective.<m> *)
  | VGlob (g : string)         (* module-level or library name *)
  | VObj | VSet | VCb | VNone | VUnbound
  | VTup (l : list val).

  Inductive rawev := RCallback (x : vec) | RPrecond (x : vec).
  Record state := { env : list (string * val); xp : vec; trace : list rawev }.
  Inductive outcome := ONormal (st : state) | OReturn (v : val) (st : state) | OFuel | OError.

  Definition with_env (e : list (string * val)) (st : state) : state := {| env := e; xp := xp st; trace := trace st |}.
  Fixpoint update (k : string) (v : val) (l : list (string * val)) : list (string * val) :=
    match l with [] => [(k, v)] | (k', v') :: r => if String.eqb k k' then (k, v) :: r else (k', v') :: update k v r end.
  Definition assign (k : string) (v : val) (st : state) : state := with_env (update k v (env st)) st.
  Fixpoint assign_all (ks : list string) (vs : list val) (st : state) : option state :=
    match ks, vs with
    | [], [] => Some st
    | k :: ks', v :: vs' => assign_all ks' vs' (assign k v st)
    | _, _ => None
    end.
  Fixpoint bind_params (ps : list string) (vs : list val) : option (list (string * val)) :=
    match ps, vs with
    | [], [] => Some []
    | p :: ps', v :: vs' => match bind_params ps' vs' with Some b => Some ((p, v) :: b) | None => None end
    | _, _ => None
    end.

  Definition plain (v : val) : option T :=                (* a float or an int used as a float; NOT a quotient *)
    match v with VS t => Some t | VN n => Some (nZ (Z.of_nat n)) | _ => None end.
  Definition as_scalar (v : val) : option T :=
    match v with VQ a b => Some (ndiv a b) | _ => plain v end.
  Definition truthy (v : val) : option bool :=
    match v with VB b => Some b | VCb => Some true | VNone => Some false | _ => None end.

  Definition setting_of (f : string) : option val :=
    if String.eqb f "t1" then Some (VS (s_t1 S)) else if String.eqb f "t2" then Some (VS (s_t2 S))
    else if String.eqb f "eta1" then Some (VS (s_eta1 S)) else if String.eqb f "eta2" then Some (VS (s_eta2 S))
    else if String.eqb f "eta3" then Some (VS (s_eta3 S))
    else if String.eqb f "max_trust_iters" then Some (VN (s_max_trust_iters S))
    else if String.eqb f "tol" then Some (VS (s_tol S))
    else if String.eqb f "max_cg_iters" then Some (VN (s_max_cg_iters S))
    else if String.eqb f "max_cumulative_cg_iters" then Some (VN (s_max_cumulative_cg_iters S))
    else if String.eqb f "tr_size" then Some (VS (s_tr_size S))
    else if String.eqb f "min_tr_size" then Some (VS (s_min_tr_size S))
    else if String.eqb f "use_preconditioned_inner_product_for_cg" then Some (VB (s_use_pc_ip S))
    else if String.eqb f "use_incremental_objective" then Some (VB (s_use_incremental S))
    else if String.eqb f "check_stability" then Some (VB chk)
    else None.

  Definition bin (op : binop) (a b : val) : option val :=
    match op, a, b with
    | BAdd, VV x, VV y => Some (VV (vadd x y))
    | BSub, VV x, VV y => Some (VV (vsub x y))
    | BMatMul, VV x, VV y => Some (VS (vdot x y))
    | BMul, VV x, k => option_map (fun t => VV (vscale t x)) (as_scalar k)
    | BMul, k, VV x => option_map (fun t => VV (vscale t x)) (as_scalar k)
    | BAdd, VN x, VN y => Some (VN (x + y))
    | BPow, x, VN n => option_map (fun t => VS (npow t n)) (as_scalar x)
    | BAdd, x, y => match as_scalar x, as_scalar y with Some s, Some t => Some (VS (nadd s t)) | _, _ => None end
    | BSub, x, y => match as_scalar x, as_scalar y with Some s, Some t => Some (VS (nsub s t)) | _, _ => None end
    | BMul, x, y => match as_scalar x, as_scalar y with Some s, Some t => Some (VS (nmul s t)) | _, _ => None end
    | BDiv, x, y => match as_scalar x, as_scalar y with Some s, Some t => Some (VQ s t) | _, _ => None end
    | _, _, _ => None
    end.

  Definition cmp (op : cmpop) (a b : val) : option val :=
    match a, b with
    | VQ n d, t => match op, plain t with
                   | CGe, Some thr => Some (VB (ege (ediv n d) thr))
                   | CGt, Some thr => Some (VB (egt (ediv n d) thr))
                   | _, _ => None end
    | VN x, VN y => Some (VB (match op with CLt => Nat.ltb x y | CLe => Nat.leb x y | CGt => Nat.ltb y x | CGe => Nat.leb y x
                                          | CEq => Nat.eqb x y end))
    | VT x, VT y => match op with CEq => Some (VB (steptag_eqb x y)) | _ => None end
    | x, y => match plain x, plain y with
              | Some s, Some t => match op with
                                  | CLt => Some (VB (nltb s t)) | CLe => Some (VB (nleb s t))
                                  | CGt => Some (VB (nltb t s)) | CGe => Some (VB (nleb t s)) | CEq => None end
              | _, _ => None end
    end.

  (* bound methods of the objective that return a value *)
  Definition meth (m : string) (args : list val) (st : state) : option val :=
    if String.eqb m "value" then match args with [VV x] => Some (VS (value x)) | _ => None end
    else if String.eqb m "gradient" then match args with [VV x] => Some (VV (grad x)) | _ => None end
    else if String.eqb m "hessian_vec" then match args with [VV x; VV v] => Some (VV (hessvec x v)) | _ => None end
    else if String.eqb m "multiply_by_approx_hessian" then match args with [VV v] => Some (VV (mult_approx (xp st) v)) | _ => None end
    else if String.eqb m "apply_precond" then match args with [VV v] => Some (VV (precond (xp st) v)) | _ => None end
    else None.

  (* a callable value as a vector function, given the expression evaluator (for closures); a failing body yields [] *)
  Definition fn1 (ev : expr -> state -> option val) (f : val) (st : state) : option (vec -> vec) :=
    match f with
    | VMeth m => if String.eqb m "multiply_by_approx_hessian" then Some (mult_approx (xp st))
                 else if String.eqb m "apply_precond" then Some (precond (xp st)) else None
    | VClo [p] body => Some (fun v => match ev body (with_env ((p, VV v) :: env st) st) with Some (VV r) => r | _ => [] end)
    | _ => None
    end.

  (* module-level functions that are not in the function table *)
  Definition prim (ev : expr -> state -> option val) (g : string) (args : list val) (st : state) : option val :=
    if String.eqb g "np.linalg.norm" then match args with [VV v] => Some (VS (vnorm v)) | _ => None end
    else if String.eqb g "np.sqrt" then match args with [x] => option_map (fun t => VS (nsqrt t)) (as_scalar x) | _ => None end
    else if String.eqb g "dogleg_step" then
      match args with
      | [VV cp; VV qn; tr; f] => match as_scalar tr, fn1 ev f st with
                                 | Some t, Some mm => Some (VV (dogleg_step mm cp qn t)) | _, _ => None end
      | _ => None end
    else if String.eqb g "solve_trust_region_minimization" then
      match args with
      | [VV x; VV r; hv; pc; tr; VSet] =>
          match fn1 ev hv st, fn1 ev pc st, as_scalar tr with
          | Some Hv, Some P, Some t =>
              let res := solve_trust_region_minimization Hv P (s_use_pc_ip S) t (s_cg_tol S) (s_cg_ratio S) (s_max_cg_iters S) x r in
              Some (VTup [VV (cg_z res); VV (cg_cauchy res); VT (cg_tag res); VN (cg_iters res)])
          | _, _, _ => None end
      | _ => None end
    else None.

  (* the condition is tested before the pass budget: a loop whose condition is false never reports OFuel *)
  Fixpoint while_loop (cond : state -> option bool) (body : state -> outcome) (k : nat) (st : state) : outcome :=
    match cond st with
    | Some false => ONormal st
    | Some true =>
        match k with
        | O => OFuel
        | Datatypes.S k' => match body st with ONormal st' => while_loop cond body k' st' | o => o end
        end
    | None => OError
    end.
  Fixpoint for_loop (body : nat -> state -> outcome) (n i : nat) (st : state) : outcome :=
    match n with
    | O => ONormal st
    | Datatypes.S n' => match body i st with ONormal st' => for_loop body n' (Datatypes.S i) st' | o => o end
    end.

  Fixpoint eval (F : nat) (e : expr) (st : state) {struct F} : option val :=
    match F with O => None | Datatypes.S F' =>
    match e with
    | EName x => match assoc x (env st) with Some VUnbound => None | r => r end
    | EGlobal x => match assoc x strconsts with
                   | Some s => option_map VT (tag_of_string s)
                   | None => Some (VGlob x) end
    | EAttr e a => match eval F' e st with
                   | Some VSet => setting_of a
                   | Some VObj => Some (VMeth a)
                   | Some (VGlob g) => Some (VGlob (g ++ "." ++ a))
                   | _ => None end
    | EFloat q me => Some (VS (nconst q me))
    | EInt n => Some (VN n)
    | EBool b => Some (VB b)
    | EStr s => option_map VT (tag_of_string s)
    | ENone => Some VNone
    | ENeg e => match eval F' e st with
                | Some (VV v) => Some (VV (vneg v))
                | Some v => option_map (fun t => VS (nopp t)) (as_scalar v)
                | None => None end
    | ENot e => match eval F' e st with Some v => option_map (fun b => VB (negb b)) (truthy v) | None => None end
    | EBin op a b => match eval F' a st, eval F' b st with Some x, Some y => bin op x y | _, _ => None end
    | ECmp op a b => match eval F' a st, eval F' b st with Some x, Some y => cmp op x y | _, _ => None end
    | EAnd a b => match eval F' a st, eval F' b st with Some (VB x), Some (VB y) => Some (VB (andb x y)) | _, _ => None end
    | EOr a b => match eval F' a st, eval F' b st with Some (VB x), Some (VB y) => Some (VB (orb x y)) | _, _ => None end
    | EIfExp c a b => match eval F' c st, eval F' a st, eval F' b st with       (* both branches are pure *)
                      | Some (VB cb), Some x, Some y => Some (if cb then x else y)
                      | _, _, _ => None end
    | ELambda ps body => Some (VClo ps body)
    | ETuple l => option_map VTup ((fix evs (l : list expr) : option (list val) :=
                     match l with [] => Some [] | a :: r => match eval F' a st, evs r with Some x, Some xs => Some (x :: xs) | _, _ => None end end) l)
    | ECall f args kws =>
        match kws with _ :: _ => None | [] =>
        match eval F' f st,
              (fix evs (l : list expr) : option (list val) :=
                 match l with [] => Some [] | a :: r => match eval F' a st, evs r with Some x, Some xs => Some (x :: xs) | _, _ => None end end) args with
        | Some fv, Some avs =>
            match fv with
            | VClo ps body => match bind_params ps avs with
                              | Some b => eval F' body (with_env (cat b (env st)) st) | None => None end
            | VMeth m => meth m avs st
            | VGlob g =>
                match assoc g ftable with
                | Some fd =>        (* a function of the module, run from its own syntax tree; it must not emit events *)
                    match bind_params (f_params fd) avs with
                    | Some b => match block F' (f_body fd) {| env := b; xp := xp st; trace := [] |} with
                                | OReturn v st' => match trace st' with [] => Some v | _ => None end
                                | _ => None end
                    | None => None end
                | None => prim (eval F') g avs st
                end
            | _ => None
            end
        | _, _ => None
        end end
    end end
  with exec (F : nat) (s : stmt) (st : state) {struct F} : outcome :=
    match F with O => OError | Datatypes.S F' =>
    match s with
    | SAssign [x] e => match eval F' e st with Some v => ONormal (assign x v st) | None => OError end
    | SAssign ts e => match eval F' e st with
                      | Some (VTup vs) => match assign_all ts vs st with Some st' => ONormal st' | None => OError end
                      | _ => OError end
    | SAug op x e => match eval F' (EName x) st, eval F' e st with
                     | Some a, Some b => match bin op a b with Some v => ONormal (assign x v st) | None => OError end
                     | _, _ => OError end
    | SSetAttr _ _ _ => OError
    | SIf c a b => match eval F' c st with
                   | Some v => match truthy v with
                               | Some cb => if cb then block F' a st else block F' b st
                               | None => OError end
                   | None => OError end
    | SWhile c body =>
        while_loop (fun st' => match eval F' c st' with Some v => truthy v | None => None end) (block F' body) wfuel st
    | SFor i n body =>
        match eval F' n st with
        | Some (VN k) => for_loop (fun j st' => block F' body (assign i (VN j) st')) k O st
        | _ => OError end
    | SReturn e => match eval F' e st with Some v => OReturn v st | None => OError end
    | SExpr (ECall f [a; _] []) =>          (* callback(x, objective) *)
        match eval F' f st, eval F' a st with
        | Some VCb, Some (VV x) => ONormal {| env := env st; xp := xp st; trace := (trace st ++ [RCallback x])%list |}
        | _, _ => OError end
    | SExpr (ECall f [a] []) =>             (* objective.update_precond(x) / objective.check_stability(x) *)
        match eval F' f st, eval F' a st with
        | Some (VMeth m), Some (VV x) =>
            if String.eqb m "update_precond" then ONormal {| env := env st; xp := x; trace := (trace st ++ [RPrecond x])%list |}
            else if String.eqb m "check_stability" then ONormal st
            else OError
        | _, _ => OError end
    | SExpr _ => OError
    end end
  with block (F : nat) (l : list stmt) (st : state) {struct F} : outcome :=
    match F with O => OError | Datatypes.S F' =>
    match l with
    | [] => ONormal st
    | s :: r => match exec F' s st with ONormal st' => block F' r st' | o => o end
    end end.

  (* run a function of the table on argument values; every name assigned in its body is pre-declared (unbound) so that the
     shape of the environment does not depend on the path taken *)
  Fixpoint assigned (F : nat) (l : list stmt) : list string :=
    match F with O => [] | Datatypes.S F' =>
    flat_map (fun s => match s with
                       | SAssign ts _ => ts | SAug _ x _ => [x]
                       | SIf _ a b => (assigned F' a ++ assigned F' b)%list
                       | SWhile _ b => assigned F' b
                       | SFor i _ b => i :: assigned F' b
                       | _ => [] end) l
    end.
  Definition declare (names : list string) (e : list (string * val)) : list (string * val) :=
    fold_left (fun acc n => match assoc n acc with Some _ => acc | None => (acc ++ [(n, VUnbound)])%list end) names e.
  Definition run (F : nat) (fd : fundef) (args : list val) (xp0 : vec) : outcome :=
    match bind_params (f_params fd) args with
    | Some b => block F (f_body fd) {| env := declare (assigned 50 (f_body fd)) b; xp := xp0; trace := [] |}
    | None => OError
    end.

  (* the observable result of a run: (returned point, flag, events); None for anything else, including fuel exhaustion *)
  Definition result_of (o : outcome) : option (vec * bool * list rawev) :=
    match o with
    | OReturn (VTup [VV x; VB f]) st => Some (x, f, trace st)
    | _ => None
    end.
End Interp.

Arguments VS {T} t. Arguments VQ {T} num den. Arguments VN {T} n. Arguments VB {T} b. Arguments VV {T} v. Arguments VT {T} t.
Arguments VClo {T} ps body. Arguments VMeth {T} m. Arguments VGlob {T} g. Arguments VObj {T}. Arguments VSet {T}. Arguments VCb {T}.
Arguments VNone {T}. Arguments VUnbound {T}. Arguments VTup {T} l.
Arguments RCallback {T} x. Arguments RPrecond {T} x.
Arguments ONormal {T} st. Arguments OReturn {T} v st. Arguments OFuel {T}. Arguments OError {T}.

(* what the hand model's events look like to an observer of callback / update_precond calls *)
Section Raw.
  Context {T : Type}.
  Definition raw_of (chk : bool) (e : event T) : list (@rawev T) :=
    match e with
    | EConvergedInit x => [RCallback x]
    | EAccept x _ => [RCallback x]
    | EConverged y => [RCallback y]
    | ETooSmall x => [RCallback x]
    | EMaxIters x => if chk then [RCallback x] else []
    | EPrecond x => [RPrecond x]
    | EOutOfFuel => []
    end.
  Definition raw (chk : bool) (tr : list (event T)) : list (@rawev T) := flat_map (raw_of chk) tr.
  Definition is_fuel (e : event T) : bool := match e with EOutOfFuel => true | _ => false end.
  Definition raw_result (chk : bool) (r : list T * bool * list (event T)) : option (list T * bool * list (@rawev T)) :=
    let '(x, f, tr) := r in if existsb is_fuel tr then None else Some (x, f, raw chk tr).
End Raw.
