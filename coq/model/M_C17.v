(* C17: executable model of optimism/ScalarRootFind.py:rtsafe_ (no proofs here).
   The loop test and the loop body are NOT hand-written: they are the kernels `loop_cond` / `loop_body` regenerated from the
   source on every run (gen/Gen_ScalarRootFind.v), applied to the black-box oracle x |-> (f x, f' x).
   Hand-written: the prologue (clip, bracketing test, end-point roots, orientation), the `while` as a fuelled recursion, the
   epilogue (NaN unless converged) and the three ways a NaN arises, made explicit because R has no NaN:
     NotBracketed  : no sign change (by signs) and no end point with |f| <= r_tol: x0 := nan and the final mask
                     converged & (rootIsBracketed | left | right) forces nan whatever f does with the nan marker
                     (iterations / residual reported by the code then depend on f; the model reports max_iters, 0, 0)
     ZeroOverZero  : an iterate with F = 0 and DF = 0 and not yet converged: the Newton branch is selected and computes -0/0.
                     Since the tests are |F| <= r_tol this needs r_tol < 0 (proved impossible for 0 <= r_tol in L_C17)
     IterCap       : the loop ends by i = max_iters with converged = false, the epilogue returns nan
   Generic in Num T: T := R for theorems, T := float for execution against the implementation, T := Q for exact witnesses. *)
From Coq Require Import ZArith QArith Bool List.
From OV.base Require Import Num.
From OV.gen Require Import Gen_ScalarRootFind.
Import ListNotations.

Inductive why := Converged | NotBracketed | ZeroOverZero | IterCap.

Section M.
  Context {T : Type} {NT : Num T}.

  (* root, dx, dxOld, F, DF, xl, xh, converged, i *)
  Definition carry : Type := (T * T * T * T * T * T * T * bool * T)%type.

  Definition c_root (c : carry) : T := let '(root, _, _, _, _, _, _, _, _) := c in root.
  Definition c_dx (c : carry) : T := let '(_, dx, _, _, _, _, _, _, _) := c in dx.
  Definition c_dxOld (c : carry) : T := let '(_, _, dxOld, _, _, _, _, _, _) := c in dxOld.
  Definition c_F (c : carry) : T := let '(_, _, _, F, _, _, _, _, _) := c in F.
  Definition c_DF (c : carry) : T := let '(_, _, _, _, DF, _, _, _, _) := c in DF.
  Definition c_xl (c : carry) : T := let '(_, _, _, _, _, xl, _, _, _) := c in xl.
  Definition c_xh (c : carry) : T := let '(_, _, _, _, _, _, xh, _, _) := c in xh.
  Definition c_conv (c : carry) : bool := let '(_, _, _, _, _, _, _, cv, _) := c in cv.
  Definition c_i (c : carry) : T := let '(_, _, _, _, _, _, _, _, i) := c in i.

  Definition cond (max_iters : T) (c : carry) : bool :=
    let '(root, dx, dxOld, F, DF, xl, xh, cv, i) := c in loop_cond max_iters root dx dxOld F DF xl xh cv i.

  Definition body (fdf : T -> T * T) (x_tol r_tol : T) (c : carry) : carry :=
    let '(root, dx, dxOld, F, DF, xl, xh, cv, i) := c in loop_body fdf x_tol r_tol root dx dxOld F DF xl xh cv i.

  (* the only state in which the body divides by zero with a selected result: F = 0 and DF = 0 (then both tests of the body
     are false and the Newton branch computes -0/0 = nan).  Proved in L_C17: if DF = 0 and F <> 0 the bisection branch is taken. *)
  Definition zero_over_zero (c : carry) : bool := andb (neqb (c_DF c) nzero) (neqb (c_F c) nzero).

  Inductive lres := LDone (c : carry) | LNaN (c : carry) | LFuel (c : carry).

  Fixpoint wloop (fdf : T -> T * T) (x_tol r_tol max_iters : T) (fuel : nat) (c : carry) : lres :=
    if cond max_iters c then
      match fuel with
      | O => LFuel c
      | S k => if zero_over_zero c then LNaN c else wloop fdf x_tol r_tol max_iters k (body fdf x_tol r_tol c)
      end
    else LDone c.

  (* x (None = nan), converged, iterations, last F, last dx, reason *)
  Inductive result := Res (x : option T) (conv : bool) (iters : T) (F dx : T) (w : why) | OutOfFuel.

  Definition clip (x lo hi : T) : T := nmin (nmax x lo) hi.     (* np.clip *)

  Definition init (f df : T -> T) (x0 b0 b1 r_tol : T) : option carry :=
    let fl := f b0 in
    let fh := f b1 in
    let x0c := clip x0 b0 b1 in
    let bracketed := nltb (nmul (nsign fl) (nsign fh)) nzero in     (* by signs: the product fl*fh can underflow in binary64 *)
    let lsol := nleb (nabs fl) r_tol in
    let rsol := nleb (nabs fh) r_tol in
    (* final mask `converged & (rootIsBracketed | left | right)`: without any of the three the result is nan whatever f returns *)
    if andb (negb bracketed) (andb (negb lsol) (negb rsol)) then None
    else
      let x0' := if rsol then b1 else if lsol then b0 else x0c in
      let F := f x0' in
      let conv0 := orb (orb lsol rsol) (nleb (nabs F) r_tol) in     (* the (clipped) initial guess may already be a root *)
      let xl := if nltb fl nzero then b0 else b1 in
      let xh := if nltb fl nzero then b1 else b0 in
      let dx0 := nabs (nsub b1 b0) in
      Some (x0', dx0, dx0, F, df x0', xl, xh, conv0, nzero).

  Definition rtsafe (f df : T -> T) (x0 b0 b1 : T) (max_iters : nat) (x_tol r_tol : T) : result :=
    let mi := nZ (Z.of_nat max_iters) in
    match init f df x0 b0 b1 r_tol with
    | None => Res None false mi nzero nzero NotBracketed
    | Some c0 =>
      match wloop (fun x => (f x, df x)) x_tol r_tol mi max_iters c0 with
      | LDone c => if c_conv c then Res (Some (c_root c)) true (c_i c) (c_F c) (c_dx c) Converged
                   else Res None false (c_i c) (c_F c) (c_dx c) IterCap
      | LNaN c => Res None false mi (c_F c) (c_dx c) ZeroOverZero
      | LFuel _ => OutOfFuel
      end
    end.

  (* ---- function families that both sides can evaluate identically (for execution only) ---- *)
  Fixpoint horner_acc (acc : T) (cs : list T) (x : T) : T :=
    match cs with [] => acc | a :: r => horner_acc (nadd (nmul acc x) a) r x end.
  Definition poly (cs : list T) (x : T) : T :=       (* cs = [a_n; ...; a_0], Horner *)
    match cs with [] => nzero | a :: r => horner_acc a r x end.
  Fixpoint sqrt_iter (k : nat) (x : T) : T := match k with O => x | S m => sqrt_iter m (nsqrt x) end.

  Inductive fam :=
  | FPoly (cs dcs : list T)                 (* f = poly cs, f' = poly dcs *)
  | FRoot (c a d : T) (k : nat) (twok : T)  (* f = a sign(x-c) |x-c|^(1/2^k) - d,  f' = a |x-c|^(1/2^k) / (2^k |x-c|) *)
  | FRat (c d : T).                         (* f = (x-c)/(1+|x-c|) - d,  f' = 1/(1+|x-c|)^2 *)

  Definition feval (g : fam) (x : T) : T :=
    match g with
    | FPoly cs _ => poly cs x
    | FRoot c a d k _ => let u := nsub x c in nsub (nmul (nmul a (nsign u)) (sqrt_iter k (nabs u))) d
    | FRat c d => let u := nsub x c in nsub (ndiv u (nadd nunit (nabs u))) d
    end.
  Definition fdiff (g : fam) (x : T) : T :=
    match g with
    | FPoly _ dcs => poly dcs x
    | FRoot c a d k twok => let u := nsub x c in ndiv (nmul a (sqrt_iter k (nabs u))) (nmul twok (nabs u))
    | FRat c d => let u := nsub x c in let w := nadd nunit (nabs u) in ndiv nunit (nmul w w)
    end.

  Definition why_code (w : why) : Z := match w with Converged => 0 | NotBracketed => 1 | ZeroOverZero => 2 | IterCap => 3 end%Z.
End M.

(* encoding of a float result for the harness: [why; conv; x; iters; F; dx] *)
Definition enc_result (r : @result PrimFloat.float) : list Z :=
  match r with
  | Res x cv it F dx w =>
      why_code w :: (if cv then 1%Z else 0%Z) :: (fenc (match x with Some v => v | None => PrimFloat.nan end) ++ fenc it ++ fenc F ++ fenc dx)
  | OutOfFuel => [(-1)%Z]
  end.
